package c13

import (
	"github.com/NVIDIA/KAI-scheduler/pkg/scheduler/api/pod_status"

	"kaiverif/internal/core"
	"kaiverif/internal/cycle"
)

type corpusCase struct {
	name  string
	c     cycle.Cluster
	cmds  []cmdSpec
	fails map[int]bool
	wf    bool
	dra   *draSpec // DRA devices and claims of the world (nil: none)
}

func node(name string, gpus int64) core.NodeSpec {
	return core.NodeSpec{Name: name, Cpu: 16000, Mem: 64 << 30, Gpus: gpus, Pods: 110}
}

func job1(name string, p core.PodSpec) cycle.Job {
	p.Name = name + "-0"
	if p.Cpu == 0 {
		p.Cpu = 100
	}
	if p.Mem == 0 {
		p.Mem = 1 << 20
	}
	return cycle.Job{Name: name, Queue: "q1", Priority: 50, MinMember: 1, AgeMinutes: 5, StartedMins: 5, Pods: []core.PodSpec{p}}
}

func base(nodes []core.NodeSpec, jobs ...cycle.Job) cycle.Cluster {
	return cycle.Cluster{Nodes: nodes, Queues: []cycle.Queue{{Name: "q1", Deserved: 4, OverQuota: 1, Priority: 100}}, Jobs: jobs, Actions: []string{"statement"}}
}

// corpus: fixed boundary programs, run first. They are the replays on the real Statement of the
// witnesses used in coq/Properties/C13.v.
func corpus() []corpusCase {
	run, pend, rel := pod_status.Running, pod_status.Pending, pod_status.Releasing
	n1 := []core.NodeSpec{node("n1", 4)}
	n2 := []core.NodeSpec{node("n1", 4), node("n2", 4)}
	frac := func(st pod_status.PodStatus, nodeName string, gs ...string) core.PodSpec {
		return core.PodSpec{Fraction: "0.5", Status: st, Node: nodeName, Groups: gs}
	}
	whole := func(st pod_status.PodStatus, nodeName string, g int64) core.PodSpec {
		return core.PodSpec{Gpus: g, Status: st, Node: nodeName}
	}
	two := cycle.Job{Name: "g", Queue: "q1", Priority: 50, MinMember: 2, AgeMinutes: 5, Pods: []core.PodSpec{
		{Name: "g-0", Cpu: 100, Mem: 1 << 20, Gpus: 1, Status: pend}, {Name: "g-1", Cpu: 100, Mem: 1 << 20, Gpus: 1, Status: pend}}}
	// evict, un-evict, evict, un-evict of ONE pod inside one statement (the second un-eviction has to skip the
	// stale first evict entry): by Unevict and by Pipeline onto the pod's own node and devices, for a whole-GPU and
	// a fractional pod, followed by nothing / Commit / Rollback / Discard, and with other operations in between
	ev := func(p string) cmdSpec { return cmdSpec{Kind: "evict", Pod: p} }
	un := func(p string) cmdSpec { return cmdSpec{Kind: "unevict", Pod: p} }
	back := func(p, n string, gs ...string) cmdSpec {
		return cmdSpec{Kind: "pipeline", Pod: p, Node: n, HasGroups: len(gs) > 0, Groups: gs}
	}
	cp, commit, discard := cmdSpec{Kind: "checkpoint"}, cmdSpec{Kind: "commit"}, cmdSpec{Kind: "discard"}
	rb := func(i int) cmdSpec { return cmdSpec{Kind: "rollback", Cp: -i} }
	twice := func() cycle.Cluster {
		return base(n2, job1("a", whole(run, "n1", 1)), job1("f", frac(run, "n1", "n1-G1")), job1("h", frac(run, "n1", "n1-G1")),
			job1("c", whole(pend, "", 1)))
	}
	var again []corpusCase
	for _, v := range []struct {
		name string
		pod  string
		u    func() cmdSpec
	}{
		{"unevict-whole", "a-0", func() cmdSpec { return un("a-0") }},
		{"unevict-fraction", "f-0", func() cmdSpec { return un("f-0") }},
		{"pipeline-own-node-whole", "a-0", func() cmdSpec { return back("a-0", "n1") }},
		{"pipeline-own-node-fraction", "f-0", func() cmdSpec { return back("f-0", "n1", "n1-G1") }},
	} {
		four := func() []cmdSpec { return []cmdSpec{ev(v.pod), v.u(), ev(v.pod), v.u()} }
		again = append(again,
			corpusCase{name: "L1-twice-" + v.name, wf: true, c: twice(), cmds: four()},
			corpusCase{name: "L2-twice-commit-" + v.name, wf: true, c: twice(), cmds: append(four(), commit)},
			corpusCase{name: "L3-twice-discard-" + v.name, wf: true, c: twice(), cmds: append(four(), discard)},
			corpusCase{name: "L4-twice-rollback-" + v.name, wf: true, c: twice(), cmds: append(append([]cmdSpec{cp}, four()...), rb(1), commit)},
			corpusCase{name: "L5-thrice-then-evicted-commit-" + v.name, wf: true, c: twice(),
				cmds: append(append(four(), ev(v.pod), v.u(), ev(v.pod)), commit)},
			corpusCase{name: "L6-twice-interleaved-" + v.name, wf: true, c: twice(),
				cmds: []cmdSpec{ev(v.pod), ev("h-0"), back("c-0", "n2"), v.u(), cp, ev(v.pod), un("h-0"), v.u(), ev("h-0"), commit}},
			corpusCase{name: "L7-second-unevict-rolled-back-" + v.name, wf: true, c: twice(),
				cmds: []cmdSpec{ev(v.pod), v.u(), ev(v.pod), cp, v.u(), rb(1), commit}},
			corpusCase{name: "L8-first-unevict-rolled-back-then-twice-" + v.name, wf: true, c: twice(),
				cmds: []cmdSpec{ev(v.pod), cp, v.u(), rb(1), v.u(), ev(v.pod), v.u(), cp, ev("h-0"), rb(2), discard}},
		)
	}
	again = append(again,
		corpusCase{name: "L9-twice-mixed-unevict-then-pipeline", wf: true, c: twice(),
			cmds: []cmdSpec{ev("f-0"), un("f-0"), ev("f-0"), back("f-0", "n1", "n1-G1"), ev("a-0"), back("a-0", "n1"), ev("a-0"), un("a-0"), commit}},
		corpusCase{name: "L10-twice-then-moved", wf: true, c: twice(),
			cmds: []cmdSpec{ev("f-0"), un("f-0"), ev("f-0"), un("f-0"), ev("f-0"), back("f-0", "n1", "x1"), ev("a-0"), un("a-0"), ev("a-0"), back("a-0", "n2"), commit}},
		corpusCase{name: "L11-twice-evict-failure", wf: true, c: twice(), fails: map[int]bool{0: true},
			cmds: []cmdSpec{ev("a-0"), un("a-0"), ev("a-0"), un("a-0"), ev("a-0"), ev("f-0"), commit}},
	)
	// Evict applied to a pod that is already Releasing (Statement.Evict leaves it alone since 83a0ca3 + bce7109): the pod
	// evicted twice / three times by one statement, with a checkpoint and a rollback around the second Evict,
	// followed by Unevict / Pipeline onto its own node / Discard / Commit (also with a failing Cache.Evict), and a pod
	// that is terminating in the snapshot. Each pod must be evicted at most once by the Commit, nothing must be
	// emitted for the ignored or the undone steps, and Rollback / Discard must give back the dumps.
	for _, v := range []struct {
		name string
		pod  string
		back cmdSpec
	}{
		{"whole", "a-0", back("a-0", "n1")},
		{"fraction", "f-0", back("f-0", "n1", "n1-G1")},
	} {
		again = append(again,
			corpusCase{name: "D1-evict-twice-commit-" + v.name, wf: true, c: twice(), cmds: []cmdSpec{ev(v.pod), ev(v.pod), commit}},
			corpusCase{name: "D2-evict-checkpoint-evict-rollback-commit-" + v.name, wf: true, c: twice(),
				cmds: []cmdSpec{ev(v.pod), cp, ev(v.pod), rb(1), commit}},
			corpusCase{name: "D3-evict-twice-unevict-commit-" + v.name, wf: true, c: twice(), cmds: []cmdSpec{ev(v.pod), ev(v.pod), un(v.pod), commit}},
			corpusCase{name: "D4-evict-twice-discard-" + v.name, wf: true, c: twice(), cmds: []cmdSpec{ev(v.pod), ev(v.pod), discard}},
			corpusCase{name: "D5-evict-twice-pipeline-own-node-commit-" + v.name, wf: true, c: twice(),
				cmds: []cmdSpec{ev(v.pod), ev(v.pod), v.back, commit}},
			corpusCase{name: "D6-evict-thrice-unevict-evict-twice-commit-" + v.name, wf: true, c: twice(),
				cmds: []cmdSpec{ev(v.pod), ev(v.pod), ev(v.pod), un(v.pod), ev(v.pod), ev(v.pod), commit}},
			corpusCase{name: "D7-evict-twice-evict-failure-" + v.name, wf: true, c: twice(), fails: map[int]bool{0: true},
				cmds: []cmdSpec{ev(v.pod), ev(v.pod), ev("h-0"), ev("h-0"), commit}},
			corpusCase{name: "D8-evict-twice-inside-rolled-back-checkpoint-" + v.name, wf: true, c: twice(),
				cmds: []cmdSpec{cp, ev(v.pod), ev(v.pod), back("c-0", "n2"), ev(v.pod), rb(1), ev(v.pod), ev(v.pod), commit}},
			corpusCase{name: "D9-evict-commit-evict-again-commit-" + v.name, wf: true, c: twice(),
				cmds: []cmdSpec{ev(v.pod), commit, ev(v.pod), ev("h-0"), ev(v.pod), commit}},
		)
	}
	terminating := func() cycle.Cluster {
		return base(n1, job1("a", whole(run, "n1", 1)), job1("b", whole(rel, "n1", 1)), job1("t", frac(rel, "n1", "n1-G1")), job1("f", frac(run, "n1", "n1-G1")))
	}
	again = append(again,
		corpusCase{name: "D10-evict-terminating-commit", wf: true, c: terminating(), cmds: []cmdSpec{ev("b-0"), ev("t-0"), commit}},
		corpusCase{name: "D11-evict-terminating-among-evictions-rollback-commit", wf: true, c: terminating(),
			cmds: []cmdSpec{ev("b-0"), cp, ev("a-0"), ev("t-0"), ev("a-0"), ev("f-0"), rb(1), ev("t-0"), ev("f-0"), ev("b-0"), commit}},
		corpusCase{name: "D12-evict-terminating-discard", wf: true, c: terminating(), cmds: []cmdSpec{ev("t-0"), ev("a-0"), ev("b-0"), ev("a-0"), discard}},
	)
	// The second Evict is handed another PodInfo object of the same pod, whose Status is still Running: the scenario
	// solvers keep their own copies of the victims (RecordedVictimsTasks / potentialVictimsTasks), taken before the
	// earlier evictions of the statement. Statement.Evict has to look at the session's own object.
	stale := func(p string) cmdSpec { return cmdSpec{Kind: "evict", Pod: p, Stale: true} }
	again = append(again,
		corpusCase{name: "S1-evict-then-evict-stale-copy-commit", wf: true, c: twice(), cmds: []cmdSpec{ev("a-0"), stale("a-0"), commit}},
		corpusCase{name: "S2-evict-then-evict-stale-copy-rollback-commit", wf: true, c: twice(),
			cmds: []cmdSpec{ev("f-0"), cp, stale("f-0"), ev("a-0"), rb(1), commit}},
		corpusCase{name: "S3-evict-then-evict-stale-copy-discard", wf: true, c: twice(), cmds: []cmdSpec{ev("a-0"), stale("a-0"), discard}},
		corpusCase{name: "S4-evict-stale-copies-unevict-commit", wf: true, c: twice(),
			cmds: []cmdSpec{ev("f-0"), ev("h-0"), stale("f-0"), stale("h-0"), stale("f-0"), un("f-0"), commit}},
		corpusCase{name: "S5-evict-commit-evict-stale-copy-commit", wf: true, c: twice(),
			cmds: []cmdSpec{ev("a-0"), commit, stale("a-0"), ev("f-0"), stale("a-0"), commit}},
	)
	// Erasure: an abandoned what-if step must leave no trace in what is decided and emitted afterwards. E1 is the
	// scenario of seeded/C13-2/README.md: two nodes with one GPU of 8000 / 16000 MiB, one Pending pod asking for
	// 4000 MiB of GPU memory (half a GPU on node-8g, a quarter on node-16g); it is placed on node-8g, that step is
	// rolled back, it is placed on node-16g and committed. The Bind must carry portion 0.25 and the queue must be
	// charged 0.25 GPUs, as when the pod is placed on node-16g straight away.
	gnode := func(name string, gpus, mem int64) core.NodeSpec {
		return core.NodeSpec{Name: name, Cpu: 16000, Mem: 64 << 30, Gpus: gpus, Pods: 110, GpuMem: mem}
	}
	readme := func() cycle.Cluster {
		c := base([]core.NodeSpec{gnode("node-8g", 1, 8000), gnode("node-16g", 1, 16000)},
			job1("pending_job0", core.PodSpec{GpuMemory: 4000, Status: pend}))
		c.Queues[0].Deserved = 2
		return c
	}
	al := func(p, n string, gs ...string) cmdSpec {
		return cmdSpec{Kind: "allocate", Pod: p, Node: n, HasGroups: len(gs) > 0, Groups: gs}
	}
	p0 := "pending_job0-0"
	hetero3 := func() cycle.Cluster {
		return base([]core.NodeSpec{gnode("n1", 2, 100), gnode("n2", 2, 200), gnode("n3", 2, 400)},
			job1("a", core.PodSpec{GpuMemory: 50, Status: run, Node: "n1", Groups: []string{"n1-G1"}}),
			job1("b", core.PodSpec{GpuMemory: 50, Status: pend}),
			job1("c", core.PodSpec{Fraction: "0.25", Status: run, Node: "n2", Groups: []string{"n2-G1"}}),
			job1("d", core.PodSpec{Gpus: 1, Status: pend}))
	}
	again = append(again,
		corpusCase{name: "E1-readme-allocate-8g-rollback-allocate-16g-commit", wf: true, c: readme(),
			cmds: []cmdSpec{cp, al(p0, "node-8g", "x1"), rb(1), al(p0, "node-16g", "x2"), commit}},
		corpusCase{name: "E2-readme-pipeline-8g-rollback-pipeline-16g-commit", wf: true, c: readme(),
			cmds: []cmdSpec{cp, back(p0, "node-8g", "x1"), rb(1), back(p0, "node-16g", "x2"), commit}},
		corpusCase{name: "E3-readme-allocate-8g-discard-allocate-16g-commit", wf: true, c: readme(),
			cmds: []cmdSpec{al(p0, "node-8g", "x1"), discard, al(p0, "node-16g", "x2"), commit}},
		corpusCase{name: "E4-readme-allocate-16g-rollback-allocate-8g-commit", wf: true, c: readme(),
			cmds: []cmdSpec{cp, al(p0, "node-16g", "x1"), rb(1), al(p0, "node-8g", "x2"), commit}},
		corpusCase{name: "E5-readme-nested-8g-16g-8g-rollbacks-allocate-16g-commit", wf: true, c: readme(),
			cmds: []cmdSpec{cp, al(p0, "node-8g", "x1"), rb(1), cp, back(p0, "node-16g", "x2"), cp, rb(2), rb(1), cp, al(p0, "node-8g", "x3"), rb(1),
				al(p0, "node-16g", "x4"), commit}},
		corpusCase{name: "E6-readme-pipeline-8g-rollback-allocate-16g-convert-commit", wf: true, c: readme(),
			cmds: []cmdSpec{cp, back(p0, "node-8g", "x1"), rb(1), al(p0, "node-16g", "x2"), {Kind: "convert", Job: "pending_job0"}, commit}},
		corpusCase{name: "E7-readme-bind-refused-after-abandoned-placement", wf: true, c: readme(), fails: map[int]bool{0: true},
			cmds: []cmdSpec{cp, al(p0, "node-8g", "x1"), rb(1), al(p0, "node-16g", "x2"), commit}},
		corpusCase{name: "E8-evicted-gpu-memory-pod-tried-on-two-other-sizes-then-third", wf: true, c: hetero3(),
			cmds: []cmdSpec{ev("a-0"), cp, back("a-0", "n2", "x1"), rb(1), cp, back("a-0", "n3", "x2"), rb(1), back("a-0", "n2", "n2-G1"),
				cp, al("b-0", "n3", "x3"), al("d-0", "n3"), rb(2), back("b-0", "n1", "n1-G1"), commit}},
		corpusCase{name: "E9-two-statements-abandoned-placements-in-both", wf: true, c: hetero3(),
			cmds: []cmdSpec{cp, al("b-0", "n1", "x1"), rb(1), al("d-0", "n2"), commit, cp, al("b-0", "n3", "x2"), ev("c-0"), rb(1), al("b-0", "n2", "x3"),
				ev("a-0"), discard, back("b-0", "n3", "x4"), commit}},
		// the witness of C13_erasure_refuted on the real Statement: an evicted fractional pod is nominated on
		// another node with fresh devices, the nomination is rolled back (the pod keeps the assigned GPU groups,
		// W2), the eviction is committed: the pod ends Releasing with the GPU groups of the abandoned nomination
		corpusCase{name: "E10-evicted-fraction-keeps-groups-of-abandoned-nomination-after-commit", wf: true,
			c:    base(n2, job1("a", frac(run, "n1", "n1-G1"))),
			cmds: []cmdSpec{ev("a-0"), cp, back("a-0", "n2", "x1"), rb(1), commit}},
	)
	return append(again, []corpusCase{
		{name: "W1-device-guard", wf: true,
			c: base(n1, job1("a", frac(run, "n1", "n1-G1")), job1("b", whole(rel, "n1", 1)), job1("c", whole(run, "n1", 1)), job1("d", whole(pend, "", 2))),
			cmds: []cmdSpec{{Kind: "pipeline", Pod: "d-0", Node: "n1"}, {Kind: "checkpoint"}, {Kind: "evict", Pod: "a-0"},
				{Kind: "rollback", Cp: -1}, {Kind: "discard"}}},
		{name: "W2-stale-gpu-groups", wf: true,
			c: base(n1, job1("a", frac(pend, ""))),
			cmds: []cmdSpec{{Kind: "checkpoint"}, {Kind: "pipeline", Pod: "a-0", Node: "n1", HasGroups: true, Groups: []string{"x1"}},
				{Kind: "rollback", Cp: -1}}},
		{name: "W3-evict-twice", wf: true,
			c:    base(n1, job1("a", whole(run, "n1", 1))),
			cmds: []cmdSpec{{Kind: "evict", Pod: "a-0"}, {Kind: "evict", Pod: "a-0"}, {Kind: "commit"}}},
		{name: "W4-same-node-gpu-move", wf: true,
			c: base(n1, job1("a", frac(run, "n1", "n1-G1")), job1("b", frac(run, "n1", "n1-G1"))),
			cmds: []cmdSpec{{Kind: "evict", Pod: "a-0"}, {Kind: "pipeline", Pod: "a-0", Node: "n1", HasGroups: true, Groups: []string{"x1"}},
				{Kind: "discard"}}},
		{name: "W5-convert", wf: true,
			c: base(n1, two, job1("b", whole(rel, "n1", 4))),
			cmds: []cmdSpec{{Kind: "allocate", Pod: "g-0", Node: "n1"}, {Kind: "pipeline", Pod: "g-1", Node: "n1"},
				{Kind: "convert", Job: "g"}, {Kind: "commit"}}},
		{name: "W6-bind-failure", wf: true, fails: map[int]bool{0: true},
			c:    base(n1, two),
			cmds: []cmdSpec{{Kind: "allocate", Pod: "g-0", Node: "n1"}, {Kind: "allocate", Pod: "g-1", Node: "n1"}, {Kind: "commit"}}},
		{name: "W7-evict-failure", wf: true, fails: map[int]bool{0: true},
			c:    base(n1, job1("a", whole(run, "n1", 1)), job1("b", frac(run, "n1", "n1-G1"))),
			cmds: []cmdSpec{{Kind: "evict", Pod: "a-0"}, {Kind: "evict", Pod: "b-0"}, {Kind: "commit"}}},
		{name: "W8-stale-groups-then-evict-failure", wf: true, fails: map[int]bool{0: true},
			c: base(n2, job1("a", frac(run, "n1", "n1-G1"))),
			cmds: []cmdSpec{{Kind: "evict", Pod: "a-0"}, {Kind: "checkpoint"},
				{Kind: "pipeline", Pod: "a-0", Node: "n2", HasGroups: true, Groups: []string{"x1"}}, {Kind: "rollback", Cp: -1}, {Kind: "commit"}}},
		{name: "W9-nominate-on-releasing-device", wf: true,
			c: base(n1, job1("a", frac(run, "n1", "n1-G1")), job1("b", whole(run, "n1", 1)), job1("c", core.PodSpec{Fraction: "0.25", Status: rel, Node: "n1", Groups: []string{"n1-G2"}}), job1("d", frac(pend, ""))),
			cmds: []cmdSpec{{Kind: "checkpoint"}, {Kind: "pipeline", Pod: "d-0", Node: "n1", HasGroups: true, Groups: []string{"n1-G2"}},
				{Kind: "rollback", Cp: -1}}},
		{name: "W11-gpu-memory-pod-between-nodes-of-different-gpu-memory", wf: true,
			c: base([]core.NodeSpec{{Name: "n1", Cpu: 16000, Mem: 64 << 30, Gpus: 2, Pods: 110, GpuMem: 100}, {Name: "n2", Cpu: 16000, Mem: 64 << 30, Gpus: 2, Pods: 110, GpuMem: 200}},
				job1("a", core.PodSpec{GpuMemory: 50, Status: run, Node: "n1", Groups: []string{"n1-G1"}}), job1("b", core.PodSpec{Fraction: "0.25", Status: run, Node: "n2", Groups: []string{"n2-G1"}})),
			cmds: []cmdSpec{{Kind: "evict", Pod: "a-0"}, {Kind: "checkpoint"}, {Kind: "pipeline", Pod: "a-0", Node: "n2", HasGroups: true, Groups: []string{"x1"}},
				{Kind: "rollback", Cp: -1}, {Kind: "evict", Pod: "b-0"}, {Kind: "pipeline", Pod: "b-0", Node: "n1", HasGroups: true, Groups: []string{"n1-G1"}}, {Kind: "discard"}}},
		{name: "W10-evict-move-unevict-nested", wf: true,
			c: base(n2, job1("a", frac(run, "n1", "n1-G1")), job1("b", whole(run, "n1", 2)), job1("c", whole(pend, "", 1))),
			cmds: []cmdSpec{{Kind: "evict", Pod: "a-0"}, {Kind: "checkpoint"}, {Kind: "evict", Pod: "b-0"}, {Kind: "pipeline", Pod: "c-0", Node: "n1"},
				{Kind: "pipeline", Pod: "a-0", Node: "n1", HasGroups: true, Groups: []string{"n1-G1"}}, {Kind: "checkpoint"},
				{Kind: "pipeline", Pod: "b-0", Node: "n2"}, {Kind: "rollback", Cp: -2}, {Kind: "rollback", Cp: -1}, {Kind: "commit"}}},
		// queue usage is a float64 sum: a placement of a pod whose GPU portion is not a binary fraction (0.3; a gpu-memory
		// request of 82173 MiB on 81900 MiB devices = 1.01) that is abandoned leaves 2 + x - x = 1.9999999999999998 GPUs
		// in the queue and Session.QueueAllocatedResources reports 1 (finding C13-queue-usage-float-drift, flag 3)
		{name: "Q1-fraction-0.3-allocate-discard-queue-usage-float-drift", wf: true,
			c: base(n1, job1("a", whole(run, "n1", 1)), job1("b", whole(run, "n1", 1)), job1("f", core.PodSpec{Fraction: "0.3", Status: pend})),
			cmds: []cmdSpec{{Kind: "allocate", Pod: "f-0", Node: "n1", HasGroups: true, Groups: []string{"x1"}}, {Kind: "discard"},
				{Kind: "checkpoint"}, {Kind: "pipeline", Pod: "f-0", Node: "n1", HasGroups: true, Groups: []string{"x1"}}, {Kind: "rollback", Cp: -1}}},
		{name: "Q2-gpu-memory-above-one-device-allocate-discard-queue-usage-float-drift", wf: true,
			c: base([]core.NodeSpec{{Name: "n1", Cpu: 16000, Mem: 64 << 30, Gpus: 4, Pods: 110, GpuMem: 81900}},
				job1("a", whole(run, "n1", 1)), job1("b", whole(run, "n1", 1)), job1("m", core.PodSpec{GpuMemory: 82173, Status: pend})),
			cmds: []cmdSpec{{Kind: "allocate", Pod: "m-0", Node: "n1", HasGroups: true, Groups: []string{"x1"}}, {Kind: "discard"}}},
	}...)
}
