package c13

// DRA resource claims in the C13 worlds.
//
// A world may carry a draSpec: DRA devices per node (one ResourceSlice per node, devices "0".."k-1"), ResourceClaims
// (allocated on given devices with a given ReservedFor set, or unallocated) and the claims every pod references.
// The session is assembled like cycle.Build does (same constructors, same default plugin tiers, which include the
// dynamicresources plugin) with the DRA objects handed to the fake clientset behind the session's cache, so the real
// plugin handlers (allocate / deallocate, structured allocator of k8s.io/dynamic-resource-allocation) run on every
// statement primitive.  The device class is not a GPU class (its name does not contain "gpu"), so a pod's resource
// request, the node accounting and the queue usage are exactly those of the pod without claims and the model of
// coq/Model/Session.v applies unchanged; the claim bookkeeping is followed by coq/Model/SessionClaims.v.
//
// The dump after every command gains, per pod, its ResourceClaimInfo (pod claim -> devices of the recorded
// allocation, or no allocation) and, per claim, the view of the plugin's claim tracker (the DRA manager's assume
// cache: allocated devices, ReservedFor set).

import (
	"fmt"
	"sort"
	"strings"
	"time"

	"go.uber.org/mock/gomock"
	v1 "k8s.io/api/core/v1"
	resourceapi "k8s.io/api/resource/v1"
	metav1 "k8s.io/apimachinery/pkg/apis/meta/v1"
	"k8s.io/apimachinery/pkg/types"

	enginev2alpha2 "github.com/NVIDIA/KAI-scheduler/pkg/apis/scheduling/v2alpha2"
	pg "github.com/NVIDIA/KAI-scheduler/pkg/common/podgroup"
	"github.com/NVIDIA/KAI-scheduler/pkg/scheduler/actions"
	"github.com/NVIDIA/KAI-scheduler/pkg/scheduler/api/common_info"
	"github.com/NVIDIA/KAI-scheduler/pkg/scheduler/api/node_info"
	"github.com/NVIDIA/KAI-scheduler/pkg/scheduler/api/pod_info"
	"github.com/NVIDIA/KAI-scheduler/pkg/scheduler/api/pod_status"
	"github.com/NVIDIA/KAI-scheduler/pkg/scheduler/api/podgroup_info"
	"github.com/NVIDIA/KAI-scheduler/pkg/scheduler/api/resource_info"
	"github.com/NVIDIA/KAI-scheduler/pkg/scheduler/cache"
	"github.com/NVIDIA/KAI-scheduler/pkg/scheduler/cache/cluster_info"
	"github.com/NVIDIA/KAI-scheduler/pkg/scheduler/plugins"
	"github.com/NVIDIA/KAI-scheduler/pkg/scheduler/test_utils"
	"github.com/NVIDIA/KAI-scheduler/pkg/scheduler/test_utils/dra_fake"

	"kaiverif/internal/core"
	"kaiverif/internal/cycle"
	u "kaiverif/internal/util"
)

const (
	draClass  = "accel.example.com" // not a GPU device class: resources.IsGPUDeviceClass looks for "gpu" in the name
	draDriver = "nvidia.com/gpu"    // the driver name test_utils gives every ResourceSlice
	draNs     = "ns"                // namespace of the pods core.PodSpec builds
)

type claimSpec struct {
	Name      string
	Count     int64    // devices requested (ExactCount)
	Node      string   // pool of the allocated devices ("" = not allocated)
	Devices   []int    // indices of the allocated devices in the node's slice
	Consumers []string // pods in status.reservedFor
}

type draSpec struct {
	Devs      map[string]int      // node -> number of DRA devices it publishes
	Claims    []claimSpec         // in id order
	PodClaims map[string][]string // pod -> claims it references (pod claim name = claim name)
}

func (d *draSpec) describe() string {
	if d == nil {
		return ""
	}
	var ns []string
	for _, n := range sortedKeys(d.Devs) {
		ns = append(ns, fmt.Sprintf("%s:%d", n, d.Devs[n]))
	}
	var cs []string
	for _, c := range d.Claims {
		at := "unallocated"
		if c.Node != "" {
			ds := make([]string, len(c.Devices))
			for i, x := range c.Devices {
				ds[i] = fmt.Sprint(x)
			}
			at = c.Node + "/" + strings.Join(ds, "+")
		}
		cs = append(cs, fmt.Sprintf("%s(x%d)@%s reservedFor[%s]", c.Name, c.Count, at, strings.Join(c.Consumers, ",")))
	}
	var ps []string
	for _, p := range sortedKeys(d.PodClaims) {
		ps = append(ps, p+"->"+strings.Join(d.PodClaims[p], "+"))
	}
	return fmt.Sprintf(" dra{devices[%s] claims[%s] pods[%s]}", strings.Join(ns, " "), strings.Join(cs, "; "), strings.Join(ps, " "))
}

func (d *draSpec) claimStatus(c claimSpec) *resourceapi.ResourceClaimStatus {
	if c.Node == "" && len(c.Consumers) == 0 {
		return nil
	}
	st := &resourceapi.ResourceClaimStatus{}
	if c.Node != "" {
		al := &resourceapi.AllocationResult{}
		for _, x := range c.Devices {
			al.Devices.Results = append(al.Devices.Results, resourceapi.DeviceRequestAllocationResult{
				Request: "request", Driver: draDriver, Pool: c.Node, Device: fmt.Sprint(x)})
		}
		st.Allocation = al
	}
	for _, p := range c.Consumers {
		st.ReservedFor = append(st.ReservedFor, resourceapi.ResourceClaimConsumerReference{Resource: "pods", Name: p, UID: types.UID(p)})
	}
	return st
}

func (d *draSpec) testObjects() dra_fake.TestDRAObjects {
	o := dra_fake.TestDRAObjects{DeviceClasses: []string{draClass}}
	for _, n := range sortedKeys(d.Devs) {
		if d.Devs[n] > 0 {
			o.ResourceSlices = append(o.ResourceSlices, &dra_fake.TestResourceSlice{Name: n + "-accel", DeviceClassName: draClass, NodeName: n, Count: d.Devs[n]})
		}
	}
	for _, c := range d.Claims {
		o.ResourceClaims = append(o.ResourceClaims, &dra_fake.TestResourceClaim{Name: c.Name, Namespace: draNs, DeviceClassName: draClass,
			Count: c.Count, ClaimStatus: d.claimStatus(c)})
	}
	return o
}

// claimObject is the ResourceClaim as test_utils builds it from a TestResourceClaim (what NewTaskInfo reads of it:
// namespace / name and status.allocation).
func (d *draSpec) claimObject(c claimSpec) *resourceapi.ResourceClaim {
	o := &resourceapi.ResourceClaim{
		ObjectMeta: metav1.ObjectMeta{Name: c.Name, Namespace: draNs, ResourceVersion: "0"},
		Spec: resourceapi.ResourceClaimSpec{Devices: resourceapi.DeviceClaim{Requests: []resourceapi.DeviceRequest{{Name: "request",
			Exactly: &resourceapi.ExactDeviceRequest{DeviceClassName: draClass, AllocationMode: resourceapi.DeviceAllocationModeExactCount, Count: c.Count}}}}},
	}
	if st := d.claimStatus(c); st != nil {
		o.Status = *st
	}
	return o
}

type draReporter struct{ msgs []string }

func (r *draReporter) Errorf(format string, args ...any) { r.msgs = append(r.msgs, fmt.Sprintf(format, args...)) }
func (r *draReporter) Fatalf(format string, args ...any) { r.msgs = append(r.msgs, fmt.Sprintf(format, args...)) }

// buildDRA assembles the session of a cluster with DRA objects: cycle.Build with the pods referencing their claims
// and the DRA objects in the fake API server.
func buildDRA(c cycle.Cluster, d *draSpec) *cycle.Built {
	actions.InitDefaultActions()
	plugins.InitDefaultPlugins()
	vm := resource_info.NewResourceVectorMap()
	cpai := cache.NewK8sClusterPodAffinityInfo()
	b := &cycle.Built{Nodes: map[string]*node_info.NodeInfo{}, Jobs: map[common_info.PodGroupID]*podgroup_info.PodGroupInfo{},
		Tasks: map[string]*pod_info.PodInfo{}, VM: vm}
	for _, ns := range c.Nodes {
		vm.AddResourceList(ns.K8s().Status.Allocatable)
	}
	for _, ns := range c.Nodes {
		n := ns.K8s()
		b.Nodes[ns.Name] = node_info.NewNodeInfo(n, cluster_info.NewK8sNodePodAffinityInfo(n, cpai), vm)
	}
	claimObj := map[string]*resourceapi.ResourceClaim{}
	for _, cs := range d.Claims {
		claimObj[cs.Name] = d.claimObject(cs)
	}
	now := time.Now()
	for _, j := range c.Jobs {
		uid := common_info.PodGroupID(j.Name)
		job := podgroup_info.NewPodGroupInfoWithVectorMap(uid, vm)
		crd := &enginev2alpha2.PodGroup{
			ObjectMeta: metav1.ObjectMeta{Name: j.Name, Namespace: draNs, UID: types.UID(j.Name),
				CreationTimestamp: metav1.Time{Time: now.Add(-time.Duration(j.AgeMinutes) * time.Minute)}},
			Spec: enginev2alpha2.PodGroupSpec{Queue: j.Queue, MinMember: j.MinMember},
		}
		for _, sg := range j.SubGroups {
			csg := enginev2alpha2.SubGroup{Name: sg.Name, MinMember: sg.MinMember}
			if sg.Parent != "" {
				parent := sg.Parent
				csg.Parent = &parent
			}
			crd.Spec.SubGroups = append(crd.Spec.SubGroups, csg)
		}
		job.SetPodGroup(crd)
		job.Priority = j.Priority
		job.Preemptibility = pg.CalculatePreemptibility("", j.Priority)
		running := false
		for _, ps := range j.Pods {
			ps.Job = j.Name
			pod := ps.K8s()
			var objs []*resourceapi.ResourceClaim
			for _, cn := range d.PodClaims[ps.Name] {
				name := cn
				pod.Spec.ResourceClaims = append(pod.Spec.ResourceClaims, v1.PodResourceClaim{Name: cn, ResourceClaimName: &name})
				objs = append(objs, claimObj[cn])
			}
			t := pod_info.NewTaskInfo(pod, objs, vm)
			t.Status = ps.Status
			t.NodeName = ps.Node
			t.GPUGroups = append([]string{}, ps.Groups...)
			b.Tasks[ps.Name] = t
			job.AddTaskInfo(t)
			if pod_status.AllocatedStatus(t.Status) {
				running = true
			}
		}
		if running {
			st := now.Add(-time.Duration(j.StartedMins) * time.Minute)
			job.LastStartTimestamp = &st
		}
		b.Jobs[uid] = job
	}
	names := make([]string, 0, len(b.Tasks))
	for n := range b.Tasks {
		names = append(names, n)
	}
	sort.Strings(names)
	for _, n := range names {
		t := b.Tasks[n]
		if pod_status.IsActiveUsedStatus(t.Status) && t.NodeName != "" {
			if ni, ok := b.Nodes[t.NodeName]; ok {
				_ = ni.AddTask(t)
			}
		}
	}
	meta := test_utils.TestTopologyBasic{Name: "gen", DisableDefaultDepartment: true,
		Departments:    []test_utils.TestDepartmentBasic{{Name: "dept", DeservedGPUs: common_info.NoMaxAllowedResource, MaxAllowedGPUs: common_info.NoMaxAllowedResource}},
		Mocks:          &test_utils.TestMock{CacheRequirements: &test_utils.CacheMocking{NumberOfCacheBinds: 1 << 20, NumberOfCacheEvictions: 1 << 20, NumberOfPipelineActions: 1 << 20}},
		TestDRAObjects: d.testObjects()}
	for _, q := range c.Queues {
		prio := q.Priority
		meta.Queues = append(meta.Queues, test_utils.TestQueueBasic{Name: q.Name, ParentQueue: "dept", DeservedGPUs: q.Deserved,
			MaxAllowedGPUs: q.Limit, GPUOverQuotaWeight: q.OverQuota, Priority: &prio})
	}
	queues := test_utils.BuildQueueInfoMap(meta)
	for k, v := range test_utils.BuildDepartmentInfoMap(meta) {
		queues[k] = v
	}
	cluster_info.UpdateQueueHierarchy(queues)
	ctrl := gomock.NewController(&draReporter{})
	cfg := &test_utils.TestSessionConfig{Plugins: test_utils.BuildPlugins(meta), CachePlugins: map[string]bool{"predicates": true}}
	b.Ssn = test_utils.CreateFakeSession(cfg, b.Nodes, b.Jobs, queues, meta, ctrl, true, nil, cpai)
	// the DRA manager reads claims, slices and classes through informers of the fake clientset; under load they may
	// not have delivered every object yet when CreateFakeSession returns (it sleeps 1 ms)
	m := b.Ssn.InternalK8sPlugins().FrameworkHandle.SharedDRAManager()
	for i := 0; i < 2000; i++ {
		ok := true
		for _, cs := range d.Claims {
			if _, err := m.ResourceClaims().Get(draNs, cs.Name); err != nil {
				ok = false
				break
			}
		}
		if ok {
			if sl, err := m.ResourceSlices().ListWithDeviceTaintRules(); err != nil || len(sl) < len(meta.ResourceSlices) {
				ok = false
			}
		}
		if ok {
			if _, err := m.DeviceClasses().Get(draClass); err != nil {
				ok = false
			}
		}
		if ok {
			break
		}
		time.Sleep(time.Millisecond)
	}
	return b
}

// ---- projection of the claims ---------------------------------------------------------------------------------

func (w *world) devId(pool, device string) int { return w.ids.Of("d:" + pool + "/" + device) }

func (w *world) devsTerm(al *resourceapi.AllocationResult) string {
	if al == nil {
		return "None"
	}
	out := make([]string, len(al.Devices.Results))
	for i, r := range al.Devices.Results {
		out[i] = u.Pos(w.devId(r.Pool, r.Device))
	}
	return u.Opt(true, u.List(out))
}

func devsText(al *resourceapi.AllocationResult) string {
	if al == nil {
		return "-"
	}
	out := make([]string, len(al.Devices.Results))
	for i, r := range al.Devices.Results {
		out[i] = r.Pool + "/" + r.Device
	}
	return strings.Join(out, "+")
}

// registerClaimIds fixes the numbering of claims and devices (after nodes, jobs, pods, pod sets and queues).
func (w *world) registerClaimIds() {
	if w.dra == nil {
		return
	}
	for _, c := range w.dra.Claims {
		w.ids.Of("c:" + c.Name)
	}
	for _, n := range w.nodes {
		for i := 0; i < w.dra.Devs[n]; i++ {
			w.devId(n, fmt.Sprint(i))
		}
	}
}

func (w *world) claimObjectNow(name string) *resourceapi.ResourceClaim {
	m := w.b.Ssn.InternalK8sPlugins().FrameworkHandle.SharedDRAManager()
	c, err := m.ResourceClaims().Get(draNs, name)
	if err != nil {
		return nil
	}
	return c
}

// claimsDump renders (mkCD pods claims): every pod's ResourceClaimInfo and the plugin's view of every claim; text is
// the same for people (replay labels, demonstrations).
func (w *world) claimsDump() (term, text string) {
	if w.dra == nil {
		return "(mkCD [] [])", ""
	}
	var ps, cs []kv
	var tp, tc []string
	for _, name := range w.pods {
		t := w.pod(name)
		if t == nil || len(w.dra.PodClaims[name]) == 0 {
			continue
		}
		var es []kv
		var te []string
		for _, cn := range sortedKeys(t.ResourceClaimInfo) {
			e := t.ResourceClaimInfo[cn]
			var al *resourceapi.AllocationResult
			if e != nil {
				al = e.Allocation
			}
			es = append(es, kv{w.ids.Of("c:" + cn), w.devsTerm(al)})
			te = append(te, cn+"="+devsText(al))
		}
		ps = append(ps, kv{w.ids.Of("p:" + name), amap(es)})
		tp = append(tp, name+"{"+strings.Join(te, " ")+"}")
	}
	for _, c := range w.dra.Claims {
		o := w.claimObjectNow(c.Name)
		if o == nil {
			cs = append(cs, kv{w.ids.Of("c:" + c.Name), "(None, [])"})
			tc = append(tc, c.Name+"?")
			continue
		}
		var rf []int
		var rt []string
		for _, r := range o.Status.ReservedFor {
			rf = append(rf, w.ids.Of("p:"+r.Name))
			rt = append(rt, r.Name)
		}
		sort.Ints(rf)
		sort.Strings(rt)
		cs = append(cs, kv{w.ids.Of("c:" + c.Name), u.Pair(w.devsTerm(o.Status.Allocation), u.ListOf(rf, u.Pos))})
		tc = append(tc, fmt.Sprintf("%s@%s[%s]", c.Name, devsText(o.Status.Allocation), strings.Join(rt, ",")))
	}
	return fmt.Sprintf("(mkCD %s %s)", amap(ps), amap(cs)), "pods " + strings.Join(tp, " ") + " | claims " + strings.Join(tc, " ")
}

// claimArgs: the claim allocations a Bind hands to the cluster (what the BindRequest carries), as integers:
// (claim id, device id) pairs in claim order.
func (w *world) claimArgs(t *pod_info.PodInfo) []int64 {
	var out []int64
	for _, cn := range sortedKeys(t.ResourceClaimInfo) {
		e := t.ResourceClaimInfo[cn]
		if e == nil || e.Allocation == nil {
			out = append(out, int64(w.ids.Of("c:"+cn)), 0)
			continue
		}
		for _, r := range e.Allocation.Devices.Results {
			out = append(out, int64(w.ids.Of("c:"+cn)), int64(w.devId(r.Pool, r.Device)))
		}
	}
	return out
}

// claimsInitTerm renders the initial state of the claim model (coq/Model/SessionClaims.v [cinit]): per pod its
// claims, whether it sits on a node (holds its claims), its node and its recorded allocations; per claim the
// allocation and the ReservedFor set; per device its node.
func (w *world) claimsInitTerm() string {
	if w.dra == nil {
		return "(mkCI [] [] [] [])"
	}
	var ps, cs, ds, ns []kv
	for _, name := range w.pods {
		t := w.pod(name)
		if t == nil {
			continue
		}
		var cl []string
		var es []kv
		for _, cn := range w.dra.PodClaims[name] {
			cl = append(cl, u.Pos(w.ids.Of("c:"+cn)))
		}
		for _, cn := range sortedKeys(t.ResourceClaimInfo) {
			e := t.ResourceClaimInfo[cn]
			var al *resourceapi.AllocationResult
			if e != nil {
				al = e.Allocation
			}
			es = append(es, kv{w.ids.Of("c:" + cn), w.devsTerm(al)})
		}
		var on []string
		for _, n := range w.nodes {
			if w.copyOn(n, name) != nil {
				on = append(on, u.Pos(w.ids.Of("n:"+n)))
			}
		}
		ps = append(ps, kv{w.ids.Of("p:" + name), fmt.Sprintf("(mkIP %s %s %s %s %s)", u.List(cl), core.StatusTerm(t.Status), w.nodeOpt(t.NodeName), u.List(on), amap(es))})
	}
	for _, c := range w.dra.Claims {
		o := w.claimObjectNow(c.Name)
		var rf []int
		var al *resourceapi.AllocationResult
		if o != nil {
			al = o.Status.Allocation
			for _, r := range o.Status.ReservedFor {
				rf = append(rf, w.ids.Of("p:"+r.Name))
			}
		}
		sort.Ints(rf)
		cs = append(cs, kv{w.ids.Of("c:" + c.Name), u.Pair(w.devsTerm(al), u.ListOf(rf, u.Pos))})
		ns = append(ns, kv{w.ids.Of("c:" + c.Name), u.Pos(int(c.Count))})
	}
	for _, n := range w.nodes {
		for i := 0; i < w.dra.Devs[n]; i++ {
			ds = append(ds, kv{w.devId(n, fmt.Sprint(i)), u.Pos(w.ids.Of("n:" + n))})
		}
	}
	return fmt.Sprintf("(mkCI %s %s %s %s)", amap(ps), amap(cs), amap(ds), amap(ns))
}

// ---- clusters with claims ----------------------------------------------------------------------------------------

// claimsCluster: two or three nodes publishing 2-3 DRA devices each; CPU-only and whole-GPU pods, running and pending;
// running pods that are the only consumer of a claim allocated on a device that is NOT the one a fresh run of the
// allocator would pick (the highest free index while lower ones are free), running pods sharing a claim, a claim shared
// by a running and a pending pod, pending pods with their own unallocated claim or sharing one, two-device claims,
// pods with two claims, a terminating consumer.
func claimsCluster(r *u.Rng) (cycle.Cluster, *draSpec) {
	var c cycle.Cluster
	d := &draSpec{Devs: map[string]int{}, PodClaims: map[string][]string{}}
	nn := r.Range(2, 3)
	free := map[string][]int{} // node -> free device indices (ascending)
	for i := 0; i < nn; i++ {
		name := fmt.Sprintf("n%d", i+1)
		c.Nodes = append(c.Nodes, core.NodeSpec{Name: name, Cpu: 16000, Mem: 64 << 30, Gpus: 4, Pods: 110})
		d.Devs[name] = r.Range(2, 3)
		for k := 0; k < d.Devs[name]; k++ {
			free[name] = append(free[name], k)
		}
	}
	c.Queues = []cycle.Queue{{Name: "q1", Deserved: 4, Limit: 0, OverQuota: 1, Priority: 100}, {Name: "q2", Deserved: 2, Limit: 0, OverQuota: 1, Priority: 100}}
	gpus := map[string]int{}
	nclaims := 0
	newClaim := func(count int64) *claimSpec {
		nclaims++
		d.Claims = append(d.Claims, claimSpec{Name: fmt.Sprintf("c%d", nclaims), Count: count})
		return &d.Claims[len(d.Claims)-1]
	}
	// take k devices of a node: mostly from the top (so that lower indices stay free)
	take := func(node string, k int) []int {
		f := free[node]
		if len(f) < k {
			return nil
		}
		var got []int
		if r.Chance(3, 4) {
			got = append(got, f[len(f)-k:]...)
			free[node] = f[:len(f)-k]
		} else {
			got = append(got, f[:k]...)
			free[node] = f[k:]
		}
		return got
	}
	type podRef struct {
		name, node string
		running    bool
	}
	var all []podRef
	nj := r.Range(3, 6)
	for i := 0; i < nj; i++ {
		j := cycle.Job{Name: fmt.Sprintf("j%d", i+1), Queue: u.Pick(r, c.Queues).Name, Priority: int32(u.Pick(r, []int{50, 75, 100, 125})), AgeMinutes: r.Range(1, 50), StartedMins: r.Range(1, 120)}
		np := r.Range(1, 3)
		j.MinMember = int32(r.Range(1, np))
		proto := core.PodSpec{Cpu: int64(u.Pick(r, []int{250, 1000})), Mem: 1 << 30}
		if r.Chance(1, 3) {
			proto.Gpus = 1
		}
		running := r.Chance(3, 5)
		for k := 0; k < np; k++ {
			p := proto
			p.Name = fmt.Sprintf("%s-%d", j.Name, k)
			p.Status = pod_status.Pending
			if running && !(k == np-1 && r.Chance(1, 4)) {
				node := u.Pick(r, c.Nodes).Name
				if gpus[node]+int(p.Gpus) <= 4 {
					gpus[node] += int(p.Gpus)
					p.Node, p.Status = node, pod_status.Running
					if r.Chance(1, 10) {
						p.Status = pod_status.Releasing
					}
				}
			}
			j.Pods = append(j.Pods, p)
			all = append(all, podRef{p.Name, p.Node, p.Node != ""})
		}
		c.Jobs = append(c.Jobs, j)
	}
	u.Shuffle(r, all)
	attach := func(pod string, cl *claimSpec) { d.PodClaims[pod] = append(d.PodClaims[pod], cl.Name) }
	used := map[string]bool{}
	for i, p := range all {
		if used[p.name] && !r.Chance(1, 5) {
			continue
		}
		switch {
		case p.running:
			switch r.Intn(6) {
			case 0, 1, 2: // the only consumer of a claim
				cnt := 1
				if r.Chance(1, 6) {
					cnt = 2
				}
				if ds := take(p.node, cnt); ds != nil {
					cl := newClaim(int64(cnt))
					cl.Node, cl.Devices, cl.Consumers = p.node, ds, []string{p.name}
					attach(p.name, cl)
					used[p.name] = true
				}
			case 3, 4: // shares a claim with another running pod of the node, or with a pending pod
				var mate *podRef
				for k := i + 1; k < len(all); k++ {
					q := &all[k]
					if !used[q.name] && ((q.running && q.node == p.node) || (!q.running && r.Chance(1, 2))) {
						mate = q
						break
					}
				}
				if ds := take(p.node, 1); ds != nil {
					cl := newClaim(1)
					cl.Node, cl.Devices, cl.Consumers = p.node, ds, []string{p.name}
					attach(p.name, cl)
					used[p.name] = true
					if mate != nil {
						attach(mate.name, cl)
						used[mate.name] = true
						if mate.running {
							cl.Consumers = append(cl.Consumers, mate.name)
						}
					}
				}
			}
		default:
			switch r.Intn(5) {
			case 0, 1: // a pending pod with its own unallocated claim
				cl := newClaim(1)
				attach(p.name, cl)
				used[p.name] = true
			case 2: // two pending pods sharing an unallocated claim
				cl := newClaim(1)
				attach(p.name, cl)
				used[p.name] = true
				for k := i + 1; k < len(all); k++ {
					if q := &all[k]; !q.running && !used[q.name] {
						attach(q.name, cl)
						used[q.name] = true
						break
					}
				}
			}
		}
	}
	c.Actions = []string{"statement"}
	return c, d
}

// ---- fixed programs over claims -----------------------------------------------------------------------------------

// claimsCorpus: the scenario of seeded/C13-3 (a running pod that is the only consumer of a claim sitting on device 1
// while device 0 is free is evicted in a what-if scenario that is abandoned; a pending pod placed afterwards must get
// device 0) under every way of abandoning it, shared claims, placements of pending pods with unallocated claims, and
// the shapes in which the saved claim information is handed back to the pod and used again (un-evict inside a scenario
// that is then abandoned).
func claimsCorpus() []corpusCase {
	run, pend := pod_status.Running, pod_status.Pending
	cpu := func(st pod_status.PodStatus, nodeName string) core.PodSpec { return core.PodSpec{Status: st, Node: nodeName} }
	mk := func() (cycle.Cluster, *draSpec) {
		c := base([]core.NodeSpec{node("n1", 4), node("n2", 4)},
			job1("v", cpu(run, "n1")), job1("s", cpu(run, "n1")), job1("t", cpu(run, "n1")),
			job1("p", cpu(pend, "")), job1("x", cpu(pend, "")), job1("y", cpu(pend, "")))
		d := &draSpec{Devs: map[string]int{"n1": 3, "n2": 2}, PodClaims: map[string][]string{
			"v-0": {"cv"}, "s-0": {"cs"}, "t-0": {"cs"}, "p-0": {"cp"}, "x-0": {"cxy"}, "y-0": {"cxy"}},
			Claims: []claimSpec{
				{Name: "cv", Count: 1, Node: "n1", Devices: []int{1}, Consumers: []string{"v-0"}},
				{Name: "cs", Count: 1, Node: "n1", Devices: []int{2}, Consumers: []string{"s-0", "t-0"}},
				{Name: "cp", Count: 1},
				{Name: "cxy", Count: 1},
			}}
		return c, d
	}
	ev := func(p string) cmdSpec { return cmdSpec{Kind: "evict", Pod: p} }
	un := func(p string) cmdSpec { return cmdSpec{Kind: "unevict", Pod: p} }
	pipe := func(p, n string) cmdSpec { return cmdSpec{Kind: "pipeline", Pod: p, Node: n} }
	alloc := func(p, n string) cmdSpec { return cmdSpec{Kind: "allocate", Pod: p, Node: n} }
	cp, commit, discard := cmdSpec{Kind: "checkpoint"}, cmdSpec{Kind: "commit"}, cmdSpec{Kind: "discard"}
	rb := func(i int) cmdSpec { return cmdSpec{Kind: "rollback", Cp: -i} }
	var out []corpusCase
	add := func(name string, fails map[int]bool, cmds ...cmdSpec) {
		c, d := mk()
		out = append(out, corpusCase{name: name, c: c, dra: d, cmds: cmds, fails: fails, wf: true})
	}
	// the scenario of seeded/C13-3 and its variants
	add("R1-only-consumer-evict-discard-then-place-pending", nil, ev("v-0"), discard, alloc("p-0", "n1"), commit)
	add("R2-only-consumer-evict-rollback-then-place-pending", nil, cp, ev("v-0"), rb(1), alloc("p-0", "n1"), commit)
	add("R3-only-consumer-eviction-refused-at-commit", map[int]bool{0: true}, ev("v-0"), commit, alloc("p-0", "n1"), commit)
	add("R4-only-consumer-evict-unevict", nil, ev("v-0"), un("v-0"), alloc("p-0", "n1"), commit)
	add("R5-only-consumer-evict-pipeline-back", nil, ev("v-0"), pipe("v-0", "n1"), pipe("p-0", "n1"), commit)
	add("R6-only-consumer-evict-place-pending-on-freed-device-discard", nil, ev("v-0"), alloc("p-0", "n1"), pipe("x-0", "n1"), discard, alloc("p-0", "n1"), commit)
	add("R7-only-consumer-moved-to-other-node-discard", nil, ev("v-0"), pipe("v-0", "n2"), discard, alloc("p-0", "n1"), commit)
	add("R8-only-consumer-nested-checkpoints", nil, cp, ev("v-0"), cp, alloc("p-0", "n1"), rb(2), pipe("p-0", "n1"), rb(1), alloc("p-0", "n1"), commit)
	// shared claims
	add("R9-shared-one-consumer-evicted-discard", nil, ev("s-0"), discard, alloc("p-0", "n1"), commit)
	add("R10-shared-both-consumers-evicted-discard", nil, ev("s-0"), ev("t-0"), discard, alloc("p-0", "n1"), commit)
	add("R11-shared-both-evicted-one-back-rollback", nil, ev("s-0"), cp, ev("t-0"), un("s-0"), rb(1), commit)
	add("R12-shared-both-evicted-committed", nil, ev("s-0"), ev("t-0"), commit, alloc("p-0", "n1"), commit)
	// pending pods
	add("R13-pending-allocate-discard-pipeline-rollback", nil, alloc("p-0", "n1"), discard, cp, pipe("p-0", "n2"), rb(1), alloc("p-0", "n1"), commit)
	add("R14-pending-sharing-unallocated-claim-discard", nil, alloc("x-0", "n1"), alloc("y-0", "n1"), discard, alloc("y-0", "n2"), commit)
	add("R15-pending-sharing-unallocated-claim-second-rolled-back", nil, alloc("x-0", "n1"), cp, alloc("y-0", "n1"), rb(1), commit)
	add("R16-pending-bind-refused", map[int]bool{0: true}, alloc("p-0", "n1"), commit, alloc("p-0", "n1"), commit)
	// the saved claim information handed back to the pod and used again
	add("R17-evict-unevict-discard", nil, ev("v-0"), un("v-0"), discard, alloc("p-0", "n1"), commit)
	add("R18-evict-pipeline-back-rollback", nil, cp, ev("v-0"), pipe("v-0", "n1"), rb(1), alloc("p-0", "n1"), commit)
	add("R19-evict-unevict-evict-discard", nil, ev("v-0"), un("v-0"), ev("v-0"), discard, alloc("p-0", "n1"), commit)
	add("R20-evict-unevict-rolled-back-then-eviction-refused", map[int]bool{0: true}, ev("v-0"), cp, un("v-0"), rb(1), commit, alloc("p-0", "n1"), commit)
	add("R21-evict-unevict-evict-commit", nil, ev("v-0"), un("v-0"), ev("v-0"), commit, alloc("p-0", "n1"), commit)
	return out
}
