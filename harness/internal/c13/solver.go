// Solver-level part of the C13 check: "an abandoned what-if leaves no trace" at the level of the scenario solvers.
//
// Statement (Checkpoint / Rollback / Discard / Commit) can be correct while its USER is not: the by-pod solver
// (pkg/scheduler/actions/common/solvers) tries the nodes of the latest potential victim job one at a time, each
// attempt being [checkpoint; evict the potential victims that touch the node; simulate; on failure roll back to the
// checkpoint]. What is observable of that discipline from outside is the solver's RESULT: whether it solved, the
// statement it hands back, and the victims it reports. This file calls the entry point the actions use,
// solvers.NewJobsSolver(...).Solve, exactly as preempt / reclaim / consolidation construct it, on sessions from
// cycle.Build, and records
//   - the projection of the session before Solve, after Solve (before Commit) and after Commit,
//   - the Cache calls of the Commit (recording cache),
//   - the reported victims,
//   - the primitive events of the simulation (own event handler + PreJobAllocation hook): which evictions every
//     attempt made and whether it was abandoned (replay label, coverage counts),
// and then applies ONLY the reported scenario by hand through a fresh Statement on a second, identically built
// session: evict the reported victims, nominate every pod the solver's statement nominated onto the node (and GPU
// groups) it chose. Run/C13.v compares the two (solver-level erasure). The node order of the attempts comes from a
// map iteration, so every cluster is solved on several fresh sessions.
//
// Second mode ("action"): the real action (preempt / reclaim / consolidation Execute) end to end; commits are cut out
// of the recorded calls by the simulation events between them, the projection is taken at the first Cache call of a
// commit (= the session the statement left), and the committed operations are replayed by hand on a second session.
package c13

import (
	"fmt"
	"os"
	"sort"
	"strings"
	"sync"
	"sync/atomic"

	"golang.org/x/exp/maps"

	"github.com/NVIDIA/KAI-scheduler/pkg/scheduler/actions/common"
	"github.com/NVIDIA/KAI-scheduler/pkg/scheduler/actions/common/solvers"
	"github.com/NVIDIA/KAI-scheduler/pkg/scheduler/actions/utils"
	"github.com/NVIDIA/KAI-scheduler/pkg/scheduler/api"
	"github.com/NVIDIA/KAI-scheduler/pkg/scheduler/api/common_info"
	"github.com/NVIDIA/KAI-scheduler/pkg/scheduler/api/pod_status"
	"github.com/NVIDIA/KAI-scheduler/pkg/scheduler/api/podgroup_info"
	"github.com/NVIDIA/KAI-scheduler/pkg/scheduler/framework"
	"github.com/NVIDIA/KAI-scheduler/pkg/scheduler/scheduler_util"

	"kaiverif/internal/core"
	"kaiverif/internal/cycle"
	u "kaiverif/internal/util"
)

// ---- simulation trace -------------------------------------------------------------------------------------------

// tev is one primitive event of the simulation as the session's event handlers see it:
//   E  pod evicted            (deallocate event, pod not nominated by the simulation)
//   uE eviction undone        (allocate event that is no placement: Unevict, Rollback, Discard)
//   P  pod nominated on node  (allocate event, status Pipelined / Allocated)
//   uP nomination undone      (deallocate event of a pod the simulation had nominated)
//   A  the preemptor's AllocateJob begins (one per simulation attempt)
//   C  first Cache call of a Commit (action mode)
type tev struct{ kind, pod, node string }

type sworld struct {
	*world
	trace     []tev
	sim       map[string]string // per pod: "" | "E" | "P" | "EP" (evicted, nominated, evicted then nominated)
	preemptor string            // UID of the job whose AllocateJob marks an attempt ("" in action mode: any pending job)
	events    int               // handler events + hooks since the last Cache call (action mode: commit boundaries)
}

func newSolverWorld(c cycle.Cluster) *sworld {
	sw := &sworld{world: newWorld(c, nil), sim: map[string]string{}}
	ssn := sw.b.Ssn
	ssn.AddEventHandler(&framework.EventHandler{
		AllocateFunc: func(e *framework.Event) {
			sw.events++
			p := string(e.Task.UID)
			if e.Task.Status == pod_status.Pipelined || e.Task.Status == pod_status.Allocated {
				sw.sim[p] += "P"
				sw.trace = append(sw.trace, tev{"P", p, e.Task.NodeName})
			} else {
				sw.sim[p] = strings.TrimSuffix(sw.sim[p], "E")
				sw.trace = append(sw.trace, tev{"uE", p, e.Task.NodeName})
			}
		},
		DeallocateFunc: func(e *framework.Event) {
			sw.events++
			p := string(e.Task.UID)
			if strings.HasSuffix(sw.sim[p], "P") {
				sw.sim[p] = strings.TrimSuffix(sw.sim[p], "P")
				sw.trace = append(sw.trace, tev{"uP", p, ""})
			} else {
				sw.sim[p] += "E"
				sw.trace = append(sw.trace, tev{"E", p, e.Task.NodeName})
			}
		},
	})
	ssn.AddPreJobAllocationFn(func(job *podgroup_info.PodGroupInfo) {
		sw.events++
		if sw.preemptor == "" || string(job.UID) == sw.preemptor {
			// the evictions in effect now are the victims of the attempt that begins
			var ev []string
			for _, name := range sw.pods {
				if strings.HasPrefix(sw.sim[name], "E") {
					ev = append(ev, name)
				}
			}
			sw.trace = append(sw.trace, tev{"A", string(job.UID), strings.Join(ev, ",")})
		}
	})
	return sw
}

// attempt: what one simulation attempt of the solver did, read off the trace.
type attempt struct {
	evicted   []string // evictions in effect when the simulation began (the attempt's victims)
	placed    []string // nominations in effect when the attempt ended: pod@node
	abandoned bool
}

// attempts cuts a trace at the A markers (the preemptor's AllocateJob begins: one per simulation). The solver returns
// right after a successful simulation, so every attempt but the last was abandoned, and the last one is the solution
// iff the solver reported one.
func attempts(tr []tev, solved bool) []attempt {
	var out []attempt
	placed := map[string]string{}
	var cur *attempt
	flush := func() {
		if cur == nil {
			return
		}
		for p, n := range placed {
			cur.placed = append(cur.placed, p+"@"+n)
		}
		sort.Strings(cur.placed)
		out = append(out, *cur)
		cur = nil
	}
	for _, e := range tr {
		switch e.kind {
		case "A":
			flush()
			cur = &attempt{}
			if e.node != "" {
				cur.evicted = strings.Split(e.node, ",")
			}
		case "P":
			placed[e.pod] = e.node
		case "uP":
			delete(placed, e.pod)
		}
	}
	flush()
	for i := range out {
		out[i].abandoned = i < len(out)-1 || !solved
	}
	return out
}

func describeAttempts(as []attempt) string {
	var sb []string
	for _, a := range as {
		s := "evict[" + strings.Join(a.evicted, ",") + "]"
		if a.abandoned {
			s += " abandoned"
		} else {
			s += " placed[" + strings.Join(a.placed, ",") + "]"
		}
		sb = append(sb, s)
	}
	return strings.Join(sb, " | ")
}

// ---- the solver as the actions construct it -----------------------------------------------------------------------

// popOrder is the order in which the action would consider the pending jobs (real JobsOrderByQueues, popped empty).
func (sw *sworld) popOrder(action string) []*podgroup_info.PodGroupInfo {
	ssn := sw.b.Ssn
	opts := utils.JobsOrderInitOptions{FilterNonPending: true, FilterUnready: true, MaxJobsQueueDepth: scheduler_util.QueueCapacityInfinite}
	if action == "consolidation" {
		opts.FilterNonPreemptible = true
	}
	q := utils.NewJobsOrderByQueues(ssn, opts)
	q.InitializeWithJobs(ssn.ClusterInfo.PodGroupInfos)
	var out []*podgroup_info.PodGroupInfo
	for !q.IsEmpty() {
		out = append(out, q.PopNextJob())
	}
	return out
}

// solveFor is attemptToPreemptForPreemptor / attemptToReclaimForSpecificJob / attemptToConsolidateForPreemptor of the
// real actions (their victim filters are unexported; they are restated here from exported parts). attempted = the
// action would have called the solver for this job.
func (sw *sworld) solveFor(action string, job *podgroup_info.PodGroupInfo) (attempted, solved bool, stmt *framework.Statement, victims []string) {
	ssn := sw.b.Ssn
	var solver *solvers.JobSolver
	switch action {
	case "preempt":
		tasks := podgroup_info.GetTasksToAllocate(job, ssn.PodSetOrderFn, ssn.TaskOrderFn, false)
		if r := ssn.IsNonPreemptibleJobOverQueueQuotaFn(job, tasks); !r.IsSchedulable {
			return false, false, nil, nil
		}
		filter := func(v *podgroup_info.PodGroupInfo) bool {
			return v.IsPreemptibleJob() && v.Priority < job.Priority && v.Queue == job.Queue && v.UID != job.UID &&
				v.GetActiveAllocatedTasksCount() != 0 && ssn.PreemptVictimFilter(job, v)
		}
		solver = solvers.NewJobsSolver(common.FeasibleNodesForJob(maps.Values(ssn.ClusterInfo.Nodes), job), ssn.PreemptScenarioValidator,
			func() *utils.JobsOrderByQueues { return utils.GetVictimsQueue(ssn, filter) }, framework.Preempt)
	case "reclaim":
		if !ssn.CanReclaimResources(job) {
			return false, false, nil, nil
		}
		ssn.OnJobSolutionStart()
		solver = solvers.NewJobsSolver(common.FeasibleNodesForJob(maps.Values(ssn.ClusterInfo.Nodes), job), ssn.ReclaimScenarioValidatorFn,
			func() *utils.JobsOrderByQueues {
				q := utils.NewJobsOrderByQueues(ssn, utils.JobsOrderInitOptions{FilterNonPreemptible: true, FilterNonActiveAllocated: true,
					VictimQueue: true, MaxJobsQueueDepth: scheduler_util.QueueCapacityInfinite})
				jobs := map[common_info.PodGroupID]*podgroup_info.PodGroupInfo{}
				for _, v := range ssn.ClusterInfo.PodGroupInfos {
					if v.Queue != job.Queue && ssn.ReclaimVictimFilter(job, v) {
						jobs[v.UID] = v
					}
				}
				q.InitializeWithJobs(jobs)
				return &q
			}, framework.Reclaim)
	case "consolidation":
		maxp := ssn.GetMaxNumberConsolidationPreemptees()
		if maxp == 0 || !utils.IsEnoughGPUsAllocatableForJob(job, ssn, false) {
			return false, false, nil, nil
		}
		allReallocated := func(sc api.ScenarioInfo) bool {
			for _, v := range sc.GetVictims() {
				for _, t := range v.Tasks {
					if t.Status == pod_status.Releasing {
						return false
					}
				}
			}
			return true
		}
		solver = solvers.NewJobsSolver(common.FeasibleNodesForJob(maps.Values(ssn.ClusterInfo.Nodes), job), allReallocated,
			func() *utils.JobsOrderByQueues {
				n := 0
				return utils.GetVictimsQueue(ssn, func(v *podgroup_info.PodGroupInfo) bool {
					if !v.IsPreemptibleJob() || v.UID == job.UID || (maxp != -1 && n > maxp) || v.GetActiveAllocatedTasksCount() == 0 {
						return false
					}
					n++
					return true
				})
			}, framework.Consolidation)
	default:
		panic("unknown action " + action)
	}
	sw.preemptor = string(job.UID)
	ok, st, names := solver.Solve(ssn, job)
	for _, n := range names {
		// "<namespace/name>"
		n = strings.TrimSuffix(strings.TrimPrefix(n, "<"), ">")
		if i := strings.Index(n, "/"); i >= 0 {
			n = n[i+1:]
		}
		victims = append(victims, n)
	}
	return true, ok, st, victims
}

// ---- one solver case ----------------------------------------------------------------------------------------------

type solveResult struct {
	term, label string
	solved      bool
	tries       int    // Solve calls that reported no solution before the solved one (or in all)
	nAttempts   int    // simulation attempts of the solved call
	abandonedBeforeSuccess bool // the solved call abandoned at least one attempt before the successful one
	strayCandidate         bool // ... and an abandoned attempt evicted a pod that is no reported victim
	nVictims, nMoved       int
	panicked               string
	handDiffers            bool // Go-side preview of clause (iii), for the probe output
	triesWithAttempts      int  // calls without solution that ran at least one simulation
}

func (sw *sworld) podStatuses() string {
	var parts []string
	for _, name := range sw.pods {
		if t := sw.pod(name); t != nil {
			parts = append(parts, fmt.Sprintf("%s=%v@%s", name, t.Status, t.NodeName))
		}
	}
	return strings.Join(parts, " ")
}

func callsText(cs []acall) string {
	var parts []string
	for _, c := range cs {
		s := c.Kind + ":" + c.Pod
		if c.Kind != "evict" {
			s += "->" + c.Node
		}
		parts = append(parts, s)
	}
	return strings.Join(parts, ",")
}

// runSolver: direct mode. On a fresh session the pending jobs are taken in the action's order; for each the real
// solver is called the way the action calls it, until one is solved (the action would commit it) or none is left.
func runSolver(c cycle.Cluster, action string, run int) (res solveResult) {
	defer func() {
		if r := recover(); r != nil {
			res.panicked = fmt.Sprint(r)
			res.label += " !PANIC " + res.panicked
		}
	}()
	sw := newSolverWorld(c)
	var w2 *world
	built2 := make(chan struct{})
	go func() { w2 = newWorld(c, nil); close(built2) }()
	init := sw.initTerm()
	cinit := sw.claimsInitTerm()
	d0 := sw.dump()
	head := fmt.Sprintf("solver %s run=%d %s ::", action, run, cycle.Describe(c))
	var tries, descr []string
	var sol string
	for _, job := range sw.popOrder(action) {
		sw.trace = nil
		attempted, solved, stmt, victims := sw.solveFor(action, job)
		if !attempted {
			continue
		}
		d1 := sw.dump()
		as := attempts(sw.trace, solved && stmt != nil)
		if !solved || stmt == nil {
			// no solution reported: the action neither commits nor discards what it got back
			res.tries++
			if len(as) > 0 {
				res.triesWithAttempts++
			}
			tries = append(tries, fmt.Sprintf("(mkST %s %s %s)", u.Pos(sw.ids.Of("j:"+string(job.UID))), u.ListOf(victims, func(v string) string { return u.Pos(sw.ids.Of("p:" + v)) }), sw.fullDumpTerm(d1)))
			descr = append(descr, fmt.Sprintf("solve(%s)=unsolved attempts{%s}", job.UID, describeAttempts(as)))
			continue
		}
		res.solved = true
		res.nAttempts = len(as)
		res.nVictims = len(victims)
		isVictim := map[string]bool{}
		for _, v := range victims {
			isVictim[v] = true
		}
		var stray []string
		for i, a := range as {
			if i < len(as)-1 {
				res.abandonedBeforeSuccess = true
				for _, p := range a.evicted {
					if !isVictim[p] {
						res.strayCandidate = true
						stray = append(stray, p)
					}
				}
			}
		}
		// nominations of the solver's statement, in statement order: last P event of every pod that is nominated now
		lastP := map[string]int{}
		for i, e := range sw.trace {
			if e.kind == "P" {
				lastP[e.pod] = i
			}
		}
		type nom struct {
			pod, node string
			groups    []string
			shared    bool
			at        int
		}
		var noms []nom
		for _, name := range sw.pods {
			t := sw.pod(name)
			if t == nil || t.Status != pod_status.Pipelined {
				continue
			}
			at, seen := lastP[name]
			if !seen {
				continue // nominated before Solve
			}
			noms = append(noms, nom{name, t.NodeName, append([]string{}, t.GPUGroups...), isShared(t), at})
		}
		sort.Slice(noms, func(i, j int) bool { return noms[i].at < noms[j].at })
		res.nMoved = 0
		for _, n := range noms {
			if isVictim[n.pod] {
				res.nMoved++
			}
		}
		preS := sw.finalTerm(d1)
		statusPre := sw.podStatuses()
		nc := len(sw.fc.calls)
		_ = stmt.Commit()
		callsS := append([]acall{}, sw.fc.calls[nc:]...)
		d2 := sw.dump()
		// the reported scenario by hand, on the second session
		<-built2
		w2.ids = sw.ids
		var hand []cmdSpec
		for _, v := range victims {
			hand = append(hand, cmdSpec{Kind: "evict", Pod: v})
		}
		for _, n := range noms {
			hand = append(hand, cmdSpec{Kind: "pipeline", Pod: n.pod, Node: n.node, HasGroups: n.shared, Groups: n.groups})
		}
		var handT, handD []string
		for _, h := range hand {
			failed, _, pmsg := w2.exec(h)
			if pmsg != "" {
				panic("hand scenario: " + h.String() + ": " + pmsg)
			}
			handT = append(handT, sw.cmdTerm(h))
			ds := h.String()
			if failed {
				ds += "!err"
			}
			handD = append(handD, ds)
		}
		h1 := w2.dump()
		preH := w2.finalTerm(h1)
		statusHand := (&sworld{world: w2}).podStatuses()
		nc2 := len(w2.fc.calls)
		_ = w2.stmt.Commit()
		callsH := append([]acall{}, w2.fc.calls[nc2:]...)
		h2 := w2.dump()
		res.handDiffers = d1.pods != h1.pods || d1.jobs != h1.jobs || d1.queues != h1.queues
		var abandonedT []string
		for _, p := range stray {
			abandonedT = append(abandonedT, u.Pos(sw.ids.Of("p:"+p)))
		}
		sol = fmt.Sprintf("(Some (mkSL %s %s %s %s %s %s %s %s %s %s))", u.Pos(sw.ids.Of("j:"+string(job.UID))),
			u.ListOf(victims, func(v string) string { return u.Pos(sw.ids.Of("p:" + v)) }),
			preS, sw.xcallsTerm(callsS), sw.fullDumpTerm(d2),
			u.List(handT), preH, sw.xcallsTerm(callsH), sw.fullDumpTerm(h2), u.List(abandonedT))
		// Go-side preview of the monitor's clauses, for the reader of a replay (the verdict is Run/C13.v's)
		tags := ""
		var unreported []string
		for _, cl := range callsS {
			if cl.Kind == "evict" && !isVictim[cl.Pod] {
				unreported = append(unreported, cl.Pod)
			}
		}
		if len(unreported) > 0 {
			tags += fmt.Sprintf(" !!SENT-TO-Cache.Evict-BUT-NOT-REPORTED-AS-VICTIM[%s]", strings.Join(unreported, ","))
		}
		if res.handDiffers {
			tags += " !!SESSION-AFTER-Solve-DIFFERS-FROM-THE-REPORTED-SCENARIO-APPLIED-BY-HAND"
		}
		descr = append(descr, fmt.Sprintf("solve(%s)=SOLVED victims[%s] attempts{%s} after-solve{%s} commit{%s} || by-hand{%s} after{%s} commit{%s}%s",
			job.UID, strings.Join(victims, ","), describeAttempts(as), statusPre, callsText(callsS), strings.Join(handD, " "), statusHand, callsText(callsH), tags))
		break
	}
	if sol == "" {
		sol = "None"
		<-built2
	}
	res.term = fmt.Sprintf("(KSolve (mkSC (mkPC %s [] true %s [] None %s %s) %s %s))", init, sw.fullDumpTerm(d0), cinit, d0.claims, u.List(tries), sol)
	res.label = head + " " + strings.Join(descr, " ; ")
	if len(descr) == 0 {
		res.label += " (no pending job the action would solve for)"
	}
	return res
}

// ---- second mode: the real action end to end ---------------------------------------------------------------------

type actionResult struct {
	term, label string
	commits     int
	evictions   int
	skipped     string
	panicked    string
}

// runAction runs the real action (preempt / reclaim / consolidation Execute) on a fresh session. Commit boundaries: a
// Cache call preceded by at least one simulation event since the previous Cache call (Commit itself fires no handler).
// The projection taken at the first Cache call of a commit is the session the whole statement left (nothing of the
// commit has been applied yet). The committed operations - and only they - are then replayed by hand on a second
// session: per commit, Evict of every pod sent to Cache.Evict and Pipeline of every pod sent to TaskPipelined, in call
// order, then Commit.
func runAction(c cycle.Cluster, action string, run int) (res actionResult) {
	defer func() {
		if r := recover(); r != nil {
			res.panicked = fmt.Sprint(r)
			res.label += " !PANIC " + res.panicked
		}
	}()
	sw := newSolverWorld(c)
	var w2 *world
	built2 := make(chan struct{})
	go func() { w2 = newWorld(c, nil); close(built2) }()
	init := sw.initTerm()
	cinit := sw.claimsInitTerm()
	d0 := sw.dump()
	type commit struct {
		pre   dump
		first int // index of its first call
	}
	var commits []commit
	sw.events = 0
	sw.fc.before = func() {
		if sw.events > 0 || len(commits) == 0 {
			commits = append(commits, commit{sw.dump(), len(sw.fc.calls)})
		}
		sw.events = 0
	}
	head := fmt.Sprintf("action %s run=%d %s ::", action, run, cycle.Describe(c))
	res.label = head
	if p := cycle.RunActions(sw.b, []string{action}); p != "" {
		res.panicked = p
		res.label += " !PANIC " + p
	}
	sw.fc.before = nil
	dEnd := sw.dump()
	<-built2
	w2.ids = sw.ids
	var cts, descr []string
	for i, cm := range commits {
		last := len(sw.fc.calls)
		if i+1 < len(commits) {
			last = commits[i+1].first
		}
		calls := sw.fc.calls[cm.first:last]
		var hand []cmdSpec
		for _, cl := range calls {
			switch cl.Kind {
			case "evict":
				res.evictions++
				hand = append(hand, cmdSpec{Kind: "evict", Pod: cl.Pod})
			case "pipe":
				t := sw.pod(cl.Pod)
				hand = append(hand, cmdSpec{Kind: "pipeline", Pod: cl.Pod, Node: cl.Node, HasGroups: t != nil && isShared(t), Groups: cl.Groups})
			default:
				res.skipped = "bind-in-" + action
			}
		}
		var handT []string
		for _, h := range hand {
			if _, _, pmsg := w2.exec(h); pmsg != "" {
				panic("hand replay: " + h.String() + ": " + pmsg)
			}
			handT = append(handT, sw.cmdTerm(h))
		}
		h1 := w2.dump()
		nc2 := len(w2.fc.calls)
		_ = w2.stmt.Commit()
		w2.stmt = w2.b.Ssn.Statement()
		callsH := w2.fc.calls[nc2:]
		cts = append(cts, fmt.Sprintf("(mkAC %s %s %s %s %s)", sw.fullDumpTerm(cm.pre), sw.xcallsTerm(calls), u.List(handT), sw.fullDumpTerm(h1), sw.xcallsTerm(callsH)))
		tag := ""
		if cm.pre.pods != h1.pods || cm.pre.jobs != h1.jobs || cm.pre.queues != h1.queues {
			tag = " !!SESSION-AT-COMMIT-DIFFERS-FROM-THE-COMMITTED-OPERATIONS-APPLIED-BY-HAND"
		}
		descr = append(descr, fmt.Sprintf("commit{%s}%s", callsText(calls), tag))
	}
	hEnd := w2.dump()
	res.commits = len(commits)
	if dEnd.pods != hEnd.pods || dEnd.jobs != hEnd.jobs || dEnd.queues != hEnd.queues {
		descr = append(descr, "!!FINAL-SESSION-DIFFERS-FROM-THE-COMMITTED-OPERATIONS-APPLIED-BY-HAND")
	}
	res.term = fmt.Sprintf("(KAction (mkAK (mkPC %s [] true %s [] None %s %s) %s %s %s))", init, sw.fullDumpTerm(d0), cinit, d0.claims,
		u.List(cts), sw.fullDumpTerm(dEnd), sw.fullDumpTerm(hEnd))
	res.label += " " + strings.Join(descr, " ; ") + fmt.Sprintf(" final{%s}", sw.podStatuses())
	if len(commits) == 0 {
		res.label += " (no commit)"
	}
	return res
}

// ---- clusters -----------------------------------------------------------------------------------------------------

func spod(name string, st pod_status.PodStatus, nodeName string, gpus int64) core.PodSpec {
	return core.PodSpec{Name: name, Cpu: 100, Mem: 1 << 20, Gpus: gpus, Status: st, Node: nodeName}
}

// readmeWorld is the cluster of seeded/C13-4 (README.md): the attempt on node0 (small0 + gang) fails, the attempt
// on node1 (small1 + gang) succeeds; small0 must not be touched.
func readmeWorld() cycle.Cluster {
	run, pend := pod_status.Running, pod_status.Pending
	j := func(name string, pri int32, min int32, pods ...core.PodSpec) cycle.Job {
		return cycle.Job{Name: name, Queue: "q1", Priority: pri, MinMember: min, AgeMinutes: 5, StartedMins: 5, Pods: pods}
	}
	return cycle.Cluster{
		Nodes:  []core.NodeSpec{node("node0", 4), node("node1", 4)},
		Queues: []cycle.Queue{{Name: "q1", Deserved: 8, OverQuota: 1, Priority: 100}},
		Jobs: []cycle.Job{
			j("blocker", 100, 1, spod("blocker-0", run, "node0", 2)),
			j("small0", 50, 1, spod("small0-0", run, "node0", 1)),
			j("small1", 50, 1, spod("small1-0", run, "node1", 1)),
			j("gang", 60, 2, spod("gang-0", run, "node0", 1), spod("gang-1", run, "node1", 1)),
			j("pending", 100, 1, spod("pending-0", pend, "", 4)),
		},
		Actions: []string{"preempt"},
	}
}

// solverCorpus: deterministic worlds for the solver stream (each run on several fresh sessions).
func solverCorpus() []struct {
	name   string
	c      cycle.Cluster
	action string
} {
	type cw = struct {
		name   string
		c      cycle.Cluster
		action string
	}
	run, pend := pod_status.Running, pod_status.Pending
	j := func(name, q string, pri int32, min int32, pods ...core.PodSpec) cycle.Job {
		return cycle.Job{Name: name, Queue: q, Priority: pri, MinMember: min, AgeMinutes: 5, StartedMins: 5, Pods: pods}
	}
	out := []cw{{"V1-readme-C13-4", readmeWorld(), "preempt"}}
	// the same shape through reclaim: victims in q1 (over its quota), reclaimer in q2
	rc := readmeWorld()
	rc.Queues = []cycle.Queue{{Name: "q1", Deserved: 2, OverQuota: 1, Priority: 100}, {Name: "q2", Deserved: 6, OverQuota: 1, Priority: 100}}
	for i := range rc.Jobs {
		if rc.Jobs[i].Name == "pending" {
			rc.Jobs[i].Queue = "q2"
		}
		if rc.Jobs[i].Name == "blocker" {
			rc.Jobs[i].Queue = "q2"
		}
	}
	out = append(out, cw{"V2-readme-shape-reclaim", rc, "reclaim"})
	// three nodes, the spread victim is elastic (min 1), two single-node victims on the nodes that cannot help
	out = append(out, cw{"V3-three-nodes-elastic-victim", cycle.Cluster{
		Nodes:  []core.NodeSpec{node("n1", 4), node("n2", 4), node("n3", 4)},
		Queues: []cycle.Queue{{Name: "q1", Deserved: 12, OverQuota: 1, Priority: 100}},
		Jobs: []cycle.Job{
			j("b1", "q1", 100, 1, spod("b1-0", run, "n1", 2)),
			j("b2", "q1", 100, 1, spod("b2-0", run, "n2", 2)),
			j("s1", "q1", 50, 1, spod("s1-0", run, "n1", 1)),
			j("s2", "q1", 50, 1, spod("s2-0", run, "n2", 1)),
			j("s3", "q1", 50, 1, spod("s3-0", run, "n3", 1)),
			j("el", "q1", 60, 1, spod("el-0", run, "n1", 1), spod("el-1", run, "n2", 1), spod("el-2", run, "n3", 1)),
			j("pending", "q1", 100, 1, spod("pending-0", pend, "", 4)),
		}}, "preempt"})
	// a pending gang of two pods (partial solutions: the first pod's victims are recorded for the second)
	out = append(out, cw{"V4-pending-gang-recorded-victims", cycle.Cluster{
		Nodes:  []core.NodeSpec{node("n1", 4), node("n2", 4)},
		Queues: []cycle.Queue{{Name: "q1", Deserved: 8, OverQuota: 1, Priority: 100}},
		Jobs: []cycle.Job{
			j("b1", "q1", 100, 1, spod("b1-0", run, "n1", 1)),
			j("s1", "q1", 50, 1, spod("s1-0", run, "n1", 1)),
			j("s2", "q1", 50, 1, spod("s2-0", run, "n2", 2)),
			j("g", "q1", 60, 2, spod("g-0", run, "n1", 2), spod("g-1", run, "n2", 2)),
			j("pending", "q1", 100, 2, spod("pending-0", pend, "", 3), spod("pending-1", pend, "", 2)),
		}}, "preempt"})
	// no solution at all: node n2 could free 4 GPUs (the scenario filters let it through) but a CPU-only blocker leaves
	// too little CPU for the pending pod; everything the simulations tried has to be gone
	cpuBlocker := spod("b2-0", run, "n2", 0)
	cpuBlocker.Cpu = 2000
	hungry := spod("pending-0", pend, "", 4)
	hungry.Cpu = 15000
	out = append(out, cw{"V5-unsolvable", cycle.Cluster{
		Nodes:  []core.NodeSpec{node("n1", 4), node("n2", 4)},
		Queues: []cycle.Queue{{Name: "q1", Deserved: 8, OverQuota: 1, Priority: 100}},
		Jobs: []cycle.Job{
			j("b1", "q1", 100, 1, spod("b1-0", run, "n1", 2)),
			j("b2", "q1", 100, 1, cpuBlocker),
			j("s1", "q1", 50, 1, spod("s1-0", run, "n1", 1)),
			j("s2", "q1", 50, 1, spod("s2-0", run, "n2", 1)),
			j("g", "q1", 60, 2, spod("g-0", run, "n1", 1), spod("g-1", run, "n2", 1)),
			j("pending", "q1", 100, 1, hungry),
		}}, "preempt"})
	// consolidation: the pending pod needs 2 GPUs on one node, one-GPU pods have to move
	out = append(out, cw{"V6-consolidation", cycle.Cluster{
		Nodes:  []core.NodeSpec{node("n1", 2), node("n2", 2), node("n3", 2)},
		Queues: []cycle.Queue{{Name: "q1", Deserved: 6, OverQuota: 1, Priority: 100}},
		Jobs: []cycle.Job{
			j("a", "q1", 50, 1, spod("a-0", run, "n1", 1)),
			j("b", "q1", 50, 2, spod("b-0", run, "n2", 1), spod("b-1", run, "n3", 1)),
			j("pending", "q1", 50, 1, spod("pending-0", pend, "", 2)),
		}}, "consolidation"})
	return out
}

// solverCluster draws a cluster for the solver stream: 2-3 nodes of 4 (sometimes 2 or 8) GPUs, per node possibly a
// blocker the preemptor cannot touch, small single-node victim jobs, 1-2 victim jobs spread over 2-3 nodes (gang or
// elastic; whole GPUs or half-GPU fractions), and a pending preemptor / reclaimer that needs several GPUs on ONE node
// (one pod, or a gang of two).
func solverCluster(r *u.Rng) (cycle.Cluster, string) {
	var c cycle.Cluster
	action := u.Pick(r, []string{"preempt", "preempt", "reclaim", "reclaim", "consolidation"})
	nn := r.Range(2, 3)
	free := map[string]int64{}
	for i := 0; i < nn; i++ {
		g := int64(u.Pick(r, []int{4, 4, 4, 2, 8}))
		n := node(fmt.Sprintf("n%d", i+1), g)
		c.Nodes = append(c.Nodes, n)
		free[n.Name] = g
	}
	total := int64(0)
	for _, n := range c.Nodes {
		total += n.Gpus
	}
	vq, pq := "q1", "q1" // victims' queue, preemptor's queue
	switch action {
	case "reclaim":
		pq = "q2"
		c.Queues = []cycle.Queue{{Name: "q1", Deserved: float64(r.Range(0, 2)), OverQuota: 1, Priority: 100},
			{Name: "q2", Deserved: float64(total - int64(r.Range(0, 2))), OverQuota: 1, Priority: 100}}
	default:
		c.Queues = []cycle.Queue{{Name: "q1", Deserved: float64(total), OverQuota: 1, Priority: 100}}
	}
	run, pend := pod_status.Running, pod_status.Pending
	nj := 0
	add := func(name, q string, pri, min int32, pods ...core.PodSpec) {
		nj++
		c.Jobs = append(c.Jobs, cycle.Job{Name: name, Queue: q, Priority: pri, MinMember: min, AgeMinutes: r.Range(1, 50), StartedMins: r.Range(1, 120), Pods: pods})
	}
	victimPri := func() int32 { return int32(u.Pick(r, []int{40, 50, 50, 60, 70})) }
	if action == "consolidation" {
		victimPri = func() int32 { return int32(u.Pick(r, []int{50, 60})) }
	}
	// blockers
	for _, n := range c.Nodes {
		if r.Chance(1, 2) && action != "consolidation" {
			g := int64(r.Range(1, int(free[n.Name])/2))
			q := pq
			add(fmt.Sprintf("b%d", nj+1), q, int32(u.Pick(r, []int{100, 125})), 1, spod(fmt.Sprintf("b%d-0", nj+1), run, n.Name, g))
			free[n.Name] -= g
		}
	}
	// spread victims
	frac := 0
	for k := r.Range(1, 2); k > 0; k-- {
		name := fmt.Sprintf("v%d", nj+1)
		var pods []core.PodSpec
		nodes := append([]core.NodeSpec{}, c.Nodes...)
		u.Shuffle(r, nodes)
		span := r.Range(2, len(nodes))
		half := r.Chance(1, 5)
		for i := 0; i < span; i++ {
			n := nodes[i].Name
			if free[n] < 1 {
				continue
			}
			p := spod(fmt.Sprintf("%s-%d", name, len(pods)), run, n, 1)
			if half {
				frac++
				p.Gpus, p.Fraction, p.Groups = 0, "0.5", []string{fmt.Sprintf("%s-F%d", n, frac)}
			}
			free[n]--
			pods = append(pods, p)
			if r.Chance(1, 4) && free[n] >= 1 && !half {
				free[n]--
				pods = append(pods, spod(fmt.Sprintf("%s-%d", name, len(pods)), run, n, 1))
			}
		}
		if len(pods) == 0 {
			continue
		}
		min := int32(len(pods))
		if r.Chance(1, 3) {
			min = int32(r.Range(1, len(pods))) // elastic
		}
		add(name, vq, victimPri(), min, pods...)
	}
	// small single-node victims
	for _, n := range c.Nodes {
		for k := r.Range(0, 2); k > 0 && free[n.Name] >= 1; k-- {
			name := fmt.Sprintf("s%d", nj+1)
			g := int64(1)
			if free[n.Name] >= 2 && r.Chance(1, 4) {
				g = 2
			}
			free[n.Name] -= g
			add(name, vq, victimPri(), 1, spod(name+"-0", run, n.Name, g))
		}
	}
	// leave some GPUs idle on some node, fill others with one more victim
	for _, n := range c.Nodes {
		if free[n.Name] >= 1 && r.Chance(1, 3) {
			name := fmt.Sprintf("s%d", nj+1)
			add(name, vq, victimPri(), 1, spod(name+"-0", run, n.Name, free[n.Name]))
			free[n.Name] = 0
		}
	}
	// the pending job
	maxNode := int64(0)
	for _, n := range c.Nodes {
		if n.Gpus > maxNode {
			maxNode = n.Gpus
		}
	}
	ppri := int32(100)
	if action == "consolidation" {
		ppri = 50
	} else if r.Chance(1, 3) {
		ppri = 80 // a preemptible preemptor
	}
	need := int64(r.Range(2, int(maxNode)))
	switch r.Intn(4) {
	case 0:
		a := int64(r.Range(1, int(maxNode)))
		add("pending", pq, ppri, 2, spod("pending-0", pend, "", need), spod("pending-1", pend, "", a))
	case 1:
		add("pending", pq, ppri, 1, spod("pending-0", pend, "", need), spod("pending-1", pend, "", 1)) // elastic preemptor
	default:
		add("pending", pq, ppri, 1, spod("pending-0", pend, "", need))
	}
	if r.Chance(1, 4) {
		// a second, smaller pending job: the action would try it as well
		add("pending2", pq, ppri, 1, spod("pending2-0", pend, "", int64(r.Range(1, 2))))
	}
	c.Actions = []string{action}
	return c, action
}

// solverStream: the deterministic worlds (12 sessions each) and n/4 generated clusters (6 sessions each).
func solverStream(out *u.Out, root *u.Rng, n int, _ func(m int, f func(i int) result) []result) {
	// a session start is a 100 ms wait (informer sync), not work: more goroutines than the program stream uses
	parallel := func(m int, f func(i int) result) {
		var wg sync.WaitGroup
		next := int64(-1)
		for k := 0; k < 3*workers(); k++ {
			wg.Add(1)
			go func() {
				defer wg.Done()
				for {
					i := int(atomic.AddInt64(&next, 1))
					if i >= m {
						return
					}
					f(i)
				}
			}()
		}
		wg.Wait()
	}
	type job struct {
		name   string
		c      cycle.Cluster
		action string
		run    int
	}
	var jobs []job
	for _, k := range solverCorpus() {
		for run := 0; run < 12; run++ {
			jobs = append(jobs, job{k.name, k.c, k.action, run})
		}
	}
	for i := 0; i < n/4; i++ {
		c, action := solverCluster(root.Fork(uint64(9000000 + i)))
		for run := 0; run < 6; run++ {
			jobs = append(jobs, job{fmt.Sprintf("gen%d", i), c, action, run})
		}
	}
	rs := make([]solveResult, len(jobs))
	parallel(len(jobs), func(i int) result {
		rs[i] = runSolver(jobs[i].c, jobs[i].action, jobs[i].run)
		return result{}
	})
	seen := map[string]bool{}
	orders := map[string]map[string]bool{} // cluster -> distinct outcomes
	for i, r := range rs {
		j := jobs[i]
		out.Count("solver:runs")
		out.Count("solver:runs:" + j.action)
		if r.panicked != "" {
			out.Count("solver:panic")
			out.Sample(map[string]string{"panic": r.panicked, "solver-run": r.label})
		}
		out.CountN("solver:calls-without-solution", r.tries)
		if r.solved {
			out.Count("solver:runs-with-a-solution")
			out.CountN("solver:reported-victims", r.nVictims)
			out.CountN("solver:reported-victims-re-placed", r.nMoved)
			if r.nAttempts >= 2 {
				out.Count("solver:solved-after-at-least-one-abandoned-attempt")
			}
			if r.strayCandidate {
				out.Count("solver:solved-after-an-abandoned-attempt-that-evicted-a-pod-that-is-no-reported-victim")
			}
		} else if r.triesWithAttempts > 0 {
			out.Count("solver:runs-without-solution-that-simulated")
		}
		key := j.name + "|" + strings.Replace(r.label, fmt.Sprintf("run=%d ", j.run), "", 1)
		if orders[j.name] == nil {
			orders[j.name] = map[string]bool{}
		}
		orders[j.name][key] = true
		if seen[key] {
			continue
		}
		seen[key] = true
		out.Add(r.term, j.name+" "+r.label)
		out.Count("solver:cases-emitted(distinct outcomes)")
		if r.solved && r.nAttempts >= 2 {
			out.NonTrivial(r.label)
		}
	}
	// second mode: the real actions end to end, 2 sessions per generated cluster, 4 per corpus world
	type ajob struct {
		name   string
		c      cycle.Cluster
		action string
		run    int
	}
	var ajobs []ajob
	for _, k := range solverCorpus() {
		for run := 0; run < 4; run++ {
			ajobs = append(ajobs, ajob{k.name, k.c, k.action, run})
		}
	}
	for i := 0; i < n/4; i++ {
		c, action := solverCluster(root.Fork(uint64(9000000 + i)))
		for run := 0; run < 2; run++ {
			ajobs = append(ajobs, ajob{fmt.Sprintf("gen%d", i), c, action, run})
		}
	}
	as := make([]actionResult, len(ajobs))
	parallel(len(ajobs), func(i int) result {
		as[i] = runAction(ajobs[i].c, ajobs[i].action, ajobs[i].run)
		return result{}
	})
	for i, r := range as {
		j := ajobs[i]
		out.Count("solver:action-runs")
		out.CountN("solver:action-commits", r.commits)
		out.CountN("solver:action-evictions", r.evictions)
		if r.panicked != "" {
			out.Count("solver:action-panic")
			out.Sample(map[string]string{"panic": r.panicked, "action-run": r.label})
			continue
		}
		if r.skipped != "" {
			out.Count("solver:action-runs-skipped(" + r.skipped + ")")
			continue
		}
		key := j.name + "|" + strings.Replace(r.label, fmt.Sprintf("run=%d ", j.run), "", 1)
		if seen[key] {
			continue
		}
		seen[key] = true
		out.Add(r.term, j.name+" "+r.label)
		out.Count("solver:action-cases-emitted(distinct outcomes)")
		if r.commits > 0 {
			out.NonTrivial(r.label)
		}
	}
	out.Stats["solver_rule"] = "solver level (case kinds KSolve / KAction): corpus worlds V1..V6 (V1 = the cluster of seeded/C13-4/README.md, V2 the same through reclaim, V3 three nodes with an elastic spread victim, V4 a pending gang of two pods whose second partial solution starts from recorded victims, V5 no solution although the scenario filters pass, V6 consolidation), 12 fresh sessions each, and n/4 generated clusters (solverCluster: 2-3 nodes of 2 / 4 / 8 GPUs, per node possibly a blocker the preemptor cannot touch, 1-2 victim jobs spread over 2-3 nodes - gang or elastic, whole GPUs or half-GPU fractions -, small single-node victim jobs of random priorities 40-70, a pending preemptor / reclaimer / consolidation candidate that needs several GPUs on ONE node: one pod, a gang of two, or an elastic job; sometimes a second pending job; preempt 2/5, reclaim 2/5 with a second queue over its quota, consolidation 1/5), 6 fresh sessions each: the node order of the solver's per-node attempts comes from a map iteration. DIRECT mode: on every session the pending jobs are taken in the action's pop order and solvers.NewJobsSolver(...).Solve is called as the action calls it until one call reports a solution; its statement is committed on a recording cache; the reported scenario is applied by hand on a second session. ACTION mode: the real action Execute on 2 (corpus: 4) fresh sessions per cluster, commits cut at simulation events, projection at the first Cache call of every commit, the committed operations replayed by hand on a second session. Identical outcomes of one cluster (same attempts, same calls) are emitted once; the counts solver:* are over all runs. Non-trivial = a solved call with at least one abandoned attempt before the successful one, or an action run with a commit."
	multi := 0
	for _, o := range orders {
		if len(o) >= 2 {
			multi++
		}
	}
	out.CountN("solver:clusters-with-at-least-two-distinct-outcomes-or-attempt-orders", multi)
	for i, r := range rs {
		if r.solved && r.strayCandidate {
			out.Sample(jobs[i].name + " " + r.label)
			break
		}
	}
}

// probeSolver (C13_PROBE=solver, by hand): the README world and a few generated clusters, several runs each.
func probeSolver() {
	cycle.Build(cycle.Cluster{Nodes: []core.NodeSpec{node("n1", 1)}, Queues: []cycle.Queue{{Name: "q1", Deserved: 1, OverQuota: 1, Priority: 100}}})
	for _, k := range solverCorpus() {
		for run := 0; run < 6; run++ {
			res := runSolver(k.c, k.action, run)
			fmt.Printf("%s solved=%v tries=%d attempts=%d abandoned-before-success=%v stray=%v hand-differs=%v\n   %s\n", k.name, res.solved, res.tries,
				res.nAttempts, res.abandonedBeforeSuccess, res.strayCandidate, res.handDiffers, res.label)
		}
	}
	if os.Getenv("C13_PROBE_GEN") != "" {
		root := u.NewRng(1)
		for i := 0; i < 40; i++ {
			c, action := solverCluster(root.Fork(uint64(9000000 + i)))
			res := runSolver(c, action, 0)
			fmt.Printf("gen%d solved=%v tries=%d attempts=%d abandoned-before-success=%v stray=%v hand-differs=%v\n   %s\n", i, res.solved, res.tries,
				res.nAttempts, res.abandonedBeforeSuccess, res.strayCandidate, res.handDiffers, res.label)
		}
	}
}
