package c13

import (
	"fmt"
	"os"
	"sort"
	"strconv"
	"sync"
	"sync/atomic"

	"github.com/NVIDIA/KAI-scheduler/pkg/scheduler/api/pod_info"
	"github.com/NVIDIA/KAI-scheduler/pkg/scheduler/api/pod_status"

	"kaiverif/internal/core"
	"kaiverif/internal/cycle"
	u "kaiverif/internal/util"
)

// ---- scripted programs (boundary corpus, witnesses of the refuted statements) --------

type scripted struct {
	cmds  []cmdSpec
	isWf  bool
	cpVal []int // values returned by the checkpoints so far; Cp < 0 in a script refers to cpVal[-Cp-1]
}

func (s *scripted) wf() bool { return s.isWf }
func (s *scripted) next(w *world, step int) *cmdSpec {
	if step >= len(s.cmds) {
		return nil
	}
	if step > 0 && s.cmds[step-1].Kind == "checkpoint" {
		s.cpVal = append(s.cpVal, int(w.stmt.Checkpoint()))
	}
	c := s.cmds[step]
	if c.Kind == "rollback" && c.Cp < 0 {
		c.Cp = s.cpVal[-c.Cp-1]
	}
	return &c
}

// ---- random programs -------------------------------------------------------------------

type random struct {
	r        *u.Rng
	isWf     bool
	maxLen   int
	cps      []int
	sealed   bool // after ConvertAllAllocatedToPipelined only Commit / Discard follow
	hasEvict bool // the current statement evicted or un-evicted something
	nAlloc   map[string]int
	evicted  map[string]bool // pods evicted by the current statement
	// pods un-evicted (Unevict, or Pipeline onto their own node and devices) earlier in the current statement:
	// evicting one of them again puts a second evict entry of the pod behind a stale one in the same log
	unevicted map[string]bool
	done      bool
	// what-if plans: commands queued to be issued next (checkpoint; place a gpu-memory pod on a node; roll back /
	// discard; place it on a node whose GPUs have another memory size; commit)
	plan    []func() *cmdSpec
	whatifs int
	// noConvert: ConvertAllAllocatedToPipelined is not issued (worlds with DRA claims: the claim model identifies a pod
	// with the job's current object and does not follow the operation's clone)
	noConvert bool
}

func (g *random) wf() bool { return g.isWf }

func isShared(t *pod_info.PodInfo) bool { return t.IsFractionCandidate() }

func (w *world) copyOn(node, pod string) *pod_info.PodInfo {
	ni := w.b.Nodes[node]
	if ni == nil {
		return nil
	}
	for _, t := range ni.PodInfos {
		if string(t.UID) == pod {
			return t
		}
	}
	return nil
}

func eqGroups(a, b []string) bool {
	if len(a) != len(b) {
		return false
	}
	for i := range a {
		if a[i] != b[i] {
			return false
		}
	}
	return true
}

// groupsFor draws GPU groups for a shared pod on a node: existing groups of the node or fresh ones.
func (g *random) groupsFor(w *world, t *pod_info.PodInfo, node string) []string {
	nd := int(t.ResReq.GetNumOfGpuDevices())
	if nd < 1 {
		nd = 1
	}
	var existing []string
	for k := range w.b.Nodes[node].UsedSharedGPUsMemory {
		existing = append(existing, k)
	}
	sort.Strings(existing)
	u.Shuffle(g.r, existing)
	var out []string
	for len(out) < nd {
		if len(existing) > 0 && g.r.Chance(1, 2) {
			out = append(out, existing[0])
			existing = existing[1:]
		} else {
			w.fresh++
			out = append(out, fmt.Sprintf("x%d", w.fresh))
		}
	}
	return out
}

func (g *random) next(w *world, step int) *cmdSpec {
	if g.done {
		return nil
	}
	r := g.r
	if step >= g.maxLen-1 {
		g.done = true
		if g.sealed && g.isWf {
			return &cmdSpec{Kind: "commit"}
		}
		switch r.Intn(3) {
		case 0:
			return &cmdSpec{Kind: "commit"}
		case 1:
			return &cmdSpec{Kind: "discard"}
		default:
			if len(g.cps) > 0 && !g.sealed {
				return &cmdSpec{Kind: "rollback", Cp: g.cps[0]}
			}
			return &cmdSpec{Kind: "discard"}
		}
	}
	if g.sealed {
		g.reset()
		return &cmdSpec{Kind: "commit"}
	}
	for len(g.plan) > 0 {
		f := g.plan[0]
		g.plan = g.plan[1:]
		if c := f(); c != nil {
			return c
		}
	}
	if g.isWf && g.whatifs < 3 && len(g.cps) < 4 && r.Chance(1, 5) {
		if c := g.planWhatIf(w); c != nil {
			return c
		}
	}
	// candidates from the real state
	var pend, act, evd, term, placed []string
	for _, name := range w.pods {
		t := w.pod(name)
		if t == nil {
			continue
		}
		switch {
		case t.Status == pod_status.Pending:
			pend = append(pend, name)
		case t.Status == pod_status.Releasing && t.IsVirtualStatus && g.evicted[name]:
			evd = append(evd, name)
		case t.Status == pod_status.Releasing:
			// terminating in the snapshot, or evicted by an earlier (committed) statement of this program
			term = append(term, name)
		case pod_status.IsActiveAllocatedStatus(t.Status) && !t.IsVirtualStatus && t.Status != pod_status.Pipelined:
			if c := w.copyOn(t.NodeName, name); c != nil && c.Status == t.Status && eqGroups(c.GPUGroups, t.GPUGroups) {
				act = append(act, name)
			}
		case t.IsVirtualStatus:
			placed = append(placed, name)
		}
	}
	if !g.isWf {
		return g.nextNonWf(w, pend, act, evd, placed)
	}
	type choice struct {
		w int
		f func() *cmdSpec
	}
	var cs []choice
	if len(act) > 0 {
		cs = append(cs, choice{4, func() *cmdSpec {
			g.hasEvict = true
			p := u.Pick(r, act)
			g.evicted[p] = true
			return &cmdSpec{Kind: "evict", Pod: p}
		}})
	}
	// evict again a pod that was un-evicted earlier in this statement (evict, un-evict, evict, un-evict ... of one
	// pod inside one statement, with whatever else in between)
	var again []string
	for _, name := range act {
		if g.unevicted[name] {
			again = append(again, name)
		}
	}
	if len(again) > 0 {
		cs = append(cs, choice{6, func() *cmdSpec {
			g.hasEvict = true
			p := u.Pick(r, again)
			g.evicted[p] = true
			return &cmdSpec{Kind: "evict", Pod: p}
		}})
	}
	// Evict applied to a pod that is already Releasing: one evicted earlier by this statement (once or several
	// times, possibly un-evicted and evicted again in between), or one that is really terminating. Statement.Evict
	// leaves such a pod alone (83a0ca3, bce7109); whatever follows (rollback / discard / commit / un-evict) must behave as if
	// the command had not been issued.
	// One time in three the command hands Statement.Evict a copy of the pod taken when the session was built (its
	// Status does not follow the statement), as the scenario solvers do.
	if len(evd) > 0 {
		cs = append(cs, choice{6, func() *cmdSpec {
			return &cmdSpec{Kind: "evict", Pod: u.Pick(r, evd), Stale: r.Chance(1, 3)}
		}})
	}
	if len(term) > 0 {
		cs = append(cs, choice{4, func() *cmdSpec {
			return &cmdSpec{Kind: "evict", Pod: u.Pick(r, term), Stale: r.Chance(1, 3)}
		}})
	}
	if len(pend) > 0 {
		cs = append(cs, choice{5, func() *cmdSpec { return g.place(w, u.Pick(r, pend)) }})
	}
	if len(evd) > 0 {
		cs = append(cs, choice{4, func() *cmdSpec { return g.replace(w, u.Pick(r, evd)) }})
		cs = append(cs, choice{3, func() *cmdSpec {
			p := u.Pick(r, evd)
			g.unevicted[p] = true
			return &cmdSpec{Kind: "unevict", Pod: p}
		}})
	}
	if len(g.cps) < 4 {
		cs = append(cs, choice{3, func() *cmdSpec {
			g.cps = append(g.cps, int(w.stmt.Checkpoint()))
			return &cmdSpec{Kind: "checkpoint"}
		}})
	}
	if len(g.cps) > 0 {
		cs = append(cs, choice{3, func() *cmdSpec {
			i := r.Intn(len(g.cps))
			cp := g.cps[i]
			g.cps = g.cps[:i+1]
			return &cmdSpec{Kind: "rollback", Cp: cp}
		}})
	}
	if step > 3 {
		cs = append(cs, choice{1, func() *cmdSpec { g.reset(); return &cmdSpec{Kind: "discard"} }})
		cs = append(cs, choice{1, func() *cmdSpec { g.reset(); return &cmdSpec{Kind: "commit"} }})
	}
	if !g.hasEvict && !g.noConvert {
		var js []string
		for j, n := range g.nAlloc {
			if n > 0 {
				js = append(js, j)
			}
		}
		sort.Strings(js)
		if len(js) > 0 {
			cs = append(cs, choice{3, func() *cmdSpec { g.sealed = true; return &cmdSpec{Kind: "convert", Job: u.Pick(r, js)} }})
		}
	}
	tot := 0
	for _, c := range cs {
		tot += c.w
	}
	x := r.Intn(tot)
	for _, c := range cs {
		if x < c.w {
			return c.f()
		}
		x -= c.w
	}
	return nil
}

func (g *random) reset() {
	g.cps = nil
	g.sealed = false
	g.hasEvict = false
	g.nAlloc = map[string]int{}
	g.evicted = map[string]bool{}
	g.unevicted = map[string]bool{}
}

// planWhatIf: when the cluster has nodes whose GPUs differ in memory and a Pending gpu-memory pod, queue
// [Checkpoint; place the pod on node A; Rollback] or [place on A; Discard], then [place the pod on node B of another
// GPU memory size], then mostly Commit - the shape of an abandoned scenario followed by the decision that stands.
// Returns the first command of the plan (nil: no such pod / nodes).
func (g *random) planWhatIf(w *world) *cmdSpec {
	r := g.r
	var pods []string
	for _, name := range w.pods {
		if t := w.pod(name); t != nil && t.Status == pod_status.Pending && t.IsMemoryRequest() {
			pods = append(pods, name)
		}
	}
	if len(pods) == 0 {
		return nil
	}
	pod := u.Pick(r, pods)
	a := u.Pick(r, w.nodes)
	var others []string
	for _, n := range w.nodes {
		if gpuMemOf(w.c, n) != gpuMemOf(w.c, a) {
			others = append(others, n)
		}
	}
	if len(others) == 0 {
		return nil
	}
	b := u.Pick(r, others)
	g.whatifs++
	pending := func() bool { t := w.pod(pod); return t != nil && t.Status == pod_status.Pending }
	placeOn := func(node string) func() *cmdSpec {
		return func() *cmdSpec {
			if !pending() {
				return nil
			}
			return g.placeOn(w, pod, node)
		}
	}
	commit := func() *cmdSpec {
		if r.Chance(1, 4) {
			return nil
		}
		g.reset()
		return &cmdSpec{Kind: "commit"}
	}
	if r.Chance(1, 4) && len(g.cps) == 0 && !g.hasEvict {
		// abandon by Discard
		g.plan = []func() *cmdSpec{func() *cmdSpec { g.reset(); return &cmdSpec{Kind: "discard"} }, placeOn(b), commit}
		return g.placeOn(w, pod, a)
	}
	cpv := int(w.stmt.Checkpoint())
	g.cps = append(g.cps, cpv)
	g.plan = []func() *cmdSpec{placeOn(a),
		func() *cmdSpec {
			for i := len(g.cps) - 1; i >= 0; i-- {
				if g.cps[i] == cpv {
					g.cps = g.cps[:i+1]
					return &cmdSpec{Kind: "rollback", Cp: cpv}
				}
			}
			return nil
		}, placeOn(b), commit}
	return &cmdSpec{Kind: "checkpoint"}
}

// place a Pending pod: Allocate or Pipeline on some node
func (g *random) place(w *world, name string) *cmdSpec {
	return g.placeOn(w, name, u.Pick(g.r, w.nodes))
}

func (g *random) placeOn(w *world, name, node string) *cmdSpec {
	r := g.r
	t := w.pod(name)
	c := &cmdSpec{Pod: name, Node: node}
	if isShared(t) {
		c.HasGroups = true
		c.Groups = g.groupsFor(w, t, node)
	}
	if r.Chance(1, 2) {
		c.Kind = "allocate"
		g.nAlloc[w.jobOf[name]]++
	} else {
		c.Kind = "pipeline"
		if !isShared(t) {
			c.Upd = r.Bool()
		}
	}
	return c
}

// re-place a pod evicted in this statement: same node and devices (un-evict branch), same node
// other devices (move branch), another node
func (g *random) replace(w *world, name string) *cmdSpec {
	r := g.r
	t := w.pod(name)
	c := &cmdSpec{Kind: "pipeline", Pod: name}
	g.hasEvict = true
	mode := r.Intn(3)
	if len(w.nodes) == 1 && mode == 2 {
		mode = r.Intn(2)
	}
	cp := w.copyOn(t.NodeName, name)
	switch {
	case mode == 2:
		for {
			c.Node = u.Pick(r, w.nodes)
			if c.Node != t.NodeName {
				break
			}
		}
		if isShared(t) {
			c.HasGroups, c.Groups = true, g.groupsFor(w, t, c.Node)
		}
	case mode == 1 && isShared(t) && cp != nil:
		c.Node = t.NodeName
		c.HasGroups = true
		for k := 0; k < 8; k++ {
			c.Groups = g.groupsFor(w, t, c.Node)
			if !eqGroups(c.Groups, cp.GPUGroups) {
				break
			}
		}
	default:
		c.Node = t.NodeName
		if isShared(t) && cp != nil {
			c.HasGroups, c.Groups = true, append([]string{}, cp.GPUGroups...)
		}
		g.unevicted[name] = true // the un-evict branch of Pipeline
	}
	return c
}

// programs outside the preconditions: any command on any pod (reported, never alarmed on)
func (g *random) nextNonWf(w *world, pend, act, evd, placed []string) *cmdSpec {
	r := g.r
	all := w.pods
	name := u.Pick(r, all)
	t := w.pod(name)
	switch r.Intn(12) {
	case 0, 1:
		g.hasEvict = true
		if len(evd) > 0 && r.Chance(1, 2) {
			return &cmdSpec{Kind: "evict", Pod: u.Pick(r, evd)} // the same pod evicted twice (ignored since 83a0ca3 + bce7109)
		}
		return &cmdSpec{Kind: "evict", Pod: name}
	case 2, 3:
		c := &cmdSpec{Kind: "pipeline", Pod: name, Node: u.Pick(r, w.nodes), Upd: r.Bool()}
		if isShared(t) && r.Chance(3, 4) {
			c.HasGroups, c.Groups = true, g.groupsFor(w, t, c.Node)
		}
		if len(evd) > 0 {
			g.hasEvict = true
		}
		return c
	case 4:
		c := &cmdSpec{Kind: "allocate", Pod: name, Node: u.Pick(r, w.nodes)}
		if isShared(t) && r.Chance(3, 4) {
			c.HasGroups, c.Groups = true, g.groupsFor(w, t, c.Node)
		}
		return c
	case 5:
		g.hasEvict = true
		return &cmdSpec{Kind: "unevict", Pod: name}
	case 6, 7:
		g.cps = append(g.cps, int(w.stmt.Checkpoint()))
		return &cmdSpec{Kind: "checkpoint"}
	case 8, 9:
		if len(g.cps) > 0 {
			return &cmdSpec{Kind: "rollback", Cp: u.Pick(r, g.cps)}
		}
		return &cmdSpec{Kind: "rollback", Cp: r.Intn(4)}
	case 10:
		g.reset()
		if r.Bool() {
			return &cmdSpec{Kind: "discard"}
		}
		return &cmdSpec{Kind: "commit"}
	default:
		// the index shift of ConvertAllAllocatedToPipelined under undo entries makes operationValid
		// recurse without end (fatal stack overflow): only issued on statements without un-evictions
		if !g.hasEvict {
			return &cmdSpec{Kind: "convert", Job: w.jobOf[name]}
		}
		return &cmdSpec{Kind: "checkpoint"}
	}
}

// ---- clusters ------------------------------------------------------------------------------

// sharedCluster is biased towards GPU sharing: two or three 4-GPU nodes, fractional / multi-fraction /
// gpu-memory pods running on shared devices next to whole-GPU and CPU-only pods, and pending pods of every kind.
func sharedCluster(r *u.Rng) cycle.Cluster {
	var c cycle.Cluster
	nn := r.Range(2, 3)
	for i := 0; i < nn; i++ {
		c.Nodes = append(c.Nodes, core.NodeSpec{Name: fmt.Sprintf("n%d", i+1), Cpu: 16000, Mem: 64 << 30, Gpus: 4, Pods: 110})
	}
	c.Queues = []cycle.Queue{{Name: "q1", Deserved: 4, Limit: 0, OverQuota: 1, Priority: 100}, {Name: "q2", Deserved: 2, Limit: 0, OverQuota: 1, Priority: 100}}
	used := map[string]int{}     // whole devices taken per node
	groups := map[string]int64{} // group -> free MiB
	nj := r.Range(3, 6)
	for i := 0; i < nj; i++ {
		j := cycle.Job{Name: fmt.Sprintf("j%d", i+1), Queue: u.Pick(r, c.Queues).Name, Priority: int32(u.Pick(r, []int{50, 75, 100, 125})), AgeMinutes: r.Range(1, 50), StartedMins: r.Range(1, 120)}
		np := r.Range(1, 3)
		j.MinMember = int32(r.Range(1, np))
		proto := core.PodSpec{Cpu: int64(u.Pick(r, []int{250, 1000})), Mem: 1 << 30}
		need := int64(0)
		switch r.Intn(8) {
		case 0, 1, 2:
			proto.Fraction = u.Pick(r, []string{"0.5", "0.25", "0.75"})
			need = map[string]int64{"0.5": 50, "0.25": 25, "0.75": 75}[proto.Fraction]
		case 3:
			proto.Fraction, proto.NumDev, need = "0.5", 2, 50
		case 4:
			proto.GpuMemory = int64(u.Pick(r, []int{25, 50}))
			need = proto.GpuMemory
		case 5, 6:
			proto.Gpus = int64(r.Range(1, 2))
		default:
		}
		if np >= 2 && r.Chance(1, 4) {
			j.SubGroups = []cycle.SubGroup{{Name: "a", MinMember: 1}, {Name: "b", MinMember: 1}}
		}
		running := r.Chance(3, 5)
		for k := 0; k < np; k++ {
			p := proto
			p.Name = fmt.Sprintf("%s-%d", j.Name, k)
			if len(j.SubGroups) > 0 {
				p.SubGroup = []string{"a", "b"}[min(k, 1)]
			}
			p.Status = pod_status.Pending
			if running && !(k == np-1 && r.Chance(1, 4)) {
				node := u.Pick(r, c.Nodes).Name
				ok := true
				if need > 0 {
					nd := int(max(p.NumDev, 1))
					var gs []string
					for g, free := range groups {
						if len(g) > 2 && g[:2] == node && free >= need && len(gs) < nd {
							gs = append(gs, g)
						}
					}
					sort.Strings(gs)
					for len(gs) < nd && used[node] < 4 {
						used[node]++
						g := fmt.Sprintf("%s-G%d", node, used[node])
						groups[g] = 100
						gs = append(gs, g)
					}
					if len(gs) == nd {
						for _, g := range gs {
							groups[g] -= need
						}
						p.Groups = gs
					} else {
						ok = false
					}
				} else if p.Gpus > 0 {
					if used[node]+int(p.Gpus) <= 4 {
						used[node] += int(p.Gpus)
					} else {
						ok = false
					}
				}
				if ok {
					p.Node, p.Status = node, pod_status.Running
					if r.Chance(1, 8) {
						p.Status = pod_status.Releasing
					}
				} else {
					p.Groups = nil
				}
			}
			j.Pods = append(j.Pods, p)
		}
		c.Jobs = append(c.Jobs, j)
	}
	c.Actions = []string{"statement"}
	return c
}

// heteroCluster: nodes whose GPUs have different memory sizes, a few gpu-memory and fractional pods (running and
// pending) so that queue usage stays below one GPU (Session.QueueAllocatedResources keeps whole GPUs only from 1 up)
// and the accepted GPU portion of a gpu-memory pod / the device memory of a fraction depends on the node it is on.
func heteroCluster(r *u.Rng) cycle.Cluster {
	var c cycle.Cluster
	mems := []int64{100, 200, 200}
	u.Shuffle(r, mems)
	nn := r.Range(2, 3)
	nodeMem := map[string]int64{}
	for i := 0; i < nn; i++ {
		ns := core.NodeSpec{Name: fmt.Sprintf("n%d", i+1), Cpu: 16000, Mem: 64 << 30, Gpus: 2, Pods: 110, GpuMem: mems[i]}
		c.Nodes = append(c.Nodes, ns)
		nodeMem[ns.Name] = ns.GpuMem
	}
	c.Queues = []cycle.Queue{{Name: "q1", Deserved: 2, Limit: 0, OverQuota: 1, Priority: 100}}
	if r.Bool() {
		c.Queues = append(c.Queues, cycle.Queue{Name: "q2", Deserved: 1, Limit: 0, OverQuota: 1, Priority: 100})
	}
	budget := 875 // thousandths of a GPU the running pods may use in total
	ng := map[string]int{}
	nj := r.Range(2, 5)
	for i := 0; i < nj; i++ {
		j := cycle.Job{Name: fmt.Sprintf("j%d", i+1), Queue: u.Pick(r, c.Queues).Name, Priority: int32(u.Pick(r, []int{50, 75, 125})), MinMember: 1, AgeMinutes: r.Range(1, 50), StartedMins: r.Range(1, 120)}
		p := core.PodSpec{Name: j.Name + "-0", Cpu: 250, Mem: 1 << 30, Status: pod_status.Pending}
		if r.Chance(2, 3) {
			p.GpuMemory = int64(u.Pick(r, []int{50, 50, 100}))
		} else {
			p.Fraction = u.Pick(r, []string{"0.25", "0.5"})
		}
		if r.Chance(3, 5) {
			node := u.Pick(r, c.Nodes).Name
			cost := 0
			if p.GpuMemory > 0 {
				cost = int(p.GpuMemory * 1000 / nodeMem[node])
			} else {
				cost = map[string]int{"0.25": 250, "0.5": 500}[p.Fraction]
			}
			if cost <= budget && ng[node] < 2 {
				budget -= cost
				ng[node]++
				p.Node, p.Status = node, pod_status.Running
				p.Groups = []string{fmt.Sprintf("%s-G%d", node, ng[node])}
			}
		}
		j.Pods = []core.PodSpec{p}
		c.Jobs = append(c.Jobs, j)
	}
	c.Actions = []string{"statement"}
	return c
}

// ---- entry point ---------------------------------------------------------------------------------

// workers: number of cases run at the same time (C13_WORKERS, default 6; 1 = sequential).
func workers() int {
	if v, err := strconv.Atoi(os.Getenv("C13_WORKERS")); err == nil && v >= 1 {
		return v
	}
	return 6
}

// probeConvertShift (C13_PROBE=convert-shift, run by hand): ConvertAllAllocatedToPipelined removes allocate entries
// from the log without renumbering the undo entries behind them. Not issued by the actions (the allocate action
// converts statements that hold no eviction), therefore outside wf and outside the generated streams: the commit
// that follows sends an Evict for a pod whose eviction was undone and then recurses without end in operationValid.
func probeConvertShift() {
	run, pend := pod_status.Running, pod_status.Pending
	c := base([]core.NodeSpec{node("n1", 4)}, job1("g", core.PodSpec{Gpus: 1, Status: pend}), job1("a", core.PodSpec{Gpus: 1, Status: run, Node: "n1"}))
	w := newWorld(c, nil)
	for _, cs := range []cmdSpec{{Kind: "allocate", Pod: "g-0", Node: "n1"}, {Kind: "evict", Pod: "a-0"}, {Kind: "unevict", Pod: "a-0"},
		{Kind: "convert", Job: "g"}, {Kind: "commit"}} {
		fmt.Printf("%s ...\n", cs.String())
		failed, _, p := w.exec(cs)
		fmt.Printf("  err=%v panic=%q calls=%v status(a-0)=%v\n", failed, p, w.fc.calls, w.pod("a-0").Status)
	}
}

func Run(dir string, seed uint64, n int, tier string) error {
	if os.Getenv("C13_PROBE") == "convert-shift" {
		probeConvertShift()
		return nil
	}
	if os.Getenv("C13_PROBE") == "solver" {
		probeSolver()
		return nil
	}
	out := u.NewOut(dir, "C13", "KaiV.Run.C13", "case", 12)
	out.Flags = true
	root := u.NewRng(seed)
	add := func(res result, stream string) {
		out.Add(res.term, res.label)
		out.Count("programs:" + stream)
		out.CountN("steps", res.steps)
		for k, v := range res.kinds {
			out.CountN("cmd:"+k, v)
		}
		if res.panicked != "" {
			out.Count("panic:" + stream)
			out.Sample(map[string]string{"panic": res.panicked, "program": res.label})
		}
		if res.stale > 0 {
			out.CountN("restores-with-stale-gpu-groups:"+stream, res.stale)
		}
		if res.nontrivial {
			out.NonTrivial(res.label)
		}
		if stream != "nonwf" {
			out.CountN("re-evictions-after-unevict", res.reEvict)
			out.CountN("second-unevictions(evict,unevict,evict,unevict of one pod in one statement)", res.reUnevict)
			if res.reUnevict > 0 {
				out.Count("programs-with-second-uneviction:" + stream)
			}
			for k, v := range res.ignoredEvict {
				out.CountN("evict-of-releasing-pod:"+k, v)
			}
			if len(res.ignoredEvict) > 0 {
				out.Count("programs-with-evict-of-releasing-pod:" + stream)
			}
			for k, v := range res.ignoredThen {
				out.CountN("evict-of-releasing-pod-then-"+k, v)
			}
			for k, v := range res.reUnevictThen {
				out.CountN("second-uneviction-then-"+k, v)
			}
			if res.erased {
				out.Count("erasure:programs-run-twice:" + stream)
				out.CountN("erasure:commands-dropped", res.erasedDropped)
				out.CountN("erasure:commands-kept", res.erasedKept)
				if res.erasedDropped > 0 {
					out.Count("erasure:programs-with-dropped-commands:" + stream)
				}
			}
			if res.erasedSkip != "" {
				out.Count("erasure:skipped(" + res.erasedSkip + "):" + stream)
			}
			if res.heteroReplace != "" {
				out.Count("erasure:gpu-memory-pod-placed-on-other-gpu-memory-size-after-abandoned-placement(" + res.heteroReplace + "):" + stream)
			}
			if res.drift > 0 {
				out.Count("programs-with-queue-usage-float-drift:" + stream)
				out.CountN("dumps-with-queue-usage-float-drift", res.drift)
			}
			if res.claimRestores > 0 {
				out.CountN("claims:rollbacks-and-discards-compared", res.claimRestores)
				out.CountN("claims:commands-that-changed-the-claims-dump", res.claimMoves)
				out.CountN("claims:rollbacks-and-discards-after-which-the-claims-differ", res.claimNotRestored)
			}
			if res.staleCommitted > 0 {
				out.CountN("erasure:evicted-shared-pods-keeping-gpu-groups-of-an-abandoned-placement-after-commit", res.staleCommitted)
			}
		}
	}
	// the cases are independent sessions: run them on a few workers (a session start costs a 100 ms informer wait),
	// emit in order
	cycle.Build(cycle.Cluster{Nodes: []core.NodeSpec{node("n1", 1)}, Queues: []cycle.Queue{{Name: "q1", Deserved: 1, OverQuota: 1, Priority: 100}}})
	parallel := func(m int, f func(i int) result) []result {
		out := make([]result, m)
		var wg sync.WaitGroup
		next := int64(-1)
		for k := 0; k < workers(); k++ {
			wg.Add(1)
			go func() {
				defer wg.Done()
				for {
					i := int(atomic.AddInt64(&next, 1))
					if i >= m {
						return
					}
					out[i] = f(i)
				}
			}()
		}
		wg.Wait()
		return out
	}
	if os.Getenv("C13_ONLY") == "solver" {
		// by hand: the solver-level stream alone (stress runs over many seeds)
		solverStream(out, root, n, parallel)
		return out.Flush()
	}
	cps := append(corpus(), claimsCorpus()...)
	for i, res := range parallel(len(cps), func(i int) result {
		k := cps[i]
		res := runCaseD(k.c, k.dra, k.fails, &scripted{cmds: k.cmds, isWf: k.wf}, 100)
		res.label = k.name + " " + res.label
		return res
	}) {
		add(res, "corpus")
		_ = i
	}
	type gen struct {
		res    result
		stream string
	}
	gens := make([]gen, n)
	parallel(n, func(i int) result {
		r := root.Fork(uint64(i))
		var c cycle.Cluster
		var dra *draSpec
		switch r.Intn(3) {
		case 0:
			c = sharedCluster(r)
		case 1:
			c = heteroCluster(r)
		default:
			c = cycle.Gen(r)
			c.Actions = []string{"statement"}
		}
		fails := map[int]bool{}
		if r.Chance(1, 4) {
			for k := r.Range(1, 2); k > 0; k-- {
				fails[r.Intn(6)] = true
			}
		}
		g := &random{r: r, isWf: !r.Chance(1, 6), maxLen: r.Range(8, 60), nAlloc: map[string]int{}, evicted: map[string]bool{}, unevicted: map[string]bool{}}
		res := runCaseD(c, dra, fails, g, 60)
		stream := "wf"
		if !g.isWf {
			stream = "nonwf"
		}
		gens[i] = gen{res, stream}
		return res
	})
	for i, x := range gens {
		add(x.res, x.stream)
		if i < 3 {
			out.Sample(x.res.label)
		}
	}
	// worlds with DRA devices and resource claims: well-formed programs only, no ConvertAllAllocatedToPipelined
	nd := n / 2
	dgens := make([]result, nd)
	parallel(nd, func(i int) result {
		r := root.Fork(uint64(7000000 + i))
		c, dra := claimsCluster(r)
		fails := map[int]bool{}
		if r.Chance(1, 4) {
			for k := r.Range(1, 2); k > 0; k-- {
				fails[r.Intn(6)] = true
			}
		}
		g := &random{r: r, isWf: true, noConvert: true, maxLen: r.Range(8, 40), nAlloc: map[string]int{}, evicted: map[string]bool{}, unevicted: map[string]bool{}}
		dgens[i] = runCaseD(c, dra, fails, g, 40)
		return dgens[i]
	})
	for i, x := range dgens {
		add(x, "claims")
		if i < 2 {
			out.Sample(x.label)
		}
	}
	// solver level: the real scenario solver on generated clusters, several fresh sessions per cluster (the node order of
	// the per-node attempts comes from a map iteration); identical outcomes of one cluster are emitted once
	solverStream(out, root, n, parallel)
	// real cycles: at most one call of each kind per pod
	nc := n / 3
	type cyc struct {
		term, label string
		st          map[string]int
	}
	cycs := make([]cyc, nc)
	parallel(nc, func(i int) result {
		r := root.Fork(uint64(5000000 + i))
		c := cycle.Gen(r)
		term, label, st := cycle.Emit(c)
		cycs[i] = cyc{term, label, st}
		return result{}
	})
	for _, x := range cycs {
		out.Add("(KCycle "+x.term+")", x.label)
		out.Count("cycles")
		calls := 0
		for k, v := range x.st {
			out.CountN("cycle-"+k, v)
			calls += v
		}
		if calls > 0 {
			out.NonTrivial(x.label)
		}
	}
	out.Stats["rule"] = "command programs (<= 60 commands: Evict / Pipeline / Allocate / Unevict / Checkpoint / Rollback / Discard / Commit / ConvertAllAllocatedToPipelined, nested checkpoints, evict-then-pipeline of the same pod to the same devices / other devices of the node / another node, re-eviction of a pod that was un-evicted earlier in the same statement (evict, un-evict, evict, un-evict ... of one pod by Unevict and by Pipeline onto its own node, then Commit / Rollback / Discard; counted in the distribution), Evict applied to pods that are already Releasing - evicted earlier by the same statement, by an earlier statement of the program, or terminating in the snapshot - as a legal command of the well-formed stream (weight 6 / 4 of ~35; one time in three Statement.Evict is handed a copy of the pod taken when the session was built, whose Status does not follow the statement, as the scenario solvers do; followed by un-evict / rollback / discard / commit; counted as evict-of-releasing-pod:* in the distribution), fractional, multi-fraction, gpu-memory, whole-GPU and CPU-only pods, Cache.Bind / Cache.Evict failures in 1/4 of the programs) run on the real framework.Statement over sessions from cycle.Build; 5/6 follow the status preconditions (wf), 1/6 ignore them (nonwf: run and compared with the model, not monitored); every well-formed program with a Rollback or Discard is ALSO run without the commands its rollbacks / discards undo (and without the Checkpoint / Rollback / Discard commands) on a second session built from the same cluster, under the same failure oracle (erasure clause: Cache calls of every Commit with all arguments - Bind: node, GPU groups, received resource type, device count, portion, GPU memory, charged quantities; Evict: pod and metadata; TaskPipelined: pod, node, groups - and the final projections with every pod's accepted resources and the queue usage the allocate / deallocate events carried must agree; distribution keys erasure:*); on clusters whose nodes have GPUs of different memory sizes the generator plans [checkpoint; place a gpu-memory pod on node A; rollback | place; discard] then [place it on a node B of another GPU memory size; commit] (at most three per program, counted as erasure:gpu-memory-pod-placed-on-other-gpu-memory-size-after-abandoned-placement), corpus E1..E10 hold the scenario of seeded/C13-2 (8000 / 16000 MiB GPUs, 4000 MiB pod) by Allocate, Pipeline, Discard, nested, with ConvertAllAllocatedToPipelined and with a refused Bind; plus n/2 programs over RESOURCE CLAIMS on sessions with the real dynamicresources plugin (claimsCluster: 2-3 nodes publishing 2-3 DRA devices each, CPU-only and whole-GPU pods, running pods that are the only consumer of a claim allocated on the highest free device while lower ones are free (3 in 4), running pods sharing a claim, a claim shared by a running and a pending pod, pending pods with an own or a shared unallocated claim, two-device claims, terminating consumers; well-formed programs of 8-40 commands without ConvertAllAllocatedToPipelined, Cache failures in 1/4; the claims dump - every pod's ResourceClaimInfo and the plugin's view of every claim - after every command, restore and erasure clauses on it, Bind's claim allocations compared between the two runs; corpus R1..R21: the scenario of seeded/C13-3 under Discard / Rollback / refused eviction / un-evict / re-placement, shared claims, pending pods sharing an unallocated claim (R14 = known finding C13-stale-claim-record), and the shapes of fixed finding C13-undo-aliases-saved-resource-claims R17..R21; Q1, Q2: queue usage float drift), plus real scheduling cycles for the at-most-once clause. The cases are independent sessions and run on C13_WORKERS (default 6) workers, emitted in order. Non-trivial = a program with a rollback or discard that undoes at least two operations of different kinds, or a cycle that issued a call; distinct by full program."
	out.Stats["queue_usage_observable"] = "Session.QueueAllocatedResources (Allocated only, whole GPUs once >= 1); AllocatedNotPreemptible has no exported reader and is not compared; the erasure clause also compares, per queue, the exact net amount the allocate / deallocate events of the session carried (quantified AcceptedResource of the event's task, read through an own event handler registered after the plugins')"
	return out.Flush()
}
