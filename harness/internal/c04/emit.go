package c04

import (
	"fmt"
	"sort"
	"strings"

	v1 "k8s.io/api/core/v1"

	u "kaiverif/internal/util"
)

// ---- Coq term printers (types of coq/Model/Placement.v, Topology.v, Run/C04.v) ----

func labelsTerm(m map[string]string) string {
	ks := make([]string, 0, len(m))
	for k := range m {
		ks = append(ks, k)
	}
	sort.Strings(ks)
	out := make([]string, len(ks))
	for i, k := range ks {
		out[i] = u.Pair(u.Str(k), u.Str(m[k]))
	}
	return u.List(out)
}

func strList(xs []string) string { return u.ListOf(xs, u.Str) }

func opTerm(op string) string {
	switch op {
	case "In":
		return "SIn"
	case "NotIn":
		return "SNotIn"
	case "Exists":
		return "SExists"
	case "DoesNotExist":
		return "SDoesNotExist"
	case "Gt":
		return "SGt"
	case "Lt":
		return "SLt"
	}
	panic("unknown selector operator " + op)
}

func reqTerm(r Req) string {
	return fmt.Sprintf("(mkReq %s %s %s)", u.Str(r.Key), opTerm(r.Op), strList(r.Vals))
}

func reqsTerm(rs []Req) string { return u.ListOf(rs, reqTerm) }

func effTerm(e string) string {
	switch v1.TaintEffect(e) {
	case v1.TaintEffectNoSchedule:
		return "NoSchedule"
	case v1.TaintEffectPreferNoSchedule:
		return "PreferNoSchedule"
	case v1.TaintEffectNoExecute:
		return "NoExecute"
	}
	return "EffOther"
}

func condTerm(c Cond) string {
	t := "COtherCond"
	switch v1.NodeConditionType(c.Type) {
	case v1.NodeReady:
		t = "CReady"
	case v1.NodeMemoryPressure:
		t = "CMemoryPressure"
	case v1.NodeDiskPressure:
		t = "CDiskPressure"
	case v1.NodePIDPressure:
		t = "CPIDPressure"
	case v1.NodeNetworkUnavailable:
		t = "CNetworkUnavailable"
	}
	s := "CUnknown"
	switch v1.ConditionStatus(c.Status) {
	case v1.ConditionTrue:
		s = "CTrue"
	case v1.ConditionFalse:
		s = "CFalse"
	}
	return u.Pair(t, s)
}

// nodeTerm renders a node; labels are those of the real object.
func nodeTerm(n Node, real *v1.Node) string {
	ts := make([]string, len(n.Taints))
	for i, t := range n.Taints {
		ts[i] = fmt.Sprintf("(mkTaint %s %s %s)", u.Str(t.Key), u.Str(t.Val), effTerm(t.Eff))
	}
	return fmt.Sprintf("(mkPNode %s %s %s %s %s)", u.Str(n.Name), labelsTerm(real.Labels), u.List(ts), u.Bool(n.Unsched), u.ListOf(n.Conds, condTerm))
}

func tolTerm(t Tol) string {
	op := "TolOtherOp"
	switch v1.TolerationOperator(t.Op) {
	case "", v1.TolerationOpEqual:
		op = "TolEqual"
	case v1.TolerationOpExists:
		op = "TolExists"
	}
	return fmt.Sprintf("(mkTol %s %s %s %s)", u.Str(t.Key), op, u.Str(t.Val), u.Opt(t.Eff != "", effTerm(t.Eff)))
}

func ptermTerm(t PodTerm) string {
	return fmt.Sprintf("(mkPTerm %s %s %s)", u.Opt(!t.NilSel, reqsTerm(t.Sel)), u.Str(t.Key), strList(t.Nss))
}

// podTerm renders a pod; labels and namespace are those of the real object.
func podTerm(ids *Ids, p Pod, real *v1.Pod) string {
	var aff string
	if p.HasAff {
		ts := make([]string, len(p.NodeAff))
		for i, t := range p.NodeAff {
			ts[i] = fmt.Sprintf("(mkNTerm %s %s)", reqsTerm(t.Exprs), reqsTerm(t.Fields))
		}
		aff = u.Opt(true, u.List(ts))
	} else {
		aff = "None"
	}
	return fmt.Sprintf("(mkPPod %s %s %s %s %s %s %s %s)", u.Pos(ids.Of(p.Name)), u.Str(real.Namespace), labelsTerm(real.Labels),
		labelsTerm(p.NodeSel), aff, u.ListOf(p.Tols, tolTerm), u.ListOf(p.Aff, ptermTerm), u.ListOf(p.Anti, ptermTerm))
}

func tcTerm(t *TC) string {
	return fmt.Sprintf("(mkTC %s %s %s)", u.Str(t.Topo), u.Str(t.Req), u.Str(t.Pref))
}

func tcOptTerm(t *TC) string {
	if t == nil {
		return "None"
	}
	return u.Opt(true, tcTerm(t))
}

func topoTerm(t Topo) string {
	return fmt.Sprintf("(mkTopo %s %s)", u.Str(t.Name), strList(t.Levels))
}

// Ids maps pod names to positives in first-appearance order.
type Ids struct {
	m    map[string]int
	next int
}

func NewIds() *Ids { return &Ids{m: map[string]int{}, next: 1} }
func (i *Ids) Of(name string) int {
	if v, ok := i.m[name]; ok {
		return v
	}
	v := i.next
	i.m[name] = v
	i.next++
	return v
}

func clusterTerm(c Cluster, b *Built) string {
	ns := make([]string, len(c.Nodes))
	for i, n := range c.Nodes {
		ns[i] = nodeTerm(n, b.K8s[n.Name])
	}
	return fmt.Sprintf("(mkCluster %s %s %s)", u.Str(c.PoolKey), u.Str(c.PoolVal), u.List(ns))
}

func sessionNodesTerm(c Cluster, b *Built) string {
	var ns []string
	for _, n := range c.Nodes {
		if b.InSnap[n.Name] {
			ns = append(ns, nodeTerm(n, b.K8s[n.Name]))
		}
	}
	return u.List(ns)
}

func hasDotted(c Cluster) bool {
	for _, t := range c.Topos {
		for _, l := range t.Levels {
			for _, n := range c.Nodes {
				if strings.Contains(n.Labels[l], ".") {
					return true
				}
			}
		}
	}
	return false
}
