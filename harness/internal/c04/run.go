package c04

import (
	"fmt"
	"os"
	"sort"
	"strings"

	"github.com/NVIDIA/KAI-scheduler/pkg/scheduler/api/common_info"
	"github.com/NVIDIA/KAI-scheduler/pkg/scheduler/api/node_info"
	"github.com/NVIDIA/KAI-scheduler/pkg/scheduler/api/pod_info"
	"github.com/NVIDIA/KAI-scheduler/pkg/scheduler/api/pod_status"
	"github.com/NVIDIA/KAI-scheduler/pkg/scheduler/api/podgroup_info/subgroup_info"

	"kaiverif/internal/core"
	"kaiverif/internal/cycle"
	u "kaiverif/internal/util"
)

type emitted struct {
	term, label string
	counts      []string
	fp          string // non-trivial fingerprint ("" = trivial)
}

func findPod(c Cluster, name string) (Pod, bool) {
	for _, j := range c.Jobs {
		for _, p := range j.Pods {
			if p.Name == name {
				return p, true
			}
		}
	}
	return Pod{}, false
}

func placedTerm(ids *Ids, c Cluster, b *Built, names []string) string {
	var out []string
	for _, n := range names {
		p, _ := findPod(c, n)
		out = append(out, u.Pair(podTerm(ids, p, b.Tasks[n].Pod), u.Str(p.Node)))
	}
	return u.List(out)
}

// ---- T2(a) ------------------------------------------------------------------------

// EvalPred runs the real snapshot + PrePredicateFn + FittingNode for the pod "p"
// of the case on every node and returns the KPred case.
func EvalPred(pc PredCase, origin string) (emitted, error) {
	c := pc.C
	// second-phase pods start outside the nodes
	late := map[string]string{}
	if pc.Split >= 0 {
		for ji := pc.Split; ji < pc.NExist; ji++ {
			p := &c.Jobs[ji].Pods[0]
			late[p.Name] = p.Node
		}
		cc := c
		cc.Jobs = append([]Job{}, c.Jobs...)
		for ji := pc.Split; ji < pc.NExist; ji++ {
			j := cc.Jobs[ji]
			j.Pods = append([]Pod{}, j.Pods...)
			j.Pods[0].Node, j.Pods[0].Status = "", pod_status.Pending
			cc.Jobs[ji] = j
		}
		c = cc
	}
	b, err := Build(c)
	if err != nil {
		return emitted{}, err
	}
	ids := NewIds()
	for _, j := range pc.C.Jobs {
		for _, p := range j.Pods {
			ids.Of(p.Name)
		}
	}
	task := b.Tasks["p"]
	job := b.Jobs[common_info.PodGroupID("jp")]
	var early, all []string
	for ji := 0; ji < pc.NExist; ji++ {
		p := pc.C.Jobs[ji].Pods[0]
		if !b.InSnap[p.Node] {
			continue
		}
		all = append(all, p.Name)
		if _, isLate := late[p.Name]; !isLate {
			early = append(early, p.Name)
		}
	}
	pre := "None"
	preErr := error(nil)
	if pc.Split >= 0 {
		preErr = b.Ssn.PrePredicateFn(task, job)
		pre = u.Opt(true, placedTerm(ids, pc.C, b, early))
		for name, node := range late {
			if ni, ok := b.Nodes[node]; ok {
				t := b.Tasks[name]
				t.Status, t.NodeName = pod_status.Running, node
				if err := ni.AddTask(t); err != nil {
					return emitted{}, err
				}
			}
		}
	}
	_ = preErr
	perr := b.Ssn.PrePredicateFn(task, job)
	var verdicts []string
	fits := 0
	vs := ""
	for _, n := range pc.C.Nodes {
		ok := false
		if ni, in := b.Nodes[n.Name]; in && perr == nil {
			ok = b.Ssn.FittingNode(task, ni, true)
		}
		if ok {
			fits++
			vs += "1"
		} else {
			vs += "0"
		}
		verdicts = append(verdicts, u.Pair(u.Str(n.Name), u.Bool(ok)))
	}
	var snap []string
	for _, n := range pc.C.Nodes {
		if b.InSnap[n.Name] {
			snap = append(snap, n.Name)
		}
	}
	p, _ := findPod(pc.C, "p")
	term := fmt.Sprintf("(KPred %s %s %s %s %s %s)", clusterTerm(pc.C, b), pre, placedTerm(ids, pc.C, b, all),
		podTerm(ids, p, task.Pod), strList(snap), u.List(verdicts))
	label := fmt.Sprintf("T2a %s %s", origin, pc.C.Describe())
	if pc.Split >= 0 {
		label += fmt.Sprintf(" two-phase(first PrePredicate with %v on the nodes)", early)
	}
	label += " => fits=" + vs
	e := emitted{term: term, label: label}
	e.counts = append(e.counts, "T2a", fmt.Sprintf("T2a:fitting-nodes=%d", min(fits, 3)))
	if perr != nil {
		e.counts = append(e.counts, "T2a:prepredicate-error")
		if os.Getenv("C04_DEBUG") != "" {
			fmt.Fprintf(os.Stderr, "prepredicate error: %v\n  %s\n", perr, label)
		}
	}
	if pc.Split >= 0 {
		e.counts = append(e.counts, "T2a:two-phase")
	}
	if len(p.NodeSel) > 0 || p.HasAff || len(p.Aff) > 0 || len(p.Anti) > 0 || len(all) > 0 {
		e.fp = label
	}
	return e, nil
}

// ---- T2(b) ------------------------------------------------------------------------

func vecOf(levels []string, labels map[string]string) ([]string, bool) {
	var v []string
	for _, l := range levels {
		x, ok := labels[l]
		if !ok {
			return nil, false
		}
		v = append(v, x)
	}
	return v, true
}

func samePrefix(a, b []string, l int) bool {
	for i := 0; i <= l && i < len(a) && i < len(b); i++ {
		if a[i] != b[i] {
			return false
		}
	}
	return true
}

func topoOf(c Cluster, name string) (Topo, bool) {
	for _, t := range c.Topos {
		if t.Name == name {
			return t, true
		}
	}
	return Topo{}, false
}

func levelIdx(t Topo, name string) int {
	for i, l := range t.Levels {
		if l == name {
			return i
		}
	}
	return -1
}

func nodeLabels(b *Built, name string) (map[string]string, bool) {
	if !b.InSnap[name] {
		return nil, false
	}
	return b.K8s[name].Labels, true
}

// spread: do the named nodes (all of the session) fail to share one domain of level req of topology tc.Topo?
// Go-side pre-diagnosis for the case label only; the verdict is the Coq monitor's.
func spread(c Cluster, b *Built, tc *TC, names []string) bool {
	if tc == nil || tc.Topo == "" || tc.Req == "" {
		return false
	}
	t, ok := topoOf(c, tc.Topo)
	if !ok {
		return len(names) > 0
	}
	l := levelIdx(t, tc.Req)
	if l < 0 {
		return tc.Req != "root" && len(names) > 0
	}
	var first []string
	for _, n := range names {
		ls, in := nodeLabels(b, n)
		if !in {
			return true
		}
		v, ok := vecOf(t.Levels, ls)
		if !ok {
			return true
		}
		if first == nil {
			first = v
		} else if !samePrefix(first, v, l) {
			return true
		}
	}
	return false
}

type sgCall struct {
	name    string
	info    *subgroup_info.SubGroupInfo
	podSets map[string]*subgroup_info.PodSet
	tc      *TC
}

func jobTC(j Job, sg string) *TC {
	if sg == "" {
		if j.TC != nil && j.TC.Topo == "" {
			return nil // the root constraint only exists with a topology name
		}
		return j.TC
	}
	for _, s := range j.SubGroups {
		if s.Name == sg {
			return s.TC
		}
	}
	return nil
}

// EvalSubset calls the real SubsetNodesFn the way allocateSubGroupSet / allocatePodSet do,
// for the root set and every nested set / pod set of job "j", and returns one KSub case per call.
func EvalSubset(c Cluster, origin string) ([]emitted, error) {
	b, err := Build(c)
	if err != nil {
		return nil, err
	}
	var spec Job
	for _, j := range c.Jobs {
		if j.Name == "j" {
			spec = j
		}
	}
	job := b.Jobs[common_info.PodGroupID("j")]
	ids := NewIds()
	for _, j := range c.Jobs {
		for _, p := range j.Pods {
			ids.Of(p.Name)
		}
	}
	var allNodes node_info.NodeSet
	for _, n := range c.Nodes {
		if ni, ok := b.Nodes[n.Name]; ok {
			allNodes = append(allNodes, ni)
		}
	}
	topos := u.ListOf(c.Topos, topoTerm)
	// every pod of the job that sits on a node, with its status: which of them pin the domain is the model's
	// decision (pinning pin_rule), which of them are "active" the monitor's (active_pods)
	var ps []string
	for _, p := range spec.Pods {
		t := b.Tasks[p.Name]
		if t.NodeName != "" {
			ps = append(ps, u.Tuple(u.Pos(ids.Of(p.Name)), u.Str(t.NodeName), core.StatusTerm(t.Status)))
		}
	}
	var out []emitted
	one := func(call sgCall, nodes node_info.NodeSet) node_info.NodeSet {
		var tasks []*pod_info.PodInfo
		var ms []string
		psNames := []string{}
		for n := range call.podSets {
			psNames = append(psNames, n)
		}
		sort.Strings(psNames)
		var activeNames, otherNames []string
		for _, n := range psNames {
			for _, t := range call.podSets[n].GetPodInfos() {
				ms = append(ms, u.Pos(ids.Of(t.Name)))
				if t.Status == pod_status.Pending {
					tasks = append(tasks, t)
				}
				if isActive(t.Status) {
					activeNames = append(activeNames, t.NodeName)
				} else if t.NodeName != "" {
					otherNames = append(otherNames, core.StatusTerm(t.Status)+"@"+t.NodeName)
				}
			}
		}
		sort.Strings(otherNames)
		sort.Slice(tasks, func(i, k int) bool { return tasks[i].Name < tasks[k].Name })
		sets, serr := b.Ssn.SubsetNodesFn(job, call.info, call.podSets, tasks, nodes)
		var allowed []string
		for _, n := range nodes {
			allowed = append(allowed, n.Name)
		}
		var setTerms, setDesc []string
		viol := false
		var firstNonEmpty node_info.NodeSet
		if serr == nil {
			for _, s := range sets {
				var names []string
				for _, n := range s {
					names = append(names, n.Name)
				}
				sort.Strings(names)
				setTerms = append(setTerms, strList(names))
				setDesc = append(setDesc, "{"+strings.Join(names, ",")+"}")
				if len(tasks) > 0 && spread(c, b, call.tc, names) {
					viol = true
				}
				if firstNonEmpty == nil && len(s) > 0 {
					firstNonEmpty = s
				}
			}
		}
		term := fmt.Sprintf("(KSub %s %s %s %s %s %s %s %s)", topos, sessionNodesTerm(c, b), tcOptTerm(call.tc), u.List(ms),
			u.Nat(len(tasks)), strList(allowed), u.List(ps), u.List(setTerms))
		label := fmt.Sprintf("T2b %s", origin)
		if hasDotted(c) {
			label += " dotted-labels"
		}
		label += fmt.Sprintf(" %s call=%s%s tasks=%d nodeSet=%v active=%v => %s", c.Describe(), call.name, tcStr(call.tc), len(tasks), allowed, activeNames, strings.Join(setDesc, " "))
		if len(otherNames) > 0 {
			label += fmt.Sprintf(" not-active=%v", otherNames)
		}
		if len(tasks) > 0 && len(activeNames) > 0 && serr == nil {
			// Go-side pre-diagnosis for the label: a returned node set that shares the required domain with no active pod
			for _, s := range sets {
				if len(s) == 0 {
					continue
				}
				shares := false
				for _, a := range activeNames {
					if !spread(c, b, call.tc, []string{a, s[0].Name}) {
						shares = true
					}
				}
				if !shares {
					viol = true
				}
			}
		}
		if serr != nil {
			label += " error"
		}
		if viol {
			label += " viol=topology"
		}
		e := emitted{term: term, label: label, counts: []string{"T2b", fmt.Sprintf("T2b:sets=%d", min(len(sets), 4))}}
		if serr != nil {
			e.counts = append(e.counts, "T2b:error")
		}
		if call.tc != nil && call.tc.Req != "" {
			e.counts = append(e.counts, "T2b:required-level")
			if len(activeNames) > 0 {
				e.counts = append(e.counts, "T2b:pinned-by-active-pods")
			}
			if len(otherNames) > 0 {
				e.counts = append(e.counts, "T2b:required-level-with-terminating-or-finished-pods")
				if len(activeNames) > 0 && len(tasks) > 0 {
					e.counts = append(e.counts, "T2b:pinned-and-terminating-or-finished-pods-and-tasks")
				}
			}
		}
		if call.tc != nil && len(tasks) > 0 {
			e.fp = label
		}
		out = append(out, e)
		if firstNonEmpty != nil {
			return firstNonEmpty
		}
		return nodes
	}
	var setCalls func(set *subgroup_info.SubGroupSet, name string, nodes node_info.NodeSet)
	setCalls = func(set *subgroup_info.SubGroupSet, name string, nodes node_info.NodeSet) {
		next := one(sgCall{name: "set:" + name, info: &set.SubGroupInfo, podSets: set.GetAllPodSets(), tc: jobTC(spec, name)}, nodes)
		for _, child := range set.GetChildGroups() {
			setCalls(child, child.GetName(), next)
		}
		kids := set.GetChildPodSets()
		sort.Slice(kids, func(i, k int) bool { return kids[i].GetName() < kids[k].GetName() })
		for _, ps := range kids {
			tc := jobTC(spec, ps.GetName())
			if ps.GetName() == "default" {
				tc = nil
			}
			one(sgCall{name: "podset:" + ps.GetName(), info: &ps.SubGroupInfo, podSets: map[string]*subgroup_info.PodSet{ps.GetName(): ps}, tc: tc}, next)
		}
	}
	setCalls(job.RootSubGroupSet, "", allNodes)
	return out, nil
}

// ---- T3 ---------------------------------------------------------------------------

// groupsOf lists every (sub-)group of a job that carries a topology constraint, with the names of all its pods.
func groupsOf(j Job) []struct {
	tc      *TC
	members []string
} {
	var out []struct {
		tc      *TC
		members []string
	}
	parent := map[string]string{}
	for _, s := range j.SubGroups {
		parent[s.Name] = s.Parent
	}
	under := func(p Pod, sg string) bool {
		if sg == "" {
			return true
		}
		for cur, n := p.SubGroup, 0; cur != "" && n < 10; cur, n = parent[cur], n+1 {
			if cur == sg {
				return true
			}
		}
		return false
	}
	add := func(tc *TC, sg string) {
		if tc == nil || tc.Topo == "" {
			return
		}
		var ms []string
		for _, p := range j.Pods {
			if under(p, sg) {
				ms = append(ms, p.Name)
			}
		}
		out = append(out, struct {
			tc      *TC
			members []string
		}{tc, ms})
	}
	add(j.TC, "")
	for _, s := range j.SubGroups {
		add(s.TC, s.Name)
	}
	return out
}

// isActive: the statuses of a workload's ACTIVE pods in the sense of the property (the harness's own list, for labels
// and counters only; the verdicts are the Coq monitor's).
func isActive(s pod_status.PodStatus) bool {
	switch s {
	case pod_status.Allocated, pod_status.Pipelined, pod_status.Binding, pod_status.Bound, pod_status.Running:
		return true
	}
	return false
}

// EvalCycle runs the real actions and returns the KCycle case.
func EvalCycle(c Cluster, origin string) (emitted, error) {
	b, err := Build(c)
	if err != nil {
		return emitted{}, err
	}
	ids := NewIds()
	var pods, init []string
	for _, j := range c.Jobs {
		for _, p := range j.Pods {
			ids.Of(p.Name)
		}
	}
	for _, j := range c.Jobs {
		for _, p := range j.Pods {
			t := b.Tasks[p.Name]
			pods = append(pods, podTerm(ids, p, t.Pod))
			if t.NodeName != "" {
				// with its status: the monitor decides who is on the node (active-used) and who is an active pod of its group
				if _, ok := b.Nodes[t.NodeName]; ok {
					init = append(init, u.Tuple(u.Pos(ids.Of(p.Name)), u.Str(t.NodeName), core.StatusTerm(t.Status)))
				}
			}
		}
	}
	type grp struct {
		tc      *TC
		members map[string]bool
	}
	var groups []string
	var ggo []grp
	for _, j := range c.Jobs {
		for _, g := range groupsOf(j) {
			ms := make([]string, len(g.members))
			set := map[string]bool{}
			for i, m := range g.members {
				ms[i] = u.Pos(ids.Of(m))
				set[m] = true
			}
			groups = append(groups, fmt.Sprintf("(mkGI %s %s)", tcTerm(g.tc), u.List(ms)))
			ggo = append(ggo, grp{g.tc, set})
		}
	}
	// Go-side mirror of the topology clause, for the label only
	active := map[string]string{}
	for _, j := range c.Jobs {
		for _, p := range j.Pods {
			t := b.Tasks[p.Name]
			if isActive(t.Status) && t.NodeName != "" {
				if _, ok := b.Nodes[t.NodeName]; ok {
					active[p.Name] = t.NodeName
				}
			}
		}
	}
	// coverage of the terminating-pod family: a group with a required level that starts the cycle with an active pod,
	// a pod on a node that is not active (Releasing / Succeeded / Failed) and a pending pod
	family, familySplit := false, false
	for _, g := range ggo {
		if g.tc == nil || g.tc.Req == "" {
			continue
		}
		var act, other []string
		pend := false
		for m := range g.members {
			t := b.Tasks[m]
			switch {
			case t.Status == pod_status.Pending:
				pend = true
			case t.NodeName == "" || b.Nodes[t.NodeName] == nil:
			case isActive(t.Status):
				act = append(act, t.NodeName)
			default:
				other = append(other, t.NodeName)
			}
		}
		if pend && len(act) > 0 && len(other) > 0 {
			family = true
			for _, o := range other {
				alone := true
				for _, a := range act {
					if !spread(c, b, g.tc, []string{a, o}) {
						alone = false
					}
				}
				familySplit = familySplit || alone
			}
		}
	}
	panicked := RunActions(b, c.Actions)
	var calls, cdesc []string
	counts := []string{"T3"}
	if family {
		counts = append(counts, "T3:required-level:active+terminating-or-finished+pending")
	}
	if familySplit {
		counts = append(counts, "T3:required-level:active+terminating-or-finished-in-another-domain+pending")
	}
	viol := false
	for _, cl := range b.Rec.Calls() {
		switch cl.Kind {
		case "bind", "pipe":
			k := "CBind"
			if cl.Kind == "pipe" {
				k = "CPipe"
			}
			calls = append(calls, fmt.Sprintf("(%s %s %s)", k, u.Pos(ids.Of(cl.Pod)), u.Str(cl.Node)))
			cdesc = append(cdesc, fmt.Sprintf("%s(%s->%s)", cl.Kind, cl.Pod, cl.Node))
			for _, g := range ggo {
				if !g.members[cl.Pod] {
					continue
				}
				ok := false
				anyActive := false
				for m := range g.members {
					if n, is := active[m]; is && m != cl.Pod {
						anyActive = true
						if !spread(c, b, g.tc, []string{n, cl.Node}) {
							ok = true
						}
					}
				}
				if !anyActive {
					ok = !spread(c, b, g.tc, []string{cl.Node})
				}
				if !ok {
					viol = true
				}
			}
			active[cl.Pod] = cl.Node
		case "evict":
			calls = append(calls, fmt.Sprintf("(CEvict %s)", u.Pos(ids.Of(cl.Pod))))
			cdesc = append(cdesc, fmt.Sprintf("evict(%s,%s)", cl.Pod, cl.Action))
			delete(active, cl.Pod)
		}
		counts = append(counts, "T3:call:"+cl.Kind)
	}
	term := fmt.Sprintf("(KCycle %s %s %s %s %s %s)", clusterTerm(c, b), u.ListOf(c.Topos, topoTerm), u.List(pods), u.List(init), u.List(groups), u.List(calls))
	label := "T3 " + origin
	if hasDotted(c) {
		label += " dotted-labels"
	}
	label += " " + c.Describe() + " => " + strings.Join(cdesc, " ")
	if viol {
		label += " viol=topology"
	}
	if panicked != "" {
		counts = append(counts, "T3:PANIC")
		label += " PANIC"
		fmt.Fprintf(os.Stderr, "PANIC in actions: %s\n  cluster: %s\n", panicked, c.Describe())
	}
	e := emitted{term: term, label: label, counts: counts}
	if len(calls) > 0 {
		e.fp = label
	} else {
		e.counts = append(e.counts, "T3:cycles-without-decisions")
	}
	if len(groups) > 0 {
		e.counts = append(e.counts, "T3:with-topology-constraint")
	}
	return e, nil
}

// ---- fixed corpus -------------------------------------------------------------------

func cnode(name string, gpus int64, labels map[string]string) Node {
	return Node{NodeSpec: core.NodeSpec{Name: name, Cpu: 8000, Mem: 16 << 30, Gpus: gpus, Pods: 110, Labels: labels}}
}

func cpod(name string, gpus int64) Pod {
	return Pod{PodSpec: core.PodSpec{Name: name, Cpu: 100, Mem: 1 << 20, Gpus: gpus, Status: pod_status.Pending}}
}

func running(p Pod, node string) Pod {
	p.Status, p.Node = pod_status.Running, node
	return p
}

func antiAppX() []PodTerm {
	return []PodTerm{{Sel: []Req{{Key: "app", Op: "In", Vals: []string{"x"}}}, Key: "host"}}
}

// corpusCycles: minimised past findings and boundary clusters, always run first.
func corpusCycles() []struct {
	name string
	c    Cluster
} {
	q := []cycle.Queue{{Name: "q1", Deserved: 1, Limit: 0, OverQuota: 1, Priority: 100}}
	q2 := []cycle.Queue{{Name: "q1", Deserved: 2, Limit: 0, OverQuota: 1, Priority: 100}}
	a0 := cpod("a-0", 1)
	a0.Labels = map[string]string{"app": "x"}
	b0 := cpod("b-0", 0)
	b0.NodeSel = map[string]string{"host": "n1"}
	b0.Anti = antiAppX()
	sticky := Cluster{
		Nodes:  []Node{cnode("n1", 1, map[string]string{"host": "n1"})},
		Queues: q,
		Jobs: []Job{
			{Name: "v", Queue: "q1", Priority: 50, MinMember: 1, AgeMinutes: 30, StartedMins: 30, Pods: []Pod{running(cpod("v-0", 1), "n1")}},
			{Name: "a", Queue: "q1", Priority: 100, MinMember: 1, AgeMinutes: 20, Pods: []Pod{a0}},
			{Name: "b", Queue: "q1", Priority: 75, MinMember: 1, AgeMinutes: 10, Pods: []Pod{b0}},
		},
		Actions: []string{"allocate", "preempt"},
	}
	dotted := Cluster{
		Nodes:  []Node{cnode("n1", 1, map[string]string{"zone": "a.b", "rack": "c"}), cnode("n2", 1, map[string]string{"zone": "a", "rack": "b.c"})},
		Topos:  []Topo{{Name: "T", Levels: []string{"zone", "rack"}}},
		Queues: q2,
		Jobs: []Job{{Name: "a", Queue: "q1", Priority: 100, MinMember: 2, AgeMinutes: 20, TC: &TC{Topo: "T", Req: "rack"},
			Pods: []Pod{cpod("a-0", 1), cpod("a-1", 1)}}},
		Actions: []string{"allocate"},
	}
	// a gang that must stay in one rack and fits only across two racks of one zone: nothing may be placed
	racks := Cluster{
		Nodes: []Node{cnode("n1", 1, map[string]string{"zone": "a", "rack": "r1"}), cnode("n2", 1, map[string]string{"zone": "a", "rack": "r2"}),
			cnode("n3", 2, map[string]string{"zone": "b"})},
		Topos:  []Topo{{Name: "T", Levels: []string{"zone", "rack"}}},
		Queues: q2,
		Jobs: []Job{{Name: "a", Queue: "q1", Priority: 100, MinMember: 2, AgeMinutes: 20, TC: &TC{Topo: "T", Req: "rack"},
			Pods: []Pod{cpod("a-0", 1), cpod("a-1", 1)}}},
		Actions: []string{"allocate"},
	}
	missing := racks
	missing.Jobs = []Job{{Name: "a", Queue: "q1", Priority: 100, MinMember: 1, AgeMinutes: 20, TC: &TC{Topo: "U", Req: "rack"}, Pods: []Pod{cpod("a-0", 1)}}}
	// taint + pipelined placement through preempt
	t0 := cpod("t-0", 1)
	tainted := Cluster{
		Nodes: []Node{{NodeSpec: core.NodeSpec{Name: "n1", Cpu: 8000, Mem: 16 << 30, Gpus: 1, Pods: 110, Labels: map[string]string{"host": "n1"}},
			Taints: []Taint{{Key: "t1", Val: "v1", Eff: "NoSchedule"}}}},
		Queues: q,
		Jobs: []Job{
			{Name: "v", Queue: "q1", Priority: 50, MinMember: 1, AgeMinutes: 30, StartedMins: 30, Pods: []Pod{running(cpod("v-0", 1), "n1")}},
			{Name: "t", Queue: "q1", Priority: 100, MinMember: 1, AgeMinutes: 20, Pods: []Pod{t0}},
		},
		Actions: []string{"allocate", "preempt"},
	}
	// a running pod in zone a; the second pod of the job can only get a GPU by preempting in zone b
	elastic := Cluster{
		Nodes:  []Node{cnode("n1", 1, map[string]string{"zone": "a"}), cnode("n2", 1, map[string]string{"zone": "b"})},
		Topos:  []Topo{{Name: "T", Levels: []string{"zone"}}},
		Queues: q2,
		Jobs: []Job{
			{Name: "e", Queue: "q1", Priority: 100, MinMember: 1, AgeMinutes: 40, StartedMins: 40, TC: &TC{Topo: "T", Req: "zone"},
				Pods: []Pod{running(cpod("e-0", 1), "n1"), cpod("e-1", 1)}},
			{Name: "v", Queue: "q1", Priority: 50, MinMember: 1, AgeMinutes: 30, StartedMins: 30, Pods: []Pod{running(cpod("v-0", 1), "n2")}},
		},
		Actions: []string{"allocate", "preempt"},
	}
	// two pods that exclude each other per host, placed in the same cycle on a cluster where packing prefers one node
	x1, x2 := cpod("x1-0", 1), cpod("x2-0", 1)
	x1.Labels, x2.Labels = map[string]string{"app": "x"}, map[string]string{"app": "x"}
	x1.Anti, x2.Anti = antiAppX(), antiAppX()
	sameCycle := Cluster{
		Nodes:  []Node{cnode("n1", 4, map[string]string{"host": "n1"}), cnode("n2", 4, map[string]string{"host": "n2"})},
		Queues: []cycle.Queue{{Name: "q1", Deserved: 4, Limit: 0, OverQuota: 1, Priority: 100}},
		Jobs: []Job{{Name: "x1", Queue: "q1", Priority: 100, MinMember: 1, AgeMinutes: 20, Pods: []Pod{x1}},
			{Name: "x2", Queue: "q1", Priority: 100, MinMember: 1, AgeMinutes: 10, Pods: []Pod{x2}}},
		Actions: []string{"allocate"},
	}
	// a parent set that requires one zone; its two pod sets can only run in different zones: nothing may be placed
	pa, pb := cpod("s-0", 1), cpod("s-1", 1)
	pa.SubGroup, pb.SubGroup = "a", "b"
	pa.NodeSel, pb.NodeSel = map[string]string{"host": "n1"}, map[string]string{"host": "n3"}
	nested := Cluster{
		Nodes: []Node{cnode("n1", 1, map[string]string{"host": "n1", "zone": "a", "rack": "r1"}), cnode("n2", 1, map[string]string{"host": "n2", "zone": "a", "rack": "r2"}),
			cnode("n3", 1, map[string]string{"host": "n3", "zone": "b", "rack": "r3"})},
		Topos:  []Topo{{Name: "T", Levels: []string{"zone", "rack"}}},
		Queues: q2,
		Jobs: []Job{{Name: "s", Queue: "q1", Priority: 100, MinMember: 2, AgeMinutes: 20,
			SubGroups: []SubGroup{{Name: "p", Min: 1, TC: &TC{Topo: "T", Req: "zone"}}, {Name: "a", Parent: "p", Min: 1, TC: &TC{Topo: "T", Req: "rack"}}, {Name: "b", Parent: "p", Min: 1}},
			Pods:      []Pod{pa, pb}}},
		Actions: []string{"allocate"},
	}
	// the same with satisfiable selectors: both pods must end up in zone a
	nestedOK := nested
	qa, qb := pa, pb
	qb.NodeSel = map[string]string{"zone": "a"}
	nestedOK.Jobs = []Job{{Name: "s", Queue: "q1", Priority: 100, MinMember: 2, AgeMinutes: 20, SubGroups: nested.Jobs[0].SubGroups, Pods: []Pod{qa, qb}}}
	return []struct {
		name string
		c    Cluster
	}{{"sticky-skip", sticky}, {"active-pods-not-pinning", elastic}, {"same-cycle-anti-affinity", sameCycle}, {"nested-parent-zone", nested}, {"nested-parent-zone-ok", nestedOK}, {"dotted-labels-gang", dotted}, {"two-racks", racks}, {"missing-topology", missing}, {"taint-preempt", tainted}}
}

// ---- driver ---------------------------------------------------------------------------

// Run generates the three streams and writes the cases under dir.
func Run(dir string, seed uint64, n int, tier string) error {
	out := u.NewOut(dir, "C04", "KaiV.Run.C04", "case", 40)
	root := u.NewRng(seed)
	add := func(e emitted) {
		out.Add(e.term, e.label)
		for _, k := range e.counts {
			out.Count(k)
		}
		if e.fp != "" {
			out.NonTrivial(e.fp)
		}
		if strings.HasPrefix(e.label, "T3") || out.Len()%97 == 0 {
			out.Sample(e.label)
		}
	}
	for _, cc := range corpusCycles() {
		e, err := EvalCycle(cc.c, "corpus:"+cc.name)
		if err != nil {
			return err
		}
		add(e)
		if len(cc.c.Topos) > 0 {
			c2 := cc.c
			c2.Jobs = append([]Job{}, cc.c.Jobs...)
			c2.Jobs[0].Name = "j"
			es, err := EvalSubset(c2, "corpus:"+cc.name)
			if err != nil {
				return err
			}
			for _, e := range es {
				add(e)
			}
		}
	}
	for _, cc := range corpusTerminating() {
		e, err := EvalCycle(cc.c, "corpus:"+cc.name)
		if err != nil {
			return err
		}
		add(e)
		c2 := cc.c
		c2.Jobs = append([]Job{}, cc.c.Jobs...)
		c2.Jobs[0].Name = "j"
		es, err := EvalSubset(c2, "corpus:"+cc.name)
		if err != nil {
			return err
		}
		for _, e := range es {
			add(e)
		}
	}
	// n counts generated inputs: 1/2 predicate triples, 1/4 topology clusters, 1/4 whole cycles
	for i := 0; i < n; i++ {
		r := root.Fork(uint64(i))
		switch i % 4 {
		case 0, 1:
			e, err := EvalPred(genPred(r), "gen")
			if err != nil {
				return err
			}
			add(e)
		case 2:
			dotted := i%40 == 2 // a small separate stream with dotted label values
			origin := "gen"
			if dotted {
				origin = "gen-dotted"
			}
			term := 4 // a third of the constrained jobs get terminating / finished pods ...
			if !dotted && i%16 == 6 {
				origin, term = "gen-terminating", 12 // ... and a separate stream where all of them do
			}
			es, err := EvalSubset(genTopoCluster(r, dotted, term), origin)
			if err != nil {
				return err
			}
			for _, e := range es {
				add(e)
			}
		default:
			dotted := i%80 == 3
			origin := "gen"
			if dotted {
				origin = "gen-dotted"
			}
			var cl Cluster
			if !dotted && i%8 == 7 {
				origin = "gen-contended"
				cl = genContended(r)
			} else if !dotted && i%16 == 11 {
				origin = "gen-terminating"
				cl = genTerminating(r)
			} else {
				cl = genCycle(r, dotted)
			}
			e, err := EvalCycle(cl, origin)
			if err != nil {
				return err
			}
			add(e)
		}
	}
	out.Stats["rule"] = "three streams from one splitmix64 PRNG after a fixed corpus (sticky-skip regression, dotted-label gang, two-racks gang, missing topology, taint+preempt; " +
		"terminating-pod family: a workload with a required level that has a Running pod in one domain, a Releasing / Succeeded / Failed pod in another domain with room and a pending pod - flat, sub-group and nested constraints, one and two levels, nomination onto the terminating pod's GPU, the terminating pod produced in the cycle by reclaim / preempt evicting an elastic surplus pod): " +
		"T2a (1/2) one pod against every node of a 2-5 node cluster - labels from zone/rack/num/host alphabets, selectors with In/NotIn/Exists/DoesNotExist/Gt/Lt and matchFields, " +
		"taints of all effects, tolerations, unschedulable / not-ready / pressure conditions, node-pool label, 0-5 pods already on the nodes with (anti-)affinity terms and two namespaces, a third of them two-phase " +
		"(PrePredicate evaluated before and after pods appear); T2b (1/4) SubsetNodesFn called as allocate does for the root set, nested sets and pod sets of a job on 3-6 node clusters with a 1-3 level topology " +
		"(unbalanced, nodes lacking labels, required / preferred / bogus levels, missing topology, active pods pinning the domain, a third of the jobs - and all jobs of a separate 1/4 sub-stream - with Releasing / Succeeded / Failed pods on arbitrary nodes; 1/10 of these clusters with dotted label values); " +
		"T3 (1/4) whole cycles (allocate + random subset of consolidation, reclaim, preempt; half of them contended: every GPU held by a low-priority running pod so that placements are nominations after evictions) on 2-5 node clusters with GPUs, taints, conditions, pool label, 2-7 jobs with selectors / affinities / tolerations / topology constraints / nested sub-groups, a third of the workloads with a required level carrying Releasing / Succeeded / Failed pods on arbitrary nodes; " +
		"1/4 of the non-contended cycles are built around one elastic workload with a required level (job, pod set or nested set) that has active, terminating and pending pods, every other GPU free or held by pods of lower / higher priority in either queue, a reclaiming job, actions in varying order). " +
		"Non-trivial = T2a: the pod carries a selector / affinity term or pods are already placed; T2b: a constrained call with tasks; T3: the cycle issued at least one call. Distinct by full label."
	return out.Flush()
}
