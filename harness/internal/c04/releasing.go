package c04

import (
	"fmt"

	"github.com/NVIDIA/KAI-scheduler/pkg/scheduler/api/pod_status"

	"kaiverif/internal/core"
	"kaiverif/internal/cycle"
	u "kaiverif/internal/util"
)

// Terminating and finished pods of topology-constrained workloads.
//
// A workload with a required topology level is pinned to the domains that hold one of its ACTIVE pods
// (Allocated / Pipelined / Binding / Bound / Running). A pod that is Releasing (deleted and still terminating,
// or evicted earlier in the cycle), Succeeded or Failed still has a node name - and, when Releasing, still holds
// the node's resources - but pins nothing. The worlds below put such a pod into ANOTHER required-level domain
// than the workload's active pod, with room next to it and a pending pod of the workload to place.

func withStatus(p Pod, node string, st pod_status.PodStatus) Pod {
	p.Status, p.Node = st, node
	return p
}

func inSub(p Pod, sg string) Pod {
	p.SubGroup = sg
	return p
}

type namedCluster struct {
	name string
	c    Cluster
}

// corpusTerminating: the world of seeded/C04-4's README and its variants.
func corpusTerminating() []namedCluster {
	q2 := []cycle.Queue{{Name: "q1", Deserved: 3, Limit: 0, OverQuota: 1, Priority: 100}}
	rackT := []Topo{{Name: "T", Levels: []string{"rack"}}}
	zoneRackT := []Topo{{Name: "T", Levels: []string{"zone", "rack"}}}
	rack := func(r string) map[string]string { return map[string]string{"rack": r} }
	zr := func(z, r string) map[string]string { return map[string]string{"zone": z, "rack": r} }
	req := func(l string) *TC { return &TC{Topo: "T", Req: l} }
	elastic := func(tc *TC, pods ...Pod) Job {
		return Job{Name: "e", Queue: "q1", Priority: 100, MinMember: 1, AgeMinutes: 40, StartedMins: 40, TC: tc, Pods: pods}
	}
	var out []namedCluster
	add := func(name string, c Cluster) { out = append(out, namedCluster{name, c}) }

	// rack1 {n1: e-0 Running}  rack2 {n2: e-1 <old>, n3 free}  e-2 Pending, required level rack.
	// Expected: e-2 stays pending (rack1 is full, rack2 is not the job's rack).
	readme := func(old pod_status.PodStatus) Cluster {
		return Cluster{
			Nodes:   []Node{cnode("n1", 1, rack("r1")), cnode("n2", 1, rack("r2")), cnode("n3", 1, rack("r2"))},
			Topos:   rackT,
			Queues:  q2,
			Jobs:    []Job{elastic(req("rack"), running(cpod("e-0", 1), "n1"), withStatus(cpod("e-1", 1), "n2", old), cpod("e-2", 1))},
			Actions: []string{"allocate"},
		}
	}
	add("terminating-pod-in-other-rack", readme(pod_status.Releasing))
	add("succeeded-pod-in-other-rack", readme(pod_status.Succeeded))
	add("failed-pod-in-other-rack", readme(pod_status.Failed))
	// the same through every action: nothing may be placed by the solvers either
	all := readme(pod_status.Releasing)
	all.Actions = []string{"allocate", "consolidation", "reclaim", "preempt"}
	add("terminating-pod-in-other-rack-all-actions", all)
	// no free node in rack2: the only way into rack2 is a nomination onto the terminating pod's GPU
	nom := readme(pod_status.Releasing)
	nom.Nodes = nom.Nodes[:2]
	add("terminating-pod-in-other-rack-nomination", nom)
	// room in rack1 too: the pod must go to rack1 (n4), whatever the order of the domains
	both := readme(pod_status.Releasing)
	both.Nodes = append(append([]Node{}, both.Nodes...), cnode("n4", 1, rack("r1")))
	add("terminating-pod-in-other-rack-room-in-both", both)
	// the terminating pod in the SAME rack as the running one: the pending pod goes to that rack (n4), never to rack1
	add("terminating-pod-in-same-rack", Cluster{
		Nodes:   []Node{cnode("n1", 1, rack("r1")), cnode("n2", 1, rack("r2")), cnode("n3", 1, rack("r2")), cnode("n4", 1, rack("r2"))},
		Topos:   rackT,
		Queues:  q2,
		Jobs:    []Job{elastic(req("rack"), running(cpod("e-0", 1), "n2"), withStatus(cpod("e-1", 1), "n3", pod_status.Releasing), cpod("e-2", 1))},
		Actions: []string{"allocate"},
	})
	// only terminating pods, no active one: nothing is pinned, the pending pod may go anywhere (n3 or n1)
	add("only-terminating-pods", Cluster{
		Nodes:   []Node{cnode("n1", 1, rack("r1")), cnode("n2", 1, rack("r2")), cnode("n3", 1, rack("r2"))},
		Topos:   rackT,
		Queues:  q2,
		Jobs:    []Job{elastic(req("rack"), withStatus(cpod("e-0", 1), "n2", pod_status.Releasing), cpod("e-1", 1))},
		Actions: []string{"allocate"},
	})
	// a gang of two pending pods next to the running and the terminating pod: rack2 has room for both, rack1 for none
	add("terminating-pod-in-other-rack-two-pending", Cluster{
		Nodes:   []Node{cnode("n1", 1, rack("r1")), cnode("n2", 1, rack("r2")), cnode("n3", 2, rack("r2"))},
		Topos:   rackT,
		Queues:  q2,
		Jobs:    []Job{elastic(req("rack"), running(cpod("e-0", 1), "n1"), withStatus(cpod("e-1", 1), "n2", pod_status.Releasing), cpod("e-2", 1), cpod("e-3", 1))},
		Actions: []string{"allocate"},
	})

	// the constraint on a SUB-GROUP: pod set a requires one rack (s-0 Running r1, s-1 Releasing r2, s-2 Pending);
	// pod set b is free and already runs in rack2
	subs := []SubGroup{{Name: "a", Min: 1, TC: req("rack")}, {Name: "b", Min: 1}}
	add("sub-group-terminating-pod-in-other-rack", Cluster{
		Nodes:  []Node{cnode("n1", 1, rack("r1")), cnode("n2", 1, rack("r2")), cnode("n3", 2, rack("r2"))},
		Topos:  rackT,
		Queues: []cycle.Queue{{Name: "q1", Deserved: 4, Limit: 0, OverQuota: 1, Priority: 100}},
		Jobs: []Job{{Name: "s", Queue: "q1", Priority: 100, MinMember: 2, AgeMinutes: 40, StartedMins: 40, SubGroups: subs,
			Pods: []Pod{inSub(running(cpod("s-0", 1), "n1"), "a"), inSub(withStatus(cpod("s-1", 1), "n2", pod_status.Releasing), "a"), inSub(cpod("s-2", 1), "a"),
				inSub(running(cpod("s-3", 1), "n3"), "b")}}},
		Actions: []string{"allocate"},
	})
	// nested: parent set p requires one zone, its pod set a one rack; the terminating pod of a sits in the other rack of the zone
	nsubs := []SubGroup{{Name: "p", Min: 1, TC: req("zone")}, {Name: "a", Parent: "p", Min: 1, TC: req("rack")}, {Name: "b", Parent: "p", Min: 1}}
	add("nested-sub-group-terminating-pod-in-other-rack", Cluster{
		Nodes:  []Node{cnode("n1", 1, zr("a", "r1")), cnode("n2", 1, zr("a", "r2")), cnode("n3", 2, zr("a", "r2")), cnode("n4", 2, zr("b", "r3"))},
		Topos:  zoneRackT,
		Queues: []cycle.Queue{{Name: "q1", Deserved: 6, Limit: 0, OverQuota: 1, Priority: 100}},
		Jobs: []Job{{Name: "s", Queue: "q1", Priority: 100, MinMember: 2, AgeMinutes: 40, StartedMins: 40, SubGroups: nsubs,
			Pods: []Pod{inSub(running(cpod("s-0", 1), "n1"), "a"), inSub(withStatus(cpod("s-1", 1), "n2", pod_status.Releasing), "a"), inSub(cpod("s-2", 1), "a"),
				inSub(running(cpod("s-3", 1), "n3"), "b")}}},
		Actions: []string{"allocate"},
	})

	// two levels: the terminating pod shares the ZONE with the running pod but not the required RACK
	twoLevel := func(level string) Cluster {
		return Cluster{
			Nodes:   []Node{cnode("n1", 1, zr("a", "r1")), cnode("n2", 1, zr("a", "r2")), cnode("n3", 1, zr("a", "r2")), cnode("n4", 1, zr("b", "r3"))},
			Topos:   zoneRackT,
			Queues:  q2,
			Jobs:    []Job{elastic(req(level), running(cpod("e-0", 1), "n1"), withStatus(cpod("e-1", 1), "n2", pod_status.Releasing), cpod("e-2", 1))},
			Actions: []string{"allocate"},
		}
	}
	add("two-levels-terminating-pod-shares-zone-not-rack", twoLevel("rack"))
	// control: required level zone - rack2 is inside the job's zone, placing there (n3) is right; zone b (n4) is not
	add("two-levels-required-zone-terminating-pod-in-other-rack", twoLevel("zone"))
	// the terminating pod in another ZONE, required rack, preferred level given as well
	pref := twoLevel("rack")
	pref.Jobs[0].TC = &TC{Topo: "T", Req: "zone", Pref: "rack"}
	pref.Jobs[0].Pods[1] = withStatus(cpod("e-1", 1), "n4", pod_status.Releasing)
	pref.Nodes = append(append([]Node{}, pref.Nodes...), cnode("n5", 1, zr("b", "r3")))
	pref.Nodes[1].Gpus, pref.Nodes[2].Gpus = 0, 0
	add("two-levels-required-zone-preferred-rack-terminating-pod-in-other-zone", pref)

	// the terminating pod is produced IN the cycle: e (q1, over its quota) runs e-0 in rack1 and e-1 in rack2 and has e-2
	// pending; r (q2) can only run on n2 and reclaims it from e-1 (the elastic surplus pod of e). From then on rack1 alone
	// is e's rack: the preempt action must not evict v-0 (rack2) for e-2.
	r0 := cpod("r-0", 1)
	r0.NodeSel = map[string]string{"host": "n2"}
	lab := func(h, r string) map[string]string { return map[string]string{"host": h, "rack": r} }
	inCycle := func(actions ...string) Cluster {
		return Cluster{
			Nodes:  []Node{cnode("n1", 1, lab("n1", "r1")), cnode("n2", 1, lab("n2", "r2")), cnode("n3", 1, lab("n3", "r2"))},
			Topos:  rackT,
			Queues: []cycle.Queue{{Name: "q1", Deserved: 2, Limit: 0, OverQuota: 1, Priority: 100}, {Name: "q2", Deserved: 1, Limit: 0, OverQuota: 1, Priority: 100}},
			Jobs: []Job{
				{Name: "e", Queue: "q1", Priority: 75, MinMember: 1, AgeMinutes: 40, StartedMins: 40, TC: req("rack"),
					Pods: []Pod{running(cpod("e-0", 1), "n1"), running(cpod("e-1", 1), "n2"), cpod("e-2", 1)}},
				{Name: "v", Queue: "q1", Priority: 50, MinMember: 1, AgeMinutes: 30, StartedMins: 30, Pods: []Pod{running(cpod("v-0", 1), "n3")}},
				{Name: "r", Queue: "q2", Priority: 75, MinMember: 1, AgeMinutes: 20, Pods: []Pod{r0}},
			},
			Actions: actions,
		}
	}
	add("surplus-pod-reclaimed-in-cycle-then-preempt", inCycle("allocate", "reclaim", "preempt"))
	// allocate runs after reclaim and sees e-1 Releasing
	add("surplus-pod-reclaimed-in-cycle-then-allocate", inCycle("reclaim", "allocate", "preempt"))
	// inside ONE action: the reclaim simulation evicts e-1 (virtually Releasing on n2, rack2) and tries to put it back
	// somewhere else; n3 (rack2) is free, but e's only active pod is e-0 in rack1, which is full: e-1 is evicted, not moved
	moved := inCycle("allocate", "reclaim")
	moved.Jobs[0].Pods = moved.Jobs[0].Pods[:2]
	moved.Jobs = []Job{moved.Jobs[0], moved.Jobs[2]}
	moved.Queues[0].Deserved = 1
	add("surplus-pod-evicted-by-reclaim-not-moved-within-old-rack", moved)
	// the same with room in rack1 (n4): e-1 moves there
	movedOK := moved
	movedOK.Nodes = append(append([]Node{}, moved.Nodes...), cnode("n4", 1, lab("n4", "r1")))
	movedOK.Nodes[2].Gpus = 0
	add("surplus-pod-moved-by-reclaim-to-the-active-pods-rack", movedOK)
	// preempt produces the terminating pod: h (same queue, higher priority, bound to n2) preempts e-1; then e-2 is tried again
	h0 := cpod("h-0", 1)
	h0.NodeSel = map[string]string{"host": "n2"}
	pre := inCycle("allocate", "preempt", "reclaim", "preempt")
	pre.Jobs[2] = Job{Name: "h", Queue: "q1", Priority: 90, MinMember: 1, AgeMinutes: 20, Pods: []Pod{h0}}
	pre.Queues = []cycle.Queue{{Name: "q1", Deserved: 3, Limit: 0, OverQuota: 1, Priority: 100}}
	add("surplus-pod-preempted-in-cycle", pre)
	preMoved := pre
	preMoved.Jobs = append([]Job{}, pre.Jobs...)
	preMoved.Jobs[0].Pods = pre.Jobs[0].Pods[:2]
	preMoved.Jobs = []Job{preMoved.Jobs[0], preMoved.Jobs[2]}
	preMoved.Actions = []string{"allocate", "preempt"}
	add("surplus-pod-evicted-by-preempt-not-moved-within-old-rack", preMoved)
	cons := preMoved
	cons.Actions = []string{"allocate", "consolidation"}
	add("surplus-pod-not-consolidated-within-old-rack", cons)
	return out
}

// addTerminating gives a job pods that sit on arbitrary nodes without being active: Releasing (holding the node's
// resources), Succeeded or Failed. The pods are appended (same pod set as the job's last pod).
func addTerminating(r *u.Rng, c *Cluster, rooms map[string]*room, j *Job, n int) int {
	added := 0
	for i := 0; i < n; i++ {
		st := u.Pick(r, []pod_status.PodStatus{pod_status.Releasing, pod_status.Releasing, pod_status.Releasing, pod_status.Releasing, pod_status.Succeeded, pod_status.Failed})
		gp := int64(1)
		sg := ""
		if len(j.Pods) > 0 {
			gp = j.Pods[0].Gpus
			sg = u.Pick(r, j.Pods).SubGroup
		}
		p := Pod{PodSpec: core.PodSpec{Name: fmt.Sprintf("%s-t%d", j.Name, i), Cpu: 250, Mem: 1 << 20, Gpus: gp, SubGroup: sg}}
		start := r.Intn(len(c.Nodes))
		for d := range c.Nodes {
			nd := c.Nodes[(start+d)%len(c.Nodes)]
			rm := rooms[nd.Name]
			if !usable(*c, nd) {
				continue
			}
			if st == pod_status.Releasing {
				if rm.gpus < p.Gpus || rm.cpu < p.Cpu {
					continue
				}
				rm.gpus -= p.Gpus
				rm.cpu -= p.Cpu
			}
			j.Pods = append(j.Pods, withStatus(p, nd.Name, st))
			added++
			break
		}
	}
	return added
}

// genTerminating: a cluster for whole cycles around ONE elastic workload with a required topology level that has
// active pods, terminating / finished pods on arbitrary nodes and pending pods, under every fill state: the other
// GPUs are free or held by running pods of lower / higher priority in the same or another queue, and a pending job of
// another queue may reclaim. Actions: allocate plus a random subset (and order) of consolidation / reclaim / preempt.
func genTerminating(r *u.Rng) Cluster {
	var c Cluster
	levels := [][]string{{"rack"}, {"zone", "rack"}, {"zone", "rack"}, {"zone"}}[r.Intn(4)]
	c.Topos = []Topo{{Name: "T", Levels: levels}}
	genNodes(r, &c, r.Range(3, 6), levels, false, 0)
	for i := range c.Nodes {
		c.Nodes[i].Gpus = int64(u.Pick(r, []int{1, 1, 2}))
	}
	c.Queues = []cycle.Queue{{Name: "q1", Deserved: float64(r.Range(1, 3)), Limit: 0, OverQuota: 1, Priority: 100},
		{Name: "q2", Deserved: float64(r.Range(0, 2)), Limit: 0, OverQuota: 1, Priority: 100}}
	rooms := map[string]*room{}
	for _, n := range c.Nodes {
		rooms[n.Name] = &room{n.Gpus, n.Cpu}
	}
	e := Job{Name: "e", Queue: "q1", Priority: int32(u.Pick(r, []int{50, 75, 75, 100})), MinMember: 1, AgeMinutes: r.Range(20, 50), StartedMins: r.Range(5, 120)}
	nAct, nPend := r.Range(1, 2), r.Range(1, 2)
	for k := 0; k < nAct+nPend; k++ {
		e.Pods = append(e.Pods, Pod{PodSpec: core.PodSpec{Name: fmt.Sprintf("e-%d", k), Cpu: 250, Mem: 1 << 20, Gpus: 1, Status: pod_status.Pending}})
	}
	reqLevel := u.Pick(r, levels)
	tc := &TC{Topo: "T", Req: reqLevel}
	if r.Chance(1, 4) {
		tc.Pref = u.Pick(r, levels)
	}
	switch r.Intn(4) {
	case 0: // the constraint sits on a pod set; a second pod set is free
		e.SubGroups = []SubGroup{{Name: "a", Min: 1, TC: tc}, {Name: "b", Min: 1, TC: genTC(r, levels, false)}}
		for i := range e.Pods {
			e.Pods[i].SubGroup = "a"
		}
		e.Pods = append(e.Pods, Pod{PodSpec: core.PodSpec{Name: "e-b", Cpu: 250, Mem: 1 << 20, Gpus: 1, Status: pod_status.Pending, SubGroup: "b"}})
		e.MinMember = 2
	case 1: // nested: the parent requires a (coarser or equal) level as well
		e.SubGroups = []SubGroup{{Name: "p", Min: 1, TC: &TC{Topo: "T", Req: levels[0]}}, {Name: "a", Parent: "p", Min: 1, TC: tc}, {Name: "b", Parent: "p", Min: 1}}
		for i := range e.Pods {
			e.Pods[i].SubGroup = "a"
		}
		e.Pods = append(e.Pods, Pod{PodSpec: core.PodSpec{Name: "e-b", Cpu: 250, Mem: 1 << 20, Gpus: 1, Status: pod_status.Pending, SubGroup: "b"}})
		e.MinMember = 2
	default:
		e.TC = tc
	}
	placeRunning(r, &c, rooms, &e, nAct, levels, r.Chance(1, 6))
	if len(e.SubGroups) > 0 && r.Chance(1, 2) {
		// the free pod set runs somewhere
		last := len(e.Pods) - 1
		one := Job{Pods: []Pod{e.Pods[last]}}
		placeRunning(r, &c, rooms, &one, 1, nil, true)
		e.Pods[last] = one.Pods[0]
	}
	addTerminating(r, &c, rooms, &e, r.Range(1, 2))
	c.Jobs = append(c.Jobs, e)
	// the rest of the cluster
	k := 0
	fill := r.Pick3(3, 6, 9)
	for _, n := range c.Nodes {
		for rooms[n.Name].gpus > 0 {
			rooms[n.Name].gpus--
			if !r.Chance(fill, 10) {
				continue
			}
			k++
			p := Pod{PodSpec: core.PodSpec{Name: fmt.Sprintf("f%d-0", k), Cpu: 250, Mem: 1 << 20, Gpus: 1, Status: pod_status.Running, Node: n.Name}}
			c.Jobs = append(c.Jobs, Job{Name: fmt.Sprintf("f%d", k), Queue: u.Pick(r, []string{"q1", "q1", "q2"}), Priority: int32(u.Pick(r, []int{40, 50, 60, 110})), MinMember: 1,
				AgeMinutes: r.Range(20, 60), StartedMins: r.Range(10, 120), Pods: []Pod{p}})
		}
	}
	if r.Chance(1, 2) {
		p := Pod{PodSpec: core.PodSpec{Name: "r-0", Cpu: 250, Mem: 1 << 20, Gpus: 1, Status: pod_status.Pending}}
		if r.Chance(1, 2) {
			p.NodeSel = map[string]string{"host": u.Pick(r, c.Nodes).Name}
		}
		c.Jobs = append(c.Jobs, Job{Name: "r", Queue: "q2", Priority: int32(u.Pick(r, []int{75, 100})), MinMember: 1, AgeMinutes: r.Range(1, 15), Pods: []Pod{p}})
	}
	c.Actions = []string{"allocate"}
	rest := []string{"consolidation", "reclaim", "preempt"}
	if r.Chance(1, 4) {
		rest = []string{"reclaim", "preempt", "consolidation", "preempt"}
	}
	for _, a := range rest {
		if r.Chance(3, 4) {
			c.Actions = append(c.Actions, a)
		}
	}
	if r.Chance(1, 6) {
		c.Actions = append(c.Actions[1:], "allocate") // allocate last: it sees the pods the other actions evicted
	}
	return c
}

// sprinkleTerminating: with some probability every workload of the cluster that declares a required level gets
// terminating / finished pods on arbitrary nodes (random T3 and T2(b) streams). Decisions come from a forked PRNG so
// that the rest of the generated cluster is what it was without them.
func sprinkleTerminating(r *u.Rng, c *Cluster, rooms map[string]*room, num, den int) {
	rr := r.Fork(0xC044)
	for i := range c.Jobs {
		j := &c.Jobs[i]
		has := j.TC != nil && j.TC.Req != ""
		for _, s := range j.SubGroups {
			has = has || (s.TC != nil && s.TC.Req != "")
		}
		if has && rr.Chance(num, den) {
			addTerminating(rr, c, rooms, j, rr.Range(1, 2))
		}
	}
}
