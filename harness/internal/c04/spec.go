// Package c04 drives the hard placement constraints of the scheduler
// (predicates plugin + upstream kube-scheduler filters, node-pool selector,
// topology plugin's SubsetNodesFn, and whole cycles of the real actions) on
// generated clusters and emits the observations as Coq cases for Run/C04.v.
package c04

import (
	"fmt"
	"sort"
	"strings"

	v1 "k8s.io/api/core/v1"
	metav1 "k8s.io/apimachinery/pkg/apis/meta/v1"

	"kaiverif/internal/core"
	"kaiverif/internal/cycle"
)

// ---- specs ------------------------------------------------------------------

type Req struct {
	Key  string
	Op   string // In NotIn Exists DoesNotExist Gt Lt
	Vals []string
}

type NodeTerm struct{ Exprs, Fields []Req }

type PodTerm struct {
	Sel    []Req // matchLabels are given as In with one value
	NilSel bool  // LabelSelector == nil (matches nothing)
	Key    string
	Nss    []string // empty: the owner's namespace
}

type Taint struct{ Key, Val, Eff string }
type Tol struct{ Key, Op, Val, Eff string }
type Cond struct{ Type, Status string }

type Node struct {
	core.NodeSpec
	Taints  []Taint
	Unsched bool
	Conds   []Cond
}

type Pod struct {
	core.PodSpec
	Ns      string
	Labels  map[string]string
	NodeSel map[string]string
	HasAff  bool // required node affinity present (possibly with zero terms)
	NodeAff []NodeTerm
	Tols    []Tol
	Aff     []PodTerm
	Anti    []PodTerm
}

type TC struct{ Topo, Req, Pref string }

type SubGroup struct {
	Name   string
	Parent string // "" = root
	Min    int32
	TC     *TC
}

type Job struct {
	Name        string
	Queue       string
	Priority    int32
	MinMember   int32
	TC          *TC
	SubGroups   []SubGroup
	AgeMinutes  int
	StartedMins int
	Pods        []Pod
}

type Topo struct {
	Name   string
	Levels []string
}

type Cluster struct {
	PoolKey, PoolVal string
	Nodes            []Node
	Queues           []cycle.Queue
	Jobs             []Job
	Topos            []Topo
	Actions          []string
}

// ---- real objects -----------------------------------------------------------

func (n Node) K8s() *v1.Node {
	o := n.NodeSpec.K8s() // labels: the spec's plus nvidia.com/gpu.count (the model is given the real object's label map)
	o.Spec.Unschedulable = n.Unsched
	for _, t := range n.Taints {
		o.Spec.Taints = append(o.Spec.Taints, v1.Taint{Key: t.Key, Value: t.Val, Effect: v1.TaintEffect(t.Eff)})
	}
	for _, c := range n.Conds {
		o.Status.Conditions = append(o.Status.Conditions, v1.NodeCondition{Type: v1.NodeConditionType(c.Type), Status: v1.ConditionStatus(c.Status)})
	}
	return o
}

func nsReqs(rs []Req) []v1.NodeSelectorRequirement {
	var out []v1.NodeSelectorRequirement
	for _, r := range rs {
		out = append(out, v1.NodeSelectorRequirement{Key: r.Key, Operator: v1.NodeSelectorOperator(r.Op), Values: append([]string{}, r.Vals...)})
	}
	return out
}

func podTerms(ts []PodTerm) []v1.PodAffinityTerm {
	var out []v1.PodAffinityTerm
	for _, t := range ts {
		k := v1.PodAffinityTerm{TopologyKey: t.Key, Namespaces: append([]string{}, t.Nss...)}
		if !t.NilSel {
			ls := &metav1.LabelSelector{}
			for _, r := range t.Sel {
				ls.MatchExpressions = append(ls.MatchExpressions, metav1.LabelSelectorRequirement{Key: r.Key,
					Operator: metav1.LabelSelectorOperator(r.Op), Values: append([]string{}, r.Vals...)})
			}
			k.LabelSelector = ls
		}
		out = append(out, k)
	}
	return out
}

func (p Pod) K8s() *v1.Pod {
	o := p.PodSpec.K8s()
	if p.Ns != "" {
		o.Namespace = p.Ns
	}
	for k, v := range p.Labels {
		o.Labels[k] = v
	}
	if len(p.NodeSel) > 0 {
		o.Spec.NodeSelector = map[string]string{}
		for k, v := range p.NodeSel {
			o.Spec.NodeSelector[k] = v
		}
	}
	if p.HasAff || len(p.Aff) > 0 || len(p.Anti) > 0 {
		o.Spec.Affinity = &v1.Affinity{}
	}
	if p.HasAff {
		ns := &v1.NodeSelector{}
		for _, t := range p.NodeAff {
			ns.NodeSelectorTerms = append(ns.NodeSelectorTerms, v1.NodeSelectorTerm{MatchExpressions: nsReqs(t.Exprs), MatchFields: nsReqs(t.Fields)})
		}
		o.Spec.Affinity.NodeAffinity = &v1.NodeAffinity{RequiredDuringSchedulingIgnoredDuringExecution: ns}
	}
	if len(p.Aff) > 0 {
		o.Spec.Affinity.PodAffinity = &v1.PodAffinity{RequiredDuringSchedulingIgnoredDuringExecution: podTerms(p.Aff)}
	}
	if len(p.Anti) > 0 {
		o.Spec.Affinity.PodAntiAffinity = &v1.PodAntiAffinity{RequiredDuringSchedulingIgnoredDuringExecution: podTerms(p.Anti)}
	}
	for _, t := range p.Tols {
		o.Spec.Tolerations = append(o.Spec.Tolerations, v1.Toleration{Key: t.Key, Operator: v1.TolerationOperator(t.Op), Value: t.Val, Effect: v1.TaintEffect(t.Eff)})
	}
	return o
}

// ---- compact descriptions (labels of cases; replayable by eye) ----------------

func kv(m map[string]string) string {
	ks := make([]string, 0, len(m))
	for k := range m {
		ks = append(ks, k)
	}
	sort.Strings(ks)
	out := make([]string, len(ks))
	for i, k := range ks {
		out[i] = k + "=" + m[k]
	}
	return strings.Join(out, ",")
}

func reqStr(r Req) string {
	switch r.Op {
	case "Exists":
		return r.Key
	case "DoesNotExist":
		return "!" + r.Key
	}
	return fmt.Sprintf("%s %s (%s)", r.Key, r.Op, strings.Join(r.Vals, "|"))
}

func reqsStr(rs []Req) string {
	out := make([]string, len(rs))
	for i, r := range rs {
		out[i] = reqStr(r)
	}
	return strings.Join(out, " & ")
}

func ptermStr(t PodTerm) string {
	s := "{" + reqsStr(t.Sel) + "}"
	if t.NilSel {
		s = "{nil}"
	}
	s += "@" + t.Key
	if len(t.Nss) > 0 {
		s += "/ns:" + strings.Join(t.Nss, "|")
	}
	return s
}

func (n Node) Describe() string {
	var sb strings.Builder
	fmt.Fprintf(&sb, "%s[%s]", n.Name, kv(n.Labels))
	if n.Gpus > 0 {
		fmt.Fprintf(&sb, "gpu%d", n.Gpus)
	}
	for _, t := range n.Taints {
		fmt.Fprintf(&sb, " taint(%s=%s:%s)", t.Key, t.Val, t.Eff)
	}
	if n.Unsched {
		sb.WriteString(" unschedulable")
	}
	for _, c := range n.Conds {
		fmt.Fprintf(&sb, " %s=%s", c.Type, c.Status)
	}
	return sb.String()
}

func (p Pod) Describe() string {
	var sb strings.Builder
	fmt.Fprintf(&sb, "%s", p.Name)
	if p.Ns != "" && p.Ns != "ns" {
		fmt.Fprintf(&sb, "/%s", p.Ns)
	}
	fmt.Fprintf(&sb, "[%s]", kv(p.Labels))
	if p.Status != 0 {
		fmt.Fprintf(&sb, "%s", core.StatusTerm(p.Status))
	}
	if p.Node != "" {
		fmt.Fprintf(&sb, "@%s", p.Node)
	}
	if p.Gpus > 0 {
		fmt.Fprintf(&sb, " g%d", p.Gpus)
	}
	if p.SubGroup != "" {
		fmt.Fprintf(&sb, " sg=%s", p.SubGroup)
	}
	if len(p.NodeSel) > 0 {
		fmt.Fprintf(&sb, " sel(%s)", kv(p.NodeSel))
	}
	if p.HasAff {
		ts := make([]string, len(p.NodeAff))
		for i, t := range p.NodeAff {
			ts[i] = reqsStr(t.Exprs)
			if len(t.Fields) > 0 {
				ts[i] += " fields:" + reqsStr(t.Fields)
			}
		}
		fmt.Fprintf(&sb, " nodeaff(%s)", strings.Join(ts, " || "))
	}
	for _, t := range p.Tols {
		fmt.Fprintf(&sb, " tol(%s %s %s:%s)", t.Key, t.Op, t.Val, t.Eff)
	}
	for _, t := range p.Aff {
		fmt.Fprintf(&sb, " aff%s", ptermStr(t))
	}
	for _, t := range p.Anti {
		fmt.Fprintf(&sb, " anti%s", ptermStr(t))
	}
	return sb.String()
}

func tcStr(t *TC) string {
	if t == nil {
		return ""
	}
	return fmt.Sprintf(" topo(%s req=%s pref=%s)", t.Topo, t.Req, t.Pref)
}

func (c Cluster) Describe() string {
	var sb strings.Builder
	if c.PoolKey != "" {
		fmt.Fprintf(&sb, "pool(%s=%s) ", c.PoolKey, c.PoolVal)
	}
	sb.WriteString("nodes{")
	for i, n := range c.Nodes {
		if i > 0 {
			sb.WriteString("; ")
		}
		sb.WriteString(n.Describe())
	}
	sb.WriteString("}")
	for _, t := range c.Topos {
		fmt.Fprintf(&sb, " topology %s%v", t.Name, t.Levels)
	}
	if len(c.Queues) > 0 {
		sb.WriteString(" queues[")
		for i, q := range c.Queues {
			if i > 0 {
				sb.WriteString(" ")
			}
			fmt.Fprintf(&sb, "%s:q%g,l%g", q.Name, q.Deserved, q.Limit)
		}
		sb.WriteString("]")
	}
	sb.WriteString(" jobs{")
	for i, j := range c.Jobs {
		if i > 0 {
			sb.WriteString("; ")
		}
		fmt.Fprintf(&sb, "%s(q=%s,pri=%d,min=%d%s", j.Name, j.Queue, j.Priority, j.MinMember, tcStr(j.TC))
		for _, sg := range j.SubGroups {
			fmt.Fprintf(&sb, " sub %s<%s min=%d%s", sg.Name, sg.Parent, sg.Min, tcStr(sg.TC))
		}
		sb.WriteString(": ")
		for k, p := range j.Pods {
			if k > 0 {
				sb.WriteString(", ")
			}
			sb.WriteString(p.Describe())
		}
		sb.WriteString(")")
	}
	sb.WriteString("}")
	if len(c.Actions) > 0 {
		fmt.Fprintf(&sb, " actions%v", c.Actions)
	}
	return sb.String()
}
