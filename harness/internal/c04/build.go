package c04

import (
	"fmt"
	"runtime/debug"
	"sort"
	"time"

	"go.uber.org/mock/gomock"
	v1 "k8s.io/api/core/v1"
	metav1 "k8s.io/apimachinery/pkg/apis/meta/v1"
	"k8s.io/apimachinery/pkg/types"
	"k8s.io/client-go/informers"
	"k8s.io/client-go/kubernetes"
	k8sfake "k8s.io/client-go/kubernetes/fake"
	k8sframework "k8s.io/kubernetes/pkg/scheduler/framework"

	kaifake "github.com/NVIDIA/KAI-scheduler/pkg/apis/client/clientset/versioned/fake"
	kaiinformers "github.com/NVIDIA/KAI-scheduler/pkg/apis/client/informers/externalversions"
	kaiv1alpha1 "github.com/NVIDIA/KAI-scheduler/pkg/apis/kai/v1alpha1"
	enginev2alpha2 "github.com/NVIDIA/KAI-scheduler/pkg/apis/scheduling/v2alpha2"
	"github.com/NVIDIA/KAI-scheduler/pkg/common/constants"
	pg "github.com/NVIDIA/KAI-scheduler/pkg/common/podgroup"
	"github.com/NVIDIA/KAI-scheduler/pkg/scheduler/actions"
	"github.com/NVIDIA/KAI-scheduler/pkg/scheduler/api"
	"github.com/NVIDIA/KAI-scheduler/pkg/scheduler/api/common_info"
	"github.com/NVIDIA/KAI-scheduler/pkg/scheduler/api/eviction_info"
	"github.com/NVIDIA/KAI-scheduler/pkg/scheduler/api/node_info"
	"github.com/NVIDIA/KAI-scheduler/pkg/scheduler/api/pod_info"
	"github.com/NVIDIA/KAI-scheduler/pkg/scheduler/api/pod_status"
	"github.com/NVIDIA/KAI-scheduler/pkg/scheduler/api/podgroup_info"
	"github.com/NVIDIA/KAI-scheduler/pkg/scheduler/api/queue_info"
	"github.com/NVIDIA/KAI-scheduler/pkg/scheduler/api/resource_info"
	"github.com/NVIDIA/KAI-scheduler/pkg/scheduler/cache"
	"github.com/NVIDIA/KAI-scheduler/pkg/scheduler/cache/cluster_info"
	"github.com/NVIDIA/KAI-scheduler/pkg/scheduler/conf"
	"github.com/NVIDIA/KAI-scheduler/pkg/scheduler/framework"
	k8splugins "github.com/NVIDIA/KAI-scheduler/pkg/scheduler/k8s_internal/plugins"
	"github.com/NVIDIA/KAI-scheduler/pkg/scheduler/k8s_utils"
	"github.com/NVIDIA/KAI-scheduler/pkg/scheduler/plugins"
	"github.com/NVIDIA/KAI-scheduler/pkg/scheduler/test_utils"
)

// Call is one Cache call of the cycle, in order.
type Call struct {
	Kind      string // bind | evict | pipe
	Pod, Node string
	Action    string
}

type recorder struct {
	cache.Cache
	calls []Call
}

func (r *recorder) Bind(p *pod_info.PodInfo, hostname string, ann map[string]string) error {
	r.calls = append(r.calls, Call{Kind: "bind", Pod: p.Name, Node: hostname})
	return nil
}

func (r *recorder) Evict(pod *v1.Pod, job *podgroup_info.PodGroupInfo, md eviction_info.EvictionMetadata, msg string) error {
	r.calls = append(r.calls, Call{Kind: "evict", Pod: pod.Name, Action: md.Action})
	return nil
}

func (r *recorder) TaskPipelined(t *pod_info.PodInfo, msg string) {
	r.calls = append(r.calls, Call{Kind: "pipe", Pod: t.Name, Node: t.NodeName})
}

// fakeCache is the Cache the session is opened with: fake clientset, un-started
// informers (no API objects besides what the session is given), the shared
// lister of the in-session pod-affinity info, and the real upstream plugins.
// (test_utils.GetTestCacheMock does the same behind gomock but polls 100 ms
// for informer sync on every session.)
type fakeCache struct {
	cache.Cache
	client  *k8sfake.Clientset
	factory informers.SharedInformerFactory
	lister  *cache.K8sClusterPodAffinityInfo
	plugins *k8splugins.K8sPlugins
}

func (f *fakeCache) KubeClient() kubernetes.Interface                     { return f.client }
func (f *fakeCache) KubeInformerFactory() informers.SharedInformerFactory { return f.factory }
func (f *fakeCache) SnapshotSharedLister() k8sframework.NodeInfoLister    { return f.lister }
func (f *fakeCache) InternalK8sPlugins() *k8splugins.K8sPlugins           { return f.plugins }
func (f *fakeCache) RecordJobStatusEvent(_ *podgroup_info.PodGroupInfo) error {
	return nil
}

var helpersOnce bool

// newSession mirrors test_utils.CreateFakeSession: the same Session fields, the
// same overrides, every plugin of the default tiers opened on it.
func newSession(nodes map[string]*node_info.NodeInfo, jobs map[common_info.PodGroupID]*podgroup_info.PodGroupInfo,
	queues map[common_info.QueueID]*queue_info.QueueInfo, topos []*kaiv1alpha1.Topology,
	cpai *cache.K8sClusterPodAffinityInfo, tiers []conf.Tier) *framework.Session {
	ssn := &framework.Session{
		Config: &conf.SchedulerConfiguration{Tiers: tiers},
		ClusterInfo: &api.ClusterInfo{Nodes: nodes, Queues: queues, PodGroupInfos: jobs, Topologies: topos,
			MinNodeGPUMemory: node_info.DefaultGpuMemory},
		SchedulerParams: conf.SchedulerParams{QueueLabelKey: constants.DefaultQueueLabel},
	}
	ssn.OverrideMaxNumberConsolidationPreemptees(-1)
	ssn.OverrideAllowConsolidatingReclaim(true)
	ssn.OverrideSchedulerName("kai-scheduler")
	fc := &fakeCache{client: k8sfake.NewSimpleClientset(), lister: cpai}
	fc.factory = informers.NewSharedInformerFactory(fc.client, 0)
	fc.plugins = k8splugins.InitializeInternalPlugins(fc.client, fc.factory, cpai)
	ssn.Cache = fc
	if !helpersOnce {
		ctrl := gomock.NewController(&reporter{})
		hm := k8s_utils.NewMockInterface(ctrl)
		hm.EXPECT().PatchPodAnnotationsAndLabelsInterface(gomock.Any(), gomock.Any(), gomock.Any(), gomock.Any()).Return(nil).AnyTimes()
		k8s_utils.Helpers = hm
		helpersOnce = true
	}
	for _, tier := range tiers {
		for _, plugin := range tier.Plugins {
			pb, found := framework.GetPluginBuilder(plugin.Name)
			if !found {
				continue
			}
			pb(plugin.Arguments).OnSessionOpen(ssn)
		}
	}
	return ssn
}

type reporter struct{ msgs []string }

func (r *reporter) Errorf(format string, args ...any) {
	r.msgs = append(r.msgs, fmt.Sprintf(format, args...))
}
func (r *reporter) Fatalf(format string, args ...any) {
	r.msgs = append(r.msgs, fmt.Sprintf(format, args...))
}

type noSync struct{}

func (noSync) SyncPodGroupsWithPendingUpdates(_ []*enginev2alpha2.PodGroup) {}

var initOnce bool

// SnapshotNodes runs the real ClusterInfo.Snapshot over informers that hold
// exactly the given nodes, with the scheduler's node-pool parameters, and
// returns the names of the nodes that entered the snapshot.
func SnapshotNodes(nodes []*v1.Node, poolKey, poolVal string) (map[string]bool, error) {
	kf := informers.NewSharedInformerFactory(k8sfake.NewSimpleClientset(), 0)
	af := kaiinformers.NewSharedInformerFactory(kaifake.NewSimpleClientset(), 0)
	ci, err := cluster_info.New(kf, af, nil, &conf.SchedulingNodePoolParams{NodePoolLabelKey: poolKey, NodePoolLabelValue: poolVal},
		false, cache.NewK8sClusterPodAffinityInfo(), false, true, noSync{})
	if err != nil {
		return nil, err
	}
	ix := kf.Core().V1().Nodes().Informer().GetIndexer()
	for _, n := range nodes {
		if err := ix.Add(n); err != nil {
			return nil, err
		}
	}
	snap, err := ci.Snapshot()
	if err != nil {
		return nil, err
	}
	out := map[string]bool{}
	for name := range snap.Nodes {
		out[name] = true
	}
	return out, nil
}

// Built is a session assembled from the real constructors.
type Built struct {
	Ssn    *framework.Session
	Rec    *recorder
	K8s    map[string]*v1.Node // every node of the cluster (in or out of the pool)
	InSnap map[string]bool
	Nodes  map[string]*node_info.NodeInfo
	Jobs   map[common_info.PodGroupID]*podgroup_info.PodGroupInfo
	Tasks  map[string]*pod_info.PodInfo
	Rep    *reporter
}

func tcK8s(t *TC) *enginev2alpha2.TopologyConstraint {
	if t == nil {
		return nil
	}
	return &enginev2alpha2.TopologyConstraint{Topology: t.Topo, RequiredTopologyLevel: t.Req, PreferredTopologyLevel: t.Pref}
}

func mkPod(p Pod, vm *resource_info.ResourceVectorMap) *pod_info.PodInfo {
	ti := pod_info.NewTaskInfo(p.K8s(), nil, vm)
	ti.Status = p.Status
	ti.NodeName = p.Node
	return ti
}

// Build assembles the session: nodes that pass the real snapshot (node pool),
// pods/jobs through the real constructors, default plugin tiers, topology CRDs.
func Build(c Cluster) (*Built, error) {
	if !initOnce {
		actions.InitDefaultActions()
		plugins.InitDefaultPlugins()
		initOnce = true
	}
	vm := resource_info.NewResourceVectorMap()
	cpai := cache.NewK8sClusterPodAffinityInfo()
	b := &Built{K8s: map[string]*v1.Node{}, Nodes: map[string]*node_info.NodeInfo{}, Jobs: map[common_info.PodGroupID]*podgroup_info.PodGroupInfo{},
		Tasks: map[string]*pod_info.PodInfo{}, Rep: &reporter{}}
	var all []*v1.Node
	for _, ns := range c.Nodes {
		n := ns.K8s()
		b.K8s[ns.Name] = n
		all = append(all, n)
	}
	in, err := SnapshotNodes(all, c.PoolKey, c.PoolVal)
	if err != nil {
		return nil, err
	}
	b.InSnap = in
	for _, ns := range c.Nodes {
		if in[ns.Name] {
			vm.AddResourceList(b.K8s[ns.Name].Status.Allocatable)
		}
	}
	for _, ns := range c.Nodes {
		if in[ns.Name] {
			n := b.K8s[ns.Name]
			b.Nodes[ns.Name] = node_info.NewNodeInfo(n, cluster_info.NewK8sNodePodAffinityInfo(n, cpai), vm)
		}
	}
	now := time.Now()
	for _, j := range c.Jobs {
		uid := common_info.PodGroupID(j.Name)
		job := podgroup_info.NewPodGroupInfoWithVectorMap(uid, vm)
		crd := &enginev2alpha2.PodGroup{
			ObjectMeta: metav1.ObjectMeta{Name: j.Name, Namespace: "ns", UID: types.UID(j.Name),
				CreationTimestamp: metav1.Time{Time: now.Add(-time.Duration(j.AgeMinutes) * time.Minute)}},
			Spec: enginev2alpha2.PodGroupSpec{Queue: j.Queue, MinMember: j.MinMember},
		}
		if j.TC != nil {
			crd.Spec.TopologyConstraint = *tcK8s(j.TC)
		}
		for _, sg := range j.SubGroups {
			k := enginev2alpha2.SubGroup{Name: sg.Name, MinMember: sg.Min, TopologyConstraint: tcK8s(sg.TC)}
			if sg.Parent != "" {
				par := sg.Parent
				k.Parent = &par
			}
			crd.Spec.SubGroups = append(crd.Spec.SubGroups, k)
		}
		job.SetPodGroup(crd)
		job.Priority = j.Priority
		job.Preemptibility = pg.CalculatePreemptibility("", j.Priority)
		running := false
		for _, ps := range j.Pods {
			ps.Job = j.Name
			t := mkPod(ps, vm)
			b.Tasks[ps.Name] = t
			job.AddTaskInfo(t)
			if pod_status.AllocatedStatus(t.Status) {
				running = true
			}
		}
		if running {
			st := now.Add(-time.Duration(j.StartedMins) * time.Minute)
			job.LastStartTimestamp = &st
		}
		b.Jobs[uid] = job
	}
	names := make([]string, 0, len(b.Tasks))
	for n := range b.Tasks {
		names = append(names, n)
	}
	sort.Strings(names)
	for _, n := range names {
		t := b.Tasks[n]
		if pod_status.IsActiveUsedStatus(t.Status) && t.NodeName != "" {
			if ni, ok := b.Nodes[t.NodeName]; ok {
				_ = ni.AddTask(t)
			}
		}
	}
	meta := test_utils.TestTopologyBasic{Name: "gen", DisableDefaultDepartment: true,
		Departments: []test_utils.TestDepartmentBasic{{Name: "dept", DeservedGPUs: common_info.NoMaxAllowedResource, MaxAllowedGPUs: common_info.NoMaxAllowedResource}},
		Mocks:       &test_utils.TestMock{CacheRequirements: &test_utils.CacheMocking{NumberOfCacheBinds: 1 << 20, NumberOfCacheEvictions: 1 << 20, NumberOfPipelineActions: 1 << 20}}}
	for _, q := range c.Queues {
		prio := q.Priority
		meta.Queues = append(meta.Queues, test_utils.TestQueueBasic{Name: q.Name, ParentQueue: "dept", DeservedGPUs: q.Deserved,
			MaxAllowedGPUs: q.Limit, GPUOverQuotaWeight: q.OverQuota, Priority: &prio})
	}
	queues := test_utils.BuildQueueInfoMap(meta)
	for k, v := range test_utils.BuildDepartmentInfoMap(meta) {
		queues[k] = v
	}
	cluster_info.UpdateQueueHierarchy(queues)
	var topos []*kaiv1alpha1.Topology
	for _, t := range c.Topos {
		k := &kaiv1alpha1.Topology{ObjectMeta: metav1.ObjectMeta{Name: t.Name}}
		for _, l := range t.Levels {
			k.Spec.Levels = append(k.Spec.Levels, kaiv1alpha1.TopologyLevel{NodeLabel: l})
		}
		topos = append(topos, k)
	}
	b.Ssn = newSession(b.Nodes, b.Jobs, queues, topos, cpai, test_utils.BuildPlugins(meta))
	b.Rec = &recorder{Cache: b.Ssn.Cache}
	b.Ssn.Cache = b.Rec
	return b, nil
}

// RunActions executes the actions; a panic inside an action is returned.
func RunActions(b *Built, names []string) (panicked string) {
	defer func() {
		if r := recover(); r != nil {
			panicked = fmt.Sprintf("%v\n%s", r, debug.Stack())
		}
	}()
	for _, a := range names {
		act, ok := framework.GetAction(a)
		if !ok {
			panic("unknown action " + a)
		}
		act.Execute(b.Ssn)
	}
	return ""
}
func (r *recorder) Calls() []Call { return r.calls }
