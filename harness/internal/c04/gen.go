package c04

import (
	"fmt"

	"github.com/NVIDIA/KAI-scheduler/pkg/scheduler/api/pod_status"

	"kaiverif/internal/core"
	"kaiverif/internal/cycle"
	u "kaiverif/internal/util"
)

// ---- alphabets --------------------------------------------------------------

var (
	nodeKeys = []string{"zone", "rack", "num"}
	nodeVals = map[string][]string{"zone": {"a", "b", "c"}, "rack": {"r1", "r2", "r3"}, "num": {"1", "5", "9"}}
	podKeys  = []string{"app", "tier", "ver"}
	podVals  = map[string][]string{"app": {"x", "y", "z"}, "tier": {"fe", "be", "db"}, "ver": {"1", "2", "3"}}
	// requirement values must be valid label values (labels.NewRequirement rejects "-3" or "+5":
	// the term then has a parse error and never matches), so no signed numbers
	numVals  = []string{"0", "1", "4", "5", "9", "10", "05", "007"}
	taintKs  = []string{"t1", "t2"}
	taintVs  = []string{"v1", "v2", ""}
	effects  = []string{"NoSchedule", "NoExecute", "PreferNoSchedule"}
	topoKeys = []string{"host", "zone", "rack", "nokey"}
)

const bigCPU, bigMem = 64000, 256 << 30

func genNodeLabels(r *u.Rng, name string) map[string]string {
	m := map[string]string{}
	for _, k := range nodeKeys {
		if r.Chance(7, 10) {
			m[k] = u.Pick(r, nodeVals[k])
		}
	}
	if r.Chance(4, 5) {
		m["host"] = name
	}
	return m
}

func genTaints(r *u.Rng) []Taint {
	var ts []Taint
	if r.Chance(1, 4) {
		for i, n := 0, r.Range(1, 2); i < n; i++ {
			ts = append(ts, Taint{Key: u.Pick(r, taintKs), Val: u.Pick(r, taintVs), Eff: u.Pick(r, effects)})
		}
	}
	return ts
}

func genConds(r *u.Rng) (bool, []Cond) {
	unsched := r.Chance(1, 10)
	var cs []Cond
	switch r.Intn(12) {
	case 0:
		cs = append(cs, Cond{"Ready", u.Pick(r, []string{"False", "Unknown"})})
	case 1:
		cs = append(cs, Cond{"Ready", "True"}, Cond{u.Pick(r, []string{"MemoryPressure", "DiskPressure", "PIDPressure", "NetworkUnavailable"}), u.Pick(r, []string{"True", "Unknown"})})
	case 2:
		// no condition reported at all
	case 3:
		cs = append(cs, Cond{"Ready", "True"}, Cond{"KernelDeadlock", "True"}, Cond{"MemoryPressure", "False"})
	default:
		cs = append(cs, Cond{"Ready", "True"})
	}
	return unsched, cs
}

func genPodLabels(r *u.Rng) map[string]string {
	m := map[string]string{}
	for _, k := range podKeys {
		if r.Chance(3, 5) {
			m[k] = u.Pick(r, podVals[k])
		}
	}
	return m
}

func pickVals(r *u.Rng, alphabet []string) []string {
	n := r.Range(1, 2)
	vs := []string{}
	for i := 0; i < n; i++ {
		v := u.Pick(r, alphabet)
		dup := false
		for _, w := range vs {
			dup = dup || w == v
		}
		if !dup {
			vs = append(vs, v)
		}
	}
	return vs
}

// genNodeReq: one NodeSelectorRequirement over the node-label alphabet, all six operators.
func genNodeReq(r *u.Rng, nodes []string) Req {
	k := u.Pick(r, []string{"zone", "rack", "num", "num", "host", "nokey"})
	alpha := nodeVals[k]
	if k == "host" || k == "nokey" {
		alpha = nodes
	}
	switch r.Intn(8) {
	case 0, 1:
		return Req{k, "In", pickVals(r, alpha)}
	case 2, 3:
		return Req{k, "NotIn", pickVals(r, alpha)}
	case 4:
		return Req{k, "Exists", nil}
	case 5:
		return Req{k, "DoesNotExist", nil}
	case 6:
		return Req{k, "Gt", []string{u.Pick(r, numVals)}}
	default:
		return Req{k, "Lt", []string{u.Pick(r, numVals)}}
	}
}

func genNodeAffinity(r *u.Rng, nodes []string) []NodeTerm {
	if r.Chance(1, 20) {
		return nil // required affinity with no term: matches nothing
	}
	var ts []NodeTerm
	for i, n := 0, r.Range(1, 2); i < n; i++ {
		var t NodeTerm
		for j, m := 0, r.Range(0, 2); j < m; j++ {
			t.Exprs = append(t.Exprs, genNodeReq(r, nodes))
		}
		if r.Chance(1, 5) {
			vals := []string{u.Pick(r, nodes)}
			if r.Chance(1, 6) {
				vals = append(vals, u.Pick(r, nodes)) // a field selector takes exactly one value: parse error, the term never matches
			}
			t.Fields = append(t.Fields, Req{"metadata.name", u.Pick(r, []string{"In", "NotIn"}), vals})
		}
		ts = append(ts, t)
	}
	return ts
}

func genTols(r *u.Rng) []Tol {
	var ts []Tol
	for i, n := 0, r.Range(1, 2); i < n; i++ {
		t := Tol{Key: u.Pick(r, append([]string{""}, taintKs...)), Op: u.Pick(r, []string{"", "Equal", "Exists", "Exists"}), Val: u.Pick(r, taintVs),
			Eff: u.Pick(r, []string{"", "", "NoSchedule", "NoExecute", "PreferNoSchedule"})}
		if t.Key == "" {
			t.Op = "Exists" // the API rejects an empty key with Equal
		}
		if r.Chance(1, 25) {
			t.Op = "Bogus"
		}
		ts = append(ts, t)
	}
	return ts
}

func genPodSel(r *u.Rng) []Req {
	var rs []Req
	for i, n := 0, r.Range(0, 2); i < n; i++ {
		k := u.Pick(r, podKeys)
		switch r.Intn(6) {
		case 0, 1, 2:
			rs = append(rs, Req{k, "In", pickVals(r, podVals[k])})
		case 3:
			rs = append(rs, Req{k, "NotIn", pickVals(r, podVals[k])})
		case 4:
			rs = append(rs, Req{k, "Exists", nil})
		default:
			rs = append(rs, Req{k, "DoesNotExist", nil})
		}
	}
	return rs
}

func genPodTerms(r *u.Rng, multiNs bool) []PodTerm {
	var ts []PodTerm
	for i, n := 0, r.Range(1, 2); i < n; i++ {
		t := PodTerm{Sel: genPodSel(r), Key: u.Pick(r, topoKeys)}
		if r.Chance(1, 30) {
			t.NilSel, t.Sel = true, nil
		}
		if multiNs && r.Chance(1, 3) {
			t.Nss = u.Pick(r, [][]string{{"ns"}, {"n2"}, {"ns", "n2"}})
		}
		ts = append(ts, t)
	}
	return ts
}

// guidedTerms: terms whose selector is satisfied by one of the given pods (so that affinity can hold and anti-affinity can bite).
func guidedTerms(r *u.Rng, others []Pod, multiNs bool) []PodTerm {
	ts := genPodTerms(r, multiNs)
	if len(others) == 0 {
		return ts
	}
	o := u.Pick(r, others)
	for i := range ts {
		ts[i].NilSel = false
		ts[i].Sel = nil
		for k, v := range o.Labels {
			if r.Chance(1, 2) {
				ts[i].Sel = append(ts[i].Sel, Req{k, "In", []string{v}})
				break
			}
		}
		ts[i].Key = u.Pick(r, []string{"host", "zone", "rack"})
		if o.Ns != "" && o.Ns != "ns" && multiNs {
			ts[i].Nss = []string{o.Ns}
		}
	}
	return ts
}

// decorate gives a pod hard constraints with the given densities (x/12 each);
// half of the selectors are derived from a real node / pod of the cluster.
func decorate(r *u.Rng, p *Pod, c *Cluster, others []Pod, dens int, multiNs bool) {
	nodes := nodeNames(*c)
	p.Labels = genPodLabels(r)
	if r.Chance(dens, 12) {
		p.NodeSel = map[string]string{}
		target := u.Pick(r, c.Nodes)
		for i, n := 0, r.Range(1, 2); i < n; i++ {
			k := u.Pick(r, []string{"zone", "rack", "num", "host"})
			if v, ok := target.Labels[k]; ok && r.Chance(2, 3) {
				p.NodeSel[k] = v
			} else if k == "host" {
				p.NodeSel[k] = u.Pick(r, nodes)
			} else {
				p.NodeSel[k] = u.Pick(r, nodeVals[k])
			}
		}
	}
	if r.Chance(dens, 12) {
		p.HasAff = true
		p.NodeAff = genNodeAffinity(r, nodes)
	}
	if r.Chance(dens+2, 12) {
		p.Tols = genTols(r)
	}
	if r.Chance(dens, 12) {
		if r.Chance(2, 3) {
			p.Aff = guidedTerms(r, others, multiNs)
		} else {
			p.Aff = genPodTerms(r, multiNs)
		}
	}
	if r.Chance(dens, 12) {
		if r.Chance(1, 2) {
			p.Anti = guidedTerms(r, others, multiNs)
		} else {
			p.Anti = genPodTerms(r, multiNs)
		}
	}
}

func inPoolGo(key, val string, labels map[string]string) bool {
	if key == "" {
		return true
	}
	v, ok := labels[key]
	if val == "" {
		return !ok
	}
	return ok && v == val
}

func genPool(r *u.Rng, c *Cluster) {
	if !r.Chance(1, 3) {
		return
	}
	c.PoolKey = "pool"
	c.PoolVal = u.Pick(r, []string{"", "p1", "p1"})
	for i := range c.Nodes {
		switch r.Intn(4) {
		case 0:
			// no pool label
		case 1:
			c.Nodes[i].Labels["pool"] = "p2"
		default:
			c.Nodes[i].Labels["pool"] = "p1"
		}
	}
}

// ---- T2(a): one pod against every node of a cluster -------------------------------

type PredCase struct {
	C      Cluster
	Split  int // >= 0: the pods of jobs [Split:] are put on their nodes only after a first PrePredicate call
	NExist int
}

func genPred(r *u.Rng) PredCase {
	var c Cluster
	nn := r.Range(2, 5)
	names := []string{}
	for i := 0; i < nn; i++ {
		names = append(names, fmt.Sprintf("n%d", i+1))
	}
	for _, name := range names {
		n := Node{NodeSpec: core.NodeSpec{Name: name, Cpu: bigCPU, Mem: bigMem, Pods: 110, Labels: genNodeLabels(r, name)}}
		n.Taints = genTaints(r)
		n.Unsched, n.Conds = genConds(r)
		c.Nodes = append(c.Nodes, n)
	}
	genPool(r, &c)
	c.Queues = []cycle.Queue{{Name: "q1", Deserved: 100, Limit: 0, OverQuota: 1, Priority: 100}}
	ne := r.Range(0, 5)
	for i := 0; i < ne; i++ {
		p := Pod{PodSpec: core.PodSpec{Name: fmt.Sprintf("e%d", i+1), Cpu: 100, Mem: 1 << 20, Status: pod_status.Running, Node: u.Pick(r, names)}}
		p.Labels = genPodLabels(r)
		p.Ns = u.Pick(r, []string{"ns", "ns", "n2"})
		if r.Chance(2, 5) {
			p.Anti = genPodTerms(r, true)
		}
		if r.Chance(1, 6) {
			p.Aff = genPodTerms(r, true)
		}
		c.Jobs = append(c.Jobs, Job{Name: "j" + p.Name, Queue: "q1", Priority: 50, MinMember: 1, AgeMinutes: 10, StartedMins: 5, Pods: []Pod{p}})
	}
	p := Pod{PodSpec: core.PodSpec{Name: "p", Cpu: 100, Mem: 1 << 20, Status: pod_status.Pending}, Ns: u.Pick(r, []string{"ns", "ns", "n2"})}
	var existing []Pod
	for _, j := range c.Jobs {
		existing = append(existing, j.Pods...)
	}
	decorate(r, &p, &c, existing, 3, true)
	c.Jobs = append(c.Jobs, Job{Name: "jp", Queue: "q1", Priority: 50, MinMember: 1, AgeMinutes: 1, Pods: []Pod{p}})
	pc := PredCase{C: c, Split: -1, NExist: ne}
	if ne > 0 && r.Chance(1, 3) {
		pc.Split = r.Intn(ne)
	}
	return pc
}

// ---- T2(b) / T3: topologies and constrained jobs --------------------------------

func genTopoLabels(r *u.Rng, c *Cluster, levels []string, dotted bool) {
	vals := map[string][]string{"zone": {"a", "b"}, "rack": {"r1", "r2", "r3"}, "slot": {"s1", "s2"}}
	if dotted {
		vals = map[string][]string{"zone": {"a", "a.b", "b"}, "rack": {"c", "b.c", "b"}, "slot": {"s", "c.s"}}
	}
	for i := range c.Nodes {
		for _, l := range levels {
			if r.Chance(1, 8) {
				delete(c.Nodes[i].Labels, l)
				continue
			}
			c.Nodes[i].Labels[l] = u.Pick(r, vals[l])
		}
	}
}

func genTC(r *u.Rng, levels []string, force bool) *TC {
	if !force && r.Chance(1, 3) {
		return nil
	}
	t := &TC{Topo: "T"}
	if r.Chance(1, 12) {
		t.Topo = u.Pick(r, []string{"U", ""})
	}
	lv := func() string { return u.Pick(r, levels) }
	switch r.Intn(8) {
	case 0, 1, 2, 3:
		t.Req = lv()
	case 4:
		t.Pref = lv()
	case 5, 6:
		t.Req, t.Pref = lv(), lv()
	default:
		t.Req = u.Pick(r, []string{"bogus", "root", ""})
		t.Pref = u.Pick(r, []string{"", "bogus", lv()})
	}
	return t
}

// zeroSomeRequests turns the pods of one pod set (or, without sub-groups, of the
// whole job) into best-effort pods: no cpu, memory or GPU request (an MPI launcher
// or another helper pod). Such pods fit every domain whatever its free resources.
func zeroSomeRequests(r *u.Rng, j *Job) bool {
	if !r.Chance(1, 4) {
		return false
	}
	target := ""
	if len(j.SubGroups) > 0 {
		target = u.Pick(r, j.Pods).SubGroup
	}
	for i := range j.Pods {
		if j.Pods[i].SubGroup == target && j.Pods[i].Status == pod_status.Pending {
			j.Pods[i].Cpu, j.Pods[i].Mem, j.Pods[i].Gpus = 0, 0, 0
		}
	}
	return true
}

// genShape gives a job its sub-group structure and assigns its pods to pod sets.
func genShape(r *u.Rng, j *Job, levels []string, force bool) {
	j.TC = genTC(r, levels, force)
	np := len(j.Pods)
	if np < 2 {
		return
	}
	switch r.Intn(4) {
	case 0, 1: // no sub-groups: the default pod set
	case 2: // two pod sets under the root
		j.SubGroups = []SubGroup{{Name: "a", Min: 1, TC: genTC(r, levels, false)}, {Name: "b", Min: 1, TC: genTC(r, levels, false)}}
		for i := range j.Pods {
			j.Pods[i].SubGroup = "a"
			if i >= (np+1)/2 {
				j.Pods[i].SubGroup = "b"
			}
		}
	default: // a nested set p with pod sets a, b; pod set c under the root when there are enough pods
		j.SubGroups = []SubGroup{{Name: "p", Min: 1, TC: genTC(r, levels, false)},
			{Name: "a", Parent: "p", Min: 1, TC: genTC(r, levels, false)}, {Name: "b", Parent: "p", Min: 1, TC: genTC(r, levels, false)}}
		for i := range j.Pods {
			j.Pods[i].SubGroup = []string{"a", "b"}[i%2]
		}
		if np >= 3 {
			j.SubGroups = append(j.SubGroups, SubGroup{Name: "c", Min: 1, TC: genTC(r, levels, false)})
			j.Pods[np-1].SubGroup = "c"
		}
	}
	j.MinMember = int32(np)
}

type room struct{ gpus, cpu int64 }

// genCluster draws the nodes (labels, taints, conditions, pool, topology labels) shared by T2(b) and T3.
func genNodes(r *u.Rng, c *Cluster, nn int, levels []string, dotted bool, hostile int) {
	for i := 0; i < nn; i++ {
		name := fmt.Sprintf("n%d", i+1)
		n := Node{NodeSpec: core.NodeSpec{Name: name, Cpu: 8000, Mem: 64 << 30, Pods: 110, Gpus: int64(u.Pick(r, []int{1, 2, 2, 4})),
			Labels: map[string]string{"host": name}}}
		if r.Chance(1, 3) {
			n.Labels["num"] = u.Pick(r, nodeVals["num"])
		}
		if r.Chance(hostile, 12) {
			n.Taints = genTaints(r)
		}
		if r.Chance(hostile, 12) {
			n.Unsched, n.Conds = genConds(r)
		}
		c.Nodes = append(c.Nodes, n)
	}
	genTopoLabels(r, c, levels, dotted)
}

func allPods(c Cluster) []Pod {
	var out []Pod
	for _, j := range c.Jobs {
		out = append(out, j.Pods...)
	}
	return out
}

func nodeNames(c Cluster) []string {
	var out []string
	for _, n := range c.Nodes {
		out = append(out, n.Name)
	}
	return out
}

func usable(c Cluster, n Node) bool {
	if !inPoolGo(c.PoolKey, c.PoolVal, n.Labels) {
		return false
	}
	return true
}

// placeRunning puts the first k pods of a job on nodes with room; with sameDomain the
// nodes share the label values of the given levels with the first chosen node.
func placeRunning(r *u.Rng, c *Cluster, rooms map[string]*room, j *Job, k int, levels []string, spread bool) {
	var anchor *Node
	for i := 0; i < k && i < len(j.Pods); i++ {
		p := &j.Pods[i]
		order := r.Intn(len(c.Nodes))
		for d := range c.Nodes {
			n := &c.Nodes[(d+order)%len(c.Nodes)]
			rm := rooms[n.Name]
			if !usable(*c, *n) || rm.gpus < p.Gpus || rm.cpu < p.Cpu {
				continue
			}
			if anchor != nil && !spread {
				same := true
				for _, l := range levels {
					same = same && n.Labels[l] == anchor.Labels[l]
				}
				if !same {
					continue
				}
			}
			rm.gpus -= p.Gpus
			rm.cpu -= p.Cpu
			p.Node, p.Status = n.Name, pod_status.Running
			if anchor == nil {
				anchor = n
			}
			break
		}
	}
}

// genTopoCluster: a cluster for the SubsetNodesFn check (T2(b)).
func genTopoCluster(r *u.Rng, dotted bool, terminating int) Cluster {
	var c Cluster
	levels := [][]string{{"zone"}, {"zone", "rack"}, {"zone", "rack"}, {"zone", "rack", "slot"}}[r.Intn(4)]
	c.Topos = []Topo{{Name: "T", Levels: levels}}
	genNodes(r, &c, r.Range(3, 6), levels, dotted, 0)
	c.Queues = []cycle.Queue{{Name: "q1", Deserved: 100, Limit: 0, OverQuota: 1, Priority: 100}}
	rooms := map[string]*room{}
	for _, n := range c.Nodes {
		rooms[n.Name] = &room{n.Gpus, n.Cpu}
	}
	// a filler job so that domains differ in free resources
	if r.Chance(1, 2) {
		f := Job{Name: "f", Queue: "q1", Priority: 50, MinMember: 1, AgeMinutes: 30, StartedMins: 30}
		for i, n := 0, r.Range(1, 3); i < n; i++ {
			f.Pods = append(f.Pods, Pod{PodSpec: core.PodSpec{Name: fmt.Sprintf("f-%d", i), Cpu: 500, Mem: 1 << 20, Gpus: 1, Status: pod_status.Pending}})
		}
		placeRunning(r, &c, rooms, &f, len(f.Pods), nil, true)
		c.Jobs = append(c.Jobs, f)
	}
	j := Job{Name: "j", Queue: "q1", Priority: 50, MinMember: 1, AgeMinutes: 5, StartedMins: 3}
	gp := int64(r.Intn(2))
	for i, n := 0, r.Range(1, 5); i < n; i++ {
		j.Pods = append(j.Pods, Pod{PodSpec: core.PodSpec{Name: fmt.Sprintf("j-%d", i), Cpu: 500, Mem: 1 << 20, Gpus: gp, Status: pod_status.Pending}})
	}
	genShape(r, &j, levels, true)
	if r.Chance(1, 2) {
		placeRunning(r, &c, rooms, &j, r.Range(1, len(j.Pods)), levels, r.Chance(1, 8))
	}
	zeroSomeRequests(r, &j)
	c.Jobs = append(c.Jobs, j)
	// terminating / finished pods of the constrained job on arbitrary nodes (terminating in 12ths)
	sprinkleTerminating(r, &c, rooms, terminating, 12)
	return c
}

// genContended: every GPU is held by a low-priority running pod; the pending jobs
// (constraints, topology shapes) can only be placed by reclaim / preempt / consolidation,
// i.e. through nominations on nodes that carry taints, conditions and other pods.
func genContended(r *u.Rng) Cluster {
	var c Cluster
	levels := [][]string{{"zone"}, {"zone", "rack"}}[r.Intn(2)]
	c.Topos = []Topo{{Name: "T", Levels: levels}}
	genNodes(r, &c, r.Range(2, 4), levels, false, 3)
	c.Queues = []cycle.Queue{{Name: "q1", Deserved: 0, Limit: 0, OverQuota: 1, Priority: 100}, {Name: "q2", Deserved: 4, Limit: 0, OverQuota: 1, Priority: 100}}
	k := 0
	rooms := map[string]*room{}
	for _, n := range c.Nodes {
		rooms[n.Name] = &room{n.Gpus, n.Cpu}
		for g := int64(0); g < n.Gpus; g++ {
			if r.Chance(1, 6) {
				continue // a free GPU here and there
			}
			rooms[n.Name].gpus--
			k++
			p := Pod{PodSpec: core.PodSpec{Name: fmt.Sprintf("f%d-0", k), Cpu: 250, Mem: 1 << 30, Gpus: 1, Status: pod_status.Running, Node: n.Name}}
			p.Labels = genPodLabels(r)
			if r.Chance(1, 5) {
				p.Anti = genPodTerms(r, false)
			}
			c.Jobs = append(c.Jobs, Job{Name: fmt.Sprintf("f%d", k), Queue: u.Pick(r, []string{"q1", "q1", "q2"}), Priority: 50, MinMember: 1,
				AgeMinutes: r.Range(20, 60), StartedMins: r.Range(10, 120), Pods: []Pod{p}})
		}
	}
	dens := r.Pick3(1, 2, 3)
	for i, nj := 0, r.Range(1, 3); i < nj; i++ {
		j := Job{Name: fmt.Sprintf("j%d", i+1), Queue: "q2", Priority: int32(u.Pick(r, []int{100, 125})), AgeMinutes: r.Range(1, 15)}
		np := r.Range(1, 3)
		j.MinMember = int32(r.Range(1, np))
		for k := 0; k < np; k++ {
			p := Pod{PodSpec: core.PodSpec{Name: fmt.Sprintf("%s-%d", j.Name, k), Cpu: 250, Mem: 1 << 30, Gpus: 1, Status: pod_status.Pending}}
			decorate(r, &p, &c, allPods(c), dens, false)
			j.Pods = append(j.Pods, p)
		}
		if r.Chance(1, 2) {
			genShape(r, &j, levels, true)
		}
		c.Jobs = append(c.Jobs, j)
	}
	sprinkleTerminating(r, &c, rooms, 1, 3)
	c.Actions = []string{"allocate"}
	for _, a := range []string{"consolidation", "reclaim", "preempt"} {
		if r.Chance(3, 4) {
			c.Actions = append(c.Actions, a)
		}
	}
	return c
}

// genCycle: a cluster for whole cycles (T3).
func genCycle(r *u.Rng, dotted bool) Cluster {
	var c Cluster
	levels := [][]string{{"zone"}, {"zone", "rack"}, {"zone", "rack"}}[r.Intn(3)]
	c.Topos = []Topo{{Name: "T", Levels: levels}}
	genNodes(r, &c, r.Range(2, 5), levels, dotted, 1)
	if r.Chance(1, 2) {
		genPool(r, &c)
	}
	nq := r.Range(1, 3)
	for i := 0; i < nq; i++ {
		c.Queues = append(c.Queues, cycle.Queue{Name: fmt.Sprintf("q%d", i+1), Deserved: float64(u.Pick(r, []int{0, 1, 2, 2})),
			Limit: 0, OverQuota: 1, Priority: 100})
	}
	rooms := map[string]*room{}
	for _, n := range c.Nodes {
		rooms[n.Name] = &room{n.Gpus, n.Cpu}
	}
	nj := r.Range(2, 7)
	dens := r.Pick3(0, 1, 3)
	for i := 0; i < nj; i++ {
		j := Job{Name: fmt.Sprintf("j%d", i+1), Queue: u.Pick(r, c.Queues).Name, Priority: int32(u.Pick(r, []int{50, 50, 75, 100, 125})),
			AgeMinutes: r.Range(1, 50), StartedMins: r.Range(1, 120)}
		np := r.Range(1, 3)
		j.MinMember = int32(r.Range(1, np))
		gp := int64(u.Pick(r, []int{0, 1, 1, 1, 2}))
		for k := 0; k < np; k++ {
			p := Pod{PodSpec: core.PodSpec{Name: fmt.Sprintf("%s-%d", j.Name, k), Cpu: int64(u.Pick(r, []int{250, 1000})), Mem: 1 << 30, Gpus: gp, Status: pod_status.Pending}}
			decorate(r, &p, &c, allPods(c), dens, false)
			j.Pods = append(j.Pods, p)
		}
		if r.Chance(1, 3) {
			genShape(r, &j, levels, true)
		}
		switch r.Intn(5) {
		case 0, 1: // pending
		case 2, 3: // running
			placeRunning(r, &c, rooms, &j, np, levels, false)
		default: // partly running
			placeRunning(r, &c, rooms, &j, int(j.MinMember), levels, false)
		}
		if len(j.SubGroups) > 0 {
			zeroSomeRequests(r, &j)
		}
		c.Jobs = append(c.Jobs, j)
	}
	sprinkleTerminating(r, &c, rooms, 1, 3)
	c.Actions = []string{"allocate"}
	for _, a := range []string{"consolidation", "reclaim", "preempt"} {
		if r.Chance(2, 3) {
			c.Actions = append(c.Actions, a)
		}
	}
	return c
}
