package c06

import (
	"fmt"
	"os"
	"sort"
	"strings"

	"github.com/NVIDIA/KAI-scheduler/pkg/scheduler/api/pod_status"

	u "kaiverif/internal/util"
)

func cycTerm(r Result, des string) string {
	return fmt.Sprintf("(KCycle (mkCyc %s %s %s %s %s))", r.CC, r.Extra, des, r.FCalls, r.Final)
}

func desTerm(r Result, d Designated) string {
	var vs, sim []string
	for _, v := range d.Victims {
		vs = append(vs, u.Pos(r.Ids.Of("p:"+v)))
	}
	for _, p := range d.Sim {
		sim = append(sim, u.Tuple(u.Pos(r.Ids.Of("p:"+p.Pod)), u.Pos(r.Ids.Of("n:"+p.Node)), "[]"))
	}
	return fmt.Sprintf("(Some (mkDes %s %s %s %s))", u.Nat(actionCode(d.Action)), u.Pos(r.Ids.Of("j:"+d.Preemptor)), u.List(vs), u.List(sim))
}

// settle fixes the oracle choices of a designated scenario from the real run:
// which surplus pod of an elastic victim was taken, which job consolidation moved.
func settle(f Family, r Result) Designated {
	d := f.D
	var ev []string
	var pipes []Pipe
	for _, c := range r.Calls {
		if c.Kind == "evict" && strings.EqualFold(c.Action, d.Action) {
			ev = append(ev, c.Pod)
		}
		if c.Kind == "pipe" {
			pipes = append(pipes, Pipe{c.Pod, c.Node})
		}
	}
	if d.Action == "consolidation" {
		if len(ev) > 0 {
			d.Victims, d.Sim = ev, pipes
		} else {
			d.Victims, d.Sim = []string{"v-0"}, []Pipe{{"p-0", "n1"}}
		}
		return d
	}
	if len(ev) == len(d.Victims) && len(ev) > 0 {
		sort.Strings(ev)
		d.Victims = ev
	}
	return d
}

// cycleTags marks cycles that meet a known or reported finding (signature
// matching only; the verdicts come from the Coq monitor).  The calls are cut
// into commits as Run/C06.v does: a run of evictions with the same action and
// preemptor followed by the nominations of that statement.
func cycleTags(c Cluster, calls []Call) []string {
	tree := clusterTree(c)
	jobOf := map[string]*Job{}
	status := map[string]pod_status.PodStatus{}
	jobByName := map[string]*Job{}
	for i := range c.Jobs {
		jobByName[c.Jobs[i].Name] = &c.Jobs[i]
		for _, p := range c.Jobs[i].Pods {
			jobOf[p.Name] = &c.Jobs[i]
			status[p.Name] = p.Status
		}
	}
	started := func(j *Job) bool {
		for _, p := range j.Pods {
			if pod_status.AllocatedStatus(p.Status) {
				return true
			}
		}
		return false
	}
	tags := map[string]bool{}
	for i := 0; i < len(calls); {
		cl := calls[i]
		if (cl.Kind != "evict" && cl.Kind != "evictfail") || actionCode(cl.Action) == 0 {
			switch cl.Kind {
			case "bind":
				status[cl.Pod] = pod_status.Binding
			case "pipe":
				status[cl.Pod] = pod_status.Pipelined
			case "evict":
				status[cl.Pod] = pod_status.Releasing
			}
			i++
			continue
		}
		before := map[string]pod_status.PodStatus{}
		for k, v := range status {
			before[k] = v
		}
		var evs []Call // accepted and refused: the monitor evaluates clause 1 on every Evict call
		for i < len(calls) && (calls[i].Kind == "evict" || calls[i].Kind == "evictfail") && calls[i].Action == cl.Action && calls[i].Preemptor == cl.Preemptor {
			evs = append(evs, calls[i])
			if calls[i].Kind == "evict" {
				status[calls[i].Pod] = pod_status.Releasing
			}
			i++
		}
		for i < len(calls) && calls[i].Kind == "pipe" {
			status[calls[i].Pod] = pod_status.Pipelined
			i++
		}
		for _, e := range evs {
			j, p := jobOf[e.Pod], jobByName[e.Preemptor]
			if j == nil || p == nil || !started(j) {
				continue
			}
			pre, rec := tree.preemptH(j.Queue), tree.reclaimH(p.Queue, j.Queue)
			switch strings.ToLower(e.Action) {
			case "consolidation":
				if j.StartedMins < pre*60 && j.StartedMins < rec*60 {
					tags["consolidation-inside-minruntime"] = true
				}
			case "preempt", "reclaim":
				h := pre
				if strings.EqualFold(e.Action, "reclaim") {
					h = rec
				}
				if j.StartedMins >= h*60 {
					continue
				}
				sub := ""
				for _, q := range j.Pods {
					if q.Name == e.Pod {
						sub = q.SubGroup
					}
				}
				min := int(j.MinMember)
				for _, sg := range j.SubGroups {
					if sg.Name == sub {
						min = int(sg.MinMember)
					}
				}
				// the validator counts pods that were already Releasing (terminating, or evicted by an
				// earlier commit of this cycle) as running
				live, releasingBefore := 0, 0
				for _, q := range j.Pods {
					if q.SubGroup != sub {
						continue
					}
					if pod_status.IsActiveAllocatedStatus(status[q.Name]) {
						live++
					}
					if before[q.Name] == pod_status.Releasing {
						releasingBefore++
					}
				}
				if live < min && live+releasingBefore >= min {
					tags["elastic-terminating-counted"] = true
				}
			}
		}
	}
	var out []string
	for t := range tags {
		out = append(out, t)
	}
	sort.Strings(out)
	return out
}

func withTags(label string, tags []string) string {
	if len(tags) == 0 {
		return label + " tags=-"
	}
	return label + " tags=" + strings.Join(tags, ",")
}

func Run(dir string, seed uint64, n int, tier string) error {
	out := u.NewOut(dir, "C06", "KaiV.Run.C06", "c06case", 40)
	out.Flags = true
	root := u.NewRng(seed)
	debug := os.Getenv("C06_DEBUG") != ""

	// (a) T2: purpose-built clusters, one per filter conjunct and its twin
	for _, f := range Families() {
		r := Emit(f.C)
		des := "None"
		if f.D.Action != "" {
			des = desTerm(r, settle(f, r))
		}
		label := withTags("family="+f.Name+" "+Describe(f.C)+" => "+r.Desc, cycleTags(f.C, r.Calls))
		out.Add(cycTerm(r, des), label)
		out.Count("t2-families")
		if len(r.Calls) > 0 {
			out.Count("t2-families-evicting")
		}
		out.NonTrivial(label)
		if debug {
			fmt.Fprintln(os.Stderr, label)
		}
	}
	// (a') T2: the real plugin's resolution and validators, function level
	for _, a := range ResolveCorpus() {
		t, l := a.Guarded()
		out.Add(t, withTags(l, nil))
		out.Count("t2-resolve-corpus")
		out.NonTrivial(l)
	}
	for i := 0; i < n/2; i++ {
		r := root.Fork(uint64(2000000 + i))
		qs := GenTree(r)
		ids := []int{}
		for _, q := range qs {
			ids = append(ids, q.ID)
		}
		pq, vq := u.Pick(r, ids), u.Pick(r, ids)
		if r.Chance(1, 15) {
			pq = 9
		}
		if r.Chance(1, 15) {
			vq = 9
		}
		t, l := RArgs{qs, u.Pick(r, []int{0, 0, 1, 3}), u.Pick(r, []int{0, 0, 2, 4}), u.Pick(r, []string{"", "lca", "queue"}), pq, vq}.Guarded()
		out.Add(t, withTags(l, nil))
		out.Count("t2-resolve-generated")
		out.NonTrivial(l)
		if i < 2 {
			out.Sample(l)
		}
	}
	for i := 0; i < n/2; i++ {
		t, l, tags := GenValid(root.Fork(uint64(3000000 + i)))
		l = withTags(l, tags)
		out.Add(t, l)
		out.Count("t2-validator-generated")
		if strings.HasSuffix(strings.Split(l, " tags=")[0], "true") {
			out.Count("t2-validator-accepted")
		}
		out.NonTrivial(l)
		if i < 1 {
			out.Sample(l)
		}
	}
	// (b) T3: generated whole cycles: the general stream, the multi-victim stream, and both re-run
	// with refused Evict / Bind calls
	emit := func(c Cluster, stream string, idx int) (Result, commitStat) {
		r := Emit(c)
		label := withTags(Describe(c)+" => "+r.Desc, cycleTags(c, r.Calls))
		out.Add(cycTerm(r, "None"), label)
		out.Count("t3-cycles")
		out.Count("t3-" + stream)
		ev := 0
		for k, v := range r.Stats {
			out.CountN(k, v)
			if strings.HasPrefix(k, "evict:") && k != "evict:" {
				ev += v
			}
		}
		cs := commits(r.Calls)
		for _, n := range cs.sizes {
			out.Count(fmt.Sprintf("commit-evict-calls:%d", min(n, 5)))
		}
		out.CountN("commits-evicting", len(cs.sizes))
		out.CountN("commits-with-accepted-and-refused-eviction", cs.mixed)
		out.CountN("commits-with-refused-evictions-only", cs.allRefused)
		out.CountN("commits-with-refused-eviction-of-a-later-victim-after-an-accepted-one", cs.laterRefused)
		if cs.mixed > 0 {
			out.Count("t3-cycles-with-accepted-and-refused-eviction-in-one-commit")
		}
		if len(r.Calls) == 0 {
			out.Count("t3-cycles-without-decisions")
		}
		if ev > 0 || cs.refused > 0 {
			out.Count("t3-cycles-evicting")
			out.NonTrivial(label)
		}
		if idx < 2 {
			out.Sample(label)
		}
		if debug {
			fmt.Fprintln(os.Stderr, label)
		}
		return r, cs
	}
	faulted := 0
	withFaults := func(r *u.Rng, c Cluster, res Result, cs commitStat, want int) {
		nbind := 0
		for _, cl := range res.Calls {
			if cl.Kind == "bind" {
				nbind++
			}
		}
		for _, d := range FaultPatterns(r, c, cs.evictCalls, nbind, cs.maxRun, want) {
			emit(d, "faults", faulted)
			faulted++
		}
	}
	nGen, nGang := n*11/20, n*3/20
	for i := 0; i < nGen; i++ {
		rg := root.Fork(uint64(i))
		c := Gen(rg)
		res, cs := emit(c, "general", i)
		if i%3 == 0 {
			withFaults(rg.Fork(7), c, res, cs, 1)
		}
	}
	for i := 0; i < nGang; i++ {
		rg := root.Fork(uint64(5000000 + i))
		c := GenGang(rg)
		res, cs := emit(c, "gangs", i)
		withFaults(rg.Fork(7), c, res, cs, 3)
	}
	out.Stats["rule"] = "T2: purpose-built clusters (for each victim-filter conjunct of preempt / reclaim / consolidation and of the min-runtime plugin, the cluster in which the pending job can only be placed through a victim violating that conjunct, and its positive twin; plus commits with refused evictions: two victims / a gang of three victims / two pods moved by consolidation with the first, a later, or every Cache.Evict call refused, and a refused Bind earlier in the cycle) run through the real actions; the real minruntime plugin opened alone on generated queue forests (depth <= 4) and read back through Session.PreemptVictimFilter / ReclaimVictimFilter with probe jobs started k h 30 min ago (resolved duration) and through Session.PreemptScenarioValidator / ReclaimScenarioValidatorFn on generated victim sets (elastic rule). T3, three streams through allocate + a random subset of consolidation, reclaim, preempt, stalegangeviction with the default plugin tiers: (general, 11/20 of n) generated clusters (1-3 nodes, two-level queue trees with min-runtime settings / defaults / resolve method, jobs of 1-3 pods with priorities 25..125, explicit preemptibility, start times 20 min .. 8 h 40 min ago, elastic gangs, terminating pods); (gangs, 3/20 of n) clusters in which one statement has to evict 2-4 pods: nodes of 4 or 8 GPUs filled with victim gangs of 1-4 one-GPU pods (gang or elastic), a pending job needing 2-4 GPUs at once as one pod, as a gang of 1-GPU pods or as two 2-GPU pods, by preempt / reclaim / consolidation (fragmented nodes: several running pods move together), often with a small job that allocate binds first; (faults) every gang cluster with evictions re-run under up to 3, every third evicting general cluster under 1 fault pattern derived from its run without faults: the recording cache REFUSES (returns an error, the call does not reach the cluster) the k-th Cache.Evict call of the cycle (k = 0, 1, 2), the call at position k of EVERY commit (k = 0, 1, 2 and pairs), a random subset of the Evict calls, all of them, and these combined with a refused Cache.Bind (1 in 4 patterns when the cycle binds). Fault distribution of this run: counters commits-evicting, commit-evict-calls:N (Evict calls per commit), commits-with-accepted-and-refused-eviction, commits-with-refused-eviction-of-a-later-victim-after-an-accepted-one (the shape on which a Commit that stops at the first refused eviction loses the nomination), commits-with-refused-evictions-only, call:evictfail, call:bindfail, call:orphan (pods left Allocated in the session behind a refused Bind). Non-trivial = a T2 case, or a cycle with at least one reclaim / preempt / consolidation Evict call (accepted or refused); distinct by cluster, fault pattern and decisions."
	return out.Flush()
}

type commitStat struct {
	sizes        []int // Evict calls (accepted or refused) per commit
	evictCalls   int   // Evict calls of the three actions
	maxRun       int
	refused      int
	mixed        int // commits with an accepted and a refused eviction
	allRefused   int
	laterRefused int // commits in which a refused eviction follows an accepted one
}

// commits cuts the calls as Run/C06.v does (a run of Evict calls, accepted or refused, with one
// action and preemptor) and counts the fault distribution.
func commits(calls []Call) commitStat {
	var cs commitStat
	for i := 0; i < len(calls); {
		cl := calls[i]
		if (cl.Kind != "evict" && cl.Kind != "evictfail") || actionCode(cl.Action) == 0 {
			i++
			continue
		}
		n, ok, bad, later := 0, 0, 0, false
		for i < len(calls) && (calls[i].Kind == "evict" || calls[i].Kind == "evictfail") && calls[i].Action == cl.Action && calls[i].Preemptor == cl.Preemptor {
			n++
			if calls[i].Kind == "evict" {
				ok++
			} else {
				bad++
				if ok > 0 {
					later = true
				}
			}
			i++
		}
		cs.sizes = append(cs.sizes, n)
		cs.evictCalls += n
		cs.refused += bad
		if n > cs.maxRun {
			cs.maxRun = n
		}
		if ok > 0 && bad > 0 {
			cs.mixed++
		}
		if ok == 0 {
			cs.allRefused++
		}
		if later {
			cs.laterRefused++
		}
	}
	return cs
}
