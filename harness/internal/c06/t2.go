package c06

import (
	"fmt"
	"sort"
	"strings"
	"time"

	metav1 "k8s.io/apimachinery/pkg/apis/meta/v1"
	"k8s.io/apimachinery/pkg/types"

	enginev2 "github.com/NVIDIA/KAI-scheduler/pkg/apis/scheduling/v2"
	enginev2alpha2 "github.com/NVIDIA/KAI-scheduler/pkg/apis/scheduling/v2alpha2"
	"github.com/NVIDIA/KAI-scheduler/pkg/scheduler/api"
	"github.com/NVIDIA/KAI-scheduler/pkg/scheduler/api/common_info"
	"github.com/NVIDIA/KAI-scheduler/pkg/scheduler/api/pod_info"
	"github.com/NVIDIA/KAI-scheduler/pkg/scheduler/api/pod_status"
	"github.com/NVIDIA/KAI-scheduler/pkg/scheduler/api/podgroup_info"
	"github.com/NVIDIA/KAI-scheduler/pkg/scheduler/api/queue_info"
	"github.com/NVIDIA/KAI-scheduler/pkg/scheduler/api/resource_info"
	"github.com/NVIDIA/KAI-scheduler/pkg/scheduler/framework"
	"github.com/NVIDIA/KAI-scheduler/pkg/scheduler/plugins/minruntime"

	"kaiverif/internal/core"
	u "kaiverif/internal/util"
)

// TQ is one queue of an arbitrary tree (function-level cases): parent 0 = top level.
type TQ struct {
	ID, Parent int
	PreH, RecH int
}

func tqName(id int) string {
	if id == 0 {
		return ""
	}
	return fmt.Sprintf("t%d", id)
}

// pluginSession opens only the real minruntime plugin on a session holding the queues.
func pluginSession(qs []TQ, defPre, defRec int, method string) *framework.Session {
	queues := map[common_info.QueueID]*queue_info.QueueInfo{}
	for _, q := range qs {
		qi := queue_info.NewQueueInfo(&enginev2.Queue{
			ObjectMeta: metav1.ObjectMeta{Name: tqName(q.ID), UID: types.UID(tqName(q.ID))},
			Spec:       enginev2.QueueSpec{ParentQueue: tqName(q.Parent), PreemptMinRuntime: hours(q.PreH), ReclaimMinRuntime: hours(q.RecH)},
		})
		queues[qi.UID] = qi
	}
	ssn := &framework.Session{ClusterInfo: &api.ClusterInfo{Queues: queues}}
	args := framework.PluginArguments{}
	if defPre > 0 {
		args["defaultPreemptMinRuntime"] = fmt.Sprintf("%dh", defPre)
	}
	if defRec > 0 {
		args["defaultReclaimMinRuntime"] = fmt.Sprintf("%dh", defRec)
	}
	if method != "" {
		args["reclaimResolveMethod"] = method
	}
	minruntime.New(args).OnSessionOpen(ssn)
	return ssn
}

var probeSeq int

// probeJob is a non-elastic job (one running pod, minMember 1) of queue q started ageMin minutes ago.
func probeJob(q string, ageMin int) *podgroup_info.PodGroupInfo {
	probeSeq++
	name := fmt.Sprintf("probe%d", probeSeq)
	vm := resource_info.NewResourceVectorMap()
	job := podgroup_info.NewPodGroupInfoWithVectorMap(common_info.PodGroupID(name), vm)
	job.SetPodGroup(&enginev2alpha2.PodGroup{ObjectMeta: metav1.ObjectMeta{Name: name, Namespace: "ns", UID: types.UID(name)},
		Spec: enginev2alpha2.PodGroupSpec{Queue: q, MinMember: 1}})
	job.AddTaskInfo(core.MkPod(core.PodSpec{Name: name + "-0", Job: name, Cpu: 100, Status: pod_status.Running, Node: "n1"}, vm))
	if ageMin >= 0 {
		st := time.Now().Add(-time.Duration(ageMin) * time.Minute)
		job.LastStartTimestamp = &st
	}
	return job
}

const maxHours = 8

// observedHours reads the duration the plugin applied back through its filter:
// the number of probes (started k h 30 min ago, k = 0..maxHours) it protects.
func observedHours(filter func(victim *podgroup_info.PodGroupInfo) bool, vq string) int {
	n := 0
	for k := 0; k <= maxHours; k++ {
		if !filter(probeJob(vq, k*60+30)) {
			n++
		}
	}
	return n
}

func tqTerm(qs []TQ) string {
	out := make([]string, len(qs))
	for i, q := range qs {
		par := "None"
		if q.Parent != 0 {
			par = u.Opt(true, u.Pos(q.Parent))
		}
		out[i] = fmt.Sprintf("(mkVQ %s %s %s %s)", u.Pos(q.ID), par, hterm(q.PreH), hterm(q.RecH))
	}
	return u.List(out)
}

func tqDesc(qs []TQ) string {
	var sb strings.Builder
	for i, q := range qs {
		if i > 0 {
			sb.WriteString(" ")
		}
		fmt.Fprintf(&sb, "t%d<%s:pre=%s,rec=%s", q.ID, tqName(q.Parent), hstr(q.PreH), hstr(q.RecH))
	}
	return sb.String()
}

// ResolveCase runs the real plugin on (pending queue, victim queue) and renders a KResolve case.
func ResolveCase(qs []TQ, defPre, defRec int, method string, pq, vq int) (term, label string) {
	ssn := pluginSession(qs, defPre, defRec, method)
	pending := probeJob(tqName(pq), -1)
	pre := observedHours(func(v *podgroup_info.PodGroupInfo) bool { return ssn.PreemptVictimFilter(pending, v) }, tqName(vq))
	rec := observedHours(func(v *podgroup_info.PodGroupInfo) bool { return ssn.ReclaimVictimFilter(pending, v) }, tqName(vq))
	term = fmt.Sprintf("(KResolve (mkRC %s %s %s %s %s %s %s %s))", tqTerm(qs), u.Z(int64(defPre)*3600), u.Z(int64(defRec)*3600),
		u.Bool(method != "queue"), u.Pos(pq), u.Pos(vq), u.Z(int64(pre)*3600), u.Z(int64(rec)*3600))
	label = fmt.Sprintf("resolve queues[%s] default pre=%dh rec=%dh method=%s pending=t%d victim=t%d => preempt=%dh reclaim=%dh",
		tqDesc(qs), defPre, defRec, map[bool]string{true: "queue", false: "lca"}[method == "queue"], pq, vq, pre, rec)
	return
}

// GenTree draws a forest of up to 7 queues, depth <= 4, ids 1.. in parent-before-child order.
func GenTree(r *u.Rng) []TQ {
	n := r.Range(1, 7)
	hs := []int{Unset, Unset, Unset, 0, 1, 2, 3, 5, 6}
	var qs []TQ
	depth := map[int]int{}
	for i := 1; i <= n; i++ {
		q := TQ{ID: i, PreH: u.Pick(r, hs), RecH: u.Pick(r, hs)}
		if i > 1 && !r.Chance(1, 4) {
			p := r.Range(1, i-1)
			if depth[p] < 3 {
				q.Parent = p
				depth[i] = depth[p] + 1
			}
		}
		qs = append(qs, q)
	}
	if r.Chance(1, 3) {
		u.Shuffle(r, qs) // map semantics: list order must not matter
	}
	return qs
}

// RArgs is one resolver case before it is run.
type RArgs struct {
	Qs             []TQ
	DefPre, DefRec int
	Method         string
	PQ, VQ         int
}

// Guarded runs a resolver case under a watchdog: a mutated walk that never
// ends must surface as a failing case, not as a stuck driver.
func (a RArgs) Guarded() (term, label string) {
	type res struct{ t, l string }
	ch := make(chan res, 1)
	go func() {
		t, l := ResolveCase(a.Qs, a.DefPre, a.DefRec, a.Method, a.PQ, a.VQ)
		ch <- res{t, l}
	}()
	select {
	case r := <-ch:
		return r.t, r.l
	case <-time.After(10 * time.Second):
		term = fmt.Sprintf("(KResolve (mkRC %s %s %s %s %s %s (-1)%%Z (-1)%%Z))", tqTerm(a.Qs), u.Z(int64(a.DefPre)*3600), u.Z(int64(a.DefRec)*3600),
			u.Bool(a.Method != "queue"), u.Pos(a.PQ), u.Pos(a.VQ))
		label = fmt.Sprintf("resolve queues[%s] default pre=%dh rec=%dh method=%s pending=t%d victim=t%d => HANG (no answer within 10 s)",
			tqDesc(a.Qs), a.DefPre, a.DefRec, a.Method, a.PQ, a.VQ)
		return
	}
}

// ResolveCorpus: the documented examples and boundary shapes.
func ResolveCorpus() []RArgs {
	var out []RArgs
	add := func(qs []TQ, dp, dr int, method string, pq, vq int) {
		out = append(out, RArgs{qs, dp, dr, method, pq, vq})
	}
	// design doc example (hours instead of seconds): A(1) -> B(2, 6h) -> C(3), D(4, 1h); C -> leaf1(5, 0h), leaf2(6, 3h); D -> leaf3(7)
	doc := []TQ{{1, 0, Unset, Unset}, {2, 1, 6, 6}, {3, 2, Unset, Unset}, {4, 2, 1, 1}, {5, 3, 0, 0}, {6, 3, 3, 3}, {7, 4, Unset, Unset}}
	for _, m := range []string{"lca", "queue"} {
		add(doc, 2, 2, m, 5, 7)
		add(doc, 2, 2, m, 5, 6)
		add(doc, 2, 2, m, 7, 5)
		add(doc, 2, 2, m, 5, 5)
		add(doc, 2, 2, m, 5, 3) // victim queue is an ancestor of the pending job's queue
		add(doc, 2, 2, m, 3, 5)
		add(doc, 2, 2, m, 9, 5) // pending job names a queue that does not exist
		add(doc, 2, 2, m, 5, 9)
	}
	two := []TQ{{1, 0, 4, 4}, {2, 1, Unset, 0}, {3, 0, Unset, 5}, {4, 3, 1, Unset}}
	for _, m := range []string{"lca", "queue"} {
		add(two, 1, 3, m, 2, 4)
		add(two, 1, 3, m, 4, 2)
		add(two, 1, 3, m, 1, 3)
		add(two, 0, 0, m, 2, 2)
	}
	// parent named but missing: the walk ends there
	add([]TQ{{1, 8, Unset, Unset}, {2, 1, Unset, Unset}}, 3, 2, "lca", 2, 2)
	// a parent cycle above a queue with both settings: the walks of preempt and of the queue method stop before it
	add([]TQ{{1, 2, Unset, Unset}, {2, 1, Unset, Unset}, {3, 1, 2, 5}, {4, 3, Unset, Unset}}, 1, 1, "queue", 4, 4)
	return out
}

// ---- scenario validators ----------------------------------------------------

type fakeScenario struct {
	pre  *podgroup_info.PodGroupInfo
	vics map[common_info.PodGroupID]*api.VictimInfo
}

func (s *fakeScenario) GetPreemptor() *podgroup_info.PodGroupInfo              { return s.pre }
func (s *fakeScenario) GetVictims() map[common_info.PodGroupID]*api.VictimInfo { return s.vics }

type VPod struct {
	Sub    string // "" = default pod set
	Status pod_status.PodStatus
	Victim bool
}
type VJob struct {
	Queue  int
	Min    int32
	Subs   map[string]int32 // sub-group minimums (when set, every pod names one)
	AgeMin int              // -1: never started
	Pods   []VPod
}

// ValidCase runs the real preempt / reclaim scenario validators of the plugin.
func ValidCase(qs []TQ, defPre, defRec int, method string, action string, pendingQ int, jobs []VJob) (term, label string, tags []string) {
	ssn := pluginSession(qs, defPre, defRec, method)
	pending := probeJob(tqName(pendingQ), -1)
	sc := &fakeScenario{pre: pending, vics: map[common_info.PodGroupID]*api.VictimInfo{}}
	vm := resource_info.NewResourceVectorMap()
	var jterms, tterms, vterms []string
	var desc []string
	jterms = append(jterms, fmt.Sprintf("(mkVJ 1 %s 0%%Z true None [])", u.Pos(pendingQ)))
	pid := 0
	psid := 0
	for ji, j := range jobs {
		name := fmt.Sprintf("vj%d", ji)
		job := podgroup_info.NewPodGroupInfoWithVectorMap(common_info.PodGroupID(name), vm)
		crd := &enginev2alpha2.PodGroup{ObjectMeta: metav1.ObjectMeta{Name: name, Namespace: "ns", UID: types.UID(name)},
			Spec: enginev2alpha2.PodGroupSpec{Queue: tqName(j.Queue), MinMember: j.Min}}
		subNames := []string{}
		for s := range j.Subs {
			subNames = append(subNames, s)
		}
		sort.Strings(subNames)
		for _, s := range subNames {
			crd.Spec.SubGroups = append(crd.Spec.SubGroups, enginev2alpha2.SubGroup{Name: s, MinMember: j.Subs[s]})
		}
		job.SetPodGroup(crd)
		if j.AgeMin >= 0 {
			st := time.Now().Add(-time.Duration(j.AgeMin) * time.Minute)
			job.LastStartTimestamp = &st
		}
		jid := ji + 2
		psids := map[string]int{}
		var vtasks []*pod_info.PodInfo
		var pdesc []string
		for pi, p := range j.Pods {
			pid++
			ps := core.PodSpec{Name: fmt.Sprintf("%s-%d", name, pi), Job: name, SubGroup: p.Sub, Cpu: 100, Status: p.Status}
			if p.Status != pod_status.Pending {
				ps.Node = "n1"
			}
			t := core.MkPod(ps, vm)
			job.AddTaskInfo(t)
			key := p.Sub
			if key == "" {
				key = "default"
			}
			if _, ok := psids[key]; !ok {
				psid++
				psids[key] = psid
			}
			node := "None"
			if ps.Node != "" {
				node = "(Some 1%positive)"
			}
			tterms = append(tterms, fmt.Sprintf("(mkVT %s %s %s %s %s [] false)", u.Pos(pid), u.Pos(jid), u.Pos(psids[key]), core.StatusTerm(p.Status), node))
			d := fmt.Sprintf("%s%s", map[bool]string{true: p.Sub + ":", false: ""}[p.Sub != ""], core.StatusTerm(p.Status))
			if p.Victim {
				vtasks = append(vtasks, t)
				vterms = append(vterms, u.Pos(pid))
				d += "*"
			}
			pdesc = append(pdesc, d)
		}
		if len(vtasks) > 0 {
			sc.vics[job.UID] = &api.VictimInfo{Job: job, Tasks: vtasks}
		}
		var pss []string
		keys := []string{}
		for k := range job.PodSets {
			keys = append(keys, k)
		}
		sort.Strings(keys)
		for _, k := range keys {
			if _, ok := psids[k]; !ok {
				psid++
				psids[k] = psid
			}
			pss = append(pss, u.Pair(u.Pos(psids[k]), u.Z(int64(job.PodSets[k].GetMinAvailable()))))
		}
		start := "None"
		if j.AgeMin >= 0 {
			start = u.Opt(true, u.Z(-int64(j.AgeMin)*60))
		}
		jterms = append(jterms, fmt.Sprintf("(mkVJ %s %s 0%%Z true %s %s)", u.Pos(jid), u.Pos(j.Queue), start, u.List(pss)))
		desc = append(desc, fmt.Sprintf("vj%d(q=t%d,min=%d,subs=%v,started=%dm:%s)", ji, j.Queue, j.Min, j.Subs, j.AgeMin, strings.Join(pdesc, ",")))
	}
	var obs bool
	code := 2
	if action == "reclaim" {
		obs = ssn.ReclaimScenarioValidatorFn(sc)
		code = 1
	} else {
		obs = ssn.PreemptScenarioValidator(sc)
	}
	if obs {
		tree := tqTree(qs, defPre, defRec, method)
		for _, j := range jobs {
			h := tree.preemptH(tqName(j.Queue))
			if action == "reclaim" {
				h = tree.reclaimH(tqName(pendingQ), tqName(j.Queue))
			}
			if j.AgeMin < 0 || j.AgeMin >= h*60 {
				continue
			}
			mins := map[string]int32{"": j.Min}
			if len(j.Subs) > 0 {
				mins = j.Subs
			}
			for sub, m := range mins {
				live, terminating, victims := 0, 0, 0
				for _, p := range j.Pods {
					if p.Sub != sub {
						continue
					}
					switch {
					case p.Victim:
						victims++
					case pod_status.IsActiveAllocatedStatus(p.Status):
						live++
					case p.Status == pod_status.Releasing:
						terminating++
					}
				}
				if victims > 0 && live < int(m) && live+terminating >= int(m) {
					tags = append(tags, "elastic-terminating-counted")
				}
			}
		}
	}
	env := fmt.Sprintf("(mkVE %s %s %s %s 0%%Z (-1)%%Z)", tqTerm(qs), u.Z(int64(defPre)*3600), u.Z(int64(defRec)*3600), u.Bool(method != "queue"))
	term = fmt.Sprintf("(KValid (mkVC %s (mkSS %s %s []) %s 1%%positive %s %s))", env, u.List(jterms), u.List(tterms), u.Nat(code), u.List(vterms), u.Bool(obs))
	label = fmt.Sprintf("validator %s queues[%s] default pre=%dh rec=%dh method=%s pending=t%d victims[%s] (* = victim pod) => %v",
		action, tqDesc(qs), defPre, defRec, map[bool]string{true: "queue", false: "lca"}[method == "queue"], pendingQ, strings.Join(desc, " "), obs)
	return
}

// GenValid draws a validator case: one or two victim jobs, elastic or not, inside or outside their min-runtime.
func GenValid(r *u.Rng) (term, label string, tags []string) {
	qs := []TQ{{1, 0, u.Pick(r, []int{Unset, 0, 2}), u.Pick(r, []int{Unset, 0, 2})}, {2, 1, u.Pick(r, []int{Unset, 4}), u.Pick(r, []int{Unset, 4})},
		{3, 1, u.Pick(r, []int{Unset, 4}), u.Pick(r, []int{Unset, 4})}}
	action := u.Pick(r, []string{"preempt", "reclaim"})
	method := u.Pick(r, []string{"lca", "lca", "queue"})
	nj := r.Range(1, 2)
	var jobs []VJob
	for i := 0; i < nj; i++ {
		j := VJob{Queue: 3, AgeMin: u.Pick(r, []int{-1, 40, 40, 40, 520})}
		np := r.Range(1, 5)
		twoSets := np >= 2 && r.Chance(1, 3)
		if twoSets {
			j.Subs = map[string]int32{"a": int32(r.Range(1, 2)), "b": int32(r.Range(1, 2))}
			j.Min = 2
		} else {
			j.Min = int32(r.Range(1, np))
		}
		for k := 0; k < np; k++ {
			p := VPod{Status: u.Pick(r, []pod_status.PodStatus{pod_status.Running, pod_status.Running, pod_status.Running, pod_status.Pending,
				pod_status.Releasing, pod_status.Pipelined, pod_status.Bound, pod_status.Succeeded})}
			if twoSets {
				p.Sub = u.Pick(r, []string{"a", "b"})
			}
			if pod_status.IsActiveAllocatedStatus(p.Status) && r.Chance(1, 2) {
				p.Victim = true
			}
			j.Pods = append(j.Pods, p)
		}
		jobs = append(jobs, j)
	}
	return ValidCase(qs, u.Pick(r, []int{0, 0, 1}), u.Pick(r, []int{0, 0, 1}), method, action, 2, jobs)
}
