package c06

import (
	"fmt"

	"github.com/NVIDIA/KAI-scheduler/pkg/scheduler/api/pod_status"

	"kaiverif/internal/core"
	"kaiverif/internal/cycle"
	u "kaiverif/internal/util"
)

// start ages (minutes) keep >= 20 min distance from every whole number of hours
var ages = []int{20, 40, 40, 100, 160, 280, 520}
var settings = []int{Unset, Unset, Unset, Unset, 0, 1, 2, 4}

// dress adds what cycle.Gen does not draw: a two-level queue tree, min-runtime
// settings, plugin defaults and resolve method, start times, more priorities,
// explicit preemptibility.
func dress(r *u.Rng, base cycle.Cluster) Cluster {
	c := Cluster{Nodes: base.Nodes, Actions: base.Actions}
	ntops := r.Range(1, 2)
	for i := 0; i < ntops; i++ {
		c.Tops = append(c.Tops, Queue{Name: fmt.Sprintf("d%d", i+1), PreemptH: u.Pick(r, settings), ReclaimH: u.Pick(r, settings), OverQuota: 1, Priority: 100})
	}
	for _, q := range base.Queues {
		ti := r.Intn(ntops)
		c.Queues = append(c.Queues, Queue{Name: q.Name, Parent: c.Tops[ti].Name, Deserved: q.Deserved, Limit: q.Limit, OverQuota: q.OverQuota,
			Priority: q.Priority, PreemptH: u.Pick(r, settings), ReclaimH: u.Pick(r, settings)})
		c.Tops[ti].Deserved += q.Deserved
	}
	c.DefPreemptH = u.Pick(r, []int{0, 0, 0, 1, 2})
	c.DefReclaimH = u.Pick(r, []int{0, 0, 0, 1, 2})
	c.Method = u.Pick(r, []string{"", "lca", "lca", "queue"})
	for _, j := range base.Jobs {
		nj := Job{Job: j}
		nj.StartedMins = u.Pick(r, ages)
		if r.Chance(1, 3) {
			nj.Priority = int32(u.Pick(r, []int{25, 40, 60, 90, 99, 100, 110}))
		}
		if r.Chance(1, 8) {
			nj.Preemptibility = u.Pick(r, []string{"preemptible", "non-preemptible"})
		}
		c.Jobs = append(c.Jobs, nj)
	}
	return c
}

// contention draws clusters whose nodes are nearly full of running work with
// pending work of other priorities / queues: most cycles evict.
func contention(r *u.Rng) cycle.Cluster {
	var c cycle.Cluster
	nn := r.Range(1, 2)
	free := map[string]int64{}
	for i := 0; i < nn; i++ {
		ns := core.NodeSpec{Name: fmt.Sprintf("n%d", i+1), Cpu: 32000, Mem: 64 << 30, Gpus: int64(u.Pick(r, []int{2, 2, 4})), Pods: 110}
		c.Nodes = append(c.Nodes, ns)
		free[ns.Name] = ns.Gpus
	}
	nq := r.Range(1, 3)
	for i := 0; i < nq; i++ {
		c.Queues = append(c.Queues, cycle.Queue{Name: fmt.Sprintf("q%d", i+1), Deserved: float64(u.Pick(r, []int{0, 1, 2, 2})),
			Limit: float64(u.Pick(r, []int{0, 0, 0, 3})), OverQuota: float64(u.Pick(r, []int{1, 1, 2})), Priority: 100})
	}
	nj := r.Range(3, 7)
	ngroup := 0
	for i := 0; i < nj; i++ {
		j := cycle.Job{Name: fmt.Sprintf("j%d", i+1), Queue: u.Pick(r, c.Queues).Name,
			Priority: int32(u.Pick(r, []int{25, 50, 50, 60, 75, 75, 90, 100, 125})), AgeMinutes: r.Range(1, 50)}
		np := u.Pick(r, []int{1, 1, 2, 2, 3})
		j.MinMember = int32(r.Range(1, np))
		gp := int64(u.Pick(r, []int{1, 1, 1, 2}))
		frac := r.Chance(1, 6)
		running := i < nj-1 && r.Chance(2, 3) // the last job is always pending
		if np >= 2 && r.Chance(1, 5) {
			j.SubGroups = []cycle.SubGroup{{Name: "a", MinMember: 1}, {Name: "b", MinMember: int32(r.Range(1, np-1))}}
		}
		for k := 0; k < np; k++ {
			p := core.PodSpec{Name: fmt.Sprintf("%s-%d", j.Name, k), Cpu: 500, Mem: 1 << 30, Status: pod_status.Pending}
			need := gp
			if frac {
				p.Fraction = "0.5"
				need = 1
			} else {
				p.Gpus = gp
			}
			if len(j.SubGroups) > 0 {
				p.SubGroup = "b"
				if k == 0 {
					p.SubGroup = "a"
				}
			}
			if running && (int32(k) < j.MinMember || r.Chance(2, 3)) {
				order := r.Intn(nn)
				for d := 0; d < nn; d++ {
					n := c.Nodes[(order+d)%nn].Name
					if free[n] >= need {
						free[n] -= need
						p.Node, p.Status = n, pod_status.Running
						if frac {
							ngroup++
							p.Groups = []string{fmt.Sprintf("%s-G%d", n, ngroup)}
						}
						if r.Chance(1, 12) {
							p.Status = pod_status.Releasing
						}
						break
					}
				}
			}
			j.Pods = append(j.Pods, p)
		}
		c.Jobs = append(c.Jobs, j)
	}
	c.Actions = []string{"allocate"}
	for _, a := range []string{"consolidation", "reclaim", "preempt"} {
		if r.Chance(3, 4) {
			c.Actions = append(c.Actions, a)
		}
	}
	if r.Chance(1, 6) {
		c.Actions = append(c.Actions, "stalegangeviction")
	}
	return c
}

// Gen draws one cluster for a whole-cycle case.
func Gen(r *u.Rng) Cluster {
	if r.Chance(1, 3) {
		return dress(r, cycle.Gen(r))
	}
	return dress(r, contention(r))
}
