package c06

import (
	"fmt"
	"strings"

	"github.com/NVIDIA/KAI-scheduler/pkg/scheduler/api/pod_status"

	"kaiverif/internal/core"
	"kaiverif/internal/cycle"
	u "kaiverif/internal/util"
)

// start ages (minutes) keep >= 20 min distance from every whole number of hours
var ages = []int{20, 40, 40, 100, 160, 280, 520}
var settings = []int{Unset, Unset, Unset, Unset, 0, 1, 2, 4}

// dress adds what cycle.Gen does not draw: a two-level queue tree, min-runtime
// settings, plugin defaults and resolve method, start times, more priorities,
// explicit preemptibility.
func dress(r *u.Rng, base cycle.Cluster) Cluster { return dressWith(r, base, settings, false) }

// dressWith: sets draws the per-queue min-runtime settings; keep leaves priorities and
// preemptibility as the base cluster has them.
func dressWith(r *u.Rng, base cycle.Cluster, settings []int, keep bool) Cluster {
	c := Cluster{Nodes: base.Nodes, Actions: base.Actions}
	ntops := r.Range(1, 2)
	for i := 0; i < ntops; i++ {
		c.Tops = append(c.Tops, Queue{Name: fmt.Sprintf("d%d", i+1), PreemptH: u.Pick(r, settings), ReclaimH: u.Pick(r, settings), OverQuota: 1, Priority: 100})
	}
	for _, q := range base.Queues {
		ti := r.Intn(ntops)
		c.Queues = append(c.Queues, Queue{Name: q.Name, Parent: c.Tops[ti].Name, Deserved: q.Deserved, Limit: q.Limit, OverQuota: q.OverQuota,
			Priority: q.Priority, PreemptH: u.Pick(r, settings), ReclaimH: u.Pick(r, settings)})
		c.Tops[ti].Deserved += q.Deserved
	}
	c.DefPreemptH = u.Pick(r, []int{0, 0, 0, 1, 2})
	c.DefReclaimH = u.Pick(r, []int{0, 0, 0, 1, 2})
	c.Method = u.Pick(r, []string{"", "lca", "lca", "queue"})
	for _, j := range base.Jobs {
		nj := Job{Job: j}
		nj.StartedMins = u.Pick(r, ages)
		if !keep && r.Chance(1, 3) {
			nj.Priority = int32(u.Pick(r, []int{25, 40, 60, 90, 99, 100, 110}))
		}
		if !keep && r.Chance(1, 8) {
			nj.Preemptibility = u.Pick(r, []string{"preemptible", "non-preemptible"})
		}
		c.Jobs = append(c.Jobs, nj)
	}
	return c
}

// contention draws clusters whose nodes are nearly full of running work with
// pending work of other priorities / queues: most cycles evict.
func contention(r *u.Rng) cycle.Cluster {
	var c cycle.Cluster
	nn := r.Range(1, 2)
	free := map[string]int64{}
	for i := 0; i < nn; i++ {
		ns := core.NodeSpec{Name: fmt.Sprintf("n%d", i+1), Cpu: 32000, Mem: 64 << 30, Gpus: int64(u.Pick(r, []int{2, 2, 4})), Pods: 110}
		c.Nodes = append(c.Nodes, ns)
		free[ns.Name] = ns.Gpus
	}
	nq := r.Range(1, 3)
	for i := 0; i < nq; i++ {
		c.Queues = append(c.Queues, cycle.Queue{Name: fmt.Sprintf("q%d", i+1), Deserved: float64(u.Pick(r, []int{0, 1, 2, 2})),
			Limit: float64(u.Pick(r, []int{0, 0, 0, 3})), OverQuota: float64(u.Pick(r, []int{1, 1, 2})), Priority: 100})
	}
	nj := r.Range(3, 7)
	ngroup := 0
	for i := 0; i < nj; i++ {
		j := cycle.Job{Name: fmt.Sprintf("j%d", i+1), Queue: u.Pick(r, c.Queues).Name,
			Priority: int32(u.Pick(r, []int{25, 50, 50, 60, 75, 75, 90, 100, 125})), AgeMinutes: r.Range(1, 50)}
		np := u.Pick(r, []int{1, 1, 2, 2, 3})
		j.MinMember = int32(r.Range(1, np))
		gp := int64(u.Pick(r, []int{1, 1, 1, 2}))
		frac := r.Chance(1, 6)
		running := i < nj-1 && r.Chance(2, 3) // the last job is always pending
		if np >= 2 && r.Chance(1, 5) {
			j.SubGroups = []cycle.SubGroup{{Name: "a", MinMember: 1}, {Name: "b", MinMember: int32(r.Range(1, np-1))}}
		}
		for k := 0; k < np; k++ {
			p := core.PodSpec{Name: fmt.Sprintf("%s-%d", j.Name, k), Cpu: 500, Mem: 1 << 30, Status: pod_status.Pending}
			need := gp
			if frac {
				p.Fraction = "0.5"
				need = 1
			} else {
				p.Gpus = gp
			}
			if len(j.SubGroups) > 0 {
				p.SubGroup = "b"
				if k == 0 {
					p.SubGroup = "a"
				}
			}
			if running && (int32(k) < j.MinMember || r.Chance(2, 3)) {
				order := r.Intn(nn)
				for d := 0; d < nn; d++ {
					n := c.Nodes[(order+d)%nn].Name
					if free[n] >= need {
						free[n] -= need
						p.Node, p.Status = n, pod_status.Running
						if frac {
							ngroup++
							p.Groups = []string{fmt.Sprintf("%s-G%d", n, ngroup)}
						}
						if r.Chance(1, 12) {
							p.Status = pod_status.Releasing
						}
						break
					}
				}
			}
			j.Pods = append(j.Pods, p)
		}
		c.Jobs = append(c.Jobs, j)
	}
	c.Actions = []string{"allocate"}
	for _, a := range []string{"consolidation", "reclaim", "preempt"} {
		if r.Chance(3, 4) {
			c.Actions = append(c.Actions, a)
		}
	}
	if r.Chance(1, 6) {
		c.Actions = append(c.Actions, "stalegangeviction")
	}
	return c
}

// Gen draws one cluster for a whole-cycle case.
func Gen(r *u.Rng) Cluster {
	if r.Chance(1, 3) {
		return dress(r, cycle.Gen(r))
	}
	return dress(r, contention(r))
}

// gangs draws clusters in which one statement has to evict 2-4 pods: victims that are
// gangs of several pods (a gang is evicted as a whole) or several small jobs, for a
// pending job that needs several GPUs at once (one multi-GPU pod, or a gang of pods),
// by preempt (same queue, lower priority), reclaim (victims in a queue over its share)
// or consolidation (fragmented nodes: running pods have to move together).
func gangs(r *u.Rng) cycle.Cluster {
	var c cycle.Cluster
	shape := u.Pick(r, []string{"preempt", "preempt", "reclaim", "reclaim", "consolidation", "consolidation", "mixed"})
	nn := 1
	if shape == "consolidation" || r.Chance(1, 3) {
		nn = r.Range(2, 3)
	}
	g := int64(u.Pick(r, []int{4, 4, 4, 8}))
	free := map[string]int64{}
	for i := 0; i < nn; i++ {
		ns := core.NodeSpec{Name: fmt.Sprintf("n%d", i+1), Cpu: 64000, Mem: 128 << 30, Gpus: g, Pods: 110}
		c.Nodes = append(c.Nodes, ns)
		free[ns.Name] = g
	}
	total := float64(g) * float64(nn)
	switch shape {
	case "reclaim", "mixed":
		c.Queues = []cycle.Queue{{Name: "q1", Deserved: total, OverQuota: 1, Priority: 100},
			{Name: "q2", Deserved: float64(u.Pick(r, []int{0, 0, 1})), OverQuota: 1, Priority: 100}}
	default:
		c.Queues = []cycle.Queue{{Name: "q1", Deserved: total, OverQuota: 1, Priority: 100},
			{Name: "q2", Deserved: 0, OverQuota: 1, Priority: 100}}
	}
	vq, vprio := "q1", int32(50)
	if shape == "reclaim" || (shape == "mixed" && r.Bool()) {
		vq = "q2"
	}
	if shape == "consolidation" {
		vprio = 75
	}
	// running jobs
	jn := 0
	leave := map[string]int64{} // GPUs kept free per node (consolidation: fragmentation)
	for _, n := range c.Nodes {
		if shape == "consolidation" {
			leave[n.Name] = int64(r.Range(1, int(g)/2))
		} else if r.Chance(1, 2) {
			leave[n.Name] = int64(r.Range(1, 2))
		}
	}
	for _, n := range c.Nodes {
		for free[n.Name] > leave[n.Name] {
			jn++
			room := free[n.Name] - leave[n.Name]
			np := int64(u.Pick(r, []int{1, 2, 2, 3, 4}))
			if shape == "consolidation" {
				np = int64(u.Pick(r, []int{1, 1, 1, 2}))
			}
			if np > room {
				np = room
			}
			j := cycle.Job{Name: fmt.Sprintf("v%d", jn), Queue: vq, Priority: vprio, AgeMinutes: r.Range(5, 50)}
			if shape == "mixed" {
				j.Queue = u.Pick(r, []string{"q1", "q2"})
				j.Priority = int32(u.Pick(r, []int{50, 50, 60, 75}))
			}
			j.MinMember = int32(np)
			if np >= 2 && r.Chance(1, 3) {
				j.MinMember = int32(r.Range(1, int(np)-1)) // elastic
			}
			for k := int64(0); k < np; k++ {
				p := core.PodSpec{Name: fmt.Sprintf("%s-%d", j.Name, k), Cpu: 500, Mem: 1 << 30, Gpus: 1, Status: pod_status.Running, Node: n.Name}
				free[n.Name]--
				if r.Chance(1, 25) {
					p.Status = pod_status.Releasing
				}
				j.Pods = append(j.Pods, p)
			}
			c.Jobs = append(c.Jobs, j)
		}
	}
	// pending jobs: the first one needs several GPUs at once
	npend := r.Range(1, 2)
	for i := 0; i < npend; i++ {
		j := cycle.Job{Name: fmt.Sprintf("p%d", i+1), Queue: "q1", Priority: 75, AgeMinutes: r.Range(1, 50)}
		if shape != "consolidation" {
			j.Priority = int32(u.Pick(r, []int{75, 75, 90}))
		}
		need := int64(r.Range(2, 4))
		if i > 0 {
			need = int64(r.Range(1, 2))
		}
		if shape == "consolidation" {
			// more than the largest hole, at most all holes together
			var max, sum int64
			for _, n := range c.Nodes {
				if free[n.Name] > max {
					max = free[n.Name]
				}
				sum += free[n.Name]
			}
			need = max + int64(r.Range(1, 2))
			if need > sum {
				need = sum
			}
			if need > g {
				need = g
			}
		}
		switch {
		case need >= 2 && r.Chance(1, 2): // a gang of 1-GPU pods
			j.MinMember = int32(need)
			for k := int64(0); k < need; k++ {
				j.Pods = append(j.Pods, core.PodSpec{Name: fmt.Sprintf("%s-%d", j.Name, k), Cpu: 500, Mem: 1 << 30, Gpus: 1, Status: pod_status.Pending})
			}
		case need == 4 && r.Chance(1, 2): // two 2-GPU pods
			j.MinMember = 2
			for k := 0; k < 2; k++ {
				j.Pods = append(j.Pods, core.PodSpec{Name: fmt.Sprintf("%s-%d", j.Name, k), Cpu: 500, Mem: 1 << 30, Gpus: 2, Status: pod_status.Pending})
			}
		default:
			j.MinMember = 1
			j.Pods = []core.PodSpec{{Name: j.Name + "-0", Cpu: 500, Mem: 1 << 30, Gpus: need, Status: pod_status.Pending}}
		}
		c.Jobs = append(c.Jobs, j)
	}
	// a small job the allocate action binds into a hole first (its Bind is a fault target)
	if shape != "consolidation" && r.Chance(1, 2) {
		var holes int64
		for _, n := range c.Nodes {
			holes += free[n.Name]
		}
		if holes > 0 {
			np := int(min(holes, int64(r.Range(1, 2))))
			j := cycle.Job{Name: "s1", Queue: "q1", Priority: 90, MinMember: int32(r.Range(1, np)), AgeMinutes: r.Range(1, 50)}
			for k := 0; k < np; k++ {
				j.Pods = append(j.Pods, core.PodSpec{Name: fmt.Sprintf("s1-%d", k), Cpu: 500, Mem: 1 << 30, Gpus: 1, Status: pod_status.Pending})
			}
			c.Jobs = append(c.Jobs, j)
		}
	}
	c.Actions = []string{"allocate"}
	for _, a := range []string{"consolidation", "reclaim", "preempt"} {
		if r.Chance(5, 6) || strings.HasPrefix(shape, a) {
			c.Actions = append(c.Actions, a)
		}
	}
	return c
}

// GenGang draws one cluster of the multi-victim stream.
func GenGang(r *u.Rng) Cluster {
	base := gangs(r)
	if r.Chance(2, 3) {
		return dressWith(r, base, []int{Unset}, true)
	}
	return dressWith(r, base, []int{Unset, Unset, Unset, Unset, Unset, 0, 1, 4}, r.Chance(2, 3))
}

// FaultPatterns derives fault injections for a cluster from its run without faults
// (nev Evict calls of the three actions, nbind Bind calls, the longest commit had maxRun
// Evict calls): the k-th Evict call of the cycle (k = 0, 1, 2), a position inside every
// commit, a random subset of the Evict calls, and the same combined with a refused Bind.
func FaultPatterns(r *u.Rng, c Cluster, nev, nbind, maxRun, want int) []Cluster {
	if nev == 0 {
		return nil
	}
	var pats, bpats []Cluster
	with := func(ev, run, bind []int) {
		d := c
		d.FailEvicts, d.FailInRun, d.FailBinds = ev, run, bind
		if len(bind) > 0 {
			bpats = append(bpats, d)
		} else {
			pats = append(pats, d)
		}
	}
	for k := 0; k < 3 && k < nev; k++ {
		with([]int{k}, nil, nil)
	}
	for k := 0; k < 3 && k < maxRun; k++ {
		if maxRun >= 2 {
			with(nil, []int{k}, nil)
		}
	}
	if maxRun >= 3 {
		with(nil, []int{0, 2}, nil)
		with(nil, []int{1, 2}, nil)
	}
	if nev >= 2 {
		var sub []int
		for k := 0; k < nev; k++ {
			if r.Chance(1, 2) {
				sub = append(sub, k)
			}
		}
		if len(sub) > 0 {
			with(sub, nil, nil)
		}
		all := make([]int, nev+2)
		for k := range all {
			all[k] = k
		}
		with(all, nil, nil)
	}
	if nbind > 0 {
		kb := r.Intn(nbind)
		with([]int{r.Intn(min(nev, 3))}, nil, []int{kb})
		with([]int{r.Intn(nev)}, nil, []int{0})
		if maxRun >= 2 {
			with(nil, []int{r.Range(1, maxRun-1)}, []int{kb})
		}
	}
	u.Shuffle(r, pats)
	u.Shuffle(r, bpats)
	var out []Cluster
	for len(out) < want && len(pats)+len(bpats) > 0 {
		if len(bpats) > 0 && (len(pats) == 0 || r.Chance(1, 4)) {
			out, bpats = append(out, bpats[0]), bpats[1:]
		} else {
			out, pats = append(out, pats[0]), pats[1:]
		}
	}
	return out
}
