package c06

import (
	"fmt"

	"github.com/NVIDIA/KAI-scheduler/pkg/scheduler/api/pod_status"

	"kaiverif/internal/core"
	"kaiverif/internal/cycle"
)

// Pipe is one forced nomination of a designated scenario.
type Pipe struct{ Pod, Node string }

// Designated is the only scenario through which the construction lets the
// pending job be placed: evict Victims for Preemptor by Action, then nominate Sim.
type Designated struct {
	Action    string
	Preemptor string
	Victims   []string
	Sim       []Pipe
}

// Family is one purpose-built cluster: the conjunct it exercises, whether the
// conjunct is satisfied (positive twin) and the designated scenario.
type Family struct {
	Name string
	C    Cluster
	D    Designated
}

func node(name string, gpus int64) core.NodeSpec {
	return core.NodeSpec{Name: name, Cpu: 16000, Mem: 64 << 30, Gpus: gpus, Pods: 110}
}

func pod(name string, st pod_status.PodStatus, nodeName string, gpus int64) core.PodSpec {
	p := core.PodSpec{Name: name, Cpu: 500, Mem: 1 << 30, Gpus: gpus, Status: st}
	if st != pod_status.Pending {
		p.Node = nodeName
	}
	return p
}

func job(name, queue string, prio int32, min int32, started int, pods ...core.PodSpec) Job {
	return Job{Job: cycle.Job{Name: name, Queue: queue, Priority: prio, MinMember: min, AgeMinutes: 30, StartedMins: started, Pods: pods}}
}

func top(name string, deserved float64) Queue {
	return Queue{Name: name, Deserved: deserved, PreemptH: Unset, ReclaimH: Unset, OverQuota: 1, Priority: 100}
}

func leaf(name, parent string, deserved float64) Queue {
	return Queue{Name: name, Parent: parent, Deserved: deserved, PreemptH: Unset, ReclaimH: Unset, OverQuota: 1, Priority: 100}
}

const (
	inside  = 40  // minutes since start: inside every configured (>= 1 h) min-runtime, by 20 min
	outside = 520 // minutes since start: outside every configured (<= 8 h) min-runtime, by 40 min
)

type mod func(f *Family)

// preemptBase: one 1-GPU node taken by victim v (q1, priority 50); pending p
// (q1, priority 75) needs that GPU; only allocate + preempt run.
func preemptBase(name string, mods ...mod) Family {
	f := Family{Name: name, C: Cluster{
		Nodes:  []core.NodeSpec{node("n1", 1)},
		Tops:   []Queue{top("d1", 2)},
		Queues: []Queue{leaf("q1", "d1", 1), leaf("q2", "d1", 1)},
		Jobs: []Job{
			job("v", "q1", 50, 1, outside, pod("v-0", pod_status.Running, "n1", 1)),
			job("p", "q1", 75, 1, 0, pod("p-0", pod_status.Pending, "", 1)),
		},
		Actions: []string{"allocate", "preempt"},
	}, D: Designated{Action: "preempt", Preemptor: "p", Victims: []string{"v-0"}, Sim: []Pipe{{"p-0", "n1"}}}}
	for _, m := range mods {
		m(&f)
	}
	return f
}

// reclaimBase: one 1-GPU node taken by victim v of q2 (deserved 0: over its
// share); pending p of q1 (deserved 1); only allocate + reclaim run.
func reclaimBase(name string, mods ...mod) Family {
	f := Family{Name: name, C: Cluster{
		Nodes:  []core.NodeSpec{node("n1", 1)},
		Tops:   []Queue{top("d1", 1)},
		Queues: []Queue{leaf("q1", "d1", 1), leaf("q2", "d1", 0)},
		Jobs: []Job{
			job("v", "q2", 50, 1, outside, pod("v-0", pod_status.Running, "n1", 1)),
			job("p", "q1", 50, 1, 0, pod("p-0", pod_status.Pending, "", 1)),
		},
		Actions: []string{"allocate", "reclaim"},
	}, D: Designated{Action: "reclaim", Preemptor: "p", Victims: []string{"v-0"}, Sim: []Pipe{{"p-0", "n1"}}}}
	for _, m := range mods {
		m(&f)
	}
	return f
}

// twoTops moves q2 under a second top-level queue d2 (for LCA resolution across hierarchies).
func twoTops(f *Family) {
	f.C.Tops = []Queue{top("d1", 1), top("d2", 0)}
	f.C.Queues[1].Parent = "d2"
}

// consolidationBase: two 2-GPU nodes each half used by a 1-GPU job; pending p
// needs 2 GPUs on one node: one of the running pods has to move.  The scenario
// the real solver picked (which victim) is read back from the calls.
func consolidationBase(name string, mods ...mod) Family {
	f := Family{Name: name, C: Cluster{
		Nodes:  []core.NodeSpec{node("n1", 2), node("n2", 2)},
		Tops:   []Queue{top("d1", 4)},
		Queues: []Queue{leaf("q1", "d1", 4), leaf("q2", "d1", 0)},
		Jobs: []Job{
			job("v", "q1", 50, 1, outside, pod("v-0", pod_status.Running, "n1", 1)),
			job("w", "q1", 50, 1, outside, pod("w-0", pod_status.Running, "n2", 1)),
			job("p", "q1", 50, 1, 0, pod("p-0", pod_status.Pending, "", 2)),
		},
		Actions: []string{"allocate", "consolidation"},
	}, D: Designated{Action: "consolidation", Preemptor: "p"}}
	for _, m := range mods {
		m(&f)
	}
	return f
}

func victim(f *Family) *Job { return &f.C.Jobs[0] }

func setQueue(name string, pre, rec int) mod {
	return func(f *Family) {
		for i := range f.C.Queues {
			if f.C.Queues[i].Name == name {
				f.C.Queues[i].PreemptH, f.C.Queues[i].ReclaimH = pre, rec
			}
		}
		for i := range f.C.Tops {
			if f.C.Tops[i].Name == name {
				f.C.Tops[i].PreemptH, f.C.Tops[i].ReclaimH = pre, rec
			}
		}
	}
}

func started(mins int) mod { return func(f *Family) { victim(f).StartedMins = mins } }

// elastic turns the victim into `running` running 1-GPU pods plus `pending`
// pending ones with minMember min on a node with exactly `running` GPUs, and
// designates `evicted` of the running pods (the surplus first, as the real
// GetTasksToEvict offers them: highest index first is not assumed - the
// comparison is on the number of evicted pods of v).
func elastic(min int32, running, pending int, need int64, victims []string) mod {
	return func(f *Family) {
		f.C.Nodes[0].Gpus = int64(running)
		v := victim(f)
		v.MinMember = min
		v.Pods = nil
		for i := 0; i < running; i++ {
			v.Pods = append(v.Pods, pod(fmt.Sprintf("v-%d", i), pod_status.Running, "n1", 1))
		}
		for i := 0; i < pending; i++ {
			v.Pods = append(v.Pods, pod(fmt.Sprintf("v-%d", running+i), pod_status.Pending, "", 1))
		}
		f.C.Jobs[1].Pods[0].Gpus = need
		f.D.Victims = victims
	}
}

// Families enumerates, for each filter conjunct, the cluster in which the only
// way to place the pending job is through a victim violating exactly that
// conjunct, and its positive twin.
func Families() []Family {
	var fs []Family
	add := func(f Family) { fs = append(fs, f) }

	// ---- preempt ------------------------------------------------------------
	add(preemptBase("preempt/eligible"))
	add(preemptBase("preempt/non-preemptible-victim", func(f *Family) { victim(f).Preemptibility = "non-preemptible" }))
	add(preemptBase("preempt/non-preemptible-by-priority", func(f *Family) {
		victim(f).Priority = 100
		f.C.Jobs[1].Priority = 125 // non-preemptible preemptor inside its queue's quota
	}))
	add(preemptBase("preempt/equal-priority", func(f *Family) { victim(f).Priority = 75 }))
	add(preemptBase("preempt/higher-priority", func(f *Family) { victim(f).Priority = 80 }))
	add(preemptBase("preempt/priority-one-below", func(f *Family) { victim(f).Priority = 74 }))
	add(preemptBase("preempt/other-queue", func(f *Family) { victim(f).Queue = "q2" }))
	add(preemptBase("preempt/inside-min-runtime", setQueue("q1", 4, Unset), started(inside)))
	add(preemptBase("preempt/outside-min-runtime", setQueue("q1", 4, Unset), started(outside)))
	add(preemptBase("preempt/inside-inherited-min-runtime", setQueue("d1", 4, Unset), started(inside)))
	add(preemptBase("preempt/leaf-zero-overrides-parent", setQueue("d1", 4, Unset), setQueue("q1", 0, Unset), started(inside)))
	add(preemptBase("preempt/inside-default-min-runtime", func(f *Family) { f.C.DefPreemptH = 2 }, started(inside)))
	add(preemptBase("preempt/reclaim-setting-is-not-preempt-setting", setQueue("q1", Unset, 4), started(inside)))
	add(preemptBase("preempt/elastic-inside-with-surplus", setQueue("q1", 4, Unset), started(inside), elastic(1, 2, 0, 1, []string{"v-1"})))
	add(preemptBase("preempt/elastic-inside-without-surplus", setQueue("q1", 4, Unset), started(inside), elastic(2, 2, 1, 1, []string{"v-0", "v-1"})))
	add(preemptBase("preempt/elastic-outside-without-surplus", setQueue("q1", 4, Unset), started(outside), elastic(2, 2, 1, 1, []string{"v-0", "v-1"})))
	add(preemptBase("preempt/elastic-inside-needs-more-than-surplus", setQueue("q1", 4, Unset), started(inside), elastic(1, 2, 0, 2, []string{"v-0", "v-1"})))
	add(preemptBase("preempt/elastic-inside-terminating-pod-counted", setQueue("q1", 4, Unset), started(inside), func(f *Family) {
		// min 1: v-0 Running, v-1 terminating; p needs both GPUs
		f.C.Nodes[0].Gpus = 2
		v := victim(f)
		v.Pods = []core.PodSpec{pod("v-0", pod_status.Running, "n1", 1), pod("v-1", pod_status.Releasing, "n1", 1)}
		f.C.Jobs[1].Pods[0].Gpus = 2
	}))

	// ---- reclaim ------------------------------------------------------------
	add(reclaimBase("reclaim/eligible"))
	add(reclaimBase("reclaim/non-preemptible-victim", func(f *Family) { victim(f).Preemptibility = "non-preemptible" }))
	add(reclaimBase("reclaim/same-queue", func(f *Family) {
		victim(f).Queue = "q1"
		f.C.Jobs[1].Priority = 75
	}))
	add(reclaimBase("reclaim/same-queue-under-quota", func(f *Family) {
		// the queue is below its quota even with the pending job: reclaim is attempted, and the only victim is in the reclaimer's own queue
		victim(f).Queue = "q1"
		f.C.Queues[0].Deserved, f.C.Tops[0].Deserved = 2, 2
	}))
	add(reclaimBase("reclaim/inside-min-runtime", setQueue("q2", Unset, 4), started(inside)))
	add(reclaimBase("reclaim/outside-min-runtime", setQueue("q2", Unset, 4), started(outside)))
	add(reclaimBase("reclaim/preempt-setting-is-not-reclaim-setting", setQueue("q2", 4, Unset), started(inside)))
	add(reclaimBase("reclaim/inside-default-min-runtime", func(f *Family) { f.C.DefReclaimH = 2 }, started(inside)))
	add(reclaimBase("reclaim/lca-siblings-use-victim-leaf", setQueue("d1", Unset, 4), setQueue("q2", Unset, 0), started(inside)))
	add(reclaimBase("reclaim/lca-siblings-inherit-parent", setQueue("d1", Unset, 4), started(inside)))
	add(reclaimBase("reclaim/lca-other-top-uses-top-setting", twoTops, setQueue("d2", Unset, 4), setQueue("q2", Unset, 0), started(inside)))
	add(reclaimBase("reclaim/lca-other-top-ignores-leaf-setting", twoTops, setQueue("q2", Unset, 4), started(inside)))
	add(reclaimBase("reclaim/queue-method-uses-leaf-setting", twoTops, setQueue("d2", Unset, 4), setQueue("q2", Unset, 0), started(inside),
		func(f *Family) { f.C.Method = "queue" }))
	add(reclaimBase("reclaim/queue-method-leaf-protects", twoTops, setQueue("q2", Unset, 4), started(inside),
		func(f *Family) { f.C.Method = "queue" }))
	add(reclaimBase("reclaim/elastic-inside-with-surplus", setQueue("q2", Unset, 4), started(inside), elastic(1, 2, 0, 1, []string{"v-1"}),
		func(f *Family) { f.C.Queues[0].Deserved, f.C.Tops[0].Deserved = 2, 2 }))
	add(reclaimBase("reclaim/elastic-inside-without-surplus", setQueue("q2", Unset, 4), started(inside), elastic(2, 2, 1, 1, []string{"v-0", "v-1"}),
		func(f *Family) { f.C.Queues[0].Deserved, f.C.Tops[0].Deserved = 2, 2 }))
	add(reclaimBase("reclaim/elastic-outside-without-surplus", setQueue("q2", Unset, 4), started(outside), elastic(2, 2, 1, 1, []string{"v-0", "v-1"}),
		func(f *Family) { f.C.Queues[0].Deserved, f.C.Tops[0].Deserved = 2, 2 }))

	add(reclaimBase("reclaim/elastic-inside-terminating-pod-counted", setQueue("q2", Unset, 4), started(inside), func(f *Family) {
		f.C.Nodes[0].Gpus = 2
		v := victim(f)
		v.Pods = []core.PodSpec{pod("v-0", pod_status.Running, "n1", 1), pod("v-1", pod_status.Releasing, "n1", 1)}
		f.C.Jobs[1].Pods[0].Gpus = 2
		f.C.Queues[0].Deserved, f.C.Tops[0].Deserved = 2, 2
	}))
	// regression (72df7ab): two commits of one cycle must not take an elastic job inside its min-runtime below its minimum
	add(Family{Name: "regression/two-commits-one-cycle", C: Cluster{
		Nodes:  []core.NodeSpec{node("n1", 2), node("n2", 2)},
		Tops:   []Queue{top("d1", 0), {Name: "d2", Deserved: 1, PreemptH: 4, ReclaimH: 4, OverQuota: 1, Priority: 100}},
		Queues: []Queue{{Name: "q1", Parent: "d2", Deserved: 1, PreemptH: 2, ReclaimH: 2, OverQuota: 1, Priority: 100}, {Name: "q2", Parent: "d2", PreemptH: 4, ReclaimH: 4, OverQuota: 1, Priority: 100}},
		Jobs: []Job{
			job("j1", "q2", 50, 2, 100, pod("j1-0", pod_status.Pending, "", 1), pod("j1-1", pod_status.Pending, "", 1)),
			job("j2", "q1", 25, 1, 40, pod("j2-0", pod_status.Running, "n2", 2), pod("j2-1", pod_status.Running, "n1", 2)),
			job("j3", "q1", 50, 1, 40, pod("j3-0", pod_status.Pending, "", 1)),
			job("j4", "q1", 125, 1, 40, core.PodSpec{Name: "j4-0", Cpu: 500, Mem: 1 << 30, Fraction: "0.5", Status: pod_status.Pending}),
			job("j5", "q1", 75, 1, 160, pod("j5-0", pod_status.Pending, "", 1)),
		},
		Actions: []string{"allocate", "consolidation", "preempt"},
	}})

	// ---- commits with refused evictions (fault injection; no designated scenario: the commit-level
	// refinement and the monitor judge them) ---------------------------------------------------------
	twoVictims := func(name, action string, fe, fr, fb []int) Family {
		var f Family
		if action == "preempt" {
			f = preemptBase(name)
		} else {
			f = reclaimBase(name)
		}
		f.C.Nodes[0].Gpus = 2
		vj := f.C.Jobs[0]
		f.C.Jobs = []Job{
			job("va", vj.Queue, vj.Priority, 1, outside, pod("va-0", pod_status.Running, "n1", 1)),
			job("vb", vj.Queue, vj.Priority, 1, outside, pod("vb-0", pod_status.Running, "n1", 1)),
			f.C.Jobs[1],
		}
		f.C.Jobs[2].Pods[0].Gpus = 2
		f.C.Queues[0].Deserved, f.C.Tops[0].Deserved = 2, 2
		f.C.FailEvicts, f.C.FailInRun, f.C.FailBinds = fe, fr, fb
		f.D = Designated{}
		return f
	}
	for _, a := range []string{"reclaim", "preempt"} {
		add(twoVictims(a+"/two-victims-no-fault", a, nil, nil, nil))
		add(twoVictims(a+"/two-victims-first-evict-refused", a, []int{0}, nil, nil))
		add(twoVictims(a+"/two-victims-second-evict-refused", a, []int{1}, nil, nil))
		add(twoVictims(a+"/two-victims-both-evicts-refused", a, []int{0, 1}, nil, nil))
	}
	// a gang of three victim pods for a gang of two pending pods; a third job is bound first and its Bind refused
	gangFault := func(name string, fe, fr, fb []int) Family {
		f := reclaimBase(name)
		f.C.Nodes = []core.NodeSpec{node("n1", 4)}
		f.C.Queues[0].Deserved, f.C.Tops[0].Deserved = 4, 4
		f.C.Jobs = []Job{
			job("v", "q2", 50, 3, outside, pod("v-0", pod_status.Running, "n1", 1), pod("v-1", pod_status.Running, "n1", 1), pod("v-2", pod_status.Running, "n1", 1)),
			job("s", "q1", 90, 1, 0, pod("s-0", pod_status.Pending, "", 1)),
			job("p", "q1", 50, 2, 0, pod("p-0", pod_status.Pending, "", 1), pod("p-1", pod_status.Pending, "", 1)),
		}
		f.C.FailEvicts, f.C.FailInRun, f.C.FailBinds = fe, fr, fb
		f.D = Designated{}
		return f
	}
	add(gangFault("reclaim/gang-of-three-no-fault", nil, nil, nil))
	add(gangFault("reclaim/gang-of-three-middle-evict-refused", nil, []int{1}, nil))
	add(gangFault("reclaim/gang-of-three-last-two-refused", nil, []int{1, 2}, nil))
	add(gangFault("reclaim/gang-of-three-bind-and-second-evict-refused", []int{1}, nil, []int{0}))
	// consolidation moves two pods together; the second eviction is refused
	twoMoved := func(name string, fe []int) Family {
		f := Family{Name: name, C: Cluster{
			Nodes:  []core.NodeSpec{node("n1", 4), node("n2", 4)},
			Tops:   []Queue{top("d1", 8)},
			Queues: []Queue{leaf("q1", "d1", 8), leaf("q2", "d1", 0)},
			Jobs: []Job{
				job("a", "q1", 50, 1, outside, pod("a-0", pod_status.Running, "n1", 1)),
				job("b", "q1", 50, 1, outside, pod("b-0", pod_status.Running, "n1", 1)),
				job("c", "q1", 50, 1, outside, pod("c-0", pod_status.Running, "n2", 1)),
				job("d", "q1", 50, 1, outside, pod("d-0", pod_status.Running, "n2", 1)),
				job("p", "q1", 50, 1, 0, pod("p-0", pod_status.Pending, "", 4)),
			},
			Actions: []string{"allocate", "consolidation"},
		}}
		f.C.FailEvicts = fe
		return f
	}
	add(twoMoved("consolidation/two-moved-no-fault", nil))
	add(twoMoved("consolidation/two-moved-first-evict-refused", []int{0}))
	add(twoMoved("consolidation/two-moved-second-evict-refused", []int{1}))

	// ---- consolidation --------------------------------------------------------
	add(consolidationBase("consolidation/moves-one"))
	add(consolidationBase("consolidation/non-preemptible-victims", func(f *Family) {
		f.C.Jobs[0].Preemptibility, f.C.Jobs[1].Preemptibility = "non-preemptible", "non-preemptible"
	}))
	add(consolidationBase("consolidation/nowhere-to-move", func(f *Family) {
		// both nodes full but for one GPU each that p needs together with a victim's: the victim cannot be re-placed
		f.C.Nodes = []core.NodeSpec{node("n1", 2)}
		f.C.Jobs[1].Pods[0].Node = "n1"
		f.C.Jobs[2].Pods[0].Gpus = 1
	}))
	add(consolidationBase("consolidation/inside-min-runtime", setQueue("q1", 4, 4), func(f *Family) {
		f.C.Jobs[0].StartedMins, f.C.Jobs[1].StartedMins = inside, inside
	}))
	return fs
}
