// Package c06 drives the real reclaim / preempt / consolidation actions and the
// real minruntime plugin for property C06 ("only eligible victims are evicted,
// and only to place a workload").
//
// build.go: a session assembled from the real constructors, as
// harness/internal/cycle does (Build / Emit are copied from there and extended
// with what C06 needs and cycle.Cluster cannot express: a queue tree with
// several top-level queues, min-runtime settings per queue, the plugin's default
// min-runtimes and resolve method, explicit preemptibility, start times).
//
// Fault injection (the idea of cycle.Cluster.FailBinds / FailEvicts): the recording
// cache refuses chosen Cache.Evict / Cache.Bind calls - by index over the cycle, or by
// position inside every commit (a run of consecutive Evict calls with one action and
// preemptor).  A refused call is recorded as refused (kinds evictfail / bindfail): it
// did not reach the cluster.  After an action in which a Bind was refused, the pods the
// session still holds as Allocated (their allocate operations were dropped by
// Statement.Commit, neither committed nor undone) are recorded as "orphan" entries.
// Emit also reads the status and node of every pod from the session after the cycle.
package c06

import (
	"fmt"
	"os"
	"runtime/debug"
	"sort"
	"strings"
	"time"

	"go.uber.org/mock/gomock"
	v1 "k8s.io/api/core/v1"
	metav1 "k8s.io/apimachinery/pkg/apis/meta/v1"
	"k8s.io/apimachinery/pkg/types"
	"k8s.io/client-go/informers"
	"k8s.io/client-go/kubernetes"
	k8sfake "k8s.io/client-go/kubernetes/fake"
	k8sframework "k8s.io/kubernetes/pkg/scheduler/framework"

	enginev2alpha2 "github.com/NVIDIA/KAI-scheduler/pkg/apis/scheduling/v2alpha2"
	"github.com/NVIDIA/KAI-scheduler/pkg/common/constants"
	pg "github.com/NVIDIA/KAI-scheduler/pkg/common/podgroup"
	"github.com/NVIDIA/KAI-scheduler/pkg/scheduler/actions"
	"github.com/NVIDIA/KAI-scheduler/pkg/scheduler/api"
	"github.com/NVIDIA/KAI-scheduler/pkg/scheduler/api/common_info"
	"github.com/NVIDIA/KAI-scheduler/pkg/scheduler/api/eviction_info"
	"github.com/NVIDIA/KAI-scheduler/pkg/scheduler/api/node_info"
	"github.com/NVIDIA/KAI-scheduler/pkg/scheduler/api/pod_info"
	"github.com/NVIDIA/KAI-scheduler/pkg/scheduler/api/pod_status"
	"github.com/NVIDIA/KAI-scheduler/pkg/scheduler/api/podgroup_info"
	"github.com/NVIDIA/KAI-scheduler/pkg/scheduler/api/queue_info"
	"github.com/NVIDIA/KAI-scheduler/pkg/scheduler/api/resource_info"
	"github.com/NVIDIA/KAI-scheduler/pkg/scheduler/cache"
	"github.com/NVIDIA/KAI-scheduler/pkg/scheduler/cache/cluster_info"
	"github.com/NVIDIA/KAI-scheduler/pkg/scheduler/conf"
	"github.com/NVIDIA/KAI-scheduler/pkg/scheduler/framework"
	k8splugins "github.com/NVIDIA/KAI-scheduler/pkg/scheduler/k8s_internal/plugins"
	"github.com/NVIDIA/KAI-scheduler/pkg/scheduler/k8s_utils"
	"github.com/NVIDIA/KAI-scheduler/pkg/scheduler/plugins"
	"github.com/NVIDIA/KAI-scheduler/pkg/scheduler/test_utils"

	"kaiverif/internal/core"
	"kaiverif/internal/cycle"
	u "kaiverif/internal/util"
)

// Unset marks a min-runtime that is not configured on a queue.
const Unset = -1

// Queue is a leaf queue or (Parent == "") a top-level queue ("department").
// Min-runtimes are whole hours; Unset = not configured.
type Queue struct {
	Name                       string
	Parent                     string
	Deserved, Limit, OverQuota float64 // GPUs
	Priority                   int
	PreemptH, ReclaimH         int
}

// Job extends cycle.Job with an explicit preemptibility ("" = derived from the priority).
type Job struct {
	cycle.Job
	Preemptibility string // "", "preemptible", "non-preemptible"
}

type Cluster struct {
	Nodes                    []core.NodeSpec
	Tops                     []Queue // top-level queues
	Queues                   []Queue // leaf queues (Parent names a top-level queue)
	Jobs                     []Job
	Actions                  []string
	DefPreemptH, DefReclaimH int    // plugin arguments defaultPreemptMinRuntime / defaultReclaimMinRuntime (hours)
	Method                   string // reclaimResolveMethod: "", "lca", "queue"
	// fault injection (as harness/internal/cycle): the recording cache makes these calls
	// return an error; a refused call does not reach the cluster.
	FailBinds  []int // indices (0-based, over the whole cycle) of the Cache.Bind calls that fail
	FailEvicts []int // indices (0-based, over the whole cycle) of the Cache.Evict calls that fail
	FailInRun  []int // positions inside EVERY run of consecutive Evict calls with one action and preemptor (= one commit) that fail
}

func (c Cluster) Faulty() bool { return len(c.FailBinds)+len(c.FailEvicts)+len(c.FailInRun) > 0 }

// Call kinds: bind | evict | pipe (accepted), bindfail | evictfail (the call returned an
// error), orphan (no call: a pod the session still holds as Allocated after a refused
// Bind ended its statement's commit).
type Call = cycle.Call

type recorder struct {
	cache.Cache
	calls       []Call
	nbind       int
	nevict      int
	runPos      int    // position of the next Evict call inside the current run
	runKey      string // action + preemptor of the current run; "" = the last call was not an Evict
	FailBind    map[int]bool
	FailEvict   map[int]bool
	FailInRun   map[int]bool
	bindRefused bool // a Bind was refused since the flag was last cleared
}

func (r *recorder) Bind(p *pod_info.PodInfo, hostname string, ann map[string]string) error {
	k := r.nbind
	r.nbind++
	r.runKey = ""
	c := Call{Kind: "bind", Pod: p.Name, Node: hostname, Groups: append([]string{}, p.GPUGroups...)}
	if r.FailBind[k] {
		c.Kind = "bindfail"
		r.calls = append(r.calls, c)
		r.bindRefused = true
		return fmt.Errorf("injected bind failure #%d", k)
	}
	r.calls = append(r.calls, c)
	return nil
}

func (r *recorder) Evict(pod *v1.Pod, job *podgroup_info.PodGroupInfo, md eviction_info.EvictionMetadata, msg string) error {
	c := Call{Kind: "evict", Pod: pod.Name, Action: md.Action}
	if md.Preemptor != nil {
		c.Preemptor = md.Preemptor.Name
	}
	k := r.nevict
	r.nevict++
	key := c.Action + "\x00" + c.Preemptor
	if key != r.runKey {
		r.runKey, r.runPos = key, 0
	}
	pos := r.runPos
	r.runPos++
	if r.FailEvict[k] || (actionCode(c.Action) != 0 && r.FailInRun[pos]) {
		c.Kind = "evictfail"
		r.calls = append(r.calls, c)
		// the text of SchedulerCache.Evict for a pod that finished between snapshot and commit
		return fmt.Errorf("received an eviction attempt for a terminated task: %s/%s (injected #%d)", pod.Namespace, pod.Name, k)
	}
	r.calls = append(r.calls, c)
	return nil
}

func (r *recorder) TaskPipelined(t *pod_info.PodInfo, msg string) {
	r.runKey = ""
	r.calls = append(r.calls, Call{Kind: "pipe", Pod: t.Name, Node: t.NodeName, Groups: append([]string{}, t.GPUGroups...)})
}

type reporter struct{ msgs []string }

func (r *reporter) Errorf(format string, args ...any) {
	r.msgs = append(r.msgs, fmt.Sprintf(format, args...))
}
func (r *reporter) Fatalf(format string, args ...any) {
	r.msgs = append(r.msgs, fmt.Sprintf(format, args...))
}

var initOnce bool

type Built struct {
	Ssn   *framework.Session
	Rec   *recorder
	Nodes map[string]*node_info.NodeInfo
	Jobs  map[common_info.PodGroupID]*podgroup_info.PodGroupInfo
	Tasks map[string]*pod_info.PodInfo
	VM    *resource_info.ResourceVectorMap
	Rep   *reporter
}

func hours(h int) *metav1.Duration {
	if h == Unset {
		return nil
	}
	return &metav1.Duration{Duration: time.Duration(h) * time.Hour}
}

func Build(c Cluster) *Built {
	if !initOnce {
		actions.InitDefaultActions()
		plugins.InitDefaultPlugins()
		initOnce = true
	}
	vm := resource_info.NewResourceVectorMap()
	cpai := cache.NewK8sClusterPodAffinityInfo()
	b := &Built{Nodes: map[string]*node_info.NodeInfo{}, Jobs: map[common_info.PodGroupID]*podgroup_info.PodGroupInfo{},
		Tasks: map[string]*pod_info.PodInfo{}, VM: vm, Rep: &reporter{}}
	for _, ns := range c.Nodes {
		n := ns.K8s()
		vm.AddResourceList(n.Status.Allocatable)
	}
	for _, ns := range c.Nodes {
		n := ns.K8s()
		b.Nodes[ns.Name] = node_info.NewNodeInfo(n, cluster_info.NewK8sNodePodAffinityInfo(n, cpai), vm)
	}
	now := time.Now()
	for _, j := range c.Jobs {
		uid := common_info.PodGroupID(j.Name)
		job := podgroup_info.NewPodGroupInfoWithVectorMap(uid, vm)
		crd := &enginev2alpha2.PodGroup{
			ObjectMeta: metav1.ObjectMeta{Name: j.Name, Namespace: "ns", UID: types.UID(j.Name),
				CreationTimestamp: metav1.Time{Time: now.Add(-time.Duration(j.AgeMinutes) * time.Minute)}},
			Spec: enginev2alpha2.PodGroupSpec{Queue: j.Queue, MinMember: j.MinMember},
		}
		for _, sg := range j.SubGroups {
			crd.Spec.SubGroups = append(crd.Spec.SubGroups, enginev2alpha2.SubGroup{Name: sg.Name, MinMember: sg.MinMember})
		}
		job.SetPodGroup(crd)
		job.Priority = j.Priority
		job.Preemptibility = pg.CalculatePreemptibility(enginev2alpha2.Preemptibility(j.Preemptibility), j.Priority)
		running := false
		for _, ps := range j.Pods {
			ps.Job = j.Name
			t := core.MkPod(ps, vm)
			b.Tasks[ps.Name] = t
			job.AddTaskInfo(t)
			if pod_status.AllocatedStatus(t.Status) {
				running = true
			}
		}
		if running {
			st := now.Add(-time.Duration(j.StartedMins) * time.Minute)
			job.LastStartTimestamp = &st
		}
		b.Jobs[uid] = job
	}
	names := make([]string, 0, len(b.Tasks))
	for n := range b.Tasks {
		names = append(names, n)
	}
	sort.Strings(names)
	for _, n := range names {
		t := b.Tasks[n]
		if pod_status.IsActiveUsedStatus(t.Status) && t.NodeName != "" {
			if ni, ok := b.Nodes[t.NodeName]; ok {
				_ = ni.AddTask(t)
			}
		}
	}
	meta := test_utils.TestTopologyBasic{Name: "gen", DisableDefaultDepartment: true,
		Mocks: &test_utils.TestMock{CacheRequirements: &test_utils.CacheMocking{NumberOfCacheBinds: 1 << 20, NumberOfCacheEvictions: 1 << 20, NumberOfPipelineActions: 1 << 20}}}
	for _, d := range c.Tops {
		lim := d.Limit
		if lim == 0 {
			lim = common_info.NoMaxAllowedResource
		}
		meta.Departments = append(meta.Departments, test_utils.TestDepartmentBasic{Name: d.Name, DeservedGPUs: d.Deserved, MaxAllowedGPUs: lim})
	}
	for _, q := range c.Queues {
		prio := q.Priority
		meta.Queues = append(meta.Queues, test_utils.TestQueueBasic{Name: q.Name, ParentQueue: q.Parent, DeservedGPUs: q.Deserved,
			MaxAllowedGPUs: q.Limit, GPUOverQuotaWeight: q.OverQuota, Priority: &prio})
	}
	queues := test_utils.BuildQueueInfoMap(meta)
	for k, v := range test_utils.BuildDepartmentInfoMap(meta) {
		queues[k] = v
	}
	for _, q := range append(append([]Queue{}, c.Tops...), c.Queues...) {
		qi := queues[common_info.QueueID(q.Name)]
		qi.PreemptMinRuntime = hours(q.PreemptH)
		qi.ReclaimMinRuntime = hours(q.ReclaimH)
	}
	cluster_info.UpdateQueueHierarchy(queues)
	tiers := test_utils.BuildPlugins(meta)
	for ti := range tiers {
		for pi := range tiers[ti].Plugins {
			if tiers[ti].Plugins[pi].Name == "minruntime" {
				args := map[string]string{}
				if c.DefPreemptH > 0 {
					args["defaultPreemptMinRuntime"] = fmt.Sprintf("%dh", c.DefPreemptH)
				}
				if c.DefReclaimH > 0 {
					args["defaultReclaimMinRuntime"] = fmt.Sprintf("%dh", c.DefReclaimH)
				}
				if c.Method != "" {
					args["reclaimResolveMethod"] = c.Method
				}
				tiers[ti].Plugins[pi].Arguments = args
			}
		}
	}
	b.Ssn = newSession(b.Nodes, b.Jobs, queues, cpai, tiers)
	b.Rec = &recorder{Cache: b.Ssn.Cache, FailBind: map[int]bool{}, FailEvict: map[int]bool{}, FailInRun: map[int]bool{}}
	for _, k := range c.FailBinds {
		b.Rec.FailBind[k] = true
	}
	for _, k := range c.FailEvicts {
		b.Rec.FailEvict[k] = true
	}
	for _, k := range c.FailInRun {
		b.Rec.FailInRun[k] = true
	}
	b.Ssn.Cache = b.Rec
	return b
}

// fakeCache is the Cache the session is opened with (as harness/internal/c04:
// fake clientset, un-started informers, the shared lister of the in-session
// pod-affinity info and the real upstream plugins; test_utils.GetTestCacheMock
// does the same behind gomock but polls 100 ms for informer sync per session).
type fakeCache struct {
	cache.Cache
	client  *k8sfake.Clientset
	factory informers.SharedInformerFactory
	lister  *cache.K8sClusterPodAffinityInfo
	plugins *k8splugins.K8sPlugins
}

func (f *fakeCache) KubeClient() kubernetes.Interface                     { return f.client }
func (f *fakeCache) KubeInformerFactory() informers.SharedInformerFactory { return f.factory }
func (f *fakeCache) SnapshotSharedLister() k8sframework.NodeInfoLister    { return f.lister }
func (f *fakeCache) InternalK8sPlugins() *k8splugins.K8sPlugins           { return f.plugins }
func (f *fakeCache) RecordJobStatusEvent(_ *podgroup_info.PodGroupInfo) error {
	return nil
}

var helpersOnce bool

// newSession mirrors test_utils.CreateFakeSession: the same Session fields, the
// same overrides, every plugin of the given tiers opened on it.
func newSession(nodes map[string]*node_info.NodeInfo, jobs map[common_info.PodGroupID]*podgroup_info.PodGroupInfo,
	queues map[common_info.QueueID]*queue_info.QueueInfo, cpai *cache.K8sClusterPodAffinityInfo, tiers []conf.Tier) *framework.Session {
	ssn := &framework.Session{
		Config: &conf.SchedulerConfiguration{Tiers: tiers},
		ClusterInfo: &api.ClusterInfo{Nodes: nodes, Queues: queues, PodGroupInfos: jobs,
			MinNodeGPUMemory: node_info.DefaultGpuMemory},
		SchedulerParams: conf.SchedulerParams{QueueLabelKey: constants.DefaultQueueLabel},
	}
	ssn.OverrideMaxNumberConsolidationPreemptees(-1)
	ssn.OverrideAllowConsolidatingReclaim(true)
	ssn.OverrideSchedulerName("kai-scheduler")
	fc := &fakeCache{client: k8sfake.NewSimpleClientset(), lister: cpai}
	fc.factory = informers.NewSharedInformerFactory(fc.client, 0)
	fc.plugins = k8splugins.InitializeInternalPlugins(fc.client, fc.factory, cpai)
	ssn.Cache = fc
	if !helpersOnce {
		ctrl := gomock.NewController(&reporter{})
		hm := k8s_utils.NewMockInterface(ctrl)
		hm.EXPECT().PatchPodAnnotationsAndLabelsInterface(gomock.Any(), gomock.Any(), gomock.Any(), gomock.Any()).Return(nil).AnyTimes()
		k8s_utils.Helpers = hm
		helpersOnce = true
	}
	for _, tier := range tiers {
		for _, plugin := range tier.Plugins {
			pb, found := framework.GetPluginBuilder(plugin.Name)
			if !found {
				continue
			}
			pb(plugin.Arguments).OnSessionOpen(ssn)
		}
	}
	return ssn
}

func RunActions(b *Built, names []string) (panicked string) {
	defer func() {
		if r := recover(); r != nil {
			panicked = fmt.Sprintf("%v\n%s", r, debug.Stack())
		}
	}()
	orphaned := map[string]bool{}
	for _, a := range names {
		act, ok := framework.GetAction(a)
		if !ok {
			panic("unknown action " + a)
		}
		act.Execute(b.Ssn)
		if b.Rec.bindRefused {
			// Statement.Commit returns at a refused Bind: the allocate operations behind it were never
			// committed nor undone - their pods stay Allocated on their nodes in the session
			b.Rec.bindRefused = false
			var names []string
			for _, t := range b.sessionTasks() {
				if t.Status == pod_status.Allocated && !orphaned[t.Name] {
					names = append(names, t.Name)
				}
			}
			sort.Strings(names)
			st := b.sessionTasks()
			for _, n := range names {
				orphaned[n] = true
				t := st[n]
				b.Rec.calls = append(b.Rec.calls, Call{Kind: "orphan", Pod: t.Name, Node: t.NodeName, Groups: append([]string{}, t.GPUGroups...)})
			}
			b.Rec.runKey = ""
		}
	}
	return ""
}

// sessionTasks: the pods as the session holds them now (after a commit a job's pod map can hold
// the operation's clone of a task, so the pointers of Build are not used).
func (b *Built) sessionTasks() map[string]*pod_info.PodInfo {
	out := map[string]*pod_info.PodInfo{}
	for _, j := range b.Ssn.ClusterInfo.PodGroupInfos {
		for _, t := range j.GetAllPodsMap() {
			out[t.Name] = t
		}
	}
	return out
}

// ---- projection (as cycle.Emit) ------------------------------------------------

func nodeFull(ids *core.Ids, ni *node_info.NodeInfo) string {
	type pe struct {
		k    int
		term string
	}
	var ps []pe
	for _, t := range ni.PodInfos {
		ps = append(ps, pe{ids.Of("p:" + string(t.UID)), core.TaskTerm(ids, t, ni)})
	}
	sort.Slice(ps, func(i, j int) bool { return ps[i].k < ps[j].k })
	pods := make([]string, len(ps))
	for i, p := range ps {
		pods[i] = u.Pair(u.Pos(p.k), p.term)
	}
	return core.NodeFullTerm(ids, ni, u.List(pods))
}

func sortedAmap(m map[int]string) string {
	ks := make([]int, 0, len(m))
	for k := range m {
		ks = append(ks, k)
	}
	sort.Ints(ks)
	out := make([]string, len(ks))
	for i, k := range ks {
		out[i] = u.Pair(u.Pos(k), m[k])
	}
	return u.List(out)
}

func actionCode(a string) int {
	switch strings.ToLower(a) {
	case "reclaim":
		return 1
	case "preempt":
		return 2
	case "consolidation", "consolidate":
		return 3
	}
	return 0
}

// Result of one real cycle.
type Result struct {
	CC     string // Coq term of type ccase
	Extra  string // Coq term of type c06env (queue tree, min-runtime settings, start ages)
	FCalls string // Coq term: list fcall (every call with its outcome, and the pods left Allocated by a refused Bind)
	Final  string // Coq term: status and node of every pod in the real session after the cycle
	Calls  []Call
	Desc   string // human-readable calls
	Stats  map[string]int
	Ids    *core.Ids
	B      *Built
}

func hterm(h int) string {
	if h == Unset {
		return "None"
	}
	return u.Opt(true, u.Z(int64(h)*3600))
}

// Emit runs one cluster and renders snapshot + calls (ccase) and the C06 extras.
func Emit(c Cluster) Result {
	st := map[string]int{}
	b := Build(c)
	ids := core.NewIds()
	for _, n := range c.Nodes {
		ids.Of("n:" + n.Name)
	}
	for _, j := range c.Jobs {
		ids.Of("j:" + j.Name)
		for _, p := range j.Pods {
			ids.Of("p:" + p.Name)
		}
	}
	for _, q := range c.Tops {
		ids.Of("q:" + q.Name)
	}
	for _, q := range c.Queues {
		ids.Of("q:" + q.Name)
	}
	nodes0 := map[int]string{}
	for name, ni := range b.Nodes {
		nodes0[ids.Of("n:"+name)] = nodeFull(ids, ni)
	}
	var anyNode *node_info.NodeInfo
	for _, n := range c.Nodes {
		anyNode = b.Nodes[n.Name]
		break
	}
	var tis []string
	for _, j := range c.Jobs {
		for _, p := range j.Pods {
			t := b.Tasks[p.Name]
			ni := anyNode
			if n, ok := b.Nodes[t.NodeName]; ok {
				ni = n
			}
			pset := "default"
			if t.SubGroupName != "" {
				pset = t.SubGroupName
			}
			node := "None"
			if _, ok := b.Nodes[t.NodeName]; ok {
				node = u.Opt(true, u.Pos(ids.Of("n:"+t.NodeName)))
			}
			tis = append(tis, fmt.Sprintf("(mkTI %s %s %s)", core.TaskTerm(ids, t, ni), u.Pos(ids.Of("s:"+j.Name+"/"+pset)), node))
		}
	}
	var jis, starts []string
	for _, j := range c.Jobs {
		job := b.Jobs[common_info.PodGroupID(j.Name)]
		var ps []string
		names := []string{}
		for n := range job.PodSets {
			names = append(names, n)
		}
		sort.Strings(names)
		for _, n := range names {
			ps = append(ps, u.Pair(u.Pos(ids.Of("s:"+j.Name+"/"+n)), u.Z(int64(job.PodSets[n].GetMinAvailable()))))
		}
		jis = append(jis, fmt.Sprintf("(mkJ %s %s %s %s %s %s)", u.Pos(ids.Of("j:"+j.Name)), u.Pos(ids.Of("q:"+j.Queue)),
			u.Z(int64(j.Priority)), u.Bool(job.IsPreemptibleJob()), u.Z(int64(-j.AgeMinutes)), u.List(ps)))
		if job.LastStartTimestamp != nil {
			// seconds before "now" (model time 0); generators keep |age - k hours| >= 20 min for every configurable k
			starts = append(starts, u.Pair(u.Pos(ids.Of("j:"+j.Name)), u.Z(-int64(j.StartedMins)*60)))
		}
	}
	var qs []string
	for _, q := range c.Tops {
		qs = append(qs, fmt.Sprintf("(mkVQ %s None %s %s)", u.Pos(ids.Of("q:"+q.Name)), hterm(q.PreemptH), hterm(q.ReclaimH)))
	}
	for _, q := range c.Queues {
		par := "None"
		if q.Parent != "" {
			par = u.Opt(true, u.Pos(ids.Of("q:"+q.Parent)))
		}
		qs = append(qs, fmt.Sprintf("(mkVQ %s %s %s %s)", u.Pos(ids.Of("q:"+q.Name)), par, hterm(q.PreemptH), hterm(q.ReclaimH)))
	}
	if pmsg := RunActions(b, c.Actions); pmsg != "" {
		st["PANIC"]++
		fmt.Fprintf(os.Stderr, "PANIC in actions: %s\n  cluster: %s\n", pmsg, Describe(c))
	}
	var calls, fcalls []string
	var cdesc []string
	add := func(ok bool, term string) {
		if ok {
			calls = append(calls, term)
		}
		fcalls = append(fcalls, fmt.Sprintf("(FC %s %s)", u.Bool(ok), term))
	}
	for _, cl := range b.Rec.calls {
		switch cl.Kind {
		case "bind", "bindfail":
			add(cl.Kind == "bind", fmt.Sprintf("(CBind %s %s %s)", u.Pos(ids.Of("p:"+cl.Pod)), u.Pos(ids.Of("n:"+cl.Node)), core.Groups(ids, cl.Groups)))
			cdesc = append(cdesc, fmt.Sprintf("%s(%s->%s%v)", map[bool]string{true: "bind", false: "bindFAILED"}[cl.Kind == "bind"], cl.Pod, cl.Node, cl.Groups))
		case "pipe":
			add(true, fmt.Sprintf("(CPipe %s %s %s)", u.Pos(ids.Of("p:"+cl.Pod)), u.Pos(ids.Of("n:"+cl.Node)), core.Groups(ids, cl.Groups)))
			cdesc = append(cdesc, fmt.Sprintf("pipe(%s->%s%v)", cl.Pod, cl.Node, cl.Groups))
		case "evict", "evictfail":
			pre := "None"
			if cl.Preemptor != "" {
				pre = u.Opt(true, u.Pos(ids.Of("j:"+cl.Preemptor)))
			}
			add(cl.Kind == "evict", fmt.Sprintf("(CEvict %s %s %s)", u.Pos(ids.Of("p:"+cl.Pod)), u.Nat(actionCode(cl.Action)), pre))
			cdesc = append(cdesc, fmt.Sprintf("%s(%s,%s)", map[bool]string{true: "evict", false: "evictFAILED"}[cl.Kind == "evict"], cl.Pod, cl.Action))
		case "orphan":
			fcalls = append(fcalls, fmt.Sprintf("(FOrphan %s %s %s)", u.Pos(ids.Of("p:"+cl.Pod)), u.Pos(ids.Of("n:"+cl.Node)), core.Groups(ids, cl.Groups)))
			cdesc = append(cdesc, fmt.Sprintf("leftAllocated(%s@%s)", cl.Pod, cl.Node))
		}
		st["call:"+cl.Kind]++
		if cl.Kind == "evict" {
			st["evict:"+strings.ToLower(cl.Action)]++
		}
	}
	// statuses and nodes in the real session after the cycle
	var fin []string
	stasks := b.sessionTasks()
	for _, j := range c.Jobs {
		for _, p := range j.Pods {
			t, ok := stasks[p.Name]
			if !ok {
				continue
			}
			node := "None"
			if _, ok := b.Nodes[t.NodeName]; ok {
				node = u.Opt(true, u.Pos(ids.Of("n:"+t.NodeName)))
			}
			fin = append(fin, u.Tuple(u.Pos(ids.Of("p:"+p.Name)), core.StatusTerm(t.Status), node))
		}
	}
	final := map[int]string{}
	for name, ni := range b.Nodes {
		final[ids.Of("n:"+name)] = core.NodeObs(ids, ni)
	}
	if len(b.Rep.msgs) > 0 {
		st["mock-complaints"] += len(b.Rep.msgs)
	}
	lca := c.Method != "queue"
	return Result{
		CC: fmt.Sprintf("(mkCC %s %s %s %s %s)", sortedAmap(nodes0), u.List(tis), u.List(jis), u.List(calls), sortedAmap(final)),
		Extra: fmt.Sprintf("(mkEnv %s %s %s %s %s)", u.List(qs), u.Z(int64(c.DefPreemptH)*3600), u.Z(int64(c.DefReclaimH)*3600),
			u.Bool(lca), u.List(starts)),
		FCalls: u.List(fcalls), Final: u.List(fin),
		Calls: b.Rec.calls, Desc: strings.Join(cdesc, " "), Stats: st, Ids: ids, B: b,
	}
}

func hstr(h int) string {
	if h == Unset {
		return "-"
	}
	return fmt.Sprintf("%dh", h)
}

// Describe renders a cluster compactly (replayable by eye; the seed replays it exactly).
func Describe(c Cluster) string {
	var sb strings.Builder
	sb.WriteString("nodes[")
	for i, n := range c.Nodes {
		if i > 0 {
			sb.WriteString(" ")
		}
		fmt.Fprintf(&sb, "%s:gpu%d,cpu%d,pods%d", n.Name, n.Gpus, n.Cpu, n.Pods)
	}
	fmt.Fprintf(&sb, "] minruntime[default pre=%dh rec=%dh method=%s] tops[", c.DefPreemptH, c.DefReclaimH, map[bool]string{true: "queue", false: "lca"}[c.Method == "queue"])
	for i, q := range c.Tops {
		if i > 0 {
			sb.WriteString(" ")
		}
		fmt.Fprintf(&sb, "%s:q%g,pre=%s,rec=%s", q.Name, q.Deserved, hstr(q.PreemptH), hstr(q.ReclaimH))
	}
	sb.WriteString("] queues[")
	for i, q := range c.Queues {
		if i > 0 {
			sb.WriteString(" ")
		}
		fmt.Fprintf(&sb, "%s<%s:q%g,l%g,pre=%s,rec=%s", q.Name, q.Parent, q.Deserved, q.Limit, hstr(q.PreemptH), hstr(q.ReclaimH))
	}
	sb.WriteString("] jobs[")
	for i, j := range c.Jobs {
		if i > 0 {
			sb.WriteString(" ")
		}
		pre := ""
		if j.Preemptibility != "" {
			pre = "," + j.Preemptibility
		}
		fmt.Fprintf(&sb, "%s(q=%s,pri=%d%s,min=%d,started=%dm:", j.Name, j.Queue, j.Priority, pre, j.MinMember, j.StartedMins)
		for k, p := range j.Pods {
			if k > 0 {
				sb.WriteString(",")
			}
			req := fmt.Sprintf("g%d", p.Gpus)
			if p.Fraction != "" {
				req = "f" + p.Fraction
				if p.NumDev > 1 {
					req += fmt.Sprintf("x%d", p.NumDev)
				}
			} else if p.GpuMemory > 0 {
				req = fmt.Sprintf("m%d", p.GpuMemory)
				if p.NumDev > 1 {
					req += fmt.Sprintf("x%d", p.NumDev)
				}
			}
			sg := ""
			if p.SubGroup != "" {
				sg = p.SubGroup + ":"
			}
			fmt.Fprintf(&sb, "%s%s/%s/%s", sg, core.StatusTerm(p.Status), req, p.Node)
			if len(p.Groups) > 0 {
				fmt.Fprintf(&sb, "%v", p.Groups)
			}
		}
		sb.WriteString(")")
	}
	fmt.Fprintf(&sb, "] actions%v", c.Actions)
	if c.Faulty() {
		fmt.Fprintf(&sb, " faults[failEvict#%v failEvictAtCommitPos%v failBind#%v]", c.FailEvicts, c.FailInRun, c.FailBinds)
	}
	return sb.String()
}
