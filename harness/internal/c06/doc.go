package c06

// The documented min-runtime resolution (docs/plugins/minruntime.md), written
// on names and parent maps.  Used only to TAG labels of cases that meet a known
// finding (the verdicts come from the Coq monitor); never compared with anything.

type docTree struct {
	parent   map[string]string
	pre, rec map[string]int // hours, Unset = not configured
	defPre   int
	defRec   int
	lca      bool
}

func (t docTree) chain(q string) []string {
	var out []string
	seen := map[string]bool{}
	for q != "" && !seen[q] {
		if _, ok := t.pre[q]; !ok {
			break
		}
		seen[q] = true
		out = append(out, q)
		q = t.parent[q]
	}
	return out
}

func firstSet(chain []string, m map[string]int, dflt int) int {
	for _, q := range chain {
		if m[q] != Unset {
			return m[q]
		}
	}
	return dflt
}

func (t docTree) preemptH(vq string) int { return firstSet(t.chain(vq), t.pre, t.defPre) }

func (t docTree) reclaimH(pq, vq string) int {
	ce := t.chain(vq)
	if len(ce) == 0 || len(t.chain(pq)) == 0 {
		return t.defRec
	}
	if !t.lca {
		return firstSet(ce, t.rec, t.defRec)
	}
	anc := map[string]bool{}
	for _, q := range t.chain(pq) {
		anc[q] = true
	}
	start := 0
	for i, q := range ce {
		if anc[q] {
			break
		}
		start = i
	}
	return firstSet(ce[start:], t.rec, t.defRec)
}

func clusterTree(c Cluster) docTree {
	t := docTree{parent: map[string]string{}, pre: map[string]int{}, rec: map[string]int{}, defPre: c.DefPreemptH, defRec: c.DefReclaimH, lca: c.Method != "queue"}
	for _, q := range append(append([]Queue{}, c.Tops...), c.Queues...) {
		t.parent[q.Name] = q.Parent
		t.pre[q.Name] = q.PreemptH
		t.rec[q.Name] = q.ReclaimH
	}
	return t
}

func tqTree(qs []TQ, defPre, defRec int, method string) docTree {
	t := docTree{parent: map[string]string{}, pre: map[string]int{}, rec: map[string]int{}, defPre: defPre, defRec: defRec, lca: method != "queue"}
	for _, q := range qs {
		t.parent[tqName(q.ID)] = tqName(q.Parent)
		t.pre[tqName(q.ID)] = q.PreH
		t.rec[tqName(q.ID)] = q.RecH
	}
	return t
}
