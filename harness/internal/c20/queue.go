package c20

import (
	"context"
	"fmt"
	"net/http"
	"sort"
	"strings"

	"k8s.io/apimachinery/pkg/api/meta"
	metav1 "k8s.io/apimachinery/pkg/apis/meta/v1"
	"k8s.io/apimachinery/pkg/runtime"
	"k8s.io/apimachinery/pkg/types"
	"k8s.io/client-go/rest"
	ctrl "sigs.k8s.io/controller-runtime"
	"sigs.k8s.io/controller-runtime/pkg/cache"
	"sigs.k8s.io/controller-runtime/pkg/cache/informertest"
	"sigs.k8s.io/controller-runtime/pkg/client"
	"sigs.k8s.io/controller-runtime/pkg/client/fake"
	metricsserver "sigs.k8s.io/controller-runtime/pkg/metrics/server"

	v2 "github.com/NVIDIA/KAI-scheduler/pkg/apis/scheduling/v2"
	"github.com/NVIDIA/KAI-scheduler/pkg/apis/scheduling/v2alpha2"
	qcommon "github.com/NVIDIA/KAI-scheduler/pkg/queuecontroller/common"
	qc "github.com/NVIDIA/KAI-scheduler/pkg/queuecontroller/controllers"
	qmetrics "github.com/NVIDIA/KAI-scheduler/pkg/queuecontroller/metrics"

	u "kaiverif/internal/util"
)

// swapClient lets one QueueReconciler (whose updaters copy the client at
// SetupWithManager time) work on a fresh store per case.
type swapClient struct{ client.Client }

type queueDriver struct {
	scheme *runtime.Scheme
	sw     *swapClient
	rec    *qc.QueueReconciler
}

// newQueueDriver builds the real QueueReconciler through its exported
// SetupWithManager, with a manager that never talks to a server.
func newQueueDriver(scheme *runtime.Scheme) (*queueDriver, error) {
	qmetrics.InitMetrics("kaiverif", nil, nil)
	sw := &swapClient{}
	mapper := meta.NewDefaultRESTMapper(nil)
	mgr, err := ctrl.NewManager(&rest.Config{Host: "http://127.0.0.1:1"}, ctrl.Options{
		Scheme:                 scheme,
		Metrics:                metricsserver.Options{BindAddress: "0"},
		HealthProbeBindAddress: "0",
		MapperProvider:         func(*rest.Config, *http.Client) (meta.RESTMapper, error) { return mapper, nil },
		NewCache: func(*rest.Config, cache.Options) (cache.Cache, error) {
			return &informertest.FakeInformers{Scheme: scheme}, nil
		},
		NewClient: func(*rest.Config, client.Options) (client.Client, error) { return sw, nil },
	})
	if err != nil {
		return nil, err
	}
	rec := &qc.QueueReconciler{Client: sw, Scheme: scheme}
	if err := rec.SetupWithManager(mgr, true); err != nil {
		return nil, err
	}
	return &queueDriver{scheme: scheme, sw: sw, rec: rec}, nil
}

type queueIn struct {
	Name     string   `json:"name"`
	Parent   string   `json:"parent,omitempty"`
	Init     rstatus  `json:"-"`
	InitKids []string `json:"initialChildQueues,omitempty"`
}

type pgIn struct {
	Name   string  `json:"name"`
	Queue  string  `json:"queue"`
	Status rstatus `json:"-"`
	Shown  string  `json:"status"`
}

type forest struct {
	Queues []queueIn `json:"queues"`
	PGs    []pgIn    `json:"podGroups"`
}

// queue ids: position in name order + 1; names that are not queues get ids above 900.
type idmap struct {
	ids  map[string]int
	next int
}

func newIDs(f forest) *idmap {
	m := &idmap{ids: map[string]int{}, next: 900}
	names := []string{}
	for _, q := range f.Queues {
		names = append(names, q.Name)
	}
	sort.Strings(names)
	for i, n := range names {
		m.ids[n] = i + 1
	}
	return m
}

func (m *idmap) id(name string) int {
	if v, ok := m.ids[name]; ok {
		return v
	}
	m.next++
	m.ids[name] = m.next
	return m.next
}

func (m *idmap) opt(name string) string {
	if name == "" {
		return "None"
	}
	return u.Opt(true, u.Pos(m.id(name)))
}

func (m *idmap) sortedIDs(names []string) []int {
	out := make([]int, len(names))
	for i, n := range names {
		out[i] = m.id(n)
	}
	sort.Ints(out)
	return out
}

func queueTerm(m *idmap, name, parent string, st rstatus, kids []string) string {
	return fmt.Sprintf("{| q_name := %s; q_parent := %s; q_status := %s; q_children := %s |}",
		u.Pos(m.id(name)), m.opt(parent), st.term(), posList(m.sortedIDs(kids)))
}

func (d *queueDriver) newStore(f forest) (client.Client, *counter) {
	cnt := &counter{}
	cnt.snap = func(c client.Client) string {
		l := &v2.QueueList{}
		if err := c.List(context.Background(), l); err != nil {
			return "error"
		}
		parts := make([]string, len(l.Items))
		for i := range l.Items {
			parts[i] = jsonNoRV(&l.Items[i])
		}
		sort.Strings(parts)
		return strings.Join(parts, "\n")
	}
	objs := []client.Object{}
	for _, q := range f.Queues {
		objs = append(objs, &v2.Queue{
			ObjectMeta: metav1.ObjectMeta{Name: q.Name},
			Spec:       v2.QueueSpec{ParentQueue: q.Parent},
			Status: v2.QueueStatus{ChildQueues: q.InitKids, Allocated: listOf(q.Init.Alloc),
				AllocatedNonPreemptible: listOf(q.Init.Anp), Requested: listOf(q.Init.Req)},
		})
	}
	for _, g := range f.PGs {
		objs = append(objs, &v2alpha2.PodGroup{
			ObjectMeta: metav1.ObjectMeta{Name: g.Name, Namespace: "ns"},
			Spec:       v2alpha2.PodGroupSpec{Queue: g.Queue},
			Status: v2alpha2.PodGroupStatus{ResourcesStatus: v2alpha2.PodGroupResourcesStatus{
				Allocated: listOf(g.Status.Alloc), AllocatedNonPreemptible: listOf(g.Status.Anp), Requested: listOf(g.Status.Req)}},
		})
	}
	// the two field indexes the controller registers with its manager
	// (indexQueueByParent / indexPodGroupByQueue are unexported; same extraction here)
	cl := fake.NewClientBuilder().WithScheme(d.scheme).WithObjects(objs...).
		WithStatusSubresource(&v2alpha2.PodGroup{}, &v2.Queue{}).
		WithIndex(&v2.Queue{}, qcommon.ParentQueueIndexName, func(o client.Object) []string {
			q := o.(*v2.Queue)
			if q.Spec.ParentQueue == "" {
				return []string{}
			}
			return []string{q.Spec.ParentQueue}
		}).
		WithIndex(&v2alpha2.PodGroup{}, qcommon.PodGroupQueueIndexName, func(o client.Object) []string {
			p := o.(*v2alpha2.PodGroup)
			if p.Spec.Queue == "" {
				return []string{}
			}
			return []string{p.Spec.Queue}
		}).
		WithInterceptorFuncs(cnt.funcs()).Build()
	return cl, cnt
}

type eventObs struct {
	Name   string `json:"queue"`
	Found  bool   `json:"found"`
	Status string `json:"status"`
	Wrote  bool   `json:"wrote"`
	Calls  int    `json:"mutating_calls"`
	Err    bool   `json:"error,omitempty"`
}

func (d *queueDriver) reconcile(cl client.Client, cnt *counter, m *idmap, name string) (string, eventObs) {
	ctx := context.Background()
	cnt.reset()
	_, err := d.rec.Reconcile(ctx, ctrl.Request{NamespacedName: types.NamespacedName{Name: name}})
	q := &v2.Queue{}
	found := cl.Get(ctx, types.NamespacedName{Name: name}, q) == nil
	st := rstatus{}
	kids := []string{}
	if found {
		st = queueStatus(q)
		kids = q.Status.ChildQueues
	}
	o := eventObs{Name: name, Found: found, Status: st.String(), Wrote: cnt.writes > 0, Calls: cnt.calls, Err: err != nil}
	term := fmt.Sprintf("{| e_name := %s; e_found := %s; e_status := %s; e_children := %s; e_wrote := %s |}",
		u.Pos(m.id(name)), u.Bool(found), st.term(), posList(m.sortedIDs(kids)), u.Bool(o.Wrote))
	return term, o
}

// ---- generators --------------------------------------------------------------

func genForest(r *u.Rng, malformed bool) forest {
	f := forest{}
	n := r.Range(1, 8)
	depth := map[string]int{}
	for i := 0; i < n; i++ {
		q := queueIn{Name: fmt.Sprintf("q%02d", i+1)}
		if i > 0 && !r.Chance(1, 5) {
			// parent among earlier queues, at most 4 levels
			for try := 0; try < 6; try++ {
				p := f.Queues[r.Intn(i)]
				if depth[p.Name] < 3 {
					q.Parent = p.Name
					depth[q.Name] = depth[p.Name] + 1
					break
				}
			}
		}
		if r.Chance(1, 3) {
			q.Init = rstatus{genVec(r), genVec(r), genVec(r)}
			if r.Bool() {
				q.InitKids = []string{u.Pick(r, []string{"q01", "q02", "q07", "gone"})}
			}
		}
		f.Queues = append(f.Queues, q)
	}
	// shuffle creation order of names against the hierarchy: rename so that parents need not sort first
	if r.Bool() {
		perm := make([]int, n)
		for i := range perm {
			perm[i] = i
		}
		u.Shuffle(r, perm)
		ren := map[string]string{}
		for i, q := range f.Queues {
			ren[q.Name] = fmt.Sprintf("q%02d", perm[i]+1)
		}
		for i := range f.Queues {
			f.Queues[i].Name = ren[f.Queues[i].Name]
			if f.Queues[i].Parent != "" {
				f.Queues[i].Parent = ren[f.Queues[i].Parent]
			}
		}
		sort.Slice(f.Queues, func(a, b int) bool { return f.Queues[a].Name < f.Queues[b].Name })
	}
	for i, k := 0, r.Intn(7); i < k; i++ {
		g := pgIn{Name: fmt.Sprintf("pg%d", i), Queue: f.Queues[r.Intn(n)].Name}
		a := genVec(r)
		g.Status = rstatus{Alloc: a, Req: genVec(r)}
		if r.Bool() {
			g.Status.Anp = a
		}
		if r.Chance(1, 8) {
			g.Status = rstatus{}
		}
		f.PGs = append(f.PGs, g)
	}
	if malformed {
		switch r.Intn(6) {
		case 0: // a queue that names itself as parent
			f.Queues[r.Intn(n)].Parent = f.Queues[r.Intn(n)].Name
			i := r.Intn(n)
			f.Queues[i].Parent = f.Queues[i].Name
		case 1: // a two-cycle
			if n >= 2 {
				f.Queues[0].Parent = f.Queues[1].Name
				f.Queues[1].Parent = f.Queues[0].Name
			}
		case 2: // parent that does not exist
			f.Queues[r.Intn(n)].Parent = "ghost"
		case 3: // pod groups in no queue / in a queue that does not exist
			f.PGs = append(f.PGs, pgIn{Name: "pg-noqueue", Queue: "", Status: rstatus{genVec(r), nil, genVec(r)}})
			f.PGs = append(f.PGs, pgIn{Name: "pg-ghost", Queue: "ghost", Status: rstatus{genVec(r), nil, genVec(r)}})
		case 4: // arbitrary re-parenting (may create cycles)
			for i := range f.Queues {
				if r.Chance(1, 3) {
					f.Queues[i].Parent = f.Queues[r.Intn(n)].Name
				}
			}
		}
	}
	for i := range f.PGs {
		f.PGs[i].Shown = f.PGs[i].Status.String()
	}
	return f
}

// levels returns each queue's depth, or ok=false when a parent chain does not end.
func levels(f forest) (map[string]int, int, bool) {
	parent := map[string]string{}
	for _, q := range f.Queues {
		parent[q.Name] = q.Parent
	}
	depth := map[string]int{}
	max := 0
	for _, q := range f.Queues {
		d, cur := 0, q.Name
		for steps := 0; ; steps++ {
			p, ok := parent[cur]
			if !ok || p == "" {
				break
			}
			if _, exists := parent[p]; !exists {
				break
			}
			if steps > len(f.Queues) {
				return nil, 0, false
			}
			d++
			cur = p
		}
		depth[q.Name] = d
		if d > max {
			max = d
		}
	}
	return depth, max + 1, true
}

func genPass(r *u.Rng, f forest, depth map[string]int, order string) []string {
	names := []string{}
	for _, q := range f.Queues {
		names = append(names, q.Name)
	}
	u.Shuffle(r, names)
	switch order {
	case "parent-first":
		sort.SliceStable(names, func(a, b int) bool { return depth[names[a]] < depth[names[b]] })
	case "child-first":
		sort.SliceStable(names, func(a, b int) bool { return depth[names[a]] > depth[names[b]] })
	}
	// occasional immediate repeats and reconciles of names that are no queue
	out := []string{}
	for _, n := range names {
		out = append(out, n)
		if r.Chance(1, 6) {
			out = append(out, n)
		}
		if r.Chance(1, 25) {
			out = append(out, "ghost")
		}
	}
	return out
}

type qResult struct {
	term, label string
	wf          bool
	height      int
	passes      int
	order       string
	events      int
	checkWrites int
	checkCalls  int
	sample      map[string]any
}

func (d *queueDriver) runForest(r *u.Rng, f forest, order string, passDelta int, origin string) qResult {
	res := qResult{order: order}
	m := newIDs(f)
	depth, height, ok := levels(f)
	res.wf, res.height = ok, height
	if !ok {
		depth = map[string]int{}
		height = 2
	}
	npass := height + passDelta
	if npass < 1 {
		npass = 1
	}
	res.passes = npass
	cl, cnt := d.newStore(f)
	d.sw.Client = cl

	qterms := []string{}
	for _, q := range f.Queues {
		qterms = append(qterms, queueTerm(m, q.Name, q.Parent, q.Init, q.InitKids))
	}
	pgterms := []string{}
	for _, g := range f.PGs {
		pgterms = append(pgterms, fmt.Sprintf("{| pg_queue := %s; pg_status := %s |}", m.opt(g.Queue), g.Status.term()))
	}
	passTerms := []string{}
	trace := [][]eventObs{}
	for p := 0; p < npass; p++ {
		evs := []string{}
		obs := []eventObs{}
		for _, n := range genPass(r, f, depth, order) {
			t, o := d.reconcile(cl, cnt, m, n)
			evs = append(evs, t)
			obs = append(obs, o)
			res.events++
		}
		passTerms = append(passTerms, u.List(evs))
		trace = append(trace, obs)
	}
	final := []string{}
	finalShown := map[string]string{}
	ql := &v2.QueueList{}
	_ = cl.List(context.Background(), ql)
	sort.Slice(ql.Items, func(a, b int) bool { return ql.Items[a].Name < ql.Items[b].Name })
	for i := range ql.Items {
		q := &ql.Items[i]
		final = append(final, queueTerm(m, q.Name, q.Spec.ParentQueue, queueStatus(q), q.Status.ChildQueues))
		finalShown[q.Name] = queueStatus(q).String()
	}
	check := []string{}
	checkObs := []eventObs{}
	for _, n := range genPass(r, f, depth, "random") {
		t, o := d.reconcile(cl, cnt, m, n)
		check = append(check, t)
		checkObs = append(checkObs, o)
		if o.Wrote {
			res.checkWrites++
		}
		res.checkCalls += o.Calls
	}
	res.term = fmt.Sprintf("(CaseQ {| qk_cluster := {| c_queues := %s; c_pgs := %s |}; qk_passes := %s; qk_final := %s; qk_check := %s |})",
		u.List(qterms), u.List(pgterms), u.List(passTerms), u.List(final), u.List(check))
	shape := []string{}
	for _, q := range f.Queues {
		shape = append(shape, q.Name+"<-"+q.Parent)
	}
	hs := fmt.Sprint(res.height)
	if !ok {
		hs = "n/a(cyclic)"
	}
	res.label = fmt.Sprintf("queue %s order=%s passes=%d height=%s wellformed=%v forest=[%s] podgroups=%d",
		origin, order, npass, hs, ok, strings.Join(shape, ","), len(f.PGs))
	res.sample = map[string]any{"kind": "queue forest", "forest": f, "order": order, "passes": trace,
		"final": finalShown, "check_pass": checkObs}
	return res
}
