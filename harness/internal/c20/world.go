package c20

// Histories on ONE store: priority classes, pods, pod groups and a queue forest,
// driven through the real PodGroupReconciler and the real QueueReconciler
// (Run/C20.v, CaseW).  Per step: some changes, then targeted reconciles of the
// touched pod group, its queue and all ancestors (various orders, repeated), then
// full passes (every pod group and every queue) until one writes nothing.

import (
	"context"
	"fmt"
	"sort"
	"strconv"
	"strings"

	v1 "k8s.io/api/core/v1"
	resourceapi "k8s.io/api/resource/v1"
	schedulingv1 "k8s.io/api/scheduling/v1"
	metav1 "k8s.io/apimachinery/pkg/apis/meta/v1"
	"k8s.io/apimachinery/pkg/runtime"
	"k8s.io/apimachinery/pkg/types"
	ctrl "sigs.k8s.io/controller-runtime"
	"sigs.k8s.io/controller-runtime/pkg/client"
	"sigs.k8s.io/controller-runtime/pkg/client/fake"

	v2 "github.com/NVIDIA/KAI-scheduler/pkg/apis/scheduling/v2"
	"github.com/NVIDIA/KAI-scheduler/pkg/apis/scheduling/v2alpha2"
	pgc "github.com/NVIDIA/KAI-scheduler/pkg/podgroupcontroller/controllers"
	"github.com/NVIDIA/KAI-scheduler/pkg/podgroupcontroller/controllers/cluster_relations"
	qcommon "github.com/NVIDIA/KAI-scheduler/pkg/queuecontroller/common"

	u "kaiverif/internal/util"
)

type wGroup struct {
	Name  string  `json:"name"`
	Queue string  `json:"queue"`
	Spec  string  `json:"preemptibility"`
	Class string  `json:"priorityClassName"`
	Pods  []podIn `json:"pods"`
	Init  rstatus `json:"-"`
}

type wQueue struct {
	Name     string   `json:"name"`
	Parent   string   `json:"parent,omitempty"`
	Init     rstatus  `json:"-"`
	InitKids []string `json:"initialChildQueues,omitempty"`
}

// wState is the harness's own copy of the inputs (never of a controller output).
type wState struct {
	Classes []classIn `json:"priorityClasses"`
	Groups  []wGroup  `json:"podGroups"`
	Queues  []wQueue  `json:"queues"` // in name order
}

func (s *wState) clone() wState {
	c := wState{Classes: append([]classIn{}, s.Classes...), Queues: append([]wQueue{}, s.Queues...)}
	for _, g := range s.Groups {
		g.Pods = append([]podIn{}, g.Pods...)
		c.Groups = append(c.Groups, g)
	}
	return c
}

func (s *wState) queueIndex(name string) int {
	for i, q := range s.Queues {
		if q.Name == name {
			return i
		}
	}
	return -1
}

func (s *wState) preemptible(i int) bool {
	g := s.Groups[i]
	return effPreemptible(pgState{Spec: g.Spec, Class: g.Class, Classes: s.Classes})
}

// queue names are q01..q99; anything else (a reconcile of a name that is no queue) gets an id above 900
func wQueueID(name string) int {
	if len(name) == 3 && name[0] == 'q' {
		if n, err := strconv.Atoi(name[1:]); err == nil && n > 0 {
			return n
		}
	}
	return 901
}

func wQueueOpt(name string) string {
	if name == "" {
		return "None"
	}
	return u.Opt(true, u.Pos(wQueueID(name)))
}

func wKids(names []string) string {
	ids := make([]int, len(names))
	for i, n := range names {
		ids[i] = wQueueID(n)
	}
	sort.Ints(ids)
	return posList(ids)
}

func podsTerm(ps []podIn) string {
	out := make([]string, len(ps))
	for i, p := range ps {
		out[i] = p.term()
	}
	return u.List(out)
}

func (s *wState) term() string {
	gs := []string{}
	for _, g := range s.Groups {
		gs = append(gs, fmt.Sprintf("{| wg_queue := %s; wg_pods := %s; wg_pg := {| g_spec := %s; g_prio_class := %s; g_status := %s |} |}",
			wQueueOpt(g.Queue), podsTerm(g.Pods), specTerm(g.Spec), u.Pos(classID[g.Class]), g.Init.term()))
	}
	qs := []string{}
	for _, q := range s.Queues {
		qs = append(qs, fmt.Sprintf("{| q_name := %s; q_parent := %s; q_status := %s; q_children := %s |}",
			u.Pos(wQueueID(q.Name)), wQueueOpt(q.Parent), q.Init.term(), wKids(q.InitKids)))
	}
	return fmt.Sprintf("{| w_classes := %s; w_groups := %s; w_queues := %s |}", classesTerm(s.Classes), u.List(gs), u.List(qs))
}

// ---- the store -----------------------------------------------------------------

type world struct {
	cl  client.Client
	cnt *counter
	pg  *pgc.PodGroupReconciler
	qd  *queueDriver
}

func buildGroupPod(group string, p podIn) (*v1.Pod, *resourceapi.ResourceClaim) {
	pod, claim := buildPod(p)
	pod.Annotations["pod-group-name"] = group
	return pod, claim
}

func newWorld(scheme *runtime.Scheme, qd *queueDriver, st *wState) (*world, error) {
	cnt := &counter{}
	cnt.snap = func(c client.Client) string {
		ctx := context.Background()
		ql := &v2.QueueList{}
		gl := &v2alpha2.PodGroupList{}
		if c.List(ctx, ql) != nil || c.List(ctx, gl) != nil {
			return "error"
		}
		parts := []string{}
		for i := range ql.Items {
			parts = append(parts, jsonNoRV(&ql.Items[i]))
		}
		for i := range gl.Items {
			parts = append(parts, jsonNoRV(&gl.Items[i]))
		}
		sort.Strings(parts)
		return strings.Join(parts, "\n")
	}
	objs := []client.Object{
		&v1.Node{ObjectMeta: metav1.ObjectMeta{Name: "node-a", Labels: map[string]string{"nvidia.com/gpu.memory": strconv.Itoa(nodeGpuMem)}}},
		&v1.Node{ObjectMeta: metav1.ObjectMeta{Name: "node-nolabel"}},
	}
	for _, c := range st.Classes {
		objs = append(objs, &schedulingv1.PriorityClass{ObjectMeta: metav1.ObjectMeta{Name: c.Name}, Value: c.Value, GlobalDefault: c.Default})
	}
	for _, q := range st.Queues {
		objs = append(objs, &v2.Queue{
			ObjectMeta: metav1.ObjectMeta{Name: q.Name},
			Spec:       v2.QueueSpec{ParentQueue: q.Parent},
			Status: v2.QueueStatus{ChildQueues: q.InitKids, Allocated: listOf(q.Init.Alloc),
				AllocatedNonPreemptible: listOf(q.Init.Anp), Requested: listOf(q.Init.Req)},
		})
	}
	for _, g := range st.Groups {
		objs = append(objs, &v2alpha2.PodGroup{
			ObjectMeta: metav1.ObjectMeta{Name: g.Name, Namespace: pgNS},
			Spec:       v2alpha2.PodGroupSpec{Queue: g.Queue, Preemptibility: v2alpha2.Preemptibility(g.Spec), PriorityClassName: g.Class},
			Status: v2alpha2.PodGroupStatus{ResourcesStatus: v2alpha2.PodGroupResourcesStatus{
				Allocated: listOf(g.Init.Alloc), AllocatedNonPreemptible: listOf(g.Init.Anp), Requested: listOf(g.Init.Req)}},
		})
		for _, p := range g.Pods {
			pod, claim := buildGroupPod(g.Name, p)
			objs = append(objs, pod)
			if claim != nil {
				objs = append(objs, claim)
			}
		}
	}
	// the field indexes the two controllers register with their managers (the queue
	// controller's index functions are unexported; same extraction here)
	cl := fake.NewClientBuilder().WithScheme(scheme).WithObjects(objs...).
		WithStatusSubresource(&v2alpha2.PodGroup{}, &v2.Queue{}).
		WithIndex(&v1.Pod{}, cluster_relations.PodGroupToPodsIndexer, cluster_relations.PodGroupNameIndexerFunc).
		WithIndex(&v2.Queue{}, qcommon.ParentQueueIndexName, func(o client.Object) []string {
			q := o.(*v2.Queue)
			if q.Spec.ParentQueue == "" {
				return []string{}
			}
			return []string{q.Spec.ParentQueue}
		}).
		WithIndex(&v2alpha2.PodGroup{}, qcommon.PodGroupQueueIndexName, func(o client.Object) []string {
			p := o.(*v2alpha2.PodGroup)
			if p.Spec.Queue == "" {
				return []string{}
			}
			return []string{p.Spec.Queue}
		}).
		WithInterceptorFuncs(cnt.funcs()).Build()
	qd.sw.Client = cl
	return &world{cl: cl, cnt: cnt, pg: &pgc.PodGroupReconciler{Client: cl, Scheme: scheme}, qd: qd}, nil
}

// ---- changes -------------------------------------------------------------------

// wChange is one edit of the inputs: applied to the harness's state, to the store, and emitted as a wchange term.
type wChange struct {
	what  string // label text
	term  string
	apply func(w *world, st *wState) error
	touch int // index of the pod group the change is about, -1 = none
	queue string
}

func (w *world) editGroup(name string, f func(g *v2alpha2.PodGroup)) error {
	ctx := context.Background()
	g := &v2alpha2.PodGroup{}
	if err := w.cl.Get(ctx, types.NamespacedName{Namespace: pgNS, Name: name}, g); err != nil {
		return err
	}
	f(g)
	return w.cl.Update(ctx, g)
}

func (w *world) setPods(group string, old, pods []podIn) error {
	ctx := context.Background()
	for _, p := range old {
		pod, claim := buildGroupPod(group, p)
		if err := client.IgnoreNotFound(w.cl.Delete(ctx, pod)); err != nil {
			return err
		}
		if claim != nil {
			if err := client.IgnoreNotFound(w.cl.Delete(ctx, claim)); err != nil {
				return err
			}
		}
	}
	for _, p := range pods {
		pod, claim := buildGroupPod(group, p)
		if err := w.cl.Create(ctx, pod); err != nil {
			return err
		}
		if claim != nil {
			if err := w.cl.Create(ctx, claim); err != nil {
				return err
			}
		}
	}
	return nil
}

func chSetSpec(st *wState, i int, spec string) wChange {
	return wChange{what: fmt.Sprintf("%s spec.preemptibility=%q", st.Groups[i].Name, spec),
		term: fmt.Sprintf("WSetSpec %s %s", u.Nat(i), specTerm(spec)), touch: i,
		apply: func(w *world, s *wState) error {
			s.Groups[i].Spec = spec
			return w.editGroup(s.Groups[i].Name, func(g *v2alpha2.PodGroup) { g.Spec.Preemptibility = v2alpha2.Preemptibility(spec) })
		}}
}

func chSetClass(st *wState, i int, class string) wChange {
	return wChange{what: fmt.Sprintf("%s priorityClassName=%s", st.Groups[i].Name, class),
		term: fmt.Sprintf("WSetPrioClass %s %s", u.Nat(i), u.Pos(classID[class])), touch: i,
		apply: func(w *world, s *wState) error {
			s.Groups[i].Class = class
			return w.editGroup(s.Groups[i].Name, func(g *v2alpha2.PodGroup) { g.Spec.PriorityClassName = class })
		}}
}

// chClassValue changes the value of one priority class (created when absent).
func chClassValue(st *wState, class string, value int32, touch int) wChange {
	cs := append([]classIn{}, st.Classes...)
	found := false
	for k := range cs {
		if cs[k].Name == class {
			cs[k].Value, found = value, true
		}
	}
	if !found {
		cs = append(cs, classIn{Name: class, Value: value})
	}
	return wChange{what: fmt.Sprintf("priority class %s value=%d", class, value),
		term: fmt.Sprintf("WSetClasses %s", classesTerm(cs)), touch: touch,
		apply: func(w *world, s *wState) error {
			ctx := context.Background()
			s.Classes = cs
			pc := &schedulingv1.PriorityClass{}
			if err := w.cl.Get(ctx, types.NamespacedName{Name: class}, pc); err != nil {
				return w.cl.Create(ctx, &schedulingv1.PriorityClass{ObjectMeta: metav1.ObjectMeta{Name: class}, Value: value})
			}
			pc.Value = value
			return w.cl.Update(ctx, pc)
		}}
}

func chSetPods(st *wState, i int, pods []podIn, what string) wChange {
	return wChange{what: fmt.Sprintf("%s %s", st.Groups[i].Name, what),
		term: fmt.Sprintf("WSetPods %s %s", u.Nat(i), podsTerm(pods)), touch: i,
		apply: func(w *world, s *wState) error {
			old := s.Groups[i].Pods
			s.Groups[i].Pods = pods
			return w.setPods(s.Groups[i].Name, old, pods)
		}}
}

func chSetGroupQueue(st *wState, i int, queue string) wChange {
	return wChange{what: fmt.Sprintf("%s spec.queue=%q (was %q)", st.Groups[i].Name, queue, st.Groups[i].Queue),
		term: fmt.Sprintf("WSetGroupQueue %s %s", u.Nat(i), wQueueOpt(queue)), touch: i, queue: st.Groups[i].Queue,
		apply: func(w *world, s *wState) error {
			s.Groups[i].Queue = queue
			return w.editGroup(s.Groups[i].Name, func(g *v2alpha2.PodGroup) { g.Spec.Queue = queue })
		}}
}

func chSetParent(st *wState, name, parent string) wChange {
	old := st.Queues[st.queueIndex(name)].Parent
	return wChange{what: fmt.Sprintf("queue %s spec.parentQueue=%q (was %q)", name, parent, old),
		term: fmt.Sprintf("WSetParent %s %s", u.Pos(wQueueID(name)), wQueueOpt(parent)), touch: -1, queue: name,
		apply: func(w *world, s *wState) error {
			ctx := context.Background()
			s.Queues[s.queueIndex(name)].Parent = parent
			q := &v2.Queue{}
			if err := w.cl.Get(ctx, types.NamespacedName{Name: name}, q); err != nil {
				return err
			}
			q.Spec.ParentQueue = parent
			return w.cl.Update(ctx, q)
		}}
}

func chAddQueue(name, parent string) wChange {
	return wChange{what: fmt.Sprintf("create queue %s parent=%q", name, parent),
		term: fmt.Sprintf("WAddQueue %s %s", u.Pos(wQueueID(name)), wQueueOpt(parent)), touch: -1, queue: name,
		apply: func(w *world, s *wState) error {
			s.Queues = append(s.Queues, wQueue{Name: name, Parent: parent})
			sort.Slice(s.Queues, func(a, b int) bool { return s.Queues[a].Name < s.Queues[b].Name })
			return w.cl.Create(context.Background(), &v2.Queue{ObjectMeta: metav1.ObjectMeta{Name: name}, Spec: v2.QueueSpec{ParentQueue: parent}})
		}}
}

func chDelQueue(st *wState, name string) wChange {
	return wChange{what: fmt.Sprintf("delete queue %s", name),
		term: fmt.Sprintf("WDelQueue %s", u.Pos(wQueueID(name))), touch: -1, queue: st.Queues[st.queueIndex(name)].Parent,
		apply: func(w *world, s *wState) error {
			i := s.queueIndex(name)
			s.Queues = append(s.Queues[:i:i], s.Queues[i+1:]...)
			return w.cl.Delete(context.Background(), &v2.Queue{ObjectMeta: metav1.ObjectMeta{Name: name}})
		}}
}

// ---- reconciles ------------------------------------------------------------------

type wEv struct {
	group int    // >= 0: pod group index
	queue string // otherwise a queue name
}

type wObs struct {
	Target string `json:"reconcile"`
	Found  bool   `json:"found"`
	Err    bool   `json:"error,omitempty"`
	Status string `json:"status_after"`
	Kids   string `json:"childQueues_after,omitempty"`
	Wrote  bool   `json:"stored_object_changed"`
	Calls  int    `json:"mutating_calls"`
}

func (w *world) reconcile(st *wState, e wEv) (string, wObs) {
	ctx := context.Background()
	w.cnt.reset()
	o := wObs{}
	var s rstatus
	kids := []string{}
	ev := ""
	if e.group >= 0 {
		name := st.Groups[e.group].Name
		o.Target = "podgroup " + name
		ev = "WRecGroup " + u.Nat(e.group)
		func() {
			defer func() {
				if r := recover(); r != nil {
					o.Err = true
				}
			}()
			_, err := w.pg.Reconcile(ctx, ctrl.Request{NamespacedName: types.NamespacedName{Namespace: pgNS, Name: name}})
			o.Err = err != nil
		}()
		g := &v2alpha2.PodGroup{}
		o.Found = w.cl.Get(ctx, types.NamespacedName{Namespace: pgNS, Name: name}, g) == nil
		if o.Found {
			s = pgStatus(g)
		}
	} else {
		o.Target = "queue " + e.queue
		ev = "WRecQueue " + u.Pos(wQueueID(e.queue))
		_, err := w.qd.rec.Reconcile(ctx, ctrl.Request{NamespacedName: types.NamespacedName{Name: e.queue}})
		o.Err = err != nil
		q := &v2.Queue{}
		o.Found = w.cl.Get(ctx, types.NamespacedName{Name: e.queue}, q) == nil
		if o.Found {
			s = queueStatus(q)
			kids = q.Status.ChildQueues
			o.Kids = strings.Join(kids, ",")
		}
	}
	o.Status = s.String()
	o.Wrote, o.Calls = w.cnt.writes > 0, w.cnt.calls
	term := fmt.Sprintf("{| wo_ev := %s; wo_found := %s; wo_err := %s; wo_status := %s; wo_children := %s; wo_wrote := %s |}",
		ev, u.Bool(o.Found), u.Bool(o.Err), s.term(), wKids(kids), u.Bool(o.Wrote))
	return term, o
}

// chain returns the queue and its ancestors, bottom-up (cycle-safe).
func (s *wState) chain(queue string) []string {
	out := []string{}
	seen := map[string]bool{}
	for queue != "" && !seen[queue] && s.queueIndex(queue) >= 0 {
		seen[queue] = true
		out = append(out, queue)
		queue = s.Queues[s.queueIndex(queue)].Parent
	}
	return out
}

func (s *wState) forest() forest {
	f := forest{}
	for _, q := range s.Queues {
		f.Queues = append(f.Queues, queueIn{Name: q.Name, Parent: q.Parent})
	}
	return f
}

// targeted builds the reconciles of one pod group, its queue and all ancestors in the given order.
func targeted(r *u.Rng, st *wState, group int, queue string, order string) []wEv {
	evs := []wEv{}
	if group >= 0 {
		evs = append(evs, wEv{group: group})
		if queue == "" {
			queue = st.Groups[group].Queue
		}
	}
	for _, q := range st.chain(queue) {
		evs = append(evs, wEv{group: -1, queue: q})
	}
	switch order {
	case "top-down":
		for i, j := 0, len(evs)-1; i < j; i, j = i+1, j-1 {
			evs[i], evs[j] = evs[j], evs[i]
		}
	case "random":
		u.Shuffle(r, evs)
	case "queues-before-podgroup":
		if len(evs) > 1 && group >= 0 {
			evs = append(evs[1:], evs[0])
		}
	}
	out := []wEv{}
	for _, e := range evs {
		out = append(out, e)
		if r.Chance(1, 4) {
			out = append(out, e)
		}
	}
	return out
}

func fullPass(r *u.Rng, st *wState, order string) []wEv {
	groups := []wEv{}
	for i := range st.Groups {
		groups = append(groups, wEv{group: i})
	}
	u.Shuffle(r, groups)
	depth, _, ok := levels(st.forest())
	names := []string{}
	for _, q := range st.Queues {
		names = append(names, q.Name)
	}
	u.Shuffle(r, names)
	if ok {
		switch order {
		case "top-down", "podgroups-then-parent-first":
			sort.SliceStable(names, func(a, b int) bool { return depth[names[a]] < depth[names[b]] })
		case "bottom-up":
			sort.SliceStable(names, func(a, b int) bool { return depth[names[a]] > depth[names[b]] })
		}
	}
	queues := []wEv{}
	for _, n := range names {
		queues = append(queues, wEv{group: -1, queue: n})
	}
	var evs []wEv
	switch order {
	case "top-down", "queues-then-podgroups":
		evs = append(queues, groups...)
	case "random":
		evs = append(groups, queues...)
		u.Shuffle(r, evs)
	default: // bottom-up, podgroups-then-parent-first
		evs = append(groups, queues...)
	}
	out := []wEv{}
	for _, e := range evs {
		out = append(out, e)
		if r.Chance(1, 8) {
			out = append(out, e)
		}
		if r.Chance(1, 40) {
			out = append(out, wEv{group: -1, queue: "ghost"})
		}
	}
	return out
}

// ---- one history -------------------------------------------------------------------

type wStepPlan struct {
	changes []wChange
	tag     string // what kind of change (stats)
}

type wResult struct {
	term, label  string
	steps        int
	events       int
	fullPasses   int
	maxFull      int
	unsettled    int // steps whose last full pass still wrote
	errors       int
	emptyPatches int
	tags         []string
	wf           bool
	height       int
	sample       map[string]any
}

var wPreludeOrders = []string{"bottom-up", "top-down", "random", "queues-before-podgroup"}
var wFullOrders = []string{"random", "random", "bottom-up", "top-down", "podgroups-then-parent-first", "queues-then-podgroups"}

// runWorld plays a history; plan(step, state) returns the changes of the step (step 0: creation, no change).
func runWorld(scheme *runtime.Scheme, qd *queueDriver, r *u.Rng, st wState, nsteps int,
	plan func(step int, st *wState) wStepPlan, fixedOrder string, origin string) (wResult, error) {
	res := wResult{wf: true}
	init := st.clone()
	w, err := newWorld(scheme, qd, &st)
	if err != nil {
		return res, err
	}
	stepTerms := []string{}
	descr := []string{}
	hist := []map[string]any{}
	for s := 0; s < nsteps; s++ {
		p := wStepPlan{tag: "create"}
		if s > 0 {
			p = plan(s, &st)
		}
		chTerms, whats := []string{}, []string{}
		for _, ch := range p.changes {
			if ch.apply == nil { // only names a further queue chain for the targeted reconciles
				continue
			}
			if err := ch.apply(w, &st); err != nil {
				return res, fmt.Errorf("world change %q: %w", ch.what, err)
			}
			chTerms = append(chTerms, ch.term)
			whats = append(whats, ch.what)
		}
		if len(whats) == 0 {
			whats = []string{"no change"}
		}
		res.tags = append(res.tags, p.tag)
		_, height, ok := levels(st.forest())
		if !ok {
			res.wf = false
			height = 2
		}
		if height > res.height {
			res.height = height
		}
		passTerms := []string{}
		trace := []map[string]any{}
		orders := []string{}
		runPass := func(kind, order string, evs []wEv) bool {
			terms, obs := []string{}, []wObs{}
			wrote := false
			for _, e := range evs {
				t, o := w.reconcile(&st, e)
				terms = append(terms, t)
				obs = append(obs, o)
				res.events++
				if o.Wrote || o.Err {
					wrote = true
				}
				if o.Err {
					res.errors++
				}
				if !o.Wrote && o.Calls > 0 {
					res.emptyPatches++
				}
			}
			passTerms = append(passTerms, u.List(terms))
			trace = append(trace, map[string]any{"pass": kind, "order": order, "reconciles": obs})
			orders = append(orders, kind+":"+order)
			return wrote
		}
		// targeted reconciles of what the change touched: pod group, its queue, all ancestors
		for _, ch := range p.changes {
			if ch.touch < 0 && ch.queue == "" {
				continue
			}
			n := r.Range(0, 2)
			if fixedOrder != "" {
				n = 2
			}
			for k := 0; k < n; k++ {
				order := fixedOrder
				if order == "" {
					order = u.Pick(r, wPreludeOrders)
				}
				runPass("targeted", order, targeted(r, &st, ch.touch, ch.queue, order))
			}
		}
		// full passes until one writes nothing (at most height + 3)
		full := 0
		for {
			order := fixedOrder
			if order == "" {
				order = u.Pick(r, wFullOrders)
			}
			wrote := runPass("full", order, fullPass(r, &st, order))
			full++
			if !wrote {
				break
			}
			if full >= height+3 {
				res.unsettled++
				break
			}
		}
		res.fullPasses += full
		if full > res.maxFull {
			res.maxFull = full
		}
		stepTerms = append(stepTerms, fmt.Sprintf("{| ws_changes := %s; ws_passes := %s |}", u.List(chTerms), u.List(passTerms)))
		descr = append(descr, fmt.Sprintf("%s {%s}", strings.Join(whats, " + "), strings.Join(orders, " ")))
		hist = append(hist, map[string]any{"changes": whats, "kind": p.tag, "passes": trace})
	}
	res.steps = nsteps
	res.term = fmt.Sprintf("(CaseW {| wk_init := %s; wk_steps := %s |})", init.term(), u.List(stepTerms))
	shape := []string{}
	for _, q := range init.Queues {
		shape = append(shape, q.Name+"<-"+q.Parent)
	}
	groups := []string{}
	for _, g := range init.Groups {
		pods := []string{}
		for _, p := range g.Pods {
			pods = append(pods, p.Name+":"+p.Phase)
		}
		groups = append(groups, fmt.Sprintf("%s@%s(%s/%s)[%s]", g.Name, g.Queue, g.Spec, g.Class, strings.Join(pods, ",")))
	}
	res.label = fmt.Sprintf("world %s forest=[%s] groups=[%s] steps=[%s]", origin, strings.Join(shape, ","),
		strings.Join(groups, " "), strings.Join(descr, " ; "))
	res.sample = map[string]any{"kind": "world history (pod-group controller + queue controller on one store)",
		"initial": init, "history": hist}
	return res, nil
}

// ---- generators ----------------------------------------------------------------------

func genWorldPod(r *u.Rng, name string) podIn {
	for {
		p := genPod(r, 0, false)
		p.Name = name
		p.Phase = u.Pick(r, []string{"Running", "Running", "Running", "Pending", "Pending", "Succeeded"})
		if p.Phase == "Running" && p.Node == "" {
			p.Node = "node-a"
		}
		if _, re, _, ae := given(p); !re && !ae {
			return p
		}
	}
}

func genWorld(r *u.Rng) wState {
	st := wState{Classes: append([]classIn{}, allClasses...)}
	if r.Chance(1, 4) {
		st.Classes = append(st.Classes, classIn{"gdef", int32(u.Pick(r, []int{75, 150})), true})
	}
	n := r.Range(1, 6)
	depth := map[string]int{}
	for i := 0; i < n; i++ {
		q := wQueue{Name: fmt.Sprintf("q%02d", i+1)}
		if i > 0 && !r.Chance(1, 6) {
			for try := 0; try < 6; try++ {
				p := st.Queues[r.Intn(i)]
				if depth[p.Name] < 3 {
					q.Parent = p.Name
					depth[q.Name] = depth[p.Name] + 1
					break
				}
			}
		}
		if r.Chance(1, 6) { // stale leftovers in the store
			q.Init = rstatus{genVec(r), genVec(r), genVec(r)}
			if r.Bool() {
				q.InitKids = []string{u.Pick(r, []string{"q01", "q02", "q09"})}
			}
		}
		st.Queues = append(st.Queues, q)
	}
	// names need not follow the hierarchy: rename by a permutation
	if r.Bool() {
		perm := make([]int, n)
		for i := range perm {
			perm[i] = i
		}
		u.Shuffle(r, perm)
		ren := map[string]string{}
		for i, q := range st.Queues {
			ren[q.Name] = fmt.Sprintf("q%02d", perm[i]+1)
		}
		for i := range st.Queues {
			st.Queues[i].Name = ren[st.Queues[i].Name]
			if st.Queues[i].Parent != "" {
				st.Queues[i].Parent = ren[st.Queues[i].Parent]
			}
		}
		sort.Slice(st.Queues, func(a, b int) bool { return st.Queues[a].Name < st.Queues[b].Name })
	}
	for i, k := 0, r.Range(1, 4); i < k; i++ {
		g := wGroup{Name: fmt.Sprintf("g%d", i), Queue: st.Queues[r.Intn(n)].Name}
		g.Spec = u.Pick(r, []string{"", "", string(v2alpha2.Preemptible), string(v2alpha2.NonPreemptible), string(v2alpha2.NonPreemptible)})
		g.Class = u.Pick(r, []string{"train", "build", "inference", "missing"})
		for j, m := 0, r.Range(0, 3); j < m; j++ {
			g.Pods = append(g.Pods, genWorldPod(r, fmt.Sprintf("g%d-p%d", i, j)))
		}
		if r.Chance(1, 8) {
			g.Queue = ""
		}
		if r.Chance(1, 6) {
			g.Init = rstatus{genVec(r), genVec(r), genVec(r)}
		}
		st.Groups = append(st.Groups, g)
	}
	return st
}

func hasAllocated(g wGroup) bool {
	for _, p := range g.Pods {
		if p.Phase == "Running" {
			return true
		}
	}
	return false
}

// would re-parenting `name` under `parent` keep the forest acyclic and at most 4 levels deep?
func reparentOK(st *wState, name, parent string) bool {
	c := st.clone()
	c.Queues[c.queueIndex(name)].Parent = parent
	_, h, ok := levels(c.forest())
	return ok && h <= 5
}

func subtreeEmpty(st *wState, name string) bool {
	for _, g := range st.Groups {
		for _, a := range st.chain(g.Queue) {
			if a == name {
				return false
			}
		}
	}
	return true
}

// genWorldStep draws the changes of one step. Kinds marked "only-*" alter exactly one of
// the four aggregates of the affected queues.
func genWorldStep(r *u.Rng, st *wState, next *int) wStepPlan {
	np, p := string(v2alpha2.NonPreemptible), string(v2alpha2.Preemptible)
	ng := len(st.Groups)
	for try := 0; try < 12; try++ {
		i := r.Intn(ng)
		g := st.Groups[i]
		switch r.Intn(16) {
		case 0, 1, 2: // flip by spec edit, pods keep running, NO other change
			if !hasAllocated(g) {
				continue
			}
			to, dir := np, "preemptible->nonpreemptible"
			if !st.preemptible(i) {
				to, dir = p, "nonpreemptible->preemptible"
			}
			ch := chSetSpec(st, i, to)
			ch.what += " (flip " + dir + " by spec edit, pods keep running, no other change)"
			return wStepPlan{[]wChange{ch}, "only-allocatedNonPreemptible:flip-by-spec " + dir}
		case 3, 4: // flip by another priority class name
			if !hasAllocated(g) || g.Spec != "" {
				continue
			}
			to, dir := "inference", "preemptible->nonpreemptible"
			if !st.preemptible(i) {
				to, dir = "train", "nonpreemptible->preemptible"
			}
			ch := chSetClass(st, i, to)
			c := st.clone()
			c.Groups[i].Class = to
			if c.preemptible(i) == st.preemptible(i) {
				continue
			}
			ch.what += " (flip " + dir + " by priority class, pods keep running, no other change)"
			return wStepPlan{[]wChange{ch}, "only-allocatedNonPreemptible:flip-by-class-name " + dir}
		case 5, 6: // flip by the class's value crossing 100
			if !hasAllocated(g) || g.Spec != "" || g.Class == "missing" {
				continue
			}
			val, dir := int32(u.Pick(r, []int{100, 125, 1000})), "preemptible->nonpreemptible"
			if !st.preemptible(i) {
				val, dir = int32(u.Pick(r, []int{10, 50, 99})), "nonpreemptible->preemptible"
			}
			ch := chClassValue(st, g.Class, val, i)
			c := st.clone()
			for k := range c.Classes {
				if c.Classes[k].Name == g.Class {
					c.Classes[k].Value = val
				}
			}
			if c.preemptible(i) == st.preemptible(i) {
				continue
			}
			ch.what += fmt.Sprintf(" (flip %s of %s by priority class value crossing 100, pods keep running, no other change)", dir, g.Name)
			return wStepPlan{[]wChange{ch}, "only-allocatedNonPreemptible:flip-by-class-value " + dir}
		case 7: // Requested only: a Pending pod that is not scheduled appears
			np := podIn{Name: fmt.Sprintf("%s-p%d", g.Name, *next), Phase: "Pending", CPU: int64(u.Pick(r, []int{250, 500, 1000})), GPU: int64(r.Intn(3))}
			*next++
			pods := append(append([]podIn{}, g.Pods...), np)
			return wStepPlan{[]wChange{chSetPods(st, i, pods, "add unscheduled Pending pod "+np.Name)}, "only-requested:pending-pod-added"}
		case 8: // Allocated only (preemptible group): a Pending pod gets PodScheduled=True
			for k, pd := range g.Pods {
				if pd.Phase == "Pending" && !isSchedTrue(pd) {
					pods := append([]podIn{}, g.Pods...)
					pods[k].Conds = [][2]string{{"PodScheduled", "True"}}
					tag := "allocated+allocatedNonPreemptible:pending-pod-scheduled"
					if st.preemptible(i) {
						tag = "only-allocated:pending-pod-scheduled"
					}
					return wStepPlan{[]wChange{chSetPods(st, i, pods, pd.Name+" PodScheduled=True")}, tag}
				}
			}
			continue
		case 9: // ChildQueues only: an empty queue appears / disappears / moves
			switch r.Intn(3) {
			case 0:
				if len(st.Queues) >= 8 {
					continue
				}
				name := ""
				for k := 1; k <= 9; k++ {
					if n := fmt.Sprintf("q%02d", k); st.queueIndex(n) < 0 {
						name = n
						break
					}
				}
				parent := st.Queues[r.Intn(len(st.Queues))].Name
				c := st.clone()
				c.Queues = append(c.Queues, wQueue{Name: name, Parent: parent})
				if _, h, ok := levels(c.forest()); !ok || h > 5 {
					continue
				}
				return wStepPlan{[]wChange{chAddQueue(name, parent)}, "only-childQueues:empty-queue-created"}
			case 1:
				for _, q := range st.Queues {
					leaf := true
					for _, o := range st.Queues {
						if o.Parent == q.Name {
							leaf = false
						}
					}
					if leaf && q.Parent != "" && subtreeEmpty(st, q.Name) && len(st.Queues) > 1 {
						return wStepPlan{[]wChange{chDelQueue(st, q.Name)}, "only-childQueues:empty-queue-deleted"}
					}
				}
				continue
			default:
				q := st.Queues[r.Intn(len(st.Queues))]
				parent := u.Pick(r, append([]string{""}, func() []string {
					ns := []string{}
					for _, o := range st.Queues {
						ns = append(ns, o.Name)
					}
					return ns
				}()...))
				if parent == q.Parent || parent == q.Name || !subtreeEmpty(st, q.Name) || !reparentOK(st, q.Name, parent) {
					continue
				}
				ch := chSetParent(st, q.Name, parent)
				return wStepPlan{[]wChange{ch, {what: "(old parent chain)", touch: -1, queue: q.Parent}}, "only-childQueues:empty-queue-reparented"}
			}
		case 10: // pod phase change
			if len(g.Pods) == 0 {
				continue
			}
			k := r.Intn(len(g.Pods))
			pods := append([]podIn{}, g.Pods...)
			pods[k].Phase = u.Pick(r, []string{"Pending", "Running", "Succeeded", "Failed"})
			if pods[k].Phase == g.Pods[k].Phase {
				continue
			}
			if pods[k].Phase == "Running" && pods[k].Node == "" {
				pods[k].Node = "node-a"
			}
			if _, re, _, ae := given(pods[k]); re || ae {
				continue
			}
			return wStepPlan{[]wChange{chSetPods(st, i, pods, fmt.Sprintf("%s phase=%s", pods[k].Name, pods[k].Phase))}, "pod-phase"}
		case 11: // pod added / deleted / all deleted
			pods := append([]podIn{}, g.Pods...)
			what := ""
			switch {
			case len(pods) > 0 && r.Chance(1, 3):
				pods, what = nil, "all pods deleted"
			case len(pods) > 0 && r.Bool():
				k := r.Intn(len(pods))
				what = "delete " + pods[k].Name
				pods = append(pods[:k:k], pods[k+1:]...)
			default:
				np := genWorldPod(r, fmt.Sprintf("%s-p%d", g.Name, *next))
				*next++
				pods, what = append(pods, np), "add "+np.Name+":"+np.Phase
			}
			return wStepPlan{[]wChange{chSetPods(st, i, pods, what)}, "pods-added-or-deleted"}
		case 12: // the pod group moves to another queue (or to none)
			to := u.Pick(r, st.Queues).Name
			if r.Chance(1, 8) {
				to = ""
			}
			if to == g.Queue {
				continue
			}
			ch := chSetGroupQueue(st, i, to)
			return wStepPlan{[]wChange{ch, {what: "(new queue chain)", touch: -1, queue: to}}, "podgroup-moves-queue"}
		case 13: // a queue with content is re-parented
			q := st.Queues[r.Intn(len(st.Queues))]
			parent := ""
			if r.Bool() {
				parent = u.Pick(r, st.Queues).Name
			}
			if parent == q.Parent || parent == q.Name || !reparentOK(st, q.Name, parent) {
				continue
			}
			ch := chSetParent(st, q.Name, parent)
			return wStepPlan{[]wChange{ch, {what: "(old parent chain)", touch: -1, queue: q.Parent}}, "queue-reparented"}
		case 14: // same-size swap: one group flips to preemptible, another to non-preemptible
			if ng < 2 {
				continue
			}
			j := (i + 1 + r.Intn(ng-1)) % ng
			if !hasAllocated(g) || !hasAllocated(st.Groups[j]) || st.preemptible(i) == st.preemptible(j) {
				continue
			}
			a, b := np, p
			if !st.preemptible(i) {
				a, b = p, np
			}
			return wStepPlan{[]wChange{chSetSpec(st, i, a), chSetSpec(st, j, b)}, "two-opposite-flips"}
		default:
			return wStepPlan{nil, "no-change"}
		}
	}
	return wStepPlan{nil, "no-change"}
}

func isSchedTrue(p podIn) bool {
	for _, c := range p.Conds {
		if c[0] == "PodScheduled" {
			return c[1] == "True"
		}
	}
	return false
}
