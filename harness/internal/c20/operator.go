package c20

import (
	"context"
	"fmt"
	"reflect"
	"sort"
	"strings"

	nvidiav1 "github.com/NVIDIA/gpu-operator/api/nvidia/v1"
	monitoringv1 "github.com/prometheus-operator/prometheus-operator/pkg/apis/monitoring/v1"
	v1 "k8s.io/api/core/v1"
	apiextensionsv1 "k8s.io/apiextensions-apiserver/pkg/apis/apiextensions/v1"
	metav1 "k8s.io/apimachinery/pkg/apis/meta/v1"
	"k8s.io/apimachinery/pkg/runtime"
	"k8s.io/utils/ptr"
	"sigs.k8s.io/controller-runtime/pkg/client"
	"sigs.k8s.io/controller-runtime/pkg/client/fake"
	"sigs.k8s.io/controller-runtime/pkg/client/interceptor"

	kaiv1 "github.com/NVIDIA/KAI-scheduler/pkg/apis/kai/v1"
	"github.com/NVIDIA/KAI-scheduler/pkg/operator/controller"
	"github.com/NVIDIA/KAI-scheduler/pkg/operator/operands"
	"github.com/NVIDIA/KAI-scheduler/pkg/operator/operands/deployable"
	"github.com/NVIDIA/KAI-scheduler/pkg/operator/operands/known_types"

	u "kaiverif/internal/util"
)

func operatorScheme() *runtime.Scheme {
	s := newOperatorScheme()
	_ = apiextensionsv1.AddToScheme(s)
	_ = monitoringv1.AddToScheme(s)
	_ = nvidiav1.AddToScheme(s)
	return s
}

func newKaiConfig() *kaiv1.Config {
	return &kaiv1.Config{
		TypeMeta:   metav1.TypeMeta{Kind: "Config", APIVersion: kaiv1.GroupVersion.String()},
		ObjectMeta: metav1.ObjectMeta{Name: "kai-config", UID: "uid-kai-config"},
	}
}

type callRec struct{ Verb, Kind, Key string }

func (c callRec) String() string { return c.Verb + " " + c.Kind + "/" + c.Key }

// opWorld is a fake API store behind a client that behaves like the
// cache-backed client of the operator's manager (TypeMeta present on reads)
// and records every mutating call.
type opWorld struct {
	scheme *runtime.Scheme
	cl     client.Client
	calls  []callRec
	after  func(verb string, obj client.Object) // hook after a successful create/update
}

func objKey(obj client.Object) string {
	if obj.GetNamespace() == "" {
		return obj.GetName()
	}
	return obj.GetNamespace() + "/" + obj.GetName()
}

func kindOf(scheme *runtime.Scheme, obj client.Object) string {
	o := obj.DeepCopyObject()
	if err := setGVK(scheme, o); err != nil {
		return "?"
	}
	return o.GetObjectKind().GroupVersionKind().Kind
}

func newOpWorld(scheme *runtime.Scheme, objs ...client.Object) *opWorld {
	w := &opWorld{scheme: scheme}
	b := fake.NewClientBuilder().WithScheme(scheme).WithObjects(objs...).
		WithInterceptorFuncs(interceptor.Funcs{
			Get: func(ctx context.Context, c client.WithWatch, key client.ObjectKey, obj client.Object, opts ...client.GetOption) error {
				if err := c.Get(ctx, key, obj, opts...); err != nil {
					return err
				}
				return setGVK(scheme, obj)
			},
			List: func(ctx context.Context, c client.WithWatch, list client.ObjectList, opts ...client.ListOption) error {
				if err := c.List(ctx, list, opts...); err != nil {
					return err
				}
				return setListGVK(scheme, list)
			},
			Create: func(ctx context.Context, c client.WithWatch, obj client.Object, opts ...client.CreateOption) error {
				w.calls = append(w.calls, callRec{"create", kindOf(scheme, obj), objKey(obj)})
				err := c.Create(ctx, obj, opts...)
				if err == nil && w.after != nil {
					w.after("create", obj)
				}
				return err
			},
			Update: func(ctx context.Context, c client.WithWatch, obj client.Object, opts ...client.UpdateOption) error {
				w.calls = append(w.calls, callRec{"update", kindOf(scheme, obj), objKey(obj)})
				err := c.Update(ctx, obj, opts...)
				if err == nil && w.after != nil {
					w.after("update", obj)
				}
				return err
			},
			Patch: func(ctx context.Context, c client.WithWatch, obj client.Object, patch client.Patch, opts ...client.PatchOption) error {
				w.calls = append(w.calls, callRec{"patch", kindOf(scheme, obj), objKey(obj)})
				return c.Patch(ctx, obj, patch, opts...)
			},
			Delete: func(ctx context.Context, c client.WithWatch, obj client.Object, opts ...client.DeleteOption) error {
				w.calls = append(w.calls, callRec{"delete", kindOf(scheme, obj), objKey(obj)})
				return c.Delete(ctx, obj, opts...)
			},
		})
	for _, col := range known_types.KAIConfigRegisteredCollectible {
		if col.InitWithFakeClientBuilder != nil {
			col.InitWithFakeClientBuilder(b)
		}
	}
	w.cl = b.Build()
	return w
}

func (w *opWorld) take() []callRec {
	c := w.calls
	w.calls = nil
	sort.Slice(c, func(i, j int) bool { return c[i].String() < c[j].String() })
	return c
}

func callStrings(cs []callRec) []string {
	out := make([]string, len(cs))
	for i, c := range cs {
		out[i] = c.String()
	}
	return out
}

// ---- real operands -------------------------------------------------------------

type opResult struct {
	term, label string
	calls       [][]string
	quiet2      bool
	sample      map[string]any
}

type kaiVariant struct {
	name  string
	apply func(c *kaiv1.Config)
}

var kaiVariants = []kaiVariant{
	{"default", func(c *kaiv1.Config) {}},
	{"namespace=kai-alt", func(c *kaiv1.Config) { c.Spec.Namespace = "kai-alt" }},
	{"imagePullSecrets=[reg-a]", func(c *kaiv1.Config) {
		c.Spec.Global = &kaiv1.GlobalConfig{ImagePullSecrets: []string{"reg-a"}}
	}},
	// several pull secrets: the reservation ServiceAccount collects them in a map, the rendered order must not depend on it
	{"imagePullSecrets=[reg-c,reg-a,reg-d,reg-b]", func(c *kaiv1.Config) {
		c.Spec.Global = &kaiv1.GlobalConfig{ImagePullSecrets: []string{"reg-c", "reg-a", "reg-d", "reg-b"}}
	}},
	{"nodeSelector+replicas=2", func(c *kaiv1.Config) {
		c.Spec.Global = &kaiv1.GlobalConfig{NodeSelector: map[string]string{"pool": "system"}, ReplicaCount: ptr.To(int32(2))}
	}},
	{"tolerations", func(c *kaiv1.Config) {
		c.Spec.Global = &kaiv1.GlobalConfig{Tolerations: []v1.Toleration{{Key: "dedicated", Operator: v1.TolerationOpExists}}}
	}},
}

// callTerm maps a recorded call on a keyed object to the model's call type.
func callTerm(c callRec, keyID func(string) int) string {
	k := u.Pos(keyID(c.Kind + "/" + c.Key))
	switch c.Verb {
	case "create":
		return "(CCreate " + k + ")"
	case "delete":
		return "(CDelete " + k + ")"
	}
	return "(CUpdate " + k + ")"
}

// runRealOperands deploys the given real operands three times with variant a,
// and, when b is not nil, then three more times with variant b (configuration
// change); the recorded case is the last run of three.
func runRealOperands(scheme *runtime.Scheme, ops []operands.Operand, a kaiVariant, b *kaiVariant) (opResult, error) {
	res := opResult{}
	ctx := context.Background()
	cfg := newKaiConfig()
	a.apply(cfg)
	cfg.Spec.SetDefaultsWhereNeeded()
	w := newOpWorld(scheme, cfg.DeepCopy())
	d := deployable.New(ops, known_types.KAIConfigRegisteredCollectible)
	names := []string{}
	for _, op := range ops {
		names = append(names, op.Name())
	}
	deploy3 := func(cfg *kaiv1.Config) ([][]callRec, error) {
		out := [][]callRec{}
		for i := 0; i < 3; i++ {
			if err := d.Deploy(ctx, w.cl, cfg, cfg); err != nil {
				return nil, err
			}
			out = append(out, w.take())
		}
		return out, nil
	}
	runs, err := deploy3(cfg)
	if err != nil {
		return res, err
	}
	variant := a.name
	if b != nil {
		cfg2 := newKaiConfig()
		b.apply(cfg2)
		cfg2.Spec.SetDefaultsWhereNeeded()
		if runs, err = deploy3(cfg2); err != nil {
			return res, err
		}
		variant = a.name + " -> " + b.name
	}
	keys := map[string]int{}
	keyID := func(s string) int {
		if _, ok := keys[s]; !ok {
			keys[s] = len(keys) + 1
		}
		return keys[s]
	}
	callLists := []string{}
	for _, cs := range runs {
		ts := make([]string, len(cs))
		for i, c := range cs {
			ts[i] = callTerm(c, keyID)
		}
		callLists = append(callLists, u.List(ts))
		res.calls = append(res.calls, callStrings(cs))
	}
	res.quiet2 = len(runs[1]) == 0 && len(runs[2]) == 0
	res.term = fmt.Sprintf("(CaseOp {| ok_real := true; ok_render := []; ok_written := []; ok_owned := []; ok_store0 := []; ok_calls := %s; ok_final := [] |})", u.List(callLists))
	res.label = fmt.Sprintf("operator real operands=[%s] config=%s second-deploy-calls=%v", strings.Join(names, ","), variant, res.calls[1])
	res.sample = map[string]any{"kind": "operator deploy x3 (real operands)", "operands": names, "config": variant, "calls": res.calls}
	return res, nil
}

func realOperandSets() [][]operands.Operand {
	sets := [][]operands.Operand{}
	for _, op := range controller.ConfigReconcilerOperands {
		sets = append(sets, []operands.Operand{op})
	}
	sets = append(sets, controller.ConfigReconcilerOperands)
	return sets
}

// ---- synthetic, table-driven operand -------------------------------------------

// One rendered object: a ConfigMap or a ServiceAccount in namespace "kai".
type synthObj struct {
	Kind    string `json:"kind"` // "ConfigMap" | "ServiceAccount"
	Name    string `json:"name"`
	Variant int    `json:"variant"` // 0: nil collections, 1: empty non-nil collections, 2/3: populated
	Overlay bool   `json:"overlay"` // render on top of the stored object (as ObjectForKAIConfig) or from scratch
}

type synthOperand struct {
	objs []synthObj
	w    *opWorld
	in   *interner
	// evaluations of the renderers seen in this run: key -> (base id or -1, rendered id)
	renders map[string][][2]int64
	ptrID   map[client.Object]int64
}

func (s *synthOperand) Name() string                                                { return "synthetic" }
func (s *synthOperand) IsDeployed(context.Context, client.Reader) (bool, error)     { return true, nil }
func (s *synthOperand) IsAvailable(context.Context, client.Reader) (bool, error)    { return true, nil }
func (s *synthOperand) Monitor(context.Context, client.Reader, *kaiv1.Config) error { return nil }
func (s *synthOperand) HasMissingDependencies(context.Context, client.Reader, *kaiv1.Config) (string, error) {
	return "", nil
}

func synthKey(o synthObj) string { return o.Kind + "/kai/" + o.Name }

func (s *synthOperand) DesiredState(ctx context.Context, reader client.Reader, _ *kaiv1.Config) ([]client.Object, error) {
	out := []client.Object{}
	for _, so := range s.objs {
		var obj client.Object
		if so.Kind == "ConfigMap" {
			obj = &v1.ConfigMap{}
		} else {
			obj = &v1.ServiceAccount{}
		}
		base := int64(-1)
		err := reader.Get(ctx, client.ObjectKey{Namespace: "kai", Name: so.Name}, obj)
		if err == nil {
			base = s.in.id(obj)
		} else if client.IgnoreNotFound(err) != nil {
			return nil, err
		}
		if !so.Overlay || err != nil {
			if so.Kind == "ConfigMap" {
				obj = &v1.ConfigMap{}
			} else {
				obj = &v1.ServiceAccount{}
			}
		}
		obj.SetName(so.Name)
		obj.SetNamespace("kai")
		switch o := obj.(type) {
		case *v1.ConfigMap:
			o.TypeMeta = metav1.TypeMeta{Kind: "ConfigMap", APIVersion: "v1"}
			switch so.Variant {
			case 0:
				o.Data = nil
			case 1:
				o.Data = map[string]string{}
			case 2:
				o.Data = map[string]string{"k": "v1"}
			default:
				o.Data = map[string]string{"k": "v2", "l": "w"}
			}
		case *v1.ServiceAccount:
			o.TypeMeta = metav1.TypeMeta{Kind: "ServiceAccount", APIVersion: "v1"}
			switch so.Variant {
			case 0:
				o.ImagePullSecrets = nil
			case 1:
				o.ImagePullSecrets = make([]v1.LocalObjectReference, 0)
			case 2:
				o.ImagePullSecrets = []v1.LocalObjectReference{{Name: "reg-a"}}
			default:
				o.ImagePullSecrets = []v1.LocalObjectReference{{Name: "reg-a"}, {Name: "reg-b"}}
			}
		}
		rid := s.in.id(obj)
		s.renders[synthKey(so)] = append(s.renders[synthKey(so)], [2]int64{base, rid})
		s.ptrID[obj] = rid
		out = append(out, obj)
	}
	return out, nil
}

// interner numbers objects up to reflect.DeepEqual.
type interner struct {
	seen  []client.Object
	owned map[int64]bool
	owner *kaiv1.Config
}

func (in *interner) id(obj client.Object) int64 {
	for i, o := range in.seen {
		if reflect.TypeOf(o) == reflect.TypeOf(obj) && reflect.DeepEqual(o, obj) {
			return int64(i + 1)
		}
	}
	in.seen = append(in.seen, obj.DeepCopyObject().(client.Object))
	id := int64(len(in.seen))
	if ref := metav1.GetControllerOf(obj); ref != nil && ref.APIVersion == kaiv1.GroupVersion.String() &&
		ref.Kind == "Config" && ref.Name == in.owner.Name {
		in.owned[id] = true
	}
	return id
}

func genSynth(r *u.Rng) []synthObj {
	pool := []synthObj{{Kind: "ConfigMap", Name: "cm-a"}, {Kind: "ConfigMap", Name: "cm-b"}, {Kind: "ConfigMap", Name: "cm-c"},
		{Kind: "ServiceAccount", Name: "sa-a"}, {Kind: "ServiceAccount", Name: "sa-b"}}
	out := []synthObj{}
	for _, o := range pool {
		if r.Chance(2, 3) {
			o.Variant = u.Pick(r, []int{0, 0, 2, 2, 3, 1})
			o.Overlay = !r.Chance(1, 8)
			out = append(out, o)
		}
	}
	return out
}

func (w *opWorld) storeSnapshot(in *interner) map[string]int64 {
	ctx := context.Background()
	out := map[string]int64{}
	cms := &v1.ConfigMapList{}
	_ = w.cl.List(ctx, cms)
	for i := range cms.Items {
		out["ConfigMap/"+objKey(&cms.Items[i])] = in.id(&cms.Items[i])
	}
	sas := &v1.ServiceAccountList{}
	_ = w.cl.List(ctx, sas)
	for i := range sas.Items {
		out["ServiceAccount/"+objKey(&sas.Items[i])] = in.id(&sas.Items[i])
	}
	return out
}

// runSynthetic: an optional earlier deployment (prev) and foreign objects
// prepare the store; then [cur] is deployed three times and recorded.
func runSynthetic(scheme *runtime.Scheme, prev, cur []synthObj, foreign []synthObj, origin string) (opResult, error) {
	res := opResult{}
	ctx := context.Background()
	cfg := newKaiConfig()
	cfg.Spec.SetDefaultsWhereNeeded()
	seed := []client.Object{cfg.DeepCopy()}
	for _, f := range foreign { // objects nobody owns, possibly at a desired key
		if f.Kind == "ConfigMap" {
			seed = append(seed, &v1.ConfigMap{ObjectMeta: metav1.ObjectMeta{Name: f.Name, Namespace: "kai"}, Data: map[string]string{"foreign": "1"}})
		} else {
			seed = append(seed, &v1.ServiceAccount{ObjectMeta: metav1.ObjectMeta{Name: f.Name, Namespace: "kai"}})
		}
	}
	w := newOpWorld(scheme, seed...)
	in := &interner{owned: map[int64]bool{}, owner: cfg}
	if len(prev) > 0 {
		p := &synthOperand{objs: prev, w: w, in: in, renders: map[string][][2]int64{}, ptrID: map[client.Object]int64{}}
		dp := deployable.New([]operands.Operand{p}, known_types.KAIConfigRegisteredCollectible)
		for i := 0; i < 2; i++ {
			if err := dp.Deploy(ctx, w.cl, cfg, cfg); err != nil {
				return res, err
			}
		}
		w.take()
	}
	op := &synthOperand{objs: cur, w: w, in: in, renders: map[string][][2]int64{}, ptrID: map[client.Object]int64{}}
	written := [][2]int64{}
	w.after = func(verb string, obj client.Object) {
		rid, ok := op.ptrID[obj]
		if !ok {
			return
		}
		back := obj.DeepCopyObject().(client.Object)
		if err := w.cl.Get(ctx, client.ObjectKeyFromObject(obj), back); err == nil {
			written = append(written, [2]int64{rid, in.id(back)})
		}
	}
	store0 := w.storeSnapshot(in)
	d := deployable.New([]operands.Operand{op}, known_types.KAIConfigRegisteredCollectible)
	runs := [][]callRec{}
	for i := 0; i < 3; i++ {
		if err := d.Deploy(ctx, w.cl, cfg, cfg); err != nil {
			return res, err
		}
		runs = append(runs, w.take())
	}
	final := w.storeSnapshot(in) // also interns (and classifies as owned or not) what is stored at the end

	// keys: every key in the initial store or rendered, numbered in name order
	keyset := map[string]bool{}
	for k := range store0 {
		keyset[k] = true
	}
	for k := range final {
		keyset[k] = true
	}
	for _, so := range cur {
		keyset[synthKey(so)] = true
	}
	keyIDs := map[string]int{}
	for i, k := range sortedKeys(keyset) {
		keyIDs[k] = i + 1
	}
	keyID := func(s string) int {
		if _, ok := keyIDs[s]; !ok {
			keyIDs[s] = len(keyIDs) + 1
		}
		return keyIDs[s]
	}
	renderTerms := []string{}
	for _, so := range cur {
		k := synthKey(so)
		rows := []string{}
		seen := map[[2]int64]bool{}
		for _, e := range op.renders[k] {
			if seen[e] {
				continue
			}
			seen[e] = true
			rows = append(rows, u.Pair(u.Opt(e[0] >= 0, u.Z(e[0])), u.Z(e[1])))
		}
		renderTerms = append(renderTerms, u.Pair(u.Pos(keyID(k)), u.List(rows)))
	}
	wr := []string{}
	seenW := map[[2]int64]bool{}
	for _, e := range written {
		if !seenW[e] {
			seenW[e] = true
			wr = append(wr, u.Pair(u.Z(e[0]), u.Z(e[1])))
		}
	}
	owned := []string{}
	for id := int64(1); id <= int64(len(in.seen)); id++ {
		if in.owned[id] {
			owned = append(owned, u.Z(id))
		}
	}
	st := []string{}
	for _, k := range sortedKeys(store0) {
		st = append(st, u.Pair(u.Pos(keyID(k)), u.Z(store0[k])))
	}
	fin := []string{}
	for _, k := range sortedKeys(final) {
		fin = append(fin, u.Pair(u.Pos(keyID(k)), u.Z(final[k])))
	}
	callLists := []string{}
	for _, cs := range runs {
		ts := make([]string, len(cs))
		for i, c := range cs {
			ts[i] = callTerm(c, keyID)
		}
		callLists = append(callLists, u.List(ts))
		res.calls = append(res.calls, callStrings(cs))
	}
	res.quiet2 = len(runs[1]) == 0
	res.term = fmt.Sprintf("(CaseOp {| ok_real := false; ok_render := %s; ok_written := %s; ok_owned := %s; ok_store0 := %s; ok_calls := %s; ok_final := %s |})",
		u.List(renderTerms), u.List(wr), u.List(owned), u.List(st), u.List(callLists), u.List(fin))
	res.label = fmt.Sprintf("operator synthetic %s desired=%v previous=%v foreign=%v calls=%v", origin, cur, prev, foreign, res.calls)
	res.sample = map[string]any{"kind": "operator deploy x3 (synthetic operand)", "desired": cur, "previously_deployed": prev,
		"foreign_objects": foreign, "calls": res.calls}
	return res, nil
}
