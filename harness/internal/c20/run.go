package c20

import (
	"fmt"

	"github.com/go-logr/logr"
	ctrl "sigs.k8s.io/controller-runtime"

	"github.com/NVIDIA/KAI-scheduler/pkg/apis/scheduling/v2alpha2"

	u "kaiverif/internal/util"
)

// Run generates n cases (pod-group histories, queue forests, operator deploys)
// from seed and writes them under dir.
func Run(dir string, seed uint64, n int) error {
	ctrl.SetLogger(logr.Discard())
	out := u.NewOut(dir, "C20", "KaiV.Run.C20", "case", 50)
	root := u.NewRng(seed)
	scheme := newScheme()
	opScheme := operatorScheme()
	qd, err := newQueueDriver(scheme)
	if err != nil {
		return fmt.Errorf("queue reconciler setup: %w", err)
	}

	// at most one sample per kind and origin (util keeps the first six)
	sampled := map[string]bool{}
	sample := func(key string, v any) {
		if !sampled[key] {
			sampled[key] = true
			out.Sample(v)
		}
	}
	addPG := func(res pgResult, origin string) {
		out.Add(res.term, res.label)
		out.Count("kind:podgroup-history")
		out.Count("origin:" + origin)
		out.CountN("pg:reconcile-pairs", res.steps)
		out.CountN("pg:flips-nonpreemptible->preemptible", res.flipsToP)
		out.CountN("pg:reconcile-errors", res.errors)
		out.CountN("pg:reconcile-panics", res.panics)
		out.CountN("pg:second-reconcile-mutating-calls", res.calls2)
		out.CountN("pg:second-reconcile-writes", res.writes2)
		out.CountN("pg:pods", res.podCount)
		if res.podCount > 0 && res.steps >= 2 {
			out.NonTrivial(res.label)
		}
		if origin != "malformed" {
			sample("pg", res.sample)
		}
	}
	// C20 quantifies over queue trees: a forest with a parent cycle (a queue that
	// is its own ancestor) is outside the property and may only come from the
	// stream labelled "malformed" (compared with the model, never alarmed on).
	var scopeErr error
	addQ := func(res qResult, origin string) {
		if !res.wf && origin != "malformed" && scopeErr == nil {
			scopeErr = fmt.Errorf("generator bug: cyclic queue forest emitted under origin %q: %s", origin, res.label)
		}
		out.Add(res.term, res.label)
		out.Count("kind:queue-forest")
		out.Count("origin:" + origin)
		out.Count(fmt.Sprintf("queue:order=%s", res.order))
		out.Count(fmt.Sprintf("queue:height=%d", res.height))
		out.Count(fmt.Sprintf("queue:wellformed=%v", res.wf))
		out.Count(fmt.Sprintf("queue:passes-minus-height=%d", res.passes-res.height))
		out.CountN("queue:reconciles", res.events)
		out.CountN("queue:check-pass-writes", res.checkWrites)
		out.CountN("queue:check-pass-mutating-calls", res.checkCalls)
		if res.height >= 2 {
			out.NonTrivial(res.label)
		}
		sample("queue", res.sample)
	}
	addW := func(res wResult, origin string) {
		if !res.wf && scopeErr == nil {
			scopeErr = fmt.Errorf("generator bug: world history with a cyclic queue forest: %s", res.label)
		}
		out.Add(res.term, res.label)
		out.Count("kind:world-history")
		out.Count("origin:" + origin)
		out.Count(fmt.Sprintf("world:height=%d", res.height))
		out.Count(fmt.Sprintf("world:max-full-passes-until-quiet=%d", res.maxFull))
		for _, t := range res.tags {
			out.Count("world:step " + t)
		}
		out.CountN("world:steps", res.steps)
		out.CountN("world:reconciles", res.events)
		out.CountN("world:full-passes", res.fullPasses)
		out.CountN("world:steps-not-settled-within-height+3-full-passes", res.unsettled)
		out.CountN("world:podgroup-reconcile-errors", res.errors)
		out.CountN("world:mutating-calls-that-changed-nothing", res.emptyPatches)
		if res.steps >= 2 {
			out.NonTrivial(res.label)
		}
		sample("world", res.sample)
	}
	addOp := func(res opResult, origin string) {
		out.Add(res.term, res.label)
		out.Count("kind:operator-deploy")
		out.Count("origin:" + origin)
		out.Count(fmt.Sprintf("operator:%s second-deploy-silent=%v", origin, res.quiet2))
		out.NonTrivial(res.label)
		sample("op-"+origin, res.sample)
	}

	// ---- fixed corpus -----------------------------------------------------------
	running := func(name string, gpu int64) podIn {
		return podIn{Name: name, Phase: "Running", CPU: 500, GPU: gpu, Node: "node-a"}
	}
	np, p := string(v2alpha2.NonPreemptible), string(v2alpha2.Preemptible)
	type corpusPG struct {
		name string
		init rstatus
		st   pgState
		plan []func(*pgState) string
	}
	setSpec := func(v, what string) func(*pgState) string {
		return func(s *pgState) string { s.Spec = v; return what }
	}
	corpus := []corpusPG{
		{"corpus flip-by-spec", rstatus{}, pgState{Spec: np, Class: "train", Classes: allClasses, Pods: []podIn{running("p0", 1), running("p1", 1)}},
			[]func(*pgState) string{setSpec(p, "spec.preemptibility=preemptible (flip nonpreemptible->preemptible)"),
				setSpec(np, "spec.preemptibility=non-preemptible (flip preemptible->nonpreemptible)")}},
		{"corpus flip-by-priority-class", rstatus{}, pgState{Spec: "", Class: "inference", Classes: allClasses, Pods: []podIn{running("p0", 2)}},
			[]func(*pgState) string{func(s *pgState) string {
				s.Class = "train"
				return "priorityClassName=train (flip nonpreemptible->preemptible)"
			}}},
		{"corpus stays-nonpreemptible pods-finish", rstatus{}, pgState{Spec: np, Class: "train", Classes: allClasses, Pods: []podIn{running("p0", 1), running("p1", 1)}},
			[]func(*pgState) string{func(s *pgState) string { s.Pods[0].Phase = "Succeeded"; return "p0 phase=Succeeded" },
				func(s *pgState) string { s.Pods = s.Pods[:1]; return "delete p1" }}},
		{"corpus pending-scheduled", rstatus{}, pgState{Spec: p, Class: "train", Classes: allClasses, Pods: []podIn{
			{Name: "p0", Phase: "Pending", CPU: 1000, Conds: [][2]string{{"PodScheduled", "True"}}},
			{Name: "p1", Phase: "Pending", CPU: 1000, Conds: [][2]string{{"PodScheduled", "False"}}},
			{Name: "p2", Phase: "Pending", CPU: 1000},
			{Name: "p3", Phase: "Pending", CPU: 1000, Conds: [][2]string{{"Ready", "True"}, {"PodScheduled", "Unknown"}, {"PodScheduled", "True"}}}}},
			[]func(*pgState) string{func(s *pgState) string {
				s.Pods[2].Conds = [][2]string{{"PodScheduled", "True"}}
				return "p2 scheduled=True"
			}}},
		{"corpus fractions-and-dra", rstatus{}, pgState{Spec: np, Class: "build", Classes: allClasses, Pods: []podIn{
			{Name: "p0", Phase: "Running", Fraction: "0.5", Received: "Fraction", Node: "node-a"},
			{Name: "p1", Phase: "Running", Fraction: "0.25", NumDev: "2", Received: "Fraction", Node: "node-a"},
			{Name: "p2", Phase: "Running", GpuMem: "2500", Received: "Fraction", Node: "node-a"},
			{Name: "p3", Phase: "Pending", DRA: 2, CPU: 250},
			{Name: "p4", Phase: "Running", DRA: 1, MemMi: 512, Node: "node-a"}}},
			[]func(*pgState) string{func(s *pgState) string { return "no change" }}},
		{"corpus garbage-initial-status", rstatus{vec{7000}, nil, vec{0, 0, 9000}},
			pgState{Spec: np, Class: "train", Classes: allClasses, Pods: []podIn{running("p0", 1)}},
			[]func(*pgState) string{func(s *pgState) string { return "no change" }}},
		{"corpus stale-status-on-preemptible", rstatus{vec{500}, vec{500, 0, 1000}, vec{500}},
			pgState{Spec: p, Class: "train", Classes: allClasses, Pods: []podIn{running("p0", 1)}},
			[]func(*pgState) string{func(s *pgState) string { return "no change" }}},
	}
	for _, c := range corpus {
		plan := c.plan
		res, err := runPGHistory(scheme, c.init, c.st, func(st *pgState, step int) string { return plan[step-1](st) }, len(plan)+1, c.name)
		if err != nil {
			return err
		}
		addPG(res, "corpus")
	}
	// the witness forest of Properties/C20.v in the three orders, with exactly `height` passes
	exForest := forest{Queues: []queueIn{{Name: "q01"}, {Name: "q02", Parent: "q01"}, {Name: "q03", Parent: "q01"},
		{Name: "q04", Parent: "q02"}, {Name: "q05", Parent: "q02"}},
		PGs: []pgIn{{Name: "a", Queue: "q04", Status: rstatus{vec{1000}, vec{1000}, vec{1000}}},
			{Name: "b", Queue: "q05", Status: rstatus{vec{500}, vec{500}, vec{500}}},
			{Name: "c", Queue: "q03", Status: rstatus{vec{250}, nil, vec{250}}},
			{Name: "d", Queue: "q04", Status: rstatus{vec{2000}, nil, vec{2000, 0, 1000}}}}}
	for i, order := range []string{"parent-first", "child-first", "random"} {
		addQ(qd.runForest(root.Fork(uint64(1000000+i)), exForest, order, 0, "corpus"), "corpus")
	}
	addQ(qd.runForest(root.Fork(1000010), exForest, "parent-first", -1, "corpus"), "corpus")
	// malformed stream, fixed part: a queue that is its own parent (not a tree; its
	// status grows on every reconcile, C20_idempotent_queue_needs_acyclic)
	selfParent := forest{Queues: []queueIn{{Name: "q01", Parent: "q01"}}, PGs: []pgIn{{Name: "a", Queue: "q01", Status: rstatus{vec{1000}, nil, vec{1000}}}}}
	addQ(qd.runForest(root.Fork(1000011), selfParent, "random", 0, "malformed corpus self-parent"), "malformed")

	// world histories (both controllers on one store), fixed part: preemptibility flips of a pod group whose
	// pods keep running, with NO other change, by spec edit, by priority class name and by the class's value,
	// in both directions; changes of exactly one aggregate; each followed by reconciles of the pod group, its
	// queue and all ancestors bottom-up / top-down / in random order
	runningBig := func(name string) podIn {
		return podIn{Name: name, Phase: "Running", CPU: 2000, GPU: 1, Node: "node-a"}
	}
	type wplan []func(st *wState) wStepPlan
	tagged := func(tag string, f func(st *wState) wChange) func(st *wState) wStepPlan {
		return func(st *wState) wStepPlan {
			ch := f(st)
			ch.what += " (" + tag + ")"
			return wStepPlan{[]wChange{ch}, tag}
		}
	}
	deptTeam := func(spec, class string) wState {
		return wState{Classes: append([]classIn{}, allClasses...),
			Queues: []wQueue{{Name: "q01"}, {Name: "q02", Parent: "q01"}},
			Groups: []wGroup{{Name: "train", Queue: "q02", Spec: spec, Class: class, Pods: []podIn{runningBig("train-p0")}}}}
	}
	worldCorpus := []struct {
		name string
		st   wState
		plan wplan
	}{
		{"corpus flip-by-spec dept->team", deptTeam(np, "train"), wplan{
			tagged("only-allocatedNonPreemptible:flip-by-spec nonpreemptible->preemptible", func(st *wState) wChange { return chSetSpec(st, 0, p) }),
			tagged("pods-added-or-deleted", func(st *wState) wChange {
				return chSetPods(st, 0, []podIn{runningBig("train-p0"), runningBig("train-p1")}, "second pod started")
			}),
			tagged("only-allocatedNonPreemptible:flip-by-spec preemptible->nonpreemptible", func(st *wState) wChange { return chSetSpec(st, 0, np) })}},
		{"corpus flip-by-class-name dept->team", deptTeam("", "inference"), wplan{
			tagged("only-allocatedNonPreemptible:flip-by-class-name nonpreemptible->preemptible", func(st *wState) wChange { return chSetClass(st, 0, "train") }),
			tagged("only-allocatedNonPreemptible:flip-by-class-name preemptible->nonpreemptible", func(st *wState) wChange { return chSetClass(st, 0, "build") })}},
		{"corpus flip-by-class-value dept->team", deptTeam("", "build"), wplan{
			tagged("only-allocatedNonPreemptible:flip-by-class-value nonpreemptible->preemptible", func(st *wState) wChange { return chClassValue(st, "build", 99, 0) }),
			tagged("only-allocatedNonPreemptible:flip-by-class-value preemptible->nonpreemptible", func(st *wState) wChange { return chClassValue(st, "build", 100, 0) })}},
		{"corpus one-aggregate-at-a-time", wState{Classes: append([]classIn{}, allClasses...),
			Queues: []wQueue{{Name: "q01"}, {Name: "q02", Parent: "q01"}, {Name: "q03", Parent: "q02"}, {Name: "q04", Parent: "q01"}},
			Groups: []wGroup{{Name: "a", Queue: "q03", Spec: p, Class: "train", Pods: []podIn{runningBig("a-p0"), {Name: "a-p1", Phase: "Pending", CPU: 500}}},
				{Name: "b", Queue: "q04", Spec: np, Class: "train", Pods: []podIn{runningBig("b-p0")}}}}, wplan{
			tagged("only-requested:pending-pod-added", func(st *wState) wChange {
				return chSetPods(st, 0, append(append([]podIn{}, st.Groups[0].Pods...), podIn{Name: "a-p2", Phase: "Pending", CPU: 250, GPU: 1}), "add unscheduled Pending pod a-p2")
			}),
			tagged("only-allocated:pending-pod-scheduled", func(st *wState) wChange {
				pods := append([]podIn{}, st.Groups[0].Pods...)
				pods[1].Conds = [][2]string{{"PodScheduled", "True"}}
				return chSetPods(st, 0, pods, "a-p1 PodScheduled=True")
			}),
			tagged("only-allocatedNonPreemptible:flip-by-spec preemptible->nonpreemptible", func(st *wState) wChange { return chSetSpec(st, 0, np) }),
			tagged("only-childQueues:empty-queue-created", func(st *wState) wChange { return chAddQueue("q05", "q03") }),
			tagged("only-childQueues:empty-queue-reparented", func(st *wState) wChange { return chSetParent(st, "q05", "q04") }),
			tagged("only-childQueues:empty-queue-deleted", func(st *wState) wChange { return chDelQueue(st, "q05") }),
			func(st *wState) wStepPlan {
				return wStepPlan{[]wChange{chSetSpec(st, 0, p), chSetSpec(st, 1, p)}, "two-flips"}
			}}},
	}
	wseed := uint64(1000100)
	for _, c := range worldCorpus {
		for _, order := range []string{"bottom-up", "top-down", ""} {
			plan := c.plan
			wseed++
			name := c.name
			if order != "" {
				name += " order=" + order
			}
			res, err := runWorld(scheme, qd, root.Fork(wseed), c.st.clone(), len(plan)+1,
				func(step int, st *wState) wStepPlan { return plan[step-1](st) }, order, name)
			if err != nil {
				return err
			}
			addW(res, "corpus")
		}
	}

	// operator: every real operand alone and all together, default configuration
	for _, set := range realOperandSets() {
		res, err := runRealOperands(opScheme, set, kaiVariants[0], nil)
		if err != nil {
			return fmt.Errorf("operator deploy: %w", err)
		}
		addOp(res, "real")
	}
	// all operands with one and with several image pull secrets (the binder's reservation
	// ServiceAccount renders them from a map), and the change from none to several
	allOps := realOperandSets()[len(realOperandSets())-1]
	for _, vs := range [][2]int{{2, -1}, {3, -1}, {0, 3}} {
		var b *kaiVariant
		if vs[1] >= 0 {
			b = &kaiVariants[vs[1]]
		}
		res, err := runRealOperands(opScheme, allOps, kaiVariants[vs[0]], b)
		if err != nil {
			return fmt.Errorf("operator deploy: %w", err)
		}
		addOp(res, "real")
	}
	synthCorpus := []struct {
		name               string
		prev, cur, foreign []synthObj
	}{
		{"corpus normal-forms", nil, []synthObj{{"ConfigMap", "cm-a", 2, true}, {"ServiceAccount", "sa-a", 0, true}}, nil},
		{"corpus empty-collections", nil, []synthObj{{"ConfigMap", "cm-a", 1, true}, {"ServiceAccount", "sa-a", 1, true}}, nil},
		{"corpus rendered-from-scratch", nil, []synthObj{{"ConfigMap", "cm-a", 2, false}}, nil},
		{"corpus delete-and-takeover", []synthObj{{"ConfigMap", "cm-a", 2, true}, {"ConfigMap", "cm-b", 2, true}},
			[]synthObj{{"ConfigMap", "cm-a", 3, true}, {"ServiceAccount", "sa-a", 2, true}}, []synthObj{{Kind: "ServiceAccount", Name: "sa-a"}}},
	}
	for _, c := range synthCorpus {
		res, err := runSynthetic(opScheme, c.prev, c.cur, c.foreign, c.name)
		if err != nil {
			return fmt.Errorf("synthetic deploy: %w", err)
		}
		addOp(res, "synthetic")
	}

	// ---- generated stream ---------------------------------------------------------
	for i := 0; i < n; i++ {
		r := root.Fork(uint64(i))
		malformed := i%7 == 6
		origin := "structured"
		if malformed {
			origin = "malformed"
		}
		kind := i % 10
		if i%20 == 17 { // every other 7 is a static queue forest, the rest world histories
			kind = 5
		}
		switch kind {
		case 0, 1, 2, 3, 4: // pod-group history
			st := genState(r, malformed)
			init := rstatus{}
			if r.Chance(1, 3) {
				init = rstatus{genVec(r), nil, genVec(r)}
				if !effPreemptible(st) || r.Chance(1, 4) {
					init.Anp = genVec(r)
				}
			}
			next := len(st.Pods)
			res, err := runPGHistory(scheme, init, st, func(s *pgState, step int) string { return mutate(r, s, &next, malformed) },
				r.Range(2, 5), fmt.Sprintf("%s #%d", origin, i))
			if err != nil {
				return err
			}
			addPG(res, origin)
		case 7, 8: // world history: both controllers on one store
			st := genWorld(r)
			next := 10
			res, err := runWorld(scheme, qd, r, st, r.Range(3, 5),
				func(step int, st *wState) wStepPlan { return genWorldStep(r, st, &next) }, "", fmt.Sprintf("structured #%d", i))
			if err != nil {
				return err
			}
			addW(res, "structured")
		case 5, 6: // queue forest
			f := genForest(r, malformed)
			order := u.Pick(r, []string{"parent-first", "parent-first", "child-first", "random"})
			delta := u.Pick(r, []int{0, 0, 0, 1, -1})
			addQ(qd.runForest(r, f, order, delta, fmt.Sprintf("%s #%d", origin, i)), origin)
		default: // operator
			if r.Chance(1, 3) {
				sets := realOperandSets()
				a := u.Pick(r, kaiVariants)
				var b *kaiVariant
				if r.Bool() {
					bv := u.Pick(r, kaiVariants)
					b = &bv
				}
				res, err := runRealOperands(opScheme, u.Pick(r, sets), a, b)
				if err != nil {
					return fmt.Errorf("operator deploy: %w", err)
				}
				addOp(res, "real")
			} else {
				var prev, foreign []synthObj
				if r.Bool() {
					prev = genSynth(r)
				}
				if r.Chance(1, 3) {
					foreign = []synthObj{{Kind: u.Pick(r, []string{"ConfigMap", "ServiceAccount"}), Name: u.Pick(r, []string{"cm-a", "cm-b", "sa-a", "other"})}}
					if foreign[0].Kind == "ServiceAccount" && foreign[0].Name[0] == 'c' {
						foreign[0].Name = "sa-b"
					}
					if foreign[0].Kind == "ConfigMap" && foreign[0].Name[0] == 's' {
						foreign[0].Name = "cm-c"
					}
				}
				res, err := runSynthetic(opScheme, prev, genSynth(r), foreign, fmt.Sprintf("#%d", i))
				if err != nil {
					return fmt.Errorf("synthetic deploy: %w", err)
				}
				addOp(res, "synthetic")
			}
		}
	}
	if scopeErr != nil {
		return scopeErr
	}
	out.Stats["rule"] = "cases drawn from one splitmix64 stream after a fixed corpus: 50% pod-group histories (2-5 steps, each step one change followed by two reconciles; phases Pending/Running/Succeeded/Failed/Unknown, scheduled conditions, whole/fractional/memory GPU requests, DRA claims, preemptibility via spec and via priority class), 25% static queue forests (1-8 queues, <= 4 levels, pod groups with arbitrary stored status, arbitrary initial queue status; passes parent-first / child-first / random, height-1 .. height+1 passes, then one check pass), 15% WORLD HISTORIES: priority classes, pods, 1-4 pod groups and a forest of 1-6 queues (<= 4 levels, sometimes stale stored statuses) on ONE store, driven through the real PodGroupReconciler AND the real QueueReconciler for 3-5 steps; a step is one change drawn from: preemptibility flip of a pod group whose pods keep running with NO other change (by spec.preemptibility edit, by another priorityClassName, by the priority class's value crossing 100; both directions), a change that alters exactly one aggregate (Requested only: unscheduled Pending pod added; Allocated only: Pending pod of a preemptible group gets PodScheduled=True; ChildQueues only: empty queue created / deleted / re-parented; AllocatedNonPreemptible only: the flips), two opposite flips at once, pod phase change, pods added / deleted / all deleted, pod group moved to another queue or to none, non-empty queue re-parented, no change; after the change 0-2 targeted passes (the touched pod group, its queue and all ancestors bottom-up / top-down / random / queues before the pod group, with immediate repeats) and then full passes (every pod group and every queue; random / bottom-up / top-down / pod groups then parent-first / queues then pod groups, with repeats and reconciles of unknown names) until a full pass writes nothing (cap height+3); the fixed corpus holds the dept->team flip histories by spec, by class name and by class value and a one-aggregate-at-a-time history, each in three orders (bottom-up, top-down, mixed random); 10% operator deploys x3 (synthetic table-driven operand, or the real operands under 6 configurations incl. configuration changes); every 7th pod-group / forest / operator case from the malformed stream (unparsable annotations, missing claims/nodes, unknown preemptibility strings, cyclic / self-parent / dangling queue parents, pod groups without queue; queue forests with a parent cycle are not trees and occur ONLY under origin \"malformed\", where the monitor is silent by wf_forest). The pod-group and queue write observable is \"a stored object changed\" (objects rendered without resourceVersion before/after every mutating call), not \"a call was issued\": empty status patches are counted in the stats only. Non-trivial = a pod-group history with pods and >= 2 steps, a forest with >= 2 levels, a world history with >= 2 steps, or any operator case; distinct by full label."
	return out.Flush()
}
