// Package c20 drives the real status controllers (pod-group controller, queue
// controller) and the operator's DeployableOperands.Deploy on controller-runtime's
// fake client and emits what they left behind as Coq cases for Run/C20.v.
package c20

import (
	"context"
	"encoding/json"
	"fmt"
	"sort"
	"strings"

	admissionv1 "k8s.io/api/admissionregistration/v1"
	appsv1 "k8s.io/api/apps/v1"
	v1 "k8s.io/api/core/v1"
	rbacv1 "k8s.io/api/rbac/v1"
	resourceapi "k8s.io/api/resource/v1"
	schedulingv1 "k8s.io/api/scheduling/v1"
	"k8s.io/apimachinery/pkg/api/meta"
	"k8s.io/apimachinery/pkg/api/resource"
	"k8s.io/apimachinery/pkg/runtime"
	"sigs.k8s.io/controller-runtime/pkg/client"
	"sigs.k8s.io/controller-runtime/pkg/client/apiutil"
	"sigs.k8s.io/controller-runtime/pkg/client/interceptor"

	kaiv1 "github.com/NVIDIA/KAI-scheduler/pkg/apis/kai/v1"
	v2 "github.com/NVIDIA/KAI-scheduler/pkg/apis/scheduling/v2"
	"github.com/NVIDIA/KAI-scheduler/pkg/apis/scheduling/v2alpha2"

	u "kaiverif/internal/util"
)

// resNames fixes the positions of the resource vector (milli-units).
var resNames = []v1.ResourceName{"cpu", "memory", "nvidia.com/gpu", "run.ai/gpu.memory", "gpu.nvidia.com", "example.com/foo"}

const (
	rCPU = iota
	rMem
	rGPU
	rGPUMem
	rDRA
	rFoo
	nRes
)

type vec []int64

func trim(v vec) vec {
	n := len(v)
	for n > 0 && v[n-1] == 0 {
		n--
	}
	return v[:n]
}

// vecOf projects a ResourceList onto the fixed vector. A key outside resNames
// or a quantity that is not a whole number of milli-units yields a marker
// entry (-1) behind the last position, which no model value equals.
func vecOf(rl v1.ResourceList) vec {
	out := make(vec, nRes+1)
	for name, q := range rl {
		pos := -1
		for i, n := range resNames {
			if n == name {
				pos = i
			}
		}
		m := q.MilliValue()
		if pos < 0 || resource.NewMilliQuantity(m, q.Format).Cmp(q) != 0 {
			out[nRes] = -1
			continue
		}
		out[pos] = m
	}
	return trim(out)
}

func (v vec) term() string {
	xs := make([]string, len(v))
	for i, x := range v {
		xs[i] = u.Z(x)
	}
	return u.List(xs)
}

// listOf builds a ResourceList from a vector (zero entries are absent keys).
func listOf(v vec) v1.ResourceList {
	rl := v1.ResourceList{}
	for i, x := range v {
		if x != 0 && i < nRes {
			rl[resNames[i]] = *resource.NewMilliQuantity(x, resource.DecimalSI)
		}
	}
	if len(rl) == 0 {
		return nil
	}
	return rl
}

type rstatus struct{ Alloc, Anp, Req vec }

func (s rstatus) term() string {
	return fmt.Sprintf("{| s_alloc := %s; s_anp := %s; s_req := %s |}", s.Alloc.term(), s.Anp.term(), s.Req.term())
}

func (s rstatus) String() string {
	return fmt.Sprintf("alloc=%v anp=%v req=%v", []int64(s.Alloc), []int64(s.Anp), []int64(s.Req))
}

func pgStatus(pg *v2alpha2.PodGroup) rstatus {
	r := pg.Status.ResourcesStatus
	return rstatus{vecOf(r.Allocated), vecOf(r.AllocatedNonPreemptible), vecOf(r.Requested)}
}

func queueStatus(q *v2.Queue) rstatus {
	return rstatus{vecOf(q.Status.Allocated), vecOf(q.Status.AllocatedNonPreemptible), vecOf(q.Status.Requested)}
}

// newScheme registers only the groups the status controllers touch: the fake
// client rebuilds a REST mapper from the whole scheme on every write, so a
// small scheme keeps the driver fast.
func newScheme() *runtime.Scheme {
	s := runtime.NewScheme()
	_ = v1.AddToScheme(s)
	_ = schedulingv1.AddToScheme(s)
	_ = resourceapi.AddToScheme(s)
	_ = v2.AddToScheme(s)
	_ = v2alpha2.AddToScheme(s)
	return s
}

// newOperatorScheme: the kinds the operator's operands render and collect.
func newOperatorScheme() *runtime.Scheme {
	s := runtime.NewScheme()
	_ = v1.AddToScheme(s)
	_ = appsv1.AddToScheme(s)
	_ = rbacv1.AddToScheme(s)
	_ = admissionv1.AddToScheme(s)
	_ = kaiv1.AddToScheme(s)
	return s
}

// counter counts the mutating API calls issued through the client and how
// many of them changed what snap() reads back from the store.
type counter struct {
	calls, writes int
	snap          func(c client.Client) string
	// the snapshot taken after the previous mutating call: every mutation of the store (the harness's own
	// edits included) goes through this interceptor, so it is still what the store holds
	last   string
	cached bool
}

func (k *counter) reset() { k.calls, k.writes = 0, 0 }

func (k *counter) around(c client.Client, f func() error) error {
	before := k.last
	if !k.cached {
		before = k.snap(c)
	}
	err := f()
	k.calls++
	k.last, k.cached = k.snap(c), true
	if k.last != before {
		k.writes++
	}
	return err
}

func (k *counter) funcs() interceptor.Funcs {
	return interceptor.Funcs{
		Create: func(ctx context.Context, c client.WithWatch, obj client.Object, opts ...client.CreateOption) error {
			return k.around(c, func() error { return c.Create(ctx, obj, opts...) })
		},
		Update: func(ctx context.Context, c client.WithWatch, obj client.Object, opts ...client.UpdateOption) error {
			return k.around(c, func() error { return c.Update(ctx, obj, opts...) })
		},
		Patch: func(ctx context.Context, c client.WithWatch, obj client.Object, patch client.Patch, opts ...client.PatchOption) error {
			return k.around(c, func() error { return c.Patch(ctx, obj, patch, opts...) })
		},
		Delete: func(ctx context.Context, c client.WithWatch, obj client.Object, opts ...client.DeleteOption) error {
			return k.around(c, func() error { return c.Delete(ctx, obj, opts...) })
		},
		DeleteAllOf: func(ctx context.Context, c client.WithWatch, obj client.Object, opts ...client.DeleteAllOfOption) error {
			return k.around(c, func() error { return c.DeleteAllOf(ctx, obj, opts...) })
		},
		SubResourceCreate: func(ctx context.Context, c client.Client, sub string, obj client.Object, subObj client.Object, opts ...client.SubResourceCreateOption) error {
			return k.around(c, func() error { return c.SubResource(sub).Create(ctx, obj, subObj, opts...) })
		},
		SubResourceUpdate: func(ctx context.Context, c client.Client, sub string, obj client.Object, opts ...client.SubResourceUpdateOption) error {
			return k.around(c, func() error { return c.SubResource(sub).Update(ctx, obj, opts...) })
		},
		SubResourcePatch: func(ctx context.Context, c client.Client, sub string, obj client.Object, patch client.Patch, opts ...client.SubResourcePatchOption) error {
			return k.around(c, func() error { return c.SubResource(sub).Patch(ctx, obj, patch, opts...) })
		},
	}
}

// jsonNoRV renders an object without the fields every write touches.
func jsonNoRV(obj client.Object) string {
	o := obj.DeepCopyObject().(client.Object)
	o.SetResourceVersion("")
	o.SetManagedFields(nil)
	b, _ := json.Marshal(o)
	return string(b)
}

// setGVK restores TypeMeta on what Get/List return, as the cache-backed client
// the controllers run with in production does (the fake client strips it).
func setGVK(scheme *runtime.Scheme, obj runtime.Object) error {
	gvk, err := apiutil.GVKForObject(obj, scheme)
	if err != nil {
		return err
	}
	obj.GetObjectKind().SetGroupVersionKind(gvk)
	return nil
}

func setListGVK(scheme *runtime.Scheme, list client.ObjectList) error {
	gvk, err := apiutil.GVKForObject(list, scheme)
	if err != nil {
		return err
	}
	gvk.Kind = strings.TrimSuffix(gvk.Kind, "List")
	return meta.EachListItem(list, func(o runtime.Object) error {
		o.GetObjectKind().SetGroupVersionKind(gvk)
		return nil
	})
}

func sortedKeys[V any](m map[string]V) []string {
	ks := make([]string, 0, len(m))
	for k := range m {
		ks = append(ks, k)
	}
	sort.Strings(ks)
	return ks
}

func posList(ids []int) string {
	xs := make([]string, len(ids))
	for i, x := range ids {
		xs[i] = u.Pos(x)
	}
	return u.List(xs)
}
