package c20

import (
	"context"
	"fmt"
	"strconv"
	"strings"

	v1 "k8s.io/api/core/v1"
	resourceapi "k8s.io/api/resource/v1"
	schedulingv1 "k8s.io/api/scheduling/v1"
	"k8s.io/apimachinery/pkg/api/resource"
	metav1 "k8s.io/apimachinery/pkg/apis/meta/v1"
	"k8s.io/apimachinery/pkg/runtime"
	"k8s.io/apimachinery/pkg/types"
	ctrl "sigs.k8s.io/controller-runtime"
	"sigs.k8s.io/controller-runtime/pkg/client"
	"sigs.k8s.io/controller-runtime/pkg/client/fake"

	v2 "github.com/NVIDIA/KAI-scheduler/pkg/apis/scheduling/v2"
	"github.com/NVIDIA/KAI-scheduler/pkg/apis/scheduling/v2alpha2"
	pgc "github.com/NVIDIA/KAI-scheduler/pkg/podgroupcontroller/controllers"
	"github.com/NVIDIA/KAI-scheduler/pkg/podgroupcontroller/controllers/cluster_relations"

	u "kaiverif/internal/util"
)

const (
	pgNS       = "ns"
	pgName     = "pg"
	nodeGpuMem = 10000 // MiB per GPU on node-a
	draClass   = "gpu.nvidia.com"
)

type podIn struct {
	Name                 string      `json:"name"`
	Phase                string      `json:"phase"`
	Conds                [][2]string `json:"conditions,omitempty"`
	CPU, MemMi, GPU, Foo int64       `json:",omitempty"`
	Fraction             string      `json:"gpu-fraction,omitempty"`
	NumDev               string      `json:"gpu-fraction-num-devices,omitempty"`
	GpuMem               string      `json:"gpu-memory,omitempty"`
	Received             string      `json:"received-resource-type,omitempty"`
	Node                 string      `json:"node,omitempty"`
	DRA                  int64       `json:"draDevices,omitempty"`
	DRAMissing           bool        `json:"draClaimMissing,omitempty"`
}

type classIn struct {
	Name    string `json:"name"`
	Value   int32  `json:"value"`
	Default bool   `json:"globalDefault,omitempty"`
}

type pgState struct {
	Spec    string    `json:"preemptibility"`
	Class   string    `json:"priorityClassName"`
	Classes []classIn `json:"priorityClasses"`
	Pods    []podIn   `json:"pods"`
}

var classID = map[string]int{"train": 1, "build": 2, "inference": 3, "gdef": 4, "missing": 5}

// given computes, independently of the controller, what one pod contributes
// when it is counted: (requested, error?, allocated, error?).
func given(p podIn) (req vec, reqErr bool, alloc vec, allocErr bool) {
	base := make(vec, nRes)
	base[rCPU] = p.CPU
	base[rMem] = p.MemMi * 1024 * 1024 * 1000
	base[rGPU] = p.GPU * 1000
	base[rFoo] = p.Foo * 1000
	req = append(vec{}, base...)
	alloc = append(vec{}, base...)

	count := int64(1)
	if p.NumDev != "" {
		q, err := resource.ParseQuantity(p.NumDev)
		if err != nil {
			reqErr = true
		} else if c, ok := q.AsInt64(); !ok {
			reqErr = true
		} else {
			count = c
		}
	}
	fracOK := false
	var fracMilli int64
	if p.Fraction != "" {
		q, err := resource.ParseQuantity(p.Fraction)
		if err != nil {
			reqErr = true
		} else {
			fracOK = true
			fracMilli = q.MilliValue()
			req[rGPU] += fracMilli * count
		}
	}
	if p.GpuMem != "" {
		q, err := resource.ParseQuantity(p.GpuMem)
		if err != nil {
			reqErr = true
		} else {
			req[rGPUMem] += q.MilliValue() * count
		}
	}
	if p.Received == "Fraction" {
		switch {
		case p.Fraction != "":
			if !fracOK {
				allocErr = true // resource.MustParse would panic; never reached: the requested side fails first
			} else {
				alloc[rGPU] += fracMilli
			}
		case p.GpuMem == "":
			allocErr = true
		default:
			mem, err := strconv.ParseInt(p.GpuMem, 10, 64)
			if err != nil || p.Node != "node-a" {
				allocErr = true
			} else {
				alloc[rGPU] += mem * 1000 / nodeGpuMem
			}
		}
	}
	if p.DRAMissing {
		reqErr, allocErr = true, true
	} else if p.DRA > 0 {
		req[rDRA] += p.DRA * 1000
		alloc[rDRA] += p.DRA * 1000
	}
	if reqErr {
		req = nil
	}
	if allocErr {
		alloc = nil
	}
	return trim(req), reqErr, trim(alloc), allocErr
}

func phaseTerm(s string) string {
	switch s {
	case "Pending", "Running", "Succeeded", "Failed":
		return s
	}
	return "Unknown"
}

func (p podIn) term() string {
	cs := make([]string, len(p.Conds))
	for i, c := range p.Conds {
		cs[i] = u.Pair(u.Bool(c[0] == string(v1.PodScheduled)), u.Bool(c[1] == string(v1.ConditionTrue)))
	}
	req, re, alloc, ae := given(p)
	return fmt.Sprintf("{| p_phase := %s; p_conds := %s; p_req := %s; p_req_err := %s; p_alloc := %s; p_alloc_err := %s |}",
		phaseTerm(p.Phase), u.List(cs), req.term(), u.Bool(re), alloc.term(), u.Bool(ae))
}

func specTerm(s string) string {
	switch s {
	case string(v2alpha2.Preemptible):
		return "SpecPreemptible"
	case string(v2alpha2.NonPreemptible):
		return "SpecNonPreemptible"
	}
	return "SpecUnset"
}

func classesTerm(cs []classIn) string {
	// the controller lists priority classes in name order
	out := []string{}
	names := map[string]classIn{}
	for _, c := range cs {
		names[c.Name] = c
	}
	for _, n := range sortedKeys(names) {
		c := names[n]
		out = append(out, fmt.Sprintf("{| pc_name := %s; pc_value := %s; pc_default := %s |}",
			u.Pos(classID[c.Name]), u.Z(int64(c.Value)), u.Bool(c.Default)))
	}
	return u.List(out)
}

// effPreemptible is only used to phrase labels (never for a verdict).
func effPreemptible(s pgState) bool {
	switch s.Spec {
	case string(v2alpha2.Preemptible):
		return true
	case string(v2alpha2.NonPreemptible):
		return false
	}
	prio := int32(50)
	found := false
	for _, c := range s.Classes {
		if c.Name == s.Class {
			prio, found = c.Value, true
		}
	}
	if !found {
		for _, c := range s.Classes {
			if c.Default {
				prio = c.Value
			}
		}
	}
	return prio < 100
}

// ---- building the API objects ------------------------------------------------

func buildPod(p podIn) (*v1.Pod, *resourceapi.ResourceClaim) {
	ann := map[string]string{"pod-group-name": pgName}
	if p.Fraction != "" {
		ann["gpu-fraction"] = p.Fraction
	}
	if p.NumDev != "" {
		ann["gpu-fraction-num-devices"] = p.NumDev
	}
	if p.GpuMem != "" {
		ann["gpu-memory"] = p.GpuMem
	}
	if p.Received != "" {
		ann["received-resource-type"] = p.Received
	}
	c0 := v1.ResourceList{}
	if p.CPU != 0 {
		c0["cpu"] = *resource.NewMilliQuantity(p.CPU, resource.DecimalSI)
	}
	if p.MemMi != 0 {
		c0["memory"] = *resource.NewQuantity(p.MemMi*1024*1024, resource.BinarySI)
	}
	c1 := v1.ResourceList{}
	if p.GPU != 0 {
		c1["nvidia.com/gpu"] = *resource.NewQuantity(p.GPU, resource.DecimalSI)
	}
	if p.Foo != 0 {
		c1["example.com/foo"] = *resource.NewQuantity(p.Foo, resource.DecimalSI)
	}
	pod := &v1.Pod{
		ObjectMeta: metav1.ObjectMeta{Name: p.Name, Namespace: pgNS, Annotations: ann},
		Spec: v1.PodSpec{NodeName: p.Node, Containers: []v1.Container{
			{Name: "main", Resources: v1.ResourceRequirements{Requests: c0}},
			{Name: "side", Resources: v1.ResourceRequirements{Requests: c1}},
		}},
		Status: v1.PodStatus{Phase: v1.PodPhase(p.Phase)},
	}
	for _, c := range p.Conds {
		pod.Status.Conditions = append(pod.Status.Conditions,
			v1.PodCondition{Type: v1.PodConditionType(c[0]), Status: v1.ConditionStatus(c[1])})
	}
	var claim *resourceapi.ResourceClaim
	if p.DRA > 0 || p.DRAMissing {
		cn := "claim-" + p.Name
		pod.Spec.ResourceClaims = []v1.PodResourceClaim{{Name: "gpu", ResourceClaimName: &cn}}
		if !p.DRAMissing {
			claim = &resourceapi.ResourceClaim{
				ObjectMeta: metav1.ObjectMeta{Name: cn, Namespace: pgNS},
				Spec: resourceapi.ResourceClaimSpec{Devices: resourceapi.DeviceClaim{Requests: []resourceapi.DeviceRequest{{
					Name: "r", Exactly: &resourceapi.ExactDeviceRequest{DeviceClassName: draClass,
						AllocationMode: resourceapi.DeviceAllocationModeExactCount, Count: p.DRA}}}}},
			}
		}
	}
	return pod, claim
}

type pgWorld struct {
	cl     client.Client
	rec    *pgc.PodGroupReconciler
	cnt    *counter
	scheme *runtime.Scheme
}

func newPGWorld(scheme *runtime.Scheme, init rstatus, st pgState) *pgWorld {
	cnt := &counter{}
	cnt.snap = func(c client.Client) string {
		g := &v2alpha2.PodGroup{}
		if err := c.Get(context.Background(), types.NamespacedName{Namespace: pgNS, Name: pgName}, g); err != nil {
			return "absent"
		}
		return jsonNoRV(g)
	}
	pg := &v2alpha2.PodGroup{
		ObjectMeta: metav1.ObjectMeta{Name: pgName, Namespace: pgNS},
		Spec:       v2alpha2.PodGroupSpec{Queue: "q", Preemptibility: v2alpha2.Preemptibility(st.Spec), PriorityClassName: st.Class},
		Status: v2alpha2.PodGroupStatus{ResourcesStatus: v2alpha2.PodGroupResourcesStatus{
			Allocated: listOf(init.Alloc), AllocatedNonPreemptible: listOf(init.Anp), Requested: listOf(init.Req)}},
	}
	nodes := []client.Object{
		&v1.Node{ObjectMeta: metav1.ObjectMeta{Name: "node-a", Labels: map[string]string{"nvidia.com/gpu.memory": strconv.Itoa(nodeGpuMem)}}},
		&v1.Node{ObjectMeta: metav1.ObjectMeta{Name: "node-nolabel"}},
	}
	cl := fake.NewClientBuilder().WithScheme(scheme).WithObjects(pg).WithObjects(nodes...).
		WithStatusSubresource(&v2alpha2.PodGroup{}, &v2.Queue{}).
		WithIndex(&v1.Pod{}, cluster_relations.PodGroupToPodsIndexer, cluster_relations.PodGroupNameIndexerFunc).
		WithInterceptorFuncs(cnt.funcs()).Build()
	return &pgWorld{cl: cl, rec: &pgc.PodGroupReconciler{Client: cl, Scheme: scheme}, cnt: cnt, scheme: scheme}
}

// sync makes the store's pods, claims, priority classes and pod-group spec equal to st.
func (w *pgWorld) sync(st pgState) error {
	ctx := context.Background()
	if err := w.cl.DeleteAllOf(ctx, &v1.Pod{}, client.InNamespace(pgNS)); err != nil {
		return err
	}
	if err := w.cl.DeleteAllOf(ctx, &resourceapi.ResourceClaim{}, client.InNamespace(pgNS)); err != nil {
		return err
	}
	if err := w.cl.DeleteAllOf(ctx, &schedulingv1.PriorityClass{}); err != nil {
		return err
	}
	for _, c := range st.Classes {
		if err := w.cl.Create(ctx, &schedulingv1.PriorityClass{ObjectMeta: metav1.ObjectMeta{Name: c.Name}, Value: c.Value, GlobalDefault: c.Default}); err != nil {
			return err
		}
	}
	for _, p := range st.Pods {
		pod, claim := buildPod(p)
		if err := w.cl.Create(ctx, pod); err != nil {
			return err
		}
		if claim != nil {
			if err := w.cl.Create(ctx, claim); err != nil {
				return err
			}
		}
	}
	g := &v2alpha2.PodGroup{}
	if err := w.cl.Get(ctx, types.NamespacedName{Namespace: pgNS, Name: pgName}, g); err != nil {
		return err
	}
	g.Spec.Preemptibility = v2alpha2.Preemptibility(st.Spec)
	g.Spec.PriorityClassName = st.Class
	return w.cl.Update(ctx, g)
}

type recObs struct {
	Err    bool    `json:"error"`
	Status rstatus `json:"-"`
	Shown  string  `json:"status"`
	Writes int     `json:"writes"`
	Calls  int     `json:"mutating_calls"`
}

func (w *pgWorld) reconcile() (o recObs, panicked bool) {
	ctx := context.Background()
	w.cnt.reset()
	func() {
		defer func() {
			if r := recover(); r != nil {
				panicked = true
			}
		}()
		_, err := w.rec.Reconcile(ctx, ctrl.Request{NamespacedName: types.NamespacedName{Namespace: pgNS, Name: pgName}})
		o.Err = err != nil
	}()
	g := &v2alpha2.PodGroup{}
	_ = w.cl.Get(ctx, types.NamespacedName{Namespace: pgNS, Name: pgName}, g)
	o.Status = pgStatus(g)
	o.Shown = o.Status.String()
	o.Writes, o.Calls = w.cnt.writes, w.cnt.calls
	return o, panicked
}

// ---- generators --------------------------------------------------------------

var allClasses = []classIn{{"train", 50, false}, {"build", 100, false}, {"inference", 125, false}}

func genPod(r *u.Rng, i int, malformed bool) podIn {
	p := podIn{Name: fmt.Sprintf("p%d", i)}
	p.Phase = u.Pick(r, []string{"Pending", "Pending", "Running", "Running", "Running", "Succeeded", "Failed", "Unknown"})
	if malformed && r.Chance(1, 10) {
		p.Phase = ""
	}
	for k, n := 0, r.Intn(4); k < n; k++ {
		p.Conds = append(p.Conds, [2]string{
			u.Pick(r, []string{"PodScheduled", "PodScheduled", "Ready", "Initialized", "ContainersReady"}),
			u.Pick(r, []string{"True", "True", "False", "Unknown"})})
	}
	if !r.Chance(1, 6) {
		p.CPU = int64(u.Pick(r, []int{100, 250, 500, 1000, 1500, 4000}))
	}
	if !r.Chance(1, 4) {
		p.MemMi = int64(u.Pick(r, []int{64, 512, 1024, 2048}))
	}
	if r.Chance(1, 5) {
		p.Foo = int64(r.Range(1, 3))
	}
	switch r.Intn(8) {
	case 0, 1: // whole GPUs
		p.GPU = int64(r.Range(1, 4))
		if r.Bool() {
			p.Received = "Regular"
		}
	case 2, 3: // fractional GPU
		p.Fraction = u.Pick(r, []string{"0.5", "0.25", "0.125", "0.75", "0.1"})
		if r.Chance(1, 3) {
			p.NumDev = u.Pick(r, []string{"2", "3"})
		}
		if !r.Chance(1, 4) {
			p.Received = "Fraction"
		}
	case 4: // GPU memory request
		p.GpuMem = u.Pick(r, []string{"1000", "2500", "5000"})
		p.Node = "node-a"
		if r.Chance(1, 4) {
			p.NumDev = "2"
		}
		if !r.Chance(1, 4) {
			p.Received = "Fraction"
		}
	case 5: // DRA claim
		p.DRA = int64(r.Range(1, 2))
	}
	if p.Node == "" && (p.Phase == "Running" || r.Bool()) {
		p.Node = u.Pick(r, []string{"node-a", "node-a", "node-nolabel"})
	}
	if malformed {
		switch r.Intn(7) {
		case 0:
			p.NumDev = u.Pick(r, []string{"abc", "1.5", ""})
			if p.Fraction == "" {
				p.Fraction = "0.5"
			}
		case 1:
			p.Fraction = u.Pick(r, []string{"zzz", "0,5", "half"})
		case 2:
			p.Received = "Fraction"
			p.Fraction, p.GpuMem = "", ""
		case 3:
			p.DRAMissing = true
		case 4:
			p.GpuMem, p.Fraction = u.Pick(r, []string{"1000", "x1", "2500"}), ""
			p.Received = "Fraction"
			p.Node = u.Pick(r, []string{"node-nolabel", "node-missing", "", "node-a"})
		}
	}
	return p
}

func genState(r *u.Rng, malformed bool) pgState {
	st := pgState{}
	st.Spec = u.Pick(r, []string{"", "", string(v2alpha2.Preemptible), string(v2alpha2.NonPreemptible), string(v2alpha2.NonPreemptible)})
	if malformed && r.Chance(1, 6) {
		st.Spec = u.Pick(r, []string{"Preemptible", "NON-PREEMPTIBLE", "semi"})
	}
	st.Class = u.Pick(r, []string{"train", "build", "inference", "missing"})
	for _, c := range allClasses {
		if !r.Chance(1, 8) {
			st.Classes = append(st.Classes, c)
		}
	}
	if r.Chance(1, 3) {
		st.Classes = append(st.Classes, classIn{"gdef", int32(u.Pick(r, []int{75, 99, 100, 150})), true})
	}
	for i, n := 0, r.Intn(6); i < n; i++ {
		st.Pods = append(st.Pods, genPod(r, i, malformed))
	}
	return st
}

func genVec(r *u.Rng) vec {
	v := make(vec, nRes)
	for i := range v {
		if r.Chance(1, 3) {
			v[i] = int64(r.Range(1, 8)) * 250
		}
	}
	return trim(v)
}

// mutate applies one change to the state and says what it was.
func mutate(r *u.Rng, st *pgState, next *int, malformed bool) string {
	was := effPreemptible(*st)
	what := ""
	switch r.Intn(11) {
	case 0, 1, 2: // change the declared preemptibility
		st.Spec = u.Pick(r, []string{"", string(v2alpha2.Preemptible), string(v2alpha2.NonPreemptible)})
		what = "spec.preemptibility=" + strconv.Quote(st.Spec)
	case 3: // another priority class
		st.Class = u.Pick(r, []string{"train", "build", "inference", "missing"})
		what = "priorityClassName=" + st.Class
	case 4: // the class's value changes / global default appears
		if len(st.Classes) > 0 {
			i := r.Intn(len(st.Classes))
			st.Classes[i].Value = int32(u.Pick(r, []int{10, 50, 99, 100, 125, 1000}))
			what = fmt.Sprintf("class %s value=%d", st.Classes[i].Name, st.Classes[i].Value)
		} else {
			st.Classes = append(st.Classes, classIn{"gdef", 150, true})
			what = "global default class 150"
		}
	case 5, 6: // pod phase change
		if len(st.Pods) > 0 {
			i := r.Intn(len(st.Pods))
			st.Pods[i].Phase = u.Pick(r, []string{"Pending", "Running", "Succeeded", "Failed"})
			if st.Pods[i].Phase == "Running" && st.Pods[i].Node == "" {
				st.Pods[i].Node = "node-a"
			}
			what = fmt.Sprintf("%s phase=%s", st.Pods[i].Name, st.Pods[i].Phase)
		}
	case 7: // scheduled condition
		if len(st.Pods) > 0 {
			i := r.Intn(len(st.Pods))
			st.Pods[i].Conds = [][2]string{{"PodScheduled", u.Pick(r, []string{"True", "False"})}}
			what = fmt.Sprintf("%s scheduled=%s", st.Pods[i].Name, st.Pods[i].Conds[0][1])
		}
	case 8: // new pod
		p := genPod(r, *next, malformed)
		*next++
		st.Pods = append(st.Pods, p)
		what = "add " + p.Name
	case 9: // pod deleted
		if len(st.Pods) > 0 {
			i := r.Intn(len(st.Pods))
			what = "delete " + st.Pods[i].Name
			st.Pods = append(st.Pods[:i], st.Pods[i+1:]...)
		}
	}
	if what == "" {
		what = "no change"
	}
	now := effPreemptible(*st)
	switch {
	case !was && now:
		what += " (flip nonpreemptible->preemptible)"
	case was && !now:
		what += " (flip preemptible->nonpreemptible)"
	}
	return what
}

type pgResult struct {
	term, label string
	steps       int
	flipsToP    int
	errors      int
	panics      int
	calls2      int // mutating calls issued by second reconciles
	writes2     int
	podCount    int
	sample      map[string]any
}

// runPGHistory plays one history on the real reconciler.
func runPGHistory(scheme *runtime.Scheme, init rstatus, st pgState, plan func(st *pgState, step int) string, nsteps int, origin string) (pgResult, error) {
	res := pgResult{}
	w := newPGWorld(scheme, init, st)
	stepTerms := []string{}
	descr := []string{}
	hist := []map[string]any{}
	staleTag := false
	prevANP := len(init.Anp) > 0
	for s := 0; s < nsteps; s++ {
		what := "create"
		if s > 0 {
			what = plan(&st, s)
		}
		if err := w.sync(st); err != nil {
			return res, fmt.Errorf("sync: %w", err)
		}
		if strings.Contains(what, "nonpreemptible->preemptible") {
			res.flipsToP++
		}
		if s == 0 && prevANP && effPreemptible(st) {
			what += " (stale nonpreemptible status on a preemptible group, as after flip nonpreemptible->preemptible)"
			staleTag = true
		}
		o1, p1 := w.reconcile()
		o2, p2 := w.reconcile()
		if p1 || p2 {
			res.panics++
		}
		if o1.Err {
			res.errors++
		}
		res.calls2 += o2.Calls
		res.writes2 += o2.Writes
		res.podCount += len(st.Pods)
		pods := make([]string, len(st.Pods))
		for i, p := range st.Pods {
			pods[i] = p.term()
		}
		stepTerms = append(stepTerms, fmt.Sprintf(
			"{| o_classes := %s; o_pods := %s; o_spec := %s; o_prio := %s; o_err := %s; o_status := %s; o_writes := %s; o_err2 := %s; o_status2 := %s; o_writes2 := %s |}",
			classesTerm(st.Classes), u.List(pods), specTerm(st.Spec), u.Pos(classID[st.Class]),
			u.Bool(o1.Err || p1), o1.Status.term(), u.Nat(o1.Writes), u.Bool(o2.Err || p2), o2.Status.term(), u.Nat(o2.Writes)))
		descr = append(descr, what)
		stCopy := st
		stCopy.Pods = append([]podIn{}, st.Pods...)
		stCopy.Classes = append([]classIn{}, st.Classes...)
		hist = append(hist, map[string]any{"change": what, "state": stCopy, "reconcile1": o1, "reconcile2": o2})
	}
	_ = staleTag
	res.steps = nsteps
	res.term = fmt.Sprintf("(CasePG {| pk_init := %s; pk_steps := %s |})", init.term(), u.List(stepTerms))
	res.label = fmt.Sprintf("pg %s init[%s] steps=[%s]", origin, init.String(), strings.Join(descr, " ; "))
	res.sample = map[string]any{"kind": "podgroup history", "initial_status": init.String(), "history": hist}
	return res, nil
}
