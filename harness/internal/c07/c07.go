// Package c07 drives the proportion plugin's reclaim gate (CanReclaimResources,
// Reclaimable, FitsReclaimStrategy) on generated queue trees and victim sets and
// emits the observations as Coq cases for Run/C07.v (constructor Fn); session.go adds the
// session-level stream (constructor Ssn): the real allocate and reclaim actions on generated
// clusters with several reclaimers per session.
//
// Exactness discipline: every quantity is a small dyadic rational (k/4 GPUs,
// multiples of 256 milli-CPU, multiples of 2^20 bytes), so +, - and comparisons are
// exact in float64. The only division is allocated/fairShare in the saturation test:
// with multiplier 1 or 2 the float comparison agrees with the exact one for such
// inputs (equal rationals round equally, unequal ones differ by far more than an
// ulp); for any other multiplier the generator restricts fair shares to powers of two
// (times the unit), which makes the quotient itself exact. checkExact enforces this.
package c07

import (
	"encoding/json"
	"fmt"
	"math"
	"math/big"
	"sort"
	"strings"

	v1 "k8s.io/api/core/v1"

	"github.com/NVIDIA/KAI-scheduler/pkg/scheduler/api/common_info"
	"github.com/NVIDIA/KAI-scheduler/pkg/scheduler/api/resource_info"
	rec "github.com/NVIDIA/KAI-scheduler/pkg/scheduler/plugins/proportion/reclaimable"
	"github.com/NVIDIA/KAI-scheduler/pkg/scheduler/plugins/proportion/reclaimable/strategies"
	rs "github.com/NVIDIA/KAI-scheduler/pkg/scheduler/plugins/proportion/resource_share"

	u "kaiverif/internal/util"
)

// ---- scenario ---------------------------------------------------------------

type share struct {
	D  float64 `json:"deserved"`
	F  float64 `json:"fair"`
	Mx float64 `json:"max"`
	A  float64 `json:"alloc"`
	NP float64 `json:"allocNP"`
}

type qspec struct {
	ID     int   `json:"id"`
	Parent int   `json:"parent"` // 0 = top level
	CPU    share `json:"cpu"`
	Mem    share `json:"mem"`
	GPU    share `json:"gpu"`
}

type rspec struct {
	CPU  float64 `json:"cpu"`
	Mem  float64 `json:"mem"`
	GPUs float64 `json:"gpus"`
	Mig1 int64   `json:"mig1g,omitempty"` // nvidia.com/mig-1g.5gb instances
	Mig2 int64   `json:"mig2g,omitempty"` // nvidia.com/mig-2g.10gb instances
}

type victims struct {
	Queue int     `json:"queue"`
	Res   []rspec `json:"res"`
}

type probe struct {
	Rq  int        `json:"rq"`
	Eq  int        `json:"eq"`
	Rem [3]float64 `json:"remaining"` // cpu, mem, gpu
}

type scenario struct {
	M           float64   `json:"multiplier"`
	Queues      []qspec   `json:"queues"`
	RcQueue     int       `json:"reclaimerQueue"`
	RcRes       rspec     `json:"reclaimerRes"`
	Preemptible bool      `json:"preemptible"`
	Victims     []victims `json:"victims"` // sorted by queue id, unique
	Probes      []probe   `json:"fitProbes,omitempty"`
}

const (
	cpuUnit = 256.0
	memUnit = 1048576.0
)

func qname(id int) common_info.QueueID {
	if id == 0 {
		return ""
	}
	return common_info.QueueID(fmt.Sprintf("q%d", id))
}

func toShare(s share) rs.ResourceShare {
	return rs.ResourceShare{Deserved: s.D, FairShare: s.F, MaxAllowed: s.Mx, Allocated: s.A, AllocatedNotPreemptible: s.NP}
}

func buildQueues(sc *scenario) map[common_info.QueueID]*rs.QueueAttributes {
	m := map[common_info.QueueID]*rs.QueueAttributes{}
	for _, q := range sc.Queues {
		m[qname(q.ID)] = &rs.QueueAttributes{
			UID: qname(q.ID), Name: string(qname(q.ID)), ParentQueue: qname(q.Parent),
			QueueResourceShare: rs.QueueResourceShare{CPU: toShare(q.CPU), Memory: toShare(q.Mem), GPU: toShare(q.GPU)},
		}
	}
	return m
}

func buildRes(r rspec) *resource_info.Resource {
	res := resource_info.NewResource(r.CPU, r.Mem, r.GPUs)
	if r.Mig1 != 0 {
		res.ScalarResources()[v1.ResourceName("nvidia.com/mig-1g.5gb")] = r.Mig1
	}
	if r.Mig2 != 0 {
		res.ScalarResources()[v1.ResourceName("nvidia.com/mig-2g.10gb")] = r.Mig2
	}
	return res
}

func buildReclaimer(sc *scenario) *rec.ReclaimerInfo {
	return &rec.ReclaimerInfo{Name: "reclaimer", Namespace: "ns", Queue: qname(sc.RcQueue),
		RequiredResources: buildRes(sc.RcRes), IsPreemptable: sc.Preemptible}
}

// ---- calling the real code ----------------------------------------------------

const (
	obsTrue  = "ObsTrue"
	obsFalse = "ObsFalse"
	obsPanic = "ObsPanic"
)

func guard(f func() bool) (o string) {
	defer func() {
		if r := recover(); r != nil {
			o = obsPanic
		}
	}()
	if f() {
		return obsTrue
	}
	return obsFalse
}

type observed struct {
	Can       string   `json:"canReclaim"`
	RecTrue   bool     `json:"reclaimableSawTrue"`
	RecFalse  bool     `json:"reclaimableSawFalse"`
	RecPanic  bool     `json:"reclaimableSawPanic"`
	Fits      []string `json:"fits,omitempty"`
}

func observe(sc *scenario, r *u.Rng) observed {
	var o observed
	plugin := rec.New(sc.M)
	o.Can = guard(func() bool { return plugin.CanReclaimResources(buildQueues(sc), buildReclaimer(sc)) })

	// Go randomises only the starting point of a map iteration; vary the insertion order
	// as well so that more iteration orders of the reclaimee map are exercised.
	reps := 2
	if len(sc.Victims) == 2 {
		reps = 8
	} else if len(sc.Victims) > 2 {
		reps = 20
	}
	idx := make([]int, len(sc.Victims))
	for i := range idx {
		idx[i] = i
	}
	for rep := 0; rep < reps; rep++ {
		u.Shuffle(r, idx)
		vm := make(map[common_info.QueueID][]*resource_info.Resource)
		for _, i := range idx {
			v := sc.Victims[i]
			l := make([]*resource_info.Resource, 0, len(v.Res))
			for _, x := range v.Res {
				l = append(l, buildRes(x))
			}
			vm[qname(v.Queue)] = l
		}
		switch guard(func() bool { return rec.New(sc.M).Reclaimable(buildQueues(sc), buildReclaimer(sc), vm) }) {
		case obsTrue:
			o.RecTrue = true
		case obsFalse:
			o.RecFalse = true
		default:
			o.RecPanic = true
		}
	}
	for _, p := range sc.Probes {
		qs := buildQueues(sc)
		rq, eq := qs[qname(p.Rq)], qs[qname(p.Eq)]
		res := guard(func() bool {
			return strategies.FitsReclaimStrategy(buildRes(sc.RcRes), rq, eq, rs.NewResourceQuantities(p.Rem[0], p.Rem[1], p.Rem[2]))
		})
		o.Fits = append(o.Fits, res)
	}
	return o
}

// ---- Coq terms ------------------------------------------------------------------

func q(x float64) string {
	rat := new(big.Rat)
	if rat.SetFloat64(x) == nil {
		panic(fmt.Sprintf("non-finite quantity %v", x))
	}
	n, d := rat.Num(), rat.Denom()
	if n.Sign() < 0 {
		return fmt.Sprintf("(Qmake (%s)%%Z %s%%positive)", n.String(), d.String())
	}
	return fmt.Sprintf("(Qmake %s%%Z %s%%positive)", n.String(), d.String())
}

func shareTerm(s share) string {
	return fmt.Sprintf("{| s_deserved := %s; s_fair := %s; s_max := %s; s_alloc := %s; s_allocnp := %s |}",
		q(s.D), q(s.F), q(s.Mx), q(s.A), q(s.NP))
}

func queueTerm(x qspec) string {
	return fmt.Sprintf("{| q_id := %s; q_parent := %s; q_cpu := %s; q_mem := %s; q_gpu := %s |}",
		u.Pos(x.ID), u.Opt(x.Parent != 0, u.Pos(x.Parent)), shareTerm(x.CPU), shareTerm(x.Mem), shareTerm(x.GPU))
}

func resTerm(r rspec) string {
	return fmt.Sprintf("{| r_cpu := %s; r_mem := %s; r_gpus := %s; r_mig := %s |}",
		q(r.CPU), q(r.Mem), q(r.GPUs), q(float64(r.Mig1+2*r.Mig2)))
}

func caseTerm(sc *scenario, o observed) string {
	vs := []string{}
	for _, v := range sc.Victims {
		vs = append(vs, u.Pair(u.Pos(v.Queue), u.ListOf(v.Res, resTerm)))
	}
	fits := []string{}
	for i, p := range sc.Probes {
		fits = append(fits, fmt.Sprintf("{| f_rq := %s; f_eq := %s; f_rem := mkvec %s %s %s; f_obs := %s |}",
			u.Pos(p.Rq), u.Pos(p.Eq), q(p.Rem[0]), q(p.Rem[1]), q(p.Rem[2]), u.Bool(o.Fits[i] == obsTrue)))
	}
	rc := fmt.Sprintf("{| rc_queue := %s; rc_res := %s; rc_preemptible := %s |}", u.Pos(sc.RcQueue), resTerm(sc.RcRes), u.Bool(sc.Preemptible))
	return fmt.Sprintf("(Fn {| k_m := %s; k_qs := %s; k_rc := %s; k_victims := %s; k_can := %s; k_true := %s; k_false := %s; k_panic := %s; k_fits := %s |})",
		q(sc.M), u.ListOf(sc.Queues, queueTerm), rc, u.List(vs), o.Can, u.Bool(o.RecTrue), u.Bool(o.RecFalse), u.Bool(o.RecPanic), u.List(fits))
}

// ---- exactness check ---------------------------------------------------------------

func isPow2(x float64) bool {
	if x <= 0 {
		return true // 0, -1 (unlimited) and malformed negatives never reach the division
	}
	fr, _ := math.Frexp(x)
	return fr == 0.5
}

func checkExact(sc *scenario) error {
	onGrid := func(x float64) bool {
		y := x * 1024
		return y == math.Trunc(y) && math.Abs(x) < 1<<40
	}
	for _, qq := range sc.Queues {
		for _, s := range []share{qq.CPU, qq.Mem, qq.GPU} {
			for _, x := range []float64{s.D, s.F, s.Mx, s.A, s.NP} {
				if !onGrid(x) {
					return fmt.Errorf("quantity %v of q%d not on the dyadic grid", x, qq.ID)
				}
			}
			if sc.M != 1 && sc.M != 2 && !isPow2(s.F) {
				return fmt.Errorf("fair share %v of q%d not a power of two with multiplier %v", s.F, qq.ID, sc.M)
			}
		}
	}
	all := []rspec{sc.RcRes}
	for _, v := range sc.Victims {
		all = append(all, v.Res...)
	}
	for _, r := range all {
		for _, x := range []float64{r.CPU, r.Mem, r.GPUs} {
			if !onGrid(x) {
				return fmt.Errorf("resource quantity %v not on the dyadic grid", x)
			}
		}
	}
	return nil
}

// ---- generator -------------------------------------------------------------------------

type gen struct {
	r         *u.Rng
	malformed bool
	pow2Fair  bool
}

// dyadic quantity for resource i (0 cpu, 1 mem, 2 gpu): k quarter-units, k in [0,maxK]
func (g *gen) qty(i int, maxK int) float64 {
	k := g.r.Intn(maxK + 1)
	if i != 2 && g.r.Chance(2, 3) {
		k = k / 4 * 4 // whole units most of the time for cpu/mem
	}
	return float64(k) / 4 * []float64{cpuUnit, memUnit, 1}[i]
}

func unitOf(i int) float64 { return []float64{cpuUnit, memUnit, 1}[i] }

func (g *gen) fair(i int, around float64) float64 {
	r := g.r
	if r.Chance(1, 14) {
		return -1
	}
	if r.Chance(1, 12) {
		return 0
	}
	if g.pow2Fair {
		return math.Ldexp(1, r.Range(-1, 4)) * unitOf(i)
	}
	switch r.Intn(4) {
	case 0:
		return around
	case 1:
		return math.Max(0, around-unitOf(i)*float64(r.Range(1, 4))/4*float64(r.Range(1, 4)))
	case 2:
		return around + unitOf(i)*float64(r.Range(1, 8))/4
	default:
		return g.qty(i, 40)
	}
}

func getShare(qq *qspec, i int) *share {
	switch i {
	case 0:
		return &qq.CPU
	case 1:
		return &qq.Mem
	}
	return &qq.GPU
}

func (g *gen) tree() ([]qspec, []int) {
	r := g.r
	var qs []qspec
	next := 1
	add := func(parent int) int {
		qs = append(qs, qspec{ID: next, Parent: parent})
		next++
		return next - 1
	}
	nTop := r.Range(1, 3)
	for t := 0; t < nTop; t++ {
		top := add(0)
		nc := r.Intn(4)
		if nTop == 1 && nc < 2 && r.Chance(3, 4) {
			nc = 2
		}
		for c := 0; c < nc; c++ {
			ch := add(top)
			if r.Chance(1, 4) {
				for gch, n := 0, r.Range(1, 2); gch < n; gch++ {
					add(ch)
				}
			}
		}
	}
	children := map[int][]int{}
	for _, x := range qs {
		children[x.Parent] = append(children[x.Parent], x.ID)
	}
	var leaves []int
	for _, x := range qs {
		if len(children[x.ID]) == 0 {
			leaves = append(leaves, x.ID)
		}
	}
	byID := func(id int) *qspec { return &qs[id-1] }
	// leaves first (ids are assigned parent-before-child, so walk backwards)
	for k := len(qs) - 1; k >= 0; k-- {
		x := &qs[k]
		for i := 0; i < 3; i++ {
			s := getShare(x, i)
			if len(children[x.ID]) == 0 {
				if i != 2 && r.Chance(1, 4) {
					s.A = 0
				} else {
					s.A = g.qty(i, 24)
				}
				s.NP = 0
				if r.Chance(1, 2) {
					s.NP = math.Min(s.A, g.qty(i, 12))
				}
				switch r.Intn(6) {
				case 0:
					s.D = 0
				case 1:
					s.D = -1
					if r.Chance(2, 3) {
						s.D = s.A
					}
				case 2:
					s.D = s.A
				default:
					s.D = g.qty(i, 12)
				}
			} else {
				sumA, sumNP, sumD := 0.0, 0.0, 0.0
				unl := false
				for _, c := range children[x.ID] {
					cs := getShare(byID(c), i)
					sumA += cs.A
					sumNP += cs.NP
					if cs.D == -1 {
						unl = true
					} else {
						sumD += cs.D
					}
				}
				s.A, s.NP, s.D = sumA, sumNP, sumD
				if unl && r.Chance(1, 2) {
					s.D = -1
				}
				if r.Chance(1, 5) {
					s.D = g.qty(i, 40)
				}
				if g.malformed && r.Chance(1, 3) {
					s.A = g.qty(i, 40)
				}
			}
			base := s.D
			if base < 0 || r.Bool() {
				base = s.A
			}
			s.F = g.fair(i, base)
			s.Mx = -1
			if r.Chance(1, 4) {
				s.Mx = g.qty(i, 48)
				if r.Chance(1, 2) {
					s.Mx = math.Max(s.Mx, s.A)
				}
			}
			if g.malformed && r.Chance(1, 10) {
				s.F = -unitOf(i) * float64(r.Range(2, 6)) / 2 // negative, not the sentinel
			}
		}
	}
	return qs, leaves
}

func (g *gen) res(capacity [3]float64, small bool) rspec {
	r := g.r
	var out rspec
	vals := [3]float64{}
	for i := 0; i < 3; i++ {
		if i != 2 && r.Chance(1, 3) {
			continue
		}
		mk := 8
		if small {
			mk = 6
		}
		v := g.qty(i, mk)
		if capacity[i] >= 0 && v > capacity[i] {
			v = capacity[i]
		}
		vals[i] = v
	}
	out.CPU, out.Mem, out.GPUs = vals[0], vals[1], vals[2]
	return out
}

func (g *gen) scenario() *scenario {
	r := g.r
	sc := &scenario{}
	sc.M = u.Pick(r, []float64{1, 1, 1, 2, 1.5, 1.25})
	if g.malformed && r.Chance(1, 6) {
		sc.M = u.Pick(r, []float64{0.5, 0, -1, 4})
	}
	g.pow2Fair = sc.M != 1 && sc.M != 2
	qs, leaves := g.tree()
	sc.Queues = qs
	byID := func(id int) *qspec { return &sc.Queues[id-1] }
	sc.RcQueue = u.Pick(r, leaves)
	sc.Preemptible = !r.Chance(1, 3)
	sc.RcRes = g.res([3]float64{-1, -1, -1}, true)
	if r.Chance(1, 8) {
		sc.RcRes.Mig1 = int64(r.Range(1, 2))
		if r.Chance(2, 3) {
			sc.RcRes.GPUs = 0
		}
		if r.Chance(1, 3) {
			sc.RcRes.Mig2 = 1
		}
	}
	// half of the time the reclaimer's queue and its ancestors have room within their fair share
	if r.Bool() {
		req := [3]float64{sc.RcRes.CPU, sc.RcRes.Mem, sc.RcRes.GPUs + float64(sc.RcRes.Mig1+2*sc.RcRes.Mig2)}
		for id := sc.RcQueue; id != 0; id = byID(id).Parent {
			for i := 0; i < 3; i++ {
				s := getShare(byID(id), i)
				need := s.A + req[i]
				if r.Chance(1, 6) {
					need += unitOf(i) * float64(r.Range(1, 8)) / 4
				}
				if s.F != -1 && s.F < need {
					s.F = need
					if g.pow2Fair && need > 0 {
						_, e := math.Frexp(need)
						s.F = math.Ldexp(1, e)
						if s.F/2 == need {
							s.F = need
						}
					}
				}
			}
		}
	}
	// reclaimee queues
	var cands []int
	for _, l := range leaves {
		if l != sc.RcQueue {
			cands = append(cands, l)
		}
	}
	if g.malformed && r.Chance(1, 2) {
		cands = nil
		for _, x := range sc.Queues {
			cands = append(cands, x.ID)
		}
	}
	u.Shuffle(r, cands)
	nk := r.Range(1, 3)
	if r.Chance(1, 12) {
		nk = 0
	}
	if g.malformed && r.Chance(1, 8) {
		nk = 4
	}
	if nk > len(cands) {
		nk = len(cands)
	}
	keys := append([]int{}, cands[:nk]...)
	sort.Ints(keys)
	for _, k := range keys {
		x := byID(k)
		capacity := [3]float64{x.CPU.A, x.Mem.A, x.GPU.A}
		nv := r.Range(1, 3)
		if r.Chance(1, 15) {
			nv = 0
		}
		v := victims{Queue: k}
		for j := 0; j < nv; j++ {
			c := capacity
			if g.malformed && r.Chance(1, 3) {
				c = [3]float64{-1, -1, -1} // may exceed what the queue holds
			}
			rr := g.res(c, false)
			if r.Chance(1, 12) {
				rr.Mig1 = 1
			}
			for i, val := range []float64{rr.CPU, rr.Mem, rr.GPUs} {
				if capacity[i] >= val {
					capacity[i] -= val
				}
			}
			v.Res = append(v.Res, rr)
		}
		sc.Victims = append(sc.Victims, v)
	}
	if g.malformed {
		switch r.Intn(8) {
		case 0: // reclaimer queue missing
			sc.RcQueue = 90
		case 1: // a reclaimee queue missing
			if len(sc.Victims) < 4 {
				sc.Victims = append(sc.Victims, victims{Queue: 91, Res: []rspec{{GPUs: 1}}})
			}
		case 2: // dangling parent
			byID(r.Range(1, len(sc.Queues))).Parent = 95
		case 3: // reclaimer in a non-leaf queue
			sc.RcQueue = r.Range(1, len(sc.Queues))
		}
	}
	// direct FitsReclaimStrategy probes
	for p, n := 0, r.Range(1, 3); p < n; p++ {
		rq, eq := byID(r.Range(1, len(sc.Queues))), byID(r.Range(1, len(sc.Queues)))
		var rem [3]float64
		for i := 0; i < 3; i++ {
			s := getShare(eq, i)
			switch r.Intn(6) {
			case 0:
				rem[i] = s.A
			case 1:
				rem[i] = math.Max(s.D, 0)
			case 2:
				rem[i] = math.Max(s.F, 0)
			case 3:
				rem[i] = math.Max(0, s.A-unitOf(i)*float64(r.Range(1, 8))/4)
			case 4:
				rem[i] = math.Max(s.D, 0) + unitOf(i)/4
			default:
				rem[i] = g.qty(i, 40)
			}
			if g.malformed && r.Chance(1, 12) {
				rem[i] = -1
			}
		}
		sc.Probes = append(sc.Probes, probe{Rq: rq.ID, Eq: eq.ID, Rem: rem})
	}
	return sc
}

// ---- fixed boundary corpus -------------------------------------------------------------

func sh(d, f, mx, a, np float64) share { return share{D: d, F: f, Mx: mx, A: a, NP: np} }

func gq(id, parent int, g share) qspec {
	z := sh(0, 0, -1, 0, 0)
	return qspec{ID: id, Parent: parent, CPU: z, Mem: z, GPU: g}
}

func corpus() []*scenario {
	var out []*scenario
	// order dependence witness (C07_order_independent_refuted)
	wq := []qspec{gq(1, 0, sh(4, 4, -1, 0, 0)), gq(2, 0, sh(4, 4, -1, 5, 0)), gq(3, 2, sh(2, 2, -1, 3, 0)),
		gq(4, 2, sh(2, 2, -1, 2, 0)), gq(5, 1, sh(4, 4, -1, 0, 0))}
	out = append(out, &scenario{M: 1, Queues: wq, RcQueue: 5, RcRes: rspec{GPUs: 1}, Preemptible: true,
		Victims: []victims{{Queue: 3, Res: []rspec{{GPUs: 2}}}, {Queue: 4, Res: []rspec{{GPUs: 0.5}}}}})
	out = append(out, &scenario{M: 1, Queues: wq, RcQueue: 5, RcRes: rspec{GPUs: 1}, Preemptible: true,
		Victims: []victims{{Queue: 3, Res: []rspec{{GPUs: 2}, {GPUs: 0.5}}}}})
	out = append(out, &scenario{M: 1, Queues: wq, RcQueue: 5, RcRes: rspec{GPUs: 1}, Preemptible: true,
		Victims: []victims{{Queue: 3, Res: []rspec{{GPUs: 0.5}, {GPUs: 2}}}}})
	// sentinel collision witness (C07_protected_queue_untouched_unconditional_refuted)
	sq := []qspec{{ID: 1, CPU: sh(20, 20, -1, 0, 0), Mem: sh(0, 0, -1, 0, 0), GPU: sh(4, 4, -1, 0, 0)},
		{ID: 2, CPU: sh(5, 5, -1, 10, 0), Mem: sh(0, 0, -1, 0, 0), GPU: sh(4, 4, -1, 1, 0)}}
	out = append(out, &scenario{M: 1, Queues: sq, RcQueue: 1, RcRes: rspec{CPU: 1}, Preemptible: true,
		Victims: []victims{{Queue: 2, Res: []rspec{{CPU: 6, GPUs: 2}, {CPU: 1}}}}})
	// saturation ties and near ties, multipliers 1, 2, 1.5
	for _, m := range []float64{1, 2, 1.5} {
		for _, bAlloc := range []float64{4, 5, 7, 10} {
			for _, aAlloc := range []float64{1, 2, 3} {
				tq := []qspec{gq(1, 0, sh(2, 2, -1, aAlloc, 0)), gq(2, 0, sh(2, 2, -1, bAlloc, 0))}
				out = append(out, &scenario{M: m, Queues: tq, RcQueue: 1, RcRes: rspec{GPUs: 1}, Preemptible: true,
					Victims: []victims{{Queue: 2, Res: []rspec{{GPUs: 1}}}}})
			}
		}
	}
	// fair share 0 (infinite saturation), unlimited fair shares, multiplier 0
	for _, m := range []float64{1, 0, -1} {
		for _, fa := range []float64{0, -1, 2} {
			for _, fb := range []float64{0, -1, 2} {
				tq := []qspec{gq(1, 0, sh(0, fa, -1, 1, 0)), gq(2, 0, sh(1, fb, -1, 4, 0))}
				out = append(out, &scenario{M: m, Queues: tq, RcQueue: 1, RcRes: rspec{GPUs: 1}, Preemptible: true,
					Victims: []victims{{Queue: 2, Res: []rspec{{GPUs: 1}}}}})
			}
		}
	}
	// non-preemptible reclaimer: over quota only at the parent, at the leaf, nowhere
	for _, npParent := range []float64{0, 2, 3} {
		for _, npLeaf := range []float64{0, 1, 2} {
			tq := []qspec{gq(1, 0, sh(3, 8, -1, 2, npParent)), gq(2, 1, sh(2, 8, -1, 2, npLeaf)),
				gq(3, 0, sh(1, 1, -1, 6, 0)), gq(4, 3, sh(1, 1, -1, 6, 0))}
			out = append(out, &scenario{M: 1, Queues: tq, RcQueue: 2, RcRes: rspec{GPUs: 1}, Preemptible: false,
				Victims: []victims{{Queue: 4, Res: []rspec{{GPUs: 2}}}}})
		}
	}
	// MIG-only reclaimer and victim: GPU is charged but not "involved"
	mq := []qspec{gq(1, 0, sh(2, 2, -1, 2, 0)), gq(2, 0, sh(2, 2, -1, 5, 0))}
	out = append(out, &scenario{M: 1, Queues: mq, RcQueue: 1, RcRes: rspec{Mig1: 1}, Preemptible: true,
		Victims: []victims{{Queue: 2, Res: []rspec{{Mig1: 1}}}}})
	out = append(out, &scenario{M: 1, Queues: mq, RcQueue: 1, RcRes: rspec{GPUs: 1}, Preemptible: true,
		Victims: []victims{{Queue: 2, Res: []rspec{{Mig2: 1}}}}})
	// missing queues
	out = append(out, &scenario{M: 1, Queues: mq, RcQueue: 9, RcRes: rspec{GPUs: 1}, Preemptible: true})
	out = append(out, &scenario{M: 1, Queues: mq, RcQueue: 9, RcRes: rspec{GPUs: 1}, Preemptible: true,
		Victims: []victims{{Queue: 2, Res: []rspec{{GPUs: 1}}}}})
	out = append(out, &scenario{M: 1, Queues: mq, RcQueue: 1, RcRes: rspec{GPUs: 1}, Preemptible: true,
		Victims: []victims{{Queue: 8, Res: []rspec{{GPUs: 1}}}}})
	// reclaimee is the reclaimer's own queue / its parent
	pq := []qspec{gq(1, 0, sh(2, 2, -1, 4, 0)), gq(2, 1, sh(1, 1, -1, 4, 0))}
	out = append(out, &scenario{M: 1, Queues: pq, RcQueue: 2, RcRes: rspec{GPUs: 1}, Preemptible: true,
		Victims: []victims{{Queue: 2, Res: []rspec{{GPUs: 1}}}}})
	out = append(out, &scenario{M: 1, Queues: pq, RcQueue: 2, RcRes: rspec{GPUs: 1}, Preemptible: true,
		Victims: []victims{{Queue: 1, Res: []rspec{{GPUs: 1}}}, {Queue: 2, Res: []rspec{{CPU: 256}}}}})
	// limit below deserved quota
	lq := []qspec{gq(1, 0, sh(4, 4, -1, 0, 0)), gq(2, 0, sh(4, 4, 2, 3, 0))}
	out = append(out, &scenario{M: 1, Queues: lq, RcQueue: 1, RcRes: rspec{GPUs: 1}, Preemptible: true,
		Victims: []victims{{Queue: 2, Res: []rspec{{GPUs: 1}, {GPUs: 1}}}},
		Probes: []probe{{Rq: 1, Eq: 2, Rem: [3]float64{0, 0, 3}}, {Rq: 1, Eq: 2, Rem: [3]float64{0, 0, 2}}, {Rq: 2, Eq: 1, Rem: [3]float64{0, 0, 5}}}})
	return out
}

// ---- run ------------------------------------------------------------------------------------

func depthOf(sc *scenario) int {
	par := map[int]int{}
	for _, x := range sc.Queues {
		par[x.ID] = x.Parent
	}
	best := 0
	for _, x := range sc.Queues {
		d, id := 0, x.ID
		for id != 0 && d < 10 {
			p, ok := par[id]
			if !ok {
				break
			}
			d++
			id = p
		}
		if d > best {
			best = d
		}
	}
	return best
}

// Run generates n cases from seed and writes them under dir.
func Run(dir string, seed uint64, n int) error {
	out := u.NewOut(dir, "C07", "KaiV.Run.C07", "case", 100)
	root := u.NewRng(seed)
	var firstErr error
	emit := func(sc *scenario, origin string, r *u.Rng) {
		sort.Slice(sc.Victims, func(i, j int) bool { return sc.Victims[i].Queue < sc.Victims[j].Queue })
		if err := checkExact(sc); err != nil {
			if firstErr == nil {
				firstErr = fmt.Errorf("%s: %v", origin, err)
			}
			return
		}
		o := observe(sc, r)
		js, _ := json.Marshal(sc)
		label := origin + " " + string(js)
		out.Add(caseTerm(sc, o), label)
		out.Count("origin:" + origin)
		out.Count(fmt.Sprintf("depth:%d", depthOf(sc)))
		out.Count(fmt.Sprintf("queues:%d", len(sc.Queues)))
		out.Count(fmt.Sprintf("reclaimee_queues:%d", len(sc.Victims)))
		nv := 0
		for _, v := range sc.Victims {
			nv += len(v.Res)
		}
		out.Count(fmt.Sprintf("victims:%d", nv))
		out.Count(fmt.Sprintf("multiplier:%v", sc.M))
		out.Count(fmt.Sprintf("preemptible:%v", sc.Preemptible))
		out.Count("can_reclaim:" + o.Can)
		verdict := ""
		if o.RecTrue {
			verdict += "T"
		}
		if o.RecFalse {
			verdict += "F"
		}
		if o.RecPanic {
			verdict += "P"
		}
		out.Count("reclaimable:" + verdict)
		if len(verdict) > 1 {
			out.Count("reclaimable_order_dependent_on_go")
		}
		for _, f := range o.Fits {
			out.Count("fits:" + f)
		}
		if nv > 0 && len(sc.Queues) >= 2 {
			shape := []string{}
			for _, x := range sc.Queues {
				shape = append(shape, fmt.Sprintf("%d<%d", x.ID, x.Parent))
			}
			keys := []string{}
			for _, v := range sc.Victims {
				keys = append(keys, fmt.Sprintf("%d:%d", v.Queue, len(v.Res)))
			}
			out.NonTrivial(fmt.Sprintf("%s|rc%d|%v|%s|m%v|%s|%s", strings.Join(shape, ","), sc.RcQueue, sc.Preemptible,
				strings.Join(keys, ","), sc.M, o.Can, verdict))
		}
		out.Sample(map[string]any{"scenario": sc, "observed": o})
	}
	for i, sc := range corpus() {
		emit(sc, "corpus", root.Fork(uint64(1000000+i)))
	}
	for i := 0; i < n; i++ {
		r := root.Fork(uint64(i))
		g := &gen{r: r, malformed: i%4 == 3}
		sc := g.scenario()
		if g.malformed {
			emit(sc, "malformed", r)
		} else {
			emit(sc, "structured", r)
		}
	}
	if firstErr != nil {
		return firstErr
	}
	nsess := n / 2
	if nsess < 60 {
		nsess = 60
	}
	runSessions(out, root, nsess)
	out.Stats["session_stream"] = fmt.Sprintf("%d generated sessions + %d corpus sessions", nsess, len(sessionCorpus()))
	out.Stats["rule"] = "queue trees of depth 1-3 (1-3 departments, 0-3 children, occasional grandchildren) with dyadic quotas incl. 0 and -1, limits, fair shares around quota/allocation, parent allocation = sum of children; reclaimer in a leaf; 0-3 reclaimee leaf queues with 0-3 victims each sized within the queue's allocation (3/4 structured); 1/4 malformed (victims larger than the allocation, non-leaf / missing reclaimee or reclaimer queues, dangling parents, negative fair shares, multipliers < 1) after a fixed boundary corpus (order-dependence and sentinel witnesses, saturation ties for m = 1, 2, 1.5, fair share 0 / unlimited, non-preemptible bounds per level, MIG, missing queues); Reclaimable is called 2-20 times per case with shuffled map insertion; non-trivial = at least one victim and two queues; distinct by (tree shape, reclaimer, reclaimee queues and victim counts, multiplier, verdicts). SESSION STREAM (n/2 sessions after a fixed corpus of 4: the two-reclaimers cluster of seeded/C07-2, its single-reclaimer control, its department-level variant, two legitimate commits): the real allocate and reclaim actions on real sessions (default plugins) over generated clusters: 2-3 full nodes of 2-5 GPUs, 1-2 departments, 2-5 leaf queues with deserved quotas below / exactly at / above their holdings, over-quota weights 0-2, occasional limits, CPU quotas and queue priorities, running 1-GPU jobs (some 2-GPU pods and 2-pod gangs), 2-4 pending reclaimer jobs of one or several queues (some non-preemptible, some 2-pod / 2-GPU), 2/3 of them restricted to one node by node affinity; half of the sessions are of the family drain (a node full of one victim queue, or of two leaf queues of one department, that is 0-2 GPUs over its quota, 2-4 reclaimers restricted to that node, another over-quota queue on a node they cannot use), half random. Per session the distribution records pending reclaimers (session_pending_reclaimers:k), committed reclaim statements (session_commits:k, session_commits_total, commits without eviction / placing >= 2 pods / with victims of 2 queues), sessions with >= 2 commits, sessions in which >= 2 commits took victims from the same leaf queue (sessions_with_2_or_more_commits_on_one_victim_queue) and sessions in which a commit left a victim queue (or its department) at or below its deserved GPUs while reclaimers were still pending (sessions_victim_queue_brought_to_quota_with_reclaimers_left); sessions whose recomputed fair shares differ from the session getters, are not reproducible or are off the dyadic grid are dropped and counted (session_dropped:*). A session is non-trivial when at least one reclaim statement was committed; distinct by (family, queue / node / reclaimer counts, commit shapes, same-queue and brought-to-quota flags)"
	return out.Flush()
}
