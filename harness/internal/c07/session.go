package c07

// session.go: the session-level stream of C07. A generated cluster (nodes, a two-level
// queue tree, running and pending whole-GPU jobs, some pending jobs restricted to one
// node) is turned into a real session (the real plugins opened on real NodeInfo /
// PodGroupInfo / QueueInfo objects built by test_utils' builders), then the REAL allocate
// and reclaim actions run on it. Every Bind / Evict / TaskPipelined call that reaches
// the cache is recorded in call order; the calls of the reclaim action are cut into
// commits (a run of Evict calls with one preemptor followed by TaskPipelined calls).
// What is handed to Coq (Run/C07.v, constructor Ssn) is the queue tree with the quotas,
// limits and fair shares of the session, every pod (queue, job, resources,
// preemptibility, allocated in the snapshot or not) and the recorded calls; the
// allocations before each commit are recomputed THERE from the pods.
//
// Fair shares: the plugin's exact values are not exported (Session.QueueFairShare
// truncates GPUs), so they are recomputed with the real
// resource_division.SetResourcesShare on queue attributes built the way
// proportion.createQueueResourceAttrs / updateQueuesCurrentResourceUsage /
// setFairShareForQueues build them, and cross-checked against the truncated session
// getters; a session whose values do not match, are not reproducible or are not on
// the dyadic grid (see the exactness discipline in c07.go) is dropped and counted.

import (
	"fmt"
	"math"
	"os"
	"runtime/debug"
	"sort"
	"strings"

	"go.uber.org/mock/gomock"
	v1 "k8s.io/api/core/v1"
	"k8s.io/client-go/informers"
	"k8s.io/client-go/kubernetes"
	k8sfake "k8s.io/client-go/kubernetes/fake"
	k8sframework "k8s.io/kubernetes/pkg/scheduler/framework"

	"github.com/NVIDIA/KAI-scheduler/pkg/common/constants"
	"github.com/NVIDIA/KAI-scheduler/pkg/scheduler/actions"
	"github.com/NVIDIA/KAI-scheduler/pkg/scheduler/api"
	"github.com/NVIDIA/KAI-scheduler/pkg/scheduler/api/common_info"
	"github.com/NVIDIA/KAI-scheduler/pkg/scheduler/api/eviction_info"
	"github.com/NVIDIA/KAI-scheduler/pkg/scheduler/api/node_info"
	"github.com/NVIDIA/KAI-scheduler/pkg/scheduler/api/pod_info"
	"github.com/NVIDIA/KAI-scheduler/pkg/scheduler/api/pod_status"
	"github.com/NVIDIA/KAI-scheduler/pkg/scheduler/api/podgroup_info"
	"github.com/NVIDIA/KAI-scheduler/pkg/scheduler/api/queue_info"
	"github.com/NVIDIA/KAI-scheduler/pkg/scheduler/api/resource_info"
	"github.com/NVIDIA/KAI-scheduler/pkg/scheduler/cache"
	"github.com/NVIDIA/KAI-scheduler/pkg/scheduler/cache/cluster_info"
	"github.com/NVIDIA/KAI-scheduler/pkg/scheduler/conf"
	"github.com/NVIDIA/KAI-scheduler/pkg/scheduler/framework"
	k8splugins "github.com/NVIDIA/KAI-scheduler/pkg/scheduler/k8s_internal/plugins"
	"github.com/NVIDIA/KAI-scheduler/pkg/scheduler/k8s_utils"
	"github.com/NVIDIA/KAI-scheduler/pkg/scheduler/plugins"
	"github.com/NVIDIA/KAI-scheduler/pkg/scheduler/plugins/proportion/resource_division"
	rs "github.com/NVIDIA/KAI-scheduler/pkg/scheduler/plugins/proportion/resource_share"
	putils "github.com/NVIDIA/KAI-scheduler/pkg/scheduler/plugins/proportion/utils"
	"github.com/NVIDIA/KAI-scheduler/pkg/scheduler/test_utils"
	"github.com/NVIDIA/KAI-scheduler/pkg/scheduler/test_utils/jobs_fake"
	"github.com/NVIDIA/KAI-scheduler/pkg/scheduler/test_utils/nodes_fake"
	"github.com/NVIDIA/KAI-scheduler/pkg/scheduler/test_utils/tasks_fake"

	u "kaiverif/internal/util"
)

// ---- cluster description ------------------------------------------------------------

type snode struct {
	Name string
	GPUs int
	CPUs int // cores; 0 = the builder's default (plenty)
}

// squeue is a department (Parent == "") or a leaf queue.
type squeue struct {
	Name, Parent string
	Deserved     float64 // GPUs; -1 = unlimited
	Limit        float64 // GPUs; 0 = none
	OverQuota    float64 // GPU over-quota weight
	DeservedCPU  float64 // milli-CPUs; 0 = unlimited
	Priority     int
}

type stask struct {
	Node string // running on (allocated in the snapshot) when non-empty
	Only string // pending: node affinity to this single node when non-empty
}

type sjob struct {
	Name, Queue string
	GPUs        int // per task
	CPUs        int // cores per task
	NonPreempt  bool
	Tasks       []stask // all tasks of a job form one gang (minAvailable = number of tasks)
}

type scluster struct {
	Family string
	Nodes  []snode
	Queues []squeue // departments first
	Jobs   []sjob
}

func (c *scluster) describe() string {
	var sb strings.Builder
	sb.WriteString("nodes[")
	for i, n := range c.Nodes {
		if i > 0 {
			sb.WriteString(" ")
		}
		fmt.Fprintf(&sb, "%s:gpu%d", n.Name, n.GPUs)
		if n.CPUs > 0 {
			fmt.Fprintf(&sb, ",cpu%d", n.CPUs)
		}
	}
	sb.WriteString("] queues[")
	for i, q := range c.Queues {
		if i > 0 {
			sb.WriteString(" ")
		}
		fmt.Fprintf(&sb, "%s<%s:q%g,l%g,w%g", q.Name, q.Parent, q.Deserved, q.Limit, q.OverQuota)
		if q.DeservedCPU > 0 {
			fmt.Fprintf(&sb, ",cpuq%g", q.DeservedCPU)
		}
		if q.Priority != 0 {
			fmt.Fprintf(&sb, ",pri%d", q.Priority)
		}
	}
	sb.WriteString("] jobs[")
	for i, j := range c.Jobs {
		if i > 0 {
			sb.WriteString(" ")
		}
		np := ""
		if j.NonPreempt {
			np = ",nonpreemptible"
		}
		fmt.Fprintf(&sb, "%s(q=%s,g%d", j.Name, j.Queue, j.GPUs)
		if j.CPUs > 0 {
			fmt.Fprintf(&sb, ",c%d", j.CPUs)
		}
		fmt.Fprintf(&sb, "%s:", np)
		for k, t := range j.Tasks {
			if k > 0 {
				sb.WriteString(",")
			}
			switch {
			case t.Node != "":
				sb.WriteString("running@" + t.Node)
			case t.Only != "":
				sb.WriteString("pending->" + t.Only)
			default:
				sb.WriteString("pending")
			}
		}
		sb.WriteString(")")
	}
	sb.WriteString("]")
	return sb.String()
}

// ---- the session ----------------------------------------------------------------------

type call struct {
	Kind      string // bind | evict | pipe
	Pod       string
	Node      string
	Action    string
	Preemptor string
}

type srecorder struct {
	cache.Cache
	calls []call
}

func (r *srecorder) Bind(p *pod_info.PodInfo, hostname string, ann map[string]string) error {
	r.calls = append(r.calls, call{Kind: "bind", Pod: p.Name, Node: hostname})
	return nil
}

func (r *srecorder) Evict(pod *v1.Pod, job *podgroup_info.PodGroupInfo, md eviction_info.EvictionMetadata, msg string) error {
	c := call{Kind: "evict", Pod: pod.Name, Action: md.Action}
	if md.Preemptor != nil {
		c.Preemptor = md.Preemptor.Name
	}
	r.calls = append(r.calls, c)
	return nil
}

func (r *srecorder) TaskPipelined(t *pod_info.PodInfo, msg string) {
	r.calls = append(r.calls, call{Kind: "pipe", Pod: t.Name, Node: t.NodeName})
}

// sfakeCache is the Cache the session is opened with (as harness/internal/c06 and c04:
// fake clientset, un-started informers, the shared lister of the in-session pod-affinity
// info and the real upstream plugins).
type sfakeCache struct {
	cache.Cache
	client  *k8sfake.Clientset
	factory informers.SharedInformerFactory
	lister  *cache.K8sClusterPodAffinityInfo
	plugins *k8splugins.K8sPlugins
}

func (f *sfakeCache) KubeClient() kubernetes.Interface                     { return f.client }
func (f *sfakeCache) KubeInformerFactory() informers.SharedInformerFactory { return f.factory }
func (f *sfakeCache) SnapshotSharedLister() k8sframework.NodeInfoLister    { return f.lister }
func (f *sfakeCache) InternalK8sPlugins() *k8splugins.K8sPlugins           { return f.plugins }
func (f *sfakeCache) RecordJobStatusEvent(_ *podgroup_info.PodGroupInfo) error {
	return nil
}

type sreporter struct{ msgs []string }

func (r *sreporter) Errorf(format string, args ...any) {
	r.msgs = append(r.msgs, fmt.Sprintf(format, args...))
}
func (r *sreporter) Fatalf(format string, args ...any) {
	r.msgs = append(r.msgs, fmt.Sprintf(format, args...))
}

var sessionInit bool

type built struct {
	ssn    *framework.Session
	rec    *srecorder
	jobs   map[common_info.PodGroupID]*podgroup_info.PodGroupInfo
	nodes  map[string]*node_info.NodeInfo
	queues map[common_info.QueueID]*queue_info.QueueInfo
}

// buildSession mirrors test_utils.BuildSession / CreateFakeSession: the same builders for
// jobs, nodes and queues, the same Session fields and overrides, every plugin of the
// default tiers opened on it.
func buildSession(c *scluster) *built {
	if !sessionInit {
		actions.InitDefaultActions()
		plugins.InitDefaultPlugins()
		ctrl := gomock.NewController(&sreporter{})
		hm := k8s_utils.NewMockInterface(ctrl)
		hm.EXPECT().PatchPodAnnotationsAndLabelsInterface(gomock.Any(), gomock.Any(), gomock.Any(), gomock.Any()).Return(nil).AnyTimes()
		k8s_utils.Helpers = hm
		sessionInit = true
	}
	meta := test_utils.TestTopologyBasic{Name: "c07", DisableDefaultDepartment: true, Nodes: map[string]nodes_fake.TestNodeBasic{}}
	for _, n := range c.Nodes {
		meta.Nodes[n.Name] = nodes_fake.TestNodeBasic{GPUs: n.GPUs, CPUMillis: float64(n.CPUs) * 1000}
	}
	for _, q := range c.Queues {
		prio := q.Priority
		tq := test_utils.TestQueueBasic{Name: q.Name, ParentQueue: q.Parent, DeservedGPUs: q.Deserved,
			MaxAllowedGPUs: q.Limit, GPUOverQuotaWeight: q.OverQuota, Priority: &prio}
		if q.DeservedCPU > 0 {
			d := q.DeservedCPU
			tq.DeservedCPUs = &d
		}
		meta.Queues = append(meta.Queues, tq)
	}
	for i := range c.Jobs {
		j := &c.Jobs[i]
		tj := &jobs_fake.TestJobBasic{Name: j.Name, QueueName: j.Queue, RequiredGPUsPerTask: float64(j.GPUs),
			RequiredCPUsPerTask: float64(j.CPUs), Priority: 50, Namespace: "ns",
			// distinct, generation-ordered creation times (the builder's default depends on its own sort)
			JobAgeInMinutes: 1000 - i}
		if j.NonPreempt {
			tj.Priority = 100
		}
		for _, t := range j.Tasks {
			tt := &tasks_fake.TestTaskBasic{State: pod_status.Pending}
			if t.Node != "" {
				tt.State = pod_status.Running
				tt.NodeName = t.Node
			} else if t.Only != "" {
				tt.NodeAffinityNames = []string{t.Only}
			}
			tj.Tasks = append(tj.Tasks, tt)
		}
		meta.Jobs = append(meta.Jobs, tj)
	}
	vm := resource_info.NewResourceVectorMap()
	jobs, tasksToNode, _ := jobs_fake.BuildJobsAndTasksMaps(meta.Jobs, vm)
	cpai := cache.NewK8sClusterPodAffinityInfo()
	nodes := nodes_fake.BuildNodesInfoMap(meta.Nodes, tasksToNode, cpai, vm)
	queues := test_utils.BuildQueueInfoMap(meta)
	cluster_info.UpdateQueueHierarchy(queues)
	tiers := test_utils.BuildPlugins(meta)

	ssn := &framework.Session{
		Config: &conf.SchedulerConfiguration{Tiers: tiers},
		ClusterInfo: &api.ClusterInfo{Nodes: nodes, Queues: queues, PodGroupInfos: jobs,
			MinNodeGPUMemory: node_info.DefaultGpuMemory},
		SchedulerParams: conf.SchedulerParams{QueueLabelKey: constants.DefaultQueueLabel},
	}
	ssn.OverrideMaxNumberConsolidationPreemptees(-1)
	ssn.OverrideAllowConsolidatingReclaim(true)
	ssn.OverrideSchedulerName("kai-scheduler")
	fc := &sfakeCache{client: k8sfake.NewSimpleClientset(), lister: cpai}
	fc.factory = informers.NewSharedInformerFactory(fc.client, 0)
	fc.plugins = k8splugins.InitializeInternalPlugins(fc.client, fc.factory, cpai)
	ssn.Cache = fc
	for _, tier := range tiers {
		for _, plugin := range tier.Plugins {
			pb, found := framework.GetPluginBuilder(plugin.Name)
			if !found {
				continue
			}
			pb(plugin.Arguments).OnSessionOpen(ssn)
		}
	}
	b := &built{ssn: ssn, jobs: jobs, nodes: nodes, queues: queues}
	b.rec = &srecorder{Cache: ssn.Cache}
	ssn.Cache = b.rec
	return b
}

func runAction(b *built, name string) (panicked string) {
	defer func() {
		if r := recover(); r != nil {
			panicked = fmt.Sprintf("%v\n%s", r, debug.Stack())
		}
	}()
	act, ok := framework.GetAction(name)
	if !ok {
		panic("unknown action " + name)
	}
	act.Execute(b.ssn)
	return ""
}

// ---- exact shares --------------------------------------------------------------------------

const mebibytes = 1000 * 1000

// exactAttrs rebuilds the plugin's queue attributes for the snapshot of the session
// (before any action): quotas, limits, weights, requests, allocations and fair shares.
func exactAttrs(b *built) map[common_info.QueueID]*rs.QueueAttributes {
	attrs := map[common_info.QueueID]*rs.QueueAttributes{}
	for id, qi := range b.queues {
		qa := &rs.QueueAttributes{UID: qi.UID, Name: qi.Name, ParentQueue: qi.ParentQueue, ChildQueues: qi.ChildQueues,
			CreationTimestamp: qi.CreationTimestamp, Priority: qi.Priority}
		qa.SetQuotaResources(rs.CpuResource, qi.Resources.CPU.Quota, qi.Resources.CPU.Limit, qi.Resources.CPU.OverQuotaWeight)
		qa.SetQuotaResources(rs.MemoryResource, math.Max(-1, qi.Resources.Memory.Quota*mebibytes),
			math.Max(-1, qi.Resources.Memory.Limit*mebibytes), qi.Resources.Memory.OverQuotaWeight)
		qa.SetQuotaResources(rs.GpuResource, qi.Resources.GPU.Quota, qi.Resources.GPU.Limit, qi.Resources.GPU.OverQuotaWeight)
		attrs[id] = qa
	}
	total := rs.EmptyResourceQuantities()
	for _, n := range b.nodes {
		total.Add(putils.QuantifyResource(n.Allocatable))
	}
	for _, job := range b.jobs {
		for status, tasks := range job.PodStatusIndex {
			for _, t := range tasks {
				var req rs.ResourceQuantities
				alloc := pod_status.AllocatedStatus(status)
				switch {
				case alloc:
					req = putils.QuantifyResourceRequirements(t.AcceptedResource)
				case status == pod_status.Pending:
					req = putils.QuantifyResourceRequirements(t.ResReq)
				default:
					continue
				}
				for qa, ok := attrs[job.Queue]; ok; qa, ok = attrs[qa.ParentQueue] {
					for _, r := range rs.AllResources {
						sh := qa.ResourceShare(r)
						sh.Request += req[r]
						if alloc {
							sh.Allocated += req[r]
							if !job.IsPreemptibleJob() {
								sh.AllocatedNotPreemptible += req[r]
							}
						}
					}
				}
			}
		}
	}
	var divide func(tot rs.ResourceQuantities, qs map[common_info.QueueID]*rs.QueueAttributes)
	divide = func(tot rs.ResourceQuantities, qs map[common_info.QueueID]*rs.QueueAttributes) {
		if len(qs) == 0 {
			return
		}
		resource_division.SetResourcesShare(tot, 1.0, qs)
		for _, q := range qs {
			ch := map[common_info.QueueID]*rs.QueueAttributes{}
			for _, c := range q.ChildQueues {
				if a, ok := attrs[c]; ok {
					ch[c] = a
				}
			}
			divide(q.GetFairShare(), ch)
		}
	}
	top := map[common_info.QueueID]*rs.QueueAttributes{}
	for id, q := range attrs {
		if q.ParentQueue == "" {
			top[id] = q
		}
	}
	divide(total, top)
	return attrs
}

func truncGPU(v float64) float64 {
	if v >= 1 {
		return float64(int64(v))
	}
	return v
}

// sharesMatchSession compares the recomputed attributes with what the session exposes
// (GPU values >= 1 are truncated by the getters).
func sharesMatchSession(b *built, attrs map[common_info.QueueID]*rs.QueueAttributes) bool {
	for id, qi := range b.queues {
		a := attrs[id]
		fs, al := b.ssn.QueueFairShare(qi), b.ssn.QueueAllocatedResources(qi)
		if fs == nil || al == nil {
			return false
		}
		if truncGPU(a.GPU.FairShare) != fs.GetGpusQuota() || a.CPU.FairShare != fs.Cpu() || a.Memory.FairShare != fs.Memory() {
			return false
		}
		if truncGPU(a.GPU.Allocated) != al.GetGpusQuota() || a.CPU.Allocated != al.Cpu() || a.Memory.Allocated != al.Memory() {
			return false
		}
	}
	return true
}

func sameShares(x, y map[common_info.QueueID]*rs.QueueAttributes) bool {
	for id, a := range x {
		bq := y[id]
		for _, r := range rs.AllResources {
			if a.ResourceShare(r).FairShare != bq.ResourceShare(r).FairShare {
				return false
			}
		}
	}
	return true
}

// ---- one session ------------------------------------------------------------------------------

type commitObs struct {
	Preemptor string
	Evicted   []string
	Piped     []string
}

type sessionObs struct {
	Term      string
	Label     string
	Commits   []commitObs
	Pending   int // jobs still pending when reclaim starts
	Bound     int
	Drop      string // non-empty: the session is not emitted (reason)
	Panic     string
	SameQueue bool // >= 2 commits took victims from the same leaf queue
	Drained   bool // after some commit a victim queue (or an ancestor below the top) held <= its deserved GPUs while a reclaimer was still pending
	Mixed     int  // commits with victims from >= 2 leaf queues
	Victims   int
	MultiDept bool
}

func shareOf(s *rs.ResourceShare) share {
	return share{D: s.Deserved, F: s.FairShare, Mx: s.MaxAllowed}
}

func runSession(c *scluster) sessionObs {
	var o sessionObs
	b := buildSession(c)
	attrs := exactAttrs(b)
	if !sharesMatchSession(b, attrs) {
		o.Drop = "shares-differ-from-session"
		return o
	}
	for k := 0; k < 2; k++ {
		if !sameShares(attrs, exactAttrs(b)) {
			o.Drop = "division-not-reproducible"
			return o
		}
	}
	// identifiers: queues in the order of the description, jobs and pods in generation order
	qid := map[string]int{}
	for i, q := range c.Queues {
		qid[q.Name] = i + 1
	}
	var qs []qspec
	for _, q := range c.Queues {
		a := attrs[common_info.QueueID(q.Name)]
		qs = append(qs, qspec{ID: qid[q.Name], Parent: qid[q.Parent], CPU: shareOf(&a.CPU), Mem: shareOf(&a.Memory), GPU: shareOf(&a.GPU)})
	}
	sc := &scenario{M: 1, Queues: qs}
	type podrec struct {
		id, job, queue int
		res            rspec
		preempt, alloc bool
		name, jobName  string
	}
	var pods []podrec
	podByName := map[string]*podrec{}
	for ji, j := range c.Jobs {
		job := b.jobs[common_info.PodGroupID(j.Name)]
		for ti := range j.Tasks {
			name := fmt.Sprintf("%s-%d", j.Name, ti)
			var t *pod_info.PodInfo
			for _, x := range job.GetAllPodsMap() {
				if x.Name == name {
					t = x
				}
			}
			if t == nil {
				o.Drop = "pod-not-built"
				return o
			}
			alloc := pod_status.AllocatedStatus(t.Status)
			req := putils.QuantifyResourceRequirements(t.ResReq)
			if alloc {
				acc := putils.QuantifyResourceRequirements(t.AcceptedResource)
				for _, r := range rs.AllResources {
					if acc[r] != req[r] {
						o.Drop = "accepted-differs-from-request"
						return o
					}
				}
			}
			pods = append(pods, podrec{id: len(pods) + 1, job: ji + 1, queue: qid[j.Queue],
				res:     rspec{CPU: req[rs.CpuResource], Mem: req[rs.MemoryResource], GPUs: req[rs.GpuResource]},
				preempt: job.IsPreemptibleJob(), alloc: alloc, name: name, jobName: j.Name})
		}
	}
	for i := range pods {
		podByName[pods[i].name] = &pods[i]
		sc.Victims = append(sc.Victims, victims{Queue: pods[i].queue, Res: []rspec{pods[i].res}}) // for checkExact only
	}
	if err := checkExact(sc); err != nil {
		o.Drop = "inexact"
		return o
	}

	if p := runAction(b, "allocate"); p != "" {
		o.Panic = p
	}
	allocEnd := len(b.rec.calls)
	for _, j := range c.Jobs {
		job := b.jobs[common_info.PodGroupID(j.Name)]
		if len(job.PodStatusIndex[pod_status.Pending]) > 0 {
			o.Pending++
		}
	}
	if o.Panic == "" {
		if p := runAction(b, "reclaim"); p != "" {
			o.Panic = p
		}
	}
	var bound []string
	for _, cl := range b.rec.calls[:allocEnd] {
		if cl.Kind == "bind" || cl.Kind == "pipe" {
			bound = append(bound, cl.Pod)
		}
	}
	o.Bound = len(bound)
	// Cut the reclaim action's calls into commits. A statement commits its Evict operations
	// first (all naming the statement's preemptor), then its Pipeline operations: the
	// preemptor's pods and victims that were placed again. A piped pod that is neither (a
	// pod of another pending job that was not evicted by this statement) starts the commit of
	// a statement without evictions (a reclaimer that fits once earlier victims are gone).
	rest := b.rec.calls[allocEnd:]
	for i := 0; i < len(rest); {
		var cm commitObs
		evicted := map[string]bool{}
		if rest[i].Kind == "evict" {
			cm.Preemptor = rest[i].Preemptor
			for i < len(rest) && rest[i].Kind == "evict" && rest[i].Preemptor == cm.Preemptor {
				cm.Evicted = append(cm.Evicted, rest[i].Pod)
				evicted[rest[i].Pod] = true
				i++
			}
		} else if p := podByName[rest[i].Pod]; p != nil {
			cm.Preemptor = p.jobName
		}
		for i < len(rest) && rest[i].Kind != "evict" {
			p := podByName[rest[i].Pod]
			if p != nil && p.jobName != cm.Preemptor && !evicted[rest[i].Pod] {
				break
			}
			cm.Piped = append(cm.Piped, rest[i].Pod)
			i++
		}
		o.Commits = append(o.Commits, cm)
	}

	// statistics on the recorded commits (GPU holdings per queue from the pods)
	holds := map[int]float64{}
	parent := map[int]int{}
	deserved := map[int]float64{}
	for _, q := range qs {
		parent[q.ID] = q.Parent
		deserved[q.ID] = q.GPU.D
	}
	charge := func(p *podrec, sign float64) {
		for id := p.queue; id != 0; id = parent[id] {
			holds[id] += sign * p.res.GPUs
		}
	}
	live := map[string]bool{}
	for i := range pods {
		if pods[i].alloc {
			live[pods[i].name] = true
			charge(&pods[i], 1)
		}
	}
	for _, n := range bound {
		if p := podByName[n]; p != nil && !live[n] {
			live[n] = true
			charge(p, 1)
		}
	}
	tops := map[int]bool{}
	for _, q := range qs {
		if q.Parent == 0 {
			tops[q.ID] = true
		}
	}
	o.MultiDept = len(tops) > 1
	took := map[int]int{}
	pendingLeft := o.Pending
	for _, cm := range o.Commits {
		piped := map[string]bool{}
		for _, n := range cm.Piped {
			piped[n] = true
		}
		vq := map[int]bool{}
		for _, n := range cm.Evicted {
			p := podByName[n]
			if p == nil {
				continue
			}
			if live[n] {
				live[n] = false
				charge(p, -1)
			}
			if !piped[n] {
				vq[p.queue] = true
				o.Victims++
			}
		}
		for _, n := range cm.Piped {
			if p := podByName[n]; p != nil && !live[n] {
				live[n] = true
				charge(p, 1)
			}
		}
		if len(vq) > 1 {
			o.Mixed++
		}
		pendingLeft--
		for q := range vq {
			took[q]++
			if took[q] >= 2 {
				o.SameQueue = true
			}
			for id := q; id != 0; id = parent[id] {
				if deserved[id] >= 0 && holds[id] <= deserved[id] && pendingLeft > 0 && !(tops[id] && len(tops) == 1) {
					o.Drained = true
				}
			}
		}
	}

	// the Coq term
	podTerm := func(p podrec) string {
		return fmt.Sprintf("{| p_id := %s; p_job := %s; p_queue := %s; p_res := %s; p_preempt := %s; p_alloc := %s |}",
			u.Pos(p.id), u.Pos(p.job), u.Pos(p.queue), resTerm(p.res), u.Bool(p.preempt), u.Bool(p.alloc))
	}
	jobID := map[string]int{}
	for ji, j := range c.Jobs {
		jobID[j.Name] = ji + 1
	}
	ids := func(names []string) string {
		var out []string
		for _, n := range names {
			if p := podByName[n]; p != nil {
				out = append(out, u.Pos(p.id))
			}
		}
		return u.List(out)
	}
	var cts []string
	var cdesc []string
	for _, cm := range o.Commits {
		cts = append(cts, fmt.Sprintf("{| e_preemptor := %s; e_evicted := %s; e_piped := %s |}",
			u.Pos(jobID[cm.Preemptor]), ids(cm.Evicted), ids(cm.Piped)))
		cdesc = append(cdesc, fmt.Sprintf("%s:evict%v,pipe%v", cm.Preemptor, cm.Evicted, cm.Piped))
	}
	var pts []string
	for _, p := range pods {
		pts = append(pts, podTerm(p))
	}
	o.Term = fmt.Sprintf("(Ssn {| z_m := %s; z_qs := %s; z_pods := %s; z_bound := %s; z_commits := %s |})",
		q(1), u.ListOf(qs, queueTerm), u.List(pts), ids(bound), u.List(cts))
	var fsd []string
	for _, x := range c.Queues {
		a := attrs[common_info.QueueID(x.Name)]
		fsd = append(fsd, fmt.Sprintf("%s=%g", x.Name, a.GPU.FairShare))
	}
	o.Label = fmt.Sprintf("session %s %s gpuFairShare[%s] allocate-bound%v reclaim-commits[%s]", c.Family, c.describe(),
		strings.Join(fsd, " "), bound, strings.Join(cdesc, " | "))
	return o
}

// ---- generators -------------------------------------------------------------------------------

type sgen struct {
	r    *u.Rng
	c    *scluster
	njob int
}

func (g *sgen) job(queue string, gpus int, tasks ...stask) *sjob {
	g.njob++
	g.c.Jobs = append(g.c.Jobs, sjob{Name: fmt.Sprintf("j%d", g.njob), Queue: queue, GPUs: gpus, Tasks: tasks})
	return &g.c.Jobs[len(g.c.Jobs)-1]
}

// fill occupies gpus GPUs of node with running jobs of queue (1 GPU each, now and then a
// 2-GPU pod or a 2-pod gang).
func (g *sgen) fill(queue, node string, gpus int) {
	for gpus > 0 {
		switch {
		case gpus >= 2 && g.r.Chance(1, 8):
			g.job(queue, 2, stask{Node: node})
			gpus -= 2
		case gpus >= 2 && g.r.Chance(1, 10):
			g.job(queue, 1, stask{Node: node}, stask{Node: node})
			gpus -= 2
		default:
			g.job(queue, 1, stask{Node: node})
			gpus--
		}
	}
}

// drain: the shape of the seeded regression with random parameters. Node n0 is full of
// queue b's jobs, b is over its deserved quota by j GPUs; j+1 .. j+2 reclaimers (queue a,
// sometimes a second reclaiming queue a2) can only run on n0; a third queue c is far over
// its quota on a node the reclaimers cannot use. Optionally the victims sit in two leaf
// queues of one department whose quota is the one that is reached.
func genDrain(r *u.Rng) *scluster {
	c := &scluster{Family: "drain"}
	g := &sgen{r: r, c: c}
	g0, g1 := r.Range(2, 4), r.Range(2, 5)
	c.Nodes = []snode{{Name: "n0", GPUs: g0}, {Name: "n1", GPUs: g1}}
	j := r.Range(0, 2)
	if j >= g0 {
		j = g0 - 1
	}
	nrec := j + r.Range(1, 2)
	if nrec > 4 {
		nrec = 4
	}
	if nrec < 2 {
		nrec = 2
	}
	twoDepts := r.Chance(1, 2)
	splitB := g0 >= 3 && r.Chance(1, 3) // b's node shared by two leaf queues of one department
	twoRecl := r.Chance(1, 3)
	aRunning := r.Intn(2)
	if aRunning > g1-1 {
		aRunning = g1 - 1
	}
	cRunning := g1 - aRunning
	dA, dB := "d1", "d1"
	if twoDepts {
		dB = "d2"
	}
	w := float64(r.Intn(2)) // over-quota weight of the leaves
	bDes := float64(g0 - j)
	aDes := float64(aRunning + nrec + r.Range(0, 2))
	cDes := float64(r.Range(0, cRunning))
	if twoDepts {
		c.Queues = append(c.Queues, squeue{Name: "d1", Deserved: aDes, OverQuota: w},
			squeue{Name: "d2", Deserved: bDes + cDes, OverQuota: w})
	} else {
		c.Queues = append(c.Queues, squeue{Name: "d1", Deserved: -1, OverQuota: 1})
	}
	c.Queues = append(c.Queues, squeue{Name: "a", Parent: dA, Deserved: aDes, OverQuota: w})
	if twoRecl {
		c.Queues[len(c.Queues)-1].Deserved = math.Ceil(aDes / 2)
		c.Queues = append(c.Queues, squeue{Name: "a2", Parent: dA, Deserved: math.Ceil(aDes / 2), OverQuota: w})
		if twoDepts {
			c.Queues[0].Deserved = 2 * math.Ceil(aDes/2)
		}
	}
	if splitB {
		b1 := math.Floor(bDes / 2)
		c.Queues = append(c.Queues, squeue{Name: "b", Parent: dB, Deserved: b1, OverQuota: w},
			squeue{Name: "b2", Parent: dB, Deserved: bDes - b1, OverQuota: w})
	} else {
		c.Queues = append(c.Queues, squeue{Name: "b", Parent: dB, Deserved: bDes, OverQuota: w})
	}
	c.Queues = append(c.Queues, squeue{Name: "c", Parent: dB, Deserved: cDes, OverQuota: w})
	if splitB {
		h := g0 / 2
		g.fill("b", "n0", h)
		g.fill("b2", "n0", g0-h)
	} else {
		g.fill("b", "n0", g0)
	}
	g.fill("a", "n1", aRunning)
	g.fill("c", "n1", cRunning)
	for k := 0; k < nrec; k++ {
		qn := "a"
		if twoRecl && k%2 == 1 {
			qn = "a2"
		}
		t := stask{Only: "n0"}
		if r.Chance(1, 8) {
			t = stask{}
		}
		jb := g.job(qn, 1, t)
		if r.Chance(1, 10) {
			jb.NonPreempt = true
		}
	}
	return c
}

// genRandom: 2-3 full nodes, 1-2 departments, 2-4 leaf queues with deserved quotas below, at
// and above what they hold, over-quota weights and limits, 2-4 pending jobs of queues with
// room, most of them restricted to one node.
func genRandom(r *u.Rng) *scluster {
	c := &scluster{Family: "random"}
	g := &sgen{r: r, c: c}
	nn := r.Range(2, 3)
	withCPU := r.Chance(1, 4)
	for i := 0; i < nn; i++ {
		n := snode{Name: fmt.Sprintf("n%d", i), GPUs: r.Range(2, 4)}
		if withCPU {
			n.CPUs = 2 * n.GPUs
		}
		c.Nodes = append(c.Nodes, n)
	}
	nd := r.Range(1, 2)
	nq := r.Range(2, 4)
	type lq struct {
		name, dept string
		holds      int
	}
	var leaves []*lq
	for i := 0; i < nq; i++ {
		d := "d1"
		if nd == 2 && (i%2 == 1 || (i > 0 && r.Chance(1, 3))) {
			d = "d2"
		}
		leaves = append(leaves, &lq{name: fmt.Sprintf("q%d", i), dept: d})
	}
	// fill every node completely; a node has one or two resident queues
	for _, n := range c.Nodes {
		left := n.GPUs
		first := u.Pick(r, leaves)
		k := left
		if r.Chance(1, 2) {
			k = r.Range(1, left)
		}
		g.fill(first.name, n.Name, k)
		first.holds += k
		left -= k
		if left > 0 {
			second := u.Pick(r, leaves)
			g.fill(second.name, n.Name, left)
			second.holds += left
		}
	}
	if withCPU {
		for i := range c.Jobs {
			c.Jobs[i].CPUs = c.Jobs[i].GPUs // one core per GPU
		}
	}
	// quotas
	deptDes := map[string]float64{}
	var room []*lq
	for _, l := range leaves {
		q := squeue{Name: l.name, Parent: l.dept, OverQuota: float64(r.Intn(3))}
		switch r.Intn(5) {
		case 0, 1: // over quota
			q.Deserved = float64(maxInt(0, l.holds-r.Range(1, 2)))
		case 2: // exactly at quota
			q.Deserved = float64(l.holds)
		default: // room
			q.Deserved = float64(l.holds + r.Range(1, 3))
		}
		if l.holds == 0 {
			q.Deserved = float64(r.Range(1, 3))
		}
		if q.Deserved > float64(l.holds) {
			room = append(room, l)
		}
		if r.Chance(1, 8) {
			q.Limit = q.Deserved + float64(r.Range(0, 2))
			if q.Limit == 0 {
				q.Limit = 1
			}
		}
		if withCPU && r.Chance(1, 2) {
			q.DeservedCPU = 1000 * float64(maxInt(1, l.holds+r.Range(-1, 2)))
		}
		if r.Chance(1, 10) {
			q.Priority = 1
		}
		deptDes[l.dept] += q.Deserved
		c.Queues = append(c.Queues, q)
	}
	var depts []squeue
	for i := 1; i <= nd; i++ {
		name := fmt.Sprintf("d%d", i)
		if _, ok := deptDes[name]; !ok {
			continue
		}
		d := squeue{Name: name, Deserved: deptDes[name], OverQuota: float64(r.Intn(3))}
		switch r.Intn(6) {
		case 0:
			d.Deserved = -1
			d.OverQuota = 1
		case 1:
			d.Deserved = math.Max(0, d.Deserved-float64(r.Range(1, 2)))
		case 2:
			d.Deserved += float64(r.Range(1, 2))
		}
		depts = append(depts, d)
	}
	c.Queues = append(depts, c.Queues...)
	if len(room) == 0 {
		room = leaves[:1]
		for i := range c.Queues {
			if c.Queues[i].Name == room[0].name {
				c.Queues[i].Deserved = float64(room[0].holds + 2)
			}
		}
	}
	np := r.Range(2, 4)
	for k := 0; k < np; k++ {
		l := u.Pick(r, room)
		t := stask{}
		if r.Chance(2, 3) {
			t.Only = u.Pick(r, c.Nodes).Name
		}
		var jb *sjob
		switch {
		case r.Chance(1, 8):
			jb = g.job(l.name, 1, t, t)
		case r.Chance(1, 8):
			jb = g.job(l.name, 2, t)
		default:
			jb = g.job(l.name, 1, t)
		}
		if withCPU {
			jb.CPUs = jb.GPUs
		}
		if r.Chance(1, 8) {
			jb.NonPreempt = true
		}
	}
	return c
}

func maxInt(a, b int) int {
	if a > b {
		return a
	}
	return b
}

// sessionCorpus: the cluster of the seeded regression's demonstration (two reclaimers of one
// queue restricted to the node of a queue that is one GPU over its quota), its single-reclaimer
// control, the same with the victims' department as the protected level, and a session in
// which two commits in a row are legitimate.
func sessionCorpus() []*scluster {
	mk := func(family string, depts, leaves []squeue, nodes []snode, jobs func(g *sgen)) *scluster {
		c := &scluster{Family: family, Nodes: nodes, Queues: append(depts, leaves...)}
		jobs(&sgen{c: c})
		return c
	}
	two := []snode{{Name: "n0", GPUs: 2}, {Name: "n1", GPUs: 4}}
	def := []squeue{{Name: "d1", Deserved: -1, OverQuota: 1}}
	flat := []squeue{{Name: "a", Parent: "d1", Deserved: 4}, {Name: "b", Parent: "d1", Deserved: 1}, {Name: "c", Parent: "d1", Deserved: 1}}
	var out []*scluster
	out = append(out, mk("corpus/two-reclaimers-one-over-quota-gpu", def, flat, two, func(g *sgen) {
		g.job("b", 1, stask{Node: "n0"})
		g.job("b", 1, stask{Node: "n0"})
		g.job("a", 1, stask{Node: "n1"})
		g.job("c", 1, stask{Node: "n1"})
		g.job("c", 1, stask{Node: "n1"})
		g.job("c", 1, stask{Node: "n1"})
		g.job("a", 1, stask{Only: "n0"})
		g.job("a", 1, stask{Only: "n0"})
	}))
	out = append(out, mk("corpus/single-reclaimer-queue-at-quota", def, flat, two, func(g *sgen) {
		g.job("b", 1, stask{Node: "n0"})
		g.job("a", 1, stask{Node: "n0"})
		g.job("a", 1, stask{Node: "n1"})
		g.job("c", 1, stask{Node: "n1"})
		g.job("c", 1, stask{Node: "n1"})
		g.job("c", 1, stask{Node: "n1"})
		g.job("a", 1, stask{Only: "n0"})
	}))
	out = append(out, mk("corpus/two-reclaimers-department-level",
		[]squeue{{Name: "d1", Deserved: 4}, {Name: "d2", Deserved: 2}},
		[]squeue{{Name: "a", Parent: "d1", Deserved: 4}, {Name: "b", Parent: "d2", Deserved: 1}, {Name: "c", Parent: "d2", Deserved: 1}},
		[]snode{{Name: "n0", GPUs: 3}, {Name: "n1", GPUs: 2}}, func(g *sgen) {
			g.job("b", 1, stask{Node: "n0"})
			g.job("b", 1, stask{Node: "n0"})
			g.job("c", 1, stask{Node: "n0"})
			g.job("a", 1, stask{Node: "n1"})
			g.job("a", 1, stask{Node: "n1"})
			g.job("a", 1, stask{Only: "n0"})
			g.job("a", 1, stask{Only: "n0"})
		}))
	out = append(out, mk("corpus/two-legitimate-commits", def,
		[]squeue{{Name: "a", Parent: "d1", Deserved: 4}, {Name: "b", Parent: "d1", Deserved: 1}, {Name: "c", Parent: "d1", Deserved: 1}},
		[]snode{{Name: "n0", GPUs: 3}, {Name: "n1", GPUs: 3}}, func(g *sgen) {
			g.job("b", 1, stask{Node: "n0"})
			g.job("b", 1, stask{Node: "n0"})
			g.job("b", 1, stask{Node: "n0"})
			g.job("a", 1, stask{Node: "n1"})
			g.job("c", 1, stask{Node: "n1"})
			g.job("c", 1, stask{Node: "n1"})
			g.job("a", 1, stask{Only: "n0"})
			g.job("a", 1, stask{Only: "n0"})
			g.job("a", 1, stask{Only: "n0"})
		}))
	return out
}

// runSessions emits nsess generated sessions after the fixed corpus.
func runSessions(out *u.Out, root *u.Rng, nsess int) {
	emit := func(c *scluster) {
		o := runSession(c)
		if o.Panic != "" {
			out.Count("session:PANIC")
			fmt.Fprintf(os.Stderr, "PANIC in session actions: %s\n  cluster: %s\n", o.Panic, c.describe())
		}
		if o.Drop != "" {
			out.Count("session_dropped:" + o.Drop)
			return
		}
		out.Add(o.Term, o.Label)
		fam := c.Family
		if strings.HasPrefix(fam, "corpus/") {
			fam = "corpus"
		}
		out.Count("origin:session-" + fam)
		out.Count(fmt.Sprintf("session_pending_reclaimers:%d", minInt(o.Pending, 5)))
		out.Count(fmt.Sprintf("session_commits:%d", minInt(len(o.Commits), 5)))
		out.CountN("session_commits_total", len(o.Commits))
		out.CountN("session_victims_total", o.Victims)
		out.CountN("session_commits_with_victims_of_2_queues", o.Mixed)
		for _, cm := range o.Commits {
			if len(cm.Evicted) == 0 {
				out.Count("session_commits_without_eviction")
			}
			if len(cm.Piped) > 1 {
				out.Count("session_commits_placing_2_or_more_pods")
			}
		}
		if len(o.Commits) >= 2 {
			out.Count("sessions_with_2_or_more_commits")
		}
		if o.SameQueue {
			out.Count("sessions_with_2_or_more_commits_on_one_victim_queue")
		}
		if o.Drained {
			out.Count("sessions_victim_queue_brought_to_quota_with_reclaimers_left")
		}
		if o.MultiDept {
			out.Count("sessions_with_2_departments")
		}
		if len(o.Commits) > 0 {
			var shape []string
			for _, cm := range o.Commits {
				shape = append(shape, fmt.Sprintf("%d/%d", len(cm.Evicted), len(cm.Piped)))
			}
			sort.Strings(shape)
			out.NonTrivial(fmt.Sprintf("ssn|%s|q%d|n%d|p%d|%s|%v|%v", c.Family, len(c.Queues), len(c.Nodes), o.Pending,
				strings.Join(shape, ","), o.SameQueue, o.Drained))
		}
		if len(o.Commits) >= 2 {
			out.Sample(map[string]any{"session": c.describe(), "commits": o.Commits})
		}
	}
	for _, c := range sessionCorpus() {
		emit(c)
	}
	for i := 0; i < nsess; i++ {
		r := root.Fork(uint64(5000000 + i))
		if i%2 == 0 {
			emit(genDrain(r))
		} else {
			emit(genRandom(r))
		}
	}
}

func minInt(a, b int) int {
	if a < b {
		return a
	}
	return b
}
