package util

import (
	"flag"
	"fmt"
	"os"
)

// Main is the common entry point of every per-property driver binary:
//   <driver> -dir D -seed S -n N -tier quick|thorough
func Main(run func(dir string, seed uint64, n int, tier string) error) {
	dir := flag.String("dir", ".", "output directory")
	seed := flag.Uint64("seed", 1, "PRNG seed")
	n := flag.Int("n", 100, "number of generated cases")
	tier := flag.String("tier", "quick", "quick|thorough")
	flag.Parse()
	if err := run(*dir, *seed, *n, *tier); err != nil {
		fmt.Fprintln(os.Stderr, "driver error:", err)
		os.Exit(3)
	}
}
