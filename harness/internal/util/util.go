// Package util holds what every property driver shares: the single PRNG all
// random choices derive from, Coq term printers, and the per-run output
// (cases_*.v shards + stats.json) read by bin/check.
package util

import (
	"encoding/json"
	"fmt"
	"os"
	"path/filepath"
	"sort"
	"strings"
)

// Rng is splitmix64; every random choice of a run derives from one state so
// that a (seed, case index) pair replays exactly.
type Rng struct{ s uint64 }

func NewRng(seed uint64) *Rng { return &Rng{s: seed*0x9E3779B97F4A7C15 + 0x1234567} }

func (r *Rng) U64() uint64 {
	r.s += 0x9E3779B97F4A7C15
	z := r.s
	z = (z ^ (z >> 30)) * 0xBF58476D1CE4E5B9
	z = (z ^ (z >> 27)) * 0x94D049BB133111EB
	return z ^ (z >> 31)
}

// Intn returns a value in [0,n).
func (r *Rng) Intn(n int) int {
	if n <= 0 {
		return 0
	}
	return int(r.U64() % uint64(n))
}

// Range returns a value in [lo,hi].
func (r *Rng) Range(lo, hi int) int { return lo + r.Intn(hi-lo+1) }

func (r *Rng) Bool() bool { return r.U64()&1 == 1 }

// Chance is true with probability num/den.
func (r *Rng) Chance(num, den int) bool { return r.Intn(den) < num }

func Pick[T any](r *Rng, xs []T) T { return xs[r.Intn(len(xs))] }

// Fork derives an independent stream for case i (so that cases replay alone).
func (r *Rng) Fork(i uint64) *Rng { return NewRng(r.s ^ (i+1)*0xD6E8FEB86659FD93) }

func Shuffle[T any](r *Rng, xs []T) {
	for i := len(xs) - 1; i > 0; i-- {
		j := r.Intn(i + 1)
		xs[i], xs[j] = xs[j], xs[i]
	}
}

// ---- Coq term printers -------------------------------------------------

func Z(v int64) string {
	if v < 0 {
		return fmt.Sprintf("(%d)%%Z", v)
	}
	return fmt.Sprintf("%d%%Z", v)
}

func ZU(v uint64) string { return fmt.Sprintf("%d%%Z", v) }

func N(v uint64) string { return fmt.Sprintf("%d%%N", v) }

func Nat(v int) string { return fmt.Sprintf("%d%%nat", v) }

func Pos(v int) string { return fmt.Sprintf("%d%%positive", v) }

func Bool(b bool) string {
	if b {
		return "true"
	}
	return "false"
}

// Str prints a Go string as a Coq `string` built from its bytes, so that any
// byte (quotes, control characters, invalid UTF-8) survives.
func Str(s string) string {
	if s == "" {
		return "EmptyString"
	}
	printable := true
	for i := 0; i < len(s); i++ {
		c := s[i]
		if c < 0x20 || c > 0x7e || c == '"' {
			printable = false
			break
		}
	}
	if printable {
		return "\"" + s + "\"%string"
	}
	parts := make([]string, len(s))
	for i := 0; i < len(s); i++ {
		parts[i] = fmt.Sprintf("%d", s[i])
	}
	return "(bs [" + strings.Join(parts, ";") + "]%N)"
}

func Opt(present bool, v string) string {
	if !present {
		return "None"
	}
	return "(Some " + v + ")"
}

func List(xs []string) string { return "[" + strings.Join(xs, "; ") + "]" }

func ListOf[T any](xs []T, f func(T) string) string {
	out := make([]string, len(xs))
	for i, x := range xs {
		out[i] = f(x)
	}
	return List(out)
}

func Pair(a, b string) string { return "(" + a + ", " + b + ")" }

func Tuple(xs ...string) string { return "(" + strings.Join(xs, ", ") + ")" }

// App prints a constructor / function application.
func App(f string, args ...string) string {
	if len(args) == 0 {
		return f
	}
	return "(" + f + " " + strings.Join(args, " ") + ")"
}

// ---- run output ----------------------------------------------------------

// Out collects the cases of one run. Cases are Coq terms of the type the
// property's Run file expects; they are sharded into cases_<k>.v files that
// bin/check compiles in parallel. Each shard prints, one per line,
//   MISMATCH [..indices..]   (model output differs from observed output)
//   MONITOR  [..indices..]   (the property monitor rejects the observed output)
type Out struct {
	Dir        string
	Prop       string
	RunModule  string // e.g. KaiV.Run.C19
	CaseType   string // Coq type of one case
	ShardSize  int
	cases      []string
	labels     []string
	Stats      map[string]any
	dist       map[string]int
	nontrivial map[string]bool
	Samples    []any
	Extra      []string // extra vernacular appended to each shard (rare)
	Flags      bool     // the Run module defines run_flags : list (nat * case) -> list (nat * list nat)
}

func NewOut(dir, prop, runModule, caseType string, shard int) *Out {
	_ = os.MkdirAll(dir, 0o755)
	old, _ := filepath.Glob(filepath.Join(dir, "cases_*.v"))
	for _, f := range old {
		os.Remove(f)
	}
	return &Out{Dir: dir, Prop: prop, RunModule: runModule, CaseType: caseType, ShardSize: shard,
		Stats: map[string]any{}, dist: map[string]int{}, nontrivial: map[string]bool{}}
}

// Add registers a case. label is a short replayable description (JSON-able).
func (o *Out) Add(term string, label string) int {
	o.cases = append(o.cases, term)
	o.labels = append(o.labels, label)
	return len(o.cases) - 1
}

func (o *Out) Count(key string) { o.dist[key]++ }

func (o *Out) CountN(key string, n int) { o.dist[key] += n }

// NonTrivial records the fingerprint of a case that is non-trivial by the
// property's stated rule; distinct fingerprints are counted.
func (o *Out) NonTrivial(fingerprint string) { o.nontrivial[fingerprint] = true }

func (o *Out) Sample(v any) {
	if len(o.Samples) < 6 {
		o.Samples = append(o.Samples, v)
	}
}

func (o *Out) Len() int { return len(o.cases) }

func (o *Out) Flush() error {
	n := len(o.cases)
	shard := 0
	for lo := 0; lo < n || (n == 0 && shard == 0); lo += o.ShardSize {
		hi := lo + o.ShardSize
		if hi > n {
			hi = n
		}
		var b strings.Builder
		fmt.Fprintf(&b, "(* generated by harness for %s; do not edit *)\n", o.Prop)
		fmt.Fprintf(&b, "From KaiV Require Import Run.Prelude.\nRequire Import %s.\n", o.RunModule)
		b.WriteString("Import ListNotations.\nOpen Scope list_scope.\n")
		fmt.Fprintf(&b, "Definition cases : list (nat * %s) := [\n", o.CaseType)
		for i := lo; i < hi; i++ {
			sep := ";"
			if i == hi-1 {
				sep = ""
			}
			// shard-local index (bin/check adds shard*ShardSize): large nat numerals overflow coqc's stack
			fmt.Fprintf(&b, "  (%d%%nat, %s)%s\n", i-lo, o.cases[i], sep)
		}
		b.WriteString("].\n")
		b.WriteString("Definition mm := Eval vm_compute in run_mismatches cases.\n")
		b.WriteString("Definition mo := Eval vm_compute in run_monitor cases.\n")
		b.WriteString("Goal True. let a := eval unfold mm in mm in idtac \"MISMATCH\" a. let b := eval unfold mo in mo in idtac \"MONITOR\" b. idtac \"SHARD-DONE\". exact I. Qed.\n")
		if o.Flags {
			b.WriteString("Definition fl := Eval vm_compute in run_flags cases.\n")
			b.WriteString("Goal True. let a := eval unfold fl in fl in idtac \"FLAGS\" a. idtac \"FLAGS-DONE\". exact I. Qed.\n")
		}
		for _, e := range o.Extra {
			b.WriteString(e + "\n")
		}
		if err := os.WriteFile(filepath.Join(o.Dir, fmt.Sprintf("cases_%d.v", shard)), []byte(b.String()), 0o644); err != nil {
			return err
		}
		shard++
		if n == 0 {
			break
		}
	}
	keys := make([]string, 0, len(o.nontrivial))
	for k := range o.nontrivial {
		keys = append(keys, k)
	}
	sort.Strings(keys)
	st := map[string]any{
		"prop":                o.Prop,
		"evaluations":         n,
		"distinct_nontrivial": len(keys),
		"distribution":        o.dist,
		"samples":             o.Samples,
		"labels":              o.labels,
		"shards":              shard,
		"shard_size":          o.ShardSize,
	}
	for k, v := range o.Stats {
		st[k] = v
	}
	data, _ := json.MarshalIndent(st, "", " ")
	return os.WriteFile(filepath.Join(o.Dir, "stats.json"), data, 0o644)
}

// Pick3 returns one of three ints.
func (r *Rng) Pick3(a, b, c int) int {
	switch r.Intn(3) {
	case 0:
		return a
	case 1:
		return b
	default:
		return c
	}
}
