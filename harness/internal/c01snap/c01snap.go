// Package c01snap is C01's snapshot stream (case kind FSnapshot of coq/Run/C01.v): generated API worlds - nodes,
// pods in every situation that occupies a node (running, terminating, bound, being bound with a BindRequest in any
// phase) or does not (terminally failed request, request for a missing node, finished pod) - are handed to the
// REAL scheduler cache over fake clientsets (internal/snapworld). A real session is opened on it
// (framework.OpenSession -> SchedulerCache.Snapshot -> ClusterInfo.Snapshot: snapshotBindRequests,
// getNodeToPodInfosMap, NewTaskInfoWithBindRequest / getTaskStatus, AddTasksToNode, snapshotPodGroups,
// cleanStaleBindRequest); the books of every node and the status / node of every pod are dumped the moment the
// snapshot is taken; then the real allocate action runs on that session with a pending pod that fits only if the
// occupying pods are not charged, and its Bind / TaskPipelined calls are recorded (Bind goes on to the real
// createBindRequest). The world itself is printed from the generated spec, never from what the snapshot said.
package c01snap

import (
	"fmt"
	"sort"
	"strings"
	"sync"
	"time"

	v1 "k8s.io/api/core/v1"
	metav1 "k8s.io/apimachinery/pkg/apis/meta/v1"
	"k8s.io/apimachinery/pkg/runtime"
	"k8s.io/apimachinery/pkg/types"

	schedulingv1alpha2 "github.com/NVIDIA/KAI-scheduler/pkg/apis/scheduling/v1alpha2"
	schedulingv2 "github.com/NVIDIA/KAI-scheduler/pkg/apis/scheduling/v2"
	schedulingv2alpha2 "github.com/NVIDIA/KAI-scheduler/pkg/apis/scheduling/v2alpha2"
	"github.com/NVIDIA/KAI-scheduler/pkg/common/constants"
	"github.com/NVIDIA/KAI-scheduler/pkg/scheduler/api"
	"github.com/NVIDIA/KAI-scheduler/pkg/scheduler/api/eviction_info"
	"github.com/NVIDIA/KAI-scheduler/pkg/scheduler/api/pod_info"
	"github.com/NVIDIA/KAI-scheduler/pkg/scheduler/api/podgroup_info"
	"github.com/NVIDIA/KAI-scheduler/pkg/scheduler/api/resource_info"
	"github.com/NVIDIA/KAI-scheduler/pkg/scheduler/cache"
	"github.com/NVIDIA/KAI-scheduler/pkg/scheduler/framework"

	"kaiverif/internal/core"
	"kaiverif/internal/snapworld"
	u "kaiverif/internal/util"
)

const (
	ns        = "ns"
	finalizer = "kaiverif/hold"
	queueName = "q1"
	deptName  = "dept"
)

// ---- the world, as generated ----------------------------------------------------

type BR struct {
	Node     int    // selected node (may name a node that does not exist)
	Phase    string // "", Pending, Succeeded, Failed
	Limit    *int32
	Attempts int32
	Deleting bool
}

type Pod struct {
	ID       int
	Kind     string // situation, for the label / distribution only
	Node     int    // spec.nodeName, 0 = empty (may name a node that does not exist)
	Phase    v1.PodPhase
	Deleting bool
	Gated    bool
	Cpu, Mem int64
	Gpus     int64
	Fraction string
	Group    int // GPU group of a fractional pod: label when the pod has a node name, SelectedGPUGroups of its request otherwise
	BR       *BR
	Probe    bool
}

type World struct {
	Origin string
	Nodes  []core.NodeSpec // named n1, n2, ...
	Pods   []Pod
}

func nname(i int) string { return fmt.Sprintf("n%d", i) }
func pname(i int) string { return fmt.Sprintf("p%d", i) }
func gname(i int) string { return fmt.Sprintf("g%d", i) }

func (p Pod) spec() core.PodSpec {
	s := core.PodSpec{Name: pname(p.ID), Job: "pg-" + pname(p.ID), Cpu: p.Cpu, Mem: p.Mem, Gpus: p.Gpus, Fraction: p.Fraction}
	if p.Node != 0 {
		s.Node = nname(p.Node)
	}
	return s
}

func (p Pod) k8s() *v1.Pod {
	pod := p.spec().K8s()
	pod.Status.Phase = p.Phase
	if p.Deleting {
		now := metav1.NewTime(time.Unix(1700000000, 0))
		pod.DeletionTimestamp = &now
		pod.Finalizers = []string{finalizer}
	}
	if p.Gated {
		pod.Spec.SchedulingGates = []v1.PodSchedulingGate{{Name: "gate"}}
	}
	if p.Fraction != "" && p.Group != 0 && p.Node != 0 {
		pod.Labels[constants.GPUGroup] = gname(p.Group)
	}
	return pod
}

func (p Pod) bindRequest() *schedulingv1alpha2.BindRequest {
	b := p.BR
	br := &schedulingv1alpha2.BindRequest{
		ObjectMeta: metav1.ObjectMeta{Name: pname(p.ID), Namespace: ns, Labels: map[string]string{"selected-node": nname(b.Node)},
			OwnerReferences: []metav1.OwnerReference{{APIVersion: "v1", Kind: "Pod", Name: pname(p.ID), UID: types.UID(pname(p.ID))}}},
		Spec: schedulingv1alpha2.BindRequestSpec{PodName: pname(p.ID), SelectedNode: nname(b.Node), BackoffLimit: b.Limit,
			ReceivedGPU: &schedulingv1alpha2.ReceivedGPU{Count: int(p.Gpus), Portion: "1.00"}},
		Status: schedulingv1alpha2.BindRequestStatus{Phase: b.Phase, FailedAttempts: b.Attempts},
	}
	if p.Fraction != "" {
		br.Spec.ReceivedResourceType = "Fraction"
		br.Spec.ReceivedGPU = &schedulingv1alpha2.ReceivedGPU{Count: 1, Portion: p.Fraction}
		if p.Group != 0 {
			br.Spec.SelectedGPUGroups = []string{gname(p.Group)}
		}
	}
	if b.Deleting {
		now := metav1.NewTime(time.Unix(1700000000, 0))
		br.DeletionTimestamp = &now
		br.Finalizers = []string{finalizer}
	}
	return br
}

func queue(name, parent string) *schedulingv2.Queue {
	unlimited := schedulingv2.QueueResource{Quota: -1, Limit: -1, OverQuotaWeight: 1}
	return &schedulingv2.Queue{
		ObjectMeta: metav1.ObjectMeta{Name: name, UID: types.UID(name)},
		Spec:       schedulingv2.QueueSpec{ParentQueue: parent, Resources: &schedulingv2.QueueResources{GPU: unlimited, CPU: unlimited, Memory: unlimited}},
	}
}

func podGroup(name string, age int) *schedulingv2alpha2.PodGroup {
	return &schedulingv2alpha2.PodGroup{
		ObjectMeta: metav1.ObjectMeta{Name: name, Namespace: ns, UID: types.UID(name),
			CreationTimestamp: metav1.NewTime(time.Unix(1700000000+int64(age), 0)),
			Labels:            map[string]string{constants.DefaultQueueLabel: queueName}},
		Spec: schedulingv2alpha2.PodGroupSpec{Queue: queueName, MinMember: 1},
	}
}

// objects renders the world as API objects.
func (w World) objects() (kube, kai []runtime.Object) {
	for _, n := range w.Nodes {
		node := n.K8s()
		node.Status.Conditions = []v1.NodeCondition{{Type: v1.NodeReady, Status: v1.ConditionTrue}}
		kube = append(kube, node)
	}
	kai = append(kai, queue(deptName, ""), queue(queueName, deptName))
	for _, p := range w.Pods {
		kube = append(kube, p.k8s())
		kai = append(kai, podGroup("pg-"+pname(p.ID), p.ID))
		if p.BR != nil {
			kai = append(kai, p.bindRequest())
		}
	}
	return kube, kai
}

// ---- observing cache -----------------------------------------------------------------

type call struct {
	kind      string // bind | bindfail | pipe | evict
	pod, node string
	groups    []string
	err       string
}

type obsCache struct {
	cache.Cache
	mu         sync.Mutex
	onSnapshot func(*api.ClusterInfo)
	calls      []call
}

func (c *obsCache) Snapshot() (*api.ClusterInfo, error) {
	snap, err := c.Cache.Snapshot()
	if snap != nil && c.onSnapshot != nil {
		c.onSnapshot(snap)
	}
	return snap, err
}

func (c *obsCache) Bind(p *pod_info.PodInfo, host string, ann map[string]string) error {
	err := c.Cache.Bind(p, host, ann)
	k := call{kind: "bind", pod: p.Name, node: host, groups: append([]string{}, p.GPUGroups...)}
	if err != nil {
		k.kind, k.err = "bindfail", err.Error()
	}
	c.mu.Lock()
	c.calls = append(c.calls, k)
	c.mu.Unlock()
	return err
}

func (c *obsCache) TaskPipelined(t *pod_info.PodInfo, msg string) {
	c.mu.Lock()
	c.calls = append(c.calls, call{kind: "pipe", pod: t.Name, node: t.NodeName, groups: append([]string{}, t.GPUGroups...)})
	c.mu.Unlock()
	c.Cache.TaskPipelined(t, msg)
}

func (c *obsCache) Evict(pod *v1.Pod, job *podgroup_info.PodGroupInfo, md eviction_info.EvictionMetadata, msg string) error {
	c.mu.Lock()
	c.calls = append(c.calls, call{kind: "evict", pod: pod.Name})
	c.mu.Unlock()
	return c.Cache.Evict(pod, job, md, msg)
}

// ---- one case ------------------------------------------------------------------------

type result struct {
	term, label string
	counts      []string
	nontrivial  bool
	err         error
}

var phaseTerm = map[v1.PodPhase]string{v1.PodPending: "PhPending", v1.PodRunning: "PhRunning", v1.PodSucceeded: "PhSucceeded",
	v1.PodFailed: "PhFailed", v1.PodUnknown: "PhUnknown"}

func brPhaseTerm(ph string) string {
	switch ph {
	case schedulingv1alpha2.BindRequestPhaseSucceeded:
		return "BSucceeded"
	case schedulingv1alpha2.BindRequestPhaseFailed:
		return "BFailed"
	}
	return "BPending"
}

// worldTerm prints the world from the generated spec alone. The request of a pod (kind, resources, devices, memory
// per device) is read with the real pod_info.NewTaskInfo from the pod object WITHOUT any bind request, against a node
// built from the spec (same GPU memory on every node of a world).
func worldTerm(w World, ids *core.Ids) string {
	vm := resource_info.NewResourceVectorMap()
	var nodes []string
	var first = core.MkNode(w.Nodes[0], vm)
	for _, n := range w.Nodes {
		ni := core.MkNode(n, vm)
		nodes = append(nodes, u.Pair(u.Pos(ids.Of("n:"+n.Name)), core.NodeInit(ni)))
	}
	var pods, brs []string
	for _, p := range w.Pods {
		ti := pod_info.NewTaskInfo(p.k8s(), nil, vm)
		node := "None"
		if p.Node != 0 {
			node = u.Opt(true, u.Pos(ids.Of("n:"+nname(p.Node))))
		}
		pods = append(pods, u.App("mkWP", core.TaskTerm(ids, ti, first), node, phaseTerm[p.Phase], u.Bool(p.Deleting), u.Bool(p.Gated)))
		if p.BR != nil {
			lim := "None"
			if p.BR.Limit != nil {
				lim = u.Opt(true, u.Z(int64(*p.BR.Limit)))
			}
			var gs []string
			if p.Fraction != "" && p.Group != 0 {
				gs = []string{gname(p.Group)}
			}
			brs = append(brs, u.App("mkWB", u.Pos(ids.Of("p:"+pname(p.ID))), u.Pos(ids.Of("n:"+nname(p.BR.Node))), core.Groups(ids, gs),
				brPhaseTerm(p.BR.Phase), lim, u.Z(int64(p.BR.Attempts)), u.Bool(p.BR.Deleting)))
		}
	}
	return u.App("mkW", u.List(nodes), u.List(pods), u.List(brs))
}

// RunCase plays one world on the real code.
func RunCase(w World) (res result) {
	defer func() {
		if x := recover(); x != nil {
			res.err = fmt.Errorf("panic: %v", x)
		}
	}()
	ids := core.NewIds()
	for _, n := range w.Nodes {
		ids.Of("n:" + n.Name)
	}
	for _, p := range w.Pods {
		ids.Of("p:" + pname(p.ID))
		ids.Of("j:pg-" + pname(p.ID))
	}
	for _, p := range w.Pods {
		if p.Fraction != "" && p.Group != 0 {
			ids.Of("g:" + gname(p.Group))
		}
	}
	wterm := worldTerm(w, ids)

	kube, kai := w.objects()
	s := snapworld.New(kube, kai)
	defer s.Close()

	var obsTerm, podsTerm string
	var snapDesc []string
	oc := &obsCache{Cache: s.Cache}
	oc.onSnapshot = func(snap *api.ClusterInfo) {
		if obsTerm != "" {
			return
		}
		type kv struct {
			k    int
			term string
		}
		var os []kv
		for _, n := range w.Nodes {
			ni, ok := snap.Nodes[n.Name]
			if !ok {
				continue
			}
			os = append(os, kv{ids.Of("n:" + n.Name), core.NodeObs(ids, ni)})
			snapDesc = append(snapDesc, fmt.Sprintf("%s{idle cpu=%v gpu=%v pods=%v; releasing cpu=%v gpu=%v}", n.Name, ni.Idle.Cpu(), ni.Idle.GPUs(),
				ni.Idle.ScalarResources()[v1.ResourcePods], ni.Releasing.Cpu(), ni.Releasing.GPUs()))
		}
		sort.Slice(os, func(i, j int) bool { return os[i].k < os[j].k })
		ot := make([]string, len(os))
		for i, o := range os {
			ot[i] = u.Pair(u.Pos(o.k), o.term)
		}
		obsTerm = u.List(ot)
		var ps []kv
		for _, job := range snap.PodGroupInfos {
			for _, t := range job.GetAllPodsMap() {
				node := "None"
				if t.NodeName != "" {
					node = u.Opt(true, u.Pos(ids.Of("n:"+t.NodeName)))
				}
				ps = append(ps, kv{ids.Of("p:" + string(t.UID)), u.Pair(core.StatusTerm(t.Status), node)})
				snapDesc = append(snapDesc, fmt.Sprintf("%s=%s@%s", t.Name, core.StatusTerm(t.Status), t.NodeName))
			}
		}
		sort.Slice(ps, func(i, j int) bool { return ps[i].k < ps[j].k })
		pt := make([]string, len(ps))
		for i, p := range ps {
			pt[i] = u.Pair(u.Pos(p.k), p.term)
		}
		podsTerm = u.List(pt)
		sort.Strings(snapDesc[len(os):])
	}

	err := func() error {
		snapworld.SessionMu.Lock()
		defer snapworld.SessionMu.Unlock()
		ssn, err := snapworld.OpenSession(oc, "c01snap")
		if err != nil {
			return fmt.Errorf("OpenSession: %v", err)
		}
		if obsTerm == "" {
			return fmt.Errorf("no snapshot was taken")
		}
		snapworld.RunAction(ssn, "allocate")
		framework.CloseSession(ssn)
		return nil
	}()
	if err != nil {
		res.err = err
		return res
	}

	var calls, cdesc []string
	for _, c := range oc.calls {
		switch c.kind {
		case "bind":
			calls = append(calls, fmt.Sprintf("(CBind %s %s %s)", u.Pos(ids.Of("p:"+c.pod)), u.Pos(ids.Of("n:"+c.node)), core.Groups(ids, c.groups)))
			cdesc = append(cdesc, fmt.Sprintf("bind(%s->%s%v)", c.pod, c.node, c.groups))
		case "pipe":
			calls = append(calls, fmt.Sprintf("(CPipe %s %s %s)", u.Pos(ids.Of("p:"+c.pod)), u.Pos(ids.Of("n:"+c.node)), core.Groups(ids, c.groups)))
			cdesc = append(cdesc, fmt.Sprintf("pipe(%s->%s%v)", c.pod, c.node, c.groups))
		case "bindfail":
			cdesc = append(cdesc, fmt.Sprintf("bindFAILED(%s->%s: %s)", c.pod, c.node, c.err))
		case "evict":
			calls = append(calls, fmt.Sprintf("(CEvict %s 0%%nat None)", u.Pos(ids.Of("p:"+c.pod))))
			cdesc = append(cdesc, fmt.Sprintf("evict(%s)", c.pod))
		}
		res.counts = append(res.counts, "snapshot-allocate-call:"+c.kind)
	}
	res.term = fmt.Sprintf("(FSnapshot (mkSN %s %s %s %s))", wterm, obsTerm, podsTerm, u.List(calls))
	res.label = fmt.Sprintf("snapshot-world %s %s => snapshot[%s] allocate[%s]", w.Origin, Describe(w), strings.Join(snapDesc, " "), strings.Join(cdesc, " "))
	for _, p := range w.Pods {
		res.counts = append(res.counts, "snapshot-pod:"+p.Kind+"/"+reqKind(p))
	}
	res.counts = append(res.counts, fmt.Sprintf("snapshot-nodes:%d", len(w.Nodes)))
	res.nontrivial = true
	return res
}

func reqKind(p Pod) string {
	switch {
	case p.Fraction != "":
		return "fraction"
	case p.Gpus > 0:
		return "whole-gpu"
	}
	return "cpu-only"
}

// Describe renders a world compactly.
func Describe(w World) string {
	var sb strings.Builder
	sb.WriteString("nodes[")
	for i, n := range w.Nodes {
		if i > 0 {
			sb.WriteString(" ")
		}
		fmt.Fprintf(&sb, "%s:cpu%d,gpu%d,pods%d", n.Name, n.Cpu, n.Gpus, n.Pods)
	}
	sb.WriteString("] pods[")
	for i, p := range w.Pods {
		if i > 0 {
			sb.WriteString(" ")
		}
		req := fmt.Sprintf("cpu%d", p.Cpu)
		if p.Gpus > 0 {
			req += fmt.Sprintf(",gpu%d", p.Gpus)
		}
		if p.Fraction != "" {
			req += ",frac" + p.Fraction
			if p.Group != 0 {
				req += "@" + gname(p.Group)
			}
		}
		fmt.Fprintf(&sb, "%s(%s:%s phase=%s", pname(p.ID), p.Kind, req, p.Phase)
		if p.Node != 0 {
			fmt.Fprintf(&sb, " nodeName=%s", nname(p.Node))
		}
		if p.Deleting {
			sb.WriteString(" deleting")
		}
		if p.Gated {
			sb.WriteString(" gated")
		}
		if b := p.BR; b != nil {
			ph := b.Phase
			if ph == "" {
				ph = "unset"
			}
			lim := "nil"
			if b.Limit != nil {
				lim = fmt.Sprint(*b.Limit)
			}
			fmt.Fprintf(&sb, " bindRequest{->%s phase=%s failedAttempts=%d backoffLimit=%s", nname(b.Node), ph, b.Attempts, lim)
			if b.Deleting {
				sb.WriteString(" deleting")
			}
			sb.WriteString("}")
		}
		sb.WriteString(")")
	}
	sb.WriteString("]")
	return sb.String()
}
