package c01snap

import (
	"fmt"

	"github.com/NVIDIA/KAI-scheduler/pkg/scheduler/api/pod_status"

	"kaiverif/internal/core"
	"kaiverif/internal/cycle"
)

// FaultCorpus is a fixed family of cycles with a failing Bind in the middle of a gang's commit (the generated fault
// stream of internal/cycle meets this shape only about once in 300 cycles): a gang of 2-3 pods fills node n1, the
// k-th Bind of the cycle (k >= 1: an earlier Bind of the gang was accepted) fails, and a lower-priority job asks for
// the whole node. Whatever the commit does with the pods it did not bind, the pods whose Bind was accepted hold their
// capacity: nothing else may be bound onto it in the same cycle. Cases are FFault (monitor only).
func FaultCorpus(emit func(term, label string)) {
	for _, gpu := range []bool{true, false} {
		for size := 2; size <= 3; size++ {
			for failAt := 1; failAt < size; failAt++ {
				n := core.NodeSpec{Name: "n1", Cpu: 8000, Mem: 16 << 30, Gpus: int64(size), Pods: 110}
				one := core.PodSpec{Cpu: 500, Mem: 1 << 30, Gpus: 1, Status: pod_status.Pending}
				all := core.PodSpec{Cpu: 500, Mem: 1 << 30, Gpus: int64(size), Status: pod_status.Pending}
				if !gpu {
					n.Gpus, n.Cpu = 0, int64(size)*1000
					one.Gpus, one.Cpu = 0, 1000
					all.Gpus, all.Cpu = 0, int64(size)*1000
				}
				gang := cycle.Job{Name: "j1", Queue: "q1", Priority: 100, MinMember: int32(size), AgeMinutes: 10, StartedMins: 1}
				for k := 0; k < size; k++ {
					p := one
					p.Name = fmt.Sprintf("j1-%d", k)
					gang.Pods = append(gang.Pods, p)
				}
				all.Name = "j2-0"
				big := cycle.Job{Name: "j2", Queue: "q1", Priority: 50, MinMember: 1, AgeMinutes: 5, StartedMins: 1, Pods: []core.PodSpec{all}}
				c := cycle.Cluster{Nodes: []core.NodeSpec{n}, Queues: []cycle.Queue{{Name: "q1", Deserved: 4, Limit: 0, OverQuota: 1, Priority: 100}},
					Jobs: []cycle.Job{gang, big}, Actions: []string{"allocate"}, FailBinds: []int{failAt}}
				term, label, _ := cycle.Emit(c)
				emit(fmt.Sprintf("(FFault %s)", term), fmt.Sprintf("faults corpus/gang-of-%d-bind-%d-fails ", size, failAt)+label)
			}
		}
	}
}
