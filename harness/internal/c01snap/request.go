package c01snap

// C01's request stream (case kind FRequest of coq/Run/C01.v): what a pod asks of a node, as the scheduler reads it
// (pod_info.NewTaskInfo(pod).ResReq: getPodResourceRequest) against what Kubernetes holds the node to, computed
// independently with the upstream helper k8s.io/component-helpers/resource.PodRequests (the function the kubelet's
// admission and the kube-scheduler's NodeResourcesFit use). Pod specs are generated with 1-4 regular containers, 0-3
// init containers (some of them restartable sidecars, restartPolicy Always), requests and limits-only entries,
// spec.overhead present or absent, over cpu / memory / nvidia.com/gpu / a MIG profile / an extended resource, with
// zero and missing quantities.
// Options of PodRequests: the kube-scheduler (v1.34 noderesources/fit.go computePodResourceRequest) passes
// UseStatusResources = InPlacePodVerticalScaling and SkipPodLevelResources = !PodLevelResources; the generated pods
// are pending, carry no status.containerStatuses resources and no spec.resources, so both options are without effect
// and the zero options are used (overhead included, container level).
// Packing half (for pods whose two readings could differ - an init container above the sum of the containers and an
// overhead - and for the corpus): one node whose allocatable is an exact multiple k of the REFERENCE request, k+1
// identical pending pods, one real session on the real cache over fake clientsets, one real allocate action; the
// Binds the real Cache.Bind accepted are counted.

import (
	"fmt"
	"sort"
	"strings"
	"sync"

	v1 "k8s.io/api/core/v1"
	"k8s.io/apimachinery/pkg/api/resource"
	"k8s.io/apimachinery/pkg/runtime"
	k8sresource "k8s.io/component-helpers/resource"

	"github.com/NVIDIA/KAI-scheduler/pkg/scheduler/api/pod_info"
	"github.com/NVIDIA/KAI-scheduler/pkg/scheduler/api/resource_info"
	"github.com/NVIDIA/KAI-scheduler/pkg/scheduler/framework"

	"kaiverif/internal/core"
	"kaiverif/internal/snapworld"
	u "kaiverif/internal/util"
)

// Qs is a resource list in the model's units: cpu milli, memory bytes, whole GPUs, MIG instances, extended units.
// A missing key is a missing entry; a present key with 0 is a zero quantity.
type Qs map[string]int64

type RCont struct {
	Req, Lim Qs
	Sidecar  bool // init container with restartPolicy Always
}

type RPod struct {
	Origin   string
	Conts    []RCont
	Inits    []RCont
	Overhead Qs // nil = no spec.overhead
	Pack     int // k > 0: packing world with a node of k reference requests and k+1 pods
}

var resKeys = []string{"cpu", "mem", "gpu", "mig", "ext"}

func resName(k string) v1.ResourceName {
	switch k {
	case "cpu":
		return v1.ResourceCPU
	case "mem":
		return v1.ResourceMemory
	case "gpu":
		return core.GpuRes
	case "mig":
		return core.MigRes
	}
	return core.ExtRes
}

func (q Qs) list() v1.ResourceList {
	if q == nil {
		return nil
	}
	rl := v1.ResourceList{}
	for k, v := range q {
		if k == "cpu" {
			rl[resName(k)] = *resource.NewMilliQuantity(v, resource.DecimalSI)
		} else {
			rl[resName(k)] = *resource.NewQuantity(v, resource.DecimalSI)
		}
	}
	return rl
}

func (q Qs) String() string {
	var parts []string
	for _, k := range resKeys {
		if v, ok := q[k]; ok {
			parts = append(parts, fmt.Sprintf("%s=%d", k, v))
		}
	}
	return "{" + strings.Join(parts, " ") + "}"
}

type rvec struct{ cpu, mem, gpu, pods, mig, ext int64 }

func (r rvec) term() string {
	return u.App("mkRes", u.Z(r.cpu), u.Z(r.mem), u.Z(r.gpu), u.Z(r.pods), u.Z(r.mig), u.Z(r.ext))
}
func (r rvec) String() string {
	return fmt.Sprintf("{cpu=%dm mem=%d gpu=%d mig=%d ext=%dm pods=%d}", r.cpu, r.mem, r.gpu, r.mig, r.ext, r.pods)
}

// vec is a container's request list in the model's units (extended resources in milli-units, as the scheduler keeps them)
func (q Qs) vec() rvec {
	return rvec{cpu: q["cpu"], mem: q["mem"], gpu: q["gpu"], mig: q["mig"], ext: 1000 * q["ext"]}
}

func (p RPod) k8s(name string) *v1.Pod {
	pod := core.PodSpec{Name: name, Job: "pg-" + name}.K8s()
	mk := func(prefix string, cs []RCont) []v1.Container {
		var out []v1.Container
		for i, c := range cs {
			k := v1.Container{Name: fmt.Sprintf("%s%d", prefix, i), Resources: v1.ResourceRequirements{Requests: c.Req.list(), Limits: c.Lim.list()}}
			if c.Sidecar {
				always := v1.ContainerRestartPolicyAlways
				k.RestartPolicy = &always
			}
			out = append(out, k)
		}
		return out
	}
	pod.Spec.Containers = mk("c", p.Conts)
	pod.Spec.InitContainers = mk("i", p.Inits)
	if p.Overhead != nil {
		rc := "sandboxed"
		pod.Spec.RuntimeClassName = &rc
		pod.Spec.Overhead = p.Overhead.list()
	}
	return pod
}

func (p RPod) hasSidecar() bool {
	for _, c := range p.Inits {
		if c.Sidecar {
			return true
		}
	}
	return false
}

// schedulerReading is the request the scheduler books for the pod.
func schedulerReading(pod *v1.Pod) (rvec, error) {
	vm := resource_info.NewResourceVectorMap()
	vm.AddResourceList(v1.ResourceList{v1.ResourceCPU: {}, v1.ResourceMemory: {}, v1.ResourcePods: {}, core.GpuRes: {}, core.MigRes: {}, core.ExtRes: {}})
	rr := pod_info.NewTaskInfo(pod, nil, vm).ResReq
	out := rvec{cpu: int64(rr.Cpu()), mem: int64(rr.Memory()), gpu: int64(rr.GPUs())}
	if float64(out.cpu) != rr.Cpu() || float64(out.mem) != rr.Memory() || float64(out.gpu) != rr.GPUs() {
		return out, fmt.Errorf("non-integral reading %v / %v / %v", rr.Cpu(), rr.Memory(), rr.GPUs())
	}
	for name, v := range rr.ScalarResources() {
		switch name {
		case v1.ResourcePods:
			out.pods = v
		case core.ExtRes:
			out.ext = v
		default:
			return out, fmt.Errorf("unexpected scalar resource %s in the scheduler's reading", name)
		}
	}
	for name, v := range rr.MigResources() {
		if name != core.MigRes {
			return out, fmt.Errorf("unexpected MIG resource %s in the scheduler's reading", name)
		}
		out.mig = v
	}
	return out, nil
}

// kubernetesRequest is the pod's request by the upstream rule; one pod slot per pod.
func kubernetesRequest(pod *v1.Pod) (rvec, error) {
	rl := k8sresource.PodRequests(pod, k8sresource.PodResourcesOptions{})
	out := rvec{pods: 1}
	for name, q := range rl {
		switch name {
		case v1.ResourceCPU:
			out.cpu = q.MilliValue()
		case v1.ResourceMemory:
			out.mem = q.Value()
		case core.GpuRes:
			out.gpu = q.Value()
		case core.MigRes:
			out.mig = q.Value()
		case core.ExtRes:
			out.ext = q.MilliValue()
		default:
			return out, fmt.Errorf("unexpected resource %s in PodRequests", name)
		}
	}
	return out, nil
}

type packResult struct {
	alloc  rvec
	npods  int
	nbound int
	desc   string
}

// runPacking: a node of k reference requests, k+1 identical pods, one real allocate action.
func runPacking(p RPod, ref rvec) (packResult, error) {
	k := int64(p.Pack)
	mult := func(v, dflt int64) int64 {
		if v > 0 {
			return k * v
		}
		return dflt
	}
	spec := core.NodeSpec{Name: "n1", Cpu: mult(ref.cpu, 16000), Mem: mult(ref.mem, 64<<30), Gpus: mult(ref.gpu, 0), Pods: 110,
		Mig: mult(ref.mig, 0), Ext: mult(ref.ext/1000, 0), GpuMem: 16384}
	node := spec.K8s()
	node.Status.Conditions = []v1.NodeCondition{{Type: v1.NodeReady, Status: v1.ConditionTrue}}
	kube := []runtime.Object{node}
	kai := []runtime.Object{queue(deptName, ""), queue(queueName, deptName)}
	n := int(k) + 1
	for i := 1; i <= n; i++ {
		name := fmt.Sprintf("r%d", i)
		kube = append(kube, p.k8s(name))
		kai = append(kai, podGroup("pg-"+name, i))
	}
	s := snapworld.New(kube, kai)
	defer s.Close()
	oc := &obsCache{Cache: s.Cache}
	snapworld.SessionMu.Lock()
	ssn, err := snapworld.OpenSession(oc, "c01req")
	if err != nil {
		snapworld.SessionMu.Unlock()
		return packResult{}, fmt.Errorf("OpenSession: %v", err)
	}
	snapworld.RunAction(ssn, "allocate")
	framework.CloseSession(ssn)
	snapworld.SessionMu.Unlock()
	res := packResult{alloc: rvec{cpu: spec.Cpu, mem: spec.Mem, gpu: spec.Gpus, pods: spec.Pods, mig: spec.Mig, ext: 1000 * spec.Ext}, npods: n}
	var bound []string
	for _, c := range oc.calls {
		switch c.kind {
		case "bind":
			if c.node != "n1" {
				return res, fmt.Errorf("bind to unknown node %s", c.node)
			}
			res.nbound++
			bound = append(bound, c.pod)
		case "evict":
			return res, fmt.Errorf("allocate evicted %s", c.pod)
		}
	}
	sort.Strings(bound)
	res.desc = fmt.Sprintf("packing: node n1 allocatable %v = %d x the Kubernetes request, %d identical pending pods, allocate bound %d %v", res.alloc, k, n, res.nbound, bound)
	return res, nil
}

type reqResult struct {
	term, label string
	counts      []string
	err         error
}

func runRequest(p RPod) (res reqResult) {
	defer func() {
		if x := recover(); x != nil {
			res.err = fmt.Errorf("panic: %v", x)
		}
	}()
	pod := p.k8s("r0")
	got, err := schedulerReading(pod)
	if err != nil {
		res.err = err
		return
	}
	ref, err := kubernetesRequest(pod)
	if err != nil {
		res.err = err
		return
	}
	var conts, inits, cd, id []string
	sumC, maxI := rvec{}, rvec{}
	for _, c := range p.Conts {
		v := c.Req.vec()
		conts = append(conts, v.term())
		d := "req" + c.Req.String()
		if c.Lim != nil {
			d += " lim" + c.Lim.String()
		}
		cd = append(cd, d)
		sumC = rvec{sumC.cpu + v.cpu, sumC.mem + v.mem, sumC.gpu + v.gpu, 0, sumC.mig + v.mig, sumC.ext + v.ext}
	}
	mx := func(a, b int64) int64 {
		if a > b {
			return a
		}
		return b
	}
	for _, c := range p.Inits {
		v := c.Req.vec()
		inits = append(inits, u.Pair(u.Bool(c.Sidecar), v.term()))
		d := "req" + c.Req.String()
		if c.Lim != nil {
			d += " lim" + c.Lim.String()
		}
		if c.Sidecar {
			d = "sidecar " + d
		}
		id = append(id, d)
		maxI = rvec{mx(maxI.cpu, v.cpu), mx(maxI.mem, v.mem), mx(maxI.gpu, v.gpu), 0, mx(maxI.mig, v.mig), mx(maxI.ext, v.ext)}
	}
	oh, od := rvec{}, "none"
	if p.Overhead != nil {
		oh, od = p.Overhead.vec(), p.Overhead.String()
	}
	// the shape the two rules can differ on: an init container above the containers' sum in a resource the overhead has
	sensitive := (maxI.cpu > sumC.cpu && oh.cpu > 0) || (maxI.mem > sumC.mem && oh.mem > 0) || (maxI.ext > sumC.ext && oh.ext > 0)
	pack, pdesc := "None", ""
	if p.Pack > 0 {
		pr, err := runPacking(p, ref)
		if err != nil {
			res.err = err
			return
		}
		pack = u.Opt(true, u.App("mkPK", pr.alloc.term(), u.Z(int64(pr.nbound)), u.Z(int64(pr.npods))))
		pdesc = " " + pr.desc
		res.counts = append(res.counts, "request-packing-worlds", fmt.Sprintf("request-packing-binds:%d-of-%d", pr.nbound, pr.npods))
		if pr.nbound == p.Pack {
			res.counts = append(res.counts, "request-packing-node-filled-exactly")
		}
	}
	res.term = fmt.Sprintf("(FRequest (mkRQ %s %s %s %s %s %s))", u.List(conts), u.List(inits), oh.term(), got.term(), ref.term(), pack)
	res.label = fmt.Sprintf("request-pod %s containers[%s] init[%s] overhead %s => scheduler reads %v, Kubernetes request %v%s",
		p.Origin, strings.Join(cd, "; "), strings.Join(id, "; "), od, got, ref, pdesc)
	res.counts = append(res.counts, "request-pods", fmt.Sprintf("request-containers:%d", len(p.Conts)), fmt.Sprintf("request-init-containers:%d", len(p.Inits)))
	if p.hasSidecar() {
		res.counts = append(res.counts, "request-pods-with-sidecar")
	}
	if p.Overhead != nil {
		res.counts = append(res.counts, "request-pods-with-overhead")
	}
	if sensitive {
		res.counts = append(res.counts, "request-pods-init-above-containers-with-overhead")
	}
	for _, c := range append(append([]RCont{}, p.Conts...), p.Inits...) {
		for k, v := range c.Req {
			if v == 0 {
				res.counts = append(res.counts, "request-zero-quantity:"+k)
			} else {
				res.counts = append(res.counts, "request-resource:"+k)
			}
		}
		for k := range c.Lim {
			if _, ok := c.Req[k]; !ok {
				res.counts = append(res.counts, "request-limits-only-entry:"+k)
			}
		}
	}
	return
}

const (
	mi = int64(1) << 20
	gi = int64(1) << 30
)

// requestCorpus: the seeded/C01-5 pod and its neighbours, each with a packing world.
func requestCorpus() []RPod {
	c := func(cpu, mem int64) RCont { return RCont{Req: Qs{"cpu": cpu, "mem": mem}} }
	readme := RPod{Origin: "corpus/seeded-C01-5-readme", Conts: []RCont{c(500, 512*mi)}, Inits: []RCont{c(1500, 1536*mi)},
		Overhead: Qs{"cpu": 500, "mem": 512 * mi}, Pack: 3}
	noOverhead := RPod{Origin: "corpus/init-above-containers-no-overhead", Conts: []RCont{c(500, 512*mi)}, Inits: []RCont{c(1500, 1536*mi)}, Pack: 3}
	initBelow := RPod{Origin: "corpus/init-below-containers-overhead", Conts: []RCont{c(1000, gi), c(1000, gi)}, Inits: []RCont{c(1500, 1536*mi)},
		Overhead: Qs{"cpu": 500, "mem": 512 * mi}, Pack: 2}
	cpuOnly := RPod{Origin: "corpus/init-above-in-cpu-only", Conts: []RCont{c(500, 2*gi)}, Inits: []RCont{c(2000, 256*mi), c(250, 128*mi)},
		Overhead: Qs{"cpu": 250, "mem": 128 * mi}, Pack: 4}
	bigOverhead := RPod{Origin: "corpus/overhead-above-the-gap", Conts: []RCont{c(1000, gi)}, Inits: []RCont{c(1250, gi+256*mi)},
		Overhead: Qs{"cpu": 1000, "mem": gi}, Pack: 3}
	ext := RPod{Origin: "corpus/extended-resource-in-overhead", Conts: []RCont{{Req: Qs{"cpu": 500, "ext": 1}}}, Inits: []RCont{{Req: Qs{"cpu": 500, "ext": 3}}},
		Overhead: Qs{"cpu": 100, "ext": 1}, Pack: 2}
	gpu := RPod{Origin: "corpus/gpu-init-above-containers", Conts: []RCont{{Req: Qs{"cpu": 500, "mem": gi, "gpu": 1}}},
		Inits: []RCont{{Req: Qs{"cpu": 1000, "mem": 2 * gi, "gpu": 2}}}, Overhead: Qs{"cpu": 250, "mem": 256 * mi}, Pack: 2}
	limitsOnly := RPod{Origin: "corpus/limits-only", Conts: []RCont{{Req: Qs{"cpu": 500}, Lim: Qs{"cpu": 1000, "mem": gi}}},
		Inits: []RCont{{Req: Qs{}, Lim: Qs{"cpu": 4000, "mem": 4 * gi}}}, Overhead: Qs{"cpu": 100}, Pack: 2}
	sidecar := RPod{Origin: "corpus/sidecar", Conts: []RCont{c(1000, gi)}, Inits: []RCont{{Req: Qs{"cpu": 1000, "mem": gi}, Sidecar: true}}, Pack: 2}
	return []RPod{readme, noOverhead, initBelow, cpuOnly, bigOverhead, ext, gpu, limitsOnly, sidecar}
}

func genQs(r *u.Rng, big bool, withDevices bool) Qs {
	q := Qs{}
	cpus := []int64{100, 250, 500, 1000}
	mems := []int64{128 * mi, 256 * mi, 512 * mi, gi}
	if big {
		cpus = []int64{500, 1000, 1500, 2000, 3000}
		mems = []int64{512 * mi, gi, 1536 * mi, 2 * gi, 3 * gi}
	}
	put := func(k string, present int, vals []int64) {
		if !r.Chance(present, 10) {
			return
		}
		if r.Chance(1, 8) {
			q[k] = 0
			return
		}
		q[k] = u.Pick(r, vals)
	}
	put("cpu", 8, cpus)
	put("mem", 7, mems)
	if withDevices {
		put("gpu", 2, []int64{1, 2})
		put("mig", 1, []int64{1, 2})
		put("ext", 3, []int64{1, 2, 3})
	}
	return q
}

func genCont(r *u.Rng, big, dev bool) RCont {
	c := RCont{Req: genQs(r, big, dev)}
	if r.Chance(1, 4) {
		// limits: equal to the requests, plus entries that have no request at all
		c.Lim = Qs{}
		for k, v := range c.Req {
			c.Lim[k] = v
		}
		for _, k := range []string{"cpu", "mem"} {
			if _, ok := c.Req[k]; !ok || r.Chance(1, 3) {
				delete(c.Req, k)
				c.Lim[k] = map[string]int64{"cpu": 2000, "mem": 2 * gi}[k]
			}
		}
	}
	return c
}

// GenRequest draws one pod spec.
func GenRequest(r *u.Rng, i int) RPod {
	p := RPod{Origin: fmt.Sprintf("gen/%d", i)}
	dev := r.Chance(1, 3)
	for k, n := 0, r.Range(1, 4); k < n; k++ {
		p.Conts = append(p.Conts, genCont(r, false, dev))
	}
	ninit := r.Range(0, 3)
	bigInit := r.Chance(3, 5)
	for k := 0; k < ninit; k++ {
		c := genCont(r, bigInit, dev)
		c.Sidecar = r.Chance(1, 8)
		p.Inits = append(p.Inits, c)
	}
	if r.Chance(3, 5) {
		p.Overhead = Qs{}
		if r.Chance(9, 10) {
			p.Overhead["cpu"] = u.Pick(r, []int64{0, 100, 250, 500})
		}
		if r.Chance(7, 10) {
			p.Overhead["mem"] = u.Pick(r, []int64{0, 64 * mi, 128 * mi, 512 * mi})
		}
		if dev && r.Chance(1, 4) {
			p.Overhead["ext"] = 1
		}
	}
	return p
}

// RequestStream emits the corpus and n generated pods; pods on which the two rules can differ get a packing world
// (at most maxPack of them).
func RequestStream(root *u.Rng, n, maxPack int, emit func(term, label string, counts []string)) error {
	pods := requestCorpus()
	packed := 0
	for i := 0; i < n; i++ {
		r := root.Fork(uint64(7000000 + i))
		p := GenRequest(r, i)
		if packed < maxPack && !p.hasSidecar() && p.Overhead != nil && len(p.Inits) > 0 {
			sum, mx := map[string]int64{}, map[string]int64{}
			for _, c := range p.Conts {
				for k, v := range c.Req {
					sum[k] += v
				}
			}
			for _, c := range p.Inits {
				for k, v := range c.Req {
					if v > mx[k] {
						mx[k] = v
					}
				}
			}
			for _, k := range []string{"cpu", "mem", "ext"} {
				if mx[k] > sum[k] && p.Overhead[k] > 0 {
					p.Pack = r.Range(2, 4)
				}
			}
			if p.Pack > 0 {
				packed++
			}
		}
		pods = append(pods, p)
	}
	results := make([]reqResult, len(pods))
	results[0] = runRequest(pods[0])
	var wg sync.WaitGroup
	sem := make(chan struct{}, 12)
	for i := 1; i < len(pods); i++ {
		wg.Add(1)
		sem <- struct{}{}
		go func(i int) {
			defer wg.Done()
			defer func() { <-sem }()
			results[i] = runRequest(pods[i])
		}(i)
	}
	wg.Wait()
	for i, res := range results {
		if res.err != nil {
			return fmt.Errorf("request pod %d (%s): %v", i, pods[i].Origin, res.err)
		}
		emit(res.term, res.label, res.counts)
	}
	return nil
}

// RequestRule describes the stream for the evidence file.
const RequestRule = "Plus request cases (FRequest): a corpus (the seeded/C01-5 pod and neighbours: no overhead, init below the containers, init above in cpu only, overhead above the gap, extended resource in the overhead, GPUs, limits-only entries, a sidecar) and generated pod specs with 1-4 containers, 0-3 init containers (1 in 8 a restartable sidecar), requests and limits-only entries, spec.overhead in 3 of 5, cpu / memory and in 1 of 3 pods nvidia.com/gpu, a MIG profile and an extended resource, zero and missing quantities; the scheduler's reading pod_info.NewTaskInfo(pod).ResReq against k8s.io/component-helpers/resource.PodRequests. For the corpus and for generated pods with an init container above the containers' sum in a resource the overhead has: a packing world (node allocatable = k x the Kubernetes request, k+1 identical pending pods, real cache over fake clientsets, one real allocate action, Binds counted)."
