package c01snap

import (
	"fmt"
	"sort"
	"sync"

	v1 "k8s.io/api/core/v1"

	"kaiverif/internal/core"
	u "kaiverif/internal/util"
)

func i32(v int) *int32 { x := int32(v); return &x }

// missing is the index of a node that no world contains.
const missing = 9

// A situation puts a pod (and possibly a BindRequest) into one state with respect to node n.
type situation struct {
	name     string
	occupies bool
	set      func(p *Pod, n int, r *u.Rng)
}

var situations = []situation{
	{"running", true, func(p *Pod, n int, r *u.Rng) { p.Node, p.Phase = n, v1.PodRunning }},
	{"running-with-served-request", true, func(p *Pod, n int, r *u.Rng) {
		p.Node, p.Phase, p.BR = n, v1.PodRunning, &BR{Node: n, Phase: "Succeeded"}
	}},
	{"terminating", true, func(p *Pod, n int, r *u.Rng) { p.Node, p.Phase, p.Deleting = n, v1.PodRunning, true }},
	{"bound", true, func(p *Pod, n int, r *u.Rng) { p.Node, p.Phase = n, v1.PodPending }},
	{"bound-terminating", true, func(p *Pod, n int, r *u.Rng) { p.Node, p.Phase, p.Deleting = n, v1.PodPending, true }},
	{"binding", true, func(p *Pod, n int, r *u.Rng) {
		p.Phase, p.BR = v1.PodPending, &BR{Node: n, Phase: u.Pick(r, []string{"", "Pending"}), Limit: pickLimit(r)}
	}},
	{"binding-gated", true, func(p *Pod, n int, r *u.Rng) {
		p.Phase, p.Gated, p.BR = v1.PodPending, true, &BR{Node: n, Phase: "Pending"}
	}},
	{"served-pod-informer-lagging", true, func(p *Pod, n int, r *u.Rng) {
		p.Phase, p.BR = v1.PodPending, &BR{Node: n, Phase: "Succeeded", Limit: pickLimit(r), Attempts: int32(r.Intn(2))}
	}},
	{"binding-failed-retries-left", true, func(p *Pod, n int, r *u.Rng) {
		lim := r.Range(2, 4)
		p.Phase, p.BR = v1.PodPending, &BR{Node: n, Phase: "Failed", Limit: i32(lim), Attempts: int32(r.Range(0, lim-1))}
	}},
	{"binding-request-being-deleted", true, func(p *Pod, n int, r *u.Rng) {
		p.Phase, p.BR = v1.PodPending, &BR{Node: n, Phase: u.Pick(r, []string{"", "Pending", "Succeeded"}), Deleting: true}
	}},
	{"deleted-pod-outstanding-request", true, func(p *Pod, n int, r *u.Rng) {
		p.Phase, p.Deleting = v1.PodPending, true
		p.BR = &BR{Node: n, Phase: "Pending"}
		if r.Chance(1, 3) {
			p.BR = &BR{Node: n, Phase: "Failed", Limit: i32(3), Attempts: 1}
		}
	}},
	// ---- pods that do NOT occupy node n
	{"binding-failed-terminally", false, func(p *Pod, n int, r *u.Rng) {
		p.Phase = v1.PodPending
		switch r.Intn(3) {
		case 0:
			p.BR = &BR{Node: n, Phase: "Failed", Limit: nil, Attempts: int32(r.Range(0, 2))}
		case 1:
			lim := r.Range(0, 3)
			p.BR = &BR{Node: n, Phase: "Failed", Limit: i32(lim), Attempts: int32(lim)}
		default:
			lim := r.Range(1, 3)
			p.BR = &BR{Node: n, Phase: "Failed", Limit: i32(lim), Attempts: int32(lim + r.Range(1, 2))}
		}
	}},
	{"request-for-missing-node", false, func(p *Pod, n int, r *u.Rng) {
		p.Phase, p.BR = v1.PodPending, &BR{Node: missing, Phase: u.Pick(r, []string{"", "Pending", "Succeeded", "Failed"}), Limit: i32(3)}
	}},
	{"finished", false, func(p *Pod, n int, r *u.Rng) {
		p.Node, p.Phase = n, u.Pick(r, []v1.PodPhase{v1.PodSucceeded, v1.PodFailed})
		if r.Chance(1, 2) {
			p.BR = &BR{Node: n, Phase: "Succeeded"}
		}
	}},
	{"pending", false, func(p *Pod, n int, r *u.Rng) { p.Phase = v1.PodPending }},
	{"pending-gated", false, func(p *Pod, n int, r *u.Rng) { p.Phase, p.Gated = v1.PodPending, true }},
	{"pending-terminating", false, func(p *Pod, n int, r *u.Rng) { p.Phase, p.Deleting = v1.PodPending, true }},
	{"running-on-missing-node", false, func(p *Pod, n int, r *u.Rng) { p.Node, p.Phase = missing, v1.PodRunning }},
}

func pickLimit(r *u.Rng) *int32 {
	if r.Chance(1, 3) {
		return nil
	}
	return i32(r.Range(1, 4))
}

type room struct {
	cpu, mem, pods, gpus int64
	groups               map[int]int64 // group -> free memory (of 100)
}

func fracMem(f string) int64 {
	switch f {
	case "0.25":
		return 25
	case "0.5":
		return 50
	case "0.75":
		return 75
	}
	return 100
}

// take reserves the pod's request on the node; false when it does not fit.
func (rm *room) take(p *Pod, nextGroup *int) bool {
	if rm.cpu < p.Cpu || rm.mem < p.Mem || rm.pods < 1 {
		return false
	}
	if p.Fraction != "" {
		need := fracMem(p.Fraction)
		gs := []int{}
		for g, free := range rm.groups {
			if free >= need {
				gs = append(gs, g)
			}
		}
		sort.Ints(gs)
		if len(gs) > 0 {
			p.Group = gs[0]
		} else {
			if rm.gpus < 1 {
				return false
			}
			rm.gpus--
			*nextGroup++
			p.Group = *nextGroup
			rm.groups[p.Group] = 100
		}
		rm.groups[p.Group] -= need
	} else {
		if rm.gpus < p.Gpus {
			return false
		}
		rm.gpus -= p.Gpus
	}
	rm.cpu -= p.Cpu
	rm.mem -= p.Mem
	rm.pods--
	return true
}

func setReq(p *Pod, kind int, r *u.Rng) {
	p.Cpu, p.Mem = int64(u.Pick(r, []int{500, 1000, 2000})), 1<<30
	switch kind {
	case 0:
		p.Gpus = int64(u.Pick(r, []int{1, 1, 2}))
	case 1:
		p.Fraction = u.Pick(r, []string{"0.5", "0.5", "0.25", "0.75"})
	default:
		p.Cpu = int64(u.Pick(r, []int{1000, 2000, 3000}))
	}
}

func node(i int, cpu, gpus, pods int64) core.NodeSpec {
	return core.NodeSpec{Name: nname(i), Cpu: cpu, Mem: 16 << 30, Gpus: gpus, Pods: pods}
}

// readme is the world of seeded/C01-4: node-1 has one GPU, pod-a was bound to it and its request is Succeeded while
// the pod update is still in flight, pod-b wants the GPU.
func readme() World {
	return World{Origin: "corpus/served-request-pod-update-in-flight", Nodes: []core.NodeSpec{node(1, 16000, 1, 110)}, Pods: []Pod{
		{ID: 1, Kind: "served-pod-informer-lagging", Phase: v1.PodPending, Cpu: 1000, Mem: 1 << 30, Gpus: 1, BR: &BR{Node: 1, Phase: "Succeeded"}},
		{ID: 2, Kind: "probe", Phase: v1.PodPending, Cpu: 1000, Mem: 1 << 30, Gpus: 1, Probe: true},
	}}
}

// family: every situation x every kind of request on one small node, with a probe that wants exactly the capacity
// the pod holds (occupying situations: the probe must not be bound; the others: it may be).
func family() []World {
	var out []World
	r := u.NewRng(7)
	for _, s := range situations {
		for kind := 0; kind < 3; kind++ {
			w := World{Origin: "corpus/" + s.name, Nodes: []core.NodeSpec{node(1, 4000, 1, 110)}}
			p := Pod{ID: 1, Kind: s.name, Cpu: 1000, Mem: 1 << 30}
			probe := Pod{ID: 2, Kind: "probe", Phase: v1.PodPending, Cpu: 1000, Mem: 1 << 30, Probe: true}
			switch kind {
			case 0:
				p.Gpus, probe.Gpus = 1, 1
			case 1:
				p.Fraction, p.Group = "0.5", 1
				if len(out)%2 == 0 {
					probe.Gpus = 1
				} else {
					probe.Fraction = "0.75"
				}
			default:
				p.Cpu, probe.Cpu = 3000, 2000
			}
			s.set(&p, 1, r)
			w.Pods = []Pod{p, probe}
			out = append(out, w)
		}
	}
	// pod slots: three occupants on a node with three slots
	for _, sname := range []string{"served-pod-informer-lagging", "binding", "terminating", "deleted-pod-outstanding-request"} {
		w := World{Origin: "corpus/pod-slots/" + sname, Nodes: []core.NodeSpec{node(1, 8000, 0, 3)}}
		for i := 1; i <= 3; i++ {
			p := Pod{ID: i, Kind: "running", Node: 1, Phase: v1.PodRunning, Cpu: 500, Mem: 1 << 30}
			if i == 3 {
				p = Pod{ID: i, Kind: sname, Cpu: 500, Mem: 1 << 30}
				for _, s := range situations {
					if s.name == sname {
						s.set(&p, 1, r)
					}
				}
			}
			w.Pods = append(w.Pods, p)
		}
		w.Pods = append(w.Pods, Pod{ID: 4, Kind: "probe", Phase: v1.PodPending, Cpu: 500, Mem: 1 << 30, Probe: true})
		out = append(out, w)
	}
	// two nodes: the request names the second one; the first is full for real
	w := World{Origin: "corpus/two-nodes", Nodes: []core.NodeSpec{node(1, 4000, 2, 110), node(2, 4000, 2, 110)}, Pods: []Pod{
		{ID: 1, Kind: "running", Node: 1, Phase: v1.PodRunning, Cpu: 1000, Mem: 1 << 30, Gpus: 2},
		{ID: 2, Kind: "served-pod-informer-lagging", Phase: v1.PodPending, Cpu: 1000, Mem: 1 << 30, Gpus: 1, BR: &BR{Node: 2, Phase: "Succeeded"}},
		{ID: 3, Kind: "binding", Phase: v1.PodPending, Cpu: 1000, Mem: 1 << 30, Gpus: 1, BR: &BR{Node: 2, Phase: "Pending"}},
		{ID: 4, Kind: "probe", Phase: v1.PodPending, Cpu: 1000, Mem: 1 << 30, Gpus: 1, Probe: true},
	}}
	out = append(out, w)
	return out
}

// Gen draws a world: 1-3 nodes, 2-6 pods in random situations placed within the capacity of their node, 0-2 more
// pending pods, and a probe that asks for more than any node has left once the occupying pods are charged.
func Gen(r *u.Rng) World {
	w := World{Origin: "gen"}
	nn := r.Range(1, 3)
	rooms := map[int]*room{}
	for i := 1; i <= nn; i++ {
		ns := node(i, int64(u.Pick(r, []int{4000, 8000})), int64(u.Pick(r, []int{0, 1, 2, 2, 4})), int64(u.Pick(r, []int{3, 4, 110, 110})))
		w.Nodes = append(w.Nodes, ns)
		rooms[i] = &room{cpu: ns.Cpu, mem: ns.Mem, pods: ns.Pods, gpus: ns.Gpus, groups: map[int]int64{}}
	}
	nextGroup := 0
	id := 0
	np := r.Range(2, 6)
	for k := 0; k < np; k++ {
		s := u.Pick(r, situations)
		// occupying situations twice as likely
		if !s.occupies && r.Chance(1, 2) {
			s = u.Pick(r, situations)
		}
		id++
		p := Pod{ID: id, Kind: s.name}
		setReq(&p, r.Intn(3), r)
		n := r.Range(1, nn)
		if s.occupies {
			placed := false
			for j := 0; j < nn && !placed; j++ {
				cand := (n-1+j)%nn + 1
				if rooms[cand].take(&p, &nextGroup) {
					n, placed = cand, true
				}
			}
			if !placed {
				id--
				continue
			}
		} else if p.Fraction != "" {
			// a fractional pod that does not occupy still names a group of its own in its request / label
			nextGroup++
			p.Group = nextGroup
		}
		s.set(&p, n, r)
		w.Pods = append(w.Pods, p)
	}
	// the probe: one resource more than any node has left, if some node could hold that at all
	id++
	probe := Pod{ID: id, Kind: "probe", Phase: v1.PodPending, Cpu: 500, Mem: 1 << 30, Probe: true}
	var maxFreeCpu, maxCpu, maxFreeGpu, maxGpu, maxFreePods int64
	for i, ns := range w.Nodes {
		rm := rooms[i+1]
		maxFreeCpu, maxCpu = max(maxFreeCpu, rm.cpu), max(maxCpu, ns.Cpu)
		maxFreeGpu, maxGpu = max(maxFreeGpu, rm.gpus), max(maxGpu, ns.Gpus)
		maxFreePods = max(maxFreePods, rm.pods)
	}
	switch dim := r.Intn(3); {
	case dim == 0 && maxFreeGpu+1 <= maxGpu:
		probe.Gpus = maxFreeGpu + 1
		probe.Kind = "probe(gpu)"
	case dim == 1 && maxFreeGpu == 0 && maxGpu > 0:
		probe.Fraction = "0.75"
		probe.Kind = "probe(fraction)"
	case maxFreeCpu+500 <= maxCpu:
		probe.Cpu = maxFreeCpu + 500
		probe.Kind = "probe(cpu)"
	case maxFreePods == 0:
		probe.Kind = "probe(pod-slot)"
	default:
		probe.Kind = "probe(fits)"
	}
	w.Pods = append(w.Pods, probe)
	return w
}

// Stream runs the corpus and n generated worlds and hands every case to emit (in a fixed order).
func Stream(root *u.Rng, n int, emit func(term, label string, counts []string, nontrivial bool)) error {
	worlds := []World{readme()}
	worlds = append(worlds, family()...)
	for i := 0; i < n; i++ {
		worlds = append(worlds, Gen(root.Fork(uint64(5000000+i))))
	}
	// one warm-up case alone: the first session initialises process-wide state (plugin server, loggers, metrics)
	results := make([]result, len(worlds))
	results[0] = RunCase(worlds[0])
	var wg sync.WaitGroup
	sem := make(chan struct{}, 12)
	for i := 1; i < len(worlds); i++ {
		wg.Add(1)
		sem <- struct{}{}
		go func(i int) {
			defer wg.Done()
			defer func() { <-sem }()
			results[i] = RunCase(worlds[i])
		}(i)
	}
	wg.Wait()
	for i, res := range results {
		if res.err != nil {
			return fmt.Errorf("snapshot world %d (%s): %v", i, Describe(worlds[i]), res.err)
		}
		emit(res.term, res.label, res.counts, res.nontrivial)
	}
	return nil
}

// Rule describes the stream for the evidence file.
const Rule = "Plus a fixed family of fault cycles (gang of 2-3 pods filling one node, the k-th Bind of its commit fails after an earlier one was accepted, a lower-priority job asks for the whole node; GPU and CPU variants). Plus snapshot worlds (FSnapshot): API object sets handed to the real scheduler cache over fake clientsets - the seeded/C01-4 world, a family of every pod situation (running, running with its served request, terminating, bound, bound and terminating, binding, binding and gated, served with the pod update in flight, failed with retries left, request being deleted, deleted pod with an outstanding request; not occupying: terminally failed request, request for a missing node, finished, pending, gated, pending and terminating, running on a missing node) x {whole-GPU, fractional, cpu-only} on one node plus pod-slot and two-node worlds, then generated worlds of 1-3 nodes (4-8 CPUs, 0-4 GPUs, 3-110 pod slots) with 2-6 pods in random situations placed within capacity; every world ends with a pending probe pod that asks for one GPU / 500 mCPU / a fraction / a pod slot more than any node has left once the occupying pods are charged. A real session is opened (real Snapshot), books and per-pod status/node are dumped at snapshot time, then the real allocate action runs once (Bind goes on to the real createBindRequest on the fake clientset)."
