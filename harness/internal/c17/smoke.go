package c17

import (
	"context"
	"fmt"
	"os"
	"os/exec"
	"path/filepath"
	"runtime"
	"strings"
	"sync"
	"time"

	v1 "k8s.io/api/core/v1"
	k8sruntime "k8s.io/apimachinery/pkg/runtime"
	"sigs.k8s.io/controller-runtime/pkg/client"

	u "kaiverif/internal/util"
)

// Validation, not proof: real goroutines run the real service on the same
// groups. Mutual exclusion per group is the subject of Proofs/GroupMutex.v;
// this only checks that nothing observable goes wrong when the sections really
// interleave (and, built with -race, that the race detector stays silent).

const smokeGoroutines = 14

type smokePod struct {
	name   string
	mf     int
	groups []string
	done   bool // completes in the second phase
}

// concurrentSmoke returns the final store and whether every call that must
// succeed did.
func concurrentSmoke(scheme *k8sruntime.Scheme, r *u.Rng) (store []PodObs, clean bool) {
	var failed sync.Mutex
	clean = true
	pods := []smokePod{
		{"c1", 0, []string{"g1"}, false}, {"c2", 0, []string{"g2"}, true}, {"c3", 0, []string{"g1"}, true},
		{"c4", 0, []string{"g2"}, true}, {"c5", 1, []string{"g2", "g3"}, true}, {"c6", 1, []string{"g1", "g3"}, false},
		{"c7", 0, []string{"g1"}, false}, {"c8", 1, []string{"g3", "g2"}, true},
	}
	mf := map[string]int{}
	objs := []client.Object{}
	for _, p := range pods {
		mf[p.name] = p.mf
		objs = append(objs, consumerPod(p.name, p.mf))
	}
	srv := newAPIServer(scheme, objs...)
	var jm sync.Mutex
	srv.jitter = func() {
		jm.Lock()
		d := r.Intn(6)
		jm.Unlock()
		runtime.Gosched()
		if d > 2 {
			time.Sleep(time.Duration(d*20) * time.Microsecond)
		}
	}
	for i := 0; i < 64; i++ {
		srv.cur.dp = append(srv.cur.dp, i%4)
	}
	svc := newService(srv.ic)
	ctx := context.Background()
	var wg sync.WaitGroup
	// wait for all goroutines, but not forever: a broken lock can deadlock them
	wait := func() bool {
		ch := make(chan struct{})
		go func() { wg.Wait(); close(ch) }()
		select {
		case <-ch:
			return true
		case <-time.After(20 * time.Second):
			failed.Lock()
			clean = false
			failed.Unlock()
			return false
		}
	}
	spawn := func(f func()) {
		wg.Add(1)
		go func() {
			defer wg.Done()
			defer func() {
				if x := recover(); x != nil {
					failed.Lock()
					clean = false
					failed.Unlock()
				}
			}()
			f()
		}()
	}
	// phase A: every consumer is reserved into its groups while syncs run
	for _, p := range pods {
		p := p
		spawn(func() {
			pod := &v1.Pod{}
			if err := srv.base.Get(ctx, client.ObjectKey{Namespace: consNS, Name: p.name}, pod); err != nil {
				panic(err)
			}
			var given [][2]string
			for _, g := range p.groups {
				idx, err := svc.ReserveGpuDevice(ctx, pod, "n1", g)
				if err != nil {
					panic(fmt.Sprintf("reserve %s %s: %v", p.name, g, err))
				}
				given = append(given, [2]string{g, idx})
			}
			srv.mu.Lock()
			srv.given[p.name] = given
			srv.mu.Unlock()
		})
	}
	for _, g := range []string{"g1", "g2", "g3"} {
		g := g
		spawn(func() {
			for i := 0; i < 3; i++ {
				_ = svc.SyncForGpuGroup(ctx, g)
			}
		})
	}
	for i := 0; i < 3; i++ {
		spawn(func() { _ = svc.SyncForNode(ctx, "n1") })
	}
	if !wait() {
		return srv.snapshot(mf), false
	}
	// phase B: some consumers complete; concurrent syncs of their groups
	for _, p := range pods {
		if !p.done {
			continue
		}
		pod := &v1.Pod{}
		if err := srv.base.Get(ctx, client.ObjectKey{Namespace: consNS, Name: p.name}, pod); err != nil {
			panic(err)
		}
		pod.Status.Phase = v1.PodSucceeded
		if err := srv.base.Status().Update(ctx, pod); err != nil {
			panic(err)
		}
	}
	for i := 0; i < 4; i++ {
		for _, g := range []string{"g1", "g2", "g3"} {
			g := g
			spawn(func() { _ = svc.SyncForGpuGroup(ctx, g) })
		}
	}
	spawn(func() { _ = svc.SyncForNode(ctx, "n1") })
	spawn(func() { _ = svc.Sync(ctx) })
	if !wait() {
		return srv.snapshot(mf), false
	}
	spawn(func() {
		if err := svc.Sync(ctx); err != nil {
			panic(err)
		}
	})
	if !wait() {
		return srv.snapshot(mf), false
	}
	srv.jitter = nil
	return srv.snapshot(mf), clean
}

// raceSmokeOnly is what the -race build of the driver runs.
func raceSmokeOnly(seed uint64, n int) error {
	scheme := newScheme()
	rng := u.NewRng(seed)
	if n <= 0 {
		n = 30
	}
	for i := 0; i < n; i++ {
		store, clean := concurrentSmoke(scheme, rng.Fork(uint64(i)))
		if !clean {
			return fmt.Errorf("run %d: a reserve / sync call failed", i)
		}
		res := map[string]int{}
		for _, p := range store {
			if p.Res {
				res[p.Plain]++
			}
		}
		for g, k := range res {
			if k > 1 {
				return fmt.Errorf("run %d: %d reservation pods for %s", i, k, g)
			}
		}
	}
	fmt.Println("race-smoke: done", n, "runs")
	return nil
}

// raceSmoke builds the driver with the race detector and runs the concurrent
// smoke test under it (thorough tier).
func raceSmoke(seed uint64) (bool, string) {
	wd, err := os.Getwd()
	if err != nil {
		return true, "race build skipped: " + err.Error()
	}
	harness := findHarnessDir(wd)
	if harness == "" {
		return true, "race build skipped: harness directory not found"
	}
	bin := filepath.Join(harness, "..", ".work", "bin", "c17race")
	build := exec.Command("go", "build", "-race", "-tags", "verif", "-o", bin, "./cmd/c17")
	build.Dir = harness
	build.Env = append(os.Environ(), "CGO_ENABLED=1")
	if out, err := build.CombinedOutput(); err != nil {
		return true, "race build unavailable: " + firstLine(string(out)+err.Error())
	}
	run := exec.Command(bin, "-tier", "race-smoke", "-seed", fmt.Sprint(seed), "-n", "40")
	run.Env = append(os.Environ(), "GORACE=halt_on_error=1")
	out, err := run.CombinedOutput()
	if strings.Contains(string(out), "DATA RACE") {
		return false, "DATA RACE reported: " + firstLine(string(out))
	}
	if err != nil {
		return false, "race-smoke run failed: " + firstLine(string(out)+err.Error())
	}
	return true, "built with -race, 40 concurrent runs, no report"
}

func firstLine(s string) string {
	s = strings.TrimSpace(s)
	if len(s) > 300 {
		s = s[:300]
	}
	return strings.ReplaceAll(s, "\n", " | ")
}

func findHarnessDir(wd string) string {
	for _, c := range []string{"/verif/harness", filepath.Join(wd, "harness"), wd} {
		if _, err := os.Stat(filepath.Join(c, "cmd", "c17", "main.go")); err == nil {
			return c
		}
	}
	return ""
}
