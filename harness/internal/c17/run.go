package c17

import (
	"fmt"
	"os"
	"sort"
	"strconv"
	"strings"
	"time"

	"sigs.k8s.io/controller-runtime/pkg/client"

	u "kaiverif/internal/util"
)

// Case is one generated history.
type Case struct {
	Pods  []string // c1, c2, ... (name order)
	MF    map[string]int
	Steps []*Step
	Note  string
}

func num(s string, prefix string) int {
	if strings.HasPrefix(s, prefix) {
		if v, err := strconv.Atoi(s[len(prefix):]); err == nil && v > 0 {
			return v
		}
	}
	return 99
}
func gid(g string) string { return u.Pos(num(g, "g")) }
func nid(n string) string { return u.Pos(num(n, "n")) }
func cid(c string) string { return u.Pos(num(c, "c")) }
func idxTerm(s string) int { // device index string -> positive
	if v, err := strconv.Atoi(s); err == nil && v >= 0 {
		return v + 1
	}
	return 99
}

func mfTerm(m int) string { return [...]string{"MfNo", "MfYes", "MfErr"}[m] }

func phaseTerm(p string) string {
	switch p {
	case "Running", "Succeeded", "Failed":
		return p
	}
	return "Pending"
}

func sortedGroups(gs []string) []string {
	out := append([]string(nil), gs...)
	sort.Slice(out, func(i, j int) bool { return num(out[i], "g") < num(out[j], "g") })
	return out
}

func podTerm(o PodObs) string {
	id := o.ID
	if !o.Res {
		id = num(o.Name, "c")
	}
	given := []string{}
	for _, g := range o.Given {
		given = append(given, u.Pair(gid(g[0]), u.Pos(idxTerm(g[1]))))
	}
	return u.App("mkPod", u.Pos(id), u.Bool(o.Res), u.Opt(o.Node != "", nid(o.Node)), u.Opt(o.Plain != "", gid(o.Plain)),
		u.ListOf(sortedGroups(o.Multi), gid), phaseTerm(o.Phase), u.Opt(o.HasIdx, u.Pos(idxTerm(o.Index))),
		mfTerm(o.MF), u.List(given))
}

func eventTerm(e Event) string {
	switch e.Kind {
	case "bind":
		return u.App("EvBind", cid(e.Pod), nid(e.Node), u.ListOf(e.Groups, gid), u.Bool(e.PrebindOK))
	case "phase":
		return u.App("EvPhase", cid(e.Pod), phaseTerm(e.Phase))
	case "delete":
		return u.App("EvDelete", cid(e.Pod))
	case "brdelete":
		return u.App("EvBRDelete", cid(e.Pod))
	case "resgone":
		return u.App("EvResGone", gid(e.Group))
	case "nodesync":
		return u.App("EvNodeSync", nid(e.Node))
	}
	return "EvRestart"
}

func callTerm(c string) string {
	switch c {
	case "list":
		return "CList"
	case "create":
		return "CCreate"
	case "watch":
		return "CWatch"
	case "delete":
		return "CDelete"
	case "patch":
		return "CPatch"
	case "bind":
		return "CBind"
	}
	return "CGet"
}

func stepTerm(st *Step) string {
	errs := u.ListOf(st.Fl.Err, u.Nat)
	crash := u.Opt(st.Fl.Crash >= 0, u.Nat(st.Fl.Crash))
	ord := u.ListOf(st.Visits, func(v []string) string { return u.ListOf(v, gid) })
	dp := u.ListOf(st.Dp, func(d int) string { return u.Opt(d >= 0, u.Pos(d+1)) })
	step := u.App("mkStep", eventTerm(st.Ev), u.App("mkF", errs, crash), ord, dp)
	obs := u.App("mkObs", u.Nat(st.Out), u.ListOf(st.Calls, callTerm), u.ListOf(st.Store, podTerm))
	return u.Pair(step, obs)
}

func caseTerm(c *Case, smoke [][]PodObs, raceFree bool, race string) string {
	pods := u.ListOf(c.Pods, func(p string) string { return u.Pair(cid(p), mfTerm(c.MF[p])) })
	steps := []string{}
	for _, st := range c.Steps {
		steps = append(steps, stepTerm(st))
	}
	sm := u.ListOf(smoke, func(s []PodObs) string { return u.ListOf(s, podTerm) })
	return u.App("mkCase", pods, u.List(steps), sm, u.Bool(raceFree), u.Opt(race != "", race))
}

func (c *Case) label() string {
	var b strings.Builder
	b.WriteString("pods[")
	for i, p := range c.Pods {
		if i > 0 {
			b.WriteString(" ")
		}
		b.WriteString(p + ":" + [...]string{"single", "multi", "mferr"}[c.MF[p]])
	}
	b.WriteString("]")
	tags := map[string]bool{}
	for _, st := range c.Steps {
		b.WriteString(" " + st.Ev.String())
		for _, e := range st.Fl.Err {
			fmt.Fprintf(&b, "!err@%d", e)
		}
		if st.Fl.Crash >= 0 {
			fmt.Fprintf(&b, "!crash@%d", st.Fl.Crash)
		}
		if len(st.Dp) > 0 {
			b.WriteString("/dp")
			for _, d := range st.Dp {
				if d < 0 {
					b.WriteString("-")
				} else {
					b.WriteString(strconv.Itoa(d))
				}
			}
		}
		for _, t := range st.Tags {
			tags[t] = true
		}
	}
	ts := []string{}
	for t := range tags {
		ts = append(ts, t)
	}
	sort.Strings(ts)
	if len(ts) == 0 {
		ts = []string{"none"}
	}
	b.WriteString(" tags=" + strings.Join(ts, ","))
	if c.Note != "" {
		b.WriteString(" (" + c.Note + ")")
	}
	return b.String()
}

// execute runs the history on the real code.
func execute(ctl *controllersEnv, c *Case) {
	objs := []client.Object{}
	for _, p := range c.Pods {
		objs = append(objs, consumerPod(p, c.MF[p]))
	}
	srv := newAPIServer(ctl.scheme, objs...)
	proc := &binderProc{srv: srv, ctl: ctl}
	proc.start()
	runHistory(proc, c)
}

// runHistory runs the steps one after the other; false if a step hung.
func runHistory(proc *binderProc, c *Case) bool {
	for i, st := range c.Steps {
		done := make(chan int, 1)
		go func() { done <- proc.runStep(st) }()
		select {
		case st.Out = <-done:
		case <-time.After(15 * time.Second):
			// the real code blocks (a lock that is never released): report it as an
			// outcome the model never produces and give the case up
			st.Out = 3
			st.Store = nil
			c.Steps = c.Steps[:i+1]
			c.Note += " HANG at step " + strconv.Itoa(i)
			return false
		}
		st.Store = proc.srv.snapshot(c.MF)
	}
	return true
}

// Run is the driver entry point.
func Run(dir string, seed uint64, n int, tier string) error {
	if tier == "race-smoke" {
		return raceSmokeOnly(seed, n)
	}
	ctl, err := newControllers()
	if err != nil {
		return err
	}
	out := u.NewOut(dir, "C17", "KaiV.Run.C17", "case", 50)
	out.Flags = true
	rng := u.NewRng(seed)

	cases := corpus()
	for i := 0; len(cases) < n; i++ {
		cases = append(cases, generate(rng.Fork(uint64(i)), i))
	}
	if len(cases) > n && n > 0 {
		cases = cases[:n]
	}
	for i, c := range cases {
		execute(ctl, c)
		if os.Getenv("C17_DUMP") != "" {
			dump(c)
		}
		recordStats(out, c)
		out.Add(caseTerm(c, nil, true, ""), c.label())
		if i < 3 {
			out.Sample(map[string]any{"label": c.label()})
		}
	}

	// controlled interleavings of two operations (linearizability against the sequential model)
	if err := raceStream(out, rng, n, tier); err != nil {
		return err
	}

	// validation only: real concurrent reconciles on shared groups
	runs := 6
	if tier == "thorough" {
		runs = 40
	}
	stores := [][]PodObs{}
	allClean := true
	for i := 0; i < runs; i++ {
		st, clean := concurrentSmoke(ctl.scheme, rng.Fork(uint64(1_000_000+i)))
		stores = append(stores, st)
		allClean = allClean && clean
	}
	raceFree, raceNote := true, "race detector not used in this tier"
	if tier == "thorough" {
		raceFree, raceNote = raceSmoke(seed)
	}
	if !allClean {
		raceNote += "; a ReserveGpuDevice / Sync call failed in a fault-free concurrent run"
	}
	raceFree = raceFree && allClean
	out.Stats["concurrency_smoke"] = map[string]any{"runs": runs, "goroutines_per_run": smokeGoroutines,
		"race_detector": raceNote, "what": "validation, not proof: real goroutines run ReserveGpuDevice / SyncForGpuGroup / SyncForNode on the same groups; the final store must satisfy clauses 2 and 3"}
	sc := &Case{Note: "concurrency-smoke"}
	out.Add(caseTerm(sc, stores, raceFree, ""), "concurrency-smoke runs="+strconv.Itoa(runs)+" "+raceNote)
	out.Count("kind:concurrency-smoke")
	return out.Flush()
}

// raceStream: the fixed scenarios, then generated ones (one per 6 sequential
// histories), every schedule of each.
func raceStream(out *u.Out, rng *u.Rng, n int, tier string) error {
	scs := raceCorpus()
	want := n / 6
	if os.Getenv("C17_RACES") != "" {
		want, _ = strconv.Atoi(os.Getenv("C17_RACES"))
	}
	for i := 0; len(scs) < want; i++ {
		scs = append(scs, genRaceScenario(rng.Fork(uint64(2_000_000+i))))
	}
	if n > 0 && len(scs) > want && want > 0 {
		scs = scs[:want]
	}
	t0 := time.Now()
	cases, how, err := runRaces(scs, 8)
	if err != nil {
		return err
	}
	st := map[string]int{}
	for i, rc := range cases {
		if os.Getenv("C17_DUMP") != "" {
			dumpRace(rc)
		}
		race := ""
		if rc.Obs != nil {
			race = raceTerm(rc)
		}
		out.Add(caseTerm(rc.Case, nil, true, race), rc.label())
		out.Count("kind:race-schedule")
		st["schedules"]++
		if rc.Sc.Same {
			st["schedules on a common group"]++
		} else {
			st["control schedules (different groups)"]++
		}
		o := rc.Obs
		if o == nil || o.Hang {
			st["hang"]++
			continue
		}
		for _, op := range rc.Sc.Ops {
			out.Count("race-op:" + op.Ev.Kind)
		}
		switch {
		case !o.Parked:
			st["sequential controls (k = number of calls)"]++
		case o.Blocked:
			st["injected operation blocked on the lock"]++
			if o.FBlocked {
				st["... and the parked one then waited for it"]++
			}
		default:
			st["injected operation ran to completion while the other was parked"]++
		}
		if o.Parked {
			switch {
			case rc.SeqAB && rc.SeqBA:
				st["equal to the real sequential runs A;B and B;A (they commute)"]++
			case rc.SeqAB:
				st["equal to the real sequential run A;B only"]++
			case rc.SeqBA:
				st["equal to the real sequential run B;A only"]++
			default:
				st["equal to neither real sequential run"]++
			}
			out.NonTrivial(fmt.Sprintf("race:%s|%s|%d@%d/%s|b%v|%d%d", rc.Sc.Ops[0].Ev.Kind, rc.Sc.Ops[1].Ev.Kind, o.First, o.K, o.ParkKind, o.Blocked, o.Out[0], o.Out[1]))
		}
		if i < 2 {
			out.Sample(map[string]any{"label": rc.label()})
		}
	}
	st["scenarios"] = len(scs)
	st["blocked established by goroutine dump (group mutex Lock on the stack)"] = how.stack
	st["blocked established by timeout only"] = how.timeout
	out.Stats["race_stream"] = map[string]any{"counts": st, "wall_seconds": time.Since(t0).Seconds(), "workers": 8,
		"what": "two operations of the real code on one API server, one parked before its k-th API call (every k), the other injected; oracle: outcomes and final store equal Model/Reservation.v's A;B or B;A (flags 101/102/103 in the evidence count which), monitor on the real final store"}
	out.Stats["rule"] = fmt.Sprintf("non-trivial (histories): the history contains a bind that created a reservation pod and a later deletion of a reservation pod by the binder; fingerprint = event kinds + outcomes + calls per step. "+
		"non-trivial (races): the parked operation reached its k-th call; fingerprint = operation kinds + schedule + blocked + outcomes. "+
		"Input distribution of this run: %d sequential histories (%d fixed, the rest random: 2-4 pods, 3-15 events, 35%% of the steps with API faults / crash points); %d race scenarios (%d fixed preconditions: stale reservation pod, brand-new group, group with other live consumers, multi-fraction, failing label patch, controls on different groups; the rest random: fault-free history of 0-6 events then two operations out of reserve / bind / syncgroup / nodesync / phase / delete / brdelete, 80%% on a common group) giving %d schedules (each operation parked before each of its API calls, plus the sequential controls): "+
		"%d with the injected operation blocked on the group lock, %d with it running to completion, %d sequential controls; against the REAL sequential runs %d equal A;B only, %d equal B;A only, %d equal both, %d neither (multi-section operations interleave at section granularity); the model-side counts (against Model/Reservation.v) are the observation flags in the evidence: 101 A;B only / 102 B;A only / 103 both / 104 neither / 105 both operations single sections, i.e. linearizability required",
		n, len(corpus()), len(scs), len(raceCorpus()), st["schedules"], st["injected operation blocked on the lock"], st["injected operation ran to completion while the other was parked"], st["sequential controls (k = number of calls)"],
		st["equal to the real sequential run A;B only"], st["equal to the real sequential run B;A only"], st["equal to the real sequential runs A;B and B;A (they commute)"], st["equal to neither real sequential run"])
	return nil
}

func dumpRace(rc *RaceCase) {
	fmt.Fprintln(os.Stderr, rc.label())
	if o := rc.Obs; o != nil {
		fmt.Fprintf(os.Stderr, "   trace=%v realseq AB=%v BA=%v\n", o.Log, rc.SeqAB, rc.SeqBA)
		for _, p := range o.Store {
			fmt.Fprintf(os.Stderr, "      %+v\n", p)
		}
	}
}

func recordStats(out *u.Out, c *Case) {
	created, deleted := false, false
	var fp strings.Builder
	prevRes := 0
	for _, st := range c.Steps {
		out.Count("event:" + st.Ev.Kind)
		out.Count("outcome:" + [...]string{"ok", "error", "crash", "hang"}[st.Out])
		if !st.Fl.none() {
			out.Count("steps:with-faults")
		}
		res := 0
		for _, p := range st.Store {
			if p.Res {
				res++
			}
		}
		nCreate, nDelete := 0, 0
		for _, cl := range st.Calls {
			if cl == "create" {
				nCreate++
			}
			if cl == "delete" {
				nDelete++
			}
		}
		if res > prevRes {
			created = true
		}
		if created && nDelete > 0 && res < prevRes+nCreate {
			deleted = true
		}
		prevRes = res
		fmt.Fprintf(&fp, "%s%d/%d;", st.Ev.Kind[:2], st.Out, len(st.Calls))
		for _, t := range st.Tags {
			out.Count("tag:" + t)
		}
	}
	multi := false
	for _, m := range c.MF {
		if m == 1 {
			multi = true
		}
	}
	if multi {
		out.Count("cases:with-multi-fraction-consumer")
	}
	out.Count(fmt.Sprintf("history-length:%02d", len(c.Steps)))
	if created && deleted {
		out.NonTrivial(fp.String())
	}
}

// dump prints a history with the observed stores (debugging / finding reports).
func dump(c *Case) {
	fmt.Fprintln(os.Stderr, "CASE", c.label())
	for _, st := range c.Steps {
		fmt.Fprintf(os.Stderr, "  %-28s out=%d calls=%v visits=%v\n", st.Ev.String(), st.Out, st.Calls, st.Visits)
		for _, p := range st.Store {
			if p.Res {
				fmt.Fprintf(os.Stderr, "      reservation#%d %s/%s node=%s label runai-gpu-group=%s index=%q\n", p.ID, resNS, p.Name, p.Node, p.Plain, p.Index)
			} else {
				fmt.Fprintf(os.Stderr, "      consumer %s/%s node=%q phase=%s runai-gpu-group=%q multi=%v given=%v\n", consNS, p.Name, p.Node, p.Phase, p.Plain, p.Multi, p.Given)
			}
		}
	}
}
