package c17

import (
	"fmt"

	u "kaiverif/internal/util"
)

var nodeGroups = map[string][]string{"n1": {"g1", "g2"}, "n2": {"g3"}}

func noF() Faults         { return Faults{Crash: -1} }
func errAt(k ...int) Faults { return Faults{Err: k, Crash: -1} }
func crashAt(k int) Faults { return Faults{Crash: k} }

func bind(c, n string, gs ...string) Event {
	return Event{Kind: "bind", Pod: c, Node: n, Groups: gs, PrebindOK: true}
}
func phase(c, ph string) Event { return Event{Kind: "phase", Pod: c, Phase: ph} }
func del(c string) Event       { return Event{Kind: "delete", Pod: c} }
func brdel(c string) Event     { return Event{Kind: "brdelete", Pod: c} }
func resgone(g string) Event   { return Event{Kind: "resgone", Group: g} }
func nodesync(n string) Event  { return Event{Kind: "nodesync", Node: n} }
func restart() Event           { return Event{Kind: "restart"} }

func st(e Event, f Faults, dp ...int) *Step { return &Step{Ev: e, Fl: f, Dp: dp} }

func mk(note string, mf []int, steps ...*Step) *Case {
	c := &Case{MF: map[string]int{}, Steps: steps, Note: note}
	for i, m := range mf {
		name := fmt.Sprintf("c%d", i+1)
		c.Pods = append(c.Pods, name)
		c.MF[name] = m
	}
	return c
}

// corpus: fixed boundary histories, run first.
// API calls of a bind of a fresh single-fraction pod into a fresh group:
//   0 List(node) 1 List(reservation of g) 2 List(scaling) 3 Create 4 Watch
//   5 Patch(label) 6 Patch(annotation) 7 Binding
func corpus() []*Case {
	return []*Case{
		mk("single: bind, run, complete -> handler deletes the reservation", []int{0},
			st(bind("c1", "n1", "g1"), noF(), 0), st(phase("c1", "Running"), noF()), st(phase("c1", "Succeeded"), noF()), st(restart(), noF())),
		mk("multi-fraction consumer completes: the handler syncs its groups (regression of 5990b65)", []int{1},
			st(bind("c1", "n1", "g1", "g2"), noF(), 0, 1), st(phase("c1", "Running"), noF()), st(phase("c1", "Succeeded"), noF())),
		mk("multi-fraction consumer completes, then the next bind on the node", []int{1, 0},
			st(bind("c1", "n1", "g1", "g2"), noF(), 0, 1), st(phase("c1", "Running"), noF()), st(phase("c1", "Failed"), noF()),
			st(nodesync("n1"), noF())),
		mk("multi-fraction consumer completes, then the binder restarts", []int{1},
			st(bind("c1", "n1", "g1", "g2"), noF(), 0, 1), st(phase("c1", "Running"), noF()), st(phase("c1", "Succeeded"), noF()),
			st(restart(), noF())),
		mk("multi-fraction consumer deleted: BindRequest collected, its handler syncs", []int{1},
			st(bind("c1", "n1", "g1", "g2"), noF(), 0, 1), st(phase("c1", "Running"), noF()), st(del("c1"), noF())),
		mk("multi-fraction consumer deleted after its BindRequest is gone (regression of 5990b65)", []int{1},
			st(bind("c1", "n1", "g1", "g2"), noF(), 0, 1), st(phase("c1", "Running"), noF()), st(brdel("c1"), noF()), st(del("c1"), noF()),
			st(nodesync("n2"), noF()), st(nodesync("n1"), noF())),
		mk("reservation pod of a running multi-fraction consumer vanishes", []int{1},
			st(bind("c1", "n1", "g1", "g2"), noF(), 0, 1), st(phase("c1", "Running"), noF()), st(resgone("g1"), noF()), st(restart(), noF())),
		mk("reservation pod of a running single-fraction consumer vanishes", []int{0, 0},
			st(bind("c1", "n1", "g1"), noF(), 0), st(bind("c2", "n1", "g1"), noF()), st(phase("c1", "Running"), noF()),
			st(resgone("g1"), noF()), st(restart(), noF())),
		mk("crash between creating the reservation pod and labelling the consumer", []int{0},
			st(bind("c1", "n1", "g1"), crashAt(5), 2), st(restart(), noF())),
		mk("crash after labelling, before binding; retry", []int{0},
			st(bind("c1", "n1", "g1"), crashAt(6), 2), st(restart(), noF()), st(bind("c1", "n1", "g1"), noF()), st(restart(), noF())),
		mk("label patch fails: sync under the same lock", []int{0},
			st(bind("c1", "n1", "g1"), errAt(5), 3), st(restart(), noF())),
		mk("label patch fails and the sync under the lock fails too", []int{0},
			st(bind("c1", "n1", "g1"), errAt(5, 6), 3), st(nodesync("n1"), noF())),
		mk("device plugin never annotates", []int{0},
			st(bind("c1", "n1", "g1"), noF(), -1), st(bind("c1", "n1", "g1"), noF(), 1)),
		mk("device plugin never annotates and the clean-up delete fails", []int{0},
			st(bind("c1", "n1", "g1"), errAt(5), -1), st(bind("c1", "n1", "g1"), noF(), 1), st(restart(), noF())),
		mk("two consumers share a group; one completes", []int{0, 0},
			st(bind("c1", "n1", "g1"), noF(), 0), st(bind("c2", "n1", "g1"), noF()), st(phase("c1", "Running"), noF()),
			st(phase("c2", "Running"), noF()), st(phase("c1", "Succeeded"), noF()), st(phase("c2", "Failed"), noF())),
		mk("pre-bind fails: rollback removes the labels and syncs the node", []int{0, 1},
			st(Event{Kind: "bind", Pod: "c1", Node: "n1", Groups: []string{"g1"}}, noF(), 0),
			st(Event{Kind: "bind", Pod: "c2", Node: "n1", Groups: []string{"g1", "g2"}}, noF(), 0, 1)),
		mk("multi-fraction: second label patch fails; rollback's JSON patch names a label that is not there", []int{1},
			st(bind("c1", "n1", "g1", "g2"), errAt(10), 0, 1), st(restart(), noF()), st(bind("c1", "n1", "g1", "g2"), noF(), 1), st(restart(), noF())),
		mk("unparsable device-count annotation", []int{2},
			st(bind("c1", "n1", "g1"), noF(), 0), st(restart(), noF())),
		mk("single-fraction pod bound with two groups: the plain label is overwritten", []int{0},
			st(bind("c1", "n1", "g1", "g2"), noF(), 0, 1), st(restart(), noF())),
		mk("consumer deleted while the binder is down", []int{0},
			st(bind("c1", "n1", "g1"), noF(), 0), st(del("c1"), crashAt(0)), st(restart(), noF())),
		mk("stale BindRequest deleted by the scheduler after a failed bind whose rollback failed", []int{1},
			st(bind("c1", "n1", "g1", "g2"), errAt(10, 13, 14), 0, 1), st(brdel("c1"), noF()), st(restart(), noF())),
		mk("start-up sync fails", []int{0},
			st(bind("c1", "n1", "g1"), noF(), 0), st(phase("c1", "Succeeded"), crashAt(0)), st(restart(), errAt(1)), st(restart(), noF())),
	}
}

type genState struct {
	bound, gone, done map[string]bool
}

func generate(r *u.Rng, i int) *Case {
	nPods := r.Range(2, 4)
	c := &Case{MF: map[string]int{}}
	for k := 1; k <= nPods; k++ {
		name := fmt.Sprintf("c%d", k)
		c.Pods = append(c.Pods, name)
		switch x := r.Intn(20); {
		case x < 10:
			c.MF[name] = 0
		case x < 18:
			c.MF[name] = 1
		default:
			c.MF[name] = 2
		}
	}
	tamper := r.Chance(1, 4)
	gs := genState{bound: map[string]bool{}, gone: map[string]bool{}, done: map[string]bool{}}
	nSteps := r.Range(3, 14)
	down := false
	for len(c.Steps) < nSteps {
		if down {
			if r.Chance(1, 2) {
				f := noF()
				if r.Chance(1, 6) {
					f = genFaults(r)
				}
				c.Steps = append(c.Steps, st(restart(), f))
				down = f.Crash >= 0
				continue
			}
			// the binder is down: whatever happens is not handled
			c.Steps = append(c.Steps, st(externalEvent(r, c, &gs, tamper), crashAt(0)))
			continue
		}
		ev := pickEvent(r, c, &gs, tamper)
		f := noF()
		if r.Chance(7, 20) {
			f = genFaults(r)
		}
		s := st(ev, f)
		if ev.Kind == "bind" {
			for k := r.Range(len(ev.Groups), len(ev.Groups)+1); k > 0; k-- {
				if r.Chance(3, 20) {
					s.Dp = append(s.Dp, -1)
				} else {
					s.Dp = append(s.Dp, r.Intn(4))
				}
			}
		}
		c.Steps = append(c.Steps, s)
		if f.Crash >= 0 {
			down = true
		}
	}
	if r.Chance(7, 10) {
		c.Steps = append(c.Steps, st(restart(), noF()))
	} else if r.Chance(1, 2) {
		c.Steps = append(c.Steps, st(nodesync("n1"), noF()))
	}
	return c
}

func genFaults(r *u.Rng) Faults {
	switch x := r.Intn(10); {
	case x < 5:
		return errAt(r.Intn(10))
	case x < 7:
		a := r.Intn(8)
		return errAt(a, a+1+r.Intn(4))
	default:
		return crashAt(r.Intn(12))
	}
}

func externalEvent(r *u.Rng, c *Case, gs *genState, tamper bool) Event {
	p := u.Pick(r, c.Pods)
	switch x := r.Intn(10); {
	case x < 5:
		return phase(p, u.Pick(r, []string{"Running", "Running", "Succeeded", "Failed"}))
	case x < 8:
		gs.gone[p] = true
		return del(p)
	case x < 9 && tamper:
		return resgone(u.Pick(r, []string{"g1", "g2", "g3"}))
	default:
		return brdel(p)
	}
}

func pickEvent(r *u.Rng, c *Case, gs *genState, tamper bool) Event {
	x := r.Intn(100)
	switch {
	case x < 36:
		// prefer a pod that is neither bound nor gone
		p := u.Pick(r, c.Pods)
		for t := 0; t < 4 && (gs.bound[p] || gs.gone[p]); t++ {
			p = u.Pick(r, c.Pods)
		}
		n := "n1"
		if r.Chance(1, 4) {
			n = "n2"
		}
		pool := nodeGroups[n]
		if r.Chance(1, 10) {
			pool = []string{"g1", "g2", "g3"} // the scheduler's choice is not checked by the binder
		}
		var groups []string
		want := 1
		switch c.MF[p] {
		case 0:
			if r.Chance(1, 12) {
				want = 2
			}
		case 1:
			want = 2
			if r.Chance(1, 6) {
				want = r.Range(1, 3)
			}
		}
		perm := append([]string(nil), pool...)
		u.Shuffle(r, perm)
		for k := 0; k < want; k++ {
			groups = append(groups, perm[k%len(perm)])
		}
		ok := !r.Chance(3, 20)
		if ok {
			gs.bound[p] = true // approximately: the bind may still fail
		}
		return Event{Kind: "bind", Pod: p, Node: n, Groups: groups, PrebindOK: ok}
	case x < 58:
		p := u.Pick(r, c.Pods)
		return phase(p, u.Pick(r, []string{"Running", "Running", "Running", "Succeeded", "Succeeded", "Failed"}))
	case x < 66:
		p := u.Pick(r, c.Pods)
		gs.gone[p] = true
		return del(p)
	case x < 70:
		return brdel(u.Pick(r, c.Pods))
	case x < 78:
		if tamper {
			return resgone(u.Pick(r, []string{"g1", "g1", "g2", "g3"}))
		}
		return nodesync(u.Pick(r, []string{"n1", "n2"}))
	case x < 88:
		return nodesync(u.Pick(r, []string{"n1", "n1", "n2"}))
	default:
		return restart()
	}
}
