package c17

import (
	"fmt"
	"strings"
	"sync"

	u "kaiverif/internal/util"
)

// ------------------------------------------------------------- Coq terms

func ropTerm(e Event) string {
	switch e.Kind {
	case "reserve":
		return u.App("RReserve", cid(e.Pod), nid(e.Node), gid(e.Group))
	case "syncgroup":
		return u.App("RSyncGroup", gid(e.Group))
	}
	return u.App("REvent", eventTerm(e))
}

func rstepTerm(st *Step, visits [][]string) string {
	errs := u.ListOf(st.Fl.Err, u.Nat)
	ord := u.ListOf(visits, func(v []string) string { return u.ListOf(v, gid) })
	dp := u.ListOf(st.Dp, func(d int) string { return u.Opt(d >= 0, u.Pos(d+1)) })
	return u.App("mkRStep", ropTerm(st.Ev), u.App("mkF", errs, "None"), ord, dp)
}

func routTerm(out int, idx string) string {
	return u.Pair(u.Nat(out), u.Opt(idx != "", u.Pos(idxTerm(idx))))
}

func raceTerm(rc *RaceCase) string {
	o := rc.Obs
	trace := u.ListOf(o.Log, func(t taggedCall) string { return u.Pair(u.Bool(t.Op == 0), callTerm(t.Kind)) })
	return u.App("mkRace", rstepTerm(rc.Ops[0], o.Visits[0]), rstepTerm(rc.Ops[1], o.Visits[1]),
		u.Bool(o.First == 0), u.Nat(o.K), u.Bool(o.Parked), u.Bool(o.Blocked),
		routTerm(o.Out[0], o.Idx[0]), routTerm(o.Out[1], o.Idx[1]),
		u.ListOf(o.Calls[0], callTerm), u.ListOf(o.Calls[1], callTerm), trace, u.ListOf(o.Store, podTerm))
}

func opLabel(st *Step) string {
	var b strings.Builder
	b.WriteString(st.Ev.String())
	for _, e := range st.Fl.Err {
		fmt.Fprintf(&b, "!err@%d", e)
	}
	if len(st.Dp) > 0 {
		b.WriteString("/dp")
		for _, d := range st.Dp {
			if d < 0 {
				b.WriteString("-")
			} else {
				fmt.Fprint(&b, d)
			}
		}
	}
	return b.String()
}

// label: the history, the two operations and the schedule, replayable by hand.
func (rc *RaceCase) label() string {
	l := "RACE " + rc.Case.label() + " || A=" + opLabel(rc.Sc.Ops[0]) + " B=" + opLabel(rc.Sc.Ops[1])
	o := rc.Obs
	if o == nil {
		return l + " schedule: none (the history before the race hung)"
	}
	names := [2]string{"A", "B"}
	f, x := names[o.First], names[1-o.First]
	switch {
	case o.Hang:
		l += fmt.Sprintf(" schedule: %s parked before its API call #%d, %s injected: HANG", f, o.K, x)
	case !o.Parked:
		l += fmt.Sprintf(" schedule: sequential control %s;%s (%s makes only %d API calls)", f, x, f, o.K)
	default:
		l += fmt.Sprintf(" schedule: %s parked before its API call #%d (%s), %s injected and ", f, o.K, o.ParkKind, x)
		if o.Blocked {
			l += "BLOCKED on the lock until " + f + " went on"
			if o.FBlocked {
				l += " (then " + f + " waited for " + x + ")"
			}
		} else {
			l += fmt.Sprintf("RAN TO COMPLETION (%d API calls) while %s was parked", len(o.Calls[1-o.First]), f)
		}
		l += fmt.Sprintf("; outcomes %s=%d/%q %s=%d/%q", "A", o.Out[0], o.Idx[0], "B", o.Out[1], o.Idx[1])
	}
	return l
}

// --------------------------------------------------------------- scenarios

func rsv(c, n, g string) Event { return Event{Kind: "reserve", Pod: c, Node: n, Group: g} }
func sgrp(g string) Event      { return Event{Kind: "syncgroup", Group: g} }

func scen(note string, same bool, mf []int, a, b *Step, prefix ...*Step) *raceScenario {
	c := mk(note, mf, prefix...)
	return &raceScenario{Pods: c.Pods, MF: c.MF, Steps: prefix, Ops: [2]*Step{a, b}, Note: note, Same: same}
}

// raceCorpus: the interesting preconditions, fixed.
// API calls of ReserveGpuDevice into a fresh group: 0 List(reservation of g)
// 1 List(scaling) 2 Create 3 Watch 4 Patch(label); into an existing one:
// 0 List 1 Patch. SyncForGpuGroup: 0 List 1 List [2 Delete].
func raceCorpus() []*raceScenario {
	stale := func() []*Step { // g1's reservation pod exists, its last consumer completed, the handler's sync failed
		return []*Step{st(bind("c1", "n1", "g1"), noF(), 2), st(phase("c1", "Running"), noF()), st(phase("c1", "Succeeded"), errAt(0))}
	}
	running := func() []*Step {
		return []*Step{st(bind("c1", "n1", "g1"), noF(), 2), st(phase("c1", "Running"), noF())}
	}
	return []*raceScenario{
		scen("stale reservation pod: bind of the next consumer vs sync of the group", true, []int{0, 0},
			st(rsv("c2", "n1", "g1"), noF(), 1), st(sgrp("g1"), noF()), stale()...),
		scen("stale reservation pod: bind of the next consumer vs SyncForNode of another bind", true, []int{0, 0},
			st(rsv("c2", "n1", "g1"), noF(), 1), st(nodesync("n1"), noF()), stale()...),
		scen("stale reservation pod: bind of the next consumer vs deletion of the old BindRequest", true, []int{0, 0},
			st(rsv("c2", "n1", "g1"), noF(), 1), st(brdel("c1"), noF()), stale()...),
		scen("last consumer completes while the next one is bound (pod controller's update handler)", true, []int{0, 0},
			st(rsv("c2", "n1", "g1"), noF(), 1), st(phase("c1", "Succeeded"), noF()), running()...),
		scen("last consumer is deleted while the next one is bound (delete handlers)", true, []int{0, 0},
			st(rsv("c2", "n1", "g1"), noF(), 1), st(del("c1"), noF()), running()...),
		scen("last consumer fails while the next one goes through Binder.Bind", true, []int{0, 0},
			st(bind("c2", "n1", "g1"), noF(), 1), st(phase("c1", "Failed"), noF()), running()...),
		scen("brand-new group: reserve vs SyncForNode (first step of any bind on the node)", true, []int{0},
			st(rsv("c1", "n1", "g1"), noF(), 3), st(nodesync("n1"), noF())),
		scen("brand-new group: reserve vs sync of the group", true, []int{0},
			st(rsv("c1", "n1", "g1"), noF(), 3), st(sgrp("g1"), noF())),
		scen("brand-new group: two consumers bound into it at once", true, []int{0, 0},
			st(bind("c1", "n1", "g1"), noF(), 0, 1), st(bind("c2", "n1", "g1"), noF(), 1, 0)),
		scen("brand-new group: two raw reserves", true, []int{0, 1},
			st(rsv("c1", "n1", "g1"), noF(), 0, 1), st(rsv("c2", "n1", "g1"), noF(), 1, 0)),
		scen("two binds on one node, different groups (each starts with SyncForNode)", true, []int{0, 0},
			st(bind("c1", "n1", "g1"), noF(), 0), st(bind("c2", "n1", "g2"), noF(), 1)),
		scen("control: two binds on different nodes", false, []int{0, 0},
			st(bind("c1", "n1", "g1"), noF(), 0), st(bind("c2", "n2", "g3"), noF(), 1)),
		scen("group with other live consumers: one completes, another is reserved", true, []int{0, 0, 0},
			st(phase("c1", "Succeeded"), noF()), st(rsv("c3", "n1", "g1"), noF(), 1),
			st(bind("c1", "n1", "g1"), noF(), 2), st(bind("c2", "n1", "g1"), noF()), st(phase("c1", "Running"), noF())),
		scen("group with other live consumers: one is deleted vs sync of the group", true, []int{0, 0},
			st(del("c1"), noF()), st(sgrp("g1"), noF()),
			st(bind("c1", "n1", "g1"), noF(), 2), st(bind("c2", "n1", "g1"), noF()), st(phase("c1", "Running"), noF())),
		scen("control: completion on g1 vs reserve on another node's group", false, []int{0, 0},
			st(phase("c1", "Succeeded"), noF()), st(rsv("c2", "n2", "g3"), noF(), 1), running()...),
		scen("control: syncs of different groups", false, []int{0, 0},
			st(sgrp("g1"), noF()), st(sgrp("g3"), noF()),
			st(bind("c1", "n1", "g1"), noF(), 2), st(bind("c2", "n2", "g3"), noF(), 0), st(phase("c1", "Succeeded"), errAt(0))),
		scen("multi-fraction consumer completes while another one is bound into the same two groups", true, []int{1, 1},
			st(bind("c2", "n1", "g1", "g2"), noF(), 2, 3), st(phase("c1", "Succeeded"), noF()),
			st(bind("c1", "n1", "g1", "g2"), noF(), 0, 1), st(phase("c1", "Running"), noF())),
		scen("multi-fraction reserve into a stale group vs sync", true, []int{0, 1},
			st(rsv("c2", "n1", "g1"), noF(), 1), st(sgrp("g1"), noF()), stale()...),
		scen("label patch fails (sync under the same lock) vs sync of the group", true, []int{0},
			st(rsv("c1", "n1", "g1"), errAt(4), 3), st(sgrp("g1"), noF())),
		scen("label patch fails vs another reserve into the group", true, []int{0, 0},
			st(rsv("c1", "n1", "g1"), errAt(4), 3, 1), st(rsv("c2", "n1", "g1"), noF(), 2, 0)),
		scen("device plugin never answers vs sync of the group", true, []int{0},
			st(rsv("c1", "n1", "g1"), noF(), -1), st(sgrp("g1"), noF())),
	}
}

var groupNode = map[string]string{"g1": "n1", "g2": "n1", "g3": "n2"}

// genRaceScenario: a random fault-free tamper-free history, then two
// operations that (4 times out of 5) touch a common group.
func genRaceScenario(r *u.Rng) *raceScenario {
	nPods := r.Range(2, 4)
	c := &Case{MF: map[string]int{}}
	for k := 1; k <= nPods; k++ {
		name := fmt.Sprintf("c%d", k)
		c.Pods = append(c.Pods, name)
		if r.Chance(8, 10) {
			c.MF[name] = 0
		} else {
			c.MF[name] = 1
		}
	}
	gs := genState{bound: map[string]bool{}, gone: map[string]bool{}, done: map[string]bool{}}
	var steps []*Step
	for n := r.Range(0, 6); len(steps) < n; {
		ev := pickEvent(r, c, &gs, false)
		if ev.Kind == "restart" && r.Chance(2, 3) {
			continue
		}
		if ev.Kind == "bind" {
			ev.PrebindOK = true
		}
		f := noF()
		if (ev.Kind == "phase" || ev.Kind == "delete") && r.Chance(1, 4) {
			f = errAt(0) // the handler's first sync fails: a stale reservation pod may stay
		}
		s := st(ev, f)
		if ev.Kind == "bind" {
			for k := len(ev.Groups) + 1; k > 0; k-- {
				s.Dp = append(s.Dp, r.Intn(4))
			}
		}
		steps = append(steps, s)
	}
	g := u.Pick(r, []string{"g1", "g1", "g2", "g3"})
	same := r.Chance(4, 5)
	g2 := g
	if !same {
		g2 = map[string]string{"g1": "g3", "g2": "g3", "g3": "g1"}[g]
	}
	a, pa := genOp(r, c, g, "")
	b, _ := genOp(r, c, g2, pa)
	return &raceScenario{Pods: c.Pods, MF: c.MF, Steps: steps, Ops: [2]*Step{a, b}, Same: same}
}

// genOp picks an operation on group g; not is the pod the other operation
// works on (two operations on one pod are not generated).
func genOp(r *u.Rng, c *Case, g string, not string) (*Step, string) {
	pods := []string{}
	for _, p := range c.Pods {
		if p != not {
			pods = append(pods, p)
		}
	}
	p := u.Pick(r, pods)
	n := groupNode[g]
	dp := func(k int) []int {
		var d []int
		for ; k > 0; k-- {
			if r.Chance(1, 12) {
				d = append(d, -1)
			} else {
				d = append(d, r.Intn(4))
			}
		}
		return d
	}
	switch x := r.Intn(100); {
	case x < 32:
		f := noF()
		if r.Chance(1, 8) {
			f = errAt(r.Intn(5))
		}
		return &Step{Ev: rsv(p, n, g), Fl: f, Dp: dp(2)}, p
	case x < 42:
		groups := []string{g}
		if c.MF[p] == 1 {
			other := u.Pick(r, nodeGroups[n])
			if other != g {
				groups = append(groups, other)
			}
		}
		return &Step{Ev: bind(p, n, groups...), Fl: noF(), Dp: dp(len(groups) + 1)}, p
	case x < 62:
		return &Step{Ev: sgrp(g), Fl: noF()}, ""
	case x < 70:
		return &Step{Ev: nodesync(n), Fl: noF()}, ""
	case x < 88:
		return &Step{Ev: phase(p, u.Pick(r, []string{"Succeeded", "Succeeded", "Failed", "Running"})), Fl: noF()}, p
	case x < 95:
		return &Step{Ev: del(p), Fl: noF()}, p
	default:
		return &Step{Ev: brdel(p), Fl: noF()}, p
	}
}

// ----------------------------------------------------------------- running

type raceBatch struct {
	cases []*RaceCase
	how   blockedHow
}

// runRaces executes the scenarios on `workers` independent environments (each
// with its own controllers, API servers and services) and returns the cases
// in scenario order.
func runRaces(scs []*raceScenario, workers int) ([]*RaceCase, blockedHow, error) {
	res := make([]raceBatch, len(scs))
	jobs := make(chan int)
	var wg sync.WaitGroup
	var errMu sync.Mutex
	var firstErr error
	for w := 0; w < workers; w++ {
		wg.Add(1)
		go func() {
			defer wg.Done()
			ctl, err := newControllers()
			if err != nil {
				errMu.Lock()
				if firstErr == nil {
					firstErr = err
				}
				errMu.Unlock()
				for range jobs {
				}
				return
			}
			for i := range jobs {
				res[i].cases = scs[i].schedules(ctl, 40, &res[i].how)
			}
		}()
	}
	for i := range scs {
		jobs <- i
	}
	close(jobs)
	wg.Wait()
	var all []*RaceCase
	var how blockedHow
	for _, b := range res {
		all = append(all, b.cases...)
		how.stack += b.how.stack
		how.timeout += b.how.timeout
	}
	return all, how, firstErr
}
