package c17

import (
	"bytes"
	"fmt"
	"os"
	"runtime"
	"strconv"
	"sync"
	"time"

	"sigs.k8s.io/controller-runtime/pkg/client"
)

// Controlled interleaving of two operations of the real service / binder /
// handlers on one API server.
//
// Every operation runs in its own goroutine (the handlers run synchronously in
// the goroutine that pushes the watch event), so the goroutine identity tells
// the fake API server which operation issues a call. The schedule is chosen
// by the generator and is deterministic:
//
//  1. the FIRST operation F runs alone until it is about to issue its k-th API
//     call; it is parked there, BEFORE the call takes effect (inside whatever
//     critical sections it is in at that moment);
//  2. the SECOND operation X is started and runs until it completes or blocks
//     on a lock (see blocked);
//  3. F is released. If X is blocked, X's own API calls are held from now on,
//     so that F's remaining calls and X's do not interleave at random: X gets
//     the lock as soon as F leaves the section, reaches its next API call and
//     waits there until F has completed or is itself blocked on a lock X holds;
//  4. both run to completion.
//
// So the execution is F[0..k) ; X (as far as the locks let it go) ; F[k..) with
// the rest of X inserted where F releases the lock X waits for.

const (
	blockTimeout = 3 * time.Second // no progress for this long, outside any API call: blocked (fallback only; generous so that a loaded machine is not read as a blocked goroutine)
	pollEvery    = 2 * time.Millisecond
	// the goroutine dump stops the world: it is taken only for an operation that has been silent this long
	quietBeforeDump = 4 * time.Millisecond
	raceWatchdog    = 15 * time.Second
)

func goid() int64 {
	var buf [64]byte
	n := runtime.Stack(buf[:], false)
	// "goroutine 123 [running]:"
	b := buf[:n]
	b = b[len("goroutine "):]
	if i := bytes.IndexByte(b, ' '); i > 0 {
		if v, err := strconv.ParseInt(string(b[:i]), 10, 64); err == nil {
			return v
		}
	}
	return -1
}

type taggedCall struct {
	Op   int
	Kind string
}

type raceCtl struct {
	mu   sync.Mutex
	ops  [2]*opCtx
	gids map[int64]*opCtx

	first    int // the operation that is parked
	parkAt   int // before its call number parkAt
	didPark  bool
	parkedCh chan struct{} // closed when F has reached the park point
	release  chan struct{} // closed to let F go on

	hold   [2]bool // the operation's API calls are held
	holdCh [2]chan struct{}

	log []taggedCall
}

func newRaceCtl(a, b *opCtx, first, parkAt int) *raceCtl {
	rc := &raceCtl{gids: map[int64]*opCtx{}, first: first, parkAt: parkAt,
		parkedCh: make(chan struct{}), release: make(chan struct{})}
	rc.ops[0], rc.ops[1] = a, b
	rc.holdCh[0], rc.holdCh[1] = make(chan struct{}), make(chan struct{})
	return rc
}

func (rc *raceCtl) register(o *opCtx) {
	rc.mu.Lock()
	rc.gids[goid()] = o
	o.last = time.Now()
	rc.mu.Unlock()
}

func (rc *raceCtl) opOf(g int64) *opCtx {
	rc.mu.Lock()
	defer rc.mu.Unlock()
	return rc.gids[g]
}

// beforeCall parks the calling operation if the schedule says so.
func (rc *raceCtl) beforeCall(o *opCtx, kind string) {
	rc.mu.Lock()
	o.progress++
	o.last = time.Now()
	var wait chan struct{}
	if o.id == rc.first && !rc.didPark && o.k == rc.parkAt {
		rc.didPark = true
		close(rc.parkedCh)
		wait = rc.release
	} else if rc.hold[o.id] {
		wait = rc.holdCh[o.id]
	}
	if wait != nil {
		o.parked = true
	}
	rc.mu.Unlock()
	if wait != nil {
		<-wait
	}
	rc.mu.Lock()
	o.parked = false
	o.inCall = true
	o.progress++
	o.last = time.Now()
	rc.mu.Unlock()
}

func (rc *raceCtl) logCall(o *opCtx, kind string) {
	rc.mu.Lock()
	rc.log = append(rc.log, taggedCall{o.id, kind})
	rc.mu.Unlock()
}

func (rc *raceCtl) afterCall(o *opCtx) {
	rc.mu.Lock()
	o.inCall = false
	o.progress++
	o.last = time.Now()
	rc.mu.Unlock()
}

func (rc *raceCtl) setHold(i int) {
	rc.mu.Lock()
	if !rc.hold[i] {
		rc.hold[i] = true
		rc.holdCh[i] = make(chan struct{})
	}
	rc.mu.Unlock()
}

func (rc *raceCtl) unhold(i int) {
	rc.mu.Lock()
	if rc.hold[i] {
		rc.hold[i] = false
		close(rc.holdCh[i])
	}
	rc.mu.Unlock()
}

// goroutineDump returns the state ("sync.Mutex.Lock", "running", "chan receive", ...)
// and the stack of goroutine g as the runtime prints them.
func goroutineDump(g int64) (state string, stack []byte) {
	buf := make([]byte, 1<<20)
	for {
		n := runtime.Stack(buf, true)
		if n < len(buf) {
			buf = buf[:n]
			break
		}
		buf = make([]byte, 2*len(buf)) // truncated: try again with more room
	}
	head := []byte("goroutine " + strconv.FormatInt(g, 10) + " [")
	i := bytes.Index(buf, head)
	if i < 0 {
		return "gone", nil // the goroutine has ended
	}
	rest := buf[i:]
	if j := bytes.Index(rest, []byte("\n\n")); j >= 0 {
		rest = rest[:j]
	}
	nl := bytes.IndexByte(rest, '\n')
	if nl < 0 {
		return "", nil
	}
	st := rest[len(head):nl]
	if j := bytes.IndexAny(st, ",]"); j >= 0 {
		st = st[:j]
	}
	return string(st), rest
}

// onGroupLock reports whether goroutine g is waiting in the group mutex's
// Lock (read off the runtime's goroutine dump: wait reason sync.Mutex.Lock /
// semacquire with GroupMutex.LockMutexForGroup -- and not the short map mutex
// -- on the stack); runnable: the goroutine is not waiting for anything.
func onGroupLock(g int64) (onLock, runnable bool) {
	state, stack := goroutineDump(g)
	if state == "running" || state == "runnable" || state == "syscall" || state == "gone" {
		return false, true
	}
	if state != "sync.Mutex.Lock" && state != "semacquire" {
		return false, false
	}
	return bytes.Contains(stack, []byte("LockMutexForGroup")) && !bytes.Contains(stack, []byte("acquireWithRefcount")), false
}

type waitResult int

const (
	wDone waitResult = iota
	wBlocked
	wParked
	wHang
)

// blockedHow: how "blocked on a lock" was established for the statistics.
type blockedHow struct{ stack, timeout int }

// waitFor waits until the operation's goroutine has finished (done is
// closed), or -- if stopAtPark -- is parked by the controller, or is blocked
// on a lock: its goroutine sits in the group mutex's Lock in two dumps taken
// one poll apart with no progress in between, or (fallback, should the dump
// not be readable) it made no progress outside any API call for blockTimeout.
func (rc *raceCtl) waitFor(o *opCtx, g int64, done <-chan struct{}, stopAtPark bool, deadline time.Time, how *blockedHow) waitResult {
	lastProg, seenOnLock := -1, false
	for {
		select {
		case <-done:
			return wDone
		default:
		}
		rc.mu.Lock()
		prog, inCall, parked, last := o.progress, o.inCall, o.parked, o.last
		rc.mu.Unlock()
		if parked {
			if stopAtPark {
				return wParked
			}
		} else if !inCall && time.Since(last) > quietBeforeDump {
			onLock, runnable := onGroupLock(g)
			switch {
			case onLock:
				if seenOnLock && prog == lastProg {
					how.stack++
					return wBlocked
				}
				seenOnLock, lastProg = true, prog
			case runnable:
				// merely not scheduled (a loaded machine): not blocked, the clock starts again
				seenOnLock = false
				rc.mu.Lock()
				o.last = time.Now()
				rc.mu.Unlock()
			default:
				seenOnLock = false
				if time.Since(last) > blockTimeout {
					how.timeout++
					if os.Getenv("C17_DUMP_TIMEOUT") != "" {
						st, stack := goroutineDump(g)
						fmt.Fprintf(os.Stderr, "TIMEOUT-BLOCKED op=%d state=%q\n%s\n", o.id, st, stack)
					}
					return wBlocked
				}
			}
		}
		if time.Now().After(deadline) {
			return wHang
		}
		time.Sleep(pollEvery)
	}
}

// RaceObs is what one controlled interleaving produced.
type RaceObs struct {
	First    int // 0: A was parked and B injected; 1: the symmetric schedule
	K        int
	Parked   bool // F reached call K (otherwise the run was F ; X, sequentially)
	Blocked  bool // X blocked on a lock while F was parked
	FBlocked bool // F blocked again on a lock X held (X's calls were held)
	Hang     bool
	Out      [2]int
	Idx      [2]string
	Calls    [2][]string
	Visits   [2][][]string
	Log      []taggedCall
	ParkKind string // the kind of the call F was parked before
	Store    []PodObs
}

type opResult struct {
	out int
	idx string
}

// runRace executes operations a and b under the schedule (first, k) on the
// real code. The process must be fault free (no crash points in races).
func (b *binderProc) runRace(ops [2]*Step, first, k int, how *blockedHow) *RaceObs {
	s := b.srv
	obs := &RaceObs{First: first, K: k}
	var oc [2]*opCtx
	for i := range ops {
		oc[i] = &opCtx{id: i, fl: ops[i].Fl, dp: append([]int(nil), ops[i].Dp...)}
	}
	rc := newRaceCtl(oc[0], oc[1], first, k)
	b.prebindOK = true
	s.mu.Lock()
	s.race = rc
	s.mu.Unlock()
	defer func() {
		s.mu.Lock()
		s.race = nil
		s.mu.Unlock()
	}()

	var done [2]chan struct{}
	var gids [2]int64
	var res [2]opResult
	start := func(i int) {
		done[i] = make(chan struct{})
		gch := make(chan int64, 1)
		go func() {
			defer close(done[i])
			rc.register(oc[i])
			gch <- goid()
			o, ix := b.doEvent(ops[i])
			res[i] = opResult{o, ix}
		}()
		gids[i] = <-gch
	}
	deadline := time.Now().Add(raceWatchdog)
	f, x := first, 1-first
	finish := func() *RaceObs {
		rc.mu.Lock()
		obs.Log = append([]taggedCall(nil), rc.log...)
		rc.mu.Unlock()
		s.mu.Lock()
		for i := range ops {
			obs.Out[i], obs.Idx[i] = res[i].out, res[i].idx
			obs.Calls[i] = append([]string(nil), oc[i].calls...)
			obs.Visits[i] = oc[i].visits
		}
		s.mu.Unlock()
		if k < len(obs.Calls[f]) {
			obs.ParkKind = obs.Calls[f][k]
		}
		return obs
	}
	released := false
	releaseF := func() {
		if !released {
			released = true
			close(rc.release)
		}
	}
	hang := func() *RaceObs {
		// leave the goroutines behind (they sit on locks of a service nobody uses again)
		obs.Hang = true
		releaseF()
		rc.unhold(0)
		rc.unhold(1)
		for i := range ops {
			res[i] = opResult{3, ""}
		}
		return finish()
	}

	// 1. F alone, up to its k-th call
	start(f)
	select {
	case <-rc.parkedCh:
		obs.Parked = true
	case <-done[f]:
	case <-time.After(raceWatchdog):
		return hang()
	}
	if !obs.Parked {
		// F makes fewer than k+1 calls: the sequential run F ; X
		start(x)
		select {
		case <-done[x]:
		case <-time.After(raceWatchdog):
			return hang()
		}
		return finish()
	}
	// 2. X runs until it completes or blocks
	start(x)
	switch rc.waitFor(oc[x], gids[x], done[x], false, deadline, how) {
	case wBlocked:
		obs.Blocked = true
	case wHang:
		return hang()
	}
	// 3. F goes on. From here on exactly one operation is "active"; the other one
	// has finished, or waits for a lock, or is held at its next API call. When
	// the active one blocks on a lock the held one owns, the roles are swapped.
	active, other := f, x
	if obs.Blocked {
		rc.setHold(x)
	}
	releaseF()
	for {
		r := rc.waitFor(oc[active], gids[active], done[active], false, deadline, how)
		if r == wHang {
			return hang()
		}
		if r == wDone {
			break
		}
		// the active operation is blocked on a lock
		select {
		case <-done[other]:
			continue // the other one has just finished: the lock is free
		default:
		}
		rc.mu.Lock()
		otherParked := oc[other].parked
		rc.mu.Unlock()
		if !otherParked {
			lo, _ := onGroupLock(gids[other])
			la, _ := onGroupLock(gids[active])
			if lo && la {
				return hang() // each waits for a lock the other holds
			}
			continue // the other one is on its way to its next API call
		}
		if active == f {
			obs.FBlocked = true
		}
		rc.setHold(active)
		rc.unhold(other)
		active, other = other, active
	}
	// 4. the active one is done: the other one runs alone
	rc.unhold(other)
	select {
	case <-done[other]:
	case <-time.After(time.Until(deadline)):
		return hang()
	}
	return finish()
}

// raceScenario: a sequential history followed by two operations.
type raceScenario struct {
	Pods  []string
	MF    map[string]int
	Steps []*Step // the prefix (generator's input; executed afresh for every schedule)
	Ops   [2]*Step
	Note  string
	Same  bool // the two operations touch a common group
}

func cloneStep(st *Step) *Step {
	c := &Step{Ev: st.Ev, Fl: Faults{Err: append([]int(nil), st.Fl.Err...), Crash: st.Fl.Crash}, Dp: append([]int(nil), st.Dp...)}
	return c
}

// RaceCase is one schedule of a scenario, executed.
type RaceCase struct {
	Case *Case // pods and the executed prefix
	Ops  [2]*Step
	Obs  *RaceObs
	Sc   *raceScenario
	// the real code, sequentially, from the same pre-state (statistics only)
	SeqAB, SeqBA bool
}

func (sc *raceScenario) freshCase() *Case {
	c := &Case{Pods: sc.Pods, MF: sc.MF, Note: sc.Note}
	for _, st := range sc.Steps {
		c.Steps = append(c.Steps, cloneStep(st))
	}
	return c
}

// setup executes the prefix on a fresh API server; ok is false if it hung.
func (sc *raceScenario) setup(ctl *controllersEnv) (*Case, *binderProc, bool) {
	c := sc.freshCase()
	objs := []client.Object{}
	for _, p := range c.Pods {
		objs = append(objs, consumerPod(p, c.MF[p]))
	}
	srv := newAPIServer(ctl.scheme, objs...)
	proc := &binderProc{srv: srv, ctl: ctl}
	proc.start()
	ok := runHistory(proc, c)
	return c, proc, ok
}

// sequential runs the two operations one after the other on the real code
// (order[0] first) and returns the final store and the outcomes.
func (sc *raceScenario) sequential(ctl *controllersEnv, order [2]int) ([]PodObs, [2]opResult, bool) {
	c, proc, ok := sc.setup(ctl)
	var res [2]opResult
	if !ok {
		return nil, res, false
	}
	for _, i := range order {
		st := cloneStep(sc.Ops[i])
		done := make(chan opResult, 1)
		go func() {
			o := &opCtx{fl: st.Fl, dp: append([]int(nil), st.Dp...)}
			proc.srv.mu.Lock()
			proc.srv.cur = o
			proc.srv.mu.Unlock()
			proc.prebindOK = true
			out, idx := proc.doEvent(st)
			done <- opResult{out, idx}
		}()
		select {
		case res[i] = <-done:
		case <-time.After(raceWatchdog):
			return nil, res, false
		}
	}
	return proc.srv.snapshot(c.MF), res, true
}

// canonStore: the projection that is compared between orders: consumers as
// they are, reservation pods without their identity (creation order), sorted.
func canonStore(st []PodObs) string {
	var cons, res []string
	for _, p := range st {
		if p.Res {
			res = append(res, fmt.Sprintf("R[%s %s %s %v]", p.Plain, p.Node, p.Index, p.HasIdx))
		} else {
			cons = append(cons, fmt.Sprintf("C[%s %s %s %v %s %v]", p.Name, p.Node, p.Plain, sortedGroups(p.Multi), p.Phase, p.Given))
		}
	}
	sortStrings(res)
	return fmt.Sprint(cons, res)
}

func sortStrings(a []string) {
	for i := 1; i < len(a); i++ {
		for j := i; j > 0 && a[j] < a[j-1]; j-- {
			a[j], a[j-1] = a[j-1], a[j]
		}
	}
}

// schedules runs every schedule of the scenario: A parked before each of its
// calls with B injected, then the symmetric ones. The schedule with k = number
// of calls of F is the sequential control F ; X.
func (sc *raceScenario) schedules(ctl *controllersEnv, maxK int, how *blockedHow) []*RaceCase {
	var out []*RaceCase
	abStore, abRes, abOK := sc.sequential(ctl, [2]int{0, 1})
	baStore, baRes, baOK := sc.sequential(ctl, [2]int{1, 0})
	for first := 0; first < 2; first++ {
		for k := 0; k <= maxK; k++ {
			c, proc, ok := sc.setup(ctl)
			if !ok {
				out = append(out, &RaceCase{Case: c, Sc: sc})
				return out
			}
			ops := [2]*Step{cloneStep(sc.Ops[0]), cloneStep(sc.Ops[1])}
			obs := proc.runRace(ops, first, k, how)
			if !obs.Hang {
				obs.Store = proc.srv.snapshot(c.MF)
			}
			rcase := &RaceCase{Case: c, Ops: ops, Obs: obs, Sc: sc}
			if !obs.Hang {
				cs := canonStore(obs.Store)
				same := func(st []PodObs, r [2]opResult, ok bool) bool {
					return ok && canonStore(st) == cs && r[0] == (opResult{obs.Out[0], obs.Idx[0]}) && r[1] == (opResult{obs.Out[1], obs.Idx[1]})
				}
				rcase.SeqAB, rcase.SeqBA = same(abStore, abRes, abOK), same(baStore, baRes, baOK)
			}
			out = append(out, rcase)
			if !obs.Parked || obs.Hang {
				break
			}
		}
	}
	return out
}
