// Package c17 drives the real GPU reservation service
// (pkg/binder/binding/resourcereservation), the real Binder.Bind / Rollback and
// the real pod / BindRequest controllers' event handlers on controller-runtime's
// fake client, with fault and crash injection at the k-th API call, and emits
// the observations as Coq cases for Run/C17.v. race.go / racegen.go add the
// controlled interleavings of two operations (one parked before its k-th API
// call, the other injected), checked for linearizability against the model.
package c17

import (
	"context"
	"errors"
	"fmt"
	"net/http"
	"sort"
	"strconv"
	"strings"
	"sync"
	"time"

	v1 "k8s.io/api/core/v1"
	apierrors "k8s.io/apimachinery/pkg/api/errors"
	"k8s.io/apimachinery/pkg/api/meta"
	metav1 "k8s.io/apimachinery/pkg/apis/meta/v1"
	"k8s.io/apimachinery/pkg/runtime"
	"k8s.io/apimachinery/pkg/selection"
	"k8s.io/apimachinery/pkg/types"
	"k8s.io/apimachinery/pkg/watch"
	clientgoscheme "k8s.io/client-go/kubernetes/scheme"
	"k8s.io/client-go/rest"
	"k8s.io/client-go/tools/record"
	ctrl "sigs.k8s.io/controller-runtime"
	"sigs.k8s.io/controller-runtime/pkg/cache"
	"sigs.k8s.io/controller-runtime/pkg/cache/informertest"
	"sigs.k8s.io/controller-runtime/pkg/client"
	"sigs.k8s.io/controller-runtime/pkg/client/fake"
	"sigs.k8s.io/controller-runtime/pkg/client/interceptor"
	"sigs.k8s.io/controller-runtime/pkg/controller/controllertest"
	metricsserver "sigs.k8s.io/controller-runtime/pkg/metrics/server"

	"github.com/NVIDIA/KAI-scheduler/pkg/apis/scheduling/v1alpha2"
	"github.com/NVIDIA/KAI-scheduler/pkg/binder/binding"
	"github.com/NVIDIA/KAI-scheduler/pkg/binder/binding/resourcereservation"
	"github.com/NVIDIA/KAI-scheduler/pkg/binder/controllers"
	"github.com/NVIDIA/KAI-scheduler/pkg/binder/plugins"
	"github.com/NVIDIA/KAI-scheduler/pkg/binder/plugins/state"
	"github.com/NVIDIA/KAI-scheduler/pkg/common/constants"
)

const (
	consNS    = "ns"
	resNS     = "kai-resource-reservation"
	scalingNS = "kai-scale-adjust"
	schedName = "kai-scheduler"
	idxAnn    = "run.ai/reserve_for_gpu_index"
)

type crashSignal struct{}

// Faults of one step: API calls (numbered from 0 within the step) that return
// an error without taking effect, and the call before which the process dies.
type Faults struct {
	Err   []int
	Crash int // -1: none
}

func (f Faults) none() bool { return len(f.Err) == 0 && f.Crash < 0 }

// swapRR lets the long-lived controllers talk to the current service instance
// (a restart of the binder creates a new one).
type swapRR struct {
	mu  sync.Mutex
	cur resourcereservation.Interface
}

func (s *swapRR) get() resourcereservation.Interface {
	s.mu.Lock()
	defer s.mu.Unlock()
	return s.cur
}
func (s *swapRR) set(r resourcereservation.Interface) {
	s.mu.Lock()
	s.cur = r
	s.mu.Unlock()
}
func (s *swapRR) Sync(ctx context.Context) error { return s.get().Sync(ctx) }
func (s *swapRR) SyncForNode(ctx context.Context, n string) error {
	return s.get().SyncForNode(ctx, n)
}
func (s *swapRR) SyncForGpuGroup(ctx context.Context, g string) error {
	return s.get().SyncForGpuGroup(ctx, g)
}
func (s *swapRR) ReserveGpuDevice(ctx context.Context, p *v1.Pod, n, g string) (string, error) {
	return s.get().ReserveGpuDevice(ctx, p, n, g)
}
func (s *swapRR) RemovePodGpuGroupsConnection(ctx context.Context, p *v1.Pod) error {
	return s.get().RemovePodGpuGroupsConnection(ctx, p)
}

// probeRR records SyncForGpuGroup calls (used to find out when the controllers'
// handlers are registered with the fake informers).
type probeRR struct {
	mu   sync.Mutex
	seen map[string]bool
}

func (p *probeRR) Sync(context.Context) error                { return nil }
func (p *probeRR) SyncForNode(context.Context, string) error { return nil }
func (p *probeRR) SyncForGpuGroup(_ context.Context, g string) error {
	p.mu.Lock()
	p.seen[g] = true
	p.mu.Unlock()
	return nil
}
func (p *probeRR) ReserveGpuDevice(context.Context, *v1.Pod, string, string) (string, error) {
	return "", nil
}
func (p *probeRR) RemovePodGpuGroupsConnection(context.Context, *v1.Pod) error { return nil }
func (p *probeRR) saw(g string) bool {
	p.mu.Lock()
	defer p.mu.Unlock()
	return p.seen[g]
}

// controllersEnv holds the real PodReconciler and BindRequestReconciler, set
// up through their exported SetupWithManager on a manager whose cache is
// controller-runtime's FakeInformers: the harness plays the API server's watch
// by pushing events into the fake informers, and the controllers' real event
// handlers run synchronously.
type controllersEnv struct {
	scheme *runtime.Scheme
	swap   *swapRR
	podInf *controllertest.FakeInformer
	brInf  *controllertest.FakeInformer
}

func newScheme() *runtime.Scheme {
	s := runtime.NewScheme()
	_ = clientgoscheme.AddToScheme(s)
	_ = v1alpha2.AddToScheme(s)
	return s
}

func newControllers() (*controllersEnv, error) {
	scheme := newScheme()
	swap := &swapRR{}
	probe := &probeRR{seen: map[string]bool{}}
	swap.set(probe)
	inf := &informertest.FakeInformers{Scheme: scheme}
	ctx := context.Background()
	podInf, err := inf.FakeInformerFor(ctx, &v1.Pod{})
	if err != nil {
		return nil, err
	}
	brInf, err := inf.FakeInformerFor(ctx, &v1alpha2.BindRequest{})
	if err != nil {
		return nil, err
	}
	if _, err = inf.FakeInformerFor(ctx, &v1.ConfigMap{}); err != nil {
		return nil, err
	}
	mapper := meta.NewDefaultRESTMapper(nil)
	idle := fake.NewClientBuilder().WithScheme(scheme).Build()
	mgr, err := ctrl.NewManager(&rest.Config{Host: "http://127.0.0.1:1"}, ctrl.Options{
		Scheme:                 scheme,
		Metrics:                metricsserver.Options{BindAddress: "0"},
		HealthProbeBindAddress: "0",
		MapperProvider:         func(*rest.Config, *http.Client) (meta.RESTMapper, error) { return mapper, nil },
		NewCache:               func(*rest.Config, cache.Options) (cache.Cache, error) { return inf, nil },
		NewClient:              func(*rest.Config, client.Options) (client.Client, error) { return idle, nil },
	})
	if err != nil {
		return nil, err
	}
	params := &controllers.ReconcilerParams{MaxConcurrentReconciles: 1, RateLimiterBaseDelaySeconds: 1, RateLimiterMaxDelaySeconds: 2}
	if err = (&controllers.PodReconciler{Client: idle, Scheme: scheme, ResourceReservation: swap,
		SchedulerName: schedName}).SetupWithManager(mgr, params); err != nil {
		return nil, err
	}
	brr := controllers.NewBindRequestReconciler(idle, scheme, record.NewFakeRecorder(16), params, nil, swap)
	if err = brr.SetupWithManager(mgr); err != nil {
		return nil, err
	}
	go func() { _ = mgr.Start(context.Background()) }()

	// wait until both custom handlers are live
	deadline := time.Now().Add(20 * time.Second)
	for !(probe.saw("probe-pod") && probe.saw("probe-br")) {
		if time.Now().After(deadline) {
			return nil, errors.New("controllers' event handlers did not register with the fake informers")
		}
		time.Sleep(20 * time.Millisecond)
		func() {
			defer func() { _ = recover() }()
			podInf.Delete(&v1.Pod{ObjectMeta: metav1.ObjectMeta{Name: "probe", Namespace: consNS,
				Labels: map[string]string{constants.GPUGroup: "probe-pod"}}, Spec: v1.PodSpec{SchedulerName: schedName}})
			brInf.Delete(&v1alpha2.BindRequest{ObjectMeta: metav1.ObjectMeta{Name: "probe", Namespace: consNS},
				Spec: v1alpha2.BindRequestSpec{ReceivedResourceType: "Fraction", SelectedGPUGroups: []string{"probe-br"}}})
		}()
	}
	time.Sleep(100 * time.Millisecond)
	return &controllersEnv{scheme: scheme, swap: swap, podInf: podInf, brInf: brInf}, nil
}

// ---------------------------------------------------------------- API server

type pendingDel struct {
	pod *v1.Pod
	br  *v1alpha2.BindRequest
}

// apiServer is the fake client plus what the real cluster adds around it: the
// device plugin that annotates reservation pods, the Binding sub-resource, the
// garbage collector that deletes the BindRequest owned by a deleted pod, and
// the fault oracle.
type apiServer struct {
	base client.WithWatch
	ic   client.WithWatch

	mu     sync.Mutex
	cur    *opCtx   // the step that is running (sequential histories)
	race   *raceCtl // controlled interleaving of two operations (race.go); nil otherwise
	resSeq map[string]int
	nextID int
	brs    map[string]*v1alpha2.BindRequest
	given  map[string][][2]string
	jitter func() // widens race windows in the concurrent smoke test
}

// opCtx is what belongs to ONE operation (a step of a sequential history, or
// one of the two operations of a race): its API call counter and log, its
// fault oracle, the Go map orders read off the run, the device plugin's
// answers to the reservation pods it creates, the watch events it caused.
type opCtx struct {
	id     int // 0: the step / operation A, 1: operation B
	k      int
	calls  []string
	fl     Faults
	visits [][]string
	dp     []int // device plugin answers (index, -1: never annotates)
	pend   []pendingDel
	// race bookkeeping (guarded by raceCtl.mu)
	inCall   bool
	parked   bool
	progress int
	last     time.Time
}

// op returns the context of the operation the calling goroutine belongs to.
func (s *apiServer) op() *opCtx {
	if rc := s.race; rc != nil {
		if o := rc.opOf(goid()); o != nil {
			return o
		}
	}
	return s.cur
}

func nodeNameIndexer(o client.Object) []string {
	n := o.(*v1.Pod).Spec.NodeName
	if n == "" {
		return nil
	}
	return []string{n}
}

func newAPIServer(scheme *runtime.Scheme, objs ...client.Object) *apiServer {
	s := &apiServer{resSeq: map[string]int{}, nextID: 1, brs: map[string]*v1alpha2.BindRequest{},
		given: map[string][][2]string{}, cur: &opCtx{fl: Faults{Crash: -1}}}
	s.base = fake.NewClientBuilder().WithScheme(scheme).WithObjects(objs...).
		WithIndex(&v1.Pod{}, "spec.nodeName", nodeNameIndexer).Build()
	s.ic = interceptor.NewClient(s.base, interceptor.Funcs{
		Get: func(ctx context.Context, c client.WithWatch, key client.ObjectKey, obj client.Object, opts ...client.GetOption) error {
			if err := s.gate("get"); err != nil {
				return err
			}
			defer s.leave()
			return c.Get(ctx, key, obj, opts...)
		},
		List: func(ctx context.Context, c client.WithWatch, list client.ObjectList, opts ...client.ListOption) error {
			lo := &client.ListOptions{}
			lo.ApplyOptions(opts)
			exists, eq := selectorOnGroup(lo)
			if eq != "" && lo.Namespace == "" {
				s.noteGroupSync(eq)
			}
			if err := s.gate("list"); err != nil {
				return err
			}
			defer s.leave()
			if exists {
				s.newVisit()
			}
			return c.List(ctx, list, opts...)
		},
		Create: func(ctx context.Context, c client.WithWatch, obj client.Object, opts ...client.CreateOption) error {
			if err := s.gate("create"); err != nil {
				return err
			}
			defer s.leave()
			if err := c.Create(ctx, obj, opts...); err != nil {
				return err
			}
			if pod, ok := obj.(*v1.Pod); ok && pod.Namespace == resNS {
				s.devicePlugin(ctx, pod)
			}
			return nil
		},
		Delete: func(ctx context.Context, c client.WithWatch, obj client.Object, opts ...client.DeleteOption) error {
			if err := s.gate("delete"); err != nil {
				return err
			}
			defer s.leave()
			return s.deleteObject(ctx, obj, opts...)
		},
		Patch: func(ctx context.Context, c client.WithWatch, obj client.Object, patch client.Patch, opts ...client.PatchOption) error {
			if err := s.gate("patch"); err != nil {
				return err
			}
			defer s.leave()
			return c.Patch(ctx, obj, patch, opts...)
		},
		Update: func(ctx context.Context, c client.WithWatch, obj client.Object, opts ...client.UpdateOption) error {
			if err := s.gate("update"); err != nil {
				return err
			}
			defer s.leave()
			return c.Update(ctx, obj, opts...)
		},
		Watch: func(ctx context.Context, c client.WithWatch, list client.ObjectList, opts ...client.ListOption) (watch.Interface, error) {
			if err := s.gate("watch"); err != nil {
				return nil, err
			}
			defer s.leave()
			lo := &client.ListOptions{}
			lo.ApplyOptions(opts)
			name := ""
			if lo.FieldSelector != nil {
				name, _ = lo.FieldSelector.RequiresExactMatch("metadata.name")
			}
			pod := &v1.Pod{}
			err := s.base.Get(ctx, client.ObjectKey{Namespace: lo.Namespace, Name: name}, pod)
			if err == nil && pod.Annotations[idxAnn] != "" {
				w := watch.NewFakeWithChanSize(1, false)
				w.Modify(pod)
				return w, nil
			}
			// the device plugin never answers: the service gives up (here: at once)
			w := watch.NewFake()
			w.Stop()
			return w, nil
		},
		SubResourceCreate: func(ctx context.Context, c client.Client, sub string, obj client.Object, subObj client.Object, opts ...client.SubResourceCreateOption) error {
			if err := s.gate("bind"); err != nil {
				return err
			}
			defer s.leave()
			b, ok := subObj.(*v1.Binding)
			if sub != "binding" || !ok {
				return apierrors.NewBadRequest("unsupported sub-resource")
			}
			pod := &v1.Pod{}
			if err := s.base.Get(ctx, client.ObjectKeyFromObject(obj), pod); err != nil {
				return err
			}
			pod.Spec.NodeName = b.Target.Name
			return s.base.Update(ctx, pod)
		},
	})
	return s
}

func selectorOnGroup(lo *client.ListOptions) (exists bool, eq string) {
	if lo.LabelSelector == nil {
		return false, ""
	}
	reqs, _ := lo.LabelSelector.Requirements()
	for _, r := range reqs {
		if r.Key() != constants.GPUGroup {
			continue
		}
		switch r.Operator() {
		case selection.Exists:
			exists = true
		case selection.Equals, selection.DoubleEquals, selection.In:
			if vs := r.Values().List(); len(vs) == 1 {
				eq = vs[0]
			}
		}
	}
	return
}

// gate numbers the call within its operation, applies the operation's fault
// oracle and logs the call. In a race the controller may park the operation
// here, BEFORE the call takes effect.
func (s *apiServer) gate(kind string) error {
	if s.jitter != nil {
		s.jitter()
	}
	o := s.op()
	rc := s.race
	if rc != nil {
		rc.beforeCall(o, kind)
	}
	s.mu.Lock()
	defer s.mu.Unlock()
	idx := o.k
	if o.fl.Crash == idx {
		panic(crashSignal{})
	}
	o.k++
	o.calls = append(o.calls, kind)
	if rc != nil {
		rc.logCall(o, kind)
	}
	for _, e := range o.fl.Err {
		if e == idx {
			if rc != nil {
				rc.afterCall(o)
			}
			return apierrors.NewServiceUnavailable("injected fault")
		}
	}
	return nil
}

// leave: the API call of the calling operation has returned.
func (s *apiServer) leave() {
	if rc := s.race; rc != nil {
		rc.afterCall(s.op())
	}
}

func (s *apiServer) newVisit() {
	o := s.op()
	s.mu.Lock()
	o.visits = append(o.visits, []string{})
	s.mu.Unlock()
}

func (s *apiServer) noteGroupSync(g string) {
	o := s.op()
	s.mu.Lock()
	if n := len(o.visits); n > 0 {
		o.visits[n-1] = append(o.visits[n-1], g)
	}
	s.mu.Unlock()
}

// devicePlugin plays the kubelet + device plugin for a freshly created
// reservation pod: it gets an identity (creation order) and, if the oracle
// says so, the index annotation.
func (s *apiServer) devicePlugin(ctx context.Context, pod *v1.Pod) {
	o := s.op()
	s.mu.Lock()
	s.resSeq[pod.Name] = s.nextID
	s.nextID++
	ans := -1
	if len(o.dp) > 0 {
		ans = o.dp[0]
		o.dp = o.dp[1:]
	}
	s.mu.Unlock()
	if ans < 0 {
		return
	}
	cur := &v1.Pod{}
	if err := s.base.Get(ctx, client.ObjectKeyFromObject(pod), cur); err != nil {
		return
	}
	if cur.Annotations == nil {
		cur.Annotations = map[string]string{}
	}
	cur.Annotations[idxAnn] = strconv.Itoa(ans)
	_ = s.base.Update(ctx, cur)
}

// deleteObject removes the object; for a consumer pod the garbage collector
// then removes the BindRequest it owns and both watch events are queued.
func (s *apiServer) deleteObject(ctx context.Context, obj client.Object, opts ...client.DeleteOption) error {
	pod, isPod := obj.(*v1.Pod)
	var cur *v1.Pod
	if isPod && pod.Namespace == consNS {
		cur = &v1.Pod{}
		if err := s.base.Get(ctx, client.ObjectKeyFromObject(pod), cur); err != nil {
			cur = nil
		}
	}
	if err := s.base.Delete(ctx, obj, opts...); err != nil {
		return err
	}
	if cur != nil {
		o := s.op()
		s.mu.Lock()
		br := s.brs[cur.Name]
		delete(s.brs, cur.Name)
		o.pend = append(o.pend, pendingDel{pod: cur, br: br})
		s.mu.Unlock()
	}
	return nil
}

// ------------------------------------------------------------ recording plugin

type recPlugin struct {
	srv *apiServer
	ok  *bool
}

func (p *recPlugin) Name() string { return "kaiverif-recorder" }
func (p *recPlugin) PreBind(_ context.Context, pod *v1.Pod, _ *v1.Node, br *v1alpha2.BindRequest, st *state.BindingState) error {
	var g [][2]string
	for i, id := range st.ReservedGPUIds {
		if i < len(br.Spec.SelectedGPUGroups) {
			g = append(g, [2]string{br.Spec.SelectedGPUGroups[i], id})
		}
	}
	p.srv.mu.Lock()
	p.srv.given[pod.Name] = g
	p.srv.mu.Unlock()
	if !*p.ok {
		return errors.New("pre-bind refused")
	}
	return nil
}
func (p *recPlugin) PostBind(context.Context, *v1.Pod, *v1.Node, *v1alpha2.BindRequest, *state.BindingState) {
}
func (p *recPlugin) Rollback(context.Context, *v1.Pod, *v1.Node, *v1alpha2.BindRequest, *state.BindingState) error {
	return nil
}

// ---------------------------------------------------------------- the binder

// binderProc is one binder process: the real reservation service and the real
// Binder on top of the intercepted client.
type binderProc struct {
	srv       *apiServer
	ctl       *controllersEnv
	svc       resourcereservation.Interface
	binder    *binding.Binder
	prebindOK bool
}

func newService(c client.WithWatch) resourcereservation.Interface {
	return resourcereservation.NewService(false, c, "reservation-image", 2*time.Second, resNS,
		"reservation-sa", "kai-resource-reservation", scalingNS, "", nil)
}

func (b *binderProc) start() {
	b.svc = newService(b.srv.ic)
	pl := plugins.New()
	pl.RegisterPlugin(&recPlugin{srv: b.srv, ok: &b.prebindOK})
	b.binder = binding.NewBinder(b.srv.ic, b.svc, pl)
	if b.ctl != nil {
		b.ctl.swap.set(b.svc)
	}
}

func consumerPod(name string, mf int) *v1.Pod {
	ann := map[string]string{constants.GpuFraction: "0.5"}
	switch mf {
	case 1:
		ann[constants.GpuFractionsNumDevices] = "2"
	case 2:
		ann[constants.GpuFractionsNumDevices] = "two"
	}
	return &v1.Pod{
		TypeMeta:   metav1.TypeMeta{Kind: "Pod", APIVersion: "v1"},
		ObjectMeta: metav1.ObjectMeta{Name: name, Namespace: consNS, UID: types.UID("uid-" + name), Annotations: ann},
		Spec:       v1.PodSpec{SchedulerName: schedName, Containers: []v1.Container{{Name: "main", Image: "img"}}},
		Status:     v1.PodStatus{Phase: v1.PodPending},
	}
}

// drain delivers the queued delete events to the real handlers.
func (b *binderProc) drain() {
	o := b.srv.op()
	for {
		b.srv.mu.Lock()
		if len(o.pend) == 0 {
			b.srv.mu.Unlock()
			return
		}
		d := o.pend[0]
		o.pend = o.pend[1:]
		b.srv.mu.Unlock()
		b.srv.newVisit()
		b.ctl.podInf.Delete(d.pod)
		if d.br != nil {
			b.ctl.brInf.Delete(d.br)
		}
	}
}

// ------------------------------------------------------------------- events

type Event struct {
	Kind      string // bind phase delete brdelete resgone nodesync restart; races only: reserve syncgroup
	Pod       string
	Node      string
	Groups    []string
	PrebindOK bool
	Phase     string
	Group     string
}

type Step struct {
	Ev Event
	Fl Faults
	Dp []int
	// observed
	Out    int
	Calls  []string
	Visits [][]string
	Store  []PodObs
	Tags   []string
}

type PodObs struct {
	Name   string
	ID     int
	Res    bool
	Node   string
	Plain  string
	Multi  []string
	Phase  string
	Index  string
	MF     int
	Given  [][2]string
	HasIdx bool
}

func phaseRank(p v1.PodPhase) int {
	switch p {
	case v1.PodRunning:
		return 1
	case v1.PodSucceeded, v1.PodFailed:
		return 2
	}
	return 0
}

// runStep executes one step of a sequential history on the real code. It
// returns 0 (finished), 1 (SyncForNode / Sync returned an error) or 2 (crashed).
func (b *binderProc) runStep(st *Step) (out int) {
	s := b.srv
	o := &opCtx{fl: st.Fl, dp: append([]int(nil), st.Dp...)}
	s.mu.Lock()
	s.cur = o
	s.mu.Unlock()
	defer func() {
		if r := recover(); r != nil {
			if _, ok := r.(crashSignal); !ok {
				panic(r)
			}
			out = 2
			s.mu.Lock()
			o.pend = nil // a dead process handles no event; they are gone when it comes back
			s.mu.Unlock()
			b.start() // the process memory (group locks included) is gone
		}
		s.mu.Lock()
		st.Calls = append([]string(nil), o.calls...)
		st.Visits = o.visits
		o.fl = Faults{Crash: -1}
		s.mu.Unlock()
	}()
	out, _ = b.doEvent(st)
	return out
}

// doEvent is the body of one operation: it runs in the goroutine of its
// operation (apiServer.op finds the operation's context). The second result
// is the device index ReserveGpuDevice returned ("reserve" only).
func (b *binderProc) doEvent(st *Step) (out int, idx string) {
	s := b.srv
	ctx := context.Background()
	ev := st.Ev
	switch ev.Kind {
	case "bind":
		pod := &v1.Pod{}
		if err := s.base.Get(ctx, client.ObjectKey{Namespace: consNS, Name: ev.Pod}, pod); err != nil || pod.Spec.NodeName != "" {
			return 0, ""
		}
		br := &v1alpha2.BindRequest{
			ObjectMeta: metav1.ObjectMeta{Name: ev.Pod, Namespace: consNS},
			Spec: v1alpha2.BindRequestSpec{PodName: ev.Pod, SelectedNode: ev.Node, ReceivedResourceType: "Fraction",
				SelectedGPUGroups: append([]string(nil), ev.Groups...)},
		}
		s.mu.Lock()
		s.brs[ev.Pod] = br
		delete(s.given, ev.Pod)
		s.mu.Unlock()
		node := &v1.Node{ObjectMeta: metav1.ObjectMeta{Name: ev.Node}}
		b.prebindOK = ev.PrebindOK
		// the composition of Bind and Rollback is BindRequestReconciler.Reconcile's
		if err := b.binder.Bind(ctx, pod, node, br); err != nil {
			_ = b.binder.Rollback(ctx, pod, node, br)
		}
		b.drain()
	case "phase":
		pod := &v1.Pod{}
		if err := s.base.Get(ctx, client.ObjectKey{Namespace: consNS, Name: ev.Pod}, pod); err != nil {
			return 0, ""
		}
		np := v1.PodPhase(ev.Phase)
		if phaseRank(np) <= phaseRank(pod.Status.Phase) {
			return 0, ""
		}
		old := pod.DeepCopy()
		pod.Status.Phase = np
		if err := s.base.Status().Update(ctx, pod); err != nil {
			panic(err)
		}
		st.Tags = append(st.Tags, b.tagsFor(old, "complete", phaseRank(np) == 2)...)
		s.newVisit()
		b.ctl.podInf.Update(old, pod)
		b.drain()
	case "delete":
		pod := &v1.Pod{ObjectMeta: metav1.ObjectMeta{Name: ev.Pod, Namespace: consNS}}
		cur := &v1.Pod{}
		if err := s.base.Get(ctx, client.ObjectKeyFromObject(pod), cur); err == nil {
			s.mu.Lock()
			_, hasBR := s.brs[ev.Pod]
			s.mu.Unlock()
			st.Tags = append(st.Tags, b.tagsFor(cur, "delete", !hasBR)...)
		}
		_ = s.deleteObject(ctx, pod)
		b.drain()
	case "brdelete":
		s.mu.Lock()
		br := s.brs[ev.Pod]
		delete(s.brs, ev.Pod)
		s.mu.Unlock()
		if br != nil {
			b.ctl.brInf.Delete(br)
		}
		b.drain()
	case "resgone":
		l := &v1.PodList{}
		if err := s.base.List(ctx, l, client.InNamespace(resNS), client.MatchingLabels{constants.GPUGroup: ev.Group}); err != nil {
			panic(err)
		}
		var victim *v1.Pod
		for i := range l.Items {
			if victim == nil || s.resSeq[l.Items[i].Name] < s.resSeq[victim.Name] {
				victim = &l.Items[i]
			}
		}
		if victim != nil {
			st.Tags = append(st.Tags, b.orphanTags(ev.Group)...)
			if err := s.base.Delete(ctx, victim); err != nil {
				panic(err)
			}
			b.ctl.podInf.Delete(victim) // the pod controller sees it; it is not a pod of this scheduler
		}
		b.drain()
	case "nodesync":
		err := b.svc.SyncForNode(ctx, ev.Node)
		b.drain()
		if err != nil {
			return 1, ""
		}
	case "restart":
		b.start()
		if err := b.svc.Sync(ctx); err != nil {
			o := s.op()
			s.mu.Lock()
			o.pend = nil
			s.mu.Unlock()
			return 1, ""
		}
		b.drain()
	case "reserve":
		// the raw service call (what Binder.reserveGPUs does per selected group)
		// (only for a pod that is not bound yet, as the reconciler does)
		pod := &v1.Pod{}
		if err := s.base.Get(ctx, client.ObjectKey{Namespace: consNS, Name: ev.Pod}, pod); err != nil || pod.Spec.NodeName != "" {
			return 0, ""
		}
		i, err := b.svc.ReserveGpuDevice(ctx, pod, ev.Node, ev.Group)
		b.drain()
		if err != nil {
			return 1, ""
		}
		return 0, i
	case "syncgroup":
		err := b.svc.SyncForGpuGroup(ctx, ev.Group)
		b.drain()
		if err != nil {
			return 1, ""
		}
	default:
		panic("unknown event " + ev.Kind)
	}
	return 0, ""
}

func multiOnly(p *v1.Pod) bool {
	if _, ok := p.Labels[constants.GPUGroup]; ok {
		return false
	}
	for k := range p.Labels {
		if strings.HasPrefix(k, constants.MultiGpuGroupLabelPrefix) {
			return true
		}
	}
	return false
}

// tagsFor marks the steps at which a multi-fraction consumer (labels
// runai-gpu-group/<g> only) completes or is deleted without a BindRequest
// left: before commit 5990b65 the handlers then synced nothing (the tags keep
// these histories recognisable as regressions of that fix).
func (b *binderProc) tagsFor(p *v1.Pod, what string, cond bool) []string {
	if cond && multiOnly(p) && b.srv.op().fl.none() {
		return []string{"multifraction-" + what}
	}
	return nil
}

// orphanTags: a reservation pod vanishes while a live multi-fraction consumer
// carries its group.
func (b *binderProc) orphanTags(g string) []string {
	l := &v1.PodList{}
	key, val := constants.MultiGpuGroupLabelPrefix+g, g
	if err := b.srv.base.List(context.Background(), l, client.InNamespace(consNS), client.MatchingLabels{key: val}); err != nil {
		return nil
	}
	for _, p := range l.Items {
		if p.Status.Phase == v1.PodPending || p.Status.Phase == v1.PodRunning {
			return []string{"multifraction-orphan"}
		}
	}
	return nil
}

// snapshot projects the store: consumers in name order, reservation pods in
// creation order.
func (s *apiServer) snapshot(mf map[string]int) []PodObs {
	l := &v1.PodList{}
	if err := s.base.List(context.Background(), l); err != nil {
		panic(err)
	}
	var cons, res []PodObs
	for _, p := range l.Items {
		o := PodObs{Name: p.Name, Node: p.Spec.NodeName, Phase: string(p.Status.Phase)}
		if g, ok := p.Labels[constants.GPUGroup]; ok {
			o.Plain = g
		}
		for k, v := range p.Labels {
			if strings.HasPrefix(k, constants.MultiGpuGroupLabelPrefix) {
				o.Multi = append(o.Multi, v)
			}
		}
		if a, ok := p.Annotations[idxAnn]; ok {
			o.Index, o.HasIdx = a, true
		}
		switch p.Namespace {
		case resNS:
			o.Res = true
			o.ID = s.resSeq[p.Name]
			res = append(res, o)
		case consNS:
			o.MF = mf[p.Name]
			o.Given = s.given[p.Name]
			cons = append(cons, o)
		}
	}
	sort.Slice(cons, func(i, j int) bool { return cons[i].Name < cons[j].Name })
	sort.Slice(res, func(i, j int) bool { return res[i].ID < res[j].ID })
	return append(cons, res...)
}

func (e Event) String() string {
	switch e.Kind {
	case "bind":
		ok := ""
		if !e.PrebindOK {
			ok = ",prebind-fails"
		}
		return fmt.Sprintf("bind(%s,%s,[%s]%s)", e.Pod, e.Node, strings.Join(e.Groups, " "), ok)
	case "phase":
		return fmt.Sprintf("phase(%s,%s)", e.Pod, e.Phase)
	case "delete":
		return fmt.Sprintf("delete(%s)", e.Pod)
	case "brdelete":
		return fmt.Sprintf("brdelete(%s)", e.Pod)
	case "resgone":
		return fmt.Sprintf("resgone(%s)", e.Group)
	case "nodesync":
		return fmt.Sprintf("nodesync(%s)", e.Node)
	case "reserve":
		return fmt.Sprintf("reserve(%s,%s,%s)", e.Pod, e.Node, e.Group)
	case "syncgroup":
		return fmt.Sprintf("syncgroup(%s)", e.Group)
	}
	return e.Kind
}
