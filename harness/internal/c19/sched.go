package c19

// The scheduler's side of a bind: the grant the binder receives is not rendered by the
// harness. The admitted pod is read with pod_info.NewTaskInfo, placed on a node with the
// real NodeInfo.AddTask (which sets AcceptedResource the way the scheduler does when it
// allocates: the request's own fraction, or the node-specific portion of a gpu-memory
// request), and handed to the real SchedulerCache.Bind, which ends in createBindRequest
// on a fake kube-ai-scheduler clientset. The BindRequest read back from that clientset is
// what the binder plugin gets.

import (
	"context"
	"flag"
	"fmt"
	"io"
	"strconv"
	"sync"

	v1 "k8s.io/api/core/v1"
	"k8s.io/apimachinery/pkg/api/resource"
	metav1 "k8s.io/apimachinery/pkg/apis/meta/v1"
	kubefake "k8s.io/client-go/kubernetes/fake"
	"k8s.io/klog/v2"

	kaifake "github.com/NVIDIA/KAI-scheduler/pkg/apis/client/clientset/versioned/fake"
	"github.com/NVIDIA/KAI-scheduler/pkg/apis/scheduling/v1alpha2"
	"github.com/NVIDIA/KAI-scheduler/pkg/scheduler/api/node_info"
	"github.com/NVIDIA/KAI-scheduler/pkg/scheduler/api/pod_info"
	"github.com/NVIDIA/KAI-scheduler/pkg/scheduler/api/pod_status"
	"github.com/NVIDIA/KAI-scheduler/pkg/scheduler/api/resource_info"
	"github.com/NVIDIA/KAI-scheduler/pkg/scheduler/cache"
	"github.com/NVIDIA/KAI-scheduler/pkg/scheduler/cache/cluster_info"
	"github.com/NVIDIA/KAI-scheduler/pkg/scheduler/conf"
)

const nodeName = "node-1"

// schedWorld is one real SchedulerCache over fake clientsets. Its informers are never
// started: Bind only needs the kube-ai-scheduler client and the status updater's maps.
type schedWorld struct {
	kai   *kaifake.Clientset
	cache cache.Cache
}

var (
	worlds   = make(chan *schedWorld, 16)
	klogOnce sync.Once
)

func acquireWorld() *schedWorld {
	klogOnce.Do(func() {
		fs := flag.NewFlagSet("klog", flag.ContinueOnError)
		klog.InitFlags(fs)
		_ = fs.Set("logtostderr", "false")
		_ = fs.Set("stderrthreshold", "FATAL")
		klog.SetOutput(io.Discard)
	})
	select {
	case w := <-worlds:
		return w
	default:
	}
	kube := kubefake.NewSimpleClientset()
	w := &schedWorld{kai: kaifake.NewSimpleClientset()}
	w.cache = cache.New(&cache.SchedulerCacheParams{
		KubeClient: kube, KAISchedulerClient: w.kai, NodePoolParams: &conf.SchedulingNodePoolParams{},
		FullHierarchyFairness: true, DiscoveryClient: kube.Discovery(),
	})
	return w
}

func releaseWorld(w *schedWorld) {
	select {
	case worlds <- w:
	default:
	}
}

type schedGrant struct {
	Ok              bool     `json:"ok"`
	Err             string   `json:"error,omitempty"`
	ReceivedType    string   `json:"receivedResourceType,omitempty"`
	Count           int      `json:"receivedGPU_count"`
	Portion         string   `json:"receivedGPU_portion"`
	Groups          []string `json:"selectedGPUGroups"`
	AcceptedPortion float64  `json:"-"` // what the scheduler books per device on this node
	AcceptedDevices int64    `json:"acceptedResource_devices"`
	ReqPortion      float64  `json:"-"`
	AcceptedS       string   `json:"acceptedResource_portion"` // (as strings: NaN / Inf do not fit JSON numbers)
	ReqS            string   `json:"resReq_portion"`
	br              *v1alpha2.BindRequest
}

// schedulerGrant places the admitted pod on a node whose GPUs have nodeGpuMemory MiB each, on the given GPU
// groups, and returns the BindRequest the real scheduler cache creates for it.
func schedulerGrant(pod *v1.Pod, nodeGpuMemory int64, groups []string) (g schedGrant) {
	defer func() {
		if rec := recover(); rec != nil {
			g.Ok, g.Err = false, fmt.Sprintf("panic: %v", rec)
		}
	}()
	alloc := v1.ResourceList{
		v1.ResourceCPU:    resource.MustParse("64"),
		v1.ResourceMemory: resource.MustParse("512Gi"),
		v1.ResourcePods:   resource.MustParse("110"),
		gpuRes:            resource.MustParse("8"),
	}
	node := &v1.Node{
		ObjectMeta: metav1.ObjectMeta{Name: nodeName, Labels: map[string]string{
			"nvidia.com/gpu.memory": strconv.FormatInt(nodeGpuMemory, 10), "nvidia.com/gpu.count": "8"}},
		Status: v1.NodeStatus{Allocatable: alloc, Capacity: alloc},
	}
	vm := resource_info.NewResourceVectorMap()
	vm.AddResourceList(alloc)
	ni := node_info.NewNodeInfo(node, cluster_info.NewK8sNodePodAffinityInfo(node, cache.NewK8sClusterPodAffinityInfo()), vm)

	ti := pod_info.NewTaskInfo(pod.DeepCopy(), nil, vm)
	ti.NodeName = nodeName
	ti.Status = pod_status.Allocated
	ti.GPUGroups = append([]string{}, groups...)
	g.ReqPortion = ti.ResReq.GpuFractionalPortion()
	g.ReqS = strconv.FormatFloat(g.ReqPortion, 'g', -1, 64)
	if err := ni.AddTask(ti); err != nil {
		g.Err = "AddTask: " + err.Error()
		return g
	}
	if ti.AcceptedResource == nil {
		g.Err = "AddTask left AcceptedResource unset"
		return g
	}
	g.AcceptedPortion = ti.AcceptedResource.GpuFractionalPortion()
	g.AcceptedDevices = ti.AcceptedResource.GetNumOfGpuDevices()
	g.AcceptedS = strconv.FormatFloat(g.AcceptedPortion, 'g', -1, 64)

	w := acquireWorld()
	defer releaseWorld(w)
	if err := w.cache.Bind(ti, nodeName, nil); err != nil {
		g.Err = "Bind: " + err.Error()
		return g
	}
	ctx := context.Background()
	brs := w.kai.SchedulingV1alpha2().BindRequests(pod.Namespace)
	br, err := brs.Get(ctx, pod.Name, metav1.GetOptions{})
	if err != nil {
		g.Err = "no BindRequest: " + err.Error()
		return g
	}
	_ = brs.Delete(ctx, pod.Name, metav1.DeleteOptions{})
	g.br = br
	g.Ok = true
	g.ReceivedType = br.Spec.ReceivedResourceType
	g.Groups = br.Spec.SelectedGPUGroups
	if br.Spec.ReceivedGPU != nil {
		g.Count, g.Portion = br.Spec.ReceivedGPU.Count, br.Spec.ReceivedGPU.Portion
	}
	return g
}
