package c19

// The binder's side of C19: for a pod that admission accepted as a GPU-sharing
// request, run the real GetFractionContainerRef and the real gpusharing binder
// plugin PreBind (controller-runtime fake client) on the MUTATED pod, read the
// ConfigMaps back and resolve the environment every container would start with.

import (
	"context"
	"fmt"
	"math"
	"sort"
	"strconv"
	"sync"

	"github.com/go-logr/logr"
	v1 "k8s.io/api/core/v1"
	metav1 "k8s.io/apimachinery/pkg/apis/meta/v1"
	"sigs.k8s.io/controller-runtime/pkg/client"
	"sigs.k8s.io/controller-runtime/pkg/client/fake"
	crlog "sigs.k8s.io/controller-runtime/pkg/log"

	"github.com/NVIDIA/KAI-scheduler/pkg/apis/scheduling/v1alpha2"
	bindercommon "github.com/NVIDIA/KAI-scheduler/pkg/binder/common"
	"github.com/NVIDIA/KAI-scheduler/pkg/binder/common/gpusharingconfigmap"
	bindergpu "github.com/NVIDIA/KAI-scheduler/pkg/binder/plugins/gpusharing"
	"github.com/NVIDIA/KAI-scheduler/pkg/binder/plugins/state"

	u "kaiverif/internal/util"
)

const (
	envNVD     = "NVIDIA_VISIBLE_DEVICES"
	envPortion = "GPU_PORTION"
	cmAnn      = "runai/shared-gpu-configmap"
)

// grant is what the scheduler hands to the binder for one bind attempt.
type grant struct {
	Cdi           bool     `json:"cdi,omitempty"`
	Ids           []string `json:"reservedGPUIds"`
	NodeGpuMemory int64    `json:"nodeGpuMemoryMiB,omitempty"` // memory of every GPU of the node the pod is placed on
	Portion       string   `json:"portion,omitempty"`          // observed: BindRequest.Spec.ReceivedGPU.Portion the real scheduler cache wrote
}

// bindPlan is the generated part of a binder run.
type bindPlan struct {
	Rounds   []grant                      `json:"rounds,omitempty"`
	PreCap   map[string]string            `json:"preExistingCapabilitiesMap,omitempty"`
	PreEvar  map[string]string            `json:"preExistingEvarMap,omitempty"`
	PreOther map[string]map[string]string `json:"preExistingOtherMaps,omitempty"`
	Legacy   bool                         `json:"alsoUnmutatedPod,omitempty"`
}

var preDataPool = []map[string]string{
	{"RUNAI-VISIBLE-DEVICES": "7", envNVD: "7", envPortion: "0.90", "RUNAI_NUM_OF_GPUS": "0.90"},
	{envNVD: "all"},
	{"RUNAI-VISIBLE-DEVICES": "1,2"},
	{"OTHER": "x"},
	{envPortion: "0.10", "OTHER": "y"},
}

func genBindPlan(r *u.Rng) bindPlan {
	b := bindPlan{}
	nr := 1
	if r.Chance(1, 4) {
		nr = 2
	}
	for i := 0; i < nr; i++ {
		ids := []string{"0", "1", "2", "3", "4", "5", "6", "7"}
		u.Shuffle(r, ids)
		b.Rounds = append(b.Rounds, grant{Cdi: r.Chance(1, 4), Ids: ids, NodeGpuMemory: int64(u.Pick(r, []int{16384, 24576, 40960, 81920}))})
	}
	if r.Chance(1, 5) {
		b.PreCap = u.Pick(r, preDataPool)
	}
	if r.Chance(1, 6) {
		b.PreEvar = u.Pick(r, preDataPool)
	}
	if r.Chance(1, 3) {
		b.PreOther = map[string]map[string]string{}
		for i, n := 0, r.Range(1, 3); i < n; i++ {
			b.PreOther[u.Pick(r, []string{"other", "cm-a", "pfx-0", "pfx-0-evar", "pfx-i0-evar", "pfx-1", "pfx-i1"})] = u.Pick(r, preDataPool)
		}
	}
	b.Legacy = r.Chance(1, 3)
	return b
}

var logOnce sync.Once

func quietLogs() { logOnce.Do(func() { crlog.SetLogger(logr.Discard()) }) }

// ---- Coq terms ---------------------------------------------------------------

func dataTerm(d map[string]string) string {
	keys := make([]string, 0, len(d))
	for k := range d {
		keys = append(keys, k)
	}
	sort.Strings(keys)
	return u.ListOf(keys, func(k string) string { return u.Pair(u.Str(k), u.Str(d[k])) })
}

func storeTerm(s map[string]map[string]string) string {
	names := make([]string, 0, len(s))
	for n := range s {
		names = append(names, n)
	}
	sort.Strings(names)
	return u.ListOf(names, func(n string) string { return u.Pair(u.Str(n), dataTerm(s[n])) })
}

type envVal struct {
	Kind string `json:"kind"` // value | unset | error
	V    string `json:"value,omitempty"`
}

func (e envVal) term() string {
	switch e.Kind {
	case "value":
		return "(EVal " + u.Str(e.V) + ")"
	case "unset":
		return "EUnset"
	}
	return "EError"
}

// resolveEnv gives the value one variable has when the container starts, the way the
// kubelet builds the environment: envFrom sources in order (a later source wins), then
// env entries (they win over envFrom; a later entry wins). A configMapKeyRef whose map
// or key is missing keeps the container from starting ("error").
func resolveEnv(cms map[string]map[string]string, c *v1.Container, name string) envVal {
	res := envVal{Kind: "unset"}
	for _, src := range c.EnvFrom {
		if src.ConfigMapRef == nil {
			continue
		}
		if d, ok := cms[src.ConfigMapRef.Name]; ok {
			if v, ok := d[name]; ok {
				res = envVal{Kind: "value", V: v}
			}
		}
	}
	for _, e := range c.Env {
		if e.Name != name {
			continue
		}
		if e.ValueFrom == nil || e.ValueFrom.ConfigMapKeyRef == nil {
			res = envVal{Kind: "value", V: e.Value}
			continue
		}
		ref := e.ValueFrom.ConfigMapKeyRef
		d, ok := cms[ref.Name]
		if !ok {
			res = envVal{Kind: "error"}
			continue
		}
		if v, ok := d[ref.Key]; ok {
			res = envVal{Kind: "value", V: v}
		} else {
			res = envVal{Kind: "error"}
		}
	}
	return res
}

type contEnv struct {
	Type    string `json:"type"`
	Index   int    `json:"index"`
	Name    string `json:"name"`
	Devices envVal `json:"NVIDIA_VISIBLE_DEVICES"`
	Portion envVal `json:"GPU_PORTION"`
}

func envOfAll(cms map[string]map[string]string, pod *v1.Pod) []contEnv {
	out := []contEnv{}
	for i := range pod.Spec.Containers {
		c := &pod.Spec.Containers[i]
		out = append(out, contEnv{"RegularC", i, c.Name, resolveEnv(cms, c, envNVD), resolveEnv(cms, c, envPortion)})
	}
	for i := range pod.Spec.InitContainers {
		c := &pod.Spec.InitContainers[i]
		out = append(out, contEnv{"InitC", i, c.Name, resolveEnv(cms, c, envNVD), resolveEnv(cms, c, envPortion)})
	}
	return out
}

func listMaps(cl client.Client, ns string) map[string]map[string]string {
	l := &v1.ConfigMapList{}
	_ = cl.List(context.Background(), l, client.InNamespace(ns))
	out := map[string]map[string]string{}
	for _, cm := range l.Items {
		d := map[string]string{}
		for k, v := range cm.Data {
			d[k] = v
		}
		out[cm.Name] = d
	}
	return out
}

// ---- one binder run ----------------------------------------------------------

type roundObs struct {
	Grant grant      `json:"grant"`
	Sched schedGrant `json:"scheduler_bind_request"`
	// the portion the selected container is told, parsed, against the portion the scheduler booked
	PortionVars  map[string]envVal            `json:"selected_container_portion_vars"`
	PortionExact bool                         `json:"portion_parses_to_accepted_portion"`
	PortionClose bool                         `json:"portion_within_half_a_hundredth"`
	Ok           bool                         `json:"prebind_ok"`
	Err          string                       `json:"prebind_error,omitempty"`
	Maps         map[string]map[string]string `json:"configMaps"`
	Env          []contEnv                    `json:"effective_env"`
}

type bindObs struct {
	RefOk    bool                         `json:"container_ref_ok"`
	RefType  string                       `json:"container_ref_type,omitempty"`
	RefIndex int                          `json:"container_ref_index"`
	RefName  string                       `json:"container_ref_name,omitempty"`
	Pre      map[string]map[string]string `json:"configMapsBefore,omitempty"`
	Rounds   []roundObs                   `json:"rounds"`
}

func containerRef(pod *v1.Pod) (ref *gpusharingconfigmap.PodContainerRef, err error) {
	defer func() {
		if rec := recover(); rec != nil {
			ref, err = nil, fmt.Errorf("panic: %v", rec)
		}
	}()
	return bindercommon.GetFractionContainerRef(pod)
}

func preBind(pl *bindergpu.GPUSharing, pod *v1.Pod, br *v1alpha2.BindRequest, st *state.BindingState) (err error) {
	defer func() {
		if rec := recover(); rec != nil {
			err = fmt.Errorf("panic: %v", rec)
		}
	}()
	return pl.PreBind(context.Background(), pod, &v1.Node{ObjectMeta: metav1.ObjectMeta{Name: "node-1"}}, br, st)
}

// portionCheck parses what the selected container is told (GPU_PORTION, RUNAI_NUM_OF_GPUS) and compares it with
// the portion the scheduler booked for the pod on this node (AcceptedResource).
func portionCheck(cms map[string]map[string]string, c *v1.Container, accepted float64) (map[string]envVal, bool, bool) {
	vars := map[string]envVal{}
	exact, closeTo := true, true
	for _, name := range []string{envPortion, "RUNAI_NUM_OF_GPUS"} {
		ev := resolveEnv(cms, c, name)
		vars[name] = ev
		if ev.Kind != "value" {
			exact, closeTo = false, false
			continue
		}
		f, err := strconv.ParseFloat(ev.V, 64)
		if err != nil {
			exact, closeTo = false, false
			continue
		}
		if f != accepted {
			exact = false
		}
		if d := f - accepted; d > 0.005000001 || d < -0.005000001 {
			closeTo = false
		}
	}
	return vars, exact, closeTo
}

// runBinder drives the binder on pod (already admitted). devices: how many devices the scheduler read (the number
// of GPU groups it would select). Every grant is the BindRequest the real scheduler cache creates for the pod.
func runBinder(plan bindPlan, pod *v1.Pod, devices int64) (string, bindObs) {
	quietLogs()
	o := bindObs{}
	ref, rerr := containerRef(pod.DeepCopy())
	refTerm := "None"
	if rerr == nil && ref != nil && ref.Container != nil {
		o.RefOk, o.RefIndex, o.RefName = true, ref.Index, ref.Container.Name
		o.RefType = "RegularC"
		if ref.Type == gpusharingconfigmap.InitContainer {
			o.RefType = "InitC"
		}
		refTerm = u.Opt(true, u.Tuple(o.RefType, u.Nat(ref.Index), u.Str(ref.Container.Name)))
	}

	// config maps that exist already; all owned by the pod (UpsertJobConfigMap keeps their data)
	pre := map[string]map[string]string{}
	for n, d := range plan.PreOther {
		pre[n] = d
	}
	if o.RefOk {
		if capName, err := gpusharingconfigmap.ExtractCapabilitiesConfigMapName(pod, ref); err == nil {
			if plan.PreCap != nil {
				pre[capName] = plan.PreCap
			}
			if plan.PreEvar != nil {
				pre[capName+"-evar"] = plan.PreEvar
			}
		}
	}
	objs := []client.Object{}
	for n, d := range pre {
		data := map[string]string{}
		for k, v := range d {
			data[k] = v
		}
		objs = append(objs, &v1.ConfigMap{
			TypeMeta: metav1.TypeMeta{Kind: "ConfigMap", APIVersion: "v1"},
			ObjectMeta: metav1.ObjectMeta{Name: n, Namespace: pod.Namespace, OwnerReferences: []metav1.OwnerReference{
				{APIVersion: "v1", Kind: "Pod", Name: pod.Name, UID: pod.UID}}},
			Data: data})
	}
	cl := fake.NewClientBuilder().WithObjects(objs...).Build()
	o.Pre = listMaps(cl, pod.Namespace)

	n := int(devices)
	if devices < 1 {
		n = 1
	}
	if devices > 4 {
		n = 4
	}
	roundTerms := []string{}
	for _, g := range plan.Rounds {
		g.Ids = g.Ids[:n]
		if g.NodeGpuMemory == 0 {
			g.NodeGpuMemory = 16384
		}
		groups := []string{}
		for i := range g.Ids {
			groups = append(groups, "group-"+strconv.Itoa(i))
		}
		sg := schedulerGrant(pod, g.NodeGpuMemory, groups)
		g.Portion = sg.Portion
		ro := roundObs{Grant: g, Sched: sg}
		if sg.Ok {
			err := preBind(bindergpu.New(cl, g.Cdi), pod.DeepCopy(), sg.br, &state.BindingState{ReservedGPUIds: append([]string{}, g.Ids...)})
			ro.Ok = err == nil
			if err != nil {
				ro.Err = err.Error()
			}
		} else {
			ro.Err = "scheduler: " + sg.Err
		}
		ro.Maps = listMaps(cl, pod.Namespace)
		if o.RefOk {
			var sel *v1.Container
			if o.RefType == "InitC" && o.RefIndex < len(pod.Spec.InitContainers) {
				sel = &pod.Spec.InitContainers[o.RefIndex]
			} else if o.RefType == "RegularC" && o.RefIndex < len(pod.Spec.Containers) {
				sel = &pod.Spec.Containers[o.RefIndex]
			}
			if sel != nil {
				ro.PortionVars, ro.PortionExact, ro.PortionClose = portionCheck(ro.Maps, sel, sg.AcceptedPortion)
			}
		}
		ro.Env = envOfAll(ro.Maps, pod)
		o.Rounds = append(o.Rounds, ro)
		roundTerms = append(roundTerms, fmt.Sprintf(
			"{| r_cdi := %s; r_ids := %s; r_portion := %s; r_accepted := %s; r_exact := %s; r_close := %s; r_ok := %s; r_maps := %s; r_env := %s |}",
			u.Bool(g.Cdi), u.ListOf(g.Ids, u.Str), u.Str(g.Portion), u.N(math.Float64bits(sg.AcceptedPortion)),
			u.Bool(ro.PortionExact), u.Bool(ro.PortionClose), u.Bool(ro.Ok), storeTerm(ro.Maps),
			u.ListOf(ro.Env, func(e contEnv) string {
				return u.Tuple(e.Type, u.Nat(e.Index), e.Devices.term(), e.Portion.term())
			})))
	}
	term := fmt.Sprintf("{| b_ref := %s; b_pre := %s; b_rounds := %s |}", refTerm, storeTerm(o.Pre), u.List(roundTerms))
	return term, o
}
