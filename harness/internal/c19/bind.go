package c19

// The binder's side of C19: for a pod that admission accepted as a GPU-sharing
// request, run the real GetFractionContainerRef and the real gpusharing binder
// plugin PreBind (controller-runtime fake client) on the MUTATED pod, read the
// ConfigMaps back and resolve the environment every container would start with.

import (
	"context"
	"fmt"
	"math"
	"sort"
	"strconv"
	"strings"
	"sync"
	"time"

	"github.com/go-logr/logr"
	v1 "k8s.io/api/core/v1"
	metav1 "k8s.io/apimachinery/pkg/apis/meta/v1"
	"sigs.k8s.io/controller-runtime/pkg/client"
	"sigs.k8s.io/controller-runtime/pkg/client/fake"
	crlog "sigs.k8s.io/controller-runtime/pkg/log"

	"github.com/NVIDIA/KAI-scheduler/pkg/apis/scheduling/v1alpha2"
	"github.com/NVIDIA/KAI-scheduler/pkg/binder/binding/resourcereservation"
	bindercommon "github.com/NVIDIA/KAI-scheduler/pkg/binder/common"
	"github.com/NVIDIA/KAI-scheduler/pkg/binder/common/gpusharingconfigmap"
	bindergpu "github.com/NVIDIA/KAI-scheduler/pkg/binder/plugins/gpusharing"
	"github.com/NVIDIA/KAI-scheduler/pkg/binder/plugins/state"
	"github.com/NVIDIA/KAI-scheduler/pkg/common/resources"
	"github.com/NVIDIA/KAI-scheduler/pkg/scheduler/api/pod_info"
	"github.com/NVIDIA/KAI-scheduler/pkg/scheduler/api/resource_info"

	u "kaiverif/internal/util"
)

const (
	envNVD     = "NVIDIA_VISIBLE_DEVICES"
	envPortion = "GPU_PORTION"
	cmAnn      = "runai/shared-gpu-configmap"
)

// grant is what the scheduler hands to the binder for one bind attempt.
type grant struct {
	Cdi           bool     `json:"cdi,omitempty"`
	Ids           []string `json:"reservedGPUIds"`
	NodeGpuMemory int64    `json:"nodeGpuMemoryMiB,omitempty"` // memory of every GPU of the node the pod is placed on
	Portion       string   `json:"portion,omitempty"`          // observed: BindRequest.Spec.ReceivedGPU.Portion the real scheduler cache wrote
}

// bindPlan is the generated part of a binder run.
type bindPlan struct {
	Rounds   []grant                      `json:"rounds,omitempty"`
	PreCap   map[string]string            `json:"preExistingCapabilitiesMap,omitempty"`
	PreEvar  map[string]string            `json:"preExistingEvarMap,omitempty"`
	PreOther map[string]map[string]string `json:"preExistingOtherMaps,omitempty"`
	Legacy   bool                         `json:"alsoUnmutatedPod,omitempty"`
}

var preDataPool = []map[string]string{
	{"RUNAI-VISIBLE-DEVICES": "7", envNVD: "7", envPortion: "0.90", "RUNAI_NUM_OF_GPUS": "0.90"},
	{envNVD: "all"},
	{"RUNAI-VISIBLE-DEVICES": "1,2"},
	{"OTHER": "x"},
	{envPortion: "0.10", "OTHER": "y"},
}

func genBindPlan(r *u.Rng) bindPlan {
	b := bindPlan{}
	nr := 1
	if r.Chance(1, 4) {
		nr = 2
	}
	for i := 0; i < nr; i++ {
		ids := []string{"0", "1", "2", "3", "4", "5", "6", "7"}
		u.Shuffle(r, ids)
		b.Rounds = append(b.Rounds, grant{Cdi: r.Chance(1, 4), Ids: ids, NodeGpuMemory: int64(u.Pick(r, []int{16384, 24576, 40960, 81920}))})
	}
	if r.Chance(1, 5) {
		b.PreCap = u.Pick(r, preDataPool)
	}
	if r.Chance(1, 6) {
		b.PreEvar = u.Pick(r, preDataPool)
	}
	if r.Chance(1, 3) {
		b.PreOther = map[string]map[string]string{}
		for i, n := 0, r.Range(1, 3); i < n; i++ {
			b.PreOther[u.Pick(r, []string{"other", "cm-a", "pfx-0", "pfx-0-evar", "pfx-i0-evar", "pfx-1", "pfx-i1"})] = u.Pick(r, preDataPool)
		}
	}
	b.Legacy = r.Chance(1, 3)
	return b
}

var logOnce sync.Once

func quietLogs() { logOnce.Do(func() { crlog.SetLogger(logr.Discard()) }) }

// ---- Coq terms ---------------------------------------------------------------

func dataTerm(d map[string]string) string {
	keys := make([]string, 0, len(d))
	for k := range d {
		keys = append(keys, k)
	}
	sort.Strings(keys)
	return u.ListOf(keys, func(k string) string { return u.Pair(u.Str(k), u.Str(d[k])) })
}

func storeTerm(s map[string]map[string]string) string {
	names := make([]string, 0, len(s))
	for n := range s {
		names = append(names, n)
	}
	sort.Strings(names)
	return u.ListOf(names, func(n string) string { return u.Pair(u.Str(n), dataTerm(s[n])) })
}

type envVal struct {
	Kind string `json:"kind"` // value | unset | error
	V    string `json:"value,omitempty"`
}

func (e envVal) term() string {
	switch e.Kind {
	case "value":
		return "(EVal " + u.Str(e.V) + ")"
	case "unset":
		return "EUnset"
	}
	return "EError"
}

// resolveEnv gives the value one variable has when the container starts, the way the
// kubelet builds the environment: envFrom sources in order (a later source wins), then
// env entries (they win over envFrom; a later entry wins). A configMapKeyRef whose map
// or key is missing keeps the container from starting ("error").
func resolveEnv(cms map[string]map[string]string, c *v1.Container, name string) envVal {
	res := envVal{Kind: "unset"}
	for _, src := range c.EnvFrom {
		if src.ConfigMapRef == nil {
			continue
		}
		if d, ok := cms[src.ConfigMapRef.Name]; ok {
			if v, ok := d[name]; ok {
				res = envVal{Kind: "value", V: v}
			}
		}
	}
	for _, e := range c.Env {
		if e.Name != name {
			continue
		}
		if e.ValueFrom == nil || e.ValueFrom.ConfigMapKeyRef == nil {
			res = envVal{Kind: "value", V: e.Value}
			continue
		}
		ref := e.ValueFrom.ConfigMapKeyRef
		d, ok := cms[ref.Name]
		if !ok {
			res = envVal{Kind: "error"}
			continue
		}
		if v, ok := d[ref.Key]; ok {
			res = envVal{Kind: "value", V: v}
		} else {
			res = envVal{Kind: "error"}
		}
	}
	return res
}

type contEnv struct {
	Type    string `json:"type"`
	Index   int    `json:"index"`
	Name    string `json:"name"`
	Devices envVal `json:"NVIDIA_VISIBLE_DEVICES"`
	Portion envVal `json:"GPU_PORTION"`
}

func envOfAll(cms map[string]map[string]string, pod *v1.Pod) []contEnv {
	out := []contEnv{}
	for i := range pod.Spec.Containers {
		c := &pod.Spec.Containers[i]
		out = append(out, contEnv{"RegularC", i, c.Name, resolveEnv(cms, c, envNVD), resolveEnv(cms, c, envPortion)})
	}
	for i := range pod.Spec.InitContainers {
		c := &pod.Spec.InitContainers[i]
		out = append(out, contEnv{"InitC", i, c.Name, resolveEnv(cms, c, envNVD), resolveEnv(cms, c, envPortion)})
	}
	return out
}

func listMaps(cl client.Client, ns string) map[string]map[string]string {
	l := &v1.ConfigMapList{}
	_ = cl.List(context.Background(), l, client.InNamespace(ns))
	out := map[string]map[string]string{}
	for _, cm := range l.Items {
		d := map[string]string{}
		for k, v := range cm.Data {
			d[k] = v
		}
		out[cm.Name] = d
	}
	return out
}

// ---- one binder run ----------------------------------------------------------

type roundObs struct {
	Grant grant      `json:"grant"`
	Sched schedGrant `json:"scheduler_bind_request"`
	// the portion the selected container is told, parsed, against the portion the scheduler booked
	PortionVars  map[string]envVal            `json:"selected_container_portion_vars"`
	PortionExact bool                         `json:"portion_parses_to_accepted_portion"`
	PortionClose bool                         `json:"portion_within_half_a_hundredth"`
	Ok           bool                         `json:"prebind_ok"`
	Err          string                       `json:"prebind_error,omitempty"`
	Maps         map[string]map[string]string `json:"configMaps"`
	Env          []contEnv                    `json:"effective_env"`
	Labels       labelObs                     `json:"gpu_group_labels"`
}

// labelObs: the reservation service's part of the bind (reserveGPUs: one ReserveGpuDevice per selected GPU group, each
// ending in updatePodGPUGroup's label patch), and what the scheduler reads from the labelled pod afterwards.
type labelObs struct {
	Selected []string          `json:"selectedGPUGroups"` // of the scheduler's BindRequest
	Ok       bool              `json:"reserve_ok"`
	Err      string            `json:"reserve_error,omitempty"`
	Indexes  []string          `json:"reserved_indexes,omitempty"`
	Labels   map[string]string `json:"pod_labels_after_binding"` // as stored at the API server
	Reread   []string          `json:"scheduler_rereads_groups"` // NewTaskInfo on the labelled pod, sorted
}

type bindObs struct {
	RefOk    bool                         `json:"container_ref_ok"`
	RefType  string                       `json:"container_ref_type,omitempty"`
	RefIndex int                          `json:"container_ref_index"`
	RefName  string                       `json:"container_ref_name,omitempty"`
	Pre      map[string]map[string]string `json:"configMapsBefore,omitempty"`
	Rounds   []roundObs                   `json:"rounds"`
	// the number of devices: what the binder reads (resources.GetNumGPUFractionDevices / IsMultiFraction on the
	// pod it binds) next to what the scheduler interpreted (ResReq.GetNumOfGpuDevices)
	SchedDevices  int64  `json:"scheduler_devices"`
	BinderDevices int64  `json:"binder_devices"`
	BinderDevErr  string `json:"binder_devices_error,omitempty"` // "not-found" | "parse"
	IsMulti       bool   `json:"binder_is_multi_fraction"`
	IsMultiErr    bool   `json:"binder_is_multi_fraction_error,omitempty"`
}

const (
	resNS        = "kai-resource-reservation"
	gpuIndexAnn  = "run.ai/reserve_for_gpu_index"
	gpuGroupKey  = "runai-gpu-group"
	multiGroupPf = "runai-gpu-group/"
)

// labelPod runs the real reservation service for the BindRequest's selected groups on an API server (fake client)
// where the pod exists unbound and every group's reservation pod exists already and reports its device index.
func labelPod(pod *v1.Pod, groups []string, ids []string) (o labelObs) {
	o.Selected = append([]string{}, groups...)
	o.Labels = map[string]string{}
	o.Reread = []string{}
	defer func() {
		if rec := recover(); rec != nil {
			o.Ok, o.Err = false, fmt.Sprintf("panic: %v", rec)
		}
	}()
	stored := pod.DeepCopy()
	stored.TypeMeta = metav1.TypeMeta{Kind: "Pod", APIVersion: "v1"}
	stored.Status.Phase = v1.PodPending
	objs := []client.Object{stored}
	for i, g := range groups {
		idx := "0"
		if i < len(ids) {
			idx = ids[i]
		}
		objs = append(objs, &v1.Pod{
			TypeMeta: metav1.TypeMeta{Kind: "Pod", APIVersion: "v1"},
			ObjectMeta: metav1.ObjectMeta{Name: "gpu-reservation-" + nodeName + "-" + strconv.Itoa(i), Namespace: resNS,
				Labels: map[string]string{gpuGroupKey: g}, Annotations: map[string]string{gpuIndexAnn: idx}},
			Spec:   v1.PodSpec{NodeName: nodeName, Containers: []v1.Container{{Name: "reservation"}}},
			Status: v1.PodStatus{Phase: v1.PodRunning}})
	}
	cl := fake.NewClientBuilder().WithObjects(objs...).Build()
	svc := resourcereservation.NewService(false, cl, "reservation-image", 50*time.Millisecond, resNS,
		"reservation-sa", "kai-resource-reservation", "kai-scale-adjust", "", nil)
	ctx := context.Background()
	bound := pod.DeepCopy() // the binder works on one pod object for all groups (Binder.reserveGPUs)
	o.Ok = true
	for _, g := range groups {
		idx, err := svc.ReserveGpuDevice(ctx, bound, nodeName, g)
		if err != nil {
			o.Ok, o.Err = false, err.Error()
			break
		}
		o.Indexes = append(o.Indexes, idx)
	}
	after := &v1.Pod{}
	if err := cl.Get(ctx, client.ObjectKey{Namespace: pod.Namespace, Name: pod.Name}, after); err != nil {
		o.Ok, o.Err = false, "get pod: "+err.Error()
		return o
	}
	for k, v := range after.Labels {
		o.Labels[k] = v
	}
	ti := pod_info.NewTaskInfo(after, nil, resource_info.NewResourceVectorMap())
	o.Reread = append(o.Reread, ti.GPUGroups...)
	sort.Strings(o.Reread)
	return o
}

func (o labelObs) term() string {
	return fmt.Sprintf("{| l_groups := %s; l_ok := %s; l_labels := %s; l_reread := %s |}",
		u.ListOf(o.Selected, u.Str), u.Bool(o.Ok), dataTerm(o.Labels), u.ListOf(o.Reread, u.Str))
}

// binderDevices: resources.GetNumGPUFractionDevices and resources.IsMultiFraction on the pod the binder binds.
func binderDevices(pod *v1.Pod, o *bindObs) (ndevTerm, multiTerm string) {
	n, err := resources.GetNumGPUFractionDevices(pod.DeepCopy())
	switch {
	case err == nil:
		o.BinderDevices = n
		ndevTerm = "(NdOk " + u.Z(n) + ")"
	case strings.Contains(err.Error(), "annotation not found"):
		o.BinderDevErr, ndevTerm = "not-found", "NdNotFound"
	default:
		o.BinderDevErr, ndevTerm = "parse", "NdParseError"
	}
	m, merr := resources.IsMultiFraction(pod.DeepCopy())
	o.IsMulti, o.IsMultiErr = m, merr != nil
	multiTerm = u.Opt(merr == nil, u.Bool(m))
	return
}

func containerRef(pod *v1.Pod) (ref *gpusharingconfigmap.PodContainerRef, err error) {
	defer func() {
		if rec := recover(); rec != nil {
			ref, err = nil, fmt.Errorf("panic: %v", rec)
		}
	}()
	return bindercommon.GetFractionContainerRef(pod)
}

func preBind(pl *bindergpu.GPUSharing, pod *v1.Pod, br *v1alpha2.BindRequest, st *state.BindingState) (err error) {
	defer func() {
		if rec := recover(); rec != nil {
			err = fmt.Errorf("panic: %v", rec)
		}
	}()
	return pl.PreBind(context.Background(), pod, &v1.Node{ObjectMeta: metav1.ObjectMeta{Name: "node-1"}}, br, st)
}

// portionCheck parses what the selected container is told (GPU_PORTION, RUNAI_NUM_OF_GPUS) and compares it with
// the portion the scheduler booked for the pod on this node (AcceptedResource).
func portionCheck(cms map[string]map[string]string, c *v1.Container, accepted float64) (map[string]envVal, bool, bool) {
	vars := map[string]envVal{}
	exact, closeTo := true, true
	for _, name := range []string{envPortion, "RUNAI_NUM_OF_GPUS"} {
		ev := resolveEnv(cms, c, name)
		vars[name] = ev
		if ev.Kind != "value" {
			exact, closeTo = false, false
			continue
		}
		f, err := strconv.ParseFloat(ev.V, 64)
		if err != nil {
			exact, closeTo = false, false
			continue
		}
		if f != accepted {
			exact = false
		}
		if d := f - accepted; d > 0.005000001 || d < -0.005000001 {
			closeTo = false
		}
	}
	return vars, exact, closeTo
}

// runBinder drives the binder on pod (already admitted). devices: how many devices the scheduler read (the number
// of GPU groups it would select). Every grant is the BindRequest the real scheduler cache creates for the pod.
func runBinder(plan bindPlan, pod *v1.Pod, devices int64) (string, bindObs) {
	quietLogs()
	o := bindObs{}
	ref, rerr := containerRef(pod.DeepCopy())
	refTerm := "None"
	if rerr == nil && ref != nil && ref.Container != nil {
		o.RefOk, o.RefIndex, o.RefName = true, ref.Index, ref.Container.Name
		o.RefType = "RegularC"
		if ref.Type == gpusharingconfigmap.InitContainer {
			o.RefType = "InitC"
		}
		refTerm = u.Opt(true, u.Tuple(o.RefType, u.Nat(ref.Index), u.Str(ref.Container.Name)))
	}

	// config maps that exist already; all owned by the pod (UpsertJobConfigMap keeps their data)
	pre := map[string]map[string]string{}
	for n, d := range plan.PreOther {
		pre[n] = d
	}
	if o.RefOk {
		if capName, err := gpusharingconfigmap.ExtractCapabilitiesConfigMapName(pod, ref); err == nil {
			if plan.PreCap != nil {
				pre[capName] = plan.PreCap
			}
			if plan.PreEvar != nil {
				pre[capName+"-evar"] = plan.PreEvar
			}
		}
	}
	objs := []client.Object{}
	for n, d := range pre {
		data := map[string]string{}
		for k, v := range d {
			data[k] = v
		}
		objs = append(objs, &v1.ConfigMap{
			TypeMeta: metav1.TypeMeta{Kind: "ConfigMap", APIVersion: "v1"},
			ObjectMeta: metav1.ObjectMeta{Name: n, Namespace: pod.Namespace, OwnerReferences: []metav1.OwnerReference{
				{APIVersion: "v1", Kind: "Pod", Name: pod.Name, UID: pod.UID}}},
			Data: data})
	}
	cl := fake.NewClientBuilder().WithObjects(objs...).Build()
	o.Pre = listMaps(cl, pod.Namespace)

	o.SchedDevices = devices
	ndevTerm, multiTerm := binderDevices(pod, &o)

	roundTerms := []string{}
	for _, g := range plan.Rounds {
		// as many GPU groups as the scheduler read devices (the node has 8 GPUs)
		n := len(g.Ids)
		if devices < int64(n) {
			n = int(devices)
		}
		if n < 1 {
			n = 1
		}
		g.Ids = g.Ids[:n]
		if g.NodeGpuMemory == 0 {
			g.NodeGpuMemory = 16384
		}
		groups := []string{}
		for i := range g.Ids {
			groups = append(groups, "group-"+strconv.Itoa(i))
		}
		sg := schedulerGrant(pod, g.NodeGpuMemory, groups)
		g.Portion = sg.Portion
		ro := roundObs{Grant: g, Sched: sg}
		if sg.Ok {
			err := preBind(bindergpu.New(cl, g.Cdi), pod.DeepCopy(), sg.br, &state.BindingState{ReservedGPUIds: append([]string{}, g.Ids...)})
			ro.Ok = err == nil
			if err != nil {
				ro.Err = err.Error()
			}
		} else {
			ro.Err = "scheduler: " + sg.Err
		}
		ro.Maps = listMaps(cl, pod.Namespace)
		if o.RefOk {
			var sel *v1.Container
			if o.RefType == "InitC" && o.RefIndex < len(pod.Spec.InitContainers) {
				sel = &pod.Spec.InitContainers[o.RefIndex]
			} else if o.RefType == "RegularC" && o.RefIndex < len(pod.Spec.Containers) {
				sel = &pod.Spec.Containers[o.RefIndex]
			}
			if sel != nil {
				ro.PortionVars, ro.PortionExact, ro.PortionClose = portionCheck(ro.Maps, sel, sg.AcceptedPortion)
			}
		}
		ro.Env = envOfAll(ro.Maps, pod)
		selected := groups
		if sg.Ok {
			selected = sg.Groups
		}
		ro.Labels = labelPod(pod, selected, g.Ids)
		o.Rounds = append(o.Rounds, ro)
		roundTerms = append(roundTerms, fmt.Sprintf(
			"{| r_cdi := %s; r_ids := %s; r_portion := %s; r_accepted := %s; r_exact := %s; r_close := %s; r_ok := %s; r_maps := %s; r_env := %s; r_lab := %s |}",
			u.Bool(g.Cdi), u.ListOf(g.Ids, u.Str), u.Str(g.Portion), u.N(math.Float64bits(sg.AcceptedPortion)),
			u.Bool(ro.PortionExact), u.Bool(ro.PortionClose), u.Bool(ro.Ok), storeTerm(ro.Maps),
			u.ListOf(ro.Env, func(e contEnv) string {
				return u.Tuple(e.Type, u.Nat(e.Index), e.Devices.term(), e.Portion.term())
			}), ro.Labels.term()))
	}
	term := fmt.Sprintf("{| b_ref := %s; b_pre := %s; b_rounds := %s; b_sched_devices := %s; b_ndev := %s; b_multi := %s |}",
		refTerm, storeTerm(o.Pre), u.List(roundTerms), u.Z(devices), ndevTerm, multiTerm)
	return term, o
}
