// Package c19 drives the three readers of a pod's GPU request (admission
// validation + mutation, scheduler interpretation) on generated pods and
// emits the observations as Coq cases for Run/C19.v.
package c19

import (
	"context"
	"encoding/json"
	"os"

	"fmt"
	admplugins "github.com/NVIDIA/KAI-scheduler/pkg/admission/plugins"
	"github.com/NVIDIA/KAI-scheduler/pkg/admission/webhook/v1alpha2/podhooks"
	"math"
	"reflect"
	"strconv"
	"strings"
	"sync"

	v1 "k8s.io/api/core/v1"
	"k8s.io/apimachinery/pkg/api/resource"
	metav1 "k8s.io/apimachinery/pkg/apis/meta/v1"

	admgpu "github.com/NVIDIA/KAI-scheduler/pkg/admission/webhook/v1alpha2/gpusharing"
	gpurequesthandler "github.com/NVIDIA/KAI-scheduler/pkg/binder/plugins/gpusharing/gpu-request"
	"github.com/NVIDIA/KAI-scheduler/pkg/common/resources"
	"github.com/NVIDIA/KAI-scheduler/pkg/scheduler/api/pod_info"
	"github.com/NVIDIA/KAI-scheduler/pkg/scheduler/api/resource_info"

	u "kaiverif/internal/util"
)

const gpuRes = "nvidia.com/gpu"

type cont struct {
	Name     string            `json:"name"`
	Req, Lim *int64            `json:"-"`
	ReqS     string            `json:"req,omitempty"`
	LimS     string            `json:"lim,omitempty"`
	Env      [][2]string       `json:"env,omitempty"`
	EnvFrom  []string          `json:"envFrom,omitempty"`
	_        map[string]string `json:"-"`
}

type podSpec struct {
	Ann        map[string]string `json:"annotations"`
	Name       string            `json:"name"`
	Containers []cont            `json:"containers"`
	Inits      []cont            `json:"initContainers,omitempty"`
	Volumes    [][2]string       `json:"volumes,omitempty"`
	Enabled    bool              `json:"gpuSharingEnabled"`
	Bind       bindPlan          `json:"binder"`
}

// ---- generators ------------------------------------------------------------

var floatCorpus = []string{
	"0.5", "0.25", "0.1", "0.33", "0.99", "0.01", "1", "1.0", "0", "0.0", "-0", "-0.5", "2", "1.5",
	"NaN", "nan", "+NaN", "-nan", "Inf", "+Inf", "-Inf", "inf", "infinity", "Infinity",
	"1e-1", "5e-1", "1E-2", "1e0", "1e1", "1e400", "-1e400", "1e-400", "4.9e-324", "2.2250738585072014e-308",
	"0x1p-1", "0x1p-2", "0x1.8p-1", "0X1P-1", "0x1p0", "0x.8p0", "0x1p-1080",
	"", " ", " 0.5", "0.5 ", "0,5", ".5", "5.", "+0.5", "0.5f", "0_5", "0.5e", "1/2", "½", "0.5\n", "\t0.5",
	"0.9999999999999999", "0.99999999999999999", "1.0000000000000002", "0.999999999999999944488848768742172978818416595458984375",
	"9223372036854775807", "18446744073709551616", "1e-320", "0.000000000000000000000000000001",
}

var intCorpus = []string{
	"1", "2", "3", "8", "16", "100", "1024", "4096", "40000", "0", "00", "01", "007", "-1", "-0", "+1", "+0", "+5",
	"9223372036854775807", "9223372036854775808", "9223372036854775809", "18446744073709551615",
	"18446744073709551616", "99999999999999999999", "-9223372036854775808", "-9223372036854775809",
	"", " ", " 1", "1 ", "1.0", "1e3", "0x10", "1_000", "one", "NaN", "1\n", "١", "2.5", "--1", "+-1", "+",
	"-", "12a", "a12",
}

func genFloatStr(r *u.Rng) string {
	switch r.Intn(10) {
	case 0, 1, 2, 3:
		return u.Pick(r, floatCorpus)
	case 4, 5: // plain decimal in (0,1)
		return fmt.Sprintf("0.%d", r.Range(1, 99))
	case 6: // random decimal with exponent
		return fmt.Sprintf("%d.%de%d", r.Intn(3), r.Intn(1000), r.Range(-3, 2))
	case 7: // hex float
		return fmt.Sprintf("0x%xp%d", r.Range(1, 15), r.Range(-6, 1))
	case 8: // mutate a corpus string
		s := u.Pick(r, floatCorpus)
		return mutateStr(r, s)
	default: // from bits
		bits := r.U64()
		if r.Bool() {
			bits = 0x3FE0000000000000 + uint64(r.Intn(1<<20))<<32
		}
		return strconv.FormatFloat(math.Float64frombits(bits), 'g', -1, 64)
	}
}

func genIntStr(r *u.Rng) string {
	switch r.Intn(8) {
	case 0, 1, 2:
		return u.Pick(r, intCorpus)
	case 3, 4:
		return strconv.Itoa(r.Range(1, 64))
	case 5:
		return strconv.FormatUint(r.U64(), 10)
	case 6:
		return mutateStr(r, u.Pick(r, intCorpus))
	default:
		return strconv.FormatInt(int64(r.U64()), 10)
	}
}

const alphabet = "0123456789+-.eExXpPnNaAiIfF _\n"

func mutateStr(r *u.Rng, s string) string {
	b := []byte(s)
	switch r.Intn(4) {
	case 0:
		if len(b) > 0 {
			i := r.Intn(len(b))
			b = append(b[:i], b[i+1:]...)
		}
	case 1:
		i := r.Intn(len(b) + 1)
		c := alphabet[r.Intn(len(alphabet))]
		b = append(b[:i], append([]byte{c}, b[i:]...)...)
	case 2:
		if len(b) > 0 {
			b[r.Intn(len(b))] = alphabet[r.Intn(len(alphabet))]
		}
	default:
		b = append(b, b...)
	}
	return string(b)
}

func genCont(r *u.Rng, name string, wholeGPU bool, normalised bool) cont {
	c := cont{Name: name}
	if wholeGPU {
		v := int64(r.Range(0, 4))
		if r.Chance(1, 8) {
			v = 0
		}
		lim := v
		c.Lim = &lim
		if normalised {
			req := v
			c.Req = &req
		} else {
			switch r.Intn(3) {
			case 0:
				req := int64(r.Range(0, 4))
				c.Req = &req
			case 1:
				c.Req = nil
			default:
				req := v
				c.Req = &req
				c.Lim = nil
			}
		}
	}
	// pre-existing env / envFrom entries (some colliding with what Mutate adds)
	for i, n := 0, r.Intn(3); i < n; i++ {
		c.Env = append(c.Env, [2]string{u.Pick(r, []string{"FOO", "BAR", "NVIDIA_VISIBLE_DEVICES", "GPU_PORTION", "RUNAI_NUM_OF_GPUS", "PATH"}), u.Pick(r, []string{"", "cm-a", "pfx-0"})})
	}
	for i, n := 0, r.Intn(2); i < n; i++ {
		c.EnvFrom = append(c.EnvFrom, u.Pick(r, []string{"other", "pfx-0-evar", "pfx-i0-evar"}))
	}
	return c
}

// genPod draws one pod. kind: 0 structured mostly-valid, 1 malformed stream.
func genPod(r *u.Rng, malformed bool) podSpec {
	p := podSpec{Ann: map[string]string{}, Name: u.Pick(r, []string{"pod", "a-rather-long-pod-name-that-needs-truncation-for-config-map-volumes"})}
	p.Enabled = !r.Chance(1, 5)
	shape := r.Intn(10) // 0-3 fraction, 4-5 memory, 6-7 whole, 8 cpu only, 9 mixed/conflicting
	frac := func() string {
		if malformed || r.Chance(1, 4) {
			return genFloatStr(r)
		}
		switch r.Intn(5) {
		case 0: // more than two decimals: the grant has to carry them to the container
			return u.Pick(r, []string{"0.001", "0.004", "0.005", "0.125", "0.333", "0.375", "0.0625", "0.995", "0.999", "0.666", "0.015", "0.3333333333333333"})
		case 1:
			return fmt.Sprintf("0.%03d", r.Range(1, 999))
		}
		return u.Pick(r, []string{"0.5", "0.25", "0.1", "0.33", "0.75", "0.05", "0.99", "1e-1", "0x1p-1"})
	}
	mem := func() string {
		if malformed || r.Chance(1, 4) {
			return genIntStr(r)
		}
		return strconv.Itoa(r.Range(1, 40000))
	}
	ndev := func() string {
		if malformed || r.Chance(1, 4) {
			return genIntStr(r)
		}
		return strconv.Itoa(r.Range(1, 8))
	}
	whole := false
	switch {
	case shape <= 3:
		p.Ann["gpu-fraction"] = frac()
		if r.Chance(1, 2) {
			p.Ann["gpu-fraction-num-devices"] = ndev()
		}
	case shape <= 5:
		// a gpu-memory request over several devices has no gpu-fraction annotation (seeded/C19-5)
		p.Ann["gpu-memory"] = mem()
		if r.Chance(3, 5) {
			p.Ann["gpu-fraction-num-devices"] = ndev()
		}
	case shape <= 7:
		whole = true
	case shape == 8:
	default:
		if r.Bool() {
			p.Ann["gpu-fraction"] = frac()
		}
		if r.Bool() {
			p.Ann["gpu-memory"] = mem()
		}
		if r.Bool() {
			p.Ann["gpu-fraction-num-devices"] = ndev()
		}
		whole = r.Bool()
	}
	if r.Chance(1, 6) {
		p.Ann["mps"] = u.Pick(r, []string{"true", "false", "True", ""})
	}
	nc := r.Range(1, 3)
	if malformed && r.Chance(1, 12) {
		nc = 0
	}
	normalised := !r.Chance(1, 6)
	// where the whole-GPU request sits: on the first container (usual), only on an init container, or anywhere
	placement := r.Intn(4)
	ninit := r.Intn(3)
	if whole && placement == 1 && ninit == 0 {
		ninit = 1
	}
	// container names: c<i> / i<i>; sometimes one name is shared by an init and a regular container (the
	// API server would refuse that, the resolver has to take the init container), rarely a container has no name
	cname := func(i int) string { return fmt.Sprintf("c%d", i) }
	iname := func(i int) string { return fmt.Sprintf("i%d", i) }
	dupName := ""
	if ninit > 0 && r.Chance(1, 5) {
		dupName = "shared"
		di, dc := r.Intn(ninit), r.Intn(max(nc, 1))
		iname = func(i int) string {
			if i == di {
				return dupName
			}
			return fmt.Sprintf("i%d", i)
		}
		cname = func(i int) string {
			if i == dc {
				return dupName
			}
			return fmt.Sprintf("c%d", i)
		}
	}
	noName := -1
	if r.Chance(1, 25) {
		noName = r.Intn(nc + ninit + 1)
	}
	for i := 0; i < nc; i++ {
		onThis := whole && ((placement != 1 && i == 0) || (placement >= 2 && r.Bool()))
		n := cname(i)
		if noName == i {
			n = ""
		}
		p.Containers = append(p.Containers, genCont(r, n, onThis, normalised))
	}
	for i := 0; i < ninit; i++ {
		onThis := whole && ((placement == 1 && i == 0) || (placement != 0 && r.Chance(1, 3)))
		n := iname(i)
		if noName == nc+i {
			n = ""
		}
		p.Inits = append(p.Inits, genCont(r, n, onThis, normalised))
	}
	// per-container selection: on half of the sharing pods (and a few others) the fraction container is named:
	// a regular container, an init container, a name carried by both, a name nobody carries, the empty name
	_, hasF := p.Ann["gpu-fraction"]
	_, hasM := p.Ann["gpu-memory"]
	if ((hasF || hasM) && r.Bool()) || r.Chance(1, 8) {
		k := r.Intn(100)
		name := ""
		switch {
		case k < 33 && nc > 0:
			name = p.Containers[r.Intn(nc)].Name
		case k < 68 && ninit > 0:
			name = p.Inits[r.Intn(ninit)].Name
		case k < 78 && dupName != "":
			name = dupName
		case k < 88:
			name = u.Pick(r, []string{"nope", "c9", "i7", "C0", "c0 "})
		case k < 94:
			name = ""
		case nc > 0:
			name = p.Containers[nc-1].Name
		}
		p.Ann["gpu-fraction-container-name"] = name
	}
	p.Bind = genBindPlan(r)
	if r.Chance(1, 4) {
		p.Ann["runai/shared-gpu-configmap"] = u.Pick(r, []string{"pfx", "x-abc1234-shared-gpu"})
	}
	for i, n := 0, r.Intn(2); i < n; i++ {
		p.Volumes = append(p.Volumes, [2]string{u.Pick(r, []string{"data", "pfx-0-vol", "pfx-i0-vol"}), u.Pick(r, []string{"", "pfx-0", "zzz"})})
	}
	return p
}

// ---- building the real objects ---------------------------------------------

func toK8sCont(c cont) v1.Container {
	k := v1.Container{Name: c.Name}
	if c.Req != nil {
		k.Resources.Requests = v1.ResourceList{gpuRes: *resource.NewQuantity(*c.Req, resource.DecimalSI)}
	}
	if c.Lim != nil {
		k.Resources.Limits = v1.ResourceList{gpuRes: *resource.NewQuantity(*c.Lim, resource.DecimalSI)}
	}
	for _, e := range c.Env {
		ev := v1.EnvVar{Name: e[0]}
		if e[1] != "" {
			ev.ValueFrom = &v1.EnvVarSource{ConfigMapKeyRef: &v1.ConfigMapKeySelector{
				Key: e[0], LocalObjectReference: v1.LocalObjectReference{Name: e[1]}}}
		}
		k.Env = append(k.Env, ev)
	}
	for _, e := range c.EnvFrom {
		k.EnvFrom = append(k.EnvFrom, v1.EnvFromSource{ConfigMapRef: &v1.ConfigMapEnvSource{
			LocalObjectReference: v1.LocalObjectReference{Name: e}}})
	}
	return k
}

func toK8s(p podSpec) *v1.Pod {
	pod := &v1.Pod{ObjectMeta: metav1.ObjectMeta{Name: p.Name, Namespace: "ns", UID: "uid-1", Annotations: map[string]string{}}}
	for k, v := range p.Ann {
		pod.Annotations[k] = v
	}
	for _, c := range p.Containers {
		pod.Spec.Containers = append(pod.Spec.Containers, toK8sCont(c))
	}
	for _, c := range p.Inits {
		pod.Spec.InitContainers = append(pod.Spec.InitContainers, toK8sCont(c))
	}
	for _, v := range p.Volumes {
		vol := v1.Volume{Name: v[0]}
		if v[1] != "" {
			vol.VolumeSource.ConfigMap = &v1.ConfigMapVolumeSource{LocalObjectReference: v1.LocalObjectReference{Name: v[1]}}
		}
		pod.Spec.Volumes = append(pod.Spec.Volumes, vol)
	}
	return pod
}

// ---- projection to Coq -----------------------------------------------------

func optStr(m map[string]string, k string) string {
	v, ok := m[k]
	return u.Opt(ok, u.Str(v))
}

func optQ(rl v1.ResourceList) string {
	q, ok := rl[gpuRes]
	if !ok {
		return "None"
	}
	return u.Opt(true, u.Z(q.Value()))
}

func contTerm(c v1.Container) string {
	env := []string{}
	for _, e := range c.Env {
		ref := ""
		if e.ValueFrom != nil && e.ValueFrom.ConfigMapKeyRef != nil {
			ref = e.ValueFrom.ConfigMapKeyRef.Name
		}
		env = append(env, u.Pair(u.Str(e.Name), u.Str(ref)))
	}
	ef := []string{}
	for _, e := range c.EnvFrom {
		n := ""
		if e.ConfigMapRef != nil {
			n = e.ConfigMapRef.Name
		}
		ef = append(ef, u.Str(n))
	}
	return fmt.Sprintf("{| c_name := %s; c_gpu_req := %s; c_gpu_lim := %s; c_env := %s; c_envfrom := %s |}",
		u.Str(c.Name), optQ(c.Resources.Requests), optQ(c.Resources.Limits), u.List(env), u.List(ef))
}

func podTerm(pod *v1.Pod) string {
	cs := []string{}
	for _, c := range pod.Spec.Containers {
		cs = append(cs, contTerm(c))
	}
	is := []string{}
	for _, c := range pod.Spec.InitContainers {
		is = append(is, contTerm(c))
	}
	vs := []string{}
	for _, v := range pod.Spec.Volumes {
		cm := ""
		if v.ConfigMap != nil {
			cm = v.ConfigMap.Name
		}
		vs = append(vs, u.Pair(u.Str(v.Name), u.Str(cm)))
	}
	a := pod.Annotations
	return fmt.Sprintf("{| a_fraction := %s; a_memory := %s; a_numdev := %s; a_mps := %s; a_cname := %s; a_cm := %s; p_name := %s; containers := %s; inits := %s; volumes := %s |}",
		optStr(a, "gpu-fraction"), optStr(a, "gpu-memory"), optStr(a, "gpu-fraction-num-devices"), optStr(a, "mps"),
		optStr(a, "gpu-fraction-container-name"), optStr(a, "runai/shared-gpu-configmap"), u.Str(pod.Name),
		u.List(cs), u.List(is), u.List(vs))
}

type obs struct {
	Valid   bool   `json:"admission_accepts"`
	Type    string `json:"scheduler_type"`
	Count   int64  `json:"devices"`
	Portion string `json:"portion"`
	Memory  int64  `json:"memory"`
	Idem    bool   `json:"mutate_idempotent"`
	PfBits  uint64 `json:"parsefloat_bits"`
	PfErr   bool   `json:"parsefloat_err"`

	MutateOk    bool     `json:"mutate_ok"`
	BinderValid bool     `json:"binder_validate_accepts"`
	Selection   string   `json:"fraction_container"` // how the pod selects its fraction container
	Binder      *bindObs `json:"binder,omitempty"`   // on the mutated pod
	Legacy      *bindObs `json:"binder_on_unmutated_pod,omitempty"`
}

// selectionClass says how the pod names its fraction container (for the distribution in the evidence).
func selectionClass(p podSpec) string {
	name, ok := p.Ann["gpu-fraction-container-name"]
	if !ok {
		return "default(first regular)"
	}
	inInit, inReg, regIdx := false, false, -1
	for _, c := range p.Inits {
		if c.Name == name {
			inInit = true
		}
	}
	for i, c := range p.Containers {
		if c.Name == name && !inReg {
			inReg, regIdx = true, i
		}
	}
	cls := ""
	switch {
	case inInit && inReg:
		cls = "named: init and regular container share the name (init wins)"
	case inInit:
		cls = "named: init container"
	case inReg && regIdx == 0:
		cls = "named: regular container 0"
	case inReg:
		cls = "named: regular container >0"
	default:
		cls = "named: no such container"
	}
	if name == "" {
		cls += " [empty name]"
	}
	return cls
}

// Eval runs the real code on one pod and returns the Coq case term.
func Eval(p podSpec) (string, obs) {
	pod := toK8s(p)
	before := podTerm(pod)

	plugin := admgpu.New(nil, p.Enabled)
	verr := plugin.Validate(pod.DeepCopy())

	// the webhook's own entry points (podhooks.PodValidator over the plugin registry): creation, and an UPDATE of an
	// already admitted pod that leaves the spec alone and only brings these annotations (the scheduler re-reads the
	// annotations at every snapshot, so an update must be validated like a creation)
	reg := admplugins.New()
	reg.RegisterPlugin(plugin)
	pv := podhooks.NewPodValidator(nil, reg, "kai-scheduler")
	wp := pod.DeepCopy()
	wp.Spec.SchedulerName = "kai-scheduler"
	_, cerr := pv.ValidateCreate(context.Background(), wp.DeepCopy())
	oldValid := wp.DeepCopy()
	oldValid.Annotations = map[string]string{}
	if p.Enabled {
		oldValid.Annotations["gpu-fraction"] = "0.5"
	}
	oldNone := wp.DeepCopy()
	oldNone.Annotations = map[string]string{}
	_, u1err := pv.ValidateUpdate(context.Background(), oldValid, wp.DeepCopy())
	_, u2err := pv.ValidateUpdate(context.Background(), oldNone, wp.DeepCopy())
	hooks := u.List([]string{u.Bool(cerr == nil), u.Bool(u1err == nil), u.Bool(u2err == nil)})

	ti := pod_info.NewTaskInfo(pod.DeepCopy(), nil, resource_info.NewResourceVectorMap())
	g := ti.ResReq.GpuResourceRequirement
	rt := "Regular"
	switch ti.ResourceRequestType {
	case pod_info.RequestTypeFraction:
		rt = "Fraction"
	case pod_info.RequestTypeGpuMemory:
		rt = "GpuMemory"
	case pod_info.RequestTypeRegular:
		rt = "Regular"
	default:
		rt = "Regular"
	}

	fs := pod.Annotations["gpu-fraction"]
	f, ferr := strconv.ParseFloat(fs, 64)

	m1 := pod.DeepCopy()
	idem := true
	merr := plugin.Mutate(m1)
	m2 := m1.DeepCopy()
	_ = plugin.Mutate(m2)
	idem = reflect.DeepEqual(m1, m2)

	o := obs{Valid: verr == nil, Type: rt, Count: g.GetNumOfGpuDevices(),
		Portion: strconv.FormatFloat(g.GpuFractionalPortion(), 'g', -1, 64), Memory: g.GpuMemory(),
		Idem: idem, PfBits: math.Float64bits(f), PfErr: ferr != nil}

	// the binder's side, on the pod as admission leaves it
	o.MutateOk = merr == nil
	o.BinderValid = gpurequesthandler.ValidateGpuRequests(m1.DeepCopy()) == nil
	o.Selection = selectionClass(p)
	bindTerm, legacyTerm := "None", "None"
	if verr == nil && merr == nil && resources.RequestsGPUFraction(pod) && len(pod.Spec.Containers) > 0 {
		plan := p.Bind
		if len(plan.Rounds) == 0 {
			plan.Rounds = []grant{{Ids: []string{"3", "1", "0", "2"}}}
		}
		bt, bo := runBinder(plan, m1, g.GetNumOfGpuDevices())
		bindTerm, o.Binder = "(Some "+bt+")", &bo
		if plan.Legacy {
			// a pod admitted before the webhook wired its containers: only the config-map annotation is there
			lp := pod.DeepCopy()
			lp.Annotations[cmAnn] = m1.Annotations[cmAnn]
			lplan := plan
			lplan.Rounds = plan.Rounds[:1]
			lt, lo := runBinder(lplan, lp, g.GetNumOfGpuDevices())
			legacyTerm, o.Legacy = "(Some ("+podTerm(lp)+", "+lt+"))", &lo
		}
	}

	term := fmt.Sprintf("{| k_enabled := %s; k_pod := %s; k_pf := {| pf_bits := %s; pf_err := %s |}; k_valid := %s; k_req := {| g_type := %s; g_count := %s; g_portion := %s; g_memory := %s |}; k_mut := %s; k_idem := %s; k_hooks := %s; k_mut_ok := %s; k_bvalid := %s; k_bind := %s; k_legacy := %s |}",
		u.Bool(p.Enabled), before, u.N(o.PfBits), u.Bool(o.PfErr), u.Bool(o.Valid),
		rt, u.Z(o.Count), u.N(math.Float64bits(g.GpuFractionalPortion())), u.Z(o.Memory), podTerm(m1), u.Bool(idem), hooks,
		u.Bool(o.MutateOk), u.Bool(o.BinderValid), bindTerm, legacyTerm)
	return term, o
}

func fix(p *podSpec) {
	for i := range p.Containers {
		fixc(&p.Containers[i])
	}
	for i := range p.Inits {
		fixc(&p.Inits[i])
	}
}
func unfix(p *podSpec) {
	un := func(c *cont) {
		if v, err := strconv.ParseInt(c.ReqS, 10, 64); err == nil && c.ReqS != "" {
			c.Req = &v
		}
		if v, err := strconv.ParseInt(c.LimS, 10, 64); err == nil && c.LimS != "" {
			c.Lim = &v
		}
	}
	for i := range p.Containers {
		un(&p.Containers[i])
	}
	for i := range p.Inits {
		un(&p.Inits[i])
	}
}
func fixc(c *cont) {
	if c.Req != nil {
		c.ReqS = strconv.FormatInt(*c.Req, 10)
	}
	if c.Lim != nil {
		c.LimS = strconv.FormatInt(*c.Lim, 10)
	}
}

// Corpus: minimised past failures and boundary cases, always run first.
func corpus() []podSpec {
	mk := func(ann map[string]string, enabled bool) podSpec {
		return podSpec{Ann: ann, Name: "pod", Enabled: enabled, Containers: []cont{{Name: "c0"}}}
	}
	out := []podSpec{}
	for _, s := range []string{"NaN", "nan", "-NaN", "+Inf", "1", "0.9999999999999999", "0.99999999999999999", "0", "-0", "4.9e-324", "1e-400", "0x1p-1"} {
		out = append(out, mk(map[string]string{"gpu-fraction": s}, true))
		out = append(out, mk(map[string]string{"gpu-fraction": s, "gpu-fraction-num-devices": "2"}, true))
	}
	for _, s := range []string{"9223372036854775807", "9223372036854775808", "18446744073709551615", "18446744073709551616", "0", "+1", "-1", "01"} {
		out = append(out, mk(map[string]string{"gpu-memory": s}, true))
		out = append(out, mk(map[string]string{"gpu-fraction": "0.5", "gpu-fraction-num-devices": s}, true))
		out = append(out, mk(map[string]string{"gpu-memory": "1024", "gpu-fraction-num-devices": s}, true))
	}
	// both sharing annotations at once (rejected by admission): the scheduler keeps the value ParseInt returned for
	// gpu-memory, error or not (nearest bound on a range error, 0 on a syntax error), in a multi-fraction request
	for _, s := range []string{"9223372036854775808", "18446744073709551615", "99999999999999999999", "-9223372036854775809", "abc", "", "12x", "1024"} {
		out = append(out, mk(map[string]string{"gpu-fraction": "0.5", "gpu-memory": s, "gpu-fraction-num-devices": "3"}, true))
		out = append(out, mk(map[string]string{"gpu-fraction": "0.5", "gpu-memory": s}, true))
	}
	// a whole-GPU limit that sits only on an init container / only on a sidecar
	one := int64(1)
	for _, ann := range []map[string]string{{"gpu-fraction": "0.5"}, {"gpu-memory": "1024"}, {"gpu-fraction": "0.5", "gpu-fraction-num-devices": "2"}} {
		p := mk(ann, true)
		p.Inits = []cont{{Name: "i0", Req: &one, Lim: &one}}
		out = append(out, p)
		q := mk(ann, true)
		q.Containers = append(q.Containers, cont{Name: "c1", Req: &one, Lim: &one})
		out = append(out, q)
	}
	out = append(out, mk(map[string]string{"gpu-fraction": "0.5"}, false))
	out = append(out, mk(map[string]string{"gpu-memory": "100"}, false))
	// fractions with more than two decimals: what the selected container is told must still be the request
	for _, f := range []string{"0.001", "0.004", "0.005", "0.125", "0.333", "0.995", "0.999", "0.9999999999999999", "0.25", "0.07"} {
		q := mk(map[string]string{"gpu-fraction": f}, true)
		q.Bind = bindPlan{Rounds: []grant{{Ids: []string{"0", "1", "2", "3"}, NodeGpuMemory: 16384}}}
		out = append(out, q)
	}
	for _, m := range []string{"1", "100", "4096", "5000", "16384", "20000"} {
		q := mk(map[string]string{"gpu-memory": m}, true)
		q.Bind = bindPlan{Rounds: []grant{{Ids: []string{"0", "1", "2", "3"}, NodeGpuMemory: 16384}, {Ids: []string{"1", "0", "2", "3"}, NodeGpuMemory: 24576}}}
		out = append(out, q)
	}
	// per-container selection (seeded/C19-4): the fraction container is named; regular, init, a name carried by an
	// init and a regular container, nobody's name, the empty name; fraction and gpu-memory; a retry with another grant
	for _, name := range []string{"trainer", "warmup", "fetch-data", "sidecar", "shared", "nope", ""} {
		for _, ann := range []map[string]string{{"gpu-fraction": "0.5"}, {"gpu-memory": "4096", "gpu-fraction-num-devices": "2"}} {
			a := map[string]string{"gpu-fraction-container-name": name}
			for k, v := range ann {
				a[k] = v
			}
			q := podSpec{Ann: a, Name: "train", Enabled: true,
				Containers: []cont{{Name: "sidecar"}, {Name: "trainer"}, {Name: "shared"}},
				Inits:      []cont{{Name: "fetch-data"}, {Name: "warmup"}, {Name: "shared"}}}
			q.Bind = bindPlan{Legacy: true,
				Rounds: []grant{{Ids: []string{"3", "5", "0", "1"}, NodeGpuMemory: 16384}, {Cdi: true, Ids: []string{"2", "0", "4", "6"}, NodeGpuMemory: 40960}}}
			out = append(out, q)
		}
	}
	// the number of devices (seeded/C19-5): the README pod (gpu-memory 2000 on 2 devices) and its controls; the binder
	// has to label the pod once per selected GPU group
	for _, ann := range []map[string]string{
		{"gpu-memory": "2000", "gpu-fraction-num-devices": "2"}, {"gpu-fraction": "0.2", "gpu-fraction-num-devices": "2"},
		{"gpu-memory": "2000"}, {"gpu-memory": "2000", "gpu-fraction-num-devices": "1"}, {"gpu-fraction": "0.2", "gpu-fraction-num-devices": "1"},
		{"gpu-memory": "512", "gpu-fraction-num-devices": "8"}, {"gpu-fraction": "0.5", "gpu-fraction-num-devices": "3"},
		{"gpu-memory": "2000", "gpu-fraction-num-devices": "+2"}, {"gpu-memory": "2000", "gpu-fraction-num-devices": "02"}} {
		q := podSpec{Ann: ann, Name: "trainer", Enabled: true, Containers: []cont{{Name: "main"}}}
		q.Bind = bindPlan{Legacy: true, Rounds: []grant{{Ids: []string{"0", "1", "2", "3", "4", "5", "6", "7"}, NodeGpuMemory: 16384},
			{Ids: []string{"5", "2", "7", "0", "1", "3", "4", "6"}, NodeGpuMemory: 40960}}}
		out = append(out, q)
	}
	return out
}

// Run generates n cases from seed and writes them under dir.
func Run(dir string, seed uint64, n int) error {
	out := u.NewOut(dir, "C19", "KaiV.Run.C19", "case", 100)
	out.Flags = true
	root := u.NewRng(seed)
	quietLogs()
	// the real code runs on 8 goroutines (every pod is evaluated on its own objects and its own fake client);
	// cases are registered in generation order, so the output does not depend on the scheduling
	type job struct {
		p      podSpec
		origin string
		term   string
		o      obs
	}
	jobs := []*job{}
	emit := func(p podSpec, origin string) {
		fix(&p)
		jobs = append(jobs, &job{p: p, origin: origin})
	}
	register := func(j *job) {
		p, origin, term, o := j.p, j.origin, j.term, j.o
		names := func(cs []cont) []string {
			ns := []string{}
			for _, c := range cs {
				ns = append(ns, c.Name)
			}
			return ns
		}
		label := fmt.Sprintf("%s ann=%q enabled=%v containers=%d inits=%d names=%q init_names=%q", origin, p.Ann, p.Enabled,
			len(p.Containers), len(p.Inits), names(p.Containers), names(p.Inits))
		if o.Binder != nil {
			label += fmt.Sprintf(" binder: selected=%s#%d(%q) devices{scheduler=%d binder=%d%s multi=%v}", o.Binder.RefType, o.Binder.RefIndex, o.Binder.RefName,
				o.Binder.SchedDevices, o.Binder.BinderDevices, o.Binder.BinderDevErr, o.Binder.IsMulti)
			for _, ro := range o.Binder.Rounds {
				label += fmt.Sprintf(" labels{selected=%q labels=%q reread=%q}", ro.Labels.Selected, ro.Labels.Labels, ro.Labels.Reread)
				label += fmt.Sprintf(" grant{cdi=%v devices=%q node_gpu_memory=%d scheduler: accepted_portion=%v bindrequest{type=%s count=%d portion=%q groups=%d} prebind_ok=%v portion_exact=%v}",
					ro.Grant.Cdi, ro.Grant.Ids, ro.Grant.NodeGpuMemory, ro.Sched.AcceptedPortion, ro.Sched.ReceivedType, ro.Sched.Count, ro.Sched.Portion,
					len(ro.Sched.Groups), ro.Ok, ro.PortionExact)
				if !ro.PortionExact {
					label += " PORTION-NOT-EXACT"
				}
				for _, e := range ro.Env {
					if e.Type == o.Binder.RefType && e.Index == o.Binder.RefIndex {
						label += fmt.Sprintf(" selected container starts with NVIDIA_VISIBLE_DEVICES=%s:%q GPU_PORTION=%s:%q",
							e.Devices.Kind, e.Devices.V, e.Portion.Kind, e.Portion.V)
					}
				}
			}
		}
		out.Add(term, label)
		out.Count("origin:" + origin)
		out.Count("accepted:" + strconv.FormatBool(o.Valid))
		out.Count("mutate_ok:" + strconv.FormatBool(o.MutateOk))
		out.Count("binder_validate_accepts:" + strconv.FormatBool(o.BinderValid))
		out.Count("fraction_container(all pods):" + o.Selection)
		out.Count(fmt.Sprintf("pod_shape:containers=%d,inits=%d", len(p.Containers), len(p.Inits)))
		if o.Binder != nil {
			b := o.Binder
			out.Count("binder:runs(admitted sharing pods)")
			out.Count("binder:fraction_container:" + o.Selection)
			out.Count(fmt.Sprintf("binder:selected=%s", b.RefType))
			if len(p.Containers)+len(p.Inits) > 1 {
				out.Count("binder:multi-container pod")
			}
			out.Count(fmt.Sprintf("binder:rounds=%d", len(b.Rounds)))
			// the number of devices: request kind x (one | several) devices, as the scheduler read it
			several := "1 device"
			if b.SchedDevices > 1 {
				several = "k>1 devices"
			}
			out.Count("devices:admitted " + o.Type + " request on " + several)
			if b.SchedDevices > 1 {
				_, withNum := p.Ann["gpu-fraction-num-devices"]
				out.Count(fmt.Sprintf("devices:admitted multi-device %s request (num-devices annotation=%v)", o.Type, withNum))
			}
			out.Count(fmt.Sprintf("devices:binder IsMultiFraction=%v", b.IsMulti))
			if b.BinderDevErr != "" || b.BinderDevices != b.SchedDevices {
				out.Count("devices:binder's count differs from the scheduler's")
			}
			for _, ro := range b.Rounds {
				out.Count(fmt.Sprintf("devices:selected groups=%d", len(ro.Labels.Selected)))
				if len(ro.Labels.Labels) != len(ro.Labels.Selected) {
					out.Count("devices:fewer GPU-group labels than selected groups")
				}
				if !ro.Labels.Ok {
					out.Count("devices:reservation step failed")
				}
			}
			if len(b.Pre) > 0 {
				out.Count("binder:config maps exist before PreBind")
			}
			for _, ro := range b.Rounds {
				out.Count(fmt.Sprintf("binder:granted_devices=%d", len(ro.Grant.Ids)))
				if ro.Grant.Cdi {
					out.Count("binder:cdi device names")
				}
				if !ro.Ok {
					out.Count("binder:prebind error")
				}
				if !ro.Sched.Ok {
					out.Count("binder:scheduler bind path failed")
				}
				switch {
				case ro.PortionExact:
					out.Count("binder:portion told to the container == portion booked: " + o.Type)
				case ro.PortionClose:
					out.Count("binder:portion told to the container != portion booked (within 0.005): " + o.Type)
				default:
					out.Count("binder:portion told to the container != portion booked (off by more): " + o.Type)
				}
				if fs, ok := p.Ann["gpu-fraction"]; ok && o.Type == "Fraction" {
					if i := strings.IndexByte(fs, '.'); i >= 0 && len(fs)-i-1 > 2 && !strings.ContainsAny(fs, "eExXpP") {
						out.Count("binder:gpu-fraction with more than two decimals")
					}
				}
				// does any container other than the selected one see the grant (it referenced the maps before)?
				for _, e := range ro.Env {
					if (e.Type != b.RefType || e.Index != b.RefIndex) && e.Devices.Kind == "value" && e.Devices.V != "" {
						out.Count("binder:another container also reads a devices value")
						break
					}
				}
			}
			if o.Legacy != nil {
				out.Count("binder:also run on the unmutated pod")
			}
		} else if o.Valid && !o.MutateOk {
			out.Count("binder:not run, Mutate refused the pod (fraction container not found)")
		}
		out.Count("sched_type:" + o.Type)
		if o.PfErr {
			out.Count("parsefloat:error")
		} else if math.IsNaN(math.Float64frombits(o.PfBits)) {
			out.Count("parsefloat:nan")
		} else if math.IsInf(math.Float64frombits(o.PfBits), 0) {
			out.Count("parsefloat:inf")
		} else {
			out.Count("parsefloat:finite")
		}
		// non-trivial: the pod carries at least one GPU-sharing annotation or a whole-GPU limit;
		// distinct by (annotation values, enabled, accept verdict, container shape).
		if len(p.Ann) > 0 || strings.Contains(term, "c_gpu_lim := (Some") {
			out.NonTrivial(fmt.Sprintf("%q|%v|%v|%d|%d", p.Ann, p.Enabled, o.Valid, len(p.Containers), len(p.Inits)))
		}
		out.Sample(map[string]any{"pod": p, "observed": o})
	}
	// C19_POD='<pod as printed in the evidence samples / replays>': run the real code on this one pod only and print
	// what was observed (the case lands in <dir>/cases_0.v: coqc -Q /verif/coq KaiV cases_0.v evaluates it)
	single := os.Getenv("C19_POD")
	if single != "" {
		var p podSpec
		if err := json.Unmarshal([]byte(single), &p); err != nil {
			return fmt.Errorf("C19_POD: %v", err)
		}
		if p.Ann == nil {
			p.Ann = map[string]string{}
		}
		if p.Name == "" {
			p.Name = "pod"
		}
		unfix(&p)
		emit(p, "single")
		n = 0
	}
	for _, p := range corpus() {
		if single != "" {
			break
		}
		emit(p, "corpus")
	}
	for i := 0; i < n; i++ {
		r := root.Fork(uint64(i))
		malformed := i%3 == 2
		p := genPod(r, malformed)
		if malformed {
			emit(p, "malformed")
		} else {
			emit(p, "structured")
		}
	}
	var wg sync.WaitGroup
	next := make(chan *job, 64)
	for w := 0; w < 8; w++ {
		wg.Add(1)
		go func() {
			defer wg.Done()
			for j := range next {
				j.term, j.o = Eval(j.p)
			}
		}()
	}
	for _, j := range jobs {
		next <- j
	}
	close(next)
	wg.Wait()
	for _, j := range jobs {
		register(j)
		if single != "" {
			data, _ := json.MarshalIndent(map[string]any{"pod": j.p, "observed": j.o}, "", " ")
			fmt.Println(string(data))
		}
	}
	out.Stats["rule"] = "pods drawn from one splitmix64 stream (2/3 structured mostly-valid, 1/3 malformed annotation strings from a grammar-directed corpus: decimal, exponent, hex-float, NaN/Inf, signs, whitespace, overflow) after a fixed boundary corpus; non-trivial = carries a GPU annotation or a whole-GPU limit; distinct by (annotations, sharing flag, verdict, container counts). Per-container selection: on half of the sharing pods gpu-fraction-container-name names a regular container, an init container, a name shared by both, a name nobody carries or the empty name (distribution keys fraction_container / binder:*); for every pod admission accepts as a sharing request the real GetNumGPUFractionDevices / IsMultiFraction, the real reservation service's ReserveGpuDevice per selected GPU group (fake client with the groups' reservation pods; the labelled pod is re-read with NewTaskInfo; distribution keys devices:*; gpu-memory and gpu-fraction requests carry a device count on 3/5 resp. 1/2 of the structured pods), the real GetFractionContainerRef and the binder gpusharing PreBind (fake client, 1-2 grants, with and without pre-existing config maps, with and without CDI names) run on the mutated pod and the environment of every container is resolved from the ConfigMaps read back"
	return out.Flush()
}
