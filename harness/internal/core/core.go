// Package core builds real scheduler objects (NodeInfo, PodInfo) from small
// specs and projects them to the Coq terms of coq/Model/{Res,Status,Node}.v.
// Shared by the node-level (C14/C01/C02) and session-level drivers.
package core

import (
	"fmt"
	"sort"
	"strconv"

	v1 "k8s.io/api/core/v1"
	"k8s.io/apimachinery/pkg/api/resource"
	metav1 "k8s.io/apimachinery/pkg/apis/meta/v1"
	"k8s.io/apimachinery/pkg/types"

	"github.com/NVIDIA/KAI-scheduler/pkg/scheduler/api/node_info"
	"github.com/NVIDIA/KAI-scheduler/pkg/scheduler/api/pod_info"
	"github.com/NVIDIA/KAI-scheduler/pkg/scheduler/api/pod_status"
	"github.com/NVIDIA/KAI-scheduler/pkg/scheduler/api/resource_info"
	"github.com/NVIDIA/KAI-scheduler/pkg/scheduler/cache"
	"github.com/NVIDIA/KAI-scheduler/pkg/scheduler/cache/cluster_info"
	"github.com/NVIDIA/KAI-scheduler/pkg/scheduler/conf"

	u "kaiverif/internal/util"
)

const (
	GpuRes = "nvidia.com/gpu"
	MigRes = "nvidia.com/mig-1g.5gb"
	ExtRes = "example.com/widget"
)

// Ids maps names to positives in first-appearance order.
type Ids struct {
	m    map[string]int
	next int
}

func NewIds() *Ids { return &Ids{m: map[string]int{}, next: 1} }
func (i *Ids) Of(name string) int {
	if v, ok := i.m[name]; ok {
		return v
	}
	v := i.next
	i.m[name] = v
	i.next++
	return v
}

// Res is the model's resource vector (all integer valued).
type Res struct{ Cpu, Mem, Gpu, Pods, Mig, Ext int64 }

func (r Res) Term() string {
	return fmt.Sprintf("(mkRes %s %s %s %s %s %s)", u.Z(r.Cpu), u.Z(r.Mem), u.Z(r.Gpu), u.Z(r.Pods), u.Z(r.Mig), u.Z(r.Ext))
}

func exact(f float64) int64 {
	i := int64(f)
	if float64(i) != f {
		panic(fmt.Sprintf("non-integral quantity %v in an observable the model treats as integer", f))
	}
	return i
}

// ResOf projects a Resource struct.
func ResOf(r *resource_info.Resource) Res {
	s := r.ScalarResources()
	return Res{Cpu: exact(r.Cpu()), Mem: exact(r.Memory()), Gpu: exact(r.GPUs()),
		Pods: s[v1.ResourcePods], Mig: s[MigRes], Ext: s[ExtRes]}
}

// ResOfVec projects the vector representation.
func ResOfVec(v resource_info.ResourceVector, m *resource_info.ResourceVectorMap) Res {
	get := func(name string) int64 {
		idx := m.GetIndex(name)
		if idx < 0 {
			return 0
		}
		return exact(v.Get(idx))
	}
	return Res{Cpu: get("cpu"), Mem: get("memory"), Gpu: get(GpuRes), Pods: get("pods"), Mig: get(MigRes), Ext: get(ExtRes)}
}

type NodeSpec struct {
	Name                string
	Cpu, Mem            int64 // milli, bytes
	Gpus, Pods, Mig, Ext int64
	GpuMem              int64 // label nvidia.com/gpu.memory (MiB), 0 = no label
	Labels              map[string]string
}

func qty(v int64) resource.Quantity { return *resource.NewQuantity(v, resource.DecimalSI) }

func (s NodeSpec) K8s() *v1.Node {
	al := v1.ResourceList{
		v1.ResourceCPU:    *resource.NewMilliQuantity(s.Cpu, resource.DecimalSI),
		v1.ResourceMemory: qty(s.Mem),
		v1.ResourcePods:   qty(s.Pods),
	}
	if s.Gpus > 0 {
		al[GpuRes] = qty(s.Gpus)
	}
	if s.Mig > 0 {
		al[MigRes] = qty(s.Mig)
	}
	if s.Ext > 0 {
		al[ExtRes] = qty(s.Ext)
	}
	labels := map[string]string{"nvidia.com/gpu.count": strconv.FormatInt(s.Gpus, 10)}
	if s.GpuMem > 0 {
		labels[node_info.GpuMemoryLabel] = strconv.FormatInt(s.GpuMem, 10)
	}
	for k, v := range s.Labels {
		labels[k] = v
	}
	return &v1.Node{ObjectMeta: metav1.ObjectMeta{Name: s.Name, Labels: labels},
		Status: v1.NodeStatus{Allocatable: al, Capacity: al.DeepCopy()}}
}

func MkNode(s NodeSpec, vm *resource_info.ResourceVectorMap) *node_info.NodeInfo {
	n := s.K8s()
	vm.AddResourceList(n.Status.Allocatable)
	pai := cluster_info.NewK8sNodePodAffinityInfo(n, cache.NewK8sClusterPodAffinityInfo())
	return node_info.NewNodeInfo(n, pai, vm)
}

type PodSpec struct {
	Name, Job, SubGroup string
	Cpu, Mem            int64 // milli, bytes
	Gpus, Mig, Ext      int64 // whole GPUs, MIG instances, extended units
	Fraction            string
	GpuMemory           int64
	NumDev              int64
	Status              pod_status.PodStatus
	Groups              []string
	Node                string
	Reservation         bool
}

func (p PodSpec) K8s() *v1.Pod {
	req := v1.ResourceList{}
	if p.Cpu > 0 {
		req[v1.ResourceCPU] = *resource.NewMilliQuantity(p.Cpu, resource.DecimalSI)
	}
	if p.Mem > 0 {
		req[v1.ResourceMemory] = qty(p.Mem)
	}
	if p.Gpus > 0 {
		req[GpuRes] = qty(p.Gpus)
	}
	if p.Mig > 0 {
		req[MigRes] = qty(p.Mig)
	}
	if p.Ext > 0 {
		req[ExtRes] = qty(p.Ext)
	}
	ann := map[string]string{"pod-group-name": p.Job}
	if p.Fraction != "" {
		ann["gpu-fraction"] = p.Fraction
	}
	if p.GpuMemory > 0 {
		ann["gpu-memory"] = strconv.FormatInt(p.GpuMemory, 10)
	}
	if p.NumDev > 0 {
		ann["gpu-fraction-num-devices"] = strconv.FormatInt(p.NumDev, 10)
	}
	labels := map[string]string{}
	if p.Reservation {
		labels["app"] = conf.GetConfig().ResourceReservationAppLabelValue
	}
	if p.SubGroup != "" {
		labels["kai.scheduler/subgroup-name"] = p.SubGroup
	}
	return &v1.Pod{
		ObjectMeta: metav1.ObjectMeta{Name: p.Name, Namespace: "ns", UID: types.UID(p.Name), Annotations: ann, Labels: labels},
		// the scheduler name the test session uses (CreateFakeSession): the proportion plugin treats running pods of
		// other schedulers as capacity that is not the cluster's
		Spec: v1.PodSpec{NodeName: p.Node, SchedulerName: "kai-scheduler", Containers: []v1.Container{{Name: "c", Resources: v1.ResourceRequirements{Requests: req, Limits: req}}}},
		Status: v1.PodStatus{Phase: v1.PodPending},
	}
}

// MkPod builds the scheduler's PodInfo with the real constructor, then sets
// the fields the session mutates directly (status, node, groups).
func MkPod(p PodSpec, vm *resource_info.ResourceVectorMap) *pod_info.PodInfo {
	ti := pod_info.NewTaskInfo(p.K8s(), nil, vm)
	ti.Status = p.Status
	ti.NodeName = p.Node
	ti.GPUGroups = append([]string{}, p.Groups...)
	return ti
}

func StatusTerm(s pod_status.PodStatus) string {
	switch s {
	case pod_status.Pending:
		return "Pending"
	case pod_status.Gated:
		return "Gated"
	case pod_status.Allocated:
		return "Allocated"
	case pod_status.Pipelined:
		return "Pipelined"
	case pod_status.Binding:
		return "Binding"
	case pod_status.Bound:
		return "Bound"
	case pod_status.Running:
		return "Running"
	case pod_status.Releasing:
		return "Releasing"
	case pod_status.Succeeded:
		return "Succeeded"
	case pod_status.Failed:
		return "Failed"
	case pod_status.Deleted:
		return "Deleted"
	default:
		return "Unknown"
	}
}

func KindTerm(t *pod_info.PodInfo) string {
	switch t.ResourceRequestType {
	case pod_info.RequestTypeFraction:
		return "KFraction"
	case pod_info.RequestTypeGpuMemory:
		return "KMemory"
	case pod_info.RequestTypeMigInstance:
		return "KMig"
	default:
		return "KRegular"
	}
}

// ReqRes is the requested resource vector of a task: base + whole GPUs (incl. DRA) + MIG + scalars.
func ReqRes(t *pod_info.PodInfo) Res {
	r := t.ResReq
	s := r.ScalarResources()
	g := int64(0)
	if t.ResourceRequestType == pod_info.RequestTypeRegular {
		g = exact(r.GPUs()) + r.GetDraGpusCount()
	}
	return Res{Cpu: exact(r.Cpu()), Mem: exact(r.Memory()), Gpu: g,
		Pods: s[v1.ResourcePods], Mig: r.MigResources()[MigRes], Ext: s[ExtRes]}
}

func Groups(ids *Ids, gs []string) string {
	out := make([]string, len(gs))
	for i, g := range gs {
		out[i] = u.Pos(ids.Of("g:" + g))
	}
	return u.List(out)
}

// TaskTerm renders the model's view of a task as seen by node ni.
func TaskTerm(ids *Ids, t *pod_info.PodInfo, ni *node_info.NodeInfo) string {
	gmem := int64(0)
	if t.IsFractionCandidate() {
		gmem = ni.GetResourceGpuMemory(t.ResReq)
	}
	be := t.ResReq.IsEmpty() && len(t.GetAllStorageClaims()) == 0 && !t.IsMemoryRequest()
	return fmt.Sprintf("(mkTask %s %s %s %s %s %s %s %s %s %s)",
		u.Pos(ids.Of("p:"+string(t.UID))), u.Pos(ids.Of("j:"+string(t.Job))), StatusTerm(t.Status), KindTerm(t),
		ReqRes(t).Term(), u.Z(t.ResReq.GetNumOfGpuDevices()), u.Z(gmem), Groups(ids, t.GPUGroups),
		u.Bool(pod_info.IsResourceReservationTask(t.Pod)), u.Bool(be))
}

func zmap(ids *Ids, m map[string]int64) string {
	type kv struct {
		k int
		v int64
	}
	var xs []kv
	for k, v := range m {
		xs = append(xs, kv{ids.Of("g:" + k), v})
	}
	sort.Slice(xs, func(i, j int) bool { return xs[i].k < xs[j].k })
	out := make([]string, len(xs))
	for i, x := range xs {
		out[i] = u.Pair(u.Pos(x.k), u.Z(x.v))
	}
	return u.List(out)
}

// NodeObs renders what the model compares of a real NodeInfo:
// struct and vector forms of idle/used/releasing, the per-group maps, marks
// and the pods present (id, status, groups of the node's own copy).
func NodeObs(ids *Ids, ni *node_info.NodeInfo) string {
	type pe struct {
		k    int
		term string
	}
	var ps []pe
	for _, t := range ni.PodInfos {
		ps = append(ps, pe{ids.Of("p:" + string(t.UID)), u.Pair(StatusTerm(t.Status), Groups(ids, t.GPUGroups))})
	}
	sort.Slice(ps, func(i, j int) bool { return ps[i].k < ps[j].k })
	pods := make([]string, len(ps))
	for i, p := range ps {
		pods[i] = u.Pair(u.Pos(p.k), p.term)
	}
	var marks []int
	for g, v := range ni.ReleasingSharedGPUs {
		if v {
			marks = append(marks, ids.Of("g:"+g))
		}
	}
	sort.Ints(marks)
	ms := make([]string, len(marks))
	for i, m := range marks {
		ms[i] = u.Pos(m)
	}
	vm := ni.VectorMap
	return fmt.Sprintf("(mkObs %s %s %s %s %s %s %s %s %s %s %s)",
		ResOf(ni.Idle).Term(), ResOf(ni.Used).Term(), ResOf(ni.Releasing).Term(),
		ResOfVec(ni.IdleVector, vm).Term(), ResOfVec(ni.UsedVector, vm).Term(), ResOfVec(ni.ReleasingVector, vm).Term(),
		u.List(pods), zmap(ids, ni.UsedSharedGPUsMemory), zmap(ids, ni.AllocatedSharedGPUsMemory),
		zmap(ids, ni.ReleasingSharedGPUsMemory), u.List(ms))
}

// NodeInit renders the initial (empty) model node for a real NodeInfo.
func NodeInit(ni *node_info.NodeInfo) string {
	return fmt.Sprintf("(mkNode %s %s %s %s %s %s [] [] [] [] [])",
		ResOf(ni.Allocatable).Term(), ResOf(ni.Idle).Term(), ResOf(ni.Used).Term(), ResOf(ni.Releasing).Term(),
		u.Z(ni.GetNumberOfGPUsInNode()), u.Z(ni.MemoryOfEveryGpuOnNode))
}

// NodeFullTerm renders a complete model node (books, pods, group maps, marks) of a real NodeInfo.
func NodeFullTerm(ids *Ids, ni *node_info.NodeInfo, pods string) string {
	var marks []int
	for g, v := range ni.ReleasingSharedGPUs {
		if v {
			marks = append(marks, ids.Of("g:"+g))
		}
	}
	sort.Ints(marks)
	ms := make([]string, len(marks))
	for i, m := range marks {
		ms[i] = u.Pair(u.Pos(m), "tt")
	}
	return fmt.Sprintf("(mkNode %s %s %s %s %s %s %s %s %s %s %s)",
		ResOf(ni.Allocatable).Term(), ResOf(ni.Idle).Term(), ResOf(ni.Used).Term(), ResOf(ni.Releasing).Term(),
		u.Z(ni.GetNumberOfGPUsInNode()), u.Z(ni.MemoryOfEveryGpuOnNode), pods,
		zmap(ids, ni.UsedSharedGPUsMemory), zmap(ids, ni.AllocatedSharedGPUsMemory), zmap(ids, ni.ReleasingSharedGPUsMemory), u.List(ms))
}
