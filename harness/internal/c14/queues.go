// Queue clause of C14: what the proportion plugin believes about every queue (Allocated, AllocatedNotPreemptible,
// Request of CPU / memory / GPU) on real sessions, dumped next to the pods and their statuses for the ground-truth
// monitor of coq/Run/C14.v (case kind CQueue).
//
// How the values are read. Allocated has an exported accessor (Session.QueueAllocatedResources; it truncates GPU
// quantities from 1 GPU on to whole GPUs) and is dumped through it too. AllocatedNotPreemptible and Request have NO
// accessor on the session: the plugin keeps them in its unexported map `queues` of the exported type
// map[common_info.QueueID]*resource_share.QueueAttributes. The driver opens the session's plugins itself, exactly as
// framework.OpenSession does (a fresh plugin object per session from the registered builder, OnSessionOpen in tier
// order), keeps the handle of the proportion instance and reads that one field by reflection; everything below it
// (QueueAttributes, ResourceShare.Allocated / AllocatedNotPreemptible / Request) is exported. Not read: nothing of the
// three quantities; fair share / deserved are not part of the clause.
package c14

import (
	"fmt"
	"math"
	"reflect"
	"sort"
	"strings"
	"time"
	"unsafe"

	metav1 "k8s.io/apimachinery/pkg/apis/meta/v1"

	"github.com/NVIDIA/KAI-scheduler/pkg/common/constants"
	"github.com/NVIDIA/KAI-scheduler/pkg/scheduler/api"
	"github.com/NVIDIA/KAI-scheduler/pkg/scheduler/api/common_info"
	"github.com/NVIDIA/KAI-scheduler/pkg/scheduler/api/node_info"
	"github.com/NVIDIA/KAI-scheduler/pkg/scheduler/api/pod_info"
	"github.com/NVIDIA/KAI-scheduler/pkg/scheduler/api/pod_status"
	"github.com/NVIDIA/KAI-scheduler/pkg/scheduler/api/queue_info"
	"github.com/NVIDIA/KAI-scheduler/pkg/scheduler/conf"
	"github.com/NVIDIA/KAI-scheduler/pkg/scheduler/framework"
	rs "github.com/NVIDIA/KAI-scheduler/pkg/scheduler/plugins/proportion/resource_share"
	"github.com/NVIDIA/KAI-scheduler/pkg/scheduler/test_utils"

	"kaiverif/internal/core"
	"kaiverif/internal/cycle"
	u "kaiverif/internal/util"
)

// qworld: a cluster of the shared generator plus a queue forest and the way MinNodeGPUMemory is derived.
type qworld struct {
	c       cycle.Cluster
	parents map[string]string // queue -> parent ("" = top level); holds every queue of the forest
	order   []string          // queues, parents before children
	// trueMin: ClusterInfo.MinNodeGPUMemory = the smallest device memory over the nodes (what the name says and what
	// the tests of the proportion plugin set); otherwise the value the cache's snapshot computes today
	// (snapshotNodes: min(DefaultGpuMemory, ...) = 100 whatever the nodes carry).
	trueMin bool
}

func flTerm(f float64) string {
	switch {
	case math.IsNaN(f):
		return "FNaN"
	case math.IsInf(f, 1):
		return "(FInf false)"
	case math.IsInf(f, -1):
		return "(FInf true)"
	case f == 0:
		return "(FNum 0%Z 0%Z)"
	}
	frac, exp := math.Frexp(f)
	m := int64(math.Ldexp(frac, 53)) // exact: |frac| in [1/2, 1), 53 significant bits
	e := exp - 53
	for m%2 == 0 && e < 0 {
		m /= 2
		e++
	}
	return fmt.Sprintf("(FNum %s %s)", u.Z(m), u.Z(int64(e)))
}

func fl3(c, m, g float64) string { return u.List([]string{flTerm(c), flTerm(m), flTerm(g)}) }

func flShow(f float64) string {
	if math.IsInf(f, 0) || math.IsNaN(f) {
		return fmt.Sprint(f)
	}
	return fmt.Sprintf("%g", f)
}

// proportionQueues returns the live queue attributes of the proportion plugin instance of a session.
func proportionQueues(p framework.Plugin) map[common_info.QueueID]*rs.QueueAttributes {
	f := reflect.ValueOf(p).Elem().FieldByName("queues")
	if !f.IsValid() {
		panic("proportion plugin has no field 'queues'")
	}
	v := reflect.NewAt(f.Type(), unsafe.Pointer(f.UnsafeAddr())).Elem().Interface()
	m, ok := v.(map[common_info.QueueID]*rs.QueueAttributes)
	if !ok {
		panic(fmt.Sprintf("proportion plugin: field 'queues' has type %T", v))
	}
	return m
}

type qsess struct {
	w     qworld
	b     *cycle.Built
	ssn   *framework.Session
	pp    framework.Plugin
	ids   *core.Ids
	nodeI map[string]int
	obs   []string
	nobs  int
	inEv  int
	trace []string
	kinds map[string]int
}

func qInfos(w qworld) map[common_info.QueueID]*queue_info.QueueInfo {
	m := map[common_info.QueueID]*queue_info.QueueInfo{}
	leafSpec := map[string]cycle.Queue{}
	for _, q := range w.c.Queues {
		leafSpec[q.Name] = q
	}
	for i, name := range w.order {
		qi := &queue_info.QueueInfo{UID: common_info.QueueID(name), Name: name, ParentQueue: common_info.QueueID(w.parents[name]),
			ChildQueues: []common_info.QueueID{}, Priority: 100,
			CreationTimestamp: metav1.Time{Time: time.Unix(1700000000+int64(i), 0)}}
		unl := queue_info.ResourceQuota{Quota: -1, Limit: -1, OverQuotaWeight: 1}
		qi.Resources = queue_info.QueueQuota{CPU: unl, Memory: unl, GPU: unl}
		if s, ok := leafSpec[name]; ok {
			lim := s.Limit
			if lim == 0 {
				lim = -1
			}
			qi.Resources.GPU = queue_info.ResourceQuota{Quota: s.Deserved, Limit: lim, OverQuotaWeight: s.OverQuota}
			qi.Priority = s.Priority
		}
		m[qi.UID] = qi
	}
	for id, q := range m {
		if p, ok := m[q.ParentQueue]; ok && q.ParentQueue != "" {
			p.AddChildQueue(id)
		}
	}
	return m
}

func openQSession(w qworld) *qsess {
	b := cycle.Build(w.c) // nodes, pod groups and pods through the real constructors (its own session is not used)
	s := &qsess{w: w, b: b, ids: core.NewIds(), nodeI: map[string]int{}, kinds: map[string]int{}}
	minMem := int64(node_info.DefaultGpuMemory)
	if w.trueMin {
		minMem = 0
		for _, n := range w.c.Nodes {
			if m := b.Nodes[n.Name].MemoryOfEveryGpuOnNode; minMem == 0 || m < minMem {
				minMem = m
			}
		}
	}
	tiers := test_utils.BuildPlugins(test_utils.TestTopologyBasic{Name: "c14-queues"})
	ssn := &framework.Session{
		Config: &conf.SchedulerConfiguration{Tiers: tiers},
		ClusterInfo: &api.ClusterInfo{Nodes: b.Nodes, Queues: qInfos(w), PodGroupInfos: b.Jobs,
			MinNodeGPUMemory: minMem},
		SchedulerParams: conf.SchedulerParams{QueueLabelKey: constants.DefaultQueueLabel},
	}
	ssn.OverrideMaxNumberConsolidationPreemptees(-1)
	ssn.OverrideAllowConsolidatingReclaim(true)
	ssn.OverrideSchedulerName("kai-scheduler")
	ssn.Cache = b.Rec
	// what framework.OpenSession does with the configured tiers
	for _, tier := range tiers {
		for _, plugin := range tier.Plugins {
			pb, found := framework.GetPluginBuilder(plugin.Name)
			if !found {
				continue
			}
			p := pb(plugin.Arguments)
			if plugin.Name == "proportion" {
				s.pp = p
			}
			p.OnSessionOpen(ssn)
		}
	}
	if s.pp == nil {
		panic("no proportion plugin in the default tiers")
	}
	b.Ssn = ssn
	s.ssn = ssn
	for i, n := range w.c.Nodes {
		s.nodeI[n.Name] = i + 1
	}
	for _, q := range w.order {
		s.ids.Of("q:" + q)
	}
	ev := func(kind string) func(*framework.Event) {
		return func(*framework.Event) {
			s.kinds[kind]++
			if s.inEv < 24 { // inside the event: after the plugin's handler, the pod and its node were updated
				s.inEv++
				s.observe("in-" + kind)
			}
		}
	}
	ssn.AddEventHandler(&framework.EventHandler{AllocateFunc: ev("allocate-event"), DeallocateFunc: ev("deallocate-event")})
	s.observe("open")
	return s
}

func (s *qsess) observe(what string) {
	var pods []string
	var names []string
	tasks := map[string]*pod_info.PodInfo{}
	for _, job := range s.ssn.ClusterInfo.PodGroupInfos {
		for _, t := range job.GetAllPodsMap() {
			tasks[t.Name] = t
			names = append(names, t.Name)
		}
	}
	sort.Strings(names)
	for _, n := range names {
		t := tasks[n]
		pods = append(pods, u.Pair(u.Pos(s.ids.Of("p:"+n)), u.Pair(core.StatusTerm(t.Status), u.Z(int64(s.nodeI[t.NodeName])))))
	}
	attrs := proportionQueues(s.pp)
	var qs []string
	var show []string
	for _, q := range s.w.order {
		a := attrs[common_info.QueueID(q)]
		if a == nil {
			panic("queue " + q + " is not in the plugin's map")
		}
		get := s.ssn.QueueAllocatedResources(s.ssn.ClusterInfo.Queues[common_info.QueueID(q)])
		qs = append(qs, u.Pair(u.Pos(s.ids.Of("q:"+q)), fmt.Sprintf("(mkQS %s %s %s %s)",
			fl3(a.CPU.Allocated, a.Memory.Allocated, a.GPU.Allocated),
			fl3(a.CPU.AllocatedNotPreemptible, a.Memory.AllocatedNotPreemptible, a.GPU.AllocatedNotPreemptible),
			fl3(a.CPU.Request, a.Memory.Request, a.GPU.Request),
			fl3(get.Cpu(), get.Memory(), get.GPUs()))))
		show = append(show, fmt.Sprintf("%s:gpu[alloc %s np %s req %s]", q, flShow(a.GPU.Allocated), flShow(a.GPU.AllocatedNotPreemptible), flShow(a.GPU.Request)))
	}
	s.obs = append(s.obs, fmt.Sprintf("(mkQO %s %s)", u.List(pods), u.List(qs)))
	if what == "open" {
		s.trace = append(s.trace, "open{"+strings.Join(show, " ")+"}")
	}
	s.nobs++
}

func gkindTerm(t *pod_info.PodInfo) (string, string) {
	nd := t.ResReq.GetNumOfGpuDevices()
	switch {
	case t.IsMemoryRequest():
		k := "gpu-memory"
		if nd > 1 {
			k = "gpu-memory-multi"
		}
		return fmt.Sprintf("(GMem %s %s)", u.Z(t.ResReq.GpuMemory()), u.Z(nd)), k
	case t.IsFractionRequest():
		k := "fraction"
		if nd > 1 {
			k = "fraction-multi"
		}
		return fmt.Sprintf("(GFrac %s %s)", u.Z(int64(math.Round(t.ResReq.GpuFractionalPortion()*100))), u.Z(nd)), k
	case t.ResReq.GPUs() > 0:
		return fmt.Sprintf("(GWhole %s)", u.Z(exactI(t.ResReq.GPUs()))), "whole"
	}
	return "GNone", "cpu-only"
}

func (s *qsess) term() string {
	var nodes []string
	for _, n := range s.w.c.Nodes {
		nodes = append(nodes, u.Pair(u.Z(int64(s.nodeI[n.Name])), u.Z(s.b.Nodes[n.Name].MemoryOfEveryGpuOnNode)))
	}
	var parents, jobs, pods []ikv
	for _, q := range s.w.order {
		par := int64(0)
		if p := s.w.parents[q]; p != "" {
			par = int64(s.ids.Of("q:" + p))
		}
		parents = append(parents, ikv{s.ids.Of("q:" + q), u.Z(par)})
	}
	for _, j := range s.w.c.Jobs {
		job := s.ssn.ClusterInfo.PodGroupInfos[common_info.PodGroupID(j.Name)]
		jid := s.ids.Of("j:" + j.Name)
		jobs = append(jobs, ikv{jid, fmt.Sprintf("(mkQJ %s %s)", u.Pos(s.ids.Of("q:"+string(job.Queue))), u.Bool(job.IsPreemptibleJob()))})
		if job.IsPreemptibleJob() {
			s.kinds["job:preemptible"]++
		} else {
			s.kinds["job:non-preemptible"]++
		}
		for _, p := range j.Pods {
			t := s.b.Tasks[p.Name]
			g, kind := gkindTerm(t)
			s.kinds["pod:"+kind]++
			s.kinds["snapshot-status:"+core.StatusTerm(p.Status)]++
			pods = append(pods, ikv{s.ids.Of("p:" + p.Name), fmt.Sprintf("(mkQP %s %s %s %s)", u.Pos(jid),
				u.Z(exactI(t.ResReq.Cpu())), u.Z(exactI(t.ResReq.Memory())), g)})
		}
	}
	// the ids used as keys of parents are those handed out first (1..len(order)): sort the other maps by id too
	return fmt.Sprintf("(CQueue (mkQCase %s %s %s %s %s %s))", u.Z(s.ssn.ClusterInfo.MinNodeGPUMemory), u.List(nodes),
		amapTermOrdered(parents), amapTerm(jobs), amapTerm(pods), u.List(s.obs))
}

// amapTermOrdered keeps the given order (the monitor compares the queue list of every observation with it)
func amapTermOrdered(xs []ikv) string {
	out := make([]string, len(xs))
	for i, x := range xs {
		out[i] = u.Pair(u.Pos(x.k), x.term)
	}
	return u.List(out)
}

func (w qworld) describe() string {
	var qs []string
	for _, q := range w.order {
		qs = append(qs, fmt.Sprintf("%s<%s", q, w.parents[q]))
	}
	var nm []string
	for _, n := range w.c.Nodes {
		nm = append(nm, fmt.Sprintf("%s:gpumem%d", n.Name, n.GpuMem))
	}
	return fmt.Sprintf("forest{%s} trueMin=%v nodes[%s] %s", strings.Join(qs, " "), w.trueMin, strings.Join(nm, " "), cycle.Describe(w.c))
}

func depthOf(w qworld) int {
	d := 0
	for _, q := range w.order {
		k := 1
		for p := w.parents[q]; p != ""; p = w.parents[p] {
			k++
		}
		if k > d {
			d = k
		}
	}
	return d
}

// genQWorld: a consistent cluster of the shared generator (pods placed within capacity, one device size on the nodes
// that hold pods), then: an extra empty node with another device size (half of the cases), pods moved to the other
// statuses a snapshot can hold, extra jobs with pending gpu-memory (one and several devices) / odd-fraction /
// cpu-only pods, and a queue forest of depth 1-3 over the leaf queues.
func genQWorld(r *u.Rng) qworld {
	c := cycle.Gen(r)
	gm := int64(100)
	if c.Nodes[0].GpuMem > 0 {
		gm = c.Nodes[0].GpuMem
	}
	if r.Bool() {
		other := u.Pick(r, []int64{16000, 16300, 24500, 40900, 81900})
		if other != gm {
			c.Nodes = append(c.Nodes, core.NodeSpec{Name: "nx", Cpu: 8000, Mem: 16 << 30, Gpus: int64(r.Range(1, 2)), Pods: 110, GpuMem: other})
		}
	}
	for ji := range c.Jobs {
		for pi := range c.Jobs[ji].Pods {
			p := &c.Jobs[ji].Pods[pi]
			switch p.Status {
			case pod_status.Running:
				if r.Chance(1, 3) {
					p.Status = u.Pick(r, []pod_status.PodStatus{pod_status.Bound, pod_status.Binding, pod_status.Allocated})
				}
			case pod_status.Pending:
				if r.Chance(1, 5) {
					p.Status = u.Pick(r, []pod_status.PodStatus{pod_status.Gated, pod_status.Succeeded, pod_status.Failed, pod_status.Unknown})
				}
			}
		}
	}
	nx := r.Range(1, 3)
	for i := 0; i < nx; i++ {
		j := cycle.Job{Name: fmt.Sprintf("x%d", i+1), Queue: u.Pick(r, c.Queues).Name, Priority: int32(u.Pick(r, []int{50, 75, 100, 125})),
			MinMember: 1, AgeMinutes: r.Range(1, 50)}
		np := r.Range(1, 2)
		for k := 0; k < np; k++ {
			p := core.PodSpec{Name: fmt.Sprintf("%s-%d", j.Name, k), Cpu: int64(u.Pick(r, []int{250, 1000})), Mem: 1 << 30, Status: pod_status.Pending}
			switch r.Intn(6) {
			case 0, 1:
				p.GpuMemory = u.Pick(r, []int64{gm / 4, gm / 2, gm / 3, gm, 4000, 10, 25, 50, 8000})
			case 2, 3:
				p.GpuMemory = u.Pick(r, []int64{gm / 4, gm / 2, gm / 5, 25, 50, 4000})
				p.NumDev = int64(r.Range(2, 3))
			case 4:
				p.Fraction = u.Pick(r, []string{"0.3", "0.33", "0.2", "0.7"})
				if r.Bool() {
					p.NumDev = 2
				}
			default:
			}
			if p.GpuMemory == 0 && p.Fraction == "" && r.Bool() {
				p.Gpus = 1
			}
			j.Pods = append(j.Pods, p)
		}
		c.Jobs = append(c.Jobs, j)
	}
	w := qworld{c: c, parents: map[string]string{}, trueMin: r.Bool()}
	depth := r.Range(1, 3)
	var depts []string
	if depth >= 2 {
		depts = []string{"dept-a", "dept-b"}[:r.Range(1, 2)]
	}
	if depth == 3 {
		w.parents["org"] = ""
		w.order = append(w.order, "org")
	}
	for _, d := range depts {
		if depth == 3 && (d == "dept-a" || r.Bool()) {
			w.parents[d] = "org"
		} else {
			w.parents[d] = ""
		}
		w.order = append(w.order, d)
	}
	for i, q := range c.Queues {
		switch {
		case depth == 1:
			w.parents[q.Name] = ""
		case i == 0:
			w.parents[q.Name] = depts[0]
		default:
			w.parents[q.Name] = u.Pick(r, depts)
		}
		w.order = append(w.order, q.Name)
	}
	return w
}

// readmeQWorld: the snapshot of seeded/C14-5's demonstration (sub-test 2): one node with two 16000 MiB GPUs, dept with
// team-a and team-b; a running and a pending whole-GPU pod in team-a, a pending gpu-memory 4000 pod in team-b.
func readmeQWorld() qworld {
	c := cycle.Cluster{
		Nodes:  []core.NodeSpec{{Name: "node-1", Cpu: 8000, Mem: 16 << 30, Gpus: 2, Pods: 110, GpuMem: 16000}},
		Queues: []cycle.Queue{{Name: "team-a", Deserved: 1, OverQuota: 1, Priority: 100}, {Name: "team-b", Deserved: 1, OverQuota: 1, Priority: 100}},
		Jobs: []cycle.Job{
			{Name: "job-a", Queue: "team-a", Priority: 50, MinMember: 1, AgeMinutes: 30, StartedMins: 20,
				Pods: []core.PodSpec{{Name: "run-a", Cpu: 2000, Mem: 4 << 30, Gpus: 1, Status: pod_status.Running, Node: "node-1"}}},
			{Name: "job-a2", Queue: "team-a", Priority: 50, MinMember: 1, AgeMinutes: 10,
				Pods: []core.PodSpec{{Name: "pend-a", Cpu: 1000, Mem: 1 << 30, Gpus: 1, Status: pod_status.Pending}}},
			{Name: "job-b", Queue: "team-b", Priority: 50, MinMember: 1, AgeMinutes: 5,
				Pods: []core.PodSpec{{Name: "pend-b-mem", Cpu: 1000, Mem: 1 << 30, GpuMemory: 4000, Status: pod_status.Pending}}},
		},
		Actions: []string{"allocate"},
	}
	return qworld{c: c, parents: map[string]string{"dept": "", "team-a": "dept", "team-b": "dept"}, order: []string{"dept", "team-a", "team-b"}, trueMin: true}
}

// queueJobs: the queue stream's sessions. mode 0: session open + a random Statement program; mode 1: session open +
// the real allocate action (and the cluster's other actions).
func queueJobs(root *u.Rng, n int) []sessJob {
	mk := func(kind string, w qworld, mode int, r *u.Rng) sessJob {
		return sessJob{kind: "queue", run: func() (string, string, map[string]int, int) {
			s := openQSession(w)
			sw := &sessWorld{jw: newJW(s.b.VM), c: w.c, b: s.b, ssn: s.ssn, prims: map[string]int{}, last: map[common_info.PodID]pod_status.PodStatus{}}
			if mode == 0 {
				prog := randomStmtProgram(r, r.Range(4, 14))
				first := true
				sw.runStmt(func(x *sessWorld, st *framework.Statement, cps []framework.Checkpoint) (stmtCmd, bool) {
					if !first {
						s.observe("after-command")
					}
					first = false
					return prog(x, st, cps)
				})
				s.observe("end")
			} else {
				for _, a := range w.c.Actions {
					if p := cycle.RunActions(s.b, []string{a}); p != "" {
						sw.desc = append(sw.desc, "PANIC in "+a)
						break
					}
					sw.desc = append(sw.desc, "action:"+a)
					s.kinds["action:"+a]++
					s.observe("after-action")
				}
			}
			for k, v := range sw.kinds {
				s.kinds[k] += v
			}
			s.kinds[fmt.Sprintf("forest-depth:%d", depthOf(w))]++
			if w.trueMin {
				s.kinds["min-node-gpu-memory:smallest-node"]++
			} else {
				s.kinds["min-node-gpu-memory:snapshot-rule(100)"]++
			}
			if len(w.c.Nodes) > 0 && w.c.Nodes[len(w.c.Nodes)-1].Name == "nx" {
				s.kinds["nodes:mixed-device-memory"]++
			}
			label := fmt.Sprintf("%s %s :: %s %s", kind, w.describe(), strings.Join(s.trace, " "), strings.Join(sw.desc, " "))
			return s.term(), label, s.kinds, s.nobs
		}}
	}
	js := []sessJob{
		mk("queue(corpus: seeded/C14-5 snapshot, session open + allocate)", readmeQWorld(), 1, root.Fork(8999999)),
	}
	for i := 0; i < n; i++ {
		r := root.Fork(uint64(8000000 + i))
		w := genQWorld(r)
		if i%2 == 0 {
			w.c.Actions = nil
			js = append(js, mk("queue(statement)", w, 0, r))
		} else {
			js = append(js, mk("queue(actions)", w, 1, r))
		}
	}
	return js
}
