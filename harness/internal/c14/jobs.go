// jobs.go: the workload clause of C14. Real PodGroupInfo / PodSet objects are observed after every
// operation of three kinds of histories (operation programs on one PodGroupInfo, real Statement
// programs on real sessions, the real actions on real sessions) and every exported counter, getter
// and gang predicate is dumped next to the pods and their statuses (Run/C14.v: jcase).
package c14

import (
	"fmt"
	"math"
	"sort"
	"strings"
	"sync"

	v1 "k8s.io/api/core/v1"
	metav1 "k8s.io/apimachinery/pkg/apis/meta/v1"
	"k8s.io/apimachinery/pkg/types"

	enginev2alpha2 "github.com/NVIDIA/KAI-scheduler/pkg/apis/scheduling/v2alpha2"
	"github.com/NVIDIA/KAI-scheduler/pkg/scheduler/actions/common"
	"github.com/NVIDIA/KAI-scheduler/pkg/scheduler/api/common_info"
	"github.com/NVIDIA/KAI-scheduler/pkg/scheduler/api/eviction_info"
	"github.com/NVIDIA/KAI-scheduler/pkg/scheduler/api/node_info"
	"github.com/NVIDIA/KAI-scheduler/pkg/scheduler/api/pod_info"
	"github.com/NVIDIA/KAI-scheduler/pkg/scheduler/api/pod_status"
	"github.com/NVIDIA/KAI-scheduler/pkg/scheduler/api/podgroup_info"
	"github.com/NVIDIA/KAI-scheduler/pkg/scheduler/api/resource_info"
	"github.com/NVIDIA/KAI-scheduler/pkg/scheduler/framework"
	"github.com/NVIDIA/KAI-scheduler/pkg/scheduler/gpu_sharing"

	"kaiverif/internal/core"
	"kaiverif/internal/cycle"
	u "kaiverif/internal/util"
)

// order of Model/Status.v all_statuses
var allStatuses = []pod_status.PodStatus{pod_status.Pending, pod_status.Gated, pod_status.Allocated, pod_status.Pipelined,
	pod_status.Binding, pod_status.Bound, pod_status.Running, pod_status.Releasing, pod_status.Succeeded,
	pod_status.Failed, pod_status.Unknown, pod_status.Deleted}

func exactI(f float64) int64 {
	i := int64(f)
	if float64(i) != f {
		panic(fmt.Sprintf("non-integral quantity %v", f))
	}
	return i
}

// milli: GPU quantities in thousandths. GPU portions are two-decimal numbers; sums of them in float64 are
// off by a few ulps at most (the model is exact arithmetic, section 3 of DESIGN.md), anything further away is refused.
func milli(g float64) int64 {
	x := g * 1000
	r := math.Round(x)
	if math.Abs(x-r) > 1e-6 {
		panic(fmt.Sprintf("GPU quantity %v is not a multiple of 0.001", g))
	}
	return int64(r)
}

func structRes(r *resource_info.Resource) core.Res {
	s := r.ScalarResources()
	return core.Res{Cpu: exactI(r.Cpu()), Mem: exactI(r.Memory()), Gpu: milli(r.GPUs()),
		Pods: s[v1.ResourcePods], Mig: s[core.MigRes], Ext: s[core.ExtRes]}
}

func vecRes(v resource_info.ResourceVector, m *resource_info.ResourceVectorMap) core.Res {
	get := func(name string, gpu bool) int64 {
		idx := m.GetIndex(name)
		if idx < 0 || idx >= len(v) {
			return 0
		}
		if gpu {
			return milli(v.Get(idx))
		}
		return exactI(v.Get(idx))
	}
	return core.Res{Cpu: get("cpu", false), Mem: get("memory", false), Gpu: get(core.GpuRes, true), Pods: get("pods", false),
		Mig: get(core.MigRes, false), Ext: get(core.ExtRes, false)}
}

func vecMask(m *resource_info.ResourceVectorMap) core.Res {
	has := func(name string) int64 {
		if m.GetIndex(name) >= 0 {
			return 1
		}
		return 0
	}
	return core.Res{Cpu: 1, Mem: 1, Gpu: 1, Pods: has("pods"), Mig: has(core.MigRes), Ext: has(core.ExtRes)}
}

// jw collects the observations of one job case.
type jw struct {
	ids   *core.Ids
	vm    *resource_info.ResourceVectorMap
	jobs  []*podgroup_info.PodGroupInfo // in id order
	tbl   map[int]string
	steps []string
	desc  []string
	kinds map[string]int
	mu    sync.Mutex
}

func newJW(vm *resource_info.ResourceVectorMap) *jw {
	return &jw{ids: core.NewIds(), vm: vm, tbl: map[int]string{}, kinds: map[string]int{}}
}

func psetName(t *pod_info.PodInfo) string {
	if t.SubGroupName != "" {
		return t.SubGroupName
	}
	return podgroup_info.DefaultSubGroup
}

func (w *jw) jobID(uid common_info.PodGroupID) int { return w.ids.Of("j:" + string(uid)) }
func (w *jw) podID(t *pod_info.PodInfo) int        { return w.ids.Of("p:" + string(t.UID)) }
func (w *jw) psetID(job common_info.PodGroupID, name string) int {
	return w.ids.Of("s:" + string(job) + "/" + name)
}

// registerJob fixes the ids of a job and of its pod sets (name order).
func (w *jw) registerJob(job *podgroup_info.PodGroupInfo) {
	w.jobID(job.UID)
	names := make([]string, 0, len(job.PodSets))
	for n := range job.PodSets {
		names = append(names, n)
	}
	sort.Strings(names)
	for _, n := range names {
		w.psetID(job.UID, n)
	}
	w.jobs = append(w.jobs, job)
}

// what one pod contributes to Allocated / AllocatedVector
func (w *jw) reqTerms(t *pod_info.PodInfo) (string, string) {
	r := resource_info.EmptyResource()
	r.AddResourceRequirements(t.ResReq)
	return structRes(r).Term(), vecRes(t.ResReqVector, w.vm).Term()
}

func (w *jw) registerPod(job common_info.PodGroupID, t *pod_info.PodInfo) {
	id := w.podID(t)
	rs, rv := w.reqTerms(t)
	w.tbl[id] = fmt.Sprintf("(mkJSt %s %s %s %s)", u.Pos(w.jobID(job)), u.Pos(w.psetID(job, psetName(t))), rs, rv)
}

func (w *jw) jpodTerm(job common_info.PodGroupID, t *pod_info.PodInfo) string {
	rs, rv := w.reqTerms(t)
	return fmt.Sprintf("(mkJP %s %s %s %s %s)", u.Pos(w.podID(t)), core.StatusTerm(t.Status), u.Pos(w.psetID(job, psetName(t))), rs, rv)
}

type ikv struct {
	k    int
	term string
}

func amapTerm(xs []ikv) string {
	sort.Slice(xs, func(i, j int) bool { return xs[i].k < xs[j].k })
	out := make([]string, len(xs))
	for i, x := range xs {
		out[i] = u.Pair(u.Pos(x.k), x.term)
	}
	return u.List(out)
}

func posList(xs []int) string {
	sort.Ints(xs)
	out := make([]string, len(xs))
	for i, x := range xs {
		out[i] = u.Pos(x)
	}
	return u.List(out)
}

// dump renders what the scheduler believes about one workload next to the pods it holds.
func (w *jw) dump(job *podgroup_info.PodGroupInfo) string {
	var pods []ikv
	for uid, t := range job.GetAllPodsMap() {
		pods = append(pods, ikv{w.ids.Of("p:" + string(uid)), core.StatusTerm(t.Status)})
	}
	idx := make([]string, len(allStatuses))
	for i, s := range allStatuses {
		var ids []int
		for uid := range job.PodStatusIndex[s] {
			ids = append(ids, w.ids.Of("p:"+string(uid)))
		}
		idx[i] = posList(ids)
	}
	nums := []string{u.Z(int64(job.GetNumPendingTasks())), u.Z(int64(job.GetNumGatedTasks())), u.Z(int64(job.GetNumActiveUsedTasks())),
		u.Z(int64(job.GetNumAllocatedTasks())), u.Z(int64(job.GetNumAliveTasks())), u.Z(int64(job.GetActivelyRunningTasksCount()))}
	preds := []string{u.Bool(job.IsGangSatisfied()), u.Bool(job.IsReadyForScheduling()), u.Bool(job.IsStale()),
		u.Bool(job.ShouldPipelineJob()), u.Bool(job.IsElastic())}
	var pss []ikv
	for name, ps := range job.PodSets {
		pss = append(pss, ikv{w.psetID(job.UID, name), fmt.Sprintf("(mkPSD %s %s %s %s %s %s %s %s %s %s)",
			u.Z(int64(ps.GetMinAvailable())), u.Z(int64(len(ps.GetPodInfos()))),
			u.Z(int64(ps.GetNumActiveAllocatedTasks())), u.Z(int64(ps.GetNumActiveUsedTasks())), u.Z(int64(ps.GetNumAliveTasks())),
			u.Z(int64(ps.GetNumPendingTasks())), u.Z(int64(ps.GetNumGatedTasks())),
			u.Bool(ps.IsGangSatisfied()), u.Bool(ps.IsReadyForScheduling()), u.Bool(ps.IsElastic()))})
	}
	return fmt.Sprintf("(mkJD %s %s %s %s %s %s %s %s)", amapTerm(pods),
		structRes(job.Allocated).Term(), vecRes(job.AllocatedVector, w.vm).Term(),
		u.Z(int64(job.GetActiveAllocatedTasksCount())), u.List(idx), u.List(nums), u.List(preds), amapTerm(pss))
}

// step records one observation; op: the operation(s) issued since the previous observation of this job as a Coq list
// body ("" = to be read off the pods).
func (w *jw) step(job *podgroup_info.PodGroupInfo, op string, failed bool) {
	if op == "" {
		op = "None"
	} else {
		op = "(Some [" + op + "])"
	}
	w.steps = append(w.steps, fmt.Sprintf("(mkJS %s %s %s %s)", u.Pos(w.jobID(job.UID)), op, u.Bool(failed), w.dump(job)))
}

func (w *jw) term(monitored bool) string {
	var mins []ikv
	for _, job := range w.jobs {
		var ps []ikv
		for name, p := range job.PodSets {
			ps = append(ps, ikv{w.psetID(job.UID, name), u.Z(int64(p.GetMinAvailable()))})
		}
		mins = append(mins, ikv{w.jobID(job.UID), amapTerm(ps)})
	}
	var tbl []ikv
	for k, v := range w.tbl {
		tbl = append(tbl, ikv{k, v})
	}
	return fmt.Sprintf("(CJob (mkJCase %s %s %s %s %s))", u.Bool(monitored), vecMask(w.vm).Term(), amapTerm(mins), amapTerm(tbl), u.List(w.steps))
}

// ---- stream 1: operation programs on one PodGroupInfo ----------------------------------------------------------

type jobSetup struct {
	MinMember int32
	SubGroups []cycle.SubGroup
	Mig, Ext  bool // the resource vector map knows MIG / the extended resource
}

func (s jobSetup) String() string {
	sg := ""
	for _, g := range s.SubGroups {
		sg += fmt.Sprintf(" %s(min %d,parent %q)", g.Name, g.MinMember, g.Parent)
	}
	return fmt.Sprintf("job{min=%d subgroups=[%s] vector-map{mig=%v ext=%v}}", s.MinMember, strings.TrimSpace(sg), s.Mig, s.Ext)
}

func mkJob(s jobSetup) (*podgroup_info.PodGroupInfo, *resource_info.ResourceVectorMap) {
	vm := resource_info.NewResourceVectorMap()
	ns := core.NodeSpec{Name: "n1", Cpu: 8000, Mem: 16 << 30, Gpus: 4, Pods: 110}
	if s.Mig {
		ns.Mig = 2
	}
	if s.Ext {
		ns.Ext = 4
	}
	vm.AddResourceList(ns.K8s().Status.Allocatable)
	job := podgroup_info.NewPodGroupInfoWithVectorMap("j1", vm)
	crd := &enginev2alpha2.PodGroup{ObjectMeta: metav1.ObjectMeta{Name: "j1", Namespace: "ns", UID: types.UID("j1")},
		Spec: enginev2alpha2.PodGroupSpec{Queue: "q1", MinMember: s.MinMember}}
	for _, sg := range s.SubGroups {
		csg := enginev2alpha2.SubGroup{Name: sg.Name, MinMember: sg.MinMember}
		if sg.Parent != "" {
			parent := sg.Parent
			csg.Parent = &parent
		}
		crd.Spec.SubGroups = append(crd.Spec.SubGroups, csg)
	}
	job.SetPodGroup(crd)
	return job, vm
}

type jobProg struct {
	w    *jw
	job  *podgroup_info.PodGroupInfo
	pool map[string]*pod_info.PodInfo // every pod of the case, by name
	in   map[string]bool              // AddTaskInfo was called for it
}

func newJobProg(s jobSetup, specs []core.PodSpec) *jobProg {
	job, vm := mkJob(s)
	p := &jobProg{w: newJW(vm), job: job, pool: map[string]*pod_info.PodInfo{}, in: map[string]bool{}}
	p.w.registerJob(job)
	for _, sp := range specs {
		sp.Job = "j1"
		sp.Status = pod_status.Pending
		t := core.MkPod(sp, vm)
		p.pool[sp.Name] = t
		p.w.registerPod(job.UID, t)
	}
	p.w.desc = append(p.w.desc, s.String())
	return p
}

func podDesc(t *pod_info.PodInfo) string {
	return fmt.Sprintf("%s[%s:%s]", t.Name, psetName(t), t.ResReq.GpusAsString())
}

func (p *jobProg) add(name string, st pod_status.PodStatus) {
	t := p.pool[name]
	t.Status = st
	op := "JAdd " + p.w.jpodTerm(p.job.UID, t)
	p.job.AddTaskInfo(t)
	p.in[name] = true
	p.w.step(p.job, op, false)
	p.w.desc = append(p.w.desc, fmt.Sprintf("add(%s,%s)", podDesc(t), core.StatusTerm(st)))
	p.w.kinds["add"]++
}

// update calls UpdateTaskStatus with the job's own object (stale == nil) or with a copy whose Status is *stale.
func (p *jobProg) update(name string, st pod_status.PodStatus, stale *pod_status.PodStatus) {
	t := p.pool[name]
	if cur, ok := p.job.GetAllPodsMap()[t.UID]; ok {
		t = cur
	}
	passed := t.Status
	obj := t
	tag := ""
	if stale != nil {
		obj = t.Clone()
		obj.Status = *stale
		passed = *stale
		tag = "~copy-saying-" + core.StatusTerm(*stale)
	}
	op := fmt.Sprintf("JUpdate %s %s %s", u.Pos(p.w.podID(t)), core.StatusTerm(passed), core.StatusTerm(st))
	err := p.job.UpdateTaskStatus(obj, st)
	if err == nil {
		p.pool[name] = obj
	}
	p.w.step(p.job, op, err != nil)
	e := ""
	if err != nil {
		e = "!err"
	}
	p.w.desc = append(p.w.desc, fmt.Sprintf("update(%s%s,%s->%s)%s", name, tag, core.StatusTerm(passed), core.StatusTerm(st), e))
	p.w.kinds["update:"+core.StatusTerm(passed)+"->"+core.StatusTerm(st)]++
}

// cloneWith replaces the pod group by CloneWithTasks(kept pods): the only way the scheduler drops pods from a workload
// (the scenario builders clone pod groups with a subset of their pods). Model: one removal per dropped pod.
func (p *jobProg) cloneWith(keep func(string) bool) {
	var kept []*pod_info.PodInfo
	var ops, dropped []string
	all := p.job.GetAllPodsMap()
	names := make([]string, 0, len(p.pool))
	for n := range p.pool {
		names = append(names, n)
	}
	sort.Strings(names)
	for _, n := range names {
		t, ok := all[p.pool[n].UID]
		if !ok {
			continue
		}
		if keep(n) {
			kept = append(kept, t)
		} else {
			ops = append(ops, fmt.Sprintf("JRemove %s %s", u.Pos(p.w.podID(t)), core.StatusTerm(t.Status)))
			dropped = append(dropped, n)
			p.in[n] = false
		}
	}
	clone := p.job.CloneWithTasks(kept)
	p.job = clone
	p.w.jobs[0] = clone
	opl := strings.Join(ops, "; ")
	if opl == "" {
		p.w.steps = append(p.w.steps, fmt.Sprintf("(mkJS %s (Some []) false %s)", u.Pos(p.w.jobID(clone.UID)), p.w.dump(clone)))
	} else {
		p.w.step(clone, opl, false)
	}
	p.w.desc = append(p.w.desc, fmt.Sprintf("clone-without%v", dropped))
	p.w.kinds["clone-with-tasks"]++
}

func (p *jobProg) finish(kind string, monitored bool) (string, string, map[string]int, int) {
	label := fmt.Sprintf("%s %s", kind, strings.Join(p.w.desc, " "))
	return p.w.term(monitored), label, p.w.kinds, len(p.w.steps)
}

var jobStatusWeights = []pod_status.PodStatus{pod_status.Pending, pod_status.Pending, pod_status.Pending, pod_status.Gated,
	pod_status.Allocated, pod_status.Allocated, pod_status.Pipelined, pod_status.Pipelined, pod_status.Pipelined,
	pod_status.Binding, pod_status.Bound, pod_status.Running, pod_status.Running, pod_status.Running,
	pod_status.Releasing, pod_status.Releasing, pod_status.Succeeded, pod_status.Failed, pod_status.Unknown, pod_status.Deleted}

func genSetup(r *u.Rng, np int) (jobSetup, []string) {
	s := jobSetup{MinMember: int32(r.Range(1, 3)), Mig: r.Bool(), Ext: r.Bool()}
	sets := []string{""}
	switch r.Intn(4) {
	case 0:
		s.SubGroups = []cycle.SubGroup{{Name: "a", MinMember: int32(r.Range(1, 2))}, {Name: "b", MinMember: int32(r.Range(1, 3))}}
		sets = []string{"a", "b"}
	case 1:
		s.SubGroups = []cycle.SubGroup{{Name: "ga"}, {Name: "gb"}, {Name: "a", MinMember: 1, Parent: "ga"},
			{Name: "b", MinMember: int32(r.Range(1, 2)), Parent: "gb"}, {Name: "c", MinMember: 1, Parent: "gb"}}
		sets = []string{"a", "b", "c"}
	}
	return s, sets
}

func genPodSpec(r *u.Rng, i int, sets []string) core.PodSpec {
	p := core.PodSpec{Name: fmt.Sprintf("p%d", i), Cpu: int64(r.Pick3(0, 500, 1000)), Mem: int64(r.Pick3(0, 1<<30, 2<<30))}
	switch r.Intn(10) {
	case 0, 1, 2:
		p.Gpus = int64(r.Range(1, 2))
	case 3, 4:
		p.Fraction = u.Pick(r, []string{"0.5", "0.25", "0.75", "0.2", "0.3", "0.33"})
		if r.Chance(1, 4) {
			p.NumDev = int64(r.Range(2, 3))
		}
	case 5:
		p.GpuMemory = int64(u.Pick(r, []int{10, 25, 50, 100}))
	case 6:
		if r.Bool() {
			p.Mig = int64(r.Range(1, 2))
		} else {
			p.Ext = int64(r.Range(1, 2))
		}
	case 7:
		p.Cpu, p.Mem = 0, 0
	}
	p.SubGroup = u.Pick(r, sets)
	if r.Chance(1, 12) {
		p.SubGroup = "nosuchset" // AddTaskInfo logs a warning and ignores the pod
	}
	return p
}

// randomJobOps: AddTaskInfo / UpdateTaskStatus in any order through any status.
func randomJobOps(r *u.Rng) (string, string, map[string]int, int) {
	np := r.Range(2, 6)
	setup, sets := genSetup(r, np)
	specs := make([]core.PodSpec, np)
	for i := range specs {
		specs[i] = genPodSpec(r, i, sets)
	}
	p := newJobProg(setup, specs)
	names := make([]string, np)
	for i := range names {
		names[i] = specs[i].Name
	}
	nops := r.Range(6, 24)
	for i := 0; i < nops; i++ {
		var absent, present []string
		for _, n := range names {
			if p.in[n] {
				present = append(present, n)
			} else {
				absent = append(absent, n)
			}
		}
		switch {
		case len(present) > 0 && r.Chance(1, 12):
			p.cloneWith(func(string) bool { return r.Chance(3, 4) })
		case len(absent) > 0 && (len(present) == 0 || r.Chance(1, 3)):
			p.add(u.Pick(r, absent), u.Pick(r, jobStatusWeights))
		case len(absent) > 0 && r.Chance(1, 15):
			p.update(u.Pick(r, absent), u.Pick(r, jobStatusWeights), nil) // not a pod of the job: an error, nothing changes
		default:
			p.update(u.Pick(r, present), u.Pick(r, jobStatusWeights), nil)
		}
	}
	return p.finish("job-ops", true)
}

// pairCorpus: one pod through every ordered pair of statuses (there and back), next to a second pod that sits in
// sibling status; one case per start status.
func pairCorpus(emit func(term, label string, kinds map[string]int, n int)) {
	for _, s1 := range allStatuses {
		p := newJobProg(jobSetup{MinMember: 2, Mig: true, Ext: true}, []core.PodSpec{
			{Name: "a", Cpu: 500, Mem: 1 << 30, Gpus: 1}, {Name: "b", Cpu: 500, Mem: 1 << 30, Fraction: "0.5"}})
		p.add("a", s1)
		p.add("b", pod_status.Running)
		for _, s2 := range allStatuses {
			p.update("a", s2, nil)
			p.update("a", s1, nil)
		}
		emit(p.finish("job-ops(corpus: every status pair from "+core.StatusTerm(s1)+")", true))
	}
	// the pending gang of the seeded change's README at workload level: nominate, take the nomination back
	p := newJobProg(jobSetup{MinMember: 3}, []core.PodSpec{{Name: "g0", Cpu: 1000, Mem: 1 << 30, Gpus: 1},
		{Name: "g1", Cpu: 1000, Mem: 1 << 30, Gpus: 1}, {Name: "g2", Cpu: 1000, Mem: 1 << 30, Gpus: 1}})
	for _, n := range []string{"g0", "g1", "g2"} {
		p.add(n, pod_status.Pending)
	}
	p.update("g0", pod_status.Pipelined, nil)
	p.update("g0", pod_status.Pending, nil)
	p.update("g0", pod_status.Allocated, nil)
	p.update("g1", pod_status.Pipelined, nil)
	p.update("g1", pod_status.Pipelined, nil)
	p.update("g1", pod_status.Pending, nil)
	p.update("g0", pod_status.Pending, nil)
	emit(p.finish("job-ops(corpus: pending gang nominated and un-nominated)", true))
	// histories the scheduler does not issue: the model must still do what the code does (not monitored)
	p = newJobProg(jobSetup{MinMember: 1}, []core.PodSpec{{Name: "a", Cpu: 500, Gpus: 1}, {Name: "b", Cpu: 500, Gpus: 1}})
	p.add("a", pod_status.Running)
	p.add("b", pod_status.Pipelined)
	running := pod_status.Running
	p.update("b", pod_status.Releasing, &running)
	emit(p.finish("job-ops(corpus, not issued by the scheduler: stale copy)", false))
	p = newJobProg(jobSetup{MinMember: 1}, []core.PodSpec{{Name: "b", Cpu: 500, Gpus: 1}})
	p.add("b", pod_status.Pipelined)
	p.update("b", pod_status.Releasing, &running) // no map for the passed status: deleteTaskIndex does nothing
	emit(p.finish("job-ops(corpus, not issued by the scheduler: stale copy, no index for the passed status)", false))
	p = newJobProg(jobSetup{MinMember: 1}, []core.PodSpec{{Name: "a", Cpu: 500, Gpus: 1}})
	p.add("a", pod_status.Running)
	p.add("a", pod_status.Running)
	emit(p.finish("job-ops(corpus, not issued by the scheduler: pod added twice)", false))
}

// ---- streams 2 and 3: real sessions ---------------------------------------------------------------------------------

type sessWorld struct {
	*jw
	c      cycle.Cluster
	b      *cycle.Built
	ssn    *framework.Session
	events int
	prims  map[string]int
	last   map[common_info.PodID]pod_status.PodStatus
}

func newSessWorld(c cycle.Cluster) *sessWorld {
	b := cycle.Build(c)
	w := &sessWorld{jw: newJW(b.VM), c: c, b: b, ssn: b.Ssn, prims: map[string]int{}, last: map[common_info.PodID]pod_status.PodStatus{}}
	for _, t := range b.Tasks {
		w.last[t.UID] = t.Status
	}
	for _, j := range c.Jobs {
		job := b.Ssn.ClusterInfo.PodGroupInfos[common_info.PodGroupID(j.Name)]
		w.registerJob(job)
	}
	for _, j := range c.Jobs {
		for _, p := range j.Pods {
			w.registerPod(common_info.PodGroupID(j.Name), b.Tasks[p.Name])
		}
	}
	obs := func(kind string) func(*framework.Event) {
		return func(e *framework.Event) {
			if job := w.ssn.ClusterInfo.PodGroupInfos[e.Task.Job]; job != nil {
				w.step(job, "", false)
				w.events++
				w.prims[kind]++
				// which status changes the primitives of this session made (coverage statistics)
				if prev, ok := w.last[e.Task.UID]; ok {
					w.prims["session-transition:"+core.StatusTerm(prev)+"->"+core.StatusTerm(e.Task.Status)]++
				}
				w.last[e.Task.UID] = e.Task.Status
			}
		}
	}
	// registered after the plugins: fires inside every Statement primitive (evict, pipeline, allocate and every undo of
	// them, also inside the solvers' simulations) after the job and the node were updated
	w.ssn.AddEventHandler(&framework.EventHandler{AllocateFunc: obs("allocate-event"), DeallocateFunc: obs("deallocate-event")})
	w.all()
	return w
}

func (w *sessWorld) all() {
	for _, job := range w.jobs {
		w.step(job, "", false)
	}
}

func (w *sessWorld) nodes() []*node_info.NodeInfo {
	var out []*node_info.NodeInfo
	for _, n := range w.c.Nodes {
		out = append(out, w.b.Nodes[n.Name])
	}
	return out
}

func (w *sessWorld) pods(pred func(*pod_info.PodInfo) bool) []*pod_info.PodInfo {
	var out []*pod_info.PodInfo
	for _, j := range w.c.Jobs {
		job := w.ssn.ClusterInfo.PodGroupInfos[common_info.PodGroupID(j.Name)]
		all := job.GetAllPodsMap()
		for _, p := range j.Pods {
			if t := all[common_info.PodID(p.Name)]; t != nil && pred(t) {
				out = append(out, t)
			}
		}
	}
	return out
}

type stmtCmd struct {
	Kind      string
	Pod, Node string
	Job       string
	Flag      bool
	Cp        int
}

func (c stmtCmd) String() string {
	switch c.Kind {
	case "allocjob":
		return fmt.Sprintf("AllocateJob(%s,pipelineOnly=%v)", c.Job, c.Flag)
	case "place":
		return fmt.Sprintf("place(%s->%s,pipelineOnly=%v)", c.Pod, c.Node, c.Flag)
	case "pipeline":
		return fmt.Sprintf("Pipeline(%s->%s,upd=%v)", c.Pod, c.Node, c.Flag)
	case "evict", "unevict":
		return fmt.Sprintf("%s(%s)", c.Kind, c.Pod)
	case "rollback":
		return fmt.Sprintf("rollback(%d)", c.Cp)
	case "convert":
		return fmt.Sprintf("convert(%s)", c.Job)
	}
	return c.Kind
}

// runStmt runs a program on real Statements of the session. After every command all jobs are observed; the event
// handler observes the affected job inside every primitive.
func (w *sessWorld) runStmt(next func(w *sessWorld, stmt *framework.Statement, cps []framework.Checkpoint) (stmtCmd, bool)) (panicked string) {
	defer func() {
		if r := recover(); r != nil {
			panicked = fmt.Sprint(r)
			w.desc = append(w.desc, "PANIC:"+panicked)
		}
	}()
	stmt := w.ssn.Statement()
	var cps []framework.Checkpoint
	for {
		c, ok := next(w, stmt, cps)
		if !ok {
			return ""
		}
		var err error
		find := func(name string) *pod_info.PodInfo {
			ps := w.pods(func(t *pod_info.PodInfo) bool { return t.Name == name })
			if len(ps) == 0 {
				return nil
			}
			return ps[0]
		}
		switch c.Kind {
		case "allocjob":
			job := w.ssn.ClusterInfo.PodGroupInfos[common_info.PodGroupID(c.Job)]
			if !common.AllocateJob(w.ssn, stmt, w.nodes(), job, c.Flag) {
				err = fmt.Errorf("not placed")
			}
		case "place":
			t, n := find(c.Pod), w.b.Nodes[c.Node]
			okp := false
			if t.IsFractionRequest() || t.IsMemoryRequest() {
				okp = gpu_sharing.AllocateFractionalGPUTaskToNode(w.ssn, stmt, t, n, c.Flag)
			} else if !c.Flag && n.IsTaskAllocatable(t) {
				okp = stmt.Allocate(t, n.Name) == nil
			} else {
				okp = stmt.Pipeline(t, n.Name, !c.Flag) == nil
			}
			if !okp {
				err = fmt.Errorf("not placed")
			}
		case "pipeline":
			err = stmt.Pipeline(find(c.Pod), c.Node, c.Flag)
		case "evict":
			err = stmt.Evict(find(c.Pod), "verif", eviction_info.EvictionMetadata{Action: "reclaim", EvictionGangSize: 1})
		case "unevict":
			err = stmt.Unevict(find(c.Pod))
		case "checkpoint":
			cps = append(cps, stmt.Checkpoint())
		case "rollback":
			err = stmt.Rollback(cps[c.Cp])
			cps = cps[:c.Cp]
		case "discard":
			stmt.Discard()
			stmt, cps = w.ssn.Statement(), nil
		case "commit":
			err = stmt.Commit()
			stmt, cps = w.ssn.Statement(), nil
		case "convert":
			err = stmt.ConvertAllAllocatedToPipelined(common_info.PodGroupID(c.Job))
		}
		w.all()
		d := c.String()
		if err != nil {
			d += "!"
		}
		w.desc = append(w.desc, d)
		w.kinds["cmd:"+c.Kind]++
	}
}

func randomStmtProgram(r *u.Rng, ncmds int) func(*sessWorld, *framework.Statement, []framework.Checkpoint) (stmtCmd, bool) {
	k := 0
	hasEvict := false // the current statement holds an eviction
	return func(w *sessWorld, _ *framework.Statement, cps []framework.Checkpoint) (c stmtCmd, more bool) {
		defer func() {
			switch c.Kind {
			case "evict":
				hasEvict = true
			case "discard", "commit":
				hasEvict = false
			}
		}()
		if k >= ncmds {
			return stmtCmd{}, false
		}
		k++
		if k == ncmds {
			return stmtCmd{Kind: u.Pick(r, []string{"discard", "commit", "discard"})}, true
		}
		pending := w.pods(func(t *pod_info.PodInfo) bool { return t.Status == pod_status.Pending })
		holding := w.pods(func(t *pod_info.PodInfo) bool {
			_, ok := w.b.Nodes[t.NodeName]
			// not a pod this statement has allocated and not yet committed: the actions never evict one (their evicting
			// statements nominate only), and commitAllocate / ConvertAllAllocatedToPipelined work on the operation's own copy
			// of the pod, whose Status would be stale
			return ok && pod_status.IsActiveUsedStatus(t.Status) && t.Status != pod_status.Releasing && t.Status != pod_status.Allocated
		})
		releasing := w.pods(func(t *pod_info.PodInfo) bool {
			_, ok := w.b.Nodes[t.NodeName]
			return ok && t.Status == pod_status.Releasing
		})
		for tries := 0; tries < 20; tries++ {
			switch r.Intn(16) {
			case 0, 1, 2, 3:
				j := u.Pick(r, w.c.Jobs)
				return stmtCmd{Kind: "allocjob", Job: j.Name, Flag: r.Chance(2, 3)}, true
			case 4, 5, 6:
				if len(pending) > 0 {
					return stmtCmd{Kind: "place", Pod: u.Pick(r, pending).Name, Node: u.Pick(r, w.c.Nodes).Name, Flag: r.Chance(2, 3)}, true
				}
			case 7, 8:
				if len(holding) > 0 {
					return stmtCmd{Kind: "evict", Pod: u.Pick(r, holding).Name}, true
				}
			case 9:
				if len(releasing) > 0 {
					return stmtCmd{Kind: "unevict", Pod: u.Pick(r, releasing).Name}, true
				}
			case 10, 11:
				return stmtCmd{Kind: "checkpoint"}, true
			case 12, 13:
				if len(cps) > 0 {
					return stmtCmd{Kind: "rollback", Cp: r.Intn(len(cps))}, true
				}
			case 14:
				return stmtCmd{Kind: u.Pick(r, []string{"discard", "discard", "commit"})}, true
			default:
				// as the allocate action uses it: on a statement without evictions (after an un-eviction the index shift of
				// ConvertAllAllocatedToPipelined under undo entries makes operationValid recurse without end, a known latent
				// defect no action reaches: DESIGN.md section 13)
				if !hasEvict {
					return stmtCmd{Kind: "convert", Job: u.Pick(r, w.c.Jobs).Name}, true
				}
			}
		}
		return stmtCmd{Kind: "checkpoint"}, true
	}
}

func fixedProgram(cmds []stmtCmd) func(*sessWorld, *framework.Statement, []framework.Checkpoint) (stmtCmd, bool) {
	k := 0
	return func(*sessWorld, *framework.Statement, []framework.Checkpoint) (stmtCmd, bool) {
		if k >= len(cmds) {
			return stmtCmd{}, false
		}
		k++
		return cmds[k-1], true
	}
}

// runActions runs the cluster's actions; all jobs are observed after each of them.
func (w *sessWorld) runActions() (panicked string) {
	for _, a := range w.c.Actions {
		if p := cycle.RunActions(w.b, []string{a}); p != "" {
			w.desc = append(w.desc, "PANIC in "+a)
			w.all()
			return p
		}
		w.all()
		w.kinds["action:"+a]++
	}
	var cd []string
	for _, cl := range w.b.Rec.Calls() {
		cd = append(cd, fmt.Sprintf("%s(%s)", cl.Kind, cl.Pod))
	}
	w.desc = append(w.desc, "=> "+strings.Join(cd, " "))
	return ""
}

func (w *sessWorld) finish(kind string) (string, string, map[string]int, int) {
	for k, v := range w.prims {
		w.kinds[k] += v
	}
	label := fmt.Sprintf("%s %s :: %s", kind, cycle.Describe(w.c), strings.Join(w.desc, " "))
	return w.term(true), label, w.kinds, len(w.steps)
}

// readmeWorld: the cluster of seeded/C14-4's demonstration: node0 with 2 GPUs, one of them held by a terminating pod;
// a pending gang of three 1-GPU pods.
func readmeWorld(actions []string) cycle.Cluster {
	gp := func(name string, st pod_status.PodStatus, node string) core.PodSpec {
		return core.PodSpec{Name: name, Cpu: 1000, Mem: 1 << 30, Gpus: 1, Status: st, Node: node}
	}
	return cycle.Cluster{
		Nodes:  []core.NodeSpec{{Name: "node0", Cpu: 8000, Mem: 16 << 30, Gpus: 2, Pods: 110}},
		Queues: []cycle.Queue{{Name: "q1", Deserved: 2, Limit: 0, OverQuota: 1, Priority: 100}},
		Jobs: []cycle.Job{
			{Name: "running0", Queue: "q1", Priority: 50, MinMember: 1, AgeMinutes: 30, StartedMins: 20, Pods: []core.PodSpec{gp("running0-0", pod_status.Releasing, "node0")}},
			{Name: "gang0", Queue: "q1", Priority: 50, MinMember: 3, AgeMinutes: 10, Pods: []core.PodSpec{gp("gang0-0", pod_status.Pending, ""),
				gp("gang0-1", pod_status.Pending, ""), gp("gang0-2", pod_status.Pending, "")}},
		},
		Actions: actions,
	}
}

type sessJob struct {
	kind string
	run  func() (string, string, map[string]int, int)
}

func sessionJobs(root *u.Rng, nstmt, ncyc int) []sessJob {
	var js []sessJob
	stmtCase := func(kind string, c cycle.Cluster, prog func(*sessWorld, *framework.Statement, []framework.Checkpoint) (stmtCmd, bool)) sessJob {
		return sessJob{kind: "statement", run: func() (string, string, map[string]int, int) {
			w := newSessWorld(c)
			w.runStmt(prog)
			return w.finish(kind)
		}}
	}
	// corpus: the seeded change's scenarios
	js = append(js, stmtCase("statement(corpus: pipeline then rollback)", readmeWorld(nil), fixedProgram([]stmtCmd{
		{Kind: "checkpoint"}, {Kind: "pipeline", Pod: "gang0-0", Node: "node0"}, {Kind: "rollback", Cp: 0}, {Kind: "discard"}})))
	js = append(js, stmtCase("statement(corpus: pipeline then discard)", readmeWorld(nil), fixedProgram([]stmtCmd{
		{Kind: "pipeline", Pod: "gang0-0", Node: "node0"}, {Kind: "pipeline", Pod: "gang0-1", Node: "node0"}, {Kind: "discard"}})))
	js = append(js, stmtCase("statement(corpus: AllocateJob of a gang that does not fit)", readmeWorld(nil), fixedProgram([]stmtCmd{
		{Kind: "allocjob", Job: "gang0"}, {Kind: "discard"}, {Kind: "allocjob", Job: "gang0", Flag: true}, {Kind: "discard"}})))
	js = append(js, sessJob{kind: "cycle", run: func() (string, string, map[string]int, int) {
		w := newSessWorld(readmeWorld([]string{"allocate"}))
		w.runActions()
		return w.finish("cycle(corpus: allocate action, gang rolled back)")
	}})
	for i := 0; i < nstmt; i++ {
		r := root.Fork(uint64(5000000 + i))
		c := cycle.Gen(r)
		c.Actions = nil
		js = append(js, stmtCase("statement", c, randomStmtProgram(r, r.Range(6, 28))))
	}
	for i := 0; i < ncyc; i++ {
		r := root.Fork(uint64(6000000 + i))
		c := cycle.Gen(r)
		js = append(js, sessJob{kind: "cycle", run: func() (string, string, map[string]int, int) {
			w := newSessWorld(c)
			w.runActions()
			return w.finish("cycle")
		}})
	}
	return js
}

type jobResult struct {
	kind, term, label string
	kinds             map[string]int
	nsteps            int
}

// runSessions executes the session cases on a few workers (a session start waits 100 ms for informers); results in order.
func runSessions(js []sessJob, workers int) []jobResult {
	if len(js) == 0 {
		return nil
	}
	_ = cycle.Build(readmeWorld(nil)) // the package's one-time initialisation is not synchronised
	res := make([]jobResult, len(js))
	var wg sync.WaitGroup
	ch := make(chan int)
	for k := 0; k < workers; k++ {
		wg.Add(1)
		go func() {
			defer wg.Done()
			for i := range ch {
				term, label, kinds, n := js[i].run()
				res[i] = jobResult{js[i].kind, term, label, kinds, n}
			}
		}()
	}
	for i := range js {
		ch <- i
	}
	close(ch)
	wg.Wait()
	return res
}
