// Package c14 drives the real NodeInfo accounting (AddTask / RemoveTask /
// UpdateTask / ConsolidateSharedPodInfoToDifferentGPU and the allocatability
// predicates) with generated operation programs and emits the observations as
// Coq cases for Run/C14.v.
package c14

import (
	"fmt"
	"os"
	"sort"
	"strconv"
	"strings"

	"github.com/NVIDIA/KAI-scheduler/pkg/scheduler/api/node_info"
	"github.com/NVIDIA/KAI-scheduler/pkg/scheduler/api/pod_info"
	"github.com/NVIDIA/KAI-scheduler/pkg/scheduler/api/pod_status"
	"github.com/NVIDIA/KAI-scheduler/pkg/scheduler/api/resource_info"
	"github.com/NVIDIA/KAI-scheduler/pkg/scheduler/gpu_sharing"

	"kaiverif/internal/core"
	u "kaiverif/internal/util"
)

type gen struct {
	r     *u.Rng
	ids   *core.Ids
	vm    *resource_info.ResourceVectorMap
	ni    *node_info.NodeInfo
	specs map[string]core.PodSpec // pool of pod specs by name
	live  map[string]*pod_info.PodInfo
	steps []string
	desc  []string
	ngrp  int
	undo  []func()
	kinds map[string]int
}

var snapshotStatuses = []pod_status.PodStatus{pod_status.Running, pod_status.Running, pod_status.Bound, pod_status.Binding, pod_status.Releasing}
var anyActive = []pod_status.PodStatus{pod_status.Running, pod_status.Bound, pod_status.Binding, pod_status.Releasing, pod_status.Allocated, pod_status.Pipelined}

func (g *gen) newSpec(i int) core.PodSpec {
	r := g.r
	p := core.PodSpec{Name: fmt.Sprintf("p%d", i), Job: fmt.Sprintf("j%d", i%3)}
	p.Cpu = int64(r.Pick3(0, 500, 1000))
	p.Mem = int64(r.Pick3(0, 1<<30, 2<<30))
	switch r.Intn(10) {
	case 0, 1: // whole GPUs
		p.Gpus = int64(r.Range(1, 2))
	case 2, 3, 4: // fraction
		p.Fraction = u.Pick(r, []string{"0.5", "0.25", "0.75", "0.5", "0.2"})
		if r.Chance(1, 4) {
			p.NumDev = int64(r.Range(2, 3))
		}
	case 5, 6: // gpu memory
		p.GpuMemory = int64(u.Pick(r, []int{10, 25, 50, 60, 100}))
		if m := g.ni.MemoryOfEveryGpuOnNode; m > 100 && r.Chance(2, 3) {
			// realistic device memory: requests around the device size and around the rounding
			// steps of the portion (1/100 of the device)
			p.GpuMemory = u.Pick(r, []int64{m / 4, m / 3, m / 2, m - 1, m, m + 1, m + m/400, m + m/250, m + m/200, m + m/200 + 1, m + m/100, 2*m - 1, 2 * m, 2*m + m/300})
		}
		if r.Chance(1, 5) {
			p.NumDev = 2
		}
	case 7: // MIG / extended
		if r.Bool() {
			p.Mig = int64(r.Range(1, 2))
		} else {
			p.Ext = int64(r.Range(1, 2))
		}
	case 8: // best effort
		p.Cpu, p.Mem = 0, 0
	default: // cpu only
		if p.Cpu == 0 {
			p.Cpu = 250
		}
	}
	if r.Chance(1, 25) {
		p.Reservation = true
	}
	return p
}

func (g *gen) probe(names []string) string {
	var ps []string
	for _, nm := range names {
		sp := g.specs[nm]
		sp.Status = pod_status.Pending
		t := core.MkPod(sp, g.vm)
		var grp []string
		keys := map[string]bool{}
		for k := range g.ni.UsedSharedGPUsMemory {
			keys[k] = true
		}
		for k := range g.ni.AllocatedSharedGPUsMemory {
			keys[k] = true
		}
		ks := make([]string, 0, len(keys))
		for k := range keys {
			ks = append(ks, k)
		}
		sort.Strings(ks)
		if t.IsFractionCandidate() {
			for _, k := range ks {
				grp = append(grp, u.Tuple(u.Pos(g.ids.Of("g:"+k)), u.Bool(g.ni.IsTaskFitOnGpuGroup(t.ResReq, k)), u.Bool(g.ni.EnoughIdleResourcesOnGpu(t.ResReq, k))))
			}
		}
		ps = append(ps, fmt.Sprintf("(mkProbe %s %s %s %s)", core.TaskTerm(g.ids, t, g.ni),
			u.Bool(g.ni.IsTaskAllocatable(t)), u.Bool(g.ni.IsTaskAllocatableOnReleasingOrIdle(t)), u.List(grp)))
	}
	return u.List(ps)
}

func (g *gen) record(op string, t *pod_info.PodInfo, err error, what string) {
	// the task term is rendered AFTER the call: AddTask refreshes AcceptedResource / received type on the passed task
	names := make([]string, 0, 2)
	for nm := range g.specs {
		names = append(names, nm)
	}
	sort.Strings(names)
	pick := []string{names[g.r.Intn(len(names))], names[g.r.Intn(len(names))]}
	g.steps = append(g.steps, fmt.Sprintf("(mkStep (%s %s) %s %s %s)", op, core.TaskTerm(g.ids, t, g.ni),
		u.Bool(err != nil), core.NodeObs(g.ids, g.ni), g.probe(pick)))
	e := ""
	if err != nil {
		e = "!err"
	}
	g.desc = append(g.desc, fmt.Sprintf("%s(%s,%s,%v)%s", what, t.Name, core.StatusTerm(t.Status), t.GPUGroups, e))
	g.kinds[what]++
}

func (g *gen) add(t *pod_info.PodInfo) error {
	err := g.ni.AddTask(t)
	g.record("OAdd", t, err, "add")
	if err == nil {
		g.live[t.Name] = t
	}
	return err
}

func (g *gen) remove(t *pod_info.PodInfo) error {
	err := g.ni.RemoveTask(t)
	g.record("ORemove", t, err, "remove")
	if err == nil {
		delete(g.live, t.Name)
	}
	return err
}

func (g *gen) update(t *pod_info.PodInfo) error {
	err := g.ni.UpdateTask(t)
	g.record("OUpdate", t, err, "update")
	return err
}

func (g *gen) freshGroup() string {
	g.ngrp++
	return fmt.Sprintf("G%d", g.ngrp)
}

// fittingGPUs mimics framework.filterGpusByEnoughResources with a fixed (sorted) GPU order.
func (g *gen) fittingGPUs(t *pod_info.PodInfo) []string {
	var out []string
	for k := range g.ni.UsedSharedGPUsMemory {
		if g.ni.IsTaskFitOnGpuGroup(t.ResReq, k) {
			out = append(out, k)
		}
	}
	sort.Strings(out)
	if g.r.Bool() {
		for i, j := 0, len(out)-1; i < j; i, j = i+1, j-1 {
			out[i], out[j] = out[j], out[i]
		}
	}
	if g.ni.Idle.GPUs() > 0 || g.ni.Releasing.GPUs() > 0 {
		for i := 0; i < int(g.ni.Idle.GPUs())+int(g.ni.Releasing.GPUs()); i++ {
			out = append(out, pod_info.WholeGpuIndicator)
		}
	}
	return out
}

// place decides like allocateTaskToNode does: Allocated when the task fits idle resources, else Pipelined.
func (g *gen) place(name string) bool {
	sp := g.specs[name]
	sp.Status = pod_status.Pending
	t := core.MkPod(sp, g.vm)
	if !g.ni.IsTaskAllocatableOnReleasingOrIdle(t) && !g.ni.IsTaskAllocatable(t) {
		return false
	}
	if t.IsFractionCandidate() {
		res := gpu_sharing.GetNodePreferableGpuForSharing(g.fittingGPUs(t), g.ni, t, false)
		if res == nil {
			return false
		}
		groups := make([]string, len(res.Groups))
		for i, grp := range res.Groups {
			if len(grp) == 36 { // a fresh uuid
				groups[i] = g.freshGroup()
			} else {
				groups[i] = grp
			}
		}
		t.GPUGroups = groups
		if res.IsReleasing {
			t.Status = pod_status.Pipelined
		} else {
			t.Status = pod_status.Allocated
		}
	} else if g.ni.IsTaskAllocatable(t) {
		t.Status = pod_status.Allocated
	} else {
		t.Status = pod_status.Pipelined
	}
	t.NodeName = g.ni.Name
	if g.add(t) != nil {
		return false
	}
	g.undo = append(g.undo, func() { g.remove(t) })
	return true
}

func (g *gen) evict(name string) {
	t := g.live[name]
	prev := t.Status
	t.Status = pod_status.Releasing
	if g.update(t) != nil {
		t.Status = prev
		return
	}
	g.undo = append(g.undo, func() {
		t.Status = prev
		g.update(t)
	})
}

func (g *gen) liveNames(pred func(*pod_info.PodInfo) bool) []string {
	var out []string
	for nm, t := range g.live {
		if pred(t) {
			out = append(out, nm)
		}
	}
	sort.Strings(out)
	return out
}

func (g *gen) absent() []string {
	var out []string
	for nm := range g.specs {
		if _, ok := g.live[nm]; !ok {
			out = append(out, nm)
		}
	}
	sort.Strings(out)
	return out
}

// sessionLike: a snapshot (pods in API statuses, groups assigned within capacity)
// followed by what the statement operations do to one node.
func (g *gen) sessionLike(nops int) {
	r := g.r
	// snapshot phase: place pods through the same decision as the scheduler would have in earlier cycles, then
	// give them an API status (Running/Bound/Binding/Releasing)
	nsnap := r.Range(0, 5)
	for i := 0; i < nsnap; i++ {
		ab := g.absent()
		if len(ab) == 0 {
			break
		}
		name := u.Pick(r, ab)
		sp := g.specs[name]
		sp.Status = pod_status.Pending
		t := core.MkPod(sp, g.vm)
		if !g.ni.IsTaskAllocatable(t) {
			continue
		}
		if t.IsFractionCandidate() {
			res := gpu_sharing.GetNodePreferableGpuForSharing(g.fittingGPUs(t), g.ni, t, false)
			if res == nil || res.IsReleasing {
				continue
			}
			groups := make([]string, len(res.Groups))
			for i, grp := range res.Groups {
				if len(grp) == 36 {
					groups[i] = g.freshGroup()
				} else {
					groups[i] = grp
				}
			}
			t.GPUGroups = groups
		}
		t.Status = u.Pick(r, snapshotStatuses)
		t.NodeName = g.ni.Name
		g.add(t)
	}
	g.undo = nil
	for i := 0; i < nops; i++ {
		switch r.Intn(10) {
		case 0, 1, 2, 3: // allocate / pipeline a pending pod
			ab := g.absent()
			if len(ab) > 0 {
				g.place(u.Pick(r, ab))
			}
		case 4, 5, 6: // evict an active pod
			c := g.liveNames(func(t *pod_info.PodInfo) bool {
				return pod_status.IsActiveAllocatedStatus(t.Status) && t.Status != pod_status.Pipelined
			})
			if len(c) > 0 {
				g.evict(u.Pick(r, c))
			}
		case 7, 8: // undo the latest operation (rollback / discard order)
			if n := len(g.undo); n > 0 {
				f := g.undo[n-1]
				g.undo = g.undo[:n-1]
				f()
			}
		default: // roll back everything
			for n := len(g.undo); n > 0; n = len(g.undo) {
				f := g.undo[n-1]
				g.undo = g.undo[:n-1]
				f()
			}
		}
	}
}

// arbitrary: any operation in any order with any active status and any groups.
func (g *gen) arbitrary(nops int) {
	r := g.r
	groupsFor := func(t *pod_info.PodInfo) []string {
		if !t.IsFractionCandidate() {
			return nil
		}
		n := int(t.ResReq.GetNumOfGpuDevices())
		if n < 1 {
			n = 1
		}
		out := []string{}
		for len(out) < n {
			c := fmt.Sprintf("G%d", r.Range(1, 4))
			dup := false
			for _, x := range out {
				dup = dup || x == c
			}
			if !dup {
				out = append(out, c)
			}
		}
		return out
	}
	for i := 0; i < nops; i++ {
		switch r.Intn(10) {
		case 0, 1, 2, 3:
			ab := g.absent()
			if len(ab) == 0 {
				continue
			}
			sp := g.specs[u.Pick(r, ab)]
			sp.Status = u.Pick(r, anyActive)
			t := core.MkPod(sp, g.vm)
			t.GPUGroups = groupsFor(t)
			t.NodeName = g.ni.Name
			g.add(t)
		case 4, 5:
			c := g.liveNames(func(*pod_info.PodInfo) bool { return true })
			if len(c) > 0 {
				g.remove(g.live[u.Pick(r, c)])
			} else if r.Chance(1, 3) { // remove something that is not there
				sp := g.specs[u.Pick(r, g.absent())]
				sp.Status = pod_status.Running
				g.remove(core.MkPod(sp, g.vm))
			}
		case 6, 7, 8:
			c := g.liveNames(func(*pod_info.PodInfo) bool { return true })
			if len(c) > 0 {
				t := g.live[u.Pick(r, c)]
				t.Status = u.Pick(r, anyActive)
				if r.Chance(1, 4) {
					t.GPUGroups = groupsFor(t)
				}
				g.update(t)
			}
		default:
			c := g.liveNames(func(t *pod_info.PodInfo) bool { return t.IsFractionCandidate() })
			if len(c) > 0 {
				t := g.live[u.Pick(r, c)]
				t.GPUGroups = groupsFor(t)
				t.Status = pod_status.Pipelined
				err := g.ni.ConsolidateSharedPodInfoToDifferentGPU(t)
				g.record("OConsolidate", t, err, "consolidate")
			} else {
				ab := g.absent()
				if len(ab) > 0 { // add twice
					sp := g.specs[u.Pick(r, ab)]
					sp.Status = pod_status.Running
					t := core.MkPod(sp, g.vm)
					t.GPUGroups = groupsFor(t)
					g.add(t)
					g.add(t)
				}
			}
		}
	}
}

func one(r *u.Rng, sessionLike bool) (term, label string, kinds map[string]int, nsteps int) {
	vm := resource_info.NewResourceVectorMap()
	ns := core.NodeSpec{Name: "n1", Cpu: int64(r.Pick3(2000, 4000, 8000)), Mem: int64(r.Pick3(4, 8, 16)) << 30,
		Gpus: int64(r.Range(0, 4)), Pods: int64(r.Pick3(3, 6, 110)), Mig: int64(r.Pick3(0, 0, 2)), Ext: int64(r.Pick3(0, 4, 4))}
	if r.Chance(1, 2) {
		// the node label nvidia.com/gpu.memory in MiB; the scheduler rounds it down to a multiple of 100
		ns.GpuMem = int64(u.Pick(r, []int{100, 200, 16384, 40960, 81920, 24564}))
	}
	g := &gen{r: r, ids: core.NewIds(), vm: vm, specs: map[string]core.PodSpec{}, live: map[string]*pod_info.PodInfo{}, kinds: map[string]int{}}
	g.ni = core.MkNode(ns, vm)
	init := core.NodeInit(g.ni)
	np := r.Range(3, 8)
	for i := 0; i < np; i++ {
		sp := g.newSpec(i)
		g.specs[sp.Name] = sp
	}
	nops := r.Range(3, 14)
	if sessionLike {
		g.sessionLike(nops)
	} else {
		g.arbitrary(nops)
	}
	term = fmt.Sprintf("(CNode (mkCase %s %s %s))", init, u.Bool(sessionLike), u.List(g.steps))
	kind := "arbitrary"
	if sessionLike {
		kind = "session-like"
	}
	label = fmt.Sprintf("%s node{gpus=%d gpumem=%d pods=%d} ops=[%s]", kind, ns.Gpus, g.ni.MemoryOfEveryGpuOnNode, ns.Pods, strings.Join(g.desc, " "))
	return term, label, g.kinds, len(g.steps)
}

func sessionWorkers() int {
	if v := os.Getenv("C14_WORKERS"); v != "" {
		if k, err := strconv.Atoi(v); err == nil && k > 0 {
			return k
		}
	}
	return 8
}

func Run(dir string, seed uint64, n int) error {
	out := u.NewOut(dir, "C14", "KaiV.Run.C14", "case", 60)
	out.Flags = true
	root := u.NewRng(seed)
	for i := 0; i < n; i++ {
		r := root.Fork(uint64(i))
		sl := i%2 == 0
		term, label, kinds, ns := one(r, sl)
		if ns == 0 {
			continue
		}
		out.Add(term, label)
		for k, v := range kinds {
			out.CountN("op:"+k, v)
		}
		if sl {
			out.Count("stream:session-like")
		} else {
			out.Count("stream:arbitrary")
		}
		out.CountN("steps", ns)
		// non-trivial: at least 3 operations of at least 2 kinds; distinct by label
		if ns >= 3 && len(kinds) >= 2 {
			out.NonTrivial(label)
		}
		out.Sample(label)
	}
	// ---- workload clause: PodGroupInfo / PodSet counters (jobs.go) ----
	sampled := map[string]bool{}
	var jobSamples []any
	addJob := func(stream string) func(term, label string, kinds map[string]int, ns int) {
		return func(term, label string, kinds map[string]int, ns int) {
			out.Add(term, label)
			out.Count("stream:" + stream)
			for k, v := range kinds {
				out.CountN("job:"+k, v)
			}
			out.CountN("job-observations", ns)
			if ns >= 3 {
				out.NonTrivial(label)
			}
			if !sampled[stream] && (stream != "job-ops" || strings.HasPrefix(label, "job-ops job")) {
				sampled[stream] = true
				jobSamples = append(jobSamples, label)
			}
		}
	}
	pairCorpus(addJob("job-ops"))
	for i := 0; i < n/3; i++ {
		addJob("job-ops")(randomJobOps(root.Fork(uint64(7000000 + i))))
	}
	for _, res := range runSessions(sessionJobs(root, n/40, n/20), sessionWorkers()) {
		addJob(res.kind)(res.term, res.label, res.kinds, res.nsteps)
	}
	// ---- queue clause: the proportion plugin's books on real sessions (queues.go) ----
	nq := n / 8
	if nq < 12 {
		nq = 12
	}
	for _, res := range runSessions(queueJobs(root, nq), sessionWorkers()) {
		out.Add(res.term, res.label)
		out.Count("stream:queue")
		for k, v := range res.kinds {
			out.CountN("queue:"+k, v)
		}
		out.CountN("queue-observations", res.nsteps)
		if res.nsteps >= 2 {
			out.NonTrivial(res.label)
		}
		if !sampled["queue"] && !strings.Contains(res.label, "corpus") {
			sampled["queue"] = true
			jobSamples = append(jobSamples, res.label)
		}
	}
	if len(out.Samples) > 2 {
		out.Samples = out.Samples[:2]
	}
	out.Samples = append(out.Samples, jobSamples...)
	out.Stats["rule"] = "operation programs on one real NodeInfo (3-8 pods of kinds cpu/whole/fraction/multi-fraction/gpu-memory/MIG/best-effort/reservation; 0-4 GPUs; half of the nodes carry a device-memory label of 100 / 200 / 16384 / 24564 / 40960 / 81920 MiB and gpu-memory requests then sit around the device size and the 1/100 rounding steps of the portion). Stream 'session-like' replays what snapshot construction and statement operations do to a node (placement decided by the real IsTaskAllocatable / GetNodePreferableGpuForSharing, evict, undo in LIFO order); stream 'arbitrary' applies add/remove/update/consolidate with any active status and any groups, including error paths. Non-trivial = at least 3 operations of at least 2 kinds; distinct by the full operation list. WORKLOAD CLAUSE (streams job-ops / statement / cycle): real PodGroupInfo objects observed after every operation - the pods held with their statuses next to Allocated (structured and vector), GetActiveAllocatedTasksCount, PodStatusIndex member by member, GetNumPendingTasks / GetNumGatedTasks / GetNumActiveUsedTasks / GetNumAllocatedTasks / GetNumAliveTasks / GetActivelyRunningTasksCount, IsGangSatisfied / IsReadyForScheduling / IsStale / ShouldPipelineJob / IsElastic and every PodSet's minAvailable, pod count, GetNumActiveAllocatedTasks / GetNumActiveUsedTasks / GetNumAliveTasks / GetNumPendingTasks / GetNumGatedTasks and predicates. job-ops: n/3 programs of 6-24 AddTaskInfo / UpdateTaskStatus calls on one PodGroupInfo (2-6 pods: cpu-only, whole GPU, fraction incl. 0.2 / 0.3 / 0.33, multi-fraction, gpu-memory, MIG, extended resource, best effort; one default pod set or 2-3 named pod sets flat or under sub-group sets; a pod in twelve names a sub group the job does not have; updates of pods the job does not hold) plus a corpus run every time: one pod through ALL 144 ordered status pairs there and back, the pending gang of seeded/C14-4 nominated and un-nominated, and three histories the scheduler does not issue (stale copy, stale copy without an index for its status, pod added twice: correspondence only). statement: n/40 random programs of 6-28 commands on real Statements of sessions assembled by cycle.Build from generated clusters (common.AllocateJob with its own checkpoints / rollbacks, placement of one pod through Statement.Allocate / Pipeline / gpu_sharing.AllocateFractionalGPUTaskToNode, Evict, Unevict, Checkpoint, Rollback, Discard, Commit, ConvertAllAllocatedToPipelined) plus the seeded change's scenarios (pipeline then rollback / discard, AllocateJob of a gang that does not fit). cycle: n/20 generated clusters through the real actions (allocate and a random subset of consolidation, reclaim, preempt, stalegangeviction) plus the seeded change's allocate scenario. In both session streams an event handler registered after the plugins observes the affected job inside EVERY allocate / deallocate event (every Statement primitive and every undo of it, including the scenario solvers' simulations), and all jobs are observed after every command / action. Non-trivial (workload) = at least 3 observations. QUEUE CLAUSE (stream queue): max(n/8,12) real sessions opened with all default plugins (the proportion plugin instance of the session is kept) on clusters of the shared generator extended with an empty node of another device memory (half of the cases), pods moved to Bound / Binding / Allocated / Gated / Succeeded / Failed / Unknown, 1-3 extra jobs with pending gpu-memory (one and 2-3 devices), odd-fraction (0.3 / 0.33 / 0.2 / 0.7, one or two devices), whole-GPU and cpu-only pods, preemptible and non-preemptible, and a queue forest of depth 1-3 (leaf queues top level; under one or two departments; departments under an organisation or next to it); ClusterInfo.MinNodeGPUMemory is the smallest device memory over the nodes in half of the cases and the value the snapshot computes today (100) in the others. Plus the snapshot of seeded/C14-5. Observed for every queue: Allocated, AllocatedNotPreemptible and Request of CPU / memory / GPU as exact float64 values (+Inf / NaN tagged) from the plugin own rs.QueueAttributes and Session.QueueAllocatedResources, next to all pods with status and node: at session open, inside the first 24 allocate / deallocate events, after every command of a random Statement program (even cases) or after every real action, allocate first (odd cases). Non-trivial (queue) = at least 2 observations."
	return out.Flush()
}
