package cycle

import (
	"fmt"
	"strings"

	"github.com/NVIDIA/KAI-scheduler/pkg/scheduler/api/pod_status"

	"kaiverif/internal/core"
	u "kaiverif/internal/util"
)

type nodeRoom struct {
	cpu, mem, gpus, pods int64
	gm                   int64 // memory of one device (MiB)
	groups               map[string]int64 // group -> free memory
	ngroups              int
}

// Gen draws a cluster whose snapshot is consistent: running pods were placed within capacity.
func Gen(r *u.Rng) Cluster {
	var c Cluster
	nn := r.Range(1, 3)
	rooms := map[string]*nodeRoom{}
	// memory of one device, the same on every node of the case: the default of unlabelled test nodes (100) or,
	// one case in four, a realistic size (label nvidia.com/gpu.memory, a multiple of 100 MiB)
	gm := int64(100)
	if r.Chance(1, 4) {
		gm = int64(u.Pick(r, []int{16300, 40900, 81900}))
	}
	for i := 0; i < nn; i++ {
		ns := core.NodeSpec{Name: fmt.Sprintf("n%d", i+1), Cpu: int64(u.Pick(r, []int{4000, 8000})), Mem: 16 << 30,
			Gpus: int64(u.Pick(r, []int{0, 1, 2, 2, 4})), Pods: int64(u.Pick(r, []int{4, 110, 110}))}
		if gm != 100 {
			ns.GpuMem = gm
		}
		c.Nodes = append(c.Nodes, ns)
		rooms[ns.Name] = &nodeRoom{cpu: ns.Cpu, mem: ns.Mem, gpus: ns.Gpus, pods: ns.Pods, gm: gm, groups: map[string]int64{}}
	}
	nq := r.Range(1, 3)
	for i := 0; i < nq; i++ {
		c.Queues = append(c.Queues, Queue{Name: fmt.Sprintf("q%d", i+1), Deserved: float64(u.Pick(r, []int{0, 1, 2, 4})),
			Limit: float64(u.Pick(r, []int{0, 0, 0, 1, 2, 3})), OverQuota: float64(u.Pick(r, []int{1, 1, 2})), Priority: u.Pick(r, []int{100, 100, 200})})
	}
	nj := r.Range(2, 7)
	for i := 0; i < nj; i++ {
		j := Job{Name: fmt.Sprintf("j%d", i+1), Queue: u.Pick(r, c.Queues).Name, Priority: int32(u.Pick(r, []int{50, 50, 75, 100, 125})),
			AgeMinutes: r.Range(1, 50), StartedMins: r.Range(1, 120)}
		np := r.Range(1, 3)
		j.MinMember = int32(r.Range(1, np))
		proto := core.PodSpec{Cpu: int64(u.Pick(r, []int{250, 1000, 2000})), Mem: 1 << 30}
		switch r.Intn(8) {
		case 0, 1, 2:
			proto.Gpus = int64(r.Range(1, 2))
		case 3, 4:
			proto.Fraction = u.Pick(r, []string{"0.5", "0.25", "0.75"})
			if r.Chance(1, 5) {
				proto.NumDev = 2
			}
		case 5:
			proto.GpuMemory = int64(u.Pick(r, []int{25, 50, 100}))
			if gm != 100 {
				// around the device size and the 1/100 rounding steps of the portion
				proto.GpuMemory = u.Pick(r, []int64{gm / 4, gm / 2, gm - 1, gm, gm + 1, gm + gm/300, gm + gm/200, gm + gm/200 + 1})
			}
		case 6:
			proto.Cpu, proto.Mem = 0, 0 // best effort
		default:
		}
		// two pod sets sometimes: flat, or each under its own grouping sub-group set (hierarchical gang)
		protoB := proto
		if np >= 2 && r.Chance(1, 3) {
			j.SubGroups = []SubGroup{{Name: "a", MinMember: 1}, {Name: "b", MinMember: int32(r.Range(1, np-1))}}
			if r.Bool() {
				j.SubGroups = []SubGroup{{Name: "ga"}, {Name: "gb"}, {Name: "a", MinMember: 1, Parent: "ga"},
					{Name: "b", MinMember: int32(np - 1), Parent: "gb"}}
				// the pods of the second pod set are bigger, so that one replica can fit where the other cannot
				if protoB.Gpus > 0 {
					protoB.Gpus = 2
				}
			}
		}
		mode := r.Intn(5) // 0,1 pending; 2 running; 3 mixed; 4 running with a terminating pod
		for k := 0; k < np; k++ {
			p := proto
			if len(j.SubGroups) > 0 {
				if k == 0 {
					p.SubGroup = "a"
				} else {
					p = protoB
					p.SubGroup = "b"
				}
			}
			p.Name = fmt.Sprintf("%s-%d", j.Name, k)
			p.Status = pod_status.Pending
			wantRun := mode == 2 || mode == 4 || (mode == 3 && int32(k) < j.MinMember)
			if wantRun {
				if node, groups, ok := place(r, rooms, c.Nodes, p); ok {
					p.Node, p.Groups = node, groups
					p.Status = pod_status.Running
					if mode == 4 && k == np-1 {
						p.Status = pod_status.Releasing
					}
				}
			}
			j.Pods = append(j.Pods, p)
		}
		c.Jobs = append(c.Jobs, j)
	}
	c.Actions = []string{"allocate"}
	for _, a := range []string{"consolidation", "reclaim", "preempt", "stalegangeviction"} {
		if r.Chance(2, 3) {
			c.Actions = append(c.Actions, a)
		}
	}
	return c
}

func place(r *u.Rng, rooms map[string]*nodeRoom, nodes []core.NodeSpec, p core.PodSpec) (string, []string, bool) {
	order := r.Intn(len(nodes))
	for i := range nodes {
		n := nodes[(i+order)%len(nodes)]
		rm := rooms[n.Name]
		if rm.cpu < p.Cpu || rm.mem < p.Mem || rm.pods < 1 {
			continue
		}
		var groups []string
		if p.Fraction != "" || p.GpuMemory > 0 {
			need := p.GpuMemory
			if need > rm.gm {
				continue // cannot be running on one device
			}
			if p.Fraction != "" {
				switch p.Fraction {
				case "0.5":
					need = rm.gm / 2
				case "0.25":
					need = rm.gm / 4
				case "0.75":
					need = rm.gm * 3 / 4
				}
			}
			nd := int(p.NumDev)
			if nd < 1 {
				nd = 1
			}
			// existing groups with room first (sorted by name for determinism), then fresh devices
			names := []string{}
			for g, free := range rm.groups {
				if free >= need {
					names = append(names, g)
				}
			}
			sortStrings(names)
			for _, g := range names {
				if len(groups) < nd {
					groups = append(groups, g)
				}
			}
			fresh := nd - len(groups)
			if int64(fresh) > rm.gpus {
				continue
			}
			for k := 0; k < fresh; k++ {
				rm.ngroups++
				g := fmt.Sprintf("%s-G%d", n.Name, rm.ngroups)
				rm.groups[g] = rm.gm
				rm.gpus--
				groups = append(groups, g)
			}
			for _, g := range groups {
				rm.groups[g] -= need
			}
		} else {
			if rm.gpus < p.Gpus {
				continue
			}
			rm.gpus -= p.Gpus
		}
		rm.cpu -= p.Cpu
		rm.mem -= p.Mem
		rm.pods--
		return n.Name, groups, true
	}
	return "", nil, false
}

func sortStrings(xs []string) {
	for i := 1; i < len(xs); i++ {
		for j := i; j > 0 && xs[j] < xs[j-1]; j-- {
			xs[j], xs[j-1] = xs[j-1], xs[j]
		}
	}
}

// gangCorpus: hierarchical victims that can be put back only in part, under preempt, reclaim and consolidation.
func gangCorpus() []Cluster {
	var out []Cluster
	victim := func(queue string, small, large int64) Job {
		j := Job{Name: "victim", Queue: queue, Priority: 50, MinMember: 4, AgeMinutes: 30, StartedMins: 60,
			SubGroups: []SubGroup{{Name: "ga"}, {Name: "gb"}, {Name: "a", MinMember: 2, Parent: "ga"}, {Name: "b", MinMember: 2, Parent: "gb"}}}
		for k := 0; k < 4; k++ {
			p := core.PodSpec{Name: fmt.Sprintf("victim-%d", k), Cpu: 250, Mem: 1 << 30, Gpus: small, SubGroup: "a",
				Status: pod_status.Running, Node: "n1"}
			if k >= 2 {
				p.Gpus, p.SubGroup = large, "b"
			}
			j.Pods = append(j.Pods, p)
		}
		return j
	}
	taker := func(queue string, prio int32, gpus int64) Job {
		return Job{Name: "taker", Queue: queue, Priority: prio, MinMember: 1, AgeMinutes: 5, StartedMins: 5,
			Pods: []core.PodSpec{{Name: "taker-0", Cpu: 250, Mem: 1 << 30, Gpus: gpus, Status: pod_status.Pending}}}
	}
	node := func(gpus int64) []core.NodeSpec {
		return []core.NodeSpec{{Name: "n1", Cpu: 16000, Mem: 64 << 30, Gpus: gpus, Pods: 110}}
	}
	for _, acts := range [][]string{{"allocate", "preempt"}, {"allocate", "consolidation", "reclaim", "preempt", "stalegangeviction"}} {
		// preempt inside one queue: the taker needs 4 of 8 GPUs, 2 are idle
		out = append(out, Cluster{Nodes: node(8), Queues: []Queue{{Name: "q1", Deserved: 8, OverQuota: 1, Priority: 100}},
			Jobs: []Job{victim("q1", 1, 2), taker("q1", 100, 4)}, Actions: acts})
		// the mirror image: the small replica is the one that cannot be put back
		out = append(out, Cluster{Nodes: node(8), Queues: []Queue{{Name: "q1", Deserved: 8, OverQuota: 1, Priority: 100}},
			Jobs: []Job{victim("q1", 2, 1), taker("q1", 100, 4)}, Actions: acts})
	}
	// reclaim across queues: the victim's queue is over its quota, the taker's queue is within its own
	out = append(out, Cluster{Nodes: node(8), Queues: []Queue{{Name: "q1", Deserved: 2, OverQuota: 1, Priority: 100},
		{Name: "q2", Deserved: 6, OverQuota: 1, Priority: 100}},
		Jobs: []Job{victim("q1", 1, 2), taker("q2", 50, 4)}, Actions: []string{"allocate", "reclaim"}})
	return out
}

// ExtraStreams lets a property's own driver (harness/cmd/<id>) add case streams of its own to the run of that
// property: the function is called with the run's output and root PRNG before the cases are flushed.
var ExtraStreams = map[string]func(out *u.Out, root *u.Rng, n int) error{}

// Run generates n clusters, runs them and writes cases for the Run module of prop.
func Run(dir, prop string, seed uint64, n int) error {
	caseType, wrap := "ccase", "%s"
	if prop == "C03" {
		caseType, wrap = "c03case", "(GCycle %s)"
	}
	if prop == "C02" {
		caseType, wrap = "c02case", "(PCycle %s)"
	}
	if prop == "C01" {
		caseType, wrap = "c01case", "(FCycle %s)"
	}
	out := u.NewOut(dir, prop, "KaiV.Run."+prop, caseType, 40)
	out.Flags = true
	root := u.NewRng(seed)
	if prop == "C03" {
		// function-level correspondence for the gang bookkeeping (GetTasksToAllocate / GetTasksToEvict / readiness)
		for i := 0; i < 2*n; i++ {
			term, label := GangCase(root.Fork(uint64(1000000 + i)))
			out.Add(term, label)
			out.Count("gang-cases")
			out.NonTrivial(label)
		}
		// one gang through the real allocate action: the commit discipline (Model/GangAttempt.v)
		for i := 0; i < n; i++ {
			term, label, nt := AttemptCase(root.Fork(uint64(4000000 + i)))
			out.Add(term, label)
			out.Count("attempt-cases")
			if nt {
				out.Count("attempt-cases-with-a-decision")
				out.NonTrivial(label)
			}
			if strings.Contains(label, "bind(") && strings.Contains(label, "pipe(") {
				out.Count("attempt-cases-with-binds-and-nominations")
			}
		}
	}
	if prop == "C02" || prop == "C01" {
		// function-level correspondence for the choice of GPU groups (GetNodePreferableGpuForSharing)
		nd := 3 * n
		for i := 0; i < nd; i++ {
			term, label := DecisionCase(root.Fork(uint64(2000000 + i)))
			if prop == "C01" {
				term = strings.Replace(term, "(PDecision ", "(FDecision ", 1)
			}
			out.Add(term, label)
			out.Count("decision-cases")
			out.NonTrivial(label)
		}
	}
	if prop == "C01" {
		// how the snapshot classifies a pod and whether it is accounted on its node: all 80 combinations, every run
		StatusCases(func(term, label string) {
			out.Add(term, label)
			out.Count("snapshot-status-rows")
			out.NonTrivial(label)
		})
	}
	if prop == "C01" || prop == "C02" {
		faultWrap := "(FFault %s)"
		if prop == "C02" {
			faultWrap = "(PFault %s)"
		}
		// cycles with failing Bind / Evict API calls: the books are not compared (a failed commit leaves
		// un-emitted operations applied for the rest of the cycle), the decisions still have to be safe
		for i := 0; i < n; i++ {
			r := root.Fork(uint64(3000000 + i))
			c := Gen(r)
			for k := 0; k < 8; k++ {
				if r.Chance(1, 3) {
					c.FailBinds = append(c.FailBinds, k)
				}
				if r.Chance(1, 5) {
					c.FailEvicts = append(c.FailEvicts, k)
				}
			}
			term, label, st := Emit(c)
			out.Add(fmt.Sprintf(faultWrap, term), "faults "+label)
			out.Count("fault-cycles")
			if strings.Contains(label, "FAILED") {
				out.Count("fault-cycles-with-a-failed-call")
				out.NonTrivial(label)
			}
			_ = st
		}
	}
	if prop == "C03" {
		// fixed worlds: a running hierarchical gang (two grouping sub-group sets, one pod set each) is the only
		// victim of a bigger workload; after the eviction only one of its replicas can be put back (seeded/C03-1)
		for _, c := range gangCorpus() {
			term, label, _ := Emit(c)
			out.Add(fmt.Sprintf(wrap, term), "corpus "+label)
			out.Count("corpus-cycles")
			out.NonTrivial(label)
		}
	}
	for i := 0; i < n; i++ {
		r := root.Fork(uint64(i))
		c := Gen(r)
		term, label, st := Emit(c)
		out.Add(fmt.Sprintf(wrap, term), label)
		calls := 0
		for k, v := range st {
			out.CountN(k, v)
			calls += v
		}
		out.CountN("actions", len(c.Actions))
		if calls == 0 {
			out.Count("cycles-without-decisions")
		}
		// non-trivial: the cycle made at least one decision; distinct by cluster + decisions
		if calls > 0 {
			out.NonTrivial(label)
		}
		out.Sample(label)
	}
	out.Stats["rule"] = "generated clusters (1-3 nodes, 0-4 GPUs of 100 MiB or, one case in four, 16300 / 40900 / 81900 MiB with gpu-memory requests around the device size, 1-3 queues with quotas/limits, 2-7 jobs of 1-3 pods: whole / fractional / multi-fraction / gpu-memory / cpu-only / best-effort, gangs with minMember and two pod sets, pending / running / mixed / terminating) assembled with the real constructors; the real actions (allocate, then a random subset of consolidation, reclaim, preempt, stalegangeviction) run once with the default plugin tiers and a recording cache. Non-trivial = the cycle issued at least one Bind / Evict / TaskPipelined; distinct by cluster and decisions."
	switch prop {
	case "C01":
		out.Stats["rule"] = out.Stats["rule"].(string) + " Plus the same kind of clusters with injected failures of the k-th Bind / Evict Cache call (k < 8, each with probability 1/3 resp. 1/5): only the monitor (occupying + successfully bound <= allocatable) is evaluated on them. Plus, exhaustively, the 80 combinations of pod phase x deletionTimestamp x spec.nodeName x BindRequest x scheduling gates through the real PodInfo constructor and NodeInfo.AddTasksToNode (status and whether the pod is accounted on its node). Plus function-level decision cases (as in C02): the real GetNodePreferableGpuForSharing on generated nodes with running, terminating, bound and nominated occupants and a pending fractional / multi-fraction / gpu-memory task."
	case "C02":
		out.Stats["rule"] = out.Stats["rule"].(string) + " Plus the same kind of clusters with injected failures of the k-th Bind / Evict Cache call (k < 8, each with probability 1/3 resp. 1/5): only the device monitor is evaluated on them. Plus function-level decision cases: generated nodes (1-4 GPUs, up to 6 shared / whole-GPU occupants running, terminating, bound or nominated) and a pending fractional / multi-fraction / gpu-memory task; the real GetNodePreferableGpuForSharing is called with the candidate list in pack, spread or shuffled order."
	case "C03":
		out.Stats["rule"] = out.Stats["rule"].(string) + " Plus function-level gang cases: generated pod groups (1-3 pod sets, 0-4 pods each in any status, real or simulated allocation) on which the real GetTasksToAllocate / GetTasksToEvict / readiness getters are called with the production pod-set order. Plus attempt cases: one pending gang (1-3 pod sets, minimum 1-3 each, some pods already running, one pod set in three with a terminating pod of its own, single-set gangs with 0-2 surplus pods, one in five multi-set gangs not ready) on 1-3 nodes of 1-4 GPUs partly held by running or terminating filler pods, through the real allocate action; the model's allocate loop is driven by the observed Bind / TaskPipelined calls per pod set and must end in the observed statuses."
	}
	if extra := ExtraStreams[prop]; extra != nil {
		if err := extra(out, root, n); err != nil {
			return err
		}
	}
	return out.Flush()
}
