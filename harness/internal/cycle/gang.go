package cycle

import (
	"fmt"
	"sort"
	"strings"

	metav1 "k8s.io/apimachinery/pkg/apis/meta/v1"
	"k8s.io/apimachinery/pkg/types"

	enginev2alpha2 "github.com/NVIDIA/KAI-scheduler/pkg/apis/scheduling/v2alpha2"
	"github.com/NVIDIA/KAI-scheduler/pkg/scheduler/api/common_info"
	"github.com/NVIDIA/KAI-scheduler/pkg/scheduler/api/pod_info"
	"github.com/NVIDIA/KAI-scheduler/pkg/scheduler/api/pod_status"
	"github.com/NVIDIA/KAI-scheduler/pkg/scheduler/api/podgroup_info"
	"github.com/NVIDIA/KAI-scheduler/pkg/scheduler/api/podgroup_info/subgroup_info"
	"github.com/NVIDIA/KAI-scheduler/pkg/scheduler/api/resource_info"
	"github.com/NVIDIA/KAI-scheduler/pkg/scheduler/plugins/subgrouporder"

	"kaiverif/internal/core"
	u "kaiverif/internal/util"
)

var gangStatuses = []pod_status.PodStatus{pod_status.Pending, pod_status.Pending, pod_status.Pending, pod_status.Running,
	pod_status.Running, pod_status.Releasing, pod_status.Pipelined, pod_status.Allocated, pod_status.Gated,
	pod_status.Bound, pod_status.Binding, pod_status.Succeeded, pod_status.Failed}

// GangCase drives the real GetTasksToAllocate / GetTasksToEvict / readiness getters on a generated pod group.
func GangCase(r *u.Rng) (term, label string) {
	vm := resource_info.NewResourceVectorMap()
	job := podgroup_info.NewPodGroupInfoWithVectorMap("g", vm)
	crd := &enginev2alpha2.PodGroup{ObjectMeta: metav1.ObjectMeta{Name: "g", Namespace: "ns", UID: types.UID("g")},
		Spec: enginev2alpha2.PodGroupSpec{Queue: "q", MinMember: int32(r.Range(1, 3))}}
	nsets := r.Pick3(1, 1, 2)
	if r.Chance(1, 5) {
		nsets = 3
	}
	names := []string{"a", "b", "c"}
	if nsets > 1 {
		for i := 0; i < nsets; i++ {
			crd.Spec.SubGroups = append(crd.Spec.SubGroups, enginev2alpha2.SubGroup{Name: names[i], MinMember: int32(r.Range(1, 3))})
		}
	}
	job.SetPodGroup(crd)
	ids := core.NewIds()
	type tk struct {
		name string
		st   pod_status.PodStatus
		virt bool
	}
	sets := map[string][]tk{}
	n := 0
	for i := 0; i < nsets; i++ {
		sg := ""
		if nsets > 1 {
			sg = names[i]
		}
		for k, np := 0, r.Range(0, 4); k < np; k++ {
			n++
			ps := core.PodSpec{Name: fmt.Sprintf("t%d", n), Job: "g", SubGroup: sg, Cpu: 100, Status: u.Pick(r, gangStatuses)}
			t := core.MkPod(ps, vm)
			if t.Status == pod_status.Releasing && r.Bool() {
				t.IsVirtualStatus = true
			}
			job.AddTaskInfo(t)
			key := sg
			if key == "" {
				key = "default"
			}
			sets[key] = append(sets[key], tk{ps.Name, t.Status, t.IsVirtualStatus})
		}
	}
	// the production order: the subgrouporder plugin's comparator, ties broken by name
	setLess := func(l, rr interface{}) bool {
		c := subgrouporder.PodSetOrderFn(l, rr)
		if c != 0 {
			return c < 0
		}
		return l.(*subgroup_info.PodSet).GetName() < rr.(*subgroup_info.PodSet).GetName()
	}
	taskLess := func(l, rr interface{}) bool { return l.(*pod_info.PodInfo).Name < rr.(*pod_info.PodInfo).Name }
	real := r.Bool()
	setNames := []string{}
	for nm := range job.GetSubGroups() {
		setNames = append(setNames, nm)
	}
	sort.Strings(setNames)
	sort.SliceStable(setNames, func(i, j int) bool {
		return setLess(job.GetSubGroups()[setNames[i]], job.GetSubGroups()[setNames[j]])
	})
	count := func(ts []*pod_info.PodInfo) map[string]int {
		m := map[string]int{}
		for _, t := range ts {
			k := t.SubGroupName
			if k == "" {
				k = "default"
			}
			m[k]++
		}
		return m
	}
	ready, sat, pipe := job.IsReadyForScheduling(), job.IsGangSatisfied(), job.ShouldPipelineJob()
	alloc := count(podgroup_info.GetTasksToAllocate(job, setLess, taskLess, real))
	ev, more := podgroup_info.GetTasksToEvict(job, setLess, taskLess)
	evc := count(ev)
	var psTerms, allocT, evT []string
	var desc []string
	for _, nm := range setNames {
		ps := job.GetSubGroups()[nm]
		var ts []string
		var d []string
		for _, t := range sets[nm] {
			ts = append(ts, fmt.Sprintf("(mkPT %s %s %s)", u.Pos(ids.Of("p:"+t.name)), core.StatusTerm(t.st), u.Bool(t.virt)))
			v := ""
			if t.virt {
				v = "*"
			}
			d = append(d, core.StatusTerm(t.st)+v)
		}
		psTerms = append(psTerms, fmt.Sprintf("(mkPS %s %s %s)", u.Pos(ids.Of("s:"+nm)), u.Z(int64(ps.GetMinAvailable())), u.List(ts)))
		desc = append(desc, fmt.Sprintf("%s(min=%d:%s)", nm, ps.GetMinAvailable(), strings.Join(d, ",")))
		if c, ok := alloc[nm]; ok {
			allocT = append(allocT, u.Pair(u.Pos(ids.Of("s:"+nm)), u.Z(int64(c))))
		}
		if c, ok := evc[nm]; ok {
			evT = append(evT, u.Pair(u.Pos(ids.Of("s:"+nm)), u.Z(int64(c))))
		}
	}
	term = fmt.Sprintf("(GGang (mkG %s %s %s %s %s %s %s %s))", u.List(psTerms), u.Bool(real), u.List(allocT), u.List(evT),
		u.Bool(more), u.Bool(ready), u.Bool(sat), u.Bool(pipe))
	label = fmt.Sprintf("gang real=%v sets[%s] => alloc%v evict%v more=%v", real, strings.Join(desc, " "), alloc, evc, more)
	_ = common_info.PodID("")
	return term, label
}
