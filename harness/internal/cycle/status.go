package cycle

import (
	"fmt"
	"time"

	v1 "k8s.io/api/core/v1"
	metav1 "k8s.io/apimachinery/pkg/apis/meta/v1"

	schedulingv1alpha2 "github.com/NVIDIA/KAI-scheduler/pkg/apis/scheduling/v1alpha2"
	"github.com/NVIDIA/KAI-scheduler/pkg/scheduler/api/bindrequest_info"
	"github.com/NVIDIA/KAI-scheduler/pkg/scheduler/api/common_info"
	"github.com/NVIDIA/KAI-scheduler/pkg/scheduler/api/pod_info"
	"github.com/NVIDIA/KAI-scheduler/pkg/scheduler/api/resource_info"

	"kaiverif/internal/core"
	u "kaiverif/internal/util"
)

// StatusCases enumerates EVERY combination of what the snapshot looks at when it classifies a pod
// (phase x deletionTimestamp x spec.nodeName x BindRequest x scheduling gates: 5*2*2*2*2 = 80 rows), builds the
// PodInfo with the real constructor (pod_info.NewTaskInfoWithBindRequest -> getTaskStatus) and hands it to the
// real NodeInfo.AddTasksToNode of the node it names: observed = (status, accounted on the node).
func StatusCases(emit func(term, label string)) {
	phases := []v1.PodPhase{v1.PodPending, v1.PodRunning, v1.PodSucceeded, v1.PodFailed, v1.PodUnknown}
	phaseTerm := map[v1.PodPhase]string{v1.PodPending: "PhPending", v1.PodRunning: "PhRunning", v1.PodSucceeded: "PhSucceeded",
		v1.PodFailed: "PhFailed", v1.PodUnknown: "PhUnknown"}
	for _, ph := range phases {
		for bits := 0; bits < 16; bits++ {
			del, onNode, hasBR, gated := bits&1 != 0, bits&2 != 0, bits&4 != 0, bits&8 != 0
			vm := resource_info.NewResourceVectorMap()
			spec := core.PodSpec{Name: "p", Job: "j", Cpu: 500, Mem: 1 << 30, Gpus: 1}
			if onNode {
				spec.Node = "n1"
			}
			pod := spec.K8s()
			pod.Status.Phase = ph
			if del {
				now := metav1.NewTime(time.Unix(1700000000, 0))
				pod.DeletionTimestamp = &now
			}
			if gated {
				pod.Spec.SchedulingGates = []v1.PodSchedulingGate{{Name: "g"}}
			}
			var br *bindrequest_info.BindRequestInfo
			if hasBR {
				br = bindrequest_info.NewBindRequestInfo(&schedulingv1alpha2.BindRequest{
					ObjectMeta: metav1.ObjectMeta{Name: "p", Namespace: "ns"},
					Spec:       schedulingv1alpha2.BindRequestSpec{PodName: "p", SelectedNode: "n1"}})
			}
			ti := pod_info.NewTaskInfoWithBindRequest(pod, br, nil, vm)
			node := core.MkNode(core.NodeSpec{Name: "n1", Cpu: 8000, Mem: 16 << 30, Gpus: 2, Pods: 110}, vm)
			accounted := false
			if ti.NodeName == "n1" {
				node.AddTasksToNode([]*pod_info.PodInfo{ti}, map[common_info.PodID]*pod_info.PodInfo{})
				accounted = len(node.PodInfos) == 1 && node.Used.GPUs() == 1
			}
			term := fmt.Sprintf("(FStatus (mkSC %s %s %s %s %s %s %s))", phaseTerm[ph], u.Bool(del), u.Bool(onNode), u.Bool(hasBR),
				u.Bool(gated), core.StatusTerm(ti.Status), u.Bool(accounted))
			label := fmt.Sprintf("snapshot-status phase=%s deleting=%v nodeName=%v bindRequest=%v gated=%v => status=%s accounted-on-node=%v",
				ph, del, onNode, hasBR, gated, core.StatusTerm(ti.Status), accounted)
			emit(term, label)
		}
	}
}
