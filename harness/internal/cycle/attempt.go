package cycle

import (
	"fmt"
	"sort"
	"strings"

	"github.com/NVIDIA/KAI-scheduler/pkg/scheduler/api/common_info"
	"github.com/NVIDIA/KAI-scheduler/pkg/scheduler/api/pod_status"
	"github.com/NVIDIA/KAI-scheduler/pkg/scheduler/api/podgroup_info/subgroup_info"
	"github.com/NVIDIA/KAI-scheduler/pkg/scheduler/plugins/subgrouporder"

	"kaiverif/internal/core"
	u "kaiverif/internal/util"
)

// AttemptCase runs the real allocate action on a small cluster built around ONE pending gang
// (1-3 pod sets, some of its pods already running, capacity partly idle, partly held by terminating
// pods, partly missing) and reports, for that gang, the pod sets before the action (in the production
// pop order), the Bind / TaskPipelined calls of its pods per pod set in commit order (the placement
// oracle of coq/Model/GangAttempt.v) and the number of pods per status in every pod set afterwards.
// Multi-set gangs carry no elastic surplus (pending <= missing to the minimum in every pod set), so
// that the order in which later attempts visit the pod sets cannot matter; single-set gangs may.
func AttemptCase(r *u.Rng) (term, label string, nontrivial bool) {
	nn := r.Range(1, 3)
	c := Cluster{Actions: []string{"allocate"}}
	c.Queues = []Queue{{Name: "q1", Deserved: 16, Limit: 0, OverQuota: 1, Priority: 100}}
	free := map[string]int64{}
	for i := 0; i < nn; i++ {
		g := int64(r.Range(1, 4))
		name := fmt.Sprintf("n%d", i+1)
		c.Nodes = append(c.Nodes, core.NodeSpec{Name: name, Cpu: 32000, Mem: 64 << 30, Gpus: g, Pods: 110})
		free[name] = g
	}
	nodeNames := func() []string {
		var l []string
		for _, n := range c.Nodes {
			l = append(l, n.Name)
		}
		return l
	}()
	take := func() string { // a node with a free GPU, "" when none
		var cand []string
		for _, n := range nodeNames {
			if free[n] > 0 {
				cand = append(cand, n)
			}
		}
		if len(cand) == 0 {
			return ""
		}
		n := u.Pick(r, cand)
		free[n]--
		return n
	}
	// the gang
	nsets := r.Pick3(1, 1, 2)
	if r.Chance(1, 6) {
		nsets = 3
	}
	names := []string{"a", "b", "c"}
	j := Job{Name: "g", Queue: "q1", Priority: 50, AgeMinutes: 5, StartedMins: 3}
	np := 0
	for i := 0; i < nsets; i++ {
		sg := ""
		min := r.Range(1, 3)
		if nsets > 1 {
			sg = names[i]
			j.SubGroups = append(j.SubGroups, SubGroup{Name: sg, MinMember: int32(min)})
		}
		j.MinMember += int32(min)
		running := r.Range(0, min)
		if r.Chance(1, 2) {
			running = 0
		}
		placed := 0
		for k := 0; k < running; k++ {
			n := take()
			if n == "" {
				break
			}
			np++
			j.Pods = append(j.Pods, core.PodSpec{Name: fmt.Sprintf("g-%d", np), Cpu: 250, Mem: 1 << 30, Gpus: 1, Status: pod_status.Running, Node: n, SubGroup: sg})
			placed++
		}
		// a terminating pod of the gang's own pod set (a restart whose replacement is already pending): it still
		// holds its GPU, counts as active-used but not as active-allocated
		if r.Chance(1, 3) {
			if n := take(); n != "" {
				np++
				j.Pods = append(j.Pods, core.PodSpec{Name: fmt.Sprintf("g-%d", np), Cpu: 250, Mem: 1 << 30, Gpus: 1, Status: pod_status.Releasing, Node: n, SubGroup: sg})
			}
		}
		pending := min - placed
		if nsets == 1 {
			pending += r.Range(0, 2) // elastic surplus
		} else if r.Chance(1, 5) && pending > 0 {
			pending-- // not ready
		}
		for k := 0; k < pending; k++ {
			np++
			j.Pods = append(j.Pods, core.PodSpec{Name: fmt.Sprintf("g-%d", np), Cpu: 250, Mem: 1 << 30, Gpus: 1, Status: pod_status.Pending, SubGroup: sg})
		}
	}
	// fillers: running and terminating one-GPU pods of another job
	f := Job{Name: "f", Queue: "q1", Priority: 50, MinMember: 1, AgeMinutes: 50, StartedMins: 40}
	for k, nf := 0, r.Range(0, 5); k < nf; k++ {
		n := take()
		if n == "" {
			break
		}
		st := pod_status.Running
		if r.Chance(1, 2) {
			st = pod_status.Releasing
		}
		f.Pods = append(f.Pods, core.PodSpec{Name: fmt.Sprintf("f-%d", k), Cpu: 250, Mem: 1 << 30, Gpus: 1, Status: st, Node: n})
	}
	if len(f.Pods) > 0 {
		c.Jobs = append(c.Jobs, f)
	}
	c.Jobs = append(c.Jobs, j)

	b := Build(c)
	job := b.Jobs[common_info.PodGroupID("g")]
	if job == nil {
		for id, jj := range b.Jobs {
			if jj.Name == "g" {
				job = b.Jobs[id]
			}
		}
	}
	setLess := func(l, rr *subgroup_info.PodSet) bool {
		cmp := subgrouporder.PodSetOrderFn(l, rr)
		if cmp != 0 {
			return cmp < 0
		}
		return l.GetName() < rr.GetName()
	}
	var setNames []string
	for nm := range job.GetSubGroups() {
		setNames = append(setNames, nm)
	}
	sort.Strings(setNames)
	sort.SliceStable(setNames, func(x, y int) bool { return setLess(job.GetSubGroups()[setNames[x]], job.GetSubGroups()[setNames[y]]) })
	ids := core.NewIds()
	setOf := map[string]string{} // pod -> pod set
	var psTerms, desc []string
	for _, nm := range setNames {
		ps := job.GetSubGroups()[nm]
		var pods []string
		for _, t := range ps.GetPodInfos() {
			pods = append(pods, t.Name)
		}
		sort.Strings(pods)
		var ts, d []string
		for _, pn := range pods {
			t := b.Tasks[pn]
			setOf[pn] = nm
			ts = append(ts, fmt.Sprintf("(mkPT %s %s %s)", u.Pos(ids.Of("p:"+pn)), core.StatusTerm(t.Status), u.Bool(t.IsVirtualStatus)))
			d = append(d, core.StatusTerm(t.Status))
		}
		psTerms = append(psTerms, fmt.Sprintf("(mkPS %s %s %s)", u.Pos(ids.Of("s:"+nm)), u.Z(int64(ps.GetMinAvailable())), u.List(ts)))
		desc = append(desc, fmt.Sprintf("%s(min=%d:%s)", nm, ps.GetMinAvailable(), strings.Join(d, ",")))
	}
	msg := RunActions(b, c.Actions)
	// the oracle: outcomes per pod set, in commit order
	oracle := map[string][]string{}
	var calls []string
	for _, cl := range b.Rec.Calls() {
		nm, mine := setOf[cl.Pod]
		if !mine {
			continue
		}
		switch cl.Kind {
		case "bind":
			oracle[nm] = append(oracle[nm], "OBound")
		case "pipe":
			oracle[nm] = append(oracle[nm], "OPiped")
		default:
			oracle[nm] = append(oracle[nm], "OFail") // an eviction of the gang's pod by allocate: never expected
		}
		calls = append(calls, fmt.Sprintf("%s(%s)", cl.Kind, cl.Pod))
	}
	var om, fin []string
	for _, nm := range setNames {
		om = append(om, u.Pair(u.Pos(ids.Of("s:"+nm)), u.List(oracle[nm])))
		ps := job.GetSubGroups()[nm]
		cnt := map[pod_status.PodStatus]int{}
		for _, t := range ps.GetPodInfos() {
			st := t.Status
			if st == pod_status.Binding { // what a committed Allocated pod turns into
				st = pod_status.Allocated
			}
			cnt[st]++
		}
		fin = append(fin, fmt.Sprintf("(%s, (%s, %s, %s))", u.Pos(ids.Of("s:"+nm)), u.Z(int64(cnt[pod_status.Allocated])),
			u.Z(int64(cnt[pod_status.Pipelined])), u.Z(int64(cnt[pod_status.Pending]))))
	}
	term = fmt.Sprintf("(GAttempt (mkGA %s %s %s %s))", u.List(psTerms), u.List(om), u.List(fin), u.Bool(msg != ""))
	label = fmt.Sprintf("attempt nodes%v sets[%s] fillers=%d => %s", c.Nodes2(), strings.Join(desc, " "), len(f.Pods), strings.Join(calls, " "))
	if msg != "" {
		label += " PANIC"
	}
	return term, label, len(calls) > 0
}

// Nodes2 renders the nodes of a cluster compactly.
func (c Cluster) Nodes2() []string {
	var l []string
	for _, n := range c.Nodes {
		l = append(l, fmt.Sprintf("%s:gpu%d", n.Name, n.Gpus))
	}
	return l
}
