// Package cycle runs the real scheduler actions on generated clusters through
// a session assembled from the real constructors (NodeInfo, PodInfo,
// PodGroupInfo, QueueInfo, default plugin tiers) with a recording cache, and
// emits snapshot + Cache calls + final node books as Coq cases for
// Run/Cycle.v (monitors of C01, C02, C03, ...).
package cycle

import (
	"fmt"
	"os"
	"runtime/debug"
	"sort"
	"strings"
	"time"

	"go.uber.org/mock/gomock"
	v1 "k8s.io/api/core/v1"
	metav1 "k8s.io/apimachinery/pkg/apis/meta/v1"
	"k8s.io/apimachinery/pkg/types"

	enginev2alpha2 "github.com/NVIDIA/KAI-scheduler/pkg/apis/scheduling/v2alpha2"
	pg "github.com/NVIDIA/KAI-scheduler/pkg/common/podgroup"
	"github.com/NVIDIA/KAI-scheduler/pkg/scheduler/actions"
	"github.com/NVIDIA/KAI-scheduler/pkg/scheduler/api/common_info"
	"github.com/NVIDIA/KAI-scheduler/pkg/scheduler/api/eviction_info"
	"github.com/NVIDIA/KAI-scheduler/pkg/scheduler/api/node_info"
	"github.com/NVIDIA/KAI-scheduler/pkg/scheduler/api/pod_info"
	"github.com/NVIDIA/KAI-scheduler/pkg/scheduler/api/pod_status"
	"github.com/NVIDIA/KAI-scheduler/pkg/scheduler/api/podgroup_info"
	"github.com/NVIDIA/KAI-scheduler/pkg/scheduler/api/resource_info"
	"github.com/NVIDIA/KAI-scheduler/pkg/scheduler/cache"
	"github.com/NVIDIA/KAI-scheduler/pkg/scheduler/cache/cluster_info"
	"github.com/NVIDIA/KAI-scheduler/pkg/scheduler/conf"
	"github.com/NVIDIA/KAI-scheduler/pkg/scheduler/framework"
	"github.com/NVIDIA/KAI-scheduler/pkg/scheduler/plugins"
	"github.com/NVIDIA/KAI-scheduler/pkg/scheduler/test_utils"

	"kaiverif/internal/core"
	u "kaiverif/internal/util"
)

type SubGroup struct {
	Name      string
	MinMember int32
	Parent    string // "" = directly under the root
}

type Job struct {
	Name        string
	Queue       string
	Priority    int32
	MinMember   int32
	SubGroups   []SubGroup
	AgeMinutes  int
	StartedMins int // minutes since last start (running jobs)
	Pods        []core.PodSpec
}

type Queue struct {
	Name                      string
	Deserved, Limit, OverQuota float64 // GPUs
	Priority                  int
}

type Cluster struct {
	Nodes   []core.NodeSpec
	Queues  []Queue
	Jobs    []Job
	Actions []string
	// fault injection: indices of the Bind / Evict Cache calls that fail
	FailBinds  []int
	FailEvicts []int
}

type Call struct {
	Kind      string // bind | evict | pipe
	Pod, Node string
	Groups    []string
	Action    string
	Preemptor string
}

func (r *recorder) Calls() []Call { return r.calls }

type recorder struct {
	cache.Cache
	calls     []Call
	nbind     int
	nevict    int
	FailBind  map[int]bool // the k-th Bind call (0-based) returns an error
	FailEvict map[int]bool
}

func (r *recorder) Bind(p *pod_info.PodInfo, hostname string, ann map[string]string) error {
	k := r.nbind
	r.nbind++
	if r.FailBind[k] {
		r.calls = append(r.calls, Call{Kind: "bindfail", Pod: p.Name, Node: hostname, Groups: append([]string{}, p.GPUGroups...)})
		return fmt.Errorf("injected bind failure #%d", k)
	}
	r.calls = append(r.calls, Call{Kind: "bind", Pod: p.Name, Node: hostname, Groups: append([]string{}, p.GPUGroups...)})
	return nil
}

func (r *recorder) Evict(pod *v1.Pod, job *podgroup_info.PodGroupInfo, md eviction_info.EvictionMetadata, msg string) error {
	c := Call{Kind: "evict", Pod: pod.Name, Action: md.Action}
	if md.Preemptor != nil {
		c.Preemptor = md.Preemptor.Name
	}
	k := r.nevict
	r.nevict++
	if r.FailEvict[k] {
		c.Kind = "evictfail"
		r.calls = append(r.calls, c)
		return fmt.Errorf("injected evict failure #%d", k)
	}
	r.calls = append(r.calls, c)
	return nil
}

func (r *recorder) TaskPipelined(t *pod_info.PodInfo, msg string) {
	r.calls = append(r.calls, Call{Kind: "pipe", Pod: t.Name, Node: t.NodeName, Groups: append([]string{}, t.GPUGroups...)})
}

type reporter struct{ msgs []string }

func (r *reporter) Errorf(format string, args ...any) { r.msgs = append(r.msgs, fmt.Sprintf(format, args...)) }
func (r *reporter) Fatalf(format string, args ...any) { r.msgs = append(r.msgs, fmt.Sprintf(format, args...)) }

var initOnce bool

// Session assembled from real constructors.
type Built struct {
	Ssn   *framework.Session
	Rec   *recorder
	Nodes map[string]*node_info.NodeInfo
	Jobs  map[common_info.PodGroupID]*podgroup_info.PodGroupInfo
	Tasks map[string]*pod_info.PodInfo
	VM    *resource_info.ResourceVectorMap
	Rep   *reporter
}

func Build(c Cluster) *Built {
	if !initOnce {
		actions.InitDefaultActions()
		plugins.InitDefaultPlugins()
		initOnce = true
	}
	vm := resource_info.NewResourceVectorMap()
	cpai := cache.NewK8sClusterPodAffinityInfo()
	b := &Built{Nodes: map[string]*node_info.NodeInfo{}, Jobs: map[common_info.PodGroupID]*podgroup_info.PodGroupInfo{},
		Tasks: map[string]*pod_info.PodInfo{}, VM: vm, Rep: &reporter{}}
	for _, ns := range c.Nodes {
		n := ns.K8s()
		vm.AddResourceList(n.Status.Allocatable)
	}
	for _, ns := range c.Nodes {
		n := ns.K8s()
		b.Nodes[ns.Name] = node_info.NewNodeInfo(n, cluster_info.NewK8sNodePodAffinityInfo(n, cpai), vm)
	}
	now := time.Now()
	for _, j := range c.Jobs {
		uid := common_info.PodGroupID(j.Name)
		job := podgroup_info.NewPodGroupInfoWithVectorMap(uid, vm)
		crd := &enginev2alpha2.PodGroup{
			ObjectMeta: metav1.ObjectMeta{Name: j.Name, Namespace: "ns", UID: types.UID(j.Name),
				CreationTimestamp: metav1.Time{Time: now.Add(-time.Duration(j.AgeMinutes) * time.Minute)}},
			Spec: enginev2alpha2.PodGroupSpec{Queue: j.Queue, MinMember: j.MinMember},
		}
		for _, sg := range j.SubGroups {
			csg := enginev2alpha2.SubGroup{Name: sg.Name, MinMember: sg.MinMember}
			if sg.Parent != "" {
				parent := sg.Parent
				csg.Parent = &parent
			}
			crd.Spec.SubGroups = append(crd.Spec.SubGroups, csg)
		}
		job.SetPodGroup(crd)
		job.Priority = j.Priority
		job.Preemptibility = pg.CalculatePreemptibility("", j.Priority)
		running := false
		for _, ps := range j.Pods {
			ps.Job = j.Name
			t := core.MkPod(ps, vm)
			b.Tasks[ps.Name] = t
			job.AddTaskInfo(t)
			if pod_status.AllocatedStatus(t.Status) {
				running = true
			}
		}
		if running {
			st := now.Add(-time.Duration(j.StartedMins) * time.Minute)
			job.LastStartTimestamp = &st
		}
		b.Jobs[uid] = job
	}
	// snapshot: pods that hold resources are added to their node (name order)
	names := make([]string, 0, len(b.Tasks))
	for n := range b.Tasks {
		names = append(names, n)
	}
	sort.Strings(names)
	for _, n := range names {
		t := b.Tasks[n]
		if pod_status.IsActiveUsedStatus(t.Status) && t.NodeName != "" {
			if ni, ok := b.Nodes[t.NodeName]; ok {
				_ = ni.AddTask(t)
			}
		}
	}
	meta := test_utils.TestTopologyBasic{Name: "gen", DisableDefaultDepartment: true,
		Departments: []test_utils.TestDepartmentBasic{{Name: "dept", DeservedGPUs: common_info.NoMaxAllowedResource, MaxAllowedGPUs: common_info.NoMaxAllowedResource}},
		Mocks:       &test_utils.TestMock{CacheRequirements: &test_utils.CacheMocking{NumberOfCacheBinds: 1 << 20, NumberOfCacheEvictions: 1 << 20, NumberOfPipelineActions: 1 << 20}}}
	for _, q := range c.Queues {
		prio := q.Priority
		meta.Queues = append(meta.Queues, test_utils.TestQueueBasic{Name: q.Name, ParentQueue: "dept", DeservedGPUs: q.Deserved,
			MaxAllowedGPUs: q.Limit, GPUOverQuotaWeight: q.OverQuota, Priority: &prio})
	}
	queues := test_utils.BuildQueueInfoMap(meta)
	for k, v := range test_utils.BuildDepartmentInfoMap(meta) {
		queues[k] = v
	}
	cluster_info.UpdateQueueHierarchy(queues)
	ctrl := gomock.NewController(b.Rep)
	cfg := &test_utils.TestSessionConfig{Plugins: test_utils.BuildPlugins(meta), CachePlugins: map[string]bool{"predicates": true}}
	b.Ssn = test_utils.CreateFakeSession(cfg, b.Nodes, b.Jobs, queues, meta, ctrl, true, nil, cpai)
	b.Rec = &recorder{Cache: b.Ssn.Cache, FailBind: map[int]bool{}, FailEvict: map[int]bool{}}
	for _, k := range c.FailBinds {
		b.Rec.FailBind[k] = true
	}
	for _, k := range c.FailEvicts {
		b.Rec.FailEvict[k] = true
	}
	b.Ssn.Cache = b.Rec
	return b
}

// RunActions executes the actions; a panic inside an action is caught and
// returned (it is itself an observation: C10).
func RunActions(b *Built, names []string) (panicked string) {
	defer func() {
		if r := recover(); r != nil {
			panicked = fmt.Sprintf("%v\n%s", r, debug.Stack())
		}
	}()
	for _, a := range names {
		act, ok := framework.GetAction(a)
		if !ok {
			panic("unknown action " + a)
		}
		act.Execute(b.Ssn)
	}
	return ""
}

// ---- projection ---------------------------------------------------------------

func nodeFull(ids *core.Ids, ni *node_info.NodeInfo) string {
	type pe struct {
		k    int
		term string
	}
	var ps []pe
	for _, t := range ni.PodInfos {
		ps = append(ps, pe{ids.Of("p:" + string(t.UID)), core.TaskTerm(ids, t, ni)})
	}
	sort.Slice(ps, func(i, j int) bool { return ps[i].k < ps[j].k })
	pods := make([]string, len(ps))
	for i, p := range ps {
		pods[i] = u.Pair(u.Pos(p.k), p.term)
	}
	return core.NodeFullTerm(ids, ni, u.List(pods))
}

func sortedAmap(m map[int]string) string {
	ks := make([]int, 0, len(m))
	for k := range m {
		ks = append(ks, k)
	}
	sort.Ints(ks)
	out := make([]string, len(ks))
	for i, k := range ks {
		out[i] = u.Pair(u.Pos(k), m[k])
	}
	return u.List(out)
}

func actionCode(a string) int {
	switch strings.ToLower(a) {
	case "reclaim":
		return 1
	case "preempt":
		return 2
	case "consolidation", "consolidate":
		return 3
	}
	return 0
}

// Emit runs one cluster and returns the Coq ccase term plus a label.
func Emit(c Cluster) (term string, label string, st map[string]int) {
	st = map[string]int{}
	b := Build(c)
	ids := core.NewIds()
	// fix ids in a stable order: nodes, jobs, pods
	for _, n := range c.Nodes {
		ids.Of("n:" + n.Name)
	}
	for _, j := range c.Jobs {
		ids.Of("j:" + j.Name)
		for _, p := range j.Pods {
			ids.Of("p:" + p.Name)
		}
	}
	nodes0 := map[int]string{}
	for name, ni := range b.Nodes {
		nodes0[ids.Of("n:"+name)] = nodeFull(ids, ni)
	}
	// tasks (initial statuses), rendered against their node (or the first node for pending ones: same GPU memory everywhere)
	var anyNode *node_info.NodeInfo
	for _, n := range c.Nodes {
		anyNode = b.Nodes[n.Name]
		break
	}
	var tis []string
	for _, j := range c.Jobs {
		for _, p := range j.Pods {
			t := b.Tasks[p.Name]
			ni := anyNode
			if n, ok := b.Nodes[t.NodeName]; ok {
				ni = n
			}
			pset := "default"
			if t.SubGroupName != "" {
				pset = t.SubGroupName
			}
			node := "None"
			if _, ok := b.Nodes[t.NodeName]; ok {
				node = u.Opt(true, u.Pos(ids.Of("n:"+t.NodeName)))
			}
			tis = append(tis, fmt.Sprintf("(mkTI %s %s %s)", core.TaskTerm(ids, t, ni), u.Pos(ids.Of("s:"+j.Name+"/"+pset)), node))
		}
	}
	var jis []string
	for _, j := range c.Jobs {
		job := b.Jobs[common_info.PodGroupID(j.Name)]
		var ps []string
		names := []string{}
		for n := range job.PodSets {
			names = append(names, n)
		}
		sort.Strings(names)
		for _, n := range names {
			ps = append(ps, u.Pair(u.Pos(ids.Of("s:"+j.Name+"/"+n)), u.Z(int64(job.PodSets[n].GetMinAvailable()))))
		}
		jis = append(jis, fmt.Sprintf("(mkJ %s %s %s %s %s %s)", u.Pos(ids.Of("j:"+j.Name)), u.Pos(ids.Of("q:"+j.Queue)),
			u.Z(int64(j.Priority)), u.Bool(job.IsPreemptibleJob()), u.Z(int64(-j.AgeMinutes)), u.List(ps)))
	}
	if pmsg := RunActions(b, c.Actions); pmsg != "" {
		st["PANIC"]++
		fmt.Fprintf(os.Stderr, "PANIC in actions: %s\n  cluster: %s\n", pmsg, Describe(c))
	}
	var calls []string
	var cdesc []string
	for _, cl := range b.Rec.calls {
		switch cl.Kind {
		case "bind":
			calls = append(calls, fmt.Sprintf("(CBind %s %s %s)", u.Pos(ids.Of("p:"+cl.Pod)), u.Pos(ids.Of("n:"+cl.Node)), core.Groups(ids, cl.Groups)))
			cdesc = append(cdesc, fmt.Sprintf("bind(%s->%s%v)", cl.Pod, cl.Node, cl.Groups))
		case "pipe":
			calls = append(calls, fmt.Sprintf("(CPipe %s %s %s)", u.Pos(ids.Of("p:"+cl.Pod)), u.Pos(ids.Of("n:"+cl.Node)), core.Groups(ids, cl.Groups)))
			cdesc = append(cdesc, fmt.Sprintf("pipe(%s->%s%v)", cl.Pod, cl.Node, cl.Groups))
		case "bindfail":
			cdesc = append(cdesc, fmt.Sprintf("bindFAILED(%s->%s%v)", cl.Pod, cl.Node, cl.Groups))
		case "evictfail":
			cdesc = append(cdesc, fmt.Sprintf("evictFAILED(%s,%s)", cl.Pod, cl.Action))
		case "evict":
			pre := "None"
			if cl.Preemptor != "" {
				pre = u.Opt(true, u.Pos(ids.Of("j:"+cl.Preemptor)))
			}
			calls = append(calls, fmt.Sprintf("(CEvict %s %s %s)", u.Pos(ids.Of("p:"+cl.Pod)), u.Nat(actionCode(cl.Action)), pre))
			cdesc = append(cdesc, fmt.Sprintf("evict(%s,%s)", cl.Pod, cl.Action))
		}
		st["call:"+cl.Kind]++
	}
	final := map[int]string{}
	for name, ni := range b.Nodes {
		final[ids.Of("n:"+name)] = core.NodeObs(ids, ni)
	}
	term = fmt.Sprintf("(mkCC %s %s %s %s %s)", sortedAmap(nodes0), u.List(tis), u.List(jis), u.List(calls), sortedAmap(final))
	label = Describe(c) + " => " + strings.Join(cdesc, " ")
	if len(b.Rep.msgs) > 0 {
		st["mock-complaints"] += len(b.Rep.msgs)
	}
	return term, label, st
}

// Describe renders a cluster compactly (replayable by eye; the seed replays it exactly).
func Describe(c Cluster) string {
	var sb strings.Builder
	sb.WriteString("nodes[")
	for i, n := range c.Nodes {
		if i > 0 {
			sb.WriteString(" ")
		}
		fmt.Fprintf(&sb, "%s:gpu%d,cpu%d,pods%d", n.Name, n.Gpus, n.Cpu, n.Pods)
		if n.GpuMem > 0 {
			fmt.Fprintf(&sb, ",gpumem%d", n.GpuMem)
		}
	}
	sb.WriteString("] queues[")
	for i, q := range c.Queues {
		if i > 0 {
			sb.WriteString(" ")
		}
		fmt.Fprintf(&sb, "%s:q%g,l%g", q.Name, q.Deserved, q.Limit)
	}
	sb.WriteString("] jobs[")
	for i, j := range c.Jobs {
		if i > 0 {
			sb.WriteString(" ")
		}
		fmt.Fprintf(&sb, "%s(q=%s,pri=%d,min=%d:", j.Name, j.Queue, j.Priority, j.MinMember)
		for k, p := range j.Pods {
			if k > 0 {
				sb.WriteString(",")
			}
			req := fmt.Sprintf("g%d", p.Gpus)
			if p.Fraction != "" {
				req = "f" + p.Fraction
				if p.NumDev > 1 {
					req += fmt.Sprintf("x%d", p.NumDev)
				}
			} else if p.GpuMemory > 0 {
				req = fmt.Sprintf("m%d", p.GpuMemory)
				if p.NumDev > 1 {
					req += fmt.Sprintf("x%d", p.NumDev)
				}
			}
			fmt.Fprintf(&sb, "%s/%s/%s", core.StatusTerm(p.Status), req, p.Node)
			if len(p.Groups) > 0 {
				fmt.Fprintf(&sb, "%v", p.Groups)
			}
		}
		sb.WriteString(")")
	}
	fmt.Fprintf(&sb, "] actions%v", c.Actions)
	return sb.String()
}

var _ = conf.SchedulerParams{}
