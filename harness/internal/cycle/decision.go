package cycle

import (
	"fmt"
	"sort"
	"strings"

	"github.com/NVIDIA/KAI-scheduler/pkg/scheduler/api/pod_info"
	"github.com/NVIDIA/KAI-scheduler/pkg/scheduler/api/pod_status"
	"github.com/NVIDIA/KAI-scheduler/pkg/scheduler/api/resource_info"
	"github.com/NVIDIA/KAI-scheduler/pkg/scheduler/gpu_sharing"

	"kaiverif/internal/core"
	u "kaiverif/internal/util"
)

// DecisionCase drives the real gpu_sharing.GetNodePreferableGpuForSharing on a generated node
// (shared and whole-GPU pods in running / terminating / nominated states) for a pending fractional task,
// with the candidate list in an arbitrary order (the GPU order plugins are an oracle).
func DecisionCase(r *u.Rng) (term, label string) {
	vm := resource_info.NewResourceVectorMap()
	ngpu := r.Range(1, 4)
	ni := core.MkNode(core.NodeSpec{Name: "n1", Cpu: 16000, Mem: 64 << 30, Gpus: int64(ngpu), Pods: 110}, vm)
	ids := core.NewIds()
	var desc []string
	// occupants
	ngroups := 0
	free := map[string]int64{}
	wholeLeft := int64(ngpu)
	for i, n := 0, r.Range(0, 6); i < n; i++ {
		sp := core.PodSpec{Name: fmt.Sprintf("o%d", i), Job: fmt.Sprintf("oj%d", i), Cpu: 100, Mem: 1 << 20}
		st := u.Pick(r, []pod_status.PodStatus{pod_status.Running, pod_status.Running, pod_status.Releasing, pod_status.Releasing, pod_status.Bound, pod_status.Pipelined})
		if r.Chance(1, 4) { // whole GPU occupant
			if wholeLeft < 1 {
				continue
			}
			sp.Gpus = 1
			if st != pod_status.Pipelined {
				wholeLeft--
			}
		} else {
			sp.Fraction = u.Pick(r, []string{"0.5", "0.25", "0.5", "0.75"})
			need := map[string]int64{"0.5": 50, "0.25": 25, "0.75": 75}[sp.Fraction]
			var cands []string
			for g, f := range free {
				if f >= need {
					cands = append(cands, g)
				}
			}
			sort.Strings(cands)
			if len(cands) > 0 && r.Chance(2, 3) {
				sp.Groups = []string{u.Pick(r, cands)}
			} else if wholeLeft >= 1 {
				ngroups++
				g := fmt.Sprintf("G%d", ngroups)
				free[g] = 100
				wholeLeft--
				sp.Groups = []string{g}
			} else {
				continue
			}
			if st != pod_status.Pipelined {
				free[sp.Groups[0]] -= need
			}
		}
		sp.Status = st
		sp.Node = "n1"
		t := core.MkPod(sp, vm)
		if err := ni.AddTask(t); err == nil {
			desc = append(desc, fmt.Sprintf("%s(%s,%s%s%v)", sp.Name, core.StatusTerm(st), sp.Fraction, map[bool]string{true: "g1", false: ""}[sp.Gpus > 0], sp.Groups))
		}
	}
	// the pending task
	ps := core.PodSpec{Name: "pend", Job: "pj", Cpu: 100, Mem: 1 << 20, Status: pod_status.Pending}
	if r.Chance(1, 5) {
		ps.GpuMemory = int64(u.Pick(r, []int{25, 50, 100}))
	} else {
		ps.Fraction = u.Pick(r, []string{"0.5", "0.25", "0.5", "0.75"})
	}
	if r.Chance(1, 2) {
		ps.NumDev = int64(r.Range(2, 3))
	}
	task := core.MkPod(ps, vm)
	// candidates as framework.filterGpusByEnoughResources builds them, in an oracle order
	var fit []string
	for g := range ni.UsedSharedGPUsMemory {
		if ni.IsTaskFitOnGpuGroup(task.ResReq, g) {
			fit = append(fit, g)
		}
	}
	sort.Strings(fit)
	u.Shuffle(r, fit)
	nwhole := 0
	if ni.Idle.GPUs() > 0 || ni.Releasing.GPUs() > 0 {
		nwhole = int(ni.Idle.GPUs()) + int(ni.Releasing.GPUs())
	}
	var cands []string
	wholeFirst := r.Intn(3) // 0: groups first (pack), 1: whole first (spread), 2: interleaved
	switch wholeFirst {
	case 0:
		cands = append(cands, fit...)
		for i := 0; i < nwhole; i++ {
			cands = append(cands, pod_info.WholeGpuIndicator)
		}
	case 1:
		for i := 0; i < nwhole; i++ {
			cands = append(cands, pod_info.WholeGpuIndicator)
		}
		cands = append(cands, fit...)
	default:
		cands = append(cands, fit...)
		for i := 0; i < nwhole; i++ {
			cands = append(cands, pod_info.WholeGpuIndicator)
		}
		u.Shuffle(r, cands)
	}
	pipelineOnly := r.Chance(1, 5)
	before := nodeFull(ids, ni)
	taskTerm := core.TaskTerm(ids, task, ni)
	res := gpu_sharing.GetNodePreferableGpuForSharing(cands, ni, task, pipelineOnly)
	var candT []string
	for _, c := range cands {
		if c == pod_info.WholeGpuIndicator {
			candT = append(candT, "None")
		} else {
			candT = append(candT, u.Opt(true, u.Pos(ids.Of("g:"+c))))
		}
	}
	// fresh names for the model, in the order the code creates them
	fresh := []string{}
	obs := "None"
	od := "none"
	if res != nil {
		var gs []string
		for _, g := range res.Groups {
			if len(g) == 36 {
				nm := fmt.Sprintf("F%d", len(fresh)+1)
				fresh = append(fresh, nm)
				gs = append(gs, u.Pos(ids.Of("g:"+nm)))
			} else {
				gs = append(gs, u.Pos(ids.Of("g:"+g)))
			}
		}
		obs = u.Opt(true, u.Pair(u.List(gs), u.Bool(res.IsReleasing)))
		od = fmt.Sprintf("%v releasing=%v", res.Groups, res.IsReleasing)
	}
	for len(fresh) < 4 {
		fresh = append(fresh, fmt.Sprintf("F%d", len(fresh)+1))
	}
	var freshT []string
	for _, f := range fresh {
		freshT = append(freshT, u.Pos(ids.Of("g:"+f)))
	}
	term = fmt.Sprintf("(PDecision (mkD %s %s %s %s %s %s))", before, taskTerm, u.Bool(pipelineOnly), u.List(candT), u.List(freshT), obs)
	cd := strings.ReplaceAll(strings.Join(cands, ","), pod_info.WholeGpuIndicator, "W")
	label = fmt.Sprintf("decision node{gpus=%d} occupants[%s] task{%s%s x%d} cands[%s] pipelineOnly=%v => %s",
		ngpu, strings.Join(desc, " "), ps.Fraction, map[bool]string{true: fmt.Sprintf("m%d", ps.GpuMemory), false: ""}[ps.GpuMemory > 0], ps.NumDev, cd, pipelineOnly, od)
	return term, label
}
