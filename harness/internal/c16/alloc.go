package c16

import (
	"fmt"
	"sort"
	"strings"
	"time"

	"go.uber.org/mock/gomock"
	metav1 "k8s.io/apimachinery/pkg/apis/meta/v1"

	"github.com/NVIDIA/KAI-scheduler/pkg/scheduler/actions/allocate"
	"github.com/NVIDIA/KAI-scheduler/pkg/scheduler/api/common_info"
	"github.com/NVIDIA/KAI-scheduler/pkg/scheduler/api/pod_status"
	"github.com/NVIDIA/KAI-scheduler/pkg/scheduler/framework"
	"github.com/NVIDIA/KAI-scheduler/pkg/scheduler/test_utils"
	"github.com/NVIDIA/KAI-scheduler/pkg/scheduler/test_utils/jobs_fake"
	"github.com/NVIDIA/KAI-scheduler/pkg/scheduler/test_utils/nodes_fake"
	"github.com/NVIDIA/KAI-scheduler/pkg/scheduler/test_utils/tasks_fake"

	u "kaiverif/internal/util"
)

// ---- generated clusters for the real allocate action -------------------------

type template struct {
	Tasks int
	GPUs  int     // whole GPUs per task
	CPUs  float64 // millicpu per task
}

type alJob struct {
	UID      int
	Queue    int // leaf queue id
	Prio     int32
	Age      int64 // creation time, seconds after the base time
	Template int
	Running  string // node name when the job is already running (not a candidate)
}

type alQueue struct {
	ID       int
	Dept     int
	Deserved float64
	Limit    float64 // -1 = none
	Weight   float64
}

type cluster struct {
	Nodes     []int // GPUs per node
	Depts     []int
	Queues    []alQueue
	Templates []template
	Jobs      []alJob
}

func genCluster(r *u.Rng) cluster {
	var c cluster
	nn := r.Range(1, 4)
	total := 0
	for i := 0; i < nn; i++ {
		g := u.Pick(r, []int{2, 4, 4, 8})
		c.Nodes = append(c.Nodes, g)
		total += g
	}
	nd := r.Range(1, 2)
	for i := 0; i < nd; i++ {
		c.Depts = append(c.Depts, 1000+i+1)
	}
	nq := r.Range(2, 6)
	for i := 0; i < nq; i++ {
		q := alQueue{ID: i + 1, Dept: u.Pick(r, c.Depts), Deserved: float64(r.Intn(total/2 + 1)), Limit: -1, Weight: float64(r.Range(1, 3))}
		if r.Chance(1, 3) {
			q.Limit = float64(r.Range(1, total))
		}
		c.Queues = append(c.Queues, q)
	}
	nt := r.Range(2, 3)
	for i := 0; i < nt; i++ {
		c.Templates = append(c.Templates, template{Tasks: r.Range(1, 3), GPUs: r.Range(1, 2), CPUs: float64(r.Range(1, 4) * 500)})
	}
	nj := r.Range(4, 28)
	// concentrate jobs so that comparable pairs are frequent
	hot := r.Range(1, nq)
	for i := 0; i < nj; i++ {
		q := r.Range(1, nq)
		if r.Chance(1, 2) {
			q = hot
		}
		c.Jobs = append(c.Jobs, alJob{UID: i + 1, Queue: q, Prio: u.Pick(r, prios),
			Age: int64(r.Intn(8)), Template: r.Intn(nt)})
	}
	// a few running single-GPU jobs so that nodes and queues start unevenly used
	nr := r.Intn(3)
	for i := 0; i < nr; i++ {
		c.Jobs = append(c.Jobs, alJob{UID: nj + i + 1, Queue: r.Range(1, nq), Prio: 50, Age: 0, Template: -1,
			Running: nodeName(r.Intn(nn))})
	}
	return c
}

func nodeName(i int) string { return fmt.Sprintf("node%d", i) }

type alResult struct {
	Jobs   []jobSpec // pending candidates as the scheduler saw them
	Order  []int     // UIDs of placed candidates, in order of first allocation
	Placed map[int]bool
}

type reporter struct{ failed int }

func (r *reporter) Errorf(format string, args ...any) { r.failed++ }
func (r *reporter) Fatalf(format string, args ...any) {
	r.failed++
	panic(fmt.Sprintf("gomock: "+format, args...))
}
func (r *reporter) Helper() {}

type allocRunner struct {
	reporter *reporter
	ctrl     *gomock.Controller
}

func newAllocRunner() *allocRunner {
	test_utils.InitTestingInfrastructure()
	rep := &reporter{}
	return &allocRunner{reporter: rep, ctrl: gomock.NewController(rep)}
}

func (c cluster) topology() test_utils.TestTopologyBasic {
	topo := test_utils.TestTopologyBasic{
		Name:  "c16",
		Nodes: map[string]nodes_fake.TestNodeBasic{},
		Mocks: &test_utils.TestMock{CacheRequirements: &test_utils.CacheMocking{
			NumberOfCacheBinds: 100000, NumberOfCacheEvictions: 100000, NumberOfPipelineActions: 100000}},
	}
	for i, g := range c.Nodes {
		topo.Nodes[nodeName(i)] = nodes_fake.TestNodeBasic{GPUs: g, CPUMillis: 64000, CPUMemory: 512 * 1024 * 1024 * 1024}
	}
	for _, d := range c.Depts {
		topo.Departments = append(topo.Departments, test_utils.TestDepartmentBasic{
			Name: queueStr(d), DeservedGPUs: common_info.NoMaxAllowedResource, MaxAllowedGPUs: common_info.NoMaxAllowedResource})
	}
	for _, q := range c.Queues {
		topo.Queues = append(topo.Queues, test_utils.TestQueueBasic{
			Name: queueStr(q.ID), ParentQueue: queueStr(q.Dept), DeservedGPUs: q.Deserved, MaxAllowedGPUs: q.Limit, GPUOverQuotaWeight: q.Weight})
	}
	for _, j := range c.Jobs {
		job := &jobs_fake.TestJobBasic{Name: uidStr(j.UID), QueueName: queueStr(j.Queue), Priority: j.Prio, JobAgeInMinutes: 1}
		if j.Running != "" {
			job.RequiredGPUsPerTask = 1
			job.Tasks = []*tasks_fake.TestTaskBasic{{State: pod_status.Running, NodeName: j.Running}}
		} else {
			t := c.Templates[j.Template]
			job.RequiredGPUsPerTask = float64(t.GPUs)
			job.RequiredCPUsPerTask = t.CPUs
			for k := 0; k < t.Tasks; k++ {
				job.Tasks = append(job.Tasks, &tasks_fake.TestTaskBasic{State: pod_status.Pending})
			}
		}
		topo.Jobs = append(topo.Jobs, job)
	}
	return topo
}

func placedStatus(s pod_status.PodStatus) bool {
	switch s {
	case pod_status.Allocated, pod_status.Binding, pod_status.Bound, pod_status.Pipelined, pod_status.Running:
		return true
	}
	return false
}

// run executes the real allocate action once and reads the decisions back.
func (a *allocRunner) run(c cluster, depth int) (res alResult, err error) {
	defer func() {
		if p := recover(); p != nil {
			err = fmt.Errorf("panic in real code: %v", p)
		}
	}()
	ssn := test_utils.BuildSession(c.topology(), a.ctrl)
	byUID := map[int]alJob{}
	for _, j := range c.Jobs {
		byUID[j.UID] = j
		// exact, tie-prone creation times (jobs_fake derives them from time.Now())
		if info, ok := ssn.ClusterInfo.PodGroupInfos[common_info.PodGroupID(uidStr(j.UID))]; ok {
			info.CreationTimestamp = metav1.Time{Time: baseTime.Add(time.Duration(j.Age) * time.Second)}
		}
	}
	if depth >= 0 {
		ssn.Config.QueueDepthPerAction = map[string]int{string(framework.Allocate): depth}
	}
	first := map[int]bool{}
	var seq []int
	ssn.AddEventHandler(&framework.EventHandler{AllocateFunc: func(e *framework.Event) {
		var uid int
		fmt.Sscanf(string(e.Task.Job), "u%d", &uid)
		if !first[uid] {
			first[uid] = true
			seq = append(seq, uid)
		}
	}})

	allocate.New().Execute(ssn)

	res.Placed = map[int]bool{}
	var uids []int
	for _, j := range c.Jobs {
		if j.Running == "" {
			uids = append(uids, j.UID)
		}
	}
	sort.Ints(uids)
	for _, uid := range uids {
		info := ssn.ClusterInfo.PodGroupInfos[common_info.PodGroupID(uidStr(uid))]
		j := byUID[uid]
		placed := true
		ntasks := 0
		for _, t := range info.GetAllPodsMap() {
			ntasks++
			if !placedStatus(t.Status) {
				placed = false
			}
		}
		res.Placed[uid] = placed && ntasks > 0
		shape := j.Template * 2
		if !info.IsPreemptibleJob() {
			shape++
		}
		res.Jobs = append(res.Jobs, jobSpec{UID: uid, Queue: j.Queue, Prio: info.Priority, CTime: j.Age,
			Sub: [][2]int{{0, ntasks}}, Shape: shape})
	}
	for _, uid := range seq {
		if res.Placed[uid] {
			res.Order = append(res.Order, uid)
		}
	}
	return res, nil
}

func emitAL(out *u.Out, origin string, c cluster, depth int, res alResult) {
	var qs []queueSpec
	for _, d := range c.Depts {
		qs = append(qs, queueSpec{ID: d})
	}
	used := map[int]bool{}
	for _, q := range c.Queues {
		qs = append(qs, queueSpec{ID: q.ID, Parent: q.Dept, Leaf: true})
		used[q.Dept] = true
	}
	for i := range qs {
		if qs[i].Parent == 0 && !used[qs[i].ID] {
			qs[i].Leaf = true // a department without queues has no child queues
		}
	}
	order := u.ListOf(res.Order, func(v int) string { return u.Z(int64(v)) })
	term := fmt.Sprintf("(CAL %s %s %s %s)", u.ListOf(qs, queueSpec.term), u.Z(int64(depth)), u.ListOf(res.Jobs, jobSpec.term), order)

	var js []string
	for _, j := range res.Jobs {
		mark := "-"
		if res.Placed[j.UID] {
			mark = "+"
		}
		js = append(js, fmt.Sprintf("%su%d:q%d:p%d:t%d:s%d", mark, j.UID, j.Queue, j.Prio, j.CTime, j.Shape))
	}
	var qsShort []string
	for _, q := range c.Queues {
		qsShort = append(qsShort, fmt.Sprintf("q%d^%d:des%g:lim%g:w%g", q.ID, q.Dept, q.Deserved, q.Limit, q.Weight))
	}
	var ts []string
	for i, t := range c.Templates {
		ts = append(ts, fmt.Sprintf("T%d=%dx%dgpu", i, t.Tasks, t.GPUs))
	}
	nrun := 0
	for _, j := range c.Jobs {
		if j.Running != "" {
			nrun++
		}
	}
	label := fmt.Sprintf("%salloc %s depth=%s nodes=%v queues=[%s] templates=[%s] running=%d jobs(+placed)=[%s] order=%v",
		streamPrefix(depth), origin, depthLabel(depth), c.Nodes, strings.Join(qsShort, " "), strings.Join(ts, " "), nrun,
		strings.Join(js, " "), res.Order)
	out.Add(term, label)
	out.Count("kind:alloc")
	out.Count("alloc-depth:" + depthClass(depth))
	out.Count(fmt.Sprintf("alloc-leaf-queues:%d", len(c.Queues)))
	// comparable pairs: same leaf queue and shape; decided = one placed, the other not
	pairs, decided := 0, 0
	for i, a := range res.Jobs {
		for _, b := range res.Jobs[i+1:] {
			if a.Queue == b.Queue && a.Shape == b.Shape {
				pairs++
				if res.Placed[a.UID] != res.Placed[b.UID] {
					decided++
				}
			}
		}
	}
	out.CountN("alloc:comparable-pairs", pairs)
	out.CountN("alloc:comparable-pairs-split", decided)
	out.CountN("alloc:jobs", len(res.Jobs))
	out.CountN("alloc:jobs-placed", len(res.Order))
	if decided > 0 {
		out.NonTrivial("al|" + label)
	}
	if origin == "gen#0" || origin == "gen#4" {
		out.Sample(map[string]any{"kind": "alloc", "depth": depth, "cluster": c, "placed_order": res.Order})
	}
}
