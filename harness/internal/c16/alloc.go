package c16

import (
	"fmt"
	"math"
	"sort"
	"strings"
	"time"

	"go.uber.org/mock/gomock"
	metav1 "k8s.io/apimachinery/pkg/apis/meta/v1"

	enginev2alpha2 "github.com/NVIDIA/KAI-scheduler/pkg/apis/scheduling/v2alpha2"
	commonconstants "github.com/NVIDIA/KAI-scheduler/pkg/common/constants"
	"github.com/NVIDIA/KAI-scheduler/pkg/scheduler/actions/allocate"
	"github.com/NVIDIA/KAI-scheduler/pkg/scheduler/actions/utils"
	"github.com/NVIDIA/KAI-scheduler/pkg/scheduler/api"
	"github.com/NVIDIA/KAI-scheduler/pkg/scheduler/api/common_info"
	"github.com/NVIDIA/KAI-scheduler/pkg/scheduler/api/pod_info"
	"github.com/NVIDIA/KAI-scheduler/pkg/scheduler/api/pod_status"
	"github.com/NVIDIA/KAI-scheduler/pkg/scheduler/api/podgroup_info"
	"github.com/NVIDIA/KAI-scheduler/pkg/scheduler/framework"
	"github.com/NVIDIA/KAI-scheduler/pkg/scheduler/test_utils"
	"github.com/NVIDIA/KAI-scheduler/pkg/scheduler/test_utils/jobs_fake"
	"github.com/NVIDIA/KAI-scheduler/pkg/scheduler/test_utils/nodes_fake"
	"github.com/NVIDIA/KAI-scheduler/pkg/scheduler/test_utils/tasks_fake"

	u "kaiverif/internal/util"
)

// ---- generated clusters for the real allocate action -------------------------

type template struct {
	Tasks int
	GPUs  int     // whole GPUs per task
	CPUs  float64 // millicpu per task
}

// spec.preemptibility of a pod group
const (
	specUnset = iota
	specPreemptible
	specNonPreemptible
)

var specName = []string{"", string(enginev2alpha2.Preemptible), string(enginev2alpha2.NonPreemptible)}

// supposedPre mirrors pkg/common/podgroup.CalculatePreemptibility: what the scheduler is
// supposed to see. An explicit value wins; otherwise priority < 100 is preemptible.
// (Deliberately not PodGroupInfo.IsPreemptibleJob: that is code under test.)
func supposedPre(spec int, prio int32) int {
	if spec != specUnset {
		return spec
	}
	if prio < 100 {
		return specPreemptible
	}
	return specNonPreemptible
}

// kinds of "ghost": a ready pending pod group that names a queue nothing can be scheduled in
const (
	ghostNone    = iota
	ghostMissing // the queue is not in the snapshot (deleted, misspelt, dropped by cleanQueueOrphans)
	ghostOrphan  // the queue is in the snapshot's queue map, its parent is not
	ghostNonLeaf // the queue has child queues (a department)
)

var ghostName = []string{"", "missing-queue", "orphan-queue", "non-leaf-queue"}

type alJob struct {
	UID      int
	Queue    int // leaf queue id (ghosts: the id of the missing / orphan / non-leaf queue)
	Ghost    int // ghostNone for a job of a healthy leaf queue
	NS       string
	Prio     int32
	Age      int64 // creation time, seconds after the base time
	Template int
	Spec     int    // spec.preemptibility: unset / preemptible / non-preemptible, independent of Prio
	Running  string // node name when the job is already running (not a candidate)
	RunGPUs  int    // GPUs of the single pod of a running job
	// last-start stamp (annotation kai.scheduler/last-start-timestamp), seconds after the base time; HasLS false:
	// the pod group has no annotation
	HasLS bool
	LS    int64
}

type alQueue struct {
	ID          int
	Dept        int
	Deserved    float64
	Limit       float64 // -1 = none
	Weight      float64
	DeservedCPU float64 // millicpu, -1 = unlimited
	LimitCPU    float64 // millicpu, -1 = none
}

type alDept struct {
	ID       int
	Deserved float64 // -1 = unlimited
	Limit    float64 // -1 = none
}

type cluster struct {
	Nodes     []int // GPUs per node
	Depts     []alDept
	Queues    []alQueue
	// leaf queues (quota 0) each under a department of its own (Dept); the department is taken out of the
	// snapshot's queue map after the plugins opened, so the queue's parent is missing when the jobs are collected
	Orphans []alQueue
	Templates []template
	Jobs      []alJob
}

var allocPrios = []int32{40, 50, 50, 60, 75, 99, 100, 100, 125}

// specFor draws a spec.preemptibility that resolves to the wanted preemptibility for this priority:
// explicit, or left unset when the priority alone gives the same.
func specFor(r *u.Rng, want int, prio int32) int {
	if supposedPre(specUnset, prio) == want && r.Chance(1, 2) {
		return specUnset
	}
	return want
}

func genCluster(r *u.Rng, pool []int32) cluster {
	var c cluster
	nn := r.Range(1, 4)
	total := 0
	for i := 0; i < nn; i++ {
		g := u.Pick(r, []int{2, 4, 4, 8})
		c.Nodes = append(c.Nodes, g)
		total += g
	}
	free := append([]int(nil), c.Nodes...)
	nd := r.Range(1, 2)
	for i := 0; i < nd; i++ {
		d := alDept{ID: 1000 + i + 1, Deserved: -1, Limit: -1}
		if r.Chance(1, 3) {
			d.Deserved = float64(r.Range(1, total))
		}
		if r.Chance(1, 4) {
			d.Limit = float64(r.Range(total/2+1, total))
		}
		c.Depts = append(c.Depts, d)
	}
	nq := r.Range(2, 6)
	for i := 0; i < nq; i++ {
		q := alQueue{ID: i + 1, Dept: u.Pick(r, c.Depts).ID, Deserved: float64(r.Intn(total/2 + 1)), Limit: -1,
			Weight: float64(r.Range(1, 3)), DeservedCPU: -1, LimitCPU: -1}
		if r.Chance(1, 6) {
			q.DeservedCPU = float64(r.Range(1, 12) * 500)
		}
		if r.Chance(1, 8) {
			q.LimitCPU = float64(r.Range(2, 16) * 500)
		}
		c.Queues = append(c.Queues, q)
	}
	nt := r.Range(2, 3)
	for i := 0; i < nt; i++ {
		c.Templates = append(c.Templates, template{Tasks: r.Range(1, 3), GPUs: r.Range(1, 2), CPUs: float64(r.Range(1, 4) * 500)})
	}

	// running jobs first: non-preemptible ones that use a queue's deserved quota partly, fully or
	// beyond it (a quota lowered after they started), and preemptible ones over quota. Their
	// preemptibility is explicit or derived, whatever the priority. At least a third of the
	// cluster stays free for the pending jobs.
	uid := 0
	budget := total - total/3 - 1
	used := map[int]int{} // GPUs allocated per queue
	place := func(g int) string {
		order := make([]int, nn)
		for i := range order {
			order[i] = i
		}
		u.Shuffle(r, order)
		for _, i := range order {
			if free[i] >= g {
				free[i] -= g
				return nodeName(i)
			}
		}
		return ""
	}
	run := func(q int, want int) bool {
		g := r.Range(1, 2)
		if g > budget {
			g = 1
		}
		if budget < g {
			return false
		}
		node := place(g)
		if node == "" {
			return false
		}
		budget -= g
		used[q] += g
		uid++
		prio := u.Pick(r, pool)
		c.Jobs = append(c.Jobs, alJob{UID: 500 + uid, Queue: q, Prio: prio, Spec: specFor(r, want, prio), Template: -1,
			Running: node, RunGPUs: g})
		return true
	}
	for _, q := range c.Queues {
		if !r.Chance(2, 3) {
			continue
		}
		des := int(q.Deserved)
		target := 0
		switch r.Intn(5) {
		case 0, 1:
			target = des // quota fully used by non-preemptible work
		case 2:
			target = des - 1
		case 3:
			target = des + 1
		default:
			target = r.Intn(des + 1)
		}
		np := 0
		for np < target && run(q.ID, specNonPreemptible) {
			np = used[q.ID]
		}
		if r.Chance(1, 3) {
			run(q.ID, specPreemptible)
		}
	}
	// limits, mostly at or just above what the queue already uses
	for i := range c.Queues {
		if r.Chance(1, 3) {
			lim := used[c.Queues[i].ID] + r.Intn(7)
			if r.Chance(1, 4) {
				lim = r.Range(1, total)
			}
			if lim < 1 {
				lim = 1
			}
			c.Queues[i].Limit = float64(lim)
		}
	}

	// pending jobs, concentrated so that comparable pairs (same leaf queue, template and
	// preemptibility; priorities on both sides of 100) are frequent
	nj := r.Range(4, 28)
	hotQ := r.Range(1, nq)
	hotT := r.Intn(nt)
	hotPre := specPreemptible
	if r.Chance(2, 5) {
		hotPre = specNonPreemptible
	}
	for i := 0; i < nj; i++ {
		q, t, want := r.Range(1, nq), r.Intn(nt), specPreemptible
		if r.Chance(2, 5) {
			want = specNonPreemptible
		}
		if r.Chance(1, 2) {
			q = hotQ
			if r.Chance(2, 3) {
				t, want = hotT, hotPre
			}
		}
		prio := u.Pick(r, pool)
		c.Jobs = append(c.Jobs, alJob{UID: i + 1, Queue: q, Prio: prio, Age: int64(r.Intn(8)), Template: t,
			Spec: specFor(r, want, prio)})
	}
	return c
}

// addLastStarts gives every job of the world (pending, running, ghost) a last-start state from its own stream
func addLastStarts(r *u.Rng, c *cluster) {
	for i := range c.Jobs {
		c.Jobs[i].HasLS, c.Jobs[i].LS, _ = drawLS(r, c.Jobs[i].Age)
	}
}

var ghostNamespaces = []string{"", "team-a", "other-ns", "kube-system"}

// addGhosts adds 1-3 ready pending pod groups that can never be scheduled: most name a queue that is not in the
// snapshot, some a queue whose parent is missing, some a department. Any namespace, any priority, any age, any template.
func addGhosts(r *u.Rng, c *cluster, pool []int32) {
	n := r.Range(1, 3)
	var parents []int
	seen := map[int]bool{}
	for _, q := range c.Queues {
		if !seen[q.Dept] {
			seen[q.Dept] = true
			parents = append(parents, q.Dept)
		}
	}
	for k := 0; k < n; k++ {
		j := alJob{UID: 900 + k + 1, Prio: u.Pick(r, pool), Age: int64(r.Intn(8)), Template: r.Intn(len(c.Templates)),
			NS: u.Pick(r, ghostNamespaces)}
		j.Spec = specFor(r, u.Pick(r, []int{specPreemptible, specNonPreemptible}), j.Prio)
		switch x := r.Intn(10); {
		case x < 6 || (k == 0 && x < 8):
			j.Ghost = ghostMissing
			j.Queue = 9000 + r.Range(1, 2) // two ghosts may name the same missing queue
		case x < 8:
			j.Ghost = ghostOrphan
			o := alQueue{ID: 800 + k + 1, Dept: 1800 + k + 1, Deserved: 0, Limit: -1, Weight: 1, DeservedCPU: -1, LimitCPU: -1}
			c.Orphans = append(c.Orphans, o)
			j.Queue = o.ID
		default:
			j.Ghost = ghostNonLeaf
			j.Queue = u.Pick(r, parents)
		}
		c.Jobs = append(c.Jobs, j)
	}
}

func nodeName(i int) string { return fmt.Sprintf("node%d", i) }

// gateObs is what the real capacity gates answered for a pending job and all its pending pods
// when the session opened: 0 schedulable, 1 over limit, 2 non-preemptible over quota.
type gateObs struct {
	UID      int
	Capacity int
	NPQuota  int
}

type preObs struct {
	UID  int
	Spec int
	Seen int
}

var verdictTerm = []string{"Schedulable", "OverLimit", "NonPreemptibleOverQuota"}
var verdictShort = []string{"ok", "limit", "npquota"}

type alResult struct {
	Jobs    []jobSpec // ready pod groups with a pending pod as the scheduler saw them, ghosts included
	Running []jobSpec
	Pre     []preObs
	Gates   []gateObs // eligible pending jobs only
	Order   []int     // UIDs of placed candidates, in order of first allocation
	Placed  map[int]bool
	// UIDs handed out by the real JobsOrderByQueues after the real InitializeWithJobs(ssn.ClusterInfo.PodGroupInfos)
	// with the options of the allocate action, popped until empty (before the action runs)
	Coll []int
	// UIDs of the jobs the allocate action attempted, in order (one call of the job-level capacity gate per pop)
	Pops []int
}

type reporter struct{ failed int }

func (r *reporter) Errorf(format string, args ...any) { r.failed++ }
func (r *reporter) Fatalf(format string, args ...any) {
	r.failed++
	panic(fmt.Sprintf("gomock: "+format, args...))
}
func (r *reporter) Helper() {}

type allocRunner struct {
	reporter *reporter
	ctrl     *gomock.Controller
}

func newAllocRunner() *allocRunner {
	test_utils.InitTestingInfrastructure()
	rep := &reporter{}
	return &allocRunner{reporter: rep, ctrl: gomock.NewController(rep)}
}

func optF(v float64) *float64 {
	if v < 0 {
		return nil
	}
	return &v
}

func (c cluster) topology() test_utils.TestTopologyBasic {
	topo := test_utils.TestTopologyBasic{
		Name:  "c16",
		Nodes: map[string]nodes_fake.TestNodeBasic{},
		Mocks: &test_utils.TestMock{CacheRequirements: &test_utils.CacheMocking{
			NumberOfCacheBinds: 100000, NumberOfCacheEvictions: 100000, NumberOfPipelineActions: 100000}},
	}
	for i, g := range c.Nodes {
		topo.Nodes[nodeName(i)] = nodes_fake.TestNodeBasic{GPUs: g, CPUMillis: 64000, CPUMemory: 512 * 1024 * 1024 * 1024}
	}
	for _, d := range c.Depts {
		topo.Departments = append(topo.Departments, test_utils.TestDepartmentBasic{
			Name: queueStr(d.ID), DeservedGPUs: d.Deserved, MaxAllowedGPUs: d.Limit})
	}
	for _, q := range c.Queues {
		topo.Queues = append(topo.Queues, test_utils.TestQueueBasic{
			Name: queueStr(q.ID), ParentQueue: queueStr(q.Dept), DeservedGPUs: q.Deserved, MaxAllowedGPUs: q.Limit,
			GPUOverQuotaWeight: q.Weight, DeservedCPUs: optF(q.DeservedCPU), MaxAllowedCPUs: optF(q.LimitCPU)})
	}
	for _, o := range c.Orphans {
		topo.Departments = append(topo.Departments, test_utils.TestDepartmentBasic{
			Name: queueStr(o.Dept), DeservedGPUs: -1, MaxAllowedGPUs: -1})
		topo.Queues = append(topo.Queues, test_utils.TestQueueBasic{
			Name: queueStr(o.ID), ParentQueue: queueStr(o.Dept), DeservedGPUs: o.Deserved, MaxAllowedGPUs: o.Limit,
			GPUOverQuotaWeight: o.Weight})
	}
	for _, j := range c.Jobs {
		job := &jobs_fake.TestJobBasic{Name: uidStr(j.UID), Namespace: j.NS, QueueName: queueStr(j.Queue), Priority: j.Prio,
			JobAgeInMinutes: 1, Preemptibility: enginev2alpha2.Preemptibility(specName[j.Spec])}
		if j.Running != "" {
			job.RequiredGPUsPerTask = float64(j.RunGPUs)
			job.RequiredCPUsPerTask = 500
			job.Tasks = []*tasks_fake.TestTaskBasic{{State: pod_status.Running, NodeName: j.Running}}
		} else {
			t := c.Templates[j.Template]
			job.RequiredGPUsPerTask = float64(t.GPUs)
			job.RequiredCPUsPerTask = t.CPUs
			for k := 0; k < t.Tasks; k++ {
				job.Tasks = append(job.Tasks, &tasks_fake.TestTaskBasic{State: pod_status.Pending})
			}
		}
		topo.Jobs = append(topo.Jobs, job)
	}
	return topo
}

func placedStatus(s pod_status.PodStatus) bool {
	switch s {
	case pod_status.Allocated, pod_status.Binding, pod_status.Bound, pod_status.Pipelined, pod_status.Running:
		return true
	}
	return false
}

func seenPre(p enginev2alpha2.Preemptibility) int {
	switch p {
	case enginev2alpha2.Preemptible:
		return specPreemptible
	case enginev2alpha2.NonPreemptible:
		return specNonPreemptible
	}
	return specUnset
}

func thousandths(v float64) (int64, error) {
	t := v * 1000
	if t != math.Trunc(t) || math.Abs(t) > 1e15 {
		return 0, fmt.Errorf("quantity %v is not exact in thousandths", v)
	}
	return int64(t), nil
}

// request sums what the pods ask for, as capacity_policy.getRequiredQuota (pending pods: ResReq)
// and proportion's usage accounting (allocated pods: AcceptedResource) do: cpu, memory, gpu.
func request(pods []*pod_info.PodInfo, accepted bool) ([]int64, error) {
	var cpu, mem, gpu float64
	for _, p := range pods {
		rr := p.ResReq
		if accepted && p.AcceptedResource != nil {
			rr = p.AcceptedResource
		}
		cpu += rr.Cpu()
		mem += rr.Memory()
		gpu += rr.GetGpusQuota()
	}
	out := make([]int64, 3)
	for i, v := range []float64{cpu, mem, gpu} {
		t, err := thousandths(v)
		if err != nil {
			return nil, err
		}
		out[i] = t
	}
	return out, nil
}

func verdictOf(res *api.SchedulableResult) (int, error) {
	if res.IsSchedulable {
		return 0, nil
	}
	switch res.Reason {
	case enginev2alpha2.OverLimit:
		return 1, nil
	case enginev2alpha2.NonPreemptibleOverQuota:
		return 2, nil
	}
	return 0, fmt.Errorf("capacity gate: unexpected reason %q", res.Reason)
}

// run opens a real session, asks the real capacity gates about every pending job, executes the
// real allocate action once and reads the decisions back.
func (a *allocRunner) run(c cluster, depth int) (res alResult, err error) {
	defer func() {
		if p := recover(); p != nil {
			err = fmt.Errorf("panic in real code: %v", p)
		}
	}()
	ssn := test_utils.BuildSession(c.topology(), a.ctrl)
	// the plugins are open; now the parents of the orphan queues leave the snapshot's queue map
	for _, o := range c.Orphans {
		delete(ssn.ClusterInfo.Queues, common_info.QueueID(queueStr(o.Dept)))
	}
	byUID := map[int]alJob{}
	var pendingUIDs, runningUIDs []int
	for _, j := range c.Jobs {
		byUID[j.UID] = j
		// exact, tie-prone creation times (jobs_fake derives them from time.Now())
		if info, ok := ssn.ClusterInfo.PodGroupInfos[common_info.PodGroupID(uidStr(j.UID))]; ok {
			created := metav1.Time{Time: baseTime.Add(time.Duration(j.Age) * time.Second)}
			// jobs_fake stamps every job that has allocated pods with time.Now() - 1 min (not through the annotation);
			// the harness decides: no annotation = never stamped (a job started by a scheduler that did not stamp)
			info.LastStartTimestamp = nil
			if j.HasLS {
				// the job's history, the way the cluster snapshot restores it in every cycle: the real SetPodGroup
				// on the pod group carrying the annotation the status updater wrote when the job was started
				pg := info.PodGroup.DeepCopy()
				pg.CreationTimestamp = created
				pg.Spec.MinMember = int32(len(info.GetAllPodsMap()))
				if pg.Annotations == nil {
					pg.Annotations = map[string]string{}
				}
				pg.Annotations[commonconstants.LastStartTimeStamp] = lsAnnotation(j.LS)
				info.SetPodGroup(pg)
			}
			info.CreationTimestamp = created
		}
		if j.Running == "" {
			pendingUIDs = append(pendingUIDs, j.UID)
		} else {
			runningUIDs = append(runningUIDs, j.UID)
		}
	}
	sort.Ints(pendingUIDs)
	sort.Ints(runningUIDs)
	if depth >= 0 {
		ssn.Config.QueueDepthPerAction = map[string]int{string(framework.Allocate): depth}
	}

	podsOf := func(uid int) []*pod_info.PodInfo {
		info := ssn.ClusterInfo.PodGroupInfos[common_info.PodGroupID(uidStr(uid))]
		var pods []*pod_info.PodInfo
		for _, t := range info.GetAllPodsMap() {
			pods = append(pods, t)
		}
		sort.Slice(pods, func(i, k int) bool { return pods[i].UID < pods[k].UID })
		return pods
	}
	spec := func(uid int, accepted bool) (jobSpec, error) {
		j := byUID[uid]
		info := ssn.ClusterInfo.PodGroupInfos[common_info.PodGroupID(uidStr(uid))]
		pods := podsOf(uid)
		req, err := request(pods, accepted)
		if err != nil {
			return jobSpec{}, err
		}
		res.Pre = append(res.Pre, preObs{UID: uid, Spec: j.Spec, Seen: seenPre(info.Preemptibility)})
		sub := [][2]int{{0, len(pods)}}
		if accepted {
			sub = [][2]int{{len(pods), len(pods)}}
		}
		js := jobSpec{UID: uid, Queue: j.Queue, Prio: info.Priority, CTime: j.Age, Sub: sub, Shape: j.Template,
			Pre: supposedPre(j.Spec, j.Prio), Req: req}
		// the stamp the scheduler holds (whole seconds: RFC3339)
		if info.LastStartTimestamp != nil {
			js.HasLS, js.LS = true, info.LastStartTimestamp.Unix()-baseTime.Unix()
		}
		if js.HasLS != j.HasLS || js.LS != j.LS {
			return jobSpec{}, fmt.Errorf("last-start stamp of %s: given %v %d, the snapshot holds %v %d", uidStr(uid), j.HasLS, j.LS, js.HasLS, js.LS)
		}
		return js, nil
	}
	for _, uid := range runningUIDs {
		js, err := spec(uid, true)
		if err != nil {
			return res, err
		}
		res.Running = append(res.Running, js)
	}
	// the real gates at session open, before anything is allocated
	for _, uid := range pendingUIDs {
		js, err := spec(uid, false)
		if err != nil {
			return res, err
		}
		res.Jobs = append(res.Jobs, js)
		if byUID[uid].Ghost != ghostNone {
			continue // no queue to ask the gates about
		}
		info := ssn.ClusterInfo.PodGroupInfos[common_info.PodGroupID(uidStr(uid))]
		pods := podsOf(uid)
		vc, err := verdictOf(ssn.IsJobOverQueueCapacityFn(info, pods))
		if err != nil {
			return res, err
		}
		vq, err := verdictOf(ssn.IsNonPreemptibleJobOverQueueQuotaFn(info, pods))
		if err != nil {
			return res, err
		}
		res.Gates = append(res.Gates, gateObs{UID: uid, Capacity: vc, NPQuota: vq})
	}

	first := map[int]bool{}
	var seq []int
	ssn.AddEventHandler(&framework.EventHandler{AllocateFunc: func(e *framework.Event) {
		var uid int
		fmt.Sscanf(string(e.Task.Job), "u%d", &uid)
		if !first[uid] {
			first[uid] = true
			seq = append(seq, uid)
		}
	}})

	// what the real collection hands out: InitializeWithJobs over the session's pod groups with the options of the
	// allocate action, then PopNextJob until empty (reads the session only)
	jo := utils.NewJobsOrderByQueues(ssn, utils.JobsOrderInitOptions{FilterNonPending: true, FilterUnready: true,
		MaxJobsQueueDepth: ssn.GetJobsDepth(framework.Allocate)})
	jo.InitializeWithJobs(ssn.ClusterInfo.PodGroupInfos)
	for !jo.IsEmpty() {
		job := jo.PopNextJob()
		if job == nil {
			break
		}
		res.Coll = append(res.Coll, uidOf(job))
	}

	// the jobs the action itself attempts: common.AllocateJob asks the job-level capacity gate once per popped job
	if len(ssn.IsJobOverCapacityFns) == 0 {
		return res, fmt.Errorf("no job-level capacity gate registered: attempts cannot be observed")
	}
	gate := ssn.IsJobOverCapacityFns[0]
	ssn.IsJobOverCapacityFns[0] = func(job *podgroup_info.PodGroupInfo, tasks []*pod_info.PodInfo) *api.SchedulableResult {
		res.Pops = append(res.Pops, uidOf(job))
		return gate(job, tasks)
	}

	allocate.New().Execute(ssn)

	res.Placed = map[int]bool{}
	for _, uid := range pendingUIDs {
		info := ssn.ClusterInfo.PodGroupInfos[common_info.PodGroupID(uidStr(uid))]
		placed := true
		ntasks := 0
		for _, t := range info.GetAllPodsMap() {
			ntasks++
			if !placedStatus(t.Status) {
				placed = false
			}
		}
		res.Placed[uid] = placed && ntasks > 0
	}
	for _, uid := range seq {
		if res.Placed[uid] {
			res.Order = append(res.Order, uid)
		}
	}
	return res, nil
}

func scaled(v float64) int64 {
	if v < 0 {
		return -1
	}
	return int64(math.Round(v * 1000))
}

func shareTerm(deserved, limit float64) string {
	return fmt.Sprintf("{| rs_deserved := %s; rs_max_allowed := %s; rs_allocated := 0; rs_allocated_np := 0 |}",
		u.Z(scaled(deserved)), u.Z(scaled(limit)))
}

// quotasTerm is the queue map of the proportion plugin before any usage is accounted: quotas and
// limits as test_utils hands them to the plugin (cpu and memory of departments, and memory of
// queues, are unlimited there; a GPU limit of 0 means none).
func (c cluster) quotasTerm() string {
	var qas []string
	for _, d := range c.Depts {
		lim := d.Limit
		if lim == 0 {
			lim = -1
		}
		qas = append(qas, fmt.Sprintf("{| qa_id := %s; qa_parent := None; qa_shares := [%s; %s; %s] |}", u.Z(int64(d.ID)),
			shareTerm(-1, -1), shareTerm(-1, -1), shareTerm(d.Deserved, lim)))
	}
	for _, q := range c.Queues {
		lim := q.Limit
		if lim == 0 {
			lim = -1
		}
		qas = append(qas, fmt.Sprintf("{| qa_id := %s; qa_parent := Some %s; qa_shares := [%s; %s; %s] |}", u.Z(int64(q.ID)),
			u.Z(int64(q.Dept)), shareTerm(q.DeservedCPU, q.LimitCPU), shareTerm(-1, -1), shareTerm(q.Deserved, lim)))
	}
	return u.List(qas)
}

func comparable(a, b jobSpec) bool {
	if a.Queue != b.Queue || a.Shape != b.Shape || a.Pre != b.Pre || len(a.Req) != len(b.Req) {
		return false
	}
	for i := range a.Req {
		if a.Req[i] != b.Req[i] {
			return false
		}
	}
	return true
}

func preShort(spec int, prio int32) string {
	s := "d"
	if spec != specUnset {
		s = "e"
	}
	if supposedPre(spec, prio) == specPreemptible {
		return s + "P"
	}
	return s + "N"
}

func emitAL(out *u.Out, origin string, c cluster, depth int, res alResult) {
	var qs []queueSpec
	for _, d := range c.Depts {
		qs = append(qs, queueSpec{ID: d.ID})
	}
	used := map[int]bool{}
	for _, q := range c.Queues {
		qs = append(qs, queueSpec{ID: q.ID, Parent: q.Dept, Leaf: true})
		used[q.Dept] = true
	}
	for i := range qs {
		if qs[i].Parent == 0 && !used[qs[i].ID] {
			qs[i].Leaf = true // a department without queues has no child queues
		}
	}
	for _, o := range c.Orphans {
		qs = append(qs, queueSpec{ID: o.ID, Parent: o.Dept, Leaf: true}) // its department is not in the map
	}
	zs := func(vs []int) string { return u.ListOf(vs, func(v int) string { return u.Z(int64(v)) }) }
	order := zs(res.Order)
	pobs := u.ListOf(res.Pre, func(o preObs) string {
		return fmt.Sprintf("{| po_uid := %s; po_spec := %s; po_seen := %s |}", u.Z(int64(o.UID)), preTerm[o.Spec], preTerm[o.Seen])
	})
	gobs := u.ListOf(res.Gates, func(o gateObs) string {
		return fmt.Sprintf("{| go_uid := %s; go_capacity := %s; go_np_quota := %s |}", u.Z(int64(o.UID)),
			verdictTerm[o.Capacity], verdictTerm[o.NPQuota])
	})
	term := fmt.Sprintf("(CAL %s %s %s %s %s %s %s %s %s %s)", u.ListOf(qs, queueSpec.term), u.Z(int64(depth)),
		u.ListOf(res.Jobs, jobSpec.term), order, c.quotasTerm(), u.ListOf(res.Running, jobSpec.term), pobs, gobs,
		zs(res.Coll), zs(res.Pops))

	byUID := map[int]alJob{}
	for _, j := range c.Jobs {
		byUID[j.UID] = j
	}
	gate := map[int]gateObs{}
	for _, g := range res.Gates {
		gate[g.UID] = g
	}
	// e/d = spec.preemptibility explicit / derived from the priority, P/N = preemptible / non-preemptible
	var js []string
	for _, j := range res.Jobs {
		mark := "-"
		if res.Placed[j.UID] {
			mark = "+"
		}
		if aj := byUID[j.UID]; aj.Ghost != ghostNone {
			ns := aj.NS
			if ns == "" {
				ns = "default"
			}
			js = append(js, fmt.Sprintf("%su%d:GHOST(%s q%d ns=%s):p%d:t%d%s:T%d:%s", mark, j.UID, ghostName[aj.Ghost], j.Queue, ns,
				j.Prio, j.CTime, j.lsShort(), j.Shape, preShort(aj.Spec, aj.Prio)))
			continue
		}
		js = append(js, fmt.Sprintf("%su%d:q%d:p%d:t%d%s:T%d:%s:gate=%s/%s", mark, j.UID, j.Queue, j.Prio, j.CTime, j.lsShort(), j.Shape,
			preShort(byUID[j.UID].Spec, byUID[j.UID].Prio), verdictShort[gate[j.UID].Capacity], verdictShort[gate[j.UID].NPQuota]))
	}
	var rs []string
	for _, j := range c.Jobs {
		if j.Running != "" {
			rs = append(rs, fmt.Sprintf("u%d:q%d:p%d%s:%s:%dgpu@%s", j.UID, j.Queue, j.Prio, jobSpec{HasLS: j.HasLS, LS: j.LS}.lsShort(),
				preShort(j.Spec, j.Prio), j.RunGPUs, j.Running))
		}
	}
	var qsShort []string
	for _, d := range c.Depts {
		qsShort = append(qsShort, fmt.Sprintf("d%d:des%g:lim%g", d.ID, d.Deserved, d.Limit))
	}
	for _, q := range c.Queues {
		s := fmt.Sprintf("q%d^%d:des%g:lim%g:w%g", q.ID, q.Dept, q.Deserved, q.Limit, q.Weight)
		if q.DeservedCPU >= 0 || q.LimitCPU >= 0 {
			s += fmt.Sprintf(":cpudes%g:cpulim%g", q.DeservedCPU, q.LimitCPU)
		}
		qsShort = append(qsShort, s)
	}
	var ts []string
	for i, t := range c.Templates {
		ts = append(ts, fmt.Sprintf("T%d=%dx%dgpu+%gmcpu", i, t.Tasks, t.GPUs, t.CPUs))
	}
	for _, o := range c.Orphans {
		qsShort = append(qsShort, fmt.Sprintf("q%d^%d(parent-not-in-snapshot)", o.ID, o.Dept))
	}
	label := fmt.Sprintf("%salloc %s depth=%s nodes=%v queues=[%s] templates=[%s] running=[%s] jobs(+placed)=[%s] order=%v collected=%v attempted=%v",
		streamPrefix(depth), origin, depthLabel(depth), c.Nodes, strings.Join(qsShort, " "), strings.Join(ts, " "),
		strings.Join(rs, " "), strings.Join(js, " "), res.Order, res.Coll, res.Pops)
	out.Add(term, label)
	out.Count("kind:alloc")
	out.Count("alloc-depth:" + depthClass(depth))
	out.Count(fmt.Sprintf("alloc-leaf-queues:%d", len(c.Queues)))
	// comparable pairs: same leaf queue, template, request and supposed preemptibility;
	// split = one placed, the other not; straddling = priorities on both sides of 100
	pairs, decided, straddle, straddleExplicit, gated := 0, 0, 0, 0, 0
	for i, a := range res.Jobs {
		if byUID[a.UID].Ghost != ghostNone {
			continue
		}
		for _, b := range res.Jobs[i+1:] {
			if !comparable(a, b) {
				continue
			}
			pairs++
			if res.Placed[a.UID] != res.Placed[b.UID] {
				decided++
			}
			if (a.Prio < 100) != (b.Prio < 100) {
				straddle++
				if a.Pre == specPreemptible {
					straddleExplicit++
				}
			}
			if gate[a.UID].Capacity != 0 {
				gated++
			}
			// FIFO pairs (equal priority, different creation time) by the stamps of the older / younger job
			if a.Prio == b.Prio && a.CTime != b.CTime {
				older, younger := a, b
				if b.CTime < a.CTime {
					older, younger = b, a
				}
				out.Count("alloc:fifo-pairs")
				split := res.Placed[a.UID] != res.Placed[b.UID]
				if older.HasLS && older.LS > younger.CTime && !(younger.HasLS && younger.LS >= older.LS) {
					out.Count("alloc:fifo-pairs-older-restarted-after-younger-created")
					if split {
						out.Count("alloc:fifo-pairs-older-restarted-after-younger-created-split")
					}
				}
				if older.HasLS != younger.HasLS || older.LS != younger.LS {
					out.Count("alloc:fifo-pairs-different-stamps")
					if split {
						out.Count("alloc:fifo-pairs-different-stamps-split")
					}
				}
			}
		}
	}
	for _, j := range res.Jobs {
		countLS(out, "alloc", j)
	}
	for _, j := range res.Running {
		countLS(out, "alloc", j)
	}
	out.CountN("alloc:comparable-pairs", pairs)
	out.CountN("alloc:comparable-pairs-split", decided)
	out.CountN("alloc:comparable-pairs-straddling-100", straddle)
	out.CountN("alloc:comparable-pairs-straddling-100-preemptible", straddleExplicit)
	out.CountN("alloc:comparable-pairs-refused-by-gate", gated)
	out.CountN("alloc:jobs", len(res.Jobs))
	out.CountN("alloc:jobs-collected", len(res.Coll))
	out.CountN("alloc:jobs-attempted", len(res.Pops))
	nghost := 0
	for _, j := range res.Jobs {
		if g := byUID[j.UID].Ghost; g != ghostNone {
			nghost++
			out.Count("alloc-ghost:" + ghostName[g])
			if byUID[j.UID].NS != "" {
				out.Count("alloc-ghost:other-namespace")
			}
		}
	}
	out.Count(fmt.Sprintf("alloc-ghosts-per-run:%d", nghost))
	if nghost > 0 {
		out.CountN("alloc:comparable-pairs-next-to-ghosts", pairs)
		out.CountN("alloc:comparable-pairs-split-next-to-ghosts", decided)
	}
	out.CountN("alloc:jobs-placed", len(res.Order))
	out.CountN("alloc:running-jobs", len(res.Running))
	for _, j := range res.Jobs {
		aj := byUID[j.UID]
		if aj.Ghost != ghostNone {
			continue
		}
		out.Count("alloc-job-pre:" + preShort(aj.Spec, aj.Prio))
		if aj.Spec == specPreemptible && aj.Prio >= 100 {
			out.Count("alloc-job:explicit-preemptible-at-or-above-100")
		}
		if aj.Spec == specNonPreemptible && aj.Prio < 100 {
			out.Count("alloc-job:explicit-non-preemptible-below-100")
		}
		out.Count("alloc-gate-capacity:" + verdictShort[gate[j.UID].Capacity])
		out.Count("alloc-gate-npquota:" + verdictShort[gate[j.UID].NPQuota])
	}
	if decided > 0 {
		out.NonTrivial("al|" + label)
	}
	if origin == "gen#0" || origin == "gen#4" || origin == "corpus:readme-priority-with-ghost round=1/24" {
		out.Sample(map[string]any{"kind": "alloc", "depth": depth, "cluster": c, "placed_order": res.Order, "gates": res.Gates})
	}
}
