// Package c16 drives the real job-ordering machinery of the scheduler for
// property C16 (priority, then FIFO, between equal workloads of a queue):
//
//   - scheduler_util.PriorityQueue with Session.JobOrderFn (priority + elastic
//     plugins) on random push / pop / fix programs, unlimited and finite size;
//   - utils.JobsOrderByQueues over generated queue hierarchies (2-6 competing
//     leaf queues, 1-3 levels) on random PushJob / PopNextJob programs;
//   - the real allocate action on generated clusters through test_utils, recording
//     which pending jobs were placed and in which order; jobs carry an explicit
//     spec.preemptibility independent of their priority, quotas are partly or fully
//     used by running non-preemptible jobs, and the real capacity gates
//     (Session.IsJobOverQueueCapacityFn, Session.IsNonPreemptibleJobOverQueueQuotaFn)
//     are asked about every pending job when the session opens (alloc.go). A share
//     of the worlds carries "ghosts" - ready pending pod groups whose queue is missing,
//     orphaned or not a leaf - and is run on several fresh sessions; every run records
//     which jobs the real InitializeWithJobs + PopNextJob hand out, which jobs the
//     action attempts (in order) and which it places.
//
// Every case is printed as a Coq term of type `case` (coq/Run/C16.v).
package c16

import (
	"fmt"
	"strings"
	"sync"
	"time"

	"go.uber.org/mock/gomock"

	metav1 "k8s.io/apimachinery/pkg/apis/meta/v1"
	"k8s.io/apimachinery/pkg/types"

	enginev2alpha2 "github.com/NVIDIA/KAI-scheduler/pkg/apis/scheduling/v2alpha2"
	commonconstants "github.com/NVIDIA/KAI-scheduler/pkg/common/constants"

	"github.com/NVIDIA/KAI-scheduler/pkg/scheduler/actions/utils"
	"github.com/NVIDIA/KAI-scheduler/pkg/scheduler/api"
	"github.com/NVIDIA/KAI-scheduler/pkg/scheduler/api/common_info"
	"github.com/NVIDIA/KAI-scheduler/pkg/scheduler/api/pod_info"
	"github.com/NVIDIA/KAI-scheduler/pkg/scheduler/api/pod_status"
	"github.com/NVIDIA/KAI-scheduler/pkg/scheduler/api/podgroup_info"
	"github.com/NVIDIA/KAI-scheduler/pkg/scheduler/api/podgroup_info/subgroup_info"
	"github.com/NVIDIA/KAI-scheduler/pkg/scheduler/api/queue_info"
	"github.com/NVIDIA/KAI-scheduler/pkg/scheduler/framework"
	"github.com/NVIDIA/KAI-scheduler/pkg/scheduler/plugins/elastic"
	"github.com/NVIDIA/KAI-scheduler/pkg/scheduler/plugins/priority"
	"github.com/NVIDIA/KAI-scheduler/pkg/scheduler/scheduler_util"

	u "kaiverif/internal/util"
)

// ---- model-side values -----------------------------------------------------

// jobSpec is the projection of a PodGroupInfo the comparator chain reads.
type jobSpec struct {
	UID   int
	Queue int
	Prio  int32
	Sub   [][2]int // per pod set: (active allocated pods, minAvailable)
	CTime int64    // seconds after the base time
	Shape int
	Pre   int     // PodGroupInfo.Preemptibility as it is supposed to be: 0 unset, 1 preemptible, 2 non-preemptible
	Req   []int64 // request of the tasks to allocate (cpu, memory, gpu), thousandths; allocate runs only
	// PodGroupInfo.LastStartTimestamp, seconds after the base time (may be negative); HasLS false = nil.
	// Given through the real PodGroupInfo.SetPodGroup (annotation kai.scheduler/last-start-timestamp).
	HasLS bool
	LS    int64
}

// last-start states, drawn independently of everything else (own PRNG stream): never started; stamped before the
// job's own creation (clock skew between the scheduler and the API server); stamped a few seconds after its own
// creation, i.e. between the creation times of the jobs it competes with; stamped long after every creation time.
const (
	lsNone = iota
	lsBeforeCreation
	lsAmongCreations
	lsAfterAll
)

var lsName = []string{"none", "before-creation", "among-creations", "after-all"}

func drawLS(r *u.Rng, ctime int64) (bool, int64, int) {
	switch k := r.Intn(8); {
	case k < 3:
		return false, 0, lsNone
	case k < 4:
		return true, ctime - int64(r.Range(1, 3)), lsBeforeCreation
	case k < 6:
		return true, ctime + int64(r.Range(1, 7)), lsAmongCreations
	default:
		return true, 100000 + int64(r.Intn(3)), lsAfterAll
	}
}

// lsRng is the last-start stream of the program being generated (nil: no stamps)
var lsRng *u.Rng

// lsAnnotation is what status_updater.setPodGroupLastStartTimeStamp writes
func lsAnnotation(ls int64) string {
	return baseTime.Add(time.Duration(ls) * time.Second).UTC().Format(time.RFC3339)
}

func lsTerm(has bool, ls int64) string { return u.Opt(has, u.Z(ls)) }

func (j jobSpec) lsShort() string {
	if !j.HasLS {
		return ""
	}
	return fmt.Sprintf(":ls%d", j.LS)
}

// countLS records the last-start coverage of one job of a stream
func countLS(out *u.Out, stream string, j jobSpec) {
	alloc := 0
	for _, s := range j.Sub {
		alloc += s[0]
	}
	state := "pending"
	if alloc > 0 {
		state = "with-running-pods"
	}
	kind := "none"
	switch {
	case !j.HasLS:
	case j.LS < j.CTime:
		kind = "before-creation"
	case j.LS == j.CTime:
		kind = "at-creation"
	case j.LS >= 50000:
		kind = "after-all"
	default:
		kind = "among-creations"
	}
	out.Count(fmt.Sprintf("%s-last-start:%s:%s", stream, kind, state))
}

var preTerm = []string{"PUnset", "PPreemptible", "PNonPreemptible"}

type queueSpec struct {
	ID     int
	Parent int // 0 = root level
	Leaf   bool
}

var baseTime = time.Unix(1700000000, 0)

func uidStr(i int) string   { return fmt.Sprintf("u%07d", i) }
func queueStr(i int) string { return fmt.Sprintf("q%05d", i) }

func (j jobSpec) term() string {
	subs := make([]string, len(j.Sub))
	for i, s := range j.Sub {
		subs[i] = u.Pair(u.Z(int64(s[0])), u.Z(int64(s[1])))
	}
	return fmt.Sprintf("{| j_uid := %s; j_queue := %s; j_prio := %s; j_subgroups := %s; j_ctime := %s; j_shape := %s; j_pre := %s; j_req := %s; j_last_start := %s |}",
		u.Z(int64(j.UID)), u.Z(int64(j.Queue)), u.Z(int64(j.Prio)), u.List(subs), u.Z(j.CTime), u.Z(int64(j.Shape)),
		preTerm[j.Pre], u.ListOf(j.Req, u.Z), lsTerm(j.HasLS, j.LS))
}

func (j jobSpec) short() string {
	subs := make([]string, len(j.Sub))
	for i, s := range j.Sub {
		subs[i] = fmt.Sprintf("%d/%d", s[0], s[1])
	}
	return fmt.Sprintf("u%d:q%d:p%d:t%d%s:[%s]", j.UID, j.Queue, j.Prio, j.CTime, j.lsShort(), strings.Join(subs, ","))
}

func (q queueSpec) term() string {
	parent := "None"
	if q.Parent != 0 {
		parent = "(Some " + u.Z(int64(q.Parent)) + ")"
	}
	return fmt.Sprintf("{| qi_id := %s; qi_parent := %s; qi_leaf := %s |}", u.Z(int64(q.ID)), parent, u.Bool(q.Leaf))
}

func optZ(present bool, v int) string { return u.Opt(present, u.Z(int64(v))) }

// build makes the real PodGroupInfo for a jobSpec: one pod set per entry of Sub,
// holding `allocated` running pods and the given minAvailable.
func (j jobSpec) build() *podgroup_info.PodGroupInfo {
	podSets := map[string]*subgroup_info.PodSet{}
	for i, s := range j.Sub {
		name := fmt.Sprintf("sg%d", i)
		pods := pod_info.PodsMap{}
		for k := 0; k < s[0]; k++ {
			id := common_info.PodID(fmt.Sprintf("%s-%s-%d", uidStr(j.UID), name, k))
			pods[id] = &pod_info.PodInfo{UID: id, Status: pod_status.Running}
		}
		podSets[name] = subgroup_info.NewPodSet(name, int32(s[1]), nil).WithPodInfos(pods)
	}
	info := &podgroup_info.PodGroupInfo{
		UID:               common_info.PodGroupID(uidStr(j.UID)),
		Name:              uidStr(j.UID),
		Queue:             common_info.QueueID(queueStr(j.Queue)),
		Priority:          j.Prio,
		CreationTimestamp: metav1.Time{Time: baseTime.Add(time.Duration(j.CTime) * time.Second)},
		PodSets:           podSets,
	}
	if j.HasLS {
		// the job's history, the way the cluster snapshot restores it: the real SetPodGroup reads the annotation
		// the status updater wrote when the job was started (it also re-reads name, queue and creation time
		// from the PodGroup; the pod sets sg0.. are not the default sub group and stay as built)
		pg := &enginev2alpha2.PodGroup{
			ObjectMeta: metav1.ObjectMeta{Name: uidStr(j.UID), UID: types.UID(uidStr(j.UID)), CreationTimestamp: info.CreationTimestamp,
				Annotations: map[string]string{commonconstants.LastStartTimeStamp: lsAnnotation(j.LS)}},
			Spec: enginev2alpha2.PodGroupSpec{Queue: queueStr(j.Queue)},
		}
		info.SetPodGroup(pg)
		if info.LastStartTimestamp == nil || info.LastStartTimestamp.Unix() != baseTime.Unix()+j.LS {
			panic(fmt.Sprintf("harness: SetPodGroup did not restore the last-start stamp of %s", uidStr(j.UID)))
		}
	}
	return info
}

func uidOf(job *podgroup_info.PodGroupInfo) int {
	var v int
	fmt.Sscanf(string(job.UID), "u%d", &v)
	return v
}

// orderSession is a session that only carries what the ordering code reads: the
// job order functions registered by the real priority and elastic plugins (in the
// order of the default configuration), the harness's queue order function, and
// the queue map.
func orderSession(queues []queueSpec) *framework.Session {
	ssn := &framework.Session{ClusterInfo: &api.ClusterInfo{Queues: map[common_info.QueueID]*queue_info.QueueInfo{}}}
	priority.New(nil).OnSessionOpen(ssn)
	elastic.New(nil).OnSessionOpen(ssn)
	ssn.AddQueueOrderFn(harnessQueueOrder)
	for _, q := range queues {
		qi := &queue_info.QueueInfo{UID: common_info.QueueID(queueStr(q.ID)), Name: queueStr(q.ID)}
		if q.Parent != 0 {
			qi.ParentQueue = common_info.QueueID(queueStr(q.Parent))
		}
		ssn.ClusterInfo.Queues[qi.UID] = qi
	}
	for _, q := range queues {
		if q.Parent != 0 {
			if p, ok := ssn.ClusterInfo.Queues[common_info.QueueID(queueStr(q.Parent))]; ok {
				p.ChildQueues = append(p.ChildQueues, common_info.QueueID(queueStr(q.ID)))
			}
		}
	}
	return ssn
}

// harnessQueueOrder is the queue order function of the JobsOrderByQueues cases
// (h_qord in coq/Run/C16.v): higher priority of the best pending job first, then
// queue id. It depends on the head job, so stale order (needsReorder) matters.
func harnessQueueOrder(lQ, rQ *queue_info.QueueInfo, lJob, rJob *podgroup_info.PodGroupInfo,
	_, _ []*podgroup_info.PodGroupInfo, _ int64) int {
	if lJob != nil && rJob != nil && lJob.Priority != rJob.Priority {
		if lJob.Priority > rJob.Priority {
			return -1
		}
		return 1
	}
	if lQ.UID < rQ.UID {
		return -1
	}
	return 1
}

// ---- PriorityQueue programs -------------------------------------------------

type pqOp struct {
	Kind string // push pop fix reprio
	Job  jobSpec
	Idx  int
	Prio int32
}

func (o pqOp) term() string {
	switch o.Kind {
	case "push":
		return "(PPush " + o.Job.term() + ")"
	case "pop":
		return "PPop"
	case "fix":
		return fmt.Sprintf("(PFix %s)", u.Nat(o.Idx))
	default:
		return fmt.Sprintf("(PReprio %s)", u.Z(int64(o.Prio)))
	}
}

func (o pqOp) short() string {
	switch o.Kind {
	case "push":
		return "push(" + o.Job.short() + ")"
	case "pop":
		return "pop"
	case "fix":
		return fmt.Sprintf("fix(%d)", o.Idx)
	default:
		return fmt.Sprintf("reprio(%d)", o.Prio)
	}
}

type obsv struct {
	Present bool
	UID     int
}

func obsTerm(os []obsv) string {
	return u.ListOf(os, func(o obsv) string { return optZ(o.Present, o.UID) })
}

func obsShort(os []obsv, kinds func(i int) bool) string {
	var parts []string
	for i, o := range os {
		if !kinds(i) {
			continue
		}
		if o.Present {
			parts = append(parts, fmt.Sprintf("u%d", o.UID))
		} else {
			parts = append(parts, "nil")
		}
	}
	return strings.Join(parts, ",")
}

// RunPQ executes the program on the real PriorityQueue. Programs are generated
// step by step because Fix needs the current length.
func RunPQ(maxSize int, gen func(step, length int) (pqOp, bool)) ([]pqOp, []obsv) {
	ssn := orderSession(nil)
	pq := scheduler_util.NewPriorityQueue(ssn.JobOrderFn, maxSize)
	var ops []pqOp
	var obs []obsv
	for step := 0; ; step++ {
		op, more := gen(step, pq.Len())
		if !more {
			break
		}
		o := obsv{}
		switch op.Kind {
		case "push":
			pq.Push(op.Job.build())
		case "pop":
			if it := pq.Pop(); it != nil {
				o = obsv{true, uidOf(it.(*podgroup_info.PodGroupInfo))}
			}
		case "fix":
			pq.Fix(op.Idx)
		case "reprio":
			if it := pq.Peek(); it != nil {
				job := it.(*podgroup_info.PodGroupInfo)
				job.Priority = op.Prio
				pq.Fix(0)
				o = obsv{true, uidOf(job)}
			}
		}
		ops = append(ops, op)
		obs = append(obs, o)
	}
	return ops, obs
}

var usualPrios = []int32{40, 50, 50, 60, 75, 100, 100, 125}

// the whole range a PriorityClass value may take (int32): user classes go to
// 1e9, system classes to 2e9+1000, and negative values are valid
var widePrios = []int32{-2147483648, -2000000000, -1000000000, -1, 0, 50, 1000000000, 2000000000, 2000001000, 2147483647}

var prios = usualPrios

// allocate runs: the same, plus the two sides of the non-preemptible threshold (100)
var allocWidePrios = append(append([]int32{}, widePrios...), 99, 100)

// PickPrios chooses the priority pool of the next program: every 4th program
// draws from the whole int32 range.
func PickPrios(r *u.Rng) []int32 {
	if r.Chance(1, 4) {
		prios = widePrios
	} else {
		prios = usualPrios
	}
	return prios
}

func genJob(r *u.Rng, uid, queue int, elasticStates bool) jobSpec {
	j := jobSpec{UID: uid, Queue: queue, Prio: u.Pick(r, prios), CTime: int64(r.Intn(6)), Shape: r.Intn(3)}
	nsub := 1
	if r.Chance(1, 5) {
		nsub = r.Range(0, 3)
	}
	for i := 0; i < nsub; i++ {
		min := r.Range(0, 3)
		alloc := 0
		if elasticStates && r.Chance(1, 2) {
			alloc = r.Range(0, 4)
		}
		j.Sub = append(j.Sub, [2]int{alloc, min})
	}
	if lsRng != nil {
		j.HasLS, j.LS, _ = drawLS(lsRng, j.CTime)
	}
	return j
}

func pqProgram(r *u.Rng, maxSize int) ([]pqOp, []obsv) {
	n := r.Range(4, 36)
	uid := 0
	drain := 0
	return RunPQ(maxSize, func(step, length int) (pqOp, bool) {
		if step >= n {
			// drain what is left, plus one pop on the empty queue
			if drain == 0 {
				drain = length + 1
			}
			if step >= n+drain {
				return pqOp{}, false
			}
			return pqOp{Kind: "pop"}, true
		}
		k := r.Intn(100)
		switch {
		case k < 55 || (step < 4 && k < 90):
			uid++
			return pqOp{Kind: "push", Job: genJob(r, uid, 1, true)}, true
		case k < 85:
			return pqOp{Kind: "pop"}, true
		case k < 93 && length > 0:
			return pqOp{Kind: "fix", Idx: r.Intn(length)}, true
		default:
			return pqOp{Kind: "reprio", Prio: u.Pick(r, prios)}, true
		}
	})
}

func depthLabel(d int) string {
	if d == scheduler_util.QueueCapacityInfinite {
		return "inf"
	}
	return fmt.Sprint(d)
}

func streamPrefix(d int) string {
	if d == scheduler_util.QueueCapacityInfinite {
		return ""
	}
	return "finite-depth "
}

func emitPQ(out *u.Out, origin string, maxSize int, ops []pqOp, obs []obsv) {
	term := fmt.Sprintf("(CPQ %s %s %s)", u.Z(int64(maxSize)), u.ListOf(ops, pqOp.term), obsTerm(obs))
	shorts := make([]string, len(ops))
	npush, npop := 0, 0
	for i, o := range ops {
		shorts[i] = o.short()
		if o.Kind == "push" {
			npush++
			countLS(out, "pq", o.Job)
		}
		if o.Kind == "pop" {
			npop++
		}
	}
	popped := obsShort(obs, func(i int) bool { return ops[i].Kind == "pop" })
	label := fmt.Sprintf("%spq %s depth=%s ops=[%s] real-pops=[%s]", streamPrefix(maxSize), origin, depthLabel(maxSize),
		strings.Join(shorts, " "), popped)
	out.Add(term, label)
	out.Count("kind:pq")
	out.Count("pq-depth:" + depthClass(maxSize))
	out.CountN("pq-ops:push", npush)
	out.CountN("pq-ops:pop", npop)
	if npush >= 3 && npop >= 2 {
		out.NonTrivial("pq|" + label)
	}
	if maxSize >= 0 && npush > maxSize {
		out.Count("pq:overflowing-finite")
	}
	if origin == "corpus:witness-100-50-75" || origin == "gen#0" {
		out.Sample(map[string]any{"kind": "pq", "depth": maxSize, "program": strings.Join(shorts, " "), "real_pops": popped})
	}
}

func depthClass(d int) string {
	if d == scheduler_util.QueueCapacityInfinite {
		return "unlimited"
	}
	return "finite"
}

// ---- JobsOrderByQueues programs ----------------------------------------------

type joOp struct {
	Push bool
	Job  jobSpec
}

func (o joOp) term() string {
	if o.Push {
		return "(JPush " + o.Job.term() + ")"
	}
	return "JPop"
}

func (o joOp) short() string {
	if o.Push {
		return "push(" + o.Job.short() + ")"
	}
	return "pop"
}

// genHierarchy makes a consistent queue forest with `leaves` leaf queues on 1-3 levels.
func genHierarchy(r *u.Rng, leaves int) []queueSpec {
	levels := r.Range(1, 3)
	var qs []queueSpec
	id := 0
	next := func() int { id++; return id }
	switch levels {
	case 1:
		for i := 0; i < leaves; i++ {
			qs = append(qs, queueSpec{ID: next(), Leaf: true})
		}
	case 2:
		nd := r.Range(1, 3)
		var depts []int
		for i := 0; i < nd; i++ {
			d := next()
			depts = append(depts, d)
			qs = append(qs, queueSpec{ID: d})
		}
		for i := 0; i < leaves; i++ {
			qs = append(qs, queueSpec{ID: next(), Parent: u.Pick(r, depts), Leaf: true})
		}
	default:
		norg := r.Range(1, 2)
		var orgs, depts []int
		for i := 0; i < norg; i++ {
			o := next()
			orgs = append(orgs, o)
			qs = append(qs, queueSpec{ID: o})
		}
		nd := r.Range(1, 3)
		for i := 0; i < nd; i++ {
			d := next()
			depts = append(depts, d)
			qs = append(qs, queueSpec{ID: d, Parent: u.Pick(r, orgs)})
		}
		for i := 0; i < leaves; i++ {
			// a leaf may hang directly under an organisation
			p := u.Pick(r, depts)
			if r.Chance(1, 6) {
				p = u.Pick(r, orgs)
			}
			qs = append(qs, queueSpec{ID: next(), Parent: p, Leaf: true})
		}
	}
	// queues that ended up without children are leaves (IsLeafQueue = no child queues)
	hasChild := map[int]bool{}
	for _, q := range qs {
		hasChild[q.Parent] = true
	}
	for i := range qs {
		qs[i].Leaf = !hasChild[qs[i].ID]
	}
	return qs
}

// RunJO executes a PushJob/PopNextJob program on the real JobsOrderByQueues.
func RunJO(queues []queueSpec, depth int, ops []joOp) []obsv {
	ssn := orderSession(queues)
	jo := utils.NewJobsOrderByQueues(ssn, utils.JobsOrderInitOptions{MaxJobsQueueDepth: depth})
	obs := make([]obsv, 0, len(ops))
	for _, op := range ops {
		o := obsv{}
		if op.Push {
			jo.PushJob(op.Job.build())
		} else if job := jo.PopNextJob(); job != nil {
			o = obsv{true, uidOf(job)}
		}
		obs = append(obs, o)
	}
	return obs
}

func joProgram(r *u.Rng, queues []queueSpec) []joOp {
	var leaves, all []int
	for _, q := range queues {
		all = append(all, q.ID)
		if q.Leaf {
			leaves = append(leaves, q.ID)
		}
	}
	uid := 0
	var ops []joOp
	pending := 0
	newJob := func() jobSpec {
		uid++
		q := u.Pick(r, leaves)
		if r.Chance(1, 40) {
			q = u.Pick(r, all) // now and then a job that targets a non-leaf queue (ignored by PushJob)
		}
		return genJob(r, uid, q, r.Chance(1, 3))
	}
	var popped []jobSpec // jobs available for an elastic re-push (the harness does not know which were popped; re-push any earlier job with progress)
	initial := r.Range(3, 24)
	for i := 0; i < initial; i++ {
		j := newJob()
		ops = append(ops, joOp{Push: true, Job: j})
		popped = append(popped, j)
		pending++
	}
	steps := r.Range(4, 40)
	for i := 0; i < steps; i++ {
		k := r.Intn(100)
		switch {
		case k < 60:
			ops = append(ops, joOp{})
			if pending > 0 {
				pending--
			}
		case k < 85:
			j := newJob()
			ops = append(ops, joOp{Push: true, Job: j})
			popped = append(popped, j)
			pending++
		default:
			// re-push as allocate does for a job with tasks left: same identity, progress made.
			// A fresh UID keeps UIDs distinct inside the structure (the original may still be queued).
			j := u.Pick(r, popped)
			uid++
			j.UID = uid
			sub := make([][2]int, len(j.Sub))
			for s := range j.Sub {
				sub[s] = [2]int{j.Sub[s][0] + 1, j.Sub[s][1]}
			}
			j.Sub = sub
			ops = append(ops, joOp{Push: true, Job: j})
			pending++
		}
	}
	for i := 0; i < pending+1; i++ {
		ops = append(ops, joOp{})
	}
	return ops
}

func emitJO(out *u.Out, origin string, queues []queueSpec, depth int, ops []joOp, obs []obsv) {
	term := fmt.Sprintf("(CJO %s %s %s %s)", u.ListOf(queues, queueSpec.term), u.Z(int64(depth)),
		u.ListOf(ops, joOp.term), obsTerm(obs))
	shorts := make([]string, len(ops))
	npush, npop := 0, 0
	perQueue := map[int]int{}
	for i, o := range ops {
		shorts[i] = o.short()
		if o.Push {
			npush++
			countLS(out, "jo", o.Job)
			perQueue[o.Job.Queue]++
		} else {
			npop++
		}
	}
	qshort := make([]string, len(queues))
	nleaf := 0
	for i, q := range queues {
		qshort[i] = fmt.Sprintf("%d^%d", q.ID, q.Parent)
		if q.Leaf {
			nleaf++
		}
	}
	popped := obsShort(obs, func(i int) bool { return !ops[i].Push })
	label := fmt.Sprintf("%sjo %s depth=%s queues=[%s] ops=[%s] real-pops=[%s]", streamPrefix(depth), origin,
		depthLabel(depth), strings.Join(qshort, " "), strings.Join(shorts, " "), popped)
	out.Add(term, label)
	out.Count("kind:jo")
	out.Count("jo-depth:" + depthClass(depth))
	out.Count(fmt.Sprintf("jo-leaf-queues:%d", nleaf))
	out.CountN("jo-ops:push", npush)
	out.CountN("jo-ops:pop", npop)
	if len(perQueue) >= 2 && npush >= 4 {
		out.NonTrivial("jo|" + label)
	}
	if origin == "corpus:witness" || origin == "gen#0" {
		out.Sample(map[string]any{"kind": "jo", "depth": depth, "queues(id^parent)": strings.Join(qshort, " "),
			"program": strings.Join(shorts, " "), "real_pops": popped})
	}
}

// ---- entry point ------------------------------------------------------------

var finiteDepths = []int{0, 1, 2, 2, 3, 3, 4, 5, 8}

// Run generates about n cases from seed and writes them under dir.
func Run(dir string, seed uint64, n int, tier string) error {
	out := u.NewOut(dir, "C16", "KaiV.Run.C16", "case", 60)
	root := u.NewRng(seed)

	corpus(out)

	nPQ := n * 40 / 100
	nJO := n * 45 / 100
	nAL := n - nPQ - nJO
	for i := 0; i < nPQ; i++ {
		r := root.Fork(uint64(i))
		depth := scheduler_util.QueueCapacityInfinite
		if i%4 == 3 {
			depth = u.Pick(r, finiteDepths)
		}
		if len(PickPrios(r)) == len(widePrios) {
			out.Count("pq:wide-priorities")
		}
		lsRng = root.Fork(uint64(4000000 + i))
		ops, obs := pqProgram(r, depth)
		lsRng = nil
		emitPQ(out, fmt.Sprintf("gen#%d", i), depth, ops, obs)
	}
	for i := 0; i < nJO; i++ {
		r := root.Fork(uint64(1000000 + i))
		depth := scheduler_util.QueueCapacityInfinite
		if i%4 == 3 {
			depth = u.Pick(r, finiteDepths)
		}
		if len(PickPrios(r)) == len(widePrios) {
			out.Count("jo:wide-priorities")
		}
		queues := genHierarchy(r, r.Range(2, 6))
		origin := fmt.Sprintf("gen#%d", i)
		if i%10 == 9 {
			// malformed stream: one queue names a parent that does not exist, so its
			// subtree is never linked to the root (PushJob warns and returns)
			var cand []int
			for k, q := range queues {
				if q.Parent != 0 {
					cand = append(cand, k)
				}
			}
			if len(cand) > 0 {
				queues[u.Pick(r, cand)].Parent = 900 + r.Intn(5)
				hasChild := map[int]bool{}
				for _, q := range queues {
					hasChild[q.Parent] = true
				}
				for k := range queues {
					queues[k].Leaf = !hasChild[queues[k].ID]
				}
				origin = fmt.Sprintf("malformed#%d", i)
				out.Count("jo:orphan-parent")
			}
		}
		lsRng = root.Fork(uint64(5000000 + i))
		ops := joProgram(r, queues)
		lsRng = nil
		obs := RunJO(queues, depth, ops)
		emitJO(out, origin, queues, depth, ops, obs)
	}
	// allocate runs: the worlds are drawn first, then run on fresh sessions by a pool of workers (a fake session
	// waits 100 ms for its cache mock), then emitted in the order drawn
	type alTask struct {
		origin string
		c      cluster
		depth  int
		res    alResult
		err    error
	}
	var tasks []*alTask
	addTask := func(origin string, c cluster, depth, rounds int) {
		for k := 1; k <= rounds; k++ {
			o := origin
			if rounds > 1 {
				o = fmt.Sprintf("%s round=%d/%d", origin, k, rounds)
			}
			tasks = append(tasks, &alTask{origin: o, c: c, depth: depth})
		}
	}
	inf := scheduler_util.QueueCapacityInfinite
	oneDept := []alDept{{ID: 1001, Deserved: -1, Limit: -1}}
	leafQ := func(id int, deserved float64) alQueue {
		return alQueue{ID: id, Dept: 1001, Deserved: deserved, Limit: -1, Weight: 1, DeservedCPU: -1, LimitCPU: -1}
	}
	oneGPU := []template{{Tasks: 1, GPUs: 1, CPUs: 500}}
	// corpus: the depth-2 witness through the real allocate action (one queue, three
	// identical one-GPU jobs of priority 75 / 60 / 50, room for all). The bounded
	// queue must keep the two best whatever order InitializeWithJobs visits Go's map in.
	wc := cluster{Nodes: []int{8}, Depts: oneDept, Queues: []alQueue{leafQ(1, 8)}, Templates: oneGPU,
		Jobs: []alJob{{UID: 1, Queue: 1, Prio: 75}, {UID: 2, Queue: 1, Prio: 60}, {UID: 3, Queue: 1, Prio: 50}}}
	addTask("corpus:witness", wc, 2, 1)
	addTask("corpus:witness", wc, inf, 1)
	// corpus: an explicit spec.preemptibility wins over the priority. Queue 2 has a quota of one GPU,
	// taken by a running non-preemptible job; two identical pending jobs of queue 2 say "preemptible",
	// one with priority 125 (or 100, 99), one with priority 50; one GPU is left for them after queue 1's
	// in-quota job. The preemptible jobs may go over quota, so the higher priority gets the GPU; and the
	// mirror image: two jobs that say "non-preemptible" with priority 50 and 40 are both refused.
	for _, hi := range []int32{125, 100, 99} {
		pc := cluster{Nodes: []int{3}, Depts: oneDept, Queues: []alQueue{leafQ(1, 1), leafQ(2, 1)}, Templates: oneGPU,
			Jobs: []alJob{{UID: 1, Queue: 2, Prio: hi, Spec: specPreemptible}, {UID: 2, Queue: 2, Prio: 50, Spec: specPreemptible},
				{UID: 3, Queue: 1, Prio: 50}, {UID: 4, Queue: 2, Prio: 50, Spec: specNonPreemptible, Age: 1},
				{UID: 5, Queue: 2, Prio: 40, Spec: specNonPreemptible},
				{UID: 501, Queue: 2, Prio: 100, Template: -1, Running: "node0", RunGPUs: 1}}}
		addTask(fmt.Sprintf("corpus:explicit-preemptible-%d-vs-50", hi), pc, inf, 1)
	}
	// corpus: ghosts. A node with ONE GPU, leaf queue 1 with two identical one-GPU workloads - `low` (priority 50,
	// created first) and `high` (priority 60, created last), resp. `old` and `young` at priority 50 - and a ready
	// pending pod group `ghost` whose queue is not in the snapshot (deleted while the workload was pending). The
	// ghost must simply be skipped, wherever Go's map iteration meets it: run on 24 fresh sessions each.
	ghost := func(uid, kind, queue int, prio int32, age int64, ns string) alJob {
		return alJob{UID: uid, Queue: queue, Ghost: kind, Prio: prio, Age: age, NS: ns}
	}
	readme := func(a, b alJob, ghosts ...alJob) cluster {
		return cluster{Nodes: []int{1}, Depts: oneDept, Queues: []alQueue{leafQ(1, 1)}, Templates: oneGPU,
			Jobs: append([]alJob{a, b}, ghosts...)}
	}
	low, high := alJob{UID: 1, Queue: 1, Prio: 50, Age: 0}, alJob{UID: 2, Queue: 1, Prio: 60, Age: 1500}
	old, young := alJob{UID: 1, Queue: 1, Prio: 50, Age: 0}, alJob{UID: 2, Queue: 1, Prio: 50, Age: 1500}
	addTask("corpus:readme-priority-no-ghost", readme(low, high), inf, 4)
	addTask("corpus:readme-priority-with-ghost", readme(low, high, ghost(3, ghostMissing, 9001, 50, 1200, "")), inf, 24)
	addTask("corpus:readme-fifo-with-ghost", readme(young, old, ghost(3, ghostMissing, 9001, 50, 1200, "")), inf, 24)
	// the ghost in another namespace, with the highest priority and the oldest; two ghosts; ghosts of every kind
	addTask("corpus:ghost-other-namespace-top-priority", readme(low, high, ghost(3, ghostMissing, 9001, 125, -60, "other-ns")), inf, 8)
	addTask("corpus:two-ghosts-fifo", readme(young, old, ghost(3, ghostMissing, 9001, 50, 100, "team-a"),
		ghost(4, ghostMissing, 9002, 40, 2000, "")), inf, 8)
	addTask("corpus:ghost-of-non-leaf-queue", readme(low, high, ghost(3, ghostNonLeaf, 1001, 75, 10, "")), inf, 8)
	oc := readme(low, high, ghost(3, ghostOrphan, 801, 75, 10, "team-a"))
	oc.Orphans = []alQueue{{ID: 801, Dept: 1801, Deserved: 0, Limit: -1, Weight: 1, DeservedCPU: -1, LimitCPU: -1}}
	addTask("corpus:ghost-of-orphan-queue", oc, inf, 8)
	// two competing leaf queues, three comparable jobs each, room for three, three ghosts; unlimited and depth 2
	mc := cluster{Nodes: []int{2, 1}, Depts: oneDept, Queues: []alQueue{leafQ(1, 1), leafQ(2, 1)}, Templates: oneGPU,
		Jobs: []alJob{{UID: 1, Queue: 1, Prio: 50, Age: 5}, {UID: 2, Queue: 1, Prio: 50, Age: 2}, {UID: 3, Queue: 1, Prio: 75, Age: 7},
			{UID: 4, Queue: 2, Prio: 40, Age: 1}, {UID: 5, Queue: 2, Prio: 60, Age: 6}, {UID: 6, Queue: 2, Prio: 60, Age: 3},
			ghost(7, ghostMissing, 9001, 100, 0, "other-ns"), ghost(8, ghostMissing, 9001, 50, 4, ""), ghost(9, ghostNonLeaf, 1001, 60, 2, "team-a")}}
	addTask("corpus:two-queues-three-ghosts", mc, inf, 8)
	addTask("corpus:two-queues-three-ghosts", mc, 2, 8)
	// corpus: last-start stamps. The README world of seeded/C16-5: one 1-GPU node; leaf queue 1 holds `older`
	// (created at 0, started at 1800 - after `younger` was created -, lost its pods, pending again) and the identical
	// `younger` (created at 900, never started); a job of queue 2 competes in the same cycle. FIFO: `older` first.
	// Mirrors: the stamp on the younger job (after both creations, resp. before its own: clock skew), stamps on both
	// in reversed order, a stamped running job of the queue next to them, and the priority variant.
	stamped := func(j alJob, at int64) alJob { j.HasLS, j.LS = true, at; return j }
	twoQ := func(jobs ...alJob) cluster {
		return cluster{Nodes: []int{1}, Depts: oneDept, Queues: []alQueue{leafQ(1, 1), leafQ(2, 1)}, Templates: oneGPU, Jobs: jobs}
	}
	other := alJob{UID: 3, Queue: 2, Prio: 50, Age: 600}
	addTask("corpus:readme-requeued-older-vs-fresh-younger", twoQ(stamped(old, 1800), alJob{UID: 2, Queue: 1, Prio: 50, Age: 900}, other), inf, 3)
	addTask("corpus:readme-requeued-older-vs-fresh-younger", twoQ(stamped(old, 1800), alJob{UID: 2, Queue: 1, Prio: 50, Age: 900}, other), 1, 2)
	addTask("corpus:fresh-older-vs-requeued-younger", twoQ(old, stamped(alJob{UID: 2, Queue: 1, Prio: 50, Age: 900}, 1800), other), inf, 2)
	addTask("corpus:fresh-older-vs-skewed-younger", twoQ(old, stamped(alJob{UID: 2, Queue: 1, Prio: 50, Age: 900}, -30), stamped(other, 5)), inf, 2)
	addTask("corpus:both-requeued-stamps-reversed", twoQ(stamped(old, 1800), stamped(alJob{UID: 2, Queue: 1, Prio: 50, Age: 900}, 1000), other), inf, 2)
	addTask("corpus:requeued-low-vs-fresh-high", twoQ(stamped(low, 1), high, stamped(other, 100000)), inf, 2)
	rc := cluster{Nodes: []int{2}, Depts: oneDept, Queues: []alQueue{leafQ(1, 1), leafQ(2, 1)}, Templates: oneGPU,
		Jobs: []alJob{stamped(old, 1800), {UID: 2, Queue: 1, Prio: 50, Age: 900}, other,
			stamped(alJob{UID: 501, Queue: 1, Prio: 50, Template: -1, Running: "node0", RunGPUs: 1, Age: 3}, 1700)}}
	addTask("corpus:requeued-older-next-to-stamped-running-job", rc, inf, 2)

	for i := 0; i < nAL; i++ {
		r := root.Fork(uint64(2000000 + i))
		depth := inf
		if i%5 == 4 {
			depth = r.Range(1, 4)
		}
		pool := allocPrios
		if len(PickPrios(r)) == len(widePrios) {
			out.Count("al:wide-priorities")
			pool = allocWidePrios
		}
		c := genCluster(r, pool)
		rounds := 1
		// a third of the generated worlds carry 1-3 ghosts and are run on 2-3 fresh sessions
		// (own stream: the worlds themselves are the ones drawn without it)
		if g := root.Fork(uint64(3000000 + i)); i%3 == 1 {
			addGhosts(g, &c, pool)
			rounds = g.Range(2, 3)
		}
		// every job, independently of everything else (own stream): a last-start state
		addLastStarts(root.Fork(uint64(6000000+i)), &c)
		addTask(fmt.Sprintf("gen#%d", i), c, depth, rounds)
	}
	al := newAllocRunner() // initialises the scheduler's registries once; its controller is not used by the workers
	const workers = 12
	next := make(chan *alTask)
	var wg sync.WaitGroup
	reporters := make([]*reporter, workers)
	for w := 0; w < workers; w++ {
		rep := &reporter{}
		reporters[w] = rep
		runner := &allocRunner{reporter: rep, ctrl: gomock.NewController(rep)}
		wg.Add(1)
		go func() {
			defer wg.Done()
			for t := range next {
				t.res, t.err = runner.run(t.c, t.depth)
			}
		}()
	}
	for _, t := range tasks {
		next <- t
	}
	close(next)
	wg.Wait()
	for _, rep := range reporters {
		al.reporter.failed += rep.failed
	}
	for _, t := range tasks {
		if t.err != nil {
			return fmt.Errorf("allocate run %s: %w", t.origin, t.err)
		}
		emitAL(out, t.origin, t.c, t.depth, t.res)
	}
	if al.reporter.failed > 0 {
		out.Stats["gomock_reports"] = al.reporter.failed
	}
	out.Stats["rule"] = "one splitmix64 stream; after a fixed corpus (ties, elastic states, depth 0/1/2 witnesses; allocate: the depth-2 witness, and three clusters where two identical pending jobs that say preemptible, priority 125/100/99 and 50, compete for the last GPU of a queue whose quota a running non-preemptible job has taken): 40% PriorityQueue programs (push/pop/Fix(i)/re-prioritise-top+Fix(0), 4-36 ops then drained), 45% JobsOrderByQueues programs (2-6 leaf queues on 1-3 levels, 3-24 initial pushes, then pops / pushes / re-pushes with progress, then drained), 15% real allocate runs: 1-4 nodes of 2-8 GPUs, 1-2 departments (one in three with a GPU quota, one in four with a limit), 2-6 leaf queues with GPU quotas 0..half the cluster, one in three with a GPU limit at or just above its usage, some with cpu quotas / limits; running jobs first: in two of three queues non-preemptible running jobs use the queue's GPU quota fully (2 in 5), minus one, plus one or partly, plus preemptible running jobs over quota, at least a third of the cluster left free; 4-28 pending whole-GPU gang jobs from 2-3 templates, half of them in one hot queue and most of those of one template and one preemptibility; every job (running or pending) has spec.preemptibility preemptible / non-preemptible / unset, drawn independently of its priority (unset only when the priority alone gives the wanted preemptibility), so explicit-preemptible jobs at or above 100 and explicit-non-preemptible jobs below 100 are as frequent as the derived ones; priorities from {40,50,60,75,99,100,125} or, one in four, from the whole int32 range of a PriorityClass value (-2^31 .. 2^31-1, system classes included) plus 99 and 100; PQ/JO programs draw from {40,50,60,75,100,125} or the int32 range; every 4th queue program and every 5th allocate run uses a finite depth (label prefix finite-depth; checked like all others); a third of the generated allocate worlds carry 1-3 ghosts (ready pending pod groups, any namespace / priority / age / template: 3 in 5 of a queue that is not in the snapshot, 1 in 5 of a queue whose department is taken out of the session's queue map after the plugins opened, 1 in 5 of a department) and are run on 2-3 fresh sessions each (one case per round); corpus ghost worlds: the README world of seeded/C16-4 (one 1-GPU node, leaf queue with low/high resp. young/old, one ghost of a missing queue) 24 rounds per variant plus a 4-round control, and six more worlds (ghost in another namespace with top priority, two ghosts, ghost of a department, ghost of an orphan queue, two competing queues with three ghosts at unlimited depth and depth 2) 8 rounds each; every allocate run records what the real InitializeWithJobs + PopNextJob hand out and which jobs the action attempts, in order; comparable = same leaf queue, template, request and supposed preemptibility (explicit value, else derived from the priority as CalculatePreemptibility does; never PodGroupInfo.IsPreemptibleJob); every job of every stream (pending, with running pods, running, ghost) has a last-start state from its own PRNG stream, independent of everything else: none 3/8, 1-3 s before its own creation 1/8, 1-7 s after its creation (among the creation times of its competitors) 2/8, long after every creation 2/8, given through the real PodGroupInfo.SetPodGroup (annotation kai.scheduler/last-start-timestamp, RFC3339); corpus: the README pair of seeded/C16-5 and mirrors as PQ / JO programs and allocate worlds; non-trivial = PQ: >=3 pushes and >=2 pops; JO: jobs in >=2 queues and >=4 pushes; allocate: >=1 comparable pair with one job placed and one not"
	return out.Flush()
}

// corpus: fixed boundary programs, always run first.
func corpus(out *u.Out) {
	j := func(uid int, prio int32, ct int64, sub ...[2]int) jobSpec {
		if sub == nil {
			sub = [][2]int{{0, 1}}
		}
		return jobSpec{UID: uid, Queue: 1, Prio: prio, CTime: ct, Sub: sub}
	}
	fixed := func(maxSize int, name string, ops []pqOp) {
		i := 0
		got, obs := RunPQ(maxSize, func(step, length int) (pqOp, bool) {
			if i >= len(ops) {
				return pqOp{}, false
			}
			i++
			return ops[i-1], true
		})
		emitPQ(out, "corpus:"+name, maxSize, got, obs)
	}
	push := func(js jobSpec) pqOp { return pqOp{Kind: "push", Job: js} }
	pop := pqOp{Kind: "pop"}
	// priority, then creation time, then UID
	fixed(-1, "prio-fifo-uid", []pqOp{push(j(3, 50, 2)), push(j(1, 50, 2)), push(j(2, 50, 1)), push(j(4, 100, 9)), pop, pop, pop, pop, pop})
	// elastic: below minAvailable first, exactly at, above
	fixed(-1, "elastic-states", []pqOp{push(j(1, 50, 0, [2]int{3, 2})), push(j(2, 50, 1, [2]int{2, 2})), push(j(3, 50, 2, [2]int{1, 2})),
		push(j(4, 50, 3)), push(j(5, 50, 4, [2]int{2, 2}, [2]int{0, 1})), push(j(6, 50, 5, [2]int{2, 2}, [2]int{3, 1})), pop, pop, pop, pop, pop, pop})
	fixed(-1, "no-subgroups", []pqOp{push(jobSpec{UID: 1, Queue: 1, Prio: 50, CTime: 1}), push(j(2, 50, 0, [2]int{1, 1})), push(j(3, 50, 2)), pop, pop, pop})
	fixed(-1, "reprio", []pqOp{push(j(1, 100, 0)), push(j(2, 75, 0)), push(j(3, 50, 0)), {Kind: "reprio", Prio: 40}, pop, {Kind: "reprio", Prio: 125}, pop, pop, pop})
	// finite depth: the witness of C16_finite_depth_v0_refuted (priority 3, 1, 2 -> here 100, 50, 75);
	// before commit 4521da5 the depth-2 queue popped [u1,u3]
	witness := []pqOp{push(j(1, 100, 0)), push(j(3, 50, 0)), push(j(2, 75, 0)), pop, pop, pop}
	fixed(2, "witness-100-50-75", witness)
	fixed(-1, "witness-100-50-75", witness)
	fixed(1, "depth1", []pqOp{push(j(1, 50, 0)), push(j(2, 100, 0)), push(j(3, 75, 0)), pop, pop})
	fixed(0, "depth0", []pqOp{push(j(1, 50, 0)), pop})
	fixed(3, "depth3-fifo", []pqOp{push(j(1, 50, 1)), push(j(2, 50, 5)), push(j(3, 50, 4)), push(j(4, 50, 2)), push(j(5, 50, 3)), pop, pop, pop, pop})
	// last-start stamps (README pair of seeded/C16-5: the older job was started after the younger one was created,
	// lost its pods and is pending again) and its mirrors: FIFO reads the creation time only
	ls := func(js jobSpec, at int64) jobSpec { js.HasLS, js.LS = true, at; return js }
	fixed(-1, "requeued-older-vs-fresh-younger", []pqOp{push(j(2, 50, 900)), push(ls(j(1, 50, 0), 1800)), pop, pop, pop})
	fixed(-1, "fresh-older-vs-requeued-younger", []pqOp{push(ls(j(2, 50, 900), 1800)), push(j(1, 50, 0)), pop, pop, pop})
	fixed(-1, "both-requeued-stamps-reversed", []pqOp{push(ls(j(2, 50, 900), 1000)), push(ls(j(1, 50, 0), 1800)), push(ls(j(3, 50, 950), -5)), pop, pop, pop})
	fixed(-1, "same-creation-stamps-vs-uid", []pqOp{push(ls(j(1, 50, 7), 1800)), push(j(2, 50, 7)), push(ls(j(3, 50, 7), 3)), pop, pop, pop})
	fixed(2, "depth2-requeued-oldest", []pqOp{push(j(2, 50, 900)), push(j(3, 50, 950)), push(ls(j(1, 50, 0), 1800)), pop, pop, pop})
	fixed(-1, "requeued-with-running-pods", []pqOp{push(j(2, 50, 900, [2]int{1, 2})), push(ls(j(1, 50, 0, [2]int{1, 2}), 1800)), push(ls(j(3, 50, 5, [2]int{0, 2}), 1800)), pop, pop, pop})

	// the same witness through JobsOrderByQueues, two queues competing
	qs := []queueSpec{{ID: 1}, {ID: 2, Parent: 1, Leaf: true}, {ID: 3, Parent: 1, Leaf: true}}
	jq := func(uid, q int, prio int32) joOp {
		return joOp{Push: true, Job: jobSpec{UID: uid, Queue: q, Prio: prio, Sub: [][2]int{{0, 1}}}}
	}
	prog := []joOp{jq(1, 2, 100), jq(4, 3, 60), jq(3, 2, 50), jq(2, 2, 75), {}, {}, {}, {}, {}}
	emitJO(out, "corpus:witness", qs, 2, prog, RunJO(qs, 2, prog))
	emitJO(out, "corpus:witness", qs, -1, prog, RunJO(qs, -1, prog))
	// re-push with a changed head: the queue order must be refreshed (needsReorder)
	prog2 := []joOp{jq(1, 2, 100), jq(2, 2, 40), jq(3, 3, 60), jq(4, 3, 50), {}, jq(5, 2, 125), {}, {}, {}, {}, {}}
	emitJO(out, "corpus:reorder", qs, -1, prog2, RunJO(qs, -1, prog2))
	// three levels, single chain
	qs3 := []queueSpec{{ID: 1}, {ID: 2, Parent: 1}, {ID: 3, Parent: 2, Leaf: true}, {ID: 4, Parent: 2, Leaf: true}, {ID: 5, Parent: 1, Leaf: true}}
	prog3 := []joOp{jq(1, 3, 50), jq(2, 4, 75), jq(3, 5, 60), jq(4, 3, 100), {}, {}, jq(5, 5, 125), {}, {}, {}, {}}
	emitJO(out, "corpus:three-levels", qs3, -1, prog3, RunJO(qs3, -1, prog3))
	// the README pair of seeded/C16-5 in queue 2, queue 3 competing
	jl := func(uid, q int, ct int64, has bool, at int64) joOp {
		return joOp{Push: true, Job: jobSpec{UID: uid, Queue: q, Prio: 50, CTime: ct, Sub: [][2]int{{0, 1}}, HasLS: has, LS: at}}
	}
	prog4 := []joOp{jl(2, 2, 900, false, 0), jl(3, 3, 600, false, 0), jl(1, 2, 0, true, 1800), {}, {}, {}, {}}
	emitJO(out, "corpus:requeued-older-vs-fresh-younger", qs, -1, prog4, RunJO(qs, -1, prog4))
	emitJO(out, "corpus:requeued-older-vs-fresh-younger", qs, 1, prog4, RunJO(qs, 1, prog4))
}
