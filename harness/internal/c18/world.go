// Package c18 drives the real pod-grouper (podgrouper.GetPodOwners /
// GetPGMetadata, podgroup.Handler.ApplyToCluster, PodReconciler.Reconcile) on
// controller-runtime's fake client and emits the observations as Coq cases
// for Run/C18.v.
package c18

import (
	"context"
	"encoding/json"
	"fmt"
	"reflect"
	"sort"
	"unsafe"

	v1 "k8s.io/api/core/v1"
	schedulingv1 "k8s.io/api/scheduling/v1"
	apierrors "k8s.io/apimachinery/pkg/api/errors"
	metav1 "k8s.io/apimachinery/pkg/apis/meta/v1"
	"k8s.io/apimachinery/pkg/apis/meta/v1/unstructured"
	"k8s.io/apimachinery/pkg/runtime"
	"k8s.io/apimachinery/pkg/runtime/schema"
	"k8s.io/apimachinery/pkg/types"
	"k8s.io/client-go/tools/record"
	ctrl "sigs.k8s.io/controller-runtime"
	"sigs.k8s.io/controller-runtime/pkg/client"
	"sigs.k8s.io/controller-runtime/pkg/client/apiutil"
	"sigs.k8s.io/controller-runtime/pkg/client/fake"
	"sigs.k8s.io/controller-runtime/pkg/client/interceptor"

	kaiv2 "github.com/NVIDIA/KAI-scheduler/pkg/apis/scheduling/v2alpha2"
	controllers "github.com/NVIDIA/KAI-scheduler/pkg/podgrouper"
	"github.com/NVIDIA/KAI-scheduler/pkg/podgrouper/podgroup"
	"github.com/NVIDIA/KAI-scheduler/pkg/podgrouper/podgrouper"
	pluginshub "github.com/NVIDIA/KAI-scheduler/pkg/podgrouper/podgrouper/hub"
	"github.com/NVIDIA/KAI-scheduler/pkg/podgrouper/topowner"
)

const (
	ns            = "ns"
	schedulerName = "kai-scheduler"
	cmName        = "kai-defaults"
	cmNamespace   = "kai-system"
)

// Ref is an owner reference (apiVersion already split into group/version).
type Ref struct {
	Group, Version, Kind, Name, UID string
}

// Obj is an owner object of the cluster (metadata only — all the grouper
// plugins that are modelled read nothing else).
type Obj struct {
	Group, Version, Kind, Name, UID string
	Labels, Annots                  map[string]string
	Owners                          []Ref
	NS                              string // namespace; "" = the default namespace ns
	Spec                            map[string]interface{} `json:",omitempty"` // spec of the object (PyTorchJob replica specs); nil = empty
}

// Pod is a sibling pod.
type Pod struct {
	Name, UID      string
	Labels, Annots map[string]string
	Prio           string // spec.priorityClassName
	Owners         []Ref
	NS             string // namespace; "" = the default namespace ns
}

func nsOr(s string) string {
	if s == "" {
		return ns
	}
	return s
}

// CMEntry is one element of the defaults config map's "types" JSON array.
type CMEntry struct {
	TypeName       string `json:"typeName"`
	Group          string `json:"group"`
	PriorityName   string `json:"priorityName"`
	Preemptibility string `json:"preemptibility"`
}

// Config is the grouper's configuration plus the cluster-wide inputs it reads.
type Config struct {
	QueueKey, NodePoolKey string
	PrioClasses           []string  // names of existing PriorityClass objects
	CMState               int       // 0 not configured, 1 configured but unreadable, 2 present
	CM                    []CMEntry // when CMState == 2
}

type World struct {
	Cfg       Config
	Objs      []Obj
	Pods      []Pod
	Forbidden []string // kinds whose GET is answered 403 to the uncached client
}

func apiVersion(g, v string) string {
	if g == "" {
		return v
	}
	return g + "/" + v
}

func refs(rs []Ref) []interface{} {
	out := []interface{}{}
	for _, r := range rs {
		out = append(out, map[string]interface{}{
			"apiVersion": apiVersion(r.Group, r.Version), "kind": r.Kind, "name": r.Name, "uid": r.UID})
	}
	return out
}

func strMap(m map[string]string) map[string]interface{} {
	out := map[string]interface{}{}
	for k, v := range m {
		out[k] = v
	}
	return out
}

func (o Obj) unstructured() *unstructured.Unstructured {
	md := map[string]interface{}{"name": o.Name, "namespace": nsOr(o.NS), "uid": o.UID}
	if len(o.Labels) > 0 {
		md["labels"] = strMap(o.Labels)
	}
	if len(o.Annots) > 0 {
		md["annotations"] = strMap(o.Annots)
	}
	if len(o.Owners) > 0 {
		md["ownerReferences"] = refs(o.Owners)
	}
	spec := map[string]interface{}{}
	if o.Spec != nil {
		spec = runtime.DeepCopyJSON(o.Spec)
	}
	return &unstructured.Unstructured{Object: map[string]interface{}{
		"apiVersion": apiVersion(o.Group, o.Version), "kind": o.Kind, "metadata": md,
		"spec": spec,
	}}
}

func (p Pod) k8s() *v1.Pod {
	pod := &v1.Pod{
		TypeMeta:   metav1.TypeMeta{Kind: "Pod", APIVersion: "v1"},
		ObjectMeta: metav1.ObjectMeta{Name: p.Name, Namespace: nsOr(p.NS), UID: types.UID(p.UID)},
		Spec:       v1.PodSpec{SchedulerName: schedulerName, PriorityClassName: p.Prio},
	}
	if len(p.Labels) > 0 {
		pod.Labels = map[string]string{}
		for k, v := range p.Labels {
			pod.Labels[k] = v
		}
	}
	if len(p.Annots) > 0 {
		pod.Annotations = map[string]string{}
		for k, v := range p.Annots {
			pod.Annotations[k] = v
		}
	}
	for _, r := range p.Owners {
		pod.OwnerReferences = append(pod.OwnerReferences, metav1.OwnerReference{
			APIVersion: apiVersion(r.Group, r.Version), Kind: r.Kind, Name: r.Name, UID: types.UID(r.UID)})
	}
	return pod
}

// TopOwnerYaml is the oracle value the model receives for each object: the
// real rendering of the top-owner-metadata annotation.
func TopOwnerYaml(group, version, kind, name, uid string) string {
	u := &unstructured.Unstructured{}
	u.SetGroupVersionKind(schema.GroupVersionKind{Group: group, Version: version, Kind: kind})
	u.SetName(name)
	u.SetUID(types.UID(uid))
	md := topowner.GetTopOwnerMetadata(u)
	s, err := md.MarshalYAML()
	if err != nil {
		return "<marshal-error>"
	}
	return s
}

// ---- a running instance of the real code over one fake API store ---------

type nopRecorder struct{}

func (nopRecorder) Event(runtime.Object, string, string, string)                    {}
func (nopRecorder) Eventf(runtime.Object, string, string, string, ...interface{})   {}
func (nopRecorder) AnnotatedEventf(runtime.Object, map[string]string, string, string, string, ...interface{}) {
}

var _ record.EventRecorder = nopRecorder{}

// Calls counts the mutating API calls issued through the counting client.
type Calls struct{ Create, Update, Patch, Delete, Other int }

func (c Calls) Total() int { return c.Create + c.Update + c.Patch + c.Delete + c.Other }

type Instance struct {
	W          *World
	Base       client.WithWatch // uncounted access (foreign actors, observation)
	Counted    client.Client
	Grouper    podgrouper.Interface
	Handler    *podgroup.Handler
	Reconciler *controllers.PodReconciler
	calls      Calls
	// the answers of the API server to the GETs of the uncached client (fault worlds): the rule in force -
	// (namespace, kind) pairs answered 403, changed by grant / revoke events - and the transient faults of the
	// reconcile that is running (kind -> faultForbidden / faultNotFound / faultServer)
	rbac      map[[2]string]bool
	transient map[string]int
	ownerGets []string // the uncached GETs of the running reconcile with their answers (diagnostics)
}

const (
	faultForbidden = 1
	faultNotFound  = 2
	faultServer    = 3
)

func newScheme() *runtime.Scheme {
	s := runtime.NewScheme()
	must(v1.AddToScheme(s))
	must(schedulingv1.AddToScheme(s))
	must(kaiv2.AddToScheme(s))
	return s
}

func must(err error) {
	if err != nil {
		panic(err)
	}
}

// setField sets an unexported field of the real PodReconciler (the struct can
// only be completed by SetupWithManager, which needs a live manager).
func setField(obj interface{}, name string, val interface{}) {
	f := reflect.ValueOf(obj).Elem().FieldByName(name)
	if !f.IsValid() {
		panic("PodReconciler has no field " + name)
	}
	reflect.NewAt(f.Type(), unsafe.Pointer(f.UnsafeAddr())).Elem().Set(reflect.ValueOf(val))
}

func NewInstance(w *World) *Instance {
	in := &Instance{W: w}
	objs := []client.Object{}
	for _, o := range w.Objs {
		objs = append(objs, o.unstructured())
	}
	for _, p := range w.Pods {
		objs = append(objs, p.k8s())
	}
	for _, pc := range w.Cfg.PrioClasses {
		objs = append(objs, &schedulingv1.PriorityClass{ObjectMeta: metav1.ObjectMeta{Name: pc}, Value: 50})
	}
	cmN, cmNs := "", ""
	switch w.Cfg.CMState {
	case 1:
		cmN, cmNs = cmName, cmNamespace // configured, object absent
	case 2:
		cmN, cmNs = cmName, cmNamespace
		data, _ := json.Marshal(w.Cfg.CM)
		objs = append(objs, &v1.ConfigMap{ObjectMeta: metav1.ObjectMeta{Name: cmName, Namespace: cmNamespace},
			Data: map[string]string{"types": string(data)}})
	}
	in.Base = fake.NewClientBuilder().WithScheme(newScheme()).WithObjects(objs...).Build()
	in.Counted = interceptor.NewClient(in.Base, interceptor.Funcs{
		// the manager's client reads from the informer cache, whose reader stamps the
		// GroupVersionKind on typed objects (controller-runtime cache_reader.go); the fake
		// client strips it, so it is re-added here to give the reconciler what it sees in production
		Get: func(ctx context.Context, c client.WithWatch, key client.ObjectKey, obj client.Object, opts ...client.GetOption) error {
			if err := c.Get(ctx, key, obj, opts...); err != nil {
				return err
			}
			if _, isU := obj.(*unstructured.Unstructured); !isU {
				if _, isP := obj.(*metav1.PartialObjectMetadata); !isP {
					if gvk, err := apiutil.GVKForObject(obj, c.Scheme()); err == nil {
						obj.GetObjectKind().SetGroupVersionKind(gvk)
					}
				}
			}
			return nil
		},
		Create: func(ctx context.Context, c client.WithWatch, obj client.Object, opts ...client.CreateOption) error {
			in.calls.Create++
			return c.Create(ctx, obj, opts...)
		},
		Update: func(ctx context.Context, c client.WithWatch, obj client.Object, opts ...client.UpdateOption) error {
			in.calls.Update++
			return c.Update(ctx, obj, opts...)
		},
		Patch: func(ctx context.Context, c client.WithWatch, obj client.Object, patch client.Patch, opts ...client.PatchOption) error {
			in.calls.Patch++
			return c.Patch(ctx, obj, patch, opts...)
		},
		Delete: func(ctx context.Context, c client.WithWatch, obj client.Object, opts ...client.DeleteOption) error {
			in.calls.Delete++
			return c.Delete(ctx, obj, opts...)
		},
		DeleteAllOf: func(ctx context.Context, c client.WithWatch, obj client.Object, opts ...client.DeleteAllOfOption) error {
			in.calls.Other++
			return c.DeleteAllOf(ctx, obj, opts...)
		},
		SubResourceUpdate: func(ctx context.Context, c client.Client, sub string, obj client.Object, opts ...client.SubResourceUpdateOption) error {
			in.calls.Other++
			return c.SubResource(sub).Update(ctx, obj, opts...)
		},
		SubResourcePatch: func(ctx context.Context, c client.Client, sub string, obj client.Object, patch client.Patch, opts ...client.SubResourcePatchOption) error {
			in.calls.Other++
			return c.SubResource(sub).Patch(ctx, obj, patch, opts...)
		},
		SubResourceCreate: func(ctx context.Context, c client.Client, sub string, obj client.Object, subObj client.Object, opts ...client.SubResourceCreateOption) error {
			in.calls.Other++
			return c.SubResource(sub).Create(ctx, obj, subObj, opts...)
		},
	})
	forbidden := map[string]bool{}
	for _, k := range w.Forbidden {
		forbidden[k] = true
	}
	uncached := interceptor.NewClient(in.Base, interceptor.Funcs{
		Get: func(ctx context.Context, c client.WithWatch, key client.ObjectKey, obj client.Object, opts ...client.GetOption) error {
			kind := obj.GetObjectKind().GroupVersionKind().Kind
			// the authorizer first: a static refusal of the kind, the namespaced rule, a rule that is applied a moment later
			if forbidden[kind] || in.rbac[[2]string{key.Namespace, kind}] || in.transient[kind] == faultForbidden {
				in.ownerGets = append(in.ownerGets, kind+":403")
				return apierrors.NewForbidden(schema.GroupResource{Resource: kind}, key.Name, fmt.Errorf("rbac"))
			}
			switch in.transient[kind] {
			case faultNotFound:
				in.ownerGets = append(in.ownerGets, kind+":404")
				return apierrors.NewNotFound(schema.GroupResource{Resource: kind}, key.Name)
			case faultServer:
				in.ownerGets = append(in.ownerGets, kind+":500")
				return apierrors.NewInternalError(fmt.Errorf("etcd leader changed"))
			}
			in.ownerGets = append(in.ownerGets, kind+":ok")
			return c.Get(ctx, key, obj, opts...)
		},
	})
	hub := pluginshub.NewDefaultPluginsHub(in.Counted, false, false, w.Cfg.QueueKey, w.Cfg.NodePoolKey, cmN, cmNs)
	in.Grouper = podgrouper.NewPodgrouper(in.Counted, uncached, hub)
	in.Handler = podgroup.NewHandler(in.Counted, w.Cfg.NodePoolKey, w.Cfg.QueueKey)
	r := &controllers.PodReconciler{Client: in.Counted, Scheme: in.Base.Scheme(), PodGroupHandler: in.Handler}
	setField(r, "podGrouper", in.Grouper)
	setField(r, "configs", controllers.Configs{NodePoolLabelKey: w.Cfg.NodePoolKey, SchedulerName: schedulerName,
		SchedulingQueueLabelKey: w.Cfg.QueueKey, DefaultConfigPerTypeConfigMapName: cmN, DefaultConfigPerTypeConfigMapNamespace: cmNs})
	setField(r, "eventRecorder", record.EventRecorder(nopRecorder{}))
	in.Reconciler = r
	return in
}

// Reconcile runs the real PodReconciler.Reconcile on pod i; returns the
// mutating calls it issued and whether it returned an error.
func (in *Instance) Reconcile(i int) (Calls, bool) {
	in.calls = Calls{}
	in.ownerGets = nil
	_, err := in.Reconciler.Reconcile(context.Background(), ctrl.Request{NamespacedName: types.NamespacedName{Namespace: nsOr(in.W.Pods[i].NS), Name: in.W.Pods[i].Name}})
	return in.calls, err != nil
}

// ReconcileUnder runs Reconcile on pod i while the uncached GETs of the given kinds are answered with the given
// transient faults (in force during this reconcile only).
func (in *Instance) ReconcileUnder(i int, transient map[string]int) (Calls, bool) {
	in.transient = transient
	defer func() { in.transient = nil }()
	return in.Reconcile(i)
}

// SetRule grants (forbidden = false) or revokes (true) the right to GET kind in namespace.
func (in *Instance) SetRule(namespace, kind string, forbidden bool) {
	if in.rbac == nil {
		in.rbac = map[[2]string]bool{}
	}
	if forbidden {
		in.rbac[[2]string{namespace, kind}] = true
	} else {
		delete(in.rbac, [2]string{namespace, kind})
	}
}

// PodGroups lists the stored PodGroups sorted by name.
func (in *Instance) PodGroups() []kaiv2.PodGroup { return in.PodGroupsIn(ns) }

// PodGroupsIn lists the stored PodGroups of a namespace sorted by name.
func (in *Instance) PodGroupsIn(namespace string) []kaiv2.PodGroup {
	l := &kaiv2.PodGroupList{}
	must(in.Base.List(context.Background(), l, client.InNamespace(namespace)))
	sort.Slice(l.Items, func(a, b int) bool { return l.Items[a].Name < l.Items[b].Name })
	return l.Items
}

func (in *Instance) PodGroup(name string) *kaiv2.PodGroup { return in.PodGroupIn(ns, name) }

func (in *Instance) PodGroupIn(namespace, name string) *kaiv2.PodGroup {
	pg := &kaiv2.PodGroup{}
	if err := in.Base.Get(context.Background(), types.NamespacedName{Namespace: namespace, Name: name}, pg); err != nil {
		return nil
	}
	return pg
}

func (in *Instance) Pod(i int) *v1.Pod {
	p := &v1.Pod{}
	must(in.Base.Get(context.Background(), types.NamespacedName{Namespace: nsOr(in.W.Pods[i].NS), Name: in.W.Pods[i].Name}, p))
	return p
}
