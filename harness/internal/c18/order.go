package c18

// Order worlds (Run/C18.v CaseO, Model/GrouperOrder.v): ONE workload - a multi-role kind handled by a plugin
// (PyTorchJob Master / Worker) or a kind of the default grouper - whose top owner and pods carry the queue /
// project label in every combination: owner only, some pods only, owner and pods disagreeing, pods disagreeing
// among themselves. Every run is the real reconciler on a new store: every pod in one order, then once more in
// the same order; the runs of a world differ in the order only (all permutations up to 3 pods, 6 random ones
// otherwise). The scenario of seeded/C18-5: the PodGroup's spec.queue is written at creation only
// (Handler.ignoreFields), so a queue rule under which the pods of one workload compute different queues makes
// the PodGroup depend on the pod that is reconciled first.

import (
	"fmt"
	"sort"
	"strings"

	u "kaiverif/internal/util"
)

type oShape struct {
	name  string
	chain []Ref // direct owner first
	full  bool  // the model covers the kind
}

var kPyTorch = Ref{Group: "kubeflow.org", Version: "v1", Kind: "PyTorchJob"}

var oShapes = []oShape{
	{"pytorchjob", []Ref{kPyTorch}, false},
	{"statefulset", []Ref{kStateful}, true},
	{"replicaset", []Ref{kReplicaSet}, true},
	{"widget-crd", []Ref{kWidget}, true},
	{"widget>replicaset", []Ref{kReplicaSet, kWidget}, true},
	{"seldon", []Ref{kSeldon}, true},
}

// OWorld is a world of one workload together with what the generator meant.
type OWorld struct {
	World
	Shape   oShape
	Pattern string // which labels sit where
}

const projectKey = "project"

// calcQueue mirrors CalcPodGroupQueue of /repo HEAD (diagnostics for the label only; the monitor uses the model's).
func calcQueue(cfg Config, top, pod map[string]string) string {
	if q, ok := top[cfg.QueueKey]; ok {
		return q
	}
	if q, ok := pod[cfg.QueueKey]; ok {
		return q
	}
	project, ok := top[projectKey]
	if !ok {
		project = pod[projectKey]
	}
	if project == "" {
		return "default-queue"
	}
	if cfg.NodePoolKey != "" {
		if np, ok := pod[cfg.NodePoolKey]; ok {
			return project + "-" + np
		}
	}
	return project
}

// buildOrderWorld: owner chain of the shape, n pods; ownerQP / podQP = (queue, project) labels, "" = absent.
func buildOrderWorld(cfg Config, sh oShape, name, uid string, ownerLabels, ownerAnnots, tmplLabels, tmplAnnots map[string]string,
	prio string, ownerQP [2]string, podQP [][2]string, pattern string) *OWorld {
	n := len(podQP)
	w := &OWorld{World: World{Cfg: cfg}, Shape: sh, Pattern: pattern}
	var above *Ref
	objs := make([]Obj, len(sh.chain))
	for i := len(sh.chain) - 1; i >= 0; i-- {
		k := sh.chain[i]
		o := Obj{Group: k.Group, Version: k.Version, Kind: k.Kind, Name: name, UID: uid}
		if i < len(sh.chain)-1 {
			o.Name, o.UID = fmt.Sprintf("%s-%s", name, strings.ToLower(k.Kind)), fmt.Sprintf("%s-%s", uid, strings.ToLower(k.Kind))
		} else {
			o.Labels, o.Annots = map[string]string{}, map[string]string{}
			for k, v := range ownerLabels {
				o.Labels[k] = v
			}
			for k, v := range ownerAnnots {
				o.Annots[k] = v
			}
			delete(o.Labels, cfg.QueueKey)
			delete(o.Labels, projectKey)
			if ownerQP[0] != "" {
				o.Labels[cfg.QueueKey] = ownerQP[0]
			}
			if ownerQP[1] != "" {
				o.Labels[projectKey] = ownerQP[1]
			}
		}
		if above != nil {
			o.Owners = []Ref{*above}
		}
		if k.Kind == "PyTorchJob" {
			spec := map[string]interface{}{"Master": map[string]interface{}{"replicas": int64(1)}}
			if n > 1 {
				spec["Worker"] = map[string]interface{}{"replicas": int64(n - 1)}
			}
			o.Spec = map[string]interface{}{"pytorchReplicaSpecs": spec}
		}
		objs[i] = o
		above = &Ref{Group: k.Group, Version: k.Version, Kind: k.Kind, Name: o.Name, UID: o.UID}
	}
	w.Objs = objs
	workers := 0
	for j := 0; j < n; j++ {
		p := Pod{Name: fmt.Sprintf("%s-%d", name, j), UID: fmt.Sprintf("uid-%s-%d", name, j), Labels: map[string]string{}, Annots: map[string]string{}, Prio: prio,
			Owners: []Ref{*above}}
		for k, v := range tmplLabels {
			p.Labels[k] = v
		}
		for k, v := range tmplAnnots {
			p.Annots[k] = v
		}
		delete(p.Labels, cfg.QueueKey)
		delete(p.Labels, projectKey)
		p.Labels["pod-index"] = fmt.Sprint(j)
		if sh.chain[0].Kind == "PyTorchJob" {
			if j == 0 {
				p.Name = name + "-master-0"
				p.Labels["training.kubeflow.org/replica-type"] = "master"
				p.Labels["training.kubeflow.org/replica-index"] = "0"
			} else {
				p.Name = fmt.Sprintf("%s-worker-%d", name, workers)
				p.Labels["training.kubeflow.org/replica-type"] = "worker"
				p.Labels["training.kubeflow.org/replica-index"] = fmt.Sprint(workers)
				workers++
			}
			p.UID = "uid-" + p.Name
		}
		if podQP[j][0] != "" {
			p.Labels[cfg.QueueKey] = podQP[j][0]
		}
		if podQP[j][1] != "" {
			p.Labels[projectKey] = podQP[j][1]
		}
		w.Pods = append(w.Pods, p)
	}
	return w
}

// label combinations of one key over (owner, pods); "" = absent. The first pod is the master of a PyTorchJob.
func genKeyPattern(r *u.Rng, n int, vals [2]string) (string, string, []string) {
	pods := make([]string, n)
	switch r.Intn(8) {
	case 0:
		return "none", "", pods
	case 1:
		return "owner-only", vals[0], pods
	case 2: // some pods only
		if r.Chance(1, 4) { // the master only
			pods[0] = vals[1]
		} else {
			for j := 1; j < n; j++ {
				pods[j] = vals[1]
			}
		}
		return "some-pods-only", "", pods
	case 3: // every pod, the same value
		for j := range pods {
			pods[j] = vals[1]
		}
		return "all-pods-agree", "", pods
	case 4: // owner and (some) pods disagree
		for j := 1; j < n; j++ {
			pods[j] = vals[1]
		}
		if r.Bool() {
			pods[0] = vals[1]
		}
		return "owner-vs-pods", vals[0], pods
	case 5: // pods disagree among themselves, the owner is silent
		for j := range pods {
			pods[j] = vals[j%2]
		}
		if n > 2 && r.Bool() {
			pods[n-1] = ""
		}
		return "pods-disagree", "", pods
	case 6: // pods disagree among themselves, the owner speaks
		for j := range pods {
			pods[j] = vals[(j+1)%2]
		}
		if n > 2 && r.Bool() {
			pods[r.Intn(n)] = ""
		}
		return "owner+pods-disagree", vals[r.Intn(2)], pods
	default: // owner and pods agree
		for j := range pods {
			if r.Bool() {
				pods[j] = vals[0]
			}
		}
		return "owner-and-pods-agree", vals[0], pods
	}
}

func genOrderWorld(r *u.Rng, maxPods int) *OWorld {
	cfg := genConfig(r)
	sh := oShapes[0]
	if !r.Chance(1, 3) {
		sh = u.Pick(r, oShapes[1:])
	}
	n := r.Range(2, maxPods)
	ownerLabels := genLabels(r, cfg, true)
	ownerAnnots := genAnnots(r)
	tmplLabels := genLabels(r, cfg, false)
	tmplAnnots := genAnnots(r)
	delete(tmplAnnots, "kai.scheduler/top-owner-metadata")
	prio := ""
	if r.Chance(1, 4) {
		prio = u.Pick(r, []string{"train", "inference", "high", "nonexistent"})
	}
	qn, oq, pq := genKeyPattern(r, n, [2]string{"team-a", "team-b"})
	pn, op, pp := "none", "", make([]string, n)
	if r.Chance(1, 2) {
		pn, op, pp = genKeyPattern(r, n, [2]string{"proj1", "proj2"})
	}
	podQP := make([][2]string, n)
	for j := range podQP {
		podQP[j] = [2]string{pq[j], pp[j]}
	}
	name := u.Pick(r, []string{"train", "web", "llm"})
	return buildOrderWorld(cfg, sh, name, fmt.Sprintf("uid-%s-%04x", name, r.Intn(1<<16)), ownerLabels, ownerAnnots, tmplLabels, tmplAnnots, prio,
		[2]string{oq, op}, podQP, "queue:"+qn+",project:"+pn)
}

func orderCorpus(em *emitter, r *u.Rng) {
	cfg := Config{QueueKey: queueKey, NodePoolKey: nodePoolKey, PrioClasses: []string{"train"}}
	none := map[string]string{}
	q := func(vs ...string) [][2]string {
		out := make([][2]string, len(vs))
		for i, v := range vs {
			out[i] = [2]string{v, ""}
		}
		return out
	}
	pj := func(vs ...string) [][2]string {
		out := make([][2]string, len(vs))
		for i, v := range vs {
			out[i] = [2]string{"", v}
		}
		return out
	}
	for _, sh := range []oShape{oShapes[0], oShapes[1], oShapes[3]} {
		// seeded/C18-5/README.md: owner team-a, master without label, two workers team-b
		em.emitOrderWorld(r, "corpus-order-readme", buildOrderWorld(cfg, sh, "train", "11111111-1111-1111-1111-111111111111", none, none, none, none, "",
			[2]string{"team-a", ""}, q("", "team-b", "team-b"), "queue:owner-vs-pods,project:none"))
	}
	for _, sh := range []oShape{oShapes[0], oShapes[1]} {
		for _, owner := range []string{"", "team-a"} {
			for _, pods := range [][]string{{"", "team-b", "team-b"}, {"team-a", "team-b", "team-b"}, {"team-b", "team-b", "team-b"},
				{"", "", "team-b"}, {"team-b", "", ""}, {"", "", ""}, {"team-a", "team-b"}} {
				em.emitOrderWorld(r, "corpus-order", buildOrderWorld(cfg, sh, "train", "uid-train", none, none, none, none, "",
					[2]string{owner, ""}, q(pods...), fmt.Sprintf("queue:owner=%q,pods=%q", owner, pods)))
			}
			for _, pods := range [][]string{{"", "proj2", "proj2"}, {"proj1", "proj2", ""}, {"proj2", "proj2"}} {
				em.emitOrderWorld(r, "corpus-order", buildOrderWorld(cfg, sh, "train", "uid-train", none, none, map[string]string{nodePoolKey: "pool-a"}, none, "",
					[2]string{"", owner2project(owner)}, pj(pods...), fmt.Sprintf("project:owner=%q,pods=%q", owner2project(owner), pods)))
			}
		}
		// the owner names a project, a pod names a queue: the pod's queue label is asked before the owner's project
		em.emitOrderWorld(r, "corpus-order", buildOrderWorld(cfg, sh, "train", "uid-train", none, none, none, none, "",
			[2]string{"", "proj1"}, [][2]string{{"", ""}, {"team-b", ""}, {"team-b", "proj2"}}, "queue:some-pods-only,project:owner-vs-pods"))
	}
}

func owner2project(q string) string {
	if q == "" {
		return ""
	}
	return "proj1"
}

func (em *emitter) emitOrderWorld(r *u.Rng, origin string, ow *OWorld) {
	n := len(ow.Pods)
	perms := permutations(n)
	if n > 3 {
		rest := perms[1:]
		u.Shuffle(r, rest)
		perms = append([][]int{perms[0]}, rest[:5]...)
	}
	em.planned++
	em.jobs = append(em.jobs, func() *sink {
		k := &sink{}
		execOrderWorld(k, origin, ow, perms)
		return k
	})
}

func execOrderWorld(out *sink, origin string, ow *OWorld, perms [][]int) {
	in := newIntern()
	w := &ow.World
	runs := [][]Event{}
	for _, p := range perms {
		runs = append(runs, append(recs(p...), recs(p...)...))
	}
	wk := worldKeys(w, runs)
	rterms := []string{}
	agg := runStats{}
	type outcome struct {
		order []int
		dump  string
		queue string
	}
	outs := []outcome{}
	for i, evs := range runs {
		t, st := execRun(in, w, wk, evs)
		rterms = append(rterms, t)
		agg.errors += st.errors
		agg.reconciles += st.reconciles
		agg.writesRepeat = append(agg.writesRepeat, st.writesRepeat...)
		d, qs := []string{}, []string{}
		for _, g := range st.finals {
			g := g
			gq := g
			gq.Spec.Queue = ""
			d = append(d, g.Name+"="+in.pg(&gq))
			qs = append(qs, g.Name+":"+g.Spec.Queue)
		}
		outs = append(outs, outcome{perms[i], strings.Join(d, ";"), strings.Join(qs, ",")})
	}
	top := w.Objs[len(w.Objs)-1]
	podQ := []string{}
	distinct := map[string]bool{}
	for _, p := range w.Pods {
		v := calcQueue(w.Cfg, top.Labels, p.Labels)
		podQ = append(podQ, v)
		distinct[v] = true
	}
	decided := "first-pod-wins"
	if len(distinct) == 1 {
		decided = "decided:" + podQ[0]
	}
	verdict := "same-in-every-order"
	for _, o := range outs[1:] {
		if o.dump != outs[0].dump {
			verdict = fmt.Sprintf("PODGROUP-DEPENDS-ON-ORDER: order %v and order %v differ outside spec.queue", outs[0].order, o.order)
			break
		}
		if o.queue != outs[0].queue {
			verdict = fmt.Sprintf("QUEUE-DEPENDS-ON-ORDER: %s after order %v, %s after order %v", outs[0].queue, outs[0].order, o.queue, o.order)
			break
		}
	}
	sh := shape{name: ow.Shape.name, chain: ow.Shape.chain}
	kterm := fmt.Sprintf("{| k_cfg := %s; k_cluster := %s; k_pods := %s; k_chain := %s; k_check := CkGroup; k_runs := %s |}",
		in.config(w.Cfg, nil), u.ListOf(w.Objs, in.obj), u.ListOf(w.Pods, in.pod), chainTerm(in, sh), u.List(rterms))
	term := fmt.Sprintf("CaseO {| oc_k := %s; oc_top := %s; oc_full := %s |}", kterm, in.obj(top), u.Bool(ow.Shape.full))
	label := fmt.Sprintf("%s check=CkOrder shape=%s pods=%d orders=%d labels=%s rule=%s pod-queues=%v order=%s", origin, ow.Shape.name, len(w.Pods), len(perms),
		ow.Pattern, decided, podQ, verdict)
	out.Add(in.Wrap(term), label)
	out.Count("check:CkOrder")
	out.Count("origin:" + origin)
	out.Count("order-shape:" + ow.Shape.name)
	out.Count(fmt.Sprintf("order-pods:%d", len(w.Pods)))
	out.Count("order-rule:" + strings.SplitN(decided, ":", 2)[0])
	out.Count("order-verdict:" + strings.SplitN(verdict, ":", 2)[0])
	for _, part := range strings.Split(ow.Pattern, ",") {
		if strings.HasPrefix(part, "queue:") || strings.HasPrefix(part, "project:") {
			if !strings.Contains(part, "=") {
				out.Count("order-labels:" + part)
			}
		}
	}
	out.CountN("order:runs", len(runs))
	out.CountN("order:reconciles", agg.reconciles)
	out.CountN("reconciles", agg.reconciles)
	out.CountN("reconcile-errors", agg.errors)
	rw := sortedCopy(agg.writesRepeat)
	if len(rw) > 0 && rw[len(rw)-1] > 0 {
		out.Count("order:repeated-reconcile-wrote")
	}
	if agg.errors < agg.reconciles {
		keys := []string{}
		for k := range distinct {
			keys = append(keys, k)
		}
		sort.Strings(keys)
		out.NonTrivial(fmt.Sprintf("order|%s|%d|%s|%d", ow.Shape.name, len(w.Pods), ow.Pattern, len(keys)))
	}
	out.Sample(map[string]any{"label": label, "world": w, "runs": len(runs)})
}
