package c18

// Worlds with API faults on the owner GETs (Run/C18.v CaseF, Model/GrouperFaults.v): several namespaces,
// several workloads, the same owner kinds in different namespaces, an RBAC rule (namespace x kind -> 403) that
// changes over time, transient 403 / 404 / 500 answers during one reconcile. Every run executes its whole history
// on ONE instance of the real pod-grouper (NewInstance: one podgrouper.NewPodgrouper, one hub, one handler, one
// PodReconciler) over one fake API store; the reference runs are single reconciles on a new instance.

import (
	"fmt"
	"sort"
	"strings"

	kaiv2 "github.com/NVIDIA/KAI-scheduler/pkg/apis/scheduling/v2alpha2"

	u "kaiverif/internal/util"
)

var (
	kFoo = Ref{Group: "example.com", Version: "v1", Kind: "Foo"}
	kBar = Ref{Group: "example.com", Version: "v1", Kind: "Bar"}
)

// owner chains of the fault worlds: custom kinds (unstructured example.com/v1 objects) and known kinds
var fshapes = []shape{
	{"foo-crd", []Ref{kFoo}},
	{"foo>bar", []Ref{kFoo, kBar}},
	{"replicaset>foo", []Ref{kReplicaSet, kFoo}},
	{"skip:workflow>foo", []Ref{kFoo, kWorkflow}},
	{"statefulset", []Ref{kStateful}},
	{"deployment-rs", []Ref{kReplicaSet, kDeployment}},
	{"job", []Ref{kJob}},
	{"widget>job", []Ref{kJob, kWidget}},
	{"widget-crd", []Ref{kWidget}},
	{"skip:workflow>statefulset", []Ref{kStateful, kWorkflow}},
	{"skip:dynamo>widget>replicaset", []Ref{kReplicaSet, kWidget, kDynamo}},
	{"skip:trainjob>deployment-rs", []Ref{kReplicaSet, kDeployment, kTrainJob}},
	{"pod-owned-by-pod", []Ref{kPodOwner}},
}

type fworkload struct {
	NS    string
	Shape string
	Pods  int
}

// FWorld is a World whose objects and pods carry namespaces, plus the generator's intent per pod.
type FWorld struct {
	World
	Namespaces []string
	Chains     [][]Ref // per pod: kinds of its owners, direct owner first
	Workloads  []fworkload
}

type rulePair [2]string // (namespace, kind)

// FEvent: reconcile pod Rec under the transient faults (kind -> fault), or a rule change.
type FEvent struct {
	Rec       int
	Transient map[string]int
	Grant     *rulePair
	Revoke    *rulePair
}

type FRun struct {
	Rule      []rulePair
	Events    []FEvent
	Reference bool
}

func frecs(is ...int) []FEvent {
	out := make([]FEvent, len(is))
	for i, x := range is {
		out[i] = FEvent{Rec: x}
	}
	return out
}

func frecUnder(i int, kind string, fault int) FEvent {
	return FEvent{Rec: i, Transient: map[string]int{kind: fault}}
}

func fgrant(n, k string) FEvent  { return FEvent{Rec: -1, Grant: &rulePair{n, k}} }
func frevoke(n, k string) FEvent { return FEvent{Rec: -1, Revoke: &rulePair{n, k}} }

// addWorkload appends the owner objects and the pods of one workload: chain sh in namespace nsName, n sibling pods.
func (fw *FWorld) addWorkload(r *u.Rng, nsName string, sh shape, tag string, n int) {
	var above *Ref
	objs := make([]Obj, len(sh.chain))
	for i := len(sh.chain) - 1; i >= 0; i-- {
		k := sh.chain[i]
		name := fmt.Sprintf("%s-%s", strings.ToLower(k.Kind), tag)
		for _, below := range sh.chain[:i] {
			if below.Kind == k.Kind { // a kind twice in one chain
				name = fmt.Sprintf("%s-%s-up%d", strings.ToLower(k.Kind), tag, i)
			}
		}
		o := Obj{Group: k.Group, Version: k.Version, Kind: k.Kind, NS: nsName,
			Name: name, UID: fmt.Sprintf("uid-%s-%04x", name, r.Intn(1<<16)),
			Labels: genLabels(r, fw.Cfg, i == len(sh.chain)-1), Annots: genAnnots(r)}
		delete(o.Annots, "kai.scheduler/top-owner-metadata")
		if above != nil {
			o.Owners = []Ref{*above}
		}
		objs[i] = o
		above = &Ref{Group: k.Group, Version: k.Version, Kind: k.Kind, Name: o.Name, UID: o.UID}
	}
	tmplLabels := genLabels(r, fw.Cfg, false)
	tmplAnnots := genAnnots(r)
	delete(tmplAnnots, "kai.scheduler/top-owner-metadata")
	prio := ""
	if r.Chance(1, 4) {
		prio = u.Pick(r, []string{"train", "inference", "high", "nonexistent"})
	}
	for j := 0; j < n; j++ {
		p := Pod{Name: fmt.Sprintf("%s-%d", tag, j), UID: fmt.Sprintf("uid-pod-%s-%d-%04x", tag, j, r.Intn(1<<16)), NS: nsName,
			Labels: map[string]string{}, Annots: map[string]string{}, Prio: prio, Owners: []Ref{*above}}
		for k, v := range tmplLabels {
			p.Labels[k] = v
		}
		for k, v := range tmplAnnots {
			p.Annots[k] = v
		}
		p.Labels["pod-index"] = fmt.Sprint(j)
		fw.Pods = append(fw.Pods, p)
		fw.Chains = append(fw.Chains, sh.chain)
	}
	fw.Objs = append(fw.Objs, objs...)
	fw.Workloads = append(fw.Workloads, fworkload{nsName, sh.name, n})
}

// answerKey mirrors Run/C18.v answer_key: how many owners of the chain are readable and why the walk ends.
func answerKey(chain []Ref, fb, fail map[string]bool) [2]int {
	for j, k := range chain {
		if fb[k.Kind] {
			return [2]int{j, 1}
		}
		if fail[k.Kind] {
			return [2]int{j, 2}
		}
	}
	return [2]int{len(chain), 0}
}

func faultName(f int) string {
	switch f {
	case faultForbidden:
		return "403"
	case faultNotFound:
		return "404"
	default:
		return "500"
	}
}

func (in *intern) transient(tr map[string]int) string {
	fb, fail := []string{}, []string{}
	for k, f := range tr {
		if f == faultForbidden {
			fb = append(fb, k)
		} else {
			fail = append(fail, k)
		}
	}
	sort.Strings(fb)
	sort.Strings(fail)
	return fmt.Sprintf("{| tr_forbidden := %s; tr_failing := %s |}", u.ListOf(fb, in.S), u.ListOf(fail, in.S))
}

func (in *intern) rule(rule []rulePair) string {
	return u.ListOf(rule, func(p rulePair) string { return u.Pair(in.S(p[0]), in.S(p[1])) })
}

const noObs = "{| eo_writes := 0%Z; eo_err := false; eo_ann := None; eo_before := None; eo_after := None |}"

type frunStats struct {
	reconciles, errors, transients, ruleChanges int
	repeatWrites                                []int
}

// one observed reconcile, for the reference runs and the diagnostics of the label
type fobs struct {
	pod    int
	key    [2]int
	fb     []string // kinds answered 403 in the pod's namespace at that moment (rule + transient)
	fail   map[string]int
	err    bool
	ann    string
	run    int
	writes int
}

// execFaultRun plays one run on a new instance of the real code (one pod-grouper for the whole history).
func execFaultRun(in *intern, fw *FWorld, run FRun, runIdx int) (string, []fobs, frunStats) {
	inst := NewInstance(&fw.World)
	st := frunStats{}
	for _, p := range run.Rule {
		inst.SetRule(p[0], p[1], true)
	}
	terms := []string{}
	all := []fobs{}
	lastKey := map[int][2]int{}
	for _, e := range run.Events {
		switch {
		case e.Grant != nil:
			inst.SetRule(e.Grant[0], e.Grant[1], false)
			st.ruleChanges++
			terms = append(terms, fmt.Sprintf("(FGrantE %s %s, %s)", in.S(e.Grant[0]), in.S(e.Grant[1]), noObs))
		case e.Revoke != nil:
			inst.SetRule(e.Revoke[0], e.Revoke[1], true)
			st.ruleChanges++
			terms = append(terms, fmt.Sprintf("(FRevokeE %s %s, %s)", in.S(e.Revoke[0]), in.S(e.Revoke[1]), noObs))
		default:
			i := e.Rec
			nsName := nsOr(fw.Pods[i].NS)
			before := map[string]kaiv2.PodGroup{}
			for _, g := range inst.PodGroupsIn(nsName) {
				before[g.Name] = g
			}
			// the answers of the moment, for the key
			fb, fail := map[string]bool{}, map[string]bool{}
			for pr := range inst.rbac {
				if pr[0] == nsName {
					fb[pr[1]] = true
				}
			}
			for k, f := range e.Transient {
				if f == faultForbidden {
					fb[k] = true
				} else {
					fail[k] = true
				}
			}
			calls, failed := inst.ReconcileUnder(i, e.Transient)
			pod := inst.Pod(i)
			var ann *string
			var bpg, apg *kaiv2.PodGroup
			if v, ok := pod.Annotations["pod-group-name"]; ok {
				ann = &v
				if g, ok := before[v]; ok {
					bpg = &g
				}
				apg = inst.PodGroupIn(nsName, v)
			}
			terms = append(terms, fmt.Sprintf("(FRecE %s %s, {| eo_writes := %s; eo_err := %s; eo_ann := %s; eo_before := %s; eo_after := %s |})",
				u.Nat(i), in.transient(e.Transient), u.Z(int64(calls.Total())), u.Bool(failed), in.ostr(ann), in.opg(bpg), in.opg(apg)))
			st.reconciles++
			if failed {
				st.errors++
			}
			if len(e.Transient) > 0 {
				st.transients++
			}
			key := answerKey(fw.Chains[i], fb, fail)
			if k0, ok := lastKey[i]; ok && k0 == key && !failed {
				st.repeatWrites = append(st.repeatWrites, calls.Total())
			}
			if !failed {
				lastKey[i] = key
			}
			o := fobs{pod: i, key: key, err: failed, run: runIdx, writes: calls.Total(), fail: map[string]int{}}
			for k := range fb {
				o.fb = append(o.fb, k)
			}
			sort.Strings(o.fb)
			for k, f := range e.Transient {
				if f != faultForbidden {
					o.fail[k] = f
				}
			}
			if ann != nil {
				o.ann = *ann
			}
			all = append(all, o)
		}
	}
	final := []string{}
	for _, n := range fw.Namespaces {
		pgs := []string{}
		for _, g := range inst.PodGroupsIn(n) {
			g := g
			pgs = append(pgs, u.Pair(in.S(g.Name), in.pg(&g)))
		}
		final = append(final, u.Pair(in.S(n), u.List(pgs)))
	}
	anns := []string{}
	for i := range fw.Pods {
		var ann *string
		if v, ok := inst.Pod(i).Annotations["pod-group-name"]; ok {
			ann = &v
		}
		anns = append(anns, in.ostr(ann))
	}
	term := fmt.Sprintf("{| fu_rbac := %s; fu_events := %s; fu_final := %s; fu_final_ann := %s |}",
		in.rule(run.Rule), u.List(terms), u.List(final), u.List(anns))
	return term, all, st
}

func (fw *FWorld) podName(i int) string { return nsOr(fw.Pods[i].NS) + "/" + fw.Pods[i].Name }

func describeRun(fw *FWorld, run FRun) string {
	xs := []string{}
	for _, e := range run.Events {
		switch {
		case e.Grant != nil:
			xs = append(xs, fmt.Sprintf("grant(%s,%s)", e.Grant[0], e.Grant[1]))
		case e.Revoke != nil:
			xs = append(xs, fmt.Sprintf("revoke(%s,%s)", e.Revoke[0], e.Revoke[1]))
		default:
			s := fw.podName(e.Rec)
			keys := []string{}
			for k := range e.Transient {
				keys = append(keys, k)
			}
			sort.Strings(keys)
			for _, k := range keys {
				s += fmt.Sprintf("{one-shot %s on GET %s}", faultName(e.Transient[k]), k)
			}
			xs = append(xs, s)
		}
	}
	return fmt.Sprintf("rule=%v history=[%s]", run.Rule, strings.Join(xs, " "))
}

// execFaultWorld executes the runs, adds the reference runs (for every pod and every answer it got in some run:
// one reconcile on a new instance and an empty store under exactly those answers) and emits the case.
func execFaultWorld(out *sink, origin string, fw *FWorld, runs []FRun) {
	in := newIntern()
	rterms := []string{}
	all := []fobs{}
	agg := frunStats{}
	add := func(run FRun) {
		t, obs, st := execFaultRun(in, fw, run, len(rterms))
		rterms = append(rterms, t)
		all = append(all, obs...)
		agg.reconciles += st.reconciles
		agg.errors += st.errors
		agg.transients += st.transients
		agg.ruleChanges += st.ruleChanges
		agg.repeatWrites = append(agg.repeatWrites, st.repeatWrites...)
	}
	for _, run := range runs {
		add(run)
	}
	type pk struct {
		pod int
		key [2]int
	}
	seen := map[pk]bool{}
	nHist := len(all)
	for _, o := range all[:nHist] {
		k := pk{o.pod, o.key}
		if seen[k] {
			continue
		}
		seen[k] = true
		ref := FRun{Reference: true}
		for _, kind := range o.fb {
			ref.Rule = append(ref.Rule, rulePair{nsOr(fw.Pods[o.pod].NS), kind})
		}
		ev := FEvent{Rec: o.pod}
		if len(o.fail) > 0 {
			ev.Transient = o.fail
		}
		ref.Events = []FEvent{ev}
		runs = append(runs, ref)
		add(ref)
		out.Count("fault:reference-runs")
	}
	// diagnostics for the label (the verdict is the monitor's): the first pod that got two different PodGroups under
	// the same answers, the first siblings that were split under the same answers
	diag := ""
	first := map[pk]fobs{}
	for _, o := range all {
		if o.err {
			continue
		}
		k := pk{o.pod, o.key}
		if f, ok := first[k]; !ok {
			first[k] = o
		} else if f.ann != o.ann && diag == "" {
			diag = fmt.Sprintf("ASSIGNMENT-DEPENDS-ON-HISTORY: %s under answers readable=%d/stop=%d is in %q (run %d: %s) and in %q (run %d: %s)",
				fw.podName(o.pod), o.key[0], o.key[1], f.ann, f.run, describeRun(fw, runs[f.run]), o.ann, o.run, describeRun(fw, runs[o.run]))
		}
	}
	if diag == "" {
		for _, w := range agg.repeatWrites {
			if w > 0 {
				diag = "REPEATED-RECONCILE-WRITES"
			}
		}
	}
	if diag == "" {
		diag = "ok"
	}
	objs := map[string][]Obj{}
	for _, o := range fw.Objs {
		objs[nsOr(o.NS)] = append(objs[nsOr(o.NS)], o)
	}
	objTerms := []string{}
	for _, n := range fw.Namespaces {
		objTerms = append(objTerms, u.Pair(in.S(n), u.ListOf(objs[n], in.obj)))
	}
	podTerms := []string{}
	for i, p := range fw.Pods {
		podTerms = append(podTerms, fmt.Sprintf("{| fp_ns := %s; fp_pod := %s; fp_chain := %s |}", in.S(nsOr(p.NS)), in.pod(p),
			u.ListOf(fw.Chains[i], func(k Ref) string { return in.gvk(k.Group, k.Version, k.Kind) })))
	}
	term := fmt.Sprintf("CaseF {| fk_cfg := %s; fk_objs := %s; fk_pods := %s; fk_runs := %s |}",
		in.config(fw.Cfg, nil), u.List(objTerms), u.List(podTerms), u.List(rterms))
	wl := []string{}
	for _, w := range fw.Workloads {
		wl = append(wl, fmt.Sprintf("%s/%s x%d", w.NS, w.Shape, w.Pods))
	}
	label := fmt.Sprintf("%s check=CkFault workloads=[%s] pods=%d runs=%d(+%d reference) reconciles=%d faults=%s first-run: %s",
		origin, strings.Join(wl, ", "), len(fw.Pods), len(runs)-(len(all)-nHist), len(all)-nHist, agg.reconciles, diag, describeRun(fw, runs[0]))
	out.Add(in.Wrap(term), label)
	out.Count("check:CkFault")
	out.Count("origin:" + origin)
	out.Count("fault:" + strings.SplitN(diag, ":", 2)[0])
	out.Count(fmt.Sprintf("fault-world-namespaces:%d", len(fw.Namespaces)))
	out.Count(fmt.Sprintf("fault-world-workloads:%d", len(fw.Workloads)))
	out.Count(fmt.Sprintf("fault-world-pods:%d", len(fw.Pods)))
	for _, w := range fw.Workloads {
		out.Count("fault-shape:" + w.Shape)
	}
	out.CountN("reconciles", agg.reconciles)
	out.CountN("reconcile-errors", agg.errors)
	out.CountN("fault:reconciles", agg.reconciles)
	out.CountN("fault:reconciles-with-transient-fault", agg.transients)
	out.CountN("fault:reconciles-failed(404/500)", agg.errors)
	out.CountN("fault:rule-changes(grant/revoke)", agg.ruleChanges)
	out.CountN("fault:runs", len(runs))
	stopped := map[int]int{}
	for _, o := range all {
		stopped[o.key[1]]++
	}
	out.CountN("fault:walk-ends(chain-end)", stopped[0])
	out.CountN("fault:walk-ends(403)", stopped[1])
	out.CountN("fault:walk-ends(404/500)", stopped[2])
	if agg.errors < agg.reconciles {
		shapes := []string{}
		for _, w := range fw.Workloads {
			shapes = append(shapes, w.Shape)
		}
		sort.Strings(shapes)
		out.NonTrivial(fmt.Sprintf("fault|%s|%d|%d", strings.Join(shapes, ","), len(fw.Namespaces), len(fw.Pods)))
	}
	out.Sample(map[string]any{"label": label, "world": fw, "runs": len(runs)})
}

func (em *emitter) emitFaultWorld(origin string, fw *FWorld, runs []FRun) {
	em.planned++
	em.jobs = append(em.jobs, func() *sink {
		k := &sink{}
		execFaultWorld(k, origin, fw, runs)
		return k
	})
}

// ---- generators --------------------------------------------------------------

// kindsIn lists the (namespace, kind) pairs of the owner GETs the world's pods lead to.
func (fw *FWorld) rulePairs() []rulePair {
	seen := map[rulePair]bool{}
	out := []rulePair{}
	for i, p := range fw.Pods {
		for _, k := range fw.Chains[i] {
			pr := rulePair{nsOr(p.NS), k.Kind}
			if !seen[pr] {
				seen[pr] = true
				out = append(out, pr)
			}
		}
	}
	return out
}

// genTransient: a one-shot fault on the n-th owner GET of the pod's reconcile (by the kind asked for there);
// 1 in 8 on a kind the reconcile never asks for.
func genTransient(r *u.Rng, fw *FWorld, i int) map[string]int {
	chain := fw.Chains[i]
	kind := chain[r.Intn(len(chain))].Kind
	if r.Chance(1, 8) {
		kind = "Gadget"
	}
	fault := faultForbidden
	switch r.Intn(4) {
	case 2:
		fault = faultNotFound
	case 3:
		fault = faultServer
	}
	return map[string]int{kind: fault}
}

func genFaultWorld(r *u.Rng) (*FWorld, []FRun) {
	fw := &FWorld{World: World{Cfg: genConfig(r)}}
	all := []string{"team-a", "team-b", "team-c"}
	fw.Namespaces = all[:r.Range(2, 3)]
	a := u.Pick(r, fshapes)
	b := u.Pick(r, fshapes)
	nw := r.Range(2, 4)
	budget := 6
	for w := 0; w < nw && budget > 0; w++ {
		nsName := fw.Namespaces[w%len(fw.Namespaces)]
		if w >= 2 && r.Bool() {
			nsName = u.Pick(r, fw.Namespaces)
		}
		sh := a // the first two workloads: the same kinds in two namespaces
		if w >= 2 && r.Bool() {
			sh = b
		}
		n := r.Range(1, 3)
		if n > budget {
			n = budget
		}
		budget -= n
		fw.addWorkload(r, nsName, sh, string(rune('a'+w)), n)
	}
	pairs := fw.rulePairs()
	rule := []rulePair{}
	for _, p := range pairs {
		if r.Chance(1, 4) {
			rule = append(rule, p)
		}
	}
	if len(rule) == 0 && r.Chance(3, 4) {
		rule = append(rule, u.Pick(r, pairs))
	}
	n := len(fw.Pods)
	runs := []FRun{}
	anyOrder := func() []int {
		p := make([]int, n)
		for i := range p {
			p[i] = i
		}
		u.Shuffle(r, p)
		return p
	}
	// the rule stays as it is: interleaved reconcile orders
	if n <= 3 {
		for _, p := range permutations(n) {
			runs = append(runs, FRun{Rule: rule, Events: frecs(p...)})
		}
	} else {
		for k := 0; k < 3; k++ {
			runs = append(runs, FRun{Rule: rule, Events: frecs(anyOrder()...)})
		}
	}
	runs = append(runs, FRun{Rule: rule, Events: append(frecs(anyOrder()...), frecs(anyOrder()...)...)})
	// the rule changes, answers fail once
	for k, m := 0, r.Range(1, 2); k < m; k++ {
		evs := []FEvent{}
		if r.Bool() {
			evs = frecs(anyOrder()...)
		}
		for j, l := 0, r.Range(4, 10); j < l; j++ {
			switch x := r.Intn(10); {
			case x < 2:
				evs = append(evs, FEvent{Rec: -1, Grant: ptr(u.Pick(r, pairs))})
			case x < 4:
				evs = append(evs, FEvent{Rec: -1, Revoke: ptr(u.Pick(r, pairs))})
			case x < 6:
				i := r.Intn(n)
				evs = append(evs, FEvent{Rec: i, Transient: genTransient(r, fw, i)})
			default:
				evs = append(evs, FEvent{Rec: r.Intn(n)})
			}
		}
		evs = append(evs, frecs(anyOrder()...)...)
		evs = append(evs, frecs(anyOrder()...)...)
		runs = append(runs, FRun{Rule: rule, Events: evs})
	}
	return fw, runs
}

// faultCorpus: the deterministic fault worlds.
func faultCorpus(em *emitter, r *u.Rng) {
	cfg := Config{QueueKey: queueKey, NodePoolKey: nodePoolKey, PrioClasses: []string{"train"}}
	fooRef := func(name string) Ref { return Ref{"example.com", "v1", "Foo", name, "uid-" + name} }
	foo := func(nsName, name, queue string) Obj {
		return Obj{Group: "example.com", Version: "v1", Kind: "Foo", Name: name, UID: "uid-" + name, NS: nsName, Labels: map[string]string{queueKey: queue}}
	}
	fpod := func(nsName, name, owner string) Pod {
		return Pod{Name: name, UID: "uid-" + name, NS: nsName, Owners: []Ref{fooRef(owner)}}
	}
	readme := func() *FWorld {
		// seeded/C18-4/README.md: Foo team-b/train owns train-0 and train-1, Foo team-a/other owns other-0
		return &FWorld{World: World{Cfg: cfg,
			Objs: []Obj{foo("team-b", "train", "research"), foo("team-a", "other", "dev")},
			Pods: []Pod{fpod("team-b", "train-0", "train"), fpod("team-b", "train-1", "train"), fpod("team-a", "other-0", "other")}},
			Namespaces: []string{"team-a", "team-b"},
			Chains:     [][]Ref{{kFoo}, {kFoo}, {kFoo}},
			Workloads:  []fworkload{{"team-b", "foo-crd", 2}, {"team-a", "foo-crd", 1}}}
	}
	const t0, t1, o0 = 0, 1, 2
	{
		// the pod-grouper may read Foos in team-b but not in team-a: the five orders of the README, then every order
		rule := []rulePair{{"team-a", "Foo"}}
		runs := []FRun{}
		for _, order := range [][]int{{t0, t1}, {t0, t1, o0}, {t0, o0, t1}, {o0, t0, t1}, {t0, t1, o0, t0, t1}} {
			runs = append(runs, FRun{Rule: rule, Events: frecs(order...)})
		}
		for _, p := range permutations(3) {
			runs = append(runs, FRun{Rule: rule, Events: append(frecs(p...), frecs(p...)...)})
		}
		em.emitFaultWorld("corpus-faults(readme)", readme(), runs)
	}
	{
		// no rule; answers fail once: a 403 while the rule is being applied, a 404 / 500 of the API server
		runs := []FRun{
			{Events: []FEvent{frecUnder(t0, "Foo", faultForbidden), {Rec: t1}, {Rec: t0}, {Rec: t1}, {Rec: o0}}},
			{Events: []FEvent{frecUnder(o0, "Foo", faultForbidden), {Rec: t0}, {Rec: t1}, {Rec: o0}, {Rec: o0}}},
			{Events: []FEvent{frecUnder(t0, "Foo", faultNotFound), {Rec: t0}, frecUnder(t1, "Foo", faultServer), {Rec: t1}, {Rec: t0},
				frecUnder(t1, "Foo", faultForbidden), {Rec: t0}, {Rec: t1}, frecUnder(t0, "Bar", faultForbidden)}},
		}
		em.emitFaultWorld("corpus-faults(transient)", readme(), runs)
	}
	{
		// the right to read Foos in team-b is granted after the pods were first grouped, revoked later, granted again
		rule := []rulePair{{"team-b", "Foo"}}
		runs := []FRun{
			{Rule: rule, Events: append(append(append(append(frecs(t0, t1, o0), fgrant("team-b", "Foo")), frecs(t0, t1, t0, t1)...),
				frevoke("team-b", "Foo"), FEvent{Rec: t1}, frevoke("team-a", "Foo"), FEvent{Rec: t0}, FEvent{Rec: o0}, fgrant("team-b", "Foo")), frecs(t1, t0, o0, t1)...)},
			{Rule: rule, Events: append(append(frecs(t1), fgrant("team-b", "Foo")), frecs(t0, t1, t1)...)},
		}
		em.emitFaultWorld("corpus-faults(grant-revoke)", readme(), runs)
	}
	// known kinds and longer chains: the same workload in two namespaces, one of them behind a rule
	two := func(sh shape, pods int) *FWorld {
		fw := &FWorld{World: World{Cfg: cfg}, Namespaces: []string{"team-a", "team-b"}}
		fw.addWorkload(r, "team-a", sh, "a", pods)
		fw.addWorkload(r, "team-b", sh, "b", pods)
		return fw
	}
	for _, c := range []struct {
		sh   shape
		kind string
	}{
		{fshapes[4], "StatefulSet"},                 // statefulset: pods of team-a grouped one by one
		{fshapes[7], "Widget"},                      // widget>job: team-a grouped by the Job
		{fshapes[7], "Job"},                         // ... by the pod
		{fshapes[1], "Bar"},                         // foo>bar: team-a grouped by the Foo
		{fshapes[3], "Workflow"},                    // skip:workflow>foo: the skipped top owner may not be read
		{fshapes[10], "Widget"},                     // skip:dynamo>widget>replicaset: grouped by the ReplicaSet
		{fshapes[5], "Deployment"},                  // deployment-rs: grouped by the ReplicaSet instead of per pod
		{fshapes[11], "TrainJob"},                   // skip:trainjob>deployment-rs
		{shape{"foo>foo", []Ref{kFoo, kFoo}}, "Foo"}, // a kind twice in one chain
	} {
		fw := two(c.sh, 2)
		rule := []rulePair{{"team-a", c.kind}}
		runs := []FRun{}
		for _, order := range [][]int{{0, 1, 2, 3}, {2, 0, 3, 1}, {0, 2, 1, 3}, {3, 2, 1, 0, 0, 1, 2, 3}} {
			runs = append(runs, FRun{Rule: rule, Events: frecs(order...)})
		}
		runs = append(runs, FRun{Rule: rule, Events: append(append(append(frecs(0, 2), fgrant("team-a", c.kind)), frecs(1, 3, 0, 2)...),
			frevoke("team-b", c.kind), FEvent{Rec: 3}, frecUnder(1, c.sh.chain[0].Kind, faultServer), FEvent{Rec: 2}, FEvent{Rec: 1}, FEvent{Rec: 3})})
		em.emitFaultWorld("corpus-faults(two-namespaces)", fw, runs)
	}
}
