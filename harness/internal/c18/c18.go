package c18

import (
	"context"
	"fmt"
	"sort"
	"strings"

	"k8s.io/apimachinery/pkg/types"

	kaiv2 "github.com/NVIDIA/KAI-scheduler/pkg/apis/scheduling/v2alpha2"

	u "kaiverif/internal/util"
)

// ---- string interning: long / non-printable strings are let-bound once per case

type intern struct {
	names map[string]string
	order []string
}

func newIntern() *intern { return &intern{names: map[string]string{}} }

func (in *intern) S(s string) string {
	t := u.Str(s)
	if len(t) < 24 {
		return t
	}
	if n, ok := in.names[s]; ok {
		return n
	}
	n := fmt.Sprintf("s%d", len(in.order))
	in.names[s] = n
	in.order = append(in.order, s)
	return n
}

func (in *intern) Wrap(term string) string {
	var b strings.Builder
	b.WriteString("(")
	for i, s := range in.order {
		fmt.Fprintf(&b, "let s%d := %s in ", i, u.Str(s))
	}
	b.WriteString(term)
	b.WriteString(")")
	return b.String()
}

// ---- Coq printers ----------------------------------------------------------

func (in *intern) smap(m map[string]string) string {
	keys := make([]string, 0, len(m))
	for k := range m {
		keys = append(keys, k)
	}
	sort.Strings(keys)
	xs := make([]string, len(keys))
	for i, k := range keys {
		xs[i] = u.Pair(in.S(k), in.S(m[k]))
	}
	return u.List(xs)
}

func (in *intern) osmap(m map[string]string) string {
	if len(m) == 0 {
		return "None"
	}
	return "(Some " + in.smap(m) + ")"
}

func (in *intern) gvk(g, v, k string) string {
	return fmt.Sprintf("{| g_group := %s; g_version := %s; g_kind := %s |}", in.S(g), in.S(v), in.S(k))
}

func (in *intern) refs(rs []Ref) string {
	return u.ListOf(rs, func(r Ref) string {
		return fmt.Sprintf("{| r_gvk := %s; r_name := %s; r_uid := %s |}", in.gvk(r.Group, r.Version, r.Kind), in.S(r.Name), in.S(r.UID))
	})
}

func (in *intern) obj(o Obj) string {
	return fmt.Sprintf("{| o_gvk := %s; o_name := %s; o_uid := %s; o_labels := %s; o_annots := %s; o_owners := %s; o_tom := %s |}",
		in.gvk(o.Group, o.Version, o.Kind), in.S(o.Name), in.S(o.UID), in.smap(o.Labels), in.smap(o.Annots), in.refs(o.Owners),
		in.S(TopOwnerYaml(o.Group, o.Version, o.Kind, o.Name, o.UID)))
}

func (in *intern) pod(p Pod) string {
	return fmt.Sprintf("{| p_name := %s; p_uid := %s; p_labels := %s; p_annots := %s; p_prio := %s; p_owners := %s; p_tom := %s |}",
		in.S(p.Name), in.S(p.UID), in.smap(p.Labels), in.smap(p.Annots), in.S(p.Prio), in.refs(p.Owners),
		in.S(TopOwnerYaml("", "v1", "Pod", p.Name, p.UID)))
}

func (in *intern) config(c Config, forbidden []string) string {
	cm := "CmNone"
	switch c.CMState {
	case 1:
		cm = "CmError"
	case 2:
		cm = "(CmEntries " + u.ListOf(c.CM, func(e CMEntry) string {
			return fmt.Sprintf("{| e_type := %s; e_group := %s; e_prio := %s; e_preempt := %s |}", in.S(e.TypeName), in.S(e.Group), in.S(e.PriorityName), in.S(e.Preemptibility))
		}) + ")"
	}
	return fmt.Sprintf("{| c_queue_key := %s; c_nodepool_key := %s; c_prio_classes := %s; c_defaults := %s; c_forbidden := %s |}",
		in.S(c.QueueKey), in.S(c.NodePoolKey), u.ListOf(c.PrioClasses, in.S), cm, u.ListOf(forbidden, in.S))
}

func splitAPIVersion(av string) (string, string) {
	if i := strings.Index(av, "/"); i >= 0 {
		return av[:i], av[i+1:]
	}
	return "", av
}

func (in *intern) pg(g *kaiv2.PodGroup) string {
	owners := []string{}
	for _, o := range g.OwnerReferences {
		grp, ver := splitAPIVersion(o.APIVersion)
		owners = append(owners, fmt.Sprintf("{| w_group := %s; w_version := %s; w_kind := %s; w_name := %s; w_uid := %s |}",
			in.S(grp), in.S(ver), in.S(o.Kind), in.S(o.Name), in.S(string(o.UID))))
	}
	mark := "None"
	if g.Spec.MarkUnschedulable != nil {
		mark = "(Some " + u.Bool(*g.Spec.MarkUnschedulable) + ")"
	}
	backoff := "None"
	if g.Spec.SchedulingBackoff != nil {
		backoff = "(Some " + u.Z(int64(*g.Spec.SchedulingBackoff)) + ")"
	}
	sgs := "None"
	if g.Spec.SubGroups != nil {
		xs := []string{}
		for _, s := range g.Spec.SubGroups {
			par := "None"
			if s.Parent != nil {
				par = "(Some " + in.S(*s.Parent) + ")"
			}
			xs = append(xs, fmt.Sprintf("{| sg_name := %s; sg_min := %s; sg_parent := %s |}", in.S(s.Name), u.Z(int64(s.MinMember)), par))
		}
		sgs = "(Some " + u.List(xs) + ")"
	}
	t := g.Spec.TopologyConstraint
	return fmt.Sprintf("{| pg_labels := %s; pg_annots := %s; pg_owners := %s; sp_min := %s; sp_queue := %s; sp_prio := %s; sp_preempt := %s; sp_mark := %s; sp_backoff := %s; sp_subgroups := %s; sp_topo := {| t_preferred := %s; t_required := %s; t_topology := %s |} |}",
		in.osmap(g.Labels), in.osmap(g.Annotations), u.List(owners), u.Z(int64(g.Spec.MinMember)), in.S(g.Spec.Queue),
		in.S(g.Spec.PriorityClassName), in.S(string(g.Spec.Preemptibility)), mark, backoff, sgs,
		in.S(t.PreferredTopologyLevel), in.S(t.RequiredTopologyLevel), in.S(t.Topology))
}

func (in *intern) opg(g *kaiv2.PodGroup) string {
	if g == nil {
		return "None"
	}
	return "(Some " + in.pg(g) + ")"
}

func (in *intern) ostr(s *string) string {
	if s == nil {
		return "None"
	}
	return "(Some " + in.S(*s) + ")"
}

// ---- events ----------------------------------------------------------------

// KeyUpd sets (Val != nil) or deletes (Val == nil) one label / annotation key.
type KeyUpd struct {
	Key string
	Val *string
}

// Foreign is an update by another actor of the fields it owns; nil = leave alone. Labels / Annots are any
// other keys of the stored PodGroup (the scheduler's timestamp annotations, an administrator's keys), applied
// in order before NodePool / QLabel.
type Foreign struct {
	Queue    *string
	Mark     **bool
	Backoff  **int32
	NodePool **string // *nil = delete the label
	QLabel   **string
	Labels   []KeyUpd
	Annots   []KeyUpd
}

// quiet: the update touches label / annotation keys only
func (f *Foreign) quiet() bool {
	return f.Queue == nil && f.Mark == nil && f.Backoff == nil && f.NodePool == nil && f.QLabel == nil
}

// OwnerChange removes label / annotation keys from the owner object Idx of the world.
type OwnerChange struct {
	Idx                int
	DelLabels, DelAnns []string
}

type Event struct {
	Rec     int          // pod index, or -1
	Target  int          // foreign: index of the pod whose PodGroup is updated
	Foreign *Foreign     // foreign update
	Own     *OwnerChange // owner object loses keys
}

func (in *intern) foreign(f *Foreign) string {
	q := in.ostr(f.Queue)
	mark := "None"
	if f.Mark != nil {
		if *f.Mark == nil {
			mark = "(Some None)"
		} else {
			mark = "(Some (Some " + u.Bool(**f.Mark) + "))"
		}
	}
	bo := "None"
	if f.Backoff != nil {
		if *f.Backoff == nil {
			bo = "(Some None)"
		} else {
			bo = "(Some (Some " + u.Z(int64(**f.Backoff)) + "))"
		}
	}
	lab := func(l **string) string {
		if l == nil {
			return "None"
		}
		return "(Some " + in.ostr(*l) + ")"
	}
	keys := func(us []KeyUpd) string {
		return u.ListOf(us, func(x KeyUpd) string { return u.Pair(in.S(x.Key), in.ostr(x.Val)) })
	}
	return fmt.Sprintf("{| f_queue := %s; f_mark := %s; f_backoff := %s; f_nodepool := %s; f_qlabel := %s; f_labels := %s; f_annots := %s |}",
		q, mark, bo, lab(f.NodePool), lab(f.QLabel), keys(f.Labels), keys(f.Annots))
}

func (f *Foreign) describe() string {
	xs := []string{}
	if !f.quiet() {
		xs = append(xs, "fields")
	}
	for _, x := range f.Labels {
		if x.Val == nil {
			xs = append(xs, "-label:"+x.Key)
		} else {
			xs = append(xs, "label:"+x.Key)
		}
	}
	for _, x := range f.Annots {
		if x.Val == nil {
			xs = append(xs, "-annot:"+x.Key)
		} else {
			xs = append(xs, "annot:"+x.Key)
		}
	}
	return strings.Join(xs, ",")
}

func (inst *Instance) applyForeign(name string, f *Foreign) {
	pg := inst.PodGroup(name)
	if pg == nil {
		return
	}
	if f.Queue != nil {
		pg.Spec.Queue = *f.Queue
	}
	if f.Mark != nil {
		pg.Spec.MarkUnschedulable = *f.Mark
	}
	if f.Backoff != nil {
		pg.Spec.SchedulingBackoff = *f.Backoff
	}
	setLabel := func(key string, l **string) {
		if l == nil {
			return
		}
		if *l == nil {
			delete(pg.Labels, key)
			return
		}
		if pg.Labels == nil {
			pg.Labels = map[string]string{}
		}
		pg.Labels[key] = **l
	}
	for _, x := range f.Labels {
		v := x.Val
		setLabel(x.Key, &v)
	}
	for _, x := range f.Annots {
		if x.Val == nil {
			delete(pg.Annotations, x.Key)
			continue
		}
		if pg.Annotations == nil {
			pg.Annotations = map[string]string{}
		}
		pg.Annotations[x.Key] = *x.Val
	}
	setLabel(inst.W.Cfg.NodePoolKey, f.NodePool)
	setLabel(inst.W.Cfg.QueueKey, f.QLabel)
	must(inst.Base.Update(context.Background(), pg))
}

// applyOwner removes the keys from the stored owner object and returns the object as it is afterwards.
func (inst *Instance) applyOwner(cur Obj, c *OwnerChange) Obj {
	o := cur
	o.Labels = map[string]string{}
	o.Annots = map[string]string{}
	for k, v := range cur.Labels {
		o.Labels[k] = v
	}
	for k, v := range cur.Annots {
		o.Annots[k] = v
	}
	for _, k := range c.DelLabels {
		delete(o.Labels, k)
	}
	for _, k := range c.DelAnns {
		delete(o.Annots, k)
	}
	stored := o.unstructured()
	must(inst.Base.Get(context.Background(), types.NamespacedName{Namespace: ns, Name: o.Name}, stored))
	if len(o.Labels) == 0 {
		stored.SetLabels(nil)
	} else {
		stored.SetLabels(o.Labels)
	}
	if len(o.Annots) == 0 {
		stored.SetAnnotations(nil)
	} else {
		stored.SetAnnotations(o.Annots)
	}
	must(inst.Base.Update(context.Background(), stored))
	return o
}

// idemFlags classifies the repeated reconciles of a run that issued mutating calls (diagnostics for the
// label of a failing case only: the verdict is the monitor's, which demands zero calls).
type idemFlags struct{ noopUpdate, feedbackUpdate, repatch, other bool }

func (a *idemFlags) merge(b idemFlags) {
	a.noopUpdate = a.noopUpdate || b.noopUpdate
	a.feedbackUpdate = a.feedbackUpdate || b.feedbackUpdate
	a.repatch = a.repatch || b.repatch
	a.other = a.other || b.other
}

func (a idemFlags) String() string {
	xs := []string{}
	if a.noopUpdate {
		xs = append(xs, "noop-update")
	}
	if a.feedbackUpdate {
		xs = append(xs, "feedback-update")
	}
	if a.repatch {
		xs = append(xs, "repatch")
	}
	if a.other {
		xs = append(xs, "other-call")
	}
	if len(xs) == 0 {
		return "ok"
	}
	return "IDEM-VIOLATED:" + strings.Join(xs, ",")
}

type runStats struct {
	idem               idemFlags
	writesFirst        []int // mutating calls of the first reconcile of each pod
	writesRepeat       []int // mutating calls of repeated reconciles (no foreign update since)
	errors, reconciles int
	firstBad           string // the first repeated reconcile that wrote: which pod, after which event
}

// execRun plays the events on a fresh instance of the real code and returns the Coq term of the run.
func execRun(in *intern, w *World, evs []Event) (string, runStats) {
	inst := NewInstance(w)
	st := runStats{}
	seen := map[int]bool{}
	terms := []string{}
	objs := append([]Obj{}, w.Objs...)
	wk := worldKeys(w)
	lastEv := "start"
	for _, e := range evs {
		if e.Own != nil {
			objs[e.Own.Idx] = inst.applyOwner(objs[e.Own.Idx], e.Own)
			seen = map[int]bool{}
			lastEv = fmt.Sprintf("owner(%s)-lost(labels=%v,annots=%v)", objs[e.Own.Idx].Kind, e.Own.DelLabels, e.Own.DelAnns)
			terms = append(terms, fmt.Sprintf("(OwnE %s %s, {| eo_writes := 0%%Z; eo_err := false; eo_ann := None; eo_before := None; eo_after := None |})",
				u.Nat(e.Own.Idx), in.obj(objs[e.Own.Idx])))
			continue
		}
		if e.Rec >= 0 {
			before := map[string]kaiv2.PodGroup{}
			for _, g := range inst.PodGroups() {
				before[g.Name] = g
			}
			calls, failed := inst.Reconcile(e.Rec)
			pod := inst.Pod(e.Rec)
			var ann *string
			var bpg, apg *kaiv2.PodGroup
			if v, ok := pod.Annotations["pod-group-name"]; ok {
				ann = &v
				if g, ok := before[v]; ok {
					bpg = &g
				}
				apg = inst.PodGroup(v)
			}
			st.reconciles++
			if failed {
				st.errors++
			}
			if seen[e.Rec] {
				st.writesRepeat = append(st.writesRepeat, calls.Total())
				if calls.Total() > 0 && st.firstBad == "" {
					st.firstBad = fmt.Sprintf("pod%d-after-%s", e.Rec, lastEv)
				}
				if calls.Update > 0 {
					if bpg != nil && apg != nil && in.pg(bpg) == in.pg(apg) {
						st.idem.noopUpdate = true
					} else {
						st.idem.feedbackUpdate = true
					}
				}
				if calls.Patch > 0 {
					st.idem.repatch = true
				}
				if calls.Create+calls.Delete+calls.Other > 0 {
					st.idem.other = true
				}
			} else {
				st.writesFirst = append(st.writesFirst, calls.Total())
			}
			seen[e.Rec] = true
			terms = append(terms, fmt.Sprintf("(RecE %s, {| eo_writes := %s; eo_err := %s; eo_ann := %s; eo_before := %s; eo_after := %s |})",
				u.Nat(e.Rec), u.Z(int64(calls.Total())), u.Bool(failed), in.ostr(ann), in.opg(bpg), in.opg(apg)))
		} else {
			name := ""
			if v, ok := inst.Pod(e.Target).Annotations["pod-group-name"]; ok {
				name = v
			}
			bpg := inst.PodGroup(name)
			inst.applyForeign(name, e.Foreign)
			apg := inst.PodGroup(name)
			if !quietForeign(wk, e.Foreign) { // as the monitor: keys of other actors do not excuse a write
				seen = map[int]bool{}
			}
			lastEv = "foreign(" + e.Foreign.describe() + ")"
			terms = append(terms, fmt.Sprintf("(ForE %s %s, {| eo_writes := 0%%Z; eo_err := false; eo_ann := None; eo_before := %s; eo_after := %s |})",
				in.S(name), in.foreign(e.Foreign), in.opg(bpg), in.opg(apg)))
		}
	}
	final := []string{}
	for _, g := range inst.PodGroups() {
		g := g
		final = append(final, u.Pair(in.S(g.Name), in.pg(&g)))
	}
	anns := []string{}
	for i := range w.Pods {
		var ann *string
		if v, ok := inst.Pod(i).Annotations["pod-group-name"]; ok {
			ann = &v
		}
		anns = append(anns, in.ostr(ann))
	}
	return fmt.Sprintf("{| r_events := %s; r_final := %s; r_final_ann := %s |}", u.List(terms), u.List(final), u.List(anns)), st
}

// ---- generators ------------------------------------------------------------

type shape struct {
	name  string
	chain []Ref // kinds (group, version, kind) from the direct owner up to the top owner
}

var (
	kDeployment = Ref{Group: "apps", Version: "v1", Kind: "Deployment"}
	kReplicaSet = Ref{Group: "apps", Version: "v1", Kind: "ReplicaSet"}
	kStateful   = Ref{Group: "apps", Version: "v1", Kind: "StatefulSet"}
	kJob        = Ref{Group: "batch", Version: "v1", Kind: "Job"}
	kWidget     = Ref{Group: "example.com", Version: "v1", Kind: "Widget"}
	kWorkflow   = Ref{Group: "argoproj.io", Version: "v1alpha1", Kind: "Workflow"}
	kTraining   = Ref{Group: "run.ai", Version: "v2alpha1", Kind: "TrainingWorkload"}
	kTrainJob   = Ref{Group: "trainer.kubeflow.org", Version: "v1alpha1", Kind: "TrainJob"}
	kDynamo     = Ref{Group: "nvidia.com", Version: "v1alpha1", Kind: "DynamoGraphDeployment"}
	kSeldon     = Ref{Group: "machinelearning.seldon.io", Version: "v1", Kind: "SeldonDeployment"}
	kPodOwner   = Ref{Group: "", Version: "v1", Kind: "Pod"}
)

var shapes = []shape{
	{"bare-pod", nil},
	{"deployment-rs", []Ref{kReplicaSet, kDeployment}},
	{"job", []Ref{kJob}},
	{"statefulset", []Ref{kStateful}},
	{"replicaset", []Ref{kReplicaSet}},
	{"widget-crd", []Ref{kWidget}},
	{"seldon", []Ref{kSeldon}},
	{"skip:workflow>statefulset", []Ref{kStateful, kWorkflow}},
	{"skip:workflow>pod", []Ref{kWorkflow}},
	{"skip:workflow>job", []Ref{kJob, kWorkflow}},
	{"skip:trainingworkload*>widget", []Ref{kWidget, kTraining}},
	{"skip:trainjob>deployment-rs", []Ref{kReplicaSet, kDeployment, kTrainJob}},
	{"skip:dynamo>widget>replicaset", []Ref{kReplicaSet, kWidget, kDynamo}},
	{"widget>job", []Ref{kJob, kWidget}},
	{"pod-owned-by-pod", []Ref{kPodOwner}},
}

const (
	queueKey    = "kai.scheduler/queue"
	nodePoolKey = "kai.scheduler/node-pool"
)

func genLabels(r *u.Rng, cfg Config, rich bool) map[string]string {
	m := map[string]string{}
	if !rich && r.Chance(1, 3) {
		return m
	}
	if r.Chance(1, 3) {
		m[cfg.QueueKey] = u.Pick(r, []string{"team-a", "team-b", ""})
	}
	if r.Chance(1, 4) {
		m["project"] = u.Pick(r, []string{"proj1", "proj2", ""})
	}
	if r.Chance(1, 4) {
		m["priorityClassName"] = u.Pick(r, []string{"train", "inference", "build", "high", "nonexistent", ""})
	}
	if r.Chance(1, 4) {
		m["kai.scheduler/preemptibility"] = u.Pick(r, []string{"preemptible", "non-preemptible", "", "Preemptible", "bogus"})
	}
	if r.Chance(1, 5) {
		m["user"] = u.Pick(r, []string{"alice", "bob"})
	}
	if r.Chance(1, 3) {
		m["app"] = u.Pick(r, []string{"web", "trainer"})
	}
	if cfg.NodePoolKey != "" && r.Chance(1, 6) {
		m[cfg.NodePoolKey] = u.Pick(r, []string{"pool-a", "pool-b"})
	}
	return m
}

func genAnnots(r *u.Rng) map[string]string {
	m := map[string]string{}
	if r.Chance(1, 5) {
		m["kai.scheduler/topology"] = "topo-1"
		if r.Bool() {
			m["kai.scheduler/topology-required-placement"] = "rack"
		}
		if r.Bool() {
			m["kai.scheduler/topology-preferred-placement"] = "zone"
		}
	}
	if r.Chance(1, 4) {
		m["note"] = u.Pick(r, []string{"x", "some longer annotation value"})
	}
	if r.Chance(1, 8) {
		m["user"] = "carol"
	}
	if r.Chance(1, 12) {
		m["kai.scheduler/top-owner-metadata"] = "overridden-by-owner"
	}
	return m
}

func genConfig(r *u.Rng) Config {
	c := Config{QueueKey: queueKey, NodePoolKey: nodePoolKey}
	if r.Chance(1, 6) {
		c.NodePoolKey = ""
	}
	if r.Chance(1, 8) {
		c.QueueKey = "runai/queue"
	}
	for _, pc := range []string{"train", "inference", "build", "high"} {
		if r.Chance(2, 3) {
			c.PrioClasses = append(c.PrioClasses, pc)
		}
	}
	switch r.Intn(4) {
	case 0:
		c.CMState = 0
	case 1:
		if r.Chance(1, 3) {
			c.CMState = 1
		}
	default:
		c.CMState = 2
		pool := []CMEntry{
			{"StatefulSet", "apps", "high", "non-preemptible"},
			{"StatefulSet", "", "build", "Preemptible"},
			{"Deployment", "apps", "high", ""},
			{"Deployment", "", "nonexistent", "preemptible"},
			{"ReplicaSet", "apps", "build", "bogus"},
			{"Job", "batch", "build", "PREEMPTIBLE"},
			{"Pod", "", "high", "Non-Preemptible"},
			{"Widget", "example.com", "inference", "non-preemptible"},
			{"Workflow", "argoproj.io", "high", "preemptible"},
			{"Widget", "", "", "preemptible"},
			{"", "", "high", "preemptible"},
		}
		for i, n := 0, r.Range(0, 4); i < n; i++ {
			c.CM = append(c.CM, u.Pick(r, pool))
		}
	}
	return c
}

// genWorld builds one world of the given shape with n sibling pods. defect selects a malformed variant.
func genWorld(r *u.Rng, sh shape, n int, defect string) *World {
	w := &World{Cfg: genConfig(r)}
	// owner objects, top first so that references can be filled in
	var above *Ref
	objs := make([]Obj, len(sh.chain))
	for i := len(sh.chain) - 1; i >= 0; i-- {
		k := sh.chain[i]
		o := Obj{Group: k.Group, Version: k.Version, Kind: k.Kind,
			Name: fmt.Sprintf("%s-%d", strings.ToLower(k.Kind), i), UID: fmt.Sprintf("uid-%s-%d-%04x", strings.ToLower(k.Kind), i, r.Intn(1<<16)),
			Labels: genLabels(r, w.Cfg, i == len(sh.chain)-1), Annots: genAnnots(r)}
		if above != nil {
			o.Owners = []Ref{*above}
		}
		if k.Kind == "Pod" {
			o.Name = "launcher"
		}
		objs[i] = o
		above = &Ref{Group: k.Group, Version: k.Version, Kind: k.Kind, Name: o.Name, UID: o.UID}
	}
	tmplLabels := genLabels(r, w.Cfg, false)
	tmplAnnots := genAnnots(r)
	delete(tmplAnnots, "kai.scheduler/top-owner-metadata")
	prio := ""
	if r.Chance(1, 4) {
		prio = u.Pick(r, []string{"train", "inference", "high", "nonexistent"})
	}
	if r.Chance(1, 25) {
		tmplLabels["kai.scheduler/subgroup-name"] = "stale-subgroup"
	}
	switch defect {
	case "uid-mismatch":
		above.UID = "stale-uid"
	case "missing-owner":
		above.Name = "gone"
	case "two-owners-above":
		if len(objs) >= 1 {
			objs[0].Owners = append(objs[0].Owners, Ref{Group: "example.com", Version: "v1", Kind: "Widget", Name: "other", UID: "uid-other"})
		}
	case "forbidden-top":
		w.Forbidden = []string{sh.chain[len(sh.chain)-1].Kind}
	case "forbidden-direct":
		w.Forbidden = []string{sh.chain[0].Kind}
	case "user-annotation":
		tmplAnnots["pod-group-name"] = "my-own-group"
	}
	for j := 0; j < n; j++ {
		p := Pod{Name: fmt.Sprintf("w-%d", j), UID: fmt.Sprintf("uid-pod-%d-%04x", j, r.Intn(1<<16)), Labels: map[string]string{}, Annots: map[string]string{}, Prio: prio}
		for k, v := range tmplLabels {
			p.Labels[k] = v
		}
		for k, v := range tmplAnnots {
			p.Annots[k] = v
		}
		p.Labels["pod-index"] = fmt.Sprint(j) // a label that differs between siblings, as the workload controllers add
		if above != nil {
			p.Owners = []Ref{*above}
			if defect == "two-owner-refs" {
				p.Owners = append(p.Owners, Ref{Group: "example.com", Version: "v1", Kind: "Widget", Name: "second", UID: "uid-second"})
			}
		}
		w.Pods = append(w.Pods, p)
	}
	w.Objs = objs
	return w
}

func ptr[T any](v T) *T { return &v }

// keys of the scheduler (pkg/common/constants: LastStartTimeStamp, StalePodgroupTimeStamp, written by
// pkg/scheduler/cache/status_updater) and of an administrator; no generated owner or pod carries them
var (
	foreignAnnotKeys = []string{"kai.scheduler/last-start-timestamp", "kai.scheduler/stale-podgroup-timestamp", "admin.example.com/note"}
	foreignLabelKeys = []string{"admin.example.com/cost-center", "team-owner"}
	foreignValues    = map[string][]string{
		"kai.scheduler/last-start-timestamp":     {"2025-06-01T10:00:00Z", "2025-06-01T11:30:00Z"},
		"kai.scheduler/stale-podgroup-timestamp": {"2025-06-01T10:05:00Z", "2025-06-02T00:00:00Z"},
		"admin.example.com/note":                 {"do not delete", ""},
		"admin.example.com/cost-center":          {"cc-42", "cc-7"},
		"team-owner":                             {"ml-infra", "platform"},
	}
)

// worldKeys mirrors Run/C18.v world_keys: every label / annotation key some object of the world carries plus
// the keys the grouper writes by itself.
func worldKeys(w *World) map[string]bool {
	m := map[string]bool{w.Cfg.QueueKey: true, w.Cfg.NodePoolKey: true, "kai.scheduler/top-owner-metadata": true,
		"user": true, "pod-group-name": true, "kai.scheduler/subgroup-name": true}
	for _, o := range w.Objs {
		for k := range o.Labels {
			m[k] = true
		}
		for k := range o.Annots {
			m[k] = true
		}
	}
	for _, p := range w.Pods {
		for k := range p.Labels {
			m[k] = true
		}
		for k := range p.Annots {
			m[k] = true
		}
	}
	return m
}

func quietForeign(wk map[string]bool, f *Foreign) bool {
	if !f.quiet() {
		return false
	}
	for _, x := range f.Labels {
		if wk[x.Key] {
			return false
		}
	}
	for _, x := range f.Annots {
		if wk[x.Key] {
			return false
		}
	}
	return true
}

// genKeyUpds: add / change (2 in 3) or remove (1 in 3) one to three of the keys
func genKeyUpds(r *u.Rng, keys []string, max int) []KeyUpd {
	out := []KeyUpd{}
	for i, n := 0, r.Range(1, max); i < n; i++ {
		k := u.Pick(r, keys)
		if r.Chance(1, 3) {
			out = append(out, KeyUpd{Key: k})
		} else {
			out = append(out, KeyUpd{Key: k, Val: ptr(u.Pick(r, foreignValues[k]))})
		}
	}
	return out
}

// genKeyForeign: another actor labels / annotates the PodGroup and touches nothing else. first = the keys are
// set (the scheduler stamping a PodGroup that just started), otherwise set, changed or removed.
func genKeyForeign(r *u.Rng, first bool) *Foreign {
	f := &Foreign{}
	switch r.Intn(4) {
	case 0:
		f.Labels = genKeyUpds(r, foreignLabelKeys, 2)
	case 1, 2:
		f.Annots = genKeyUpds(r, foreignAnnotKeys, 3)
	default:
		f.Labels = genKeyUpds(r, foreignLabelKeys, 2)
		f.Annots = genKeyUpds(r, foreignAnnotKeys, 3)
	}
	if first {
		for i := range f.Labels {
			if f.Labels[i].Val == nil {
				f.Labels[i].Val = ptr(foreignValues[f.Labels[i].Key][0])
			}
		}
		for i := range f.Annots {
			if f.Annots[i].Val == nil {
				f.Annots[i].Val = ptr(foreignValues[f.Annots[i].Key][0])
			}
		}
	}
	return f
}

func genForeign(r *u.Rng, cfg Config) *Foreign {
	f := &Foreign{}
	for {
		if r.Chance(1, 2) {
			f.Queue = ptr(u.Pick(r, []string{"q-moved", "q-other", ""}))
		}
		if r.Chance(1, 2) {
			switch r.Intn(3) {
			case 0:
				f.Mark = ptr((*bool)(nil))
			case 1:
				f.Mark = ptr(ptr(true))
			default:
				f.Mark = ptr(ptr(false))
			}
		}
		if r.Chance(1, 2) {
			switch r.Intn(3) {
			case 0:
				f.Backoff = ptr((*int32)(nil))
			case 1:
				f.Backoff = ptr(ptr(int32(1)))
			default:
				f.Backoff = ptr(ptr(int32(-1)))
			}
		}
		if cfg.NodePoolKey != "" && r.Chance(1, 2) {
			if r.Chance(1, 3) {
				f.NodePool = ptr((*string)(nil))
			} else {
				f.NodePool = ptr(ptr(u.Pick(r, []string{"pool-x", "pool-y"})))
			}
		}
		if r.Chance(1, 4) {
			if r.Chance(1, 3) {
				f.QLabel = ptr((*string)(nil))
			} else {
				f.QLabel = ptr(ptr(u.Pick(r, []string{"ql-1", "ql-2"})))
			}
		}
		// the scheduler sets mark-unschedulable and its timestamps in one update
		if r.Chance(1, 3) {
			f.Annots = genKeyUpds(r, foreignAnnotKeys, 2)
		}
		if r.Chance(1, 6) {
			f.Labels = genKeyUpds(r, foreignLabelKeys, 1)
		}
		// another actor overwrites a key the grouper does compute: the next reconcile puts it back
		if r.Chance(1, 10) {
			f.Labels = append(f.Labels, KeyUpd{Key: "app", Val: ptr("hijacked")})
		}
		if r.Chance(1, 10) {
			f.Annots = append(f.Annots, KeyUpd{Key: "note", Val: ptr("hijacked")})
		}
		if !f.quiet() || len(f.Labels)+len(f.Annots) > 0 {
			return f
		}
	}
}

// genOwnerChange removes one or two label / annotation keys from an owner object (mostly the top owner, whose
// metadata the PodGroup copies); nil when no owner carries a key.
func genOwnerChange(r *u.Rng, w *World) *OwnerChange {
	cands := []int{}
	for i, o := range w.Objs {
		if len(o.Labels)+len(o.Annots) > 0 {
			cands = append(cands, i)
		}
	}
	if len(cands) == 0 {
		return nil
	}
	idx := cands[len(cands)-1]
	if r.Chance(1, 3) {
		idx = u.Pick(r, cands)
	}
	o := w.Objs[idx]
	type ka struct {
		key   string
		annot bool
	}
	keys := []ka{}
	for k := range o.Labels {
		keys = append(keys, ka{k, false})
	}
	for k := range o.Annots {
		keys = append(keys, ka{k, true})
	}
	sort.Slice(keys, func(a, b int) bool {
		if keys[a].annot != keys[b].annot {
			return !keys[a].annot
		}
		return keys[a].key < keys[b].key
	})
	u.Shuffle(r, keys)
	c := &OwnerChange{Idx: idx}
	for i, n := 0, r.Range(1, 2); i < n && i < len(keys); i++ {
		if keys[i].annot {
			c.DelAnns = append(c.DelAnns, keys[i].key)
		} else {
			c.DelLabels = append(c.DelLabels, keys[i].key)
		}
	}
	return c
}

func permutations(n int) [][]int {
	if n == 0 {
		return [][]int{{}}
	}
	out := [][]int{}
	var rec func(cur []int, used []bool)
	rec = func(cur []int, used []bool) {
		if len(cur) == n {
			out = append(out, append([]int{}, cur...))
			return
		}
		for i := 0; i < n; i++ {
			if !used[i] {
				used[i] = true
				rec(append(cur, i), used)
				used[i] = false
			}
		}
	}
	rec(nil, make([]bool, n))
	return out
}

func recs(is ...int) []Event {
	out := make([]Event, len(is))
	for i, x := range is {
		out[i] = Event{Rec: x}
	}
	return out
}

// groupRuns: all orders, a run with repeats, runs with foreign updates between reconciles.
func groupRuns(r *u.Rng, w *World, thorough bool) [][]Event {
	n := len(w.Pods)
	runs := [][]Event{}
	perms := permutations(n)
	if n > 3 {
		u.Shuffle(r, perms)
		perms = perms[:6]
	}
	for _, p := range perms {
		runs = append(runs, recs(p...))
	}
	// repeats in a random order
	rep := []int{}
	for i := 0; i < n; i++ {
		rep = append(rep, i, i)
	}
	if r.Bool() {
		rep = append(rep, r.Intn(n))
	}
	u.Shuffle(r, rep)
	runs = append(runs, recs(rep...))
	// foreign updates interleaved
	nf := 1
	if thorough {
		nf = 3
	}
	for k := 0; k < nf; k++ {
		evs := []Event{}
		order := r.Intn(len(perms))
		evs = append(evs, recs(perms[order]...)...)
		for round, rounds := 0, r.Range(1, 2); round < rounds; round++ {
			for j, m := 0, r.Range(1, 2); j < m; j++ {
				if r.Chance(1, 3) {
					evs = append(evs, Event{Rec: -1, Target: r.Intn(n), Foreign: genKeyForeign(r, round == 0 && j == 0)})
				} else {
					evs = append(evs, Event{Rec: -1, Target: r.Intn(n), Foreign: genForeign(r, w.Cfg)})
				}
			}
			// the workload's own metadata changes after another actor touched the PodGroup
			if oc := genOwnerChange(r, w); oc != nil && r.Chance(1, 2) {
				evs = append(evs, Event{Rec: -1, Own: oc})
			}
			again := perms[r.Intn(len(perms))]
			evs = append(evs, recs(again...)...)
		}
		runs = append(runs, evs)
	}
	return runs
}

// idemRuns: each pod twice in a row; everybody then everybody again; foreign update then twice; the PodGroup
// labelled / annotated by another actor, then everybody several times, the keys changed / removed, everybody
// again; an owner loses keys after the PodGroup was created, then everybody twice.
func idemRuns(r *u.Rng, w *World) [][]Event {
	n := len(w.Pods)
	runs := [][]Event{}
	runs = append(runs, recs(0, 0, 0))
	all := []int{}
	for i := 0; i < n; i++ {
		all = append(all, i)
	}
	if n > 1 {
		twice := append(append([]int{}, all...), all...)
		runs = append(runs, recs(twice...))
	}
	evs := recs(all...)
	evs = append(evs, Event{Rec: -1, Target: r.Intn(n), Foreign: genForeign(r, w.Cfg)})
	evs = append(evs, recs(all...)...)
	evs = append(evs, recs(all...)...)
	runs = append(runs, evs)
	// keys of other actors: the reconciles after them write nothing at all
	evs = recs(all...)
	evs = append(evs, Event{Rec: -1, Target: r.Intn(n), Foreign: genKeyForeign(r, true)})
	evs = append(evs, recs(all...)...)
	evs = append(evs, recs(all...)...)
	for i, m := 0, r.Range(1, 2); i < m; i++ {
		evs = append(evs, Event{Rec: -1, Target: r.Intn(n), Foreign: genKeyForeign(r, false)})
		evs = append(evs, recs(r.Intn(n))...)
	}
	evs = append(evs, recs(all...)...)
	runs = append(runs, evs)
	// a key is removed from an owner after the PodGroup was created (and another actor's key is there too)
	if oc := genOwnerChange(r, w); oc != nil {
		evs = recs(all...)
		if r.Bool() {
			evs = append(evs, Event{Rec: -1, Target: r.Intn(n), Foreign: genKeyForeign(r, true)})
		}
		evs = append(evs, Event{Rec: -1, Own: oc})
		evs = append(evs, recs(all...)...)
		evs = append(evs, recs(all...)...)
		runs = append(runs, evs)
	}
	return runs
}

func chainTerm(in *intern, sh shape) string {
	return u.ListOf(sh.chain, func(k Ref) string { return in.gvk(k.Group, k.Version, k.Kind) })
}

func sortedCopy(xs []int) []int { c := append([]int{}, xs...); sort.Ints(c); return c }

type emitter struct {
	out      *u.Out
	thorough bool
	extra    [][]Event // fixed runs added to the CkIdem case of the next world
}

func (em *emitter) emitWorld(r *u.Rng, origin string, sh shape, w *World, defect string) {
	staleSG := false
	for _, p := range w.Pods {
		if _, ok := p.Labels["kai.scheduler/subgroup-name"]; ok {
			staleSG = true
		}
	}
	desc := fmt.Sprintf("%s shape=%s pods=%d defect=%s cm=%d nodepoolkey=%q forbidden=%v stale-subgroup-label=%v", origin, sh.name, len(w.Pods), defect, w.Cfg.CMState, w.Cfg.NodePoolKey, w.Forbidden, staleSG)
	for _, check := range []string{"CkGroup", "CkIdem"} {
		in := newIntern()
		var runs [][]Event
		if check == "CkGroup" {
			runs = groupRuns(r, w, em.thorough)
		} else {
			runs = append(idemRuns(r, w), em.extra...)
		}
		rterms := []string{}
		agg := runStats{}
		for _, evs := range runs {
			for _, e := range evs {
				switch {
				case e.Own != nil:
					em.out.Count("event:owner-keys-removed")
				case e.Foreign != nil && quietForeign(worldKeys(w), e.Foreign):
					em.out.Count("event:foreign-keys-only")
				case e.Foreign != nil && len(e.Foreign.Labels)+len(e.Foreign.Annots) > 0:
					em.out.Count("event:foreign-fields+keys")
				case e.Foreign != nil:
					em.out.Count("event:foreign-fields")
				}
			}
			t, st := execRun(in, w, evs)
			rterms = append(rterms, t)
			agg.idem.merge(st.idem)
			agg.writesFirst = append(agg.writesFirst, st.writesFirst...)
			agg.writesRepeat = append(agg.writesRepeat, st.writesRepeat...)
			agg.errors += st.errors
			agg.reconciles += st.reconciles
			if agg.firstBad == "" {
				agg.firstBad = st.firstBad
			}
		}
		term := fmt.Sprintf("{| k_cfg := %s; k_cluster := %s; k_pods := %s; k_chain := %s; k_check := %s; k_runs := %s |}",
			in.config(w.Cfg, w.Forbidden), u.ListOf(w.Objs, in.obj), u.ListOf(w.Pods, in.pod), chainTerm(in, sh), check, u.List(rterms))
		label := fmt.Sprintf("%s check=%s", desc, check)
		if check == "CkIdem" {
			label += fmt.Sprintf(" repeat-writes=%v idem=%s", sortedCopy(agg.writesRepeat), agg.idem)
			if agg.firstBad != "" {
				label += " first=" + agg.firstBad
			}
			em.out.Count("idem:" + agg.idem.String())
			for _, x := range agg.writesRepeat {
				em.out.Count(fmt.Sprintf("repeat-reconcile-writes:%d", x))
			}
		} else {
			for _, x := range agg.writesFirst {
				em.out.Count(fmt.Sprintf("first-reconcile-writes:%d", x))
			}
		}
		em.out.Add(in.Wrap(term), label)
		em.out.Count("check:" + check)
		em.out.Count("shape:" + sh.name)
		em.out.Count("origin:" + origin)
		em.out.Count(fmt.Sprintf("pods:%d", len(w.Pods)))
		em.out.CountN("reconciles", agg.reconciles)
		em.out.CountN("reconcile-errors", agg.errors)
		if defect != "" {
			em.out.Count("defect:" + defect)
		}
		// non-trivial: at least one reconcile succeeded and (two or more pods, or a repeated reconcile, or a foreign update)
		if agg.errors < agg.reconciles {
			em.out.NonTrivial(fmt.Sprintf("%s|%d|%s|%s|%d|%v", sh.name, len(w.Pods), defect, check, w.Cfg.CMState, w.Cfg.NodePoolKey != ""))
		}
		em.out.Sample(map[string]any{"label": label, "world": w, "runs": len(runs)})
	}
}

// Run generates n cases (two per world) from seed and writes them under dir.
func Run(dir string, seed uint64, n int, tier string) error {
	out := u.NewOut(dir, "C18", "KaiV.Run.C18", "case", 20)
	em := &emitter{out: out, thorough: tier == "thorough"}
	root := u.NewRng(seed)
	maxPods := 3
	if em.thorough {
		maxPods = 4
	}
	// fixed boundary corpus: every shape with two pods, no labels anywhere, then with queue labels on the top owner
	cr := root.Fork(1 << 40)
	for _, sh := range shapes {
		w := genWorld(cr, sh, 2, "")
		em.emitWorld(cr, "corpus", sh, w, "")
	}
	{
		// the witness of C18_idempotent_v0_refuted: a StatefulSet pod without any label
		w := &World{Cfg: Config{QueueKey: queueKey, NodePoolKey: nodePoolKey},
			Objs: []Obj{{Group: "apps", Version: "v1", Kind: "StatefulSet", Name: "web", UID: "u-sts"}},
			Pods: []Pod{{Name: "web-0", UID: "u-p0", Owners: []Ref{{"apps", "v1", "StatefulSet", "web", "u-sts"}}}}}
		em.emitWorld(cr, "corpus-witness", shapes[3], w, "")
		// the witness of C18_reconcile_twice_before_repair / C18_annotation_feedback_*: a pod owned directly by a Workflow
		w2 := &World{Cfg: Config{QueueKey: queueKey, NodePoolKey: nodePoolKey},
			Objs: []Obj{{Group: "argoproj.io", Version: "v1alpha1", Kind: "Workflow", Name: "wf", UID: "u-wf", Labels: map[string]string{queueKey: "q1"}}},
			Pods: []Pod{{Name: "step-0", UID: "u-p0", Owners: []Ref{{"argoproj.io", "v1alpha1", "Workflow", "wf", "u-wf"}}}}}
		em.emitWorld(cr, "corpus-witness", shapes[8], w2, "")
		// regression inputs of the repairs 3f1c7d2 and 8227120 (theorems C18_stale_subgroup_* and
		// C18_annotation_feedback_*): every reconcile after the first must be silent for them
		sts := Obj{Group: "apps", Version: "v1", Kind: "StatefulSet", Name: "web", UID: "u-sts", Labels: map[string]string{queueKey: "team-a"}}
		stsRef := Ref{"apps", "v1", "StatefulSet", "web", "u-sts"}
		// a pod that carries a sub-group label although its group has no sub-groups
		w3 := &World{Cfg: Config{QueueKey: queueKey, NodePoolKey: nodePoolKey, PrioClasses: []string{"train"}},
			Objs: []Obj{sts},
			Pods: []Pod{{Name: "web-9", UID: "u-p9", Labels: map[string]string{"kai.scheduler/subgroup-name": "gone"}, Owners: []Ref{stsRef}},
				{Name: "web-8", UID: "u-p8", Owners: []Ref{stsRef}}}}
		em.emitWorld(cr, "corpus-regression", shapes[3], w3, "")
		// a pod whose direct owner the grouper may not GET is its own grouping object
		w4 := &World{Cfg: Config{QueueKey: queueKey, NodePoolKey: nodePoolKey, PrioClasses: []string{"train"}},
			Objs: []Obj{sts}, Forbidden: []string{"StatefulSet"},
			Pods: []Pod{{Name: "web-0", UID: "u-p0", Owners: []Ref{stsRef}}}}
		em.emitWorld(cr, "corpus-regression", shapes[3], w4, "forbidden-direct")
		// the skipped owner itself carries a pod-group-name annotation (propagated down to the pod), and so does a plain top owner
		w5 := &World{Cfg: Config{QueueKey: queueKey, NodePoolKey: nodePoolKey},
			Objs: []Obj{{Group: "argoproj.io", Version: "v1alpha1", Kind: "Workflow", Name: "wf", UID: "u-wf", Annots: map[string]string{"pod-group-name": "from-workflow", "note": "x"}}},
			Pods: []Pod{{Name: "step-0", UID: "u-p0", Annots: map[string]string{"user": "carol"}, Owners: []Ref{{"argoproj.io", "v1alpha1", "Workflow", "wf", "u-wf"}}},
				{Name: "step-1", UID: "u-p1", Annots: map[string]string{"pod-group-name": "given-by-user"}, Owners: []Ref{{"argoproj.io", "v1alpha1", "Workflow", "wf", "u-wf"}}}}}
		em.emitWorld(cr, "corpus-regression", shapes[8], w5, "")
		w6 := &World{Cfg: Config{QueueKey: queueKey, NodePoolKey: nodePoolKey},
			Objs: []Obj{{Group: "apps", Version: "v1", Kind: "StatefulSet", Name: "web", UID: "u-sts", Annots: map[string]string{"pod-group-name": "from-owner"}}},
			Pods: []Pod{{Name: "web-0", UID: "u-p0", Owners: []Ref{stsRef}}, {Name: "web-1", UID: "u-p1", Labels: map[string]string{"kai.scheduler/subgroup-name": "gone"}, Owners: []Ref{stsRef}}}}
		em.emitWorld(cr, "corpus-regression", shapes[3], w6, "")
	}
	{
		// another actor's keys on the stored PodGroup (theorems C18_idempotent_with_foreign_keys,
		// C18_swapped_comparison_writes_forever, C18_owner_key_removed): StatefulSet team-a/trainer with two pods;
		// the scheduler sets a backoff and the node-pool label, later its two timestamp annotations together with
		// mark-unschedulable, an administrator labels the PodGroup; every reconcile after a reconcile is silent,
		// and so is the first one after the pure label / annotation updates
		sts := Obj{Group: "apps", Version: "v1", Kind: "StatefulSet", Name: "trainer", UID: "uid-trainer",
			Labels: map[string]string{queueKey: "team-a", "app": "trainer"}, Annots: map[string]string{"note": "x"}}
		ref := Ref{"apps", "v1", "StatefulSet", "trainer", "uid-trainer"}
		w := &World{Cfg: Config{QueueKey: queueKey, NodePoolKey: nodePoolKey, PrioClasses: []string{"train"}},
			Objs: []Obj{sts},
			Pods: []Pod{{Name: "trainer-0", UID: "u-t0", Owners: []Ref{ref}}, {Name: "trainer-1", UID: "u-t1", Owners: []Ref{ref}}}}
		stamp := &Foreign{Mark: ptr(ptr(true)), Annots: []KeyUpd{
			{Key: "kai.scheduler/last-start-timestamp", Val: ptr("2025-06-01T10:00:00Z")},
			{Key: "kai.scheduler/stale-podgroup-timestamp", Val: ptr("2025-06-01T10:05:00Z")}}}
		restamp := &Foreign{Annots: []KeyUpd{
			{Key: "kai.scheduler/stale-podgroup-timestamp"},
			{Key: "kai.scheduler/last-start-timestamp", Val: ptr("2025-06-01T11:00:00Z")}}}
		admin := &Foreign{Labels: []KeyUpd{{Key: "team-owner", Val: ptr("ml-infra")}}, Annots: []KeyUpd{{Key: "admin.example.com/note", Val: ptr("do not delete")}}}
		evs := recs(0, 1, 0, 1)
		evs = append(evs, Event{Rec: -1, Target: 0, Foreign: &Foreign{Backoff: ptr(ptr(int32(1))), NodePool: ptr(ptr("pool-x"))}})
		evs = append(evs, recs(0, 1)...)
		evs = append(evs, Event{Rec: -1, Target: 0, Foreign: stamp})
		evs = append(evs, recs(0, 1, 0, 1, 0, 1)...)
		evs = append(evs, Event{Rec: -1, Target: 1, Foreign: restamp})
		evs = append(evs, recs(1, 0)...)
		evs = append(evs, Event{Rec: -1, Target: 0, Foreign: admin})
		evs = append(evs, recs(0, 1, 1, 0)...)
		// the owner loses a label and an annotation the PodGroup copied at creation
		evs2 := recs(0, 1)
		evs2 = append(evs2, Event{Rec: -1, Own: &OwnerChange{Idx: 0, DelLabels: []string{"app"}, DelAnns: []string{"note"}}})
		evs2 = append(evs2, recs(0, 1, 0, 1)...)
		em.extra = [][]Event{evs, evs2}
		em.emitWorld(cr, "corpus-foreign-keys", shapes[3], w, "")
		em.extra = nil
	}
	defects := []string{"uid-mismatch", "missing-owner", "two-owners-above", "forbidden-top", "forbidden-direct", "user-annotation", "two-owner-refs"}
	for i := 0; out.Len() < n; i++ {
		r := root.Fork(uint64(i))
		sh := shapes[i%len(shapes)]
		if r.Chance(1, 3) {
			sh = u.Pick(r, shapes)
		}
		defect := ""
		if i%5 == 4 { // malformed stream
			defect = u.Pick(r, defects)
			if len(sh.chain) == 0 && defect != "user-annotation" {
				defect = "user-annotation"
			}
			if defect == "forbidden-top" && len(sh.chain) < 2 {
				defect = "forbidden-direct"
			}
			if defect == "two-owners-above" && len(sh.chain) < 2 {
				defect = "missing-owner"
			}
		}
		w := genWorld(r, sh, r.Range(1, maxPods), defect)
		origin := "structured"
		if defect != "" {
			origin = "malformed"
		}
		em.emitWorld(r, origin, sh, w, defect)
	}
	out.Stats["rule"] = "worlds drawn from one splitmix64 stream: owner-chain shape (bare pod, Deployment>ReplicaSet, Job, StatefulSet, ReplicaSet, CRD, 6 skip-top-owner chains, pod-owned pod) x 1-3 sibling pods x labels/annotations/priority classes/defaults config map; every fifth world malformed (stale uid, missing owner, two owners, forbidden kinds, user-provided annotation); after a fixed corpus (every shape with 2 pods + the witnesses of the three repaired findings: owner without labels, Workflow-owned pod, stale sub-group label, forbidden direct owner, owners carrying a pod-group-name annotation + a StatefulSet whose PodGroup the scheduler stamps with kai.scheduler/last-start-timestamp / kai.scheduler/stale-podgroup-timestamp and an administrator labels, and whose owner then loses a label and an annotation); 1 world in 25 gives its pods a stale sub-group label. Events: reconcile pod i; foreign update of a PodGroup = queue / markUnschedulable / schedulingBackoff / node-pool label / queue label and/or labels and annotations of other actors set, changed, removed (the scheduler's two timestamp annotations, admin keys admin.example.com/note, admin.example.com/cost-center, team-owner; 1 in 10 overwrites a key the grouper computes); an owner object loses one or two label / annotation keys after the PodGroup was created. Each world gives a CkGroup case (all reconcile orders, a run with repeats, runs with foreign updates and owner changes between reconciles) and a CkIdem case (repeated reconciles; after a foreign update; after keys of other actors were put on / changed on / removed from the PodGroup, where also the FIRST reconcile must be silent; after an owner lost keys). non-trivial = at least one reconcile succeeded; distinct by (shape, pods, defect, check, config-map state, node-pool key configured)"
	return out.Flush()
}
